(* CFetchD/ProofsShort.v — the value theorem WITH the durability short-cut ([sc = true]), for
   programs in which every durability level an input ever has is written in every revision
   ([live_levels]: e.g. every input is LOW, whose last-changed revision is the current one).
   There the short-cut fires exactly for memos of NEVER-CHANGING durability — memos whose whole
   call closure reads no input — on the hot path without a claim (probe, then store: two shared
   steps, other handles interleave) and at the re-check after the claim.

   The invariant is CFetchD/ProofsVal.v's [InvD] with three additions: the pending store of the
   short-cut ([DMark]) knows the memo it returns (never-changing, verified now or still passing
   the probe); a frame that walks or executes holds a key whose memo fails the probe (so a
   pending store and a walker never meet on one key, although the store takes no claim); every
   recorded durability is never-changing or a live level.

   GAP (not proved): levels that are stable over a window without being never-changing (MEDIUM /
   HIGH inputs not written for some revisions).  There a memo becomes verified in a revision in
   which its callees were not visited; the ghost set [seen] must then be closed over the memo's
   call closure and the invariant needs the semantic durability of Core/DInv.v ([durge], the
   stable-window disjunct of [obs_pre], [m_dur mg <= m_dur md] for observers) and, for the model,
   a hypothesis tying durability changes to stamps. *)
From Salsa Require Import Base.
From Salsa.Proto Require Import Model ProofsList.
From Salsa.CFetch Require Import Model.
From Salsa.CFetchD Require Import Model ProofsRel ProofsSync ProofsVal ProofsTop.

Section Short.
Variable fuel : nat.
Variable Q : progD.
Variable rank : key -> nat.

Notation Ev := (ED Q rank).
Notation path r k := (readsb (Ev r) (d_in Q r) (d_body Q k)).

Definition live (d : dur) : Prop := forall r, d_lc Q r d = r.
Definition live_levels : Prop := forall r i, live (d_idur Q r i).
Definition lvl (d : dur) : Prop := d = DUR_MAX \/ live d.

(* the key's memo fails the short-cut probe *)
Definition nscut (mm : key -> option memoD) (cur : rev) (k : key) : Prop :=
  forall m, mm k = Some m -> shortcut Q true cur m = false.

(* what a pending short-cut store knows *)
Definition markok (mm : key -> option memoD) (cur : rev) (k : key) (r : retD) : Prop :=
  exists m, mm k = Some m /\ retm m = r /\ o_dur m = DUR_MAX /\
            (o_ver m = cur \/ (o_ver m < cur /\ shortcut Q true cur m = true)).

Definition frame_okS mm cur (pend : list key) (f : frameD) : Prop :=
  match h_phase f with
  | DMark _ r => markok mm cur (h_key f) r
  | DVerify _ _ => frame_okD Q rank mm cur pend f /\ nscut mm cur (h_key f)
  | DExec _ a | DPend _ _ a => frame_okD Q rank mm cur pend f /\ lvl (a_dur a) /\ nscut mm cur (h_key f)
  | _ => frame_okD Q rank mm cur pend f
  end.

Fixpoint stack_okS mm cur (pend : list key) (l : list frameD) : Prop :=
  match l with
  | [] => True
  | f :: b => frame_okS mm cur pend f /\ stack_okS mm cur [h_key f] b
  end.

Record InvS (seen : key -> rev -> Prop) (s : cstateD) : Prop := mkInvS {
  IS_memo : forall k m, cD_memo s k = Some m -> memo_okD Q rank seen (cD_cur s) k m;
  IS_seen : forall k r, seen k r -> r <= cD_cur s;
  IS_stack : forall t, stack_okS (cD_memo s) (cD_cur s) [] (stackD s t);
  IS_cur : 1 <= cD_cur s;
  IS_closed : forall k r d, seen k r -> In (ECall d) (path r k) -> seen d r \/ constk Q rank d;
  IS_log : forall t k r v, In (ERet t k r v) (cD_log s) -> v = Ev r k;
  IS_lvl : forall k m, cD_memo s k = Some m -> lvl (o_dur m)
}.

Lemma memo_factsS seen s d md :
  InvS seen s -> cD_memo s d = Some md -> o_ver md = cD_cur s ->
  Ev (cD_cur s) d = o_val md /\ o_chg md <= cD_cur s /\ o_dur md <= DUR_MAX /\
  (o_dur md = DUR_MAX -> constk Q rank d) /\ seen d (cD_cur s).
Proof.
  intros I Hm Hv.
  destruct (IS_memo _ _ I _ _ Hm) as (A & B & C & D & E0 & F & G & H).
  split; [apply D; [now rewrite <- Hv | lia] |]. split; [lia|]. split; auto.
  split; [intros E1; apply F; exact E1|]. now rewrite <- Hv.
Qed.

(* ---- a write to an unverified key leaves the other frames alone ---- *)
Lemma nscut_other mm mm' cur k0 k : (forall k', k' <> k0 -> mm' k' = mm k') -> k <> k0 ->
  nscut mm cur k -> nscut mm' cur k.
Proof. intros Hoth Hne H m Hm. rewrite Hoth in Hm by auto. apply H; exact Hm. Qed.

Lemma frame_stableS mm mm' cur k0 pend f :
  ~ ver2D mm cur k0 -> (forall k, k <> k0 -> mm' k = mm k) ->
  (h_key f = k0 -> walkingD (h_phase f) = false) ->
  (forall r, markok mm cur k0 r -> markok mm' cur k0 r) ->
  frame_okS mm cur pend f -> frame_okS mm' cur pend f.
Proof.
  intros Hun Hoth Hcond Hmk. unfold frame_okS.
  pose proof (frame_stableD Q rank mm mm' cur k0 pend f Hun Hoth Hcond) as HD.
  destruct (h_phase f) as [|cl r| | | |l ok|b a|d kont a|r|r] eqn:Eph; auto.
  - (* DMark *)
    destruct (N.eq_dec (h_key f) k0) as [E0|Hne]; [rewrite E0; apply Hmk|].
    intros (m & Hm & R). exists m. rewrite Hoth by auto. split; auto.
  - assert (Hne : h_key f <> k0) by (intros E0; specialize (Hcond E0); discriminate).
    intros [A B]. split; [apply HD; exact A | eapply nscut_other; eauto].
  - assert (Hne : h_key f <> k0) by (intros E0; specialize (Hcond E0); discriminate).
    intros (A & B & C). split; [apply HD; exact A|]. split; [exact B | eapply nscut_other; eauto].
  - assert (Hne : h_key f <> k0) by (intros E0; specialize (Hcond E0); discriminate).
    intros (A & B & C). split; [apply HD; exact A|]. split; [exact B | eapply nscut_other; eauto].
Qed.

Lemma stack_stableS mm mm' cur k0 : forall l pend,
  ~ ver2D mm cur k0 -> (forall k, k <> k0 -> mm' k = mm k) ->
  (forall f, In f l -> h_key f = k0 -> walkingD (h_phase f) = false) ->
  (forall r, markok mm cur k0 r -> markok mm' cur k0 r) ->
  stack_okS mm cur pend l -> stack_okS mm' cur pend l.
Proof.
  induction l as [|f b IH]; intros pend Hun Hoth Hc Hmk; cbn [stack_okS]; auto.
  intros [Hf Hb]. split.
  - eapply frame_stableS; eauto. apply Hc. now left.
  - apply IH; auto. intros f' Hf'. apply Hc. now right.
Qed.

(* ---- a returned (value, changed_at, durability) reaches a correct caller frame ---- *)
Lemma deliver_okS mm cur d md below :
  mm d = Some md -> o_ver md = cur -> Ev cur d = o_val md -> o_chg md <= cur ->
  o_dur md <= DUR_MAX -> (o_dur md = DUR_MAX -> constk Q rank d) -> lvl (o_dur md) ->
  stack_okS mm cur [d] below -> stack_okS mm cur [] (deliverD mm (retm md) below).
Proof.
  intros Hm Hv HE Hcc Hdu Hcst Hlv. destruct below as [|f b]; cbn [deliverD stack_okS]; auto.
  intros [Hf Hb].
  assert (HD : frame_okD Q rank mm cur [d] f ->
               stack_okD Q rank mm cur [] (deliverD mm (retm md) [f])).
  { intros Hfd. apply (deliver_okD Q rank mm cur d md [f] Hm Hv HE Hcc Hdu Hcst). cbn [stack_okD]. split; auto. }
  unfold frame_okS in Hf.
  destruct (h_phase f) as [|cl r0| | | |l ok|b0 a|d' kont a|r0|r0] eqn:Eph; cbn [stack_okS h_key].
  - split; [unfold frame_okS, frame_okD in *; rewrite Eph in *; exact Hf | exact Hb].
  - split; [unfold frame_okS; rewrite Eph; exact Hf | exact Hb].
  - split; [unfold frame_okS, frame_okD in *; rewrite Eph in *; exact Hf | exact Hb].
  - split; [unfold frame_okS, frame_okD in *; rewrite Eph in *; exact Hf | exact Hb].
  - split; [unfold frame_okS, frame_okD in *; rewrite Eph in *; exact Hf | exact Hb].
  - (* DVerify *)
    destruct Hf as [Hfd Hns]. specialize (HD Hfd). cbn [deliverD] in HD. rewrite Eph in HD.
    cbn [stack_okD] in HD. destruct HD as [HD _]. split; [|exact Hb].
    unfold frame_okS. cbn [h_phase h_key]. split; [exact HD | exact Hns].
  - destruct Hf as [Hfd _]. unfold frame_okD in Hfd. rewrite Eph in Hfd. destruct Hfd as [Hp _]. discriminate.
  - (* DPend *)
    destruct Hf as (Hfd & Hla & Hns). specialize (HD Hfd). cbn [deliverD] in HD. rewrite Eph in HD.
    cbn [stack_okD] in HD. destruct HD as [HD _]. split; [|exact Hb].
    unfold frame_okS. cbn [h_phase h_key]. split; [exact HD|]. split; [|exact Hns].
    unfold add_edge; cbn [a_dur retm r_dur].
    destruct (N.min_spec (a_dur a) (o_dur md)) as [[_ ->]|[_ ->]]; assumption.
  - split; [unfold frame_okS, frame_okD in *; rewrite Eph in *; exact Hf | exact Hb].
  - split; [unfold frame_okS, frame_okD in *; rewrite Eph in *; exact Hf | exact Hb].
Qed.

Lemma inv_nomemoS seen s t u :
  InvS seen s -> uD_memo u = cD_memo s ->
  stack_okS (cD_memo s) (cD_cur s) [] (uD_stack u) ->
  (forall t0 k r v, In (ERet t0 k r v) (uD_ev u) -> v = Ev r k) ->
  InvS seen (apply_updD s t u).
Proof.
  intros [A B C D E0 F G] Hm Hs Hl. constructor; cbn [cD_memo cD_cur cD_log apply_updD]; rewrite ?Hm; auto.
  - intros t'. rewrite stackD_apply. destruct (t =? t'); auto.
  - intros t0 k r v Hin. apply in_app_or in Hin as [Hin|Hin]; eauto.
Qed.

(* a memo write at k0 (by the holder of its claim, or the claim-free store of the short-cut) *)
Lemma inv_writeS seen s t u k0 below m' :
  InvS seen s ->
  forall ph, stackD s t = (k0 @@ ph) :: below ->
  ~ ver2D (cD_memo s) (cD_cur s) k0 ->
  (forall t' f, In f (stackD s t') -> (t' <> t \/ In f below) -> h_key f = k0 -> walkingD (h_phase f) = false) ->
  (forall r, markok (cD_memo s) (cD_cur s) k0 r -> markok (uD_memo u) (cD_cur s) k0 r) ->
  uD_memo u = updN (cD_memo s) k0 (Some m') -> 
  (forall t0 k r v, In (ERet t0 k r v) (uD_ev u) -> v = Ev r k) ->
  o_ver m' = cD_cur s -> lvl (o_dur m') ->
  memo_okD Q rank (fun k r => seen k r \/ (k = k0 /\ r = cD_cur s)) (cD_cur s) k0 m' ->
  (forall d, In (ECall d) (path (cD_cur s) k0) -> ver2D (cD_memo s) (cD_cur s) d \/ constk Q rank d) ->
  (stack_okS (uD_memo u) (cD_cur s) [k0] below ->
   stack_okS (uD_memo u) (cD_cur s) [] (uD_stack u)) ->
  InvS (fun k r => seen k r \/ (k = k0 /\ r = cD_cur s)) (apply_updD s t u).
Proof.
  intros I ph Hst Hun Hwalk Hmk Hm Hev Hv Hlv Hok Hcl Hs.
  assert (Hoth : forall k, k <> k0 -> uD_memo u k = cD_memo s k).
  { intros k Hk. rewrite Hm. now rewrite updN_other by auto. }
  assert (Hk0 : uD_memo u k0 = Some m') by (rewrite Hm; apply updN_same).
  constructor; cbn [cD_memo cD_cur cD_log apply_updD].
  - intros k m Hk. destruct (N.eq_dec k k0) as [->|Hne].
    + rewrite Hk0 in Hk. injection Hk as <-. exact Hok.
    + rewrite Hoth in Hk by auto. eapply memo_ok_mono; [| |eapply (IS_memo _ _ I); eauto].
      * intros k' r Hr. now left.
      * intros r [Hr|[E0 _]]; [auto | congruence].
  - intros k r [Hr | [_ ->]]; [eapply IS_seen; eauto | lia].
  - intros t'. rewrite stackD_apply. destruct (N.eqb_spec t t') as [<-|Hne].
    + apply Hs.
      pose proof (IS_stack _ _ I t) as Hokk. rewrite Hst in Hokk. cbn [stack_okS h_key] in Hokk.
      destruct Hokk as [_ Hb].
      eapply (stack_stableS (cD_memo s) (uD_memo u) (cD_cur s) k0);
        [exact Hun | exact Hoth | | exact Hmk | exact Hb].
      intros f Hf Hk. apply (Hwalk t f); [rewrite Hst; now right | now right | exact Hk].
    + eapply (stack_stableS (cD_memo s) (uD_memo u) (cD_cur s) k0);
        [exact Hun | exact Hoth | | exact Hmk | apply (IS_stack _ _ I)].
      intros f Hf Hk. apply (Hwalk t' f); auto.
  - apply (IS_cur _ _ I).
  - intros k r d [Hr | [-> ->]] Hin.
    + destruct (IS_closed _ _ I _ _ _ Hr Hin); [left; now left | now right].
    + destruct (Hcl _ Hin) as [(md & Hmd & Hvd)|Hc]; [|now right].
      destruct (IS_memo _ _ I _ _ Hmd) as (_ & _ & Hsn & _). left. left. now rewrite <- Hvd.
  - intros t0 k r v Hin. apply in_app_or in Hin as [Hin|Hin]; [eauto | eapply IS_log; eauto].
  - intros k m Hk. destruct (N.eq_dec k k0) as [->|Hne].
    + rewrite Hk0 in Hk. injection Hk as <-. exact Hlv.
    + rewrite Hoth in Hk by auto. eapply IS_lvl; eauto.
Qed.


(* ---- frames found anywhere in a stack ---- *)
Lemma stack_frameS mm cur : forall l pend f, stack_okS mm cur pend l -> In f l ->
  exists pend', frame_okS mm cur pend' f.
Proof.
  induction l as [|f0 b IH]; intros pend f Hok Hin; [destruct Hin|].
  cbn [stack_okS] in Hok. destruct Hok as [Hf Hb]. destruct Hin as [<-|Hin]; [eauto | eapply IH; eauto].
Qed.

Lemma walking_nscut mm cur pend f : frame_okS mm cur pend f -> walkingD (h_phase f) = true ->
  nscut mm cur (h_key f).
Proof.
  unfold frame_okS. destruct (h_phase f); try discriminate; intros H _; apply H.
Qed.

Lemma adv_lvl cur : live_levels -> forall b a, lvl (a_dur a) -> lvl (a_dur (snd (adv Q cur b a))).
Proof.
  intros LL. induction b as [v|i k IH|d k IH]; intros a Ha; cbn [adv snd]; auto.
  apply IH. unfold add_edge; cbn [a_dur].
  destruct (N.min_spec (a_dur a) (d_idur Q cur i)) as [[_ ->]|[_ ->]]; [exact Ha | right; apply LL].
Qed.

(* a memo of never-changing durability is valid in every revision *)
Lemma never_memo seen s k m :
  rankedD Q rank -> InvS seen s -> cD_memo s k = Some m -> o_dur m = DUR_MAX ->
  Ev (cD_cur s) k = o_val m /\
  memo_okD Q rank (fun k0 r => seen k0 r \/ (k0 = k /\ r = cD_cur s)) (cD_cur s) k (verified_now (cD_cur s) m) /\
  (forall d, In (ECall d) (path (cD_cur s) k) -> ver2D (cD_memo s) (cD_cur s) d \/ constk Q rank d).
Proof.
  intros RK I Hm Hd3.
  destruct (IS_memo _ _ I _ _ Hm) as (Hc & Hle & Hsn & Hval & Hpath & Hmax & Hdep & Hdu).
  destruct (Hmax Hd3) as [Hnil Hck].
  assert (Hall : forall e, In e (path (o_ver m) k) -> esameR Q rank (o_ver m) (cD_cur s) e).
  { intros e He. destruct (Hpath e He) as [Hin|(d & -> & Hcst)]; [rewrite Hnil in Hin; destruct Hin|].
    unfold esameR; cbn [esame]. apply Hcst. }
  assert (HE : Ev (cD_cur s) k = o_val m).
  { rewrite <- (Hval (o_ver m) Hsn Hc). apply Hck. }
  assert (Hpe : path (o_ver m) k = path (cD_cur s) k) by (apply readsb_agree; exact Hall).
  split; [exact HE|]. split.
  - unfold memo_okD. cbn [verified_now o_ver o_chg o_val o_dur o_deps].
    split; [lia|]. split; [lia|]. split; [right; auto|]. split; [|split; [|split; [exact Hmax|split; [|exact Hdu]]]].
    + intros r [Hr|[_ ->]] Hler; [now apply Hval | exact HE].
    + intros e He. rewrite <- Hpe in He. now apply Hpath.
    + intros d Hdd. rewrite Hnil in Hdd. destruct Hdd.
  - intros d Hdd. rewrite <- Hpe in Hdd. destruct (Hpath _ Hdd) as [Hin|(d0 & E0 & Hcst)].
    + rewrite Hnil in Hin. destruct Hin.
    + injection E0 as ->. now right.
Qed.

(* the probe: with the short-cut on, a memo that is not verified now and passes is never-changing *)
Lemma probe_never seen s k m : InvS seen s -> cD_memo s k = Some m -> o_ver m <> cD_cur s ->
  shortcut Q true (cD_cur s) m = true -> o_dur m = DUR_MAX /\ o_ver m < cD_cur s.
Proof.
  intros I Hm Hv Hsc. destruct (IS_memo _ _ I _ _ Hm) as (_ & Hle & _).
  assert (Hlt : o_ver m < cD_cur s) by lia. split; [|exact Hlt].
  destruct (IS_lvl _ _ I _ _ Hm) as [E0|Hl]; [exact E0|].
  unfold shortcut in Hsc. cbn [andb] in Hsc. apply N.leb_le in Hsc. rewrite (Hl (cD_cur s)) in Hsc. lia.
Qed.

(* leaving DClaimed towards a walk or an execution means the probe failed *)
Lemma claimed_nsc s t c u k below m :
  step_threadD fuel Q true s t c = Some u ->
  stackD s t = (k @@ DClaimed) :: below -> cD_memo s k = Some m -> o_ver m <> cD_cur s ->
  (forall f b, uD_stack u = f :: b -> walkingD (h_phase f) = true) ->
  shortcut Q true (cD_cur s) m = false.
Proof.
  unfold step_threadD, stackD. intros Hs Hst Hm Hv Hw.
  destruct (thD_cycle (cD_thr s t)); [discriminate|]. rewrite Hst in Hs. cbn [h_key h_phase step_frameD] in Hs.
  rewrite Hm in Hs. destruct (N.eqb_spec (o_ver m) (cD_cur s)) as [E0|_]; [contradiction|].
  destruct (shortcut Q true (cD_cur s) m) eqn:Esc; [|reflexivity].
  injection Hs as <-. cbn [uD_stack] in Hw. specialize (Hw _ _ eq_refl). discriminate.
Qed.


Lemma inv_stepS seen s t c u :
  rankedD Q rank -> stampsD_ok Q -> no_never Q -> live_levels -> InvS seen s -> exclD s ->
  step_threadD fuel Q true s t c = Some u ->
  exists seen', InvS seen' (apply_updD s t u).
Proof.
  intros RK SK NN LL I X Hstep.
  pose proof (step_threadD_path fuel Q true s t c u Hstep) as Hp.
  pose proof (IS_stack _ _ I t) as Hok.
  pose proof (IS_cur _ _ I) as H1.
  assert (Hwalk_claim : forall k0 ph below0, stackD s t = (k0 @@ ph) :: below0 -> holdD ph = true ->
            forall t' f, In f (stackD s t') -> (t' <> t \/ In f below0) -> h_key f = k0 -> walkingD (h_phase f) = false).
  { intros k0 ph below0 Hst0 Hh t' f Hin Hpos Hk. destruct (walkingD (h_phase f)) eqn:Ew; auto. exfalso.
    assert (Hh' : holdD (h_phase f) = true) by (destruct (h_phase f); try discriminate; reflexivity).
    destruct (X _ _ _ _ _ _ Hst0 Hh Hin Hh' Hk) as [Et Hnb]. destruct Hpos; [congruence | contradiction]. }
  assert (Hnomark : forall k0, nscut (cD_memo s) (cD_cur s) k0 -> ~ ver2D (cD_memo s) (cD_cur s) k0 ->
            forall mm' r, markok (cD_memo s) (cD_cur s) k0 r -> markok mm' (cD_cur s) k0 r).
  { intros k0 Hns Hun mm' r (m0 & Hm0 & _ & _ & [Hv0 | [_ Hsc0]]).
    - exfalso. apply Hun. exists m0. auto.
    - rewrite (Hns m0 Hm0) in Hsc0. discriminate. }
  dpathD Hp; rewrite Hst in Hok; cbn [stack_okS h_key] in Hok;
    try (destruct Hok as [Hf Hb]; unfold frame_okS in Hf; cbn [h_phase h_key] in Hf).
  - (* begin *)
    exists seen. apply inv_nomemoS; auto; cbn [uD_stack uD_ev stack_okS]; [split; [exact Logic.I|auto] | intros ? ? ? ? []].
  - (* hit *)
    destruct (memo_factsS _ _ _ _ I Hm Hv) as (HE & Hc & Hdu & Hcst & _).
    exists seen. apply inv_nomemoS; auto; cbn [uD_stack uD_ev].
    + eapply deliver_okS; eauto. eapply IS_lvl; eauto.
    + intros t0 k0 r v [E0|[]]. injection E0 as <- <- <- <-. now rewrite HE.
  - (* hot_sc *)
    destruct (probe_never _ _ _ _ I Hm Hv Hsc) as [Hd3 Hlt].
    exists seen. apply inv_nomemoS; auto; cbn [uD_stack uD_ev stack_okS h_key]; [|intros ? ? ? ? []].
    split; [|exact Hb]. unfold frame_okS. cbn [h_phase h_key]. exists m. auto 6.
  - (* go_cold *)
    exists seen. apply inv_nomemoS; auto; cbn [uD_stack uD_ev stack_okS h_key]; [split; [exact Logic.I|auto] | intros ? ? ? ? []].
  - (* mark_hot *)
    destruct Hf as (m & Hm & <- & Hd3 & Hcase).
    destruct (never_memo seen s k m RK I Hm Hd3) as (HE & Hmok & Hcl).
    destruct (IS_memo _ _ I _ _ Hm) as (Hc & Hle & _ & _ & _ & Hmax & _ & Hdu).
    destruct Hcase as [Hv | [Hlt Hsc]].
    + (* already verified now: the store does nothing *)
      assert (Emm : mark_memo s k = cD_memo s).
      { unfold mark_memo. rewrite Hm. destruct (N.ltb_spec (o_ver m) (cD_cur s)); [lia | reflexivity]. }
      rewrite Emm. exists seen. apply inv_nomemoS; auto; cbn [uD_stack uD_ev].
      * eapply deliver_okS; eauto; [lia | intros _; apply Hmax; exact Hd3 | left; exact Hd3].
      * intros t0 k0 r v [E0|[]]. cbn [retm r_val] in E0. injection E0 as <- <- <- <-. now rewrite HE.
    + assert (Emm : mark_memo s k = updN (cD_memo s) k (Some (verified_now (cD_cur s) m))).
      { unfold mark_memo. rewrite Hm. destruct (N.ltb_spec (o_ver m) (cD_cur s)); [reflexivity | lia]. }
      rewrite Emm.
      assert (Hun : ~ ver2D (cD_memo s) (cD_cur s) k).
      { intros (m0 & Hm0 & Hv0). rewrite Hm in Hm0. injection Hm0 as <-. lia. }
      exists (fun k0 r => seen k0 r \/ (k0 = k /\ r = cD_cur s)).
      apply (inv_writeS seen s t _ k below (verified_now (cD_cur s) m) I (DMark false (retm m)) Hst Hun); auto.
      * intros t' f Hin _ Hk. destruct (walkingD (h_phase f)) eqn:Ew; auto. exfalso.
        destruct (stack_frameS _ _ _ _ _ (IS_stack _ _ I t') Hin) as (pend' & Hfr).
        pose proof (walking_nscut _ _ _ _ Hfr Ew) as Hns. rewrite Hk in Hns. rewrite (Hns m Hm) in Hsc. discriminate.
      * cbn [uD_memo]. intros r (m0 & Hm0 & Hr0 & Hd0 & _). rewrite Hm in Hm0. injection Hm0 as <-.
        exists (verified_now (cD_cur s) m). rewrite updN_same. split; [reflexivity|]. split; [exact Hr0|]. split; [exact Hd0|]. left; reflexivity.
      * cbn [uD_ev]. intros t0 k0 r v [E0|[]]. cbn [retm r_val] in E0. injection E0 as <- <- <- <-. now rewrite HE.
      * left. exact Hd3.
      * cbn [uD_memo uD_stack]. intros Hb'.
        change (retm m) with (retm (verified_now (cD_cur s) m)).
        apply (deliver_okS _ (cD_cur s) k (verified_now (cD_cur s) m)); auto.
        -- apply updN_same.
        -- cbn. lia.
        -- intros _. apply Hmax. exact Hd3.
        -- left. exact Hd3.
  - (* mark_claimed *)
    destruct Hf as (m & Hm & <- & Hd3 & Hcase).
    destruct (never_memo seen s k m RK I Hm Hd3) as (HE & Hmok & Hcl).
    destruct Hcase as [Hv | [Hlt Hsc]].
    + assert (Emm : mark_memo s k = cD_memo s).
      { unfold mark_memo. rewrite Hm. destruct (N.ltb_spec (o_ver m) (cD_cur s)); [lia | reflexivity]. }
      rewrite Emm. exists seen. apply inv_nomemoS; auto; cbn [uD_stack uD_ev stack_okS h_key]; [|intros ? ? ? ? []].
      split; [|exact Hb]. unfold frame_okS, frame_okD. cbn [h_phase h_key]. exists m. auto.
    + assert (Emm : mark_memo s k = updN (cD_memo s) k (Some (verified_now (cD_cur s) m))).
      { unfold mark_memo. rewrite Hm. destruct (N.ltb_spec (o_ver m) (cD_cur s)); [reflexivity | lia]. }
      rewrite Emm.
      assert (Hun : ~ ver2D (cD_memo s) (cD_cur s) k).
      { intros (m0 & Hm0 & Hv0). rewrite Hm in Hm0. injection Hm0 as <-. lia. }
      exists (fun k0 r => seen k0 r \/ (k0 = k /\ r = cD_cur s)).
      apply (inv_writeS seen s t _ k below (verified_now (cD_cur s) m) I (DMark true (retm m)) Hst Hun); auto.
      * intros t' f Hin _ Hk. destruct (walkingD (h_phase f)) eqn:Ew; auto. exfalso.
        destruct (stack_frameS _ _ _ _ _ (IS_stack _ _ I t') Hin) as (pend' & Hfr).
        pose proof (walking_nscut _ _ _ _ Hfr Ew) as Hns. rewrite Hk in Hns. rewrite (Hns m Hm) in Hsc. discriminate.
      * cbn [uD_memo]. intros r (m0 & Hm0 & Hr0 & Hd0 & _). rewrite Hm in Hm0. injection Hm0 as <-.
        exists (verified_now (cD_cur s) m). rewrite updN_same. split; [reflexivity|]. split; [exact Hr0|]. split; [exact Hd0|]. left; reflexivity.
      * cbn [uD_ev]. intros ? ? ? ? [].
      * left. exact Hd3.
      * cbn [uD_memo uD_stack stack_okS h_key]. intros Hb'. split; [|exact Hb'].
        unfold frame_okS, frame_okD. cbn [h_phase h_key]. exists (verified_now (cD_cur s) m). rewrite updN_same. auto.
  - exists seen. apply inv_nomemoS; auto; cbn [uD_stack uD_ev stack_okS h_key]; [split; [exact Logic.I|auto] | intros ? ? ? ? []].
  - exists seen. apply inv_nomemoS; auto; cbn [uD_stack uD_ev stack_okS h_key]; [split; [exact Logic.I|auto] | intros ? ? ? ? []].
  - exists seen. apply inv_nomemoS; auto; cbn [uD_stack uD_ev stack_okS h_key]; [split; [exact Logic.I|auto] | intros ? ? ? ? []].
  - exists seen. apply inv_nomemoS; auto; cbn [uD_stack uD_ev stack_okS h_key]; [split; [exact Logic.I|auto] | intros ? ? ? ? []].
  - exists seen. apply inv_nomemoS; auto; cbn [uD_stack uD_ev stack_okS h_key]; [split; [exact Logic.I|auto] | intros ? ? ? ? []].
  - (* recheck_hit *)
    exists seen. apply inv_nomemoS; auto; cbn [uD_stack uD_ev stack_okS h_key]; [|intros ? ? ? ? []].
    split; auto. unfold frame_okS, frame_okD. cbn [h_phase h_key]. exists m. auto.
  - (* recheck_sc *)
    destruct (probe_never _ _ _ _ I Hm Hv Hsc) as [Hd3 Hlt].
    exists seen. apply inv_nomemoS; auto; cbn [uD_stack uD_ev stack_okS h_key]; [|intros ? ? ? ? []].
    split; [|exact Hb]. unfold frame_okS. cbn [h_phase h_key]. exists m. auto 6.
  - (* to_verify *)
    assert (Hnsc : shortcut Q true (cD_cur s) m = false).
    { apply (claimed_nsc s t c _ k below m Hstep Hst Hm Hv). cbn [uD_stack]. intros f b [= <- <-]. reflexivity. }
    exists seen. apply inv_nomemoS; auto; cbn [uD_stack uD_ev stack_okS h_key]; [|intros ? ? ? ? []].
    split; auto. unfold frame_okS, frame_okD. cbn [h_phase h_key]. split; [split|].
    + intros (m0 & Hm0 & Hv0). congruence.
    + intros _. exists m, []. split; auto. split; auto. intros e [].
    + intros m0 Hm0. rewrite Hm in Hm0. injection Hm0 as <-. exact Hnsc.
  - (* exec_start *)
    assert (Hns : nscut (cD_memo s) (cD_cur s) k).
    { destruct Hph as [[-> Hnv] | (l & ok & ->)].
      - intros m Hm. apply (claimed_nsc s t c _ k below m Hstep Hst Hm (Hnv m Hm)).
        cbn [uD_stack]. intros f b [= <- <-]. reflexivity.
      - apply Hf. }
    exists seen. apply inv_nomemoS; auto; cbn [uD_stack uD_ev stack_okS h_key].
    2:{ intros t0 k0 r v [E0|[]]. discriminate. }
    split; auto. unfold frame_okS, frame_okD. cbn [h_phase h_key]. split; [|split; [left; reflexivity | exact Hns]].
    split; auto.
    split; [|split; [exact H1|split; [reflexivity|split; [intros e He; now left|split; [reflexivity|split; [intros d []|]]]]]].
    + destruct Hph as [[-> Hnv] | (l & ok & ->)].
      * intros (m0 & Hm0 & Hv0). eapply Hnv; eauto.
      * destruct Hf as [Hf _]. unfold frame_okD in Hf. cbn [h_phase h_key] in Hf. apply Hf.
    + cbn. unfold DUR_MAX. lia.
  - (* call_v *)
    destruct Hf as [Hfd Hns]. unfold frame_okD in Hfd. cbn [h_phase h_key] in Hfd.
    destruct Hfd as [Hun Hokk]. destruct (Hokk eq_refl) as (m0 & done & Hm0 & Hd & Hg).
    assert (m0 = m) by congruence. subst m0. cbn [map app] in Hd.
    destruct (skip_ins_spec Q (cD_memo s) _ _ _ _ Hsk) as (ins & -> & Hgi).
    exists seen. apply inv_nomemoS; auto; cbn [uD_stack uD_ev stack_okS h_key]; [|intros ? ? ? ? []].
    split; [exact Logic.I|]. split; auto. unfold frame_okS, frame_okD. cbn [h_phase h_key]. split; [|exact Hns]. split; auto.
    intros _. exists m, (done ++ ins). split; auto. split.
    + rewrite Hd. cbn [map app]. now rewrite <- app_assoc.
    + intros e He. apply in_app_or in He as [He|He]; auto.
  - (* mark *)
    destruct Hf as [Hfd Hns]. unfold frame_okD in Hfd. cbn [h_phase h_key] in Hfd.
    destruct Hfd as [Hun Hokk]. destruct (Hokk eq_refl) as (m0 & done & Hm0 & Hd & Hg).
    assert (m0 = m) by congruence. subst m0. cbn [map app] in Hd.
    destruct (skip_ins_spec Q (cD_memo s) _ _ _ _ Hsk) as (ins & -> & Hgi).
    rewrite app_nil_r in Hd.
    assert (Hgood : forall e, In e (o_deps m) -> good_edge Q (cD_memo s) (cD_cur s) (o_ver m) e).
    { intros e He. rewrite Hd in He. apply in_app_or in He as [He|He]; auto. }
    destruct (IS_memo _ _ I _ _ Hm) as (Hc & Hle & Hsn & Hval & Hpath & Hmax & Hdep & Hdu).
    assert (HA : forall e, In e (o_deps m) -> esameR Q rank (o_ver m) (cD_cur s) e).
    { intros e He. specialize (Hgood e He). destruct e as [i|d]; cbn [good_edge] in Hgood; unfold esameR; cbn [esame].
      - apply (proj1 SK (cD_cur s) i (o_ver m)); auto.
      - destruct Hgood as (md & Hmd & Hvd & Hcd).
        destruct (IS_memo _ _ I _ _ Hmd) as (Hc' & _ & Hsn' & Hval' & _).
        rewrite (Hval' (cD_cur s)); [|now rewrite <- Hvd | lia].
        rewrite (Hval' (o_ver m)); auto. }
    assert (Hall : forall e, In e (path (o_ver m) k) -> esameR Q rank (o_ver m) (cD_cur s) e).
    { intros e He. destruct (Hpath e He) as [Hin|(d & -> & Hcst)]; auto. unfold esameR; cbn [esame]. apply Hcst. }
    assert (HE : Ev (cD_cur s) k = o_val m).
    { rewrite <- (Hval (o_ver m) Hsn Hc). rewrite (ED_unfold Q rank RK (cD_cur s) k), (ED_unfold Q rank RK (o_ver m) k).
      symmetry. apply evb_agree. exact Hall. }
    assert (Hpe : path (o_ver m) k = path (cD_cur s) k) by (apply readsb_agree; exact Hall).
    assert (Hmok : memo_okD Q rank (fun k0 r => seen k0 r \/ (k0 = k /\ r = cD_cur s)) (cD_cur s) k
                            (verified_now (cD_cur s) m)).
    { unfold memo_okD. cbn [verified_now o_ver o_chg o_val o_dur o_deps].
      split; [lia|]. split; [lia|]. split; [right; auto|]. split; [|split; [|split; [exact Hmax|split; [|exact Hdu]]]].
      * intros r [Hr|[_ ->]] Hler; [now apply Hval | exact HE].
      * intros e He. rewrite <- Hpe in He. now apply Hpath.
      * intros d Hdd. destruct (Hgood _ Hdd) as (md & Hmd & Hvd & _).
        destruct (IS_memo _ _ I _ _ Hmd) as (_ & _ & Hsn' & _). left. now rewrite <- Hvd. }
    assert (Hcl : forall d, In (ECall d) (path (cD_cur s) k) ->
                  ver2D (cD_memo s) (cD_cur s) d \/ constk Q rank d).
    { intros d Hdd. rewrite <- Hpe in Hdd. destruct (Hpath _ Hdd) as [Hin|(d0 & E0 & Hcst)].
      * left. destruct (Hgood _ Hin) as (md & Hmd & Hvd & _). exists md. auto.
      * injection E0 as ->. now right. }
    exists (fun k0 r => seen k0 r \/ (k0 = k /\ r = cD_cur s)).
    eapply inv_writeS with (ph := DVerify (ins ++ []) true) (m' := verified_now (cD_cur s) m) (below := below);
      [exact I | exact Hst | exact Hun | exact (Hwalk_claim k _ below Hst eq_refl)
      | intros r; apply Hnomark; assumption | reflexivity | cbn [uD_ev]; intros ? ? ? ? []
      | reflexivity | exact (IS_lvl _ _ I _ _ Hm) | exact Hmok | exact Hcl |].
    + cbn [uD_memo uD_stack stack_okS h_key]. intros Hb'. split; [|exact Hb'].
      unfold frame_okS, frame_okD. cbn [h_phase h_key]. exists (verified_now (cD_cur s) m). rewrite updN_same. auto.
  - (* call_x *)
    destruct Hf as (Hfd & Hla & Hns). unfold frame_okD in Hfd. cbn [h_phase h_key] in Hfd.
    destruct Hfd as [_ Hx]. pose proof (adv_ok Q rank (cD_memo s) (cD_cur s) k NN SK H1 _ _ _ _ Hx Hadv) as Hx'.
    pose proof (adv_lvl (cD_cur s) LL b a Hla) as Hla'. rewrite Hadv in Hla'. cbn [snd] in Hla'.
    exists seen. apply inv_nomemoS; auto; cbn [uD_stack uD_ev stack_okS h_key]; [|intros ? ? ? ? []].
    split; [exact Logic.I|]. split; auto. unfold frame_okS, frame_okD. cbn [h_phase h_key]. split; [split; auto|]. split; assumption.
  - (* publish *)
    destruct Hf as (Hfd & Hla & Hns). unfold frame_okD in Hfd. cbn [h_phase h_key] in Hfd.
    destruct Hfd as [_ Hx]. pose proof (adv_ok Q rank (cD_memo s) (cD_cur s) k NN SK H1 _ _ _ _ Hx Hadv) as Hx'.
    pose proof (adv_lvl (cD_cur s) LL b a Hla) as Hla'. rewrite Hadv in Hla'. cbn [snd] in Hla'.
    destruct Hx' as (A & B & C & D & E0 & F & G). cbn [evb readsb] in C, D.
    assert (HE : Ev (cD_cur s) k = nv) by (rewrite (ED_unfold Q rank RK); exact C).
    assert (Hcov : forall e, In e (path (cD_cur s) k) -> cov Q rank (cD_memo s) (cD_cur s) a' e).
    { intros e He. destruct (D e He) as [[]|Hc]; auto. }
    assert (Hch0 : forall r, seen k r -> a_chg a' <= r -> Ev r k = nv).
    { intros r Hr Hle. pose proof (IS_seen _ _ I _ _ Hr) as Hrc. rewrite <- HE.
      rewrite (ED_unfold Q rank RK r k), (ED_unfold Q rank RK (cD_cur s) k). symmetry.
      apply evb_agree2. intros e He He'. specialize (Hcov e He). destruct e as [i|d]; cbn [cov esame] in *.
      - destruct Hcov as (_ & Hs & _). symmetry. apply (proj1 SK (cD_cur s) i r); lia.
      - destruct Hcov as (md & Hmd & Hvd & Hcd & _).
        destruct (IS_memo _ _ I _ _ Hmd) as (_ & _ & Hsn' & Hval' & _).
        destruct (IS_closed _ _ I _ _ _ Hr He') as [Hsd|Hcst]; [|apply Hcst].
        rewrite (Hval' (cD_cur s)); [|now rewrite <- Hvd | lia].
        rewrite (Hval' r); auto. lia. }
    assert (Hchle : publish_chg Q s k nv a' <= cD_cur s).
    { unfold publish_chg. destruct (cD_memo s k) as [mo|] eqn:Emo; [|exact B].
      destruct (d_eq Q k && (o_dur mo <=? a_dur a') && (o_val mo =? nv)); [|exact B].
      destruct (IS_memo _ _ I _ _ Emo) as (? & ? & _). lia. }
    assert (Hmok : memo_okD Q rank (fun k0 r => seen k0 r \/ (k0 = k /\ r = cD_cur s)) (cD_cur s) k
                            (mkO (cD_cur s) nv (publish_chg Q s k nv a') (a_dur a') (a_tr a'))).
    { unfold memo_okD. cbn [o_ver o_chg o_val o_dur o_deps].
      split; [exact Hchle|]. split; [lia|]. split; [right; auto|]. split; [|split; [|split; [|split; [|exact G]]]].
      * intros r [Hr|[_ ->]] Hler; [|exact HE]. unfold publish_chg in Hler.
        destruct (cD_memo s k) as [mo|] eqn:Emo; [|now apply Hch0].
        destruct (d_eq Q k && (o_dur mo <=? a_dur a') && (o_val mo =? nv)) eqn:Eb; [|now apply Hch0].
        apply andb_true_iff in Eb as [_ Eb]. apply N.eqb_eq in Eb.
        destruct (IS_memo _ _ I _ _ Emo) as (_ & _ & _ & Hval & _). rewrite <- Eb. now apply Hval.
      * intros e He. specialize (Hcov e He). destruct e as [i|d]; cbn [cov] in Hcov.
        -- left. apply Hcov.
        -- destruct Hcov as (md & _ & _ & _ & [Hin|Hcst] & _); [now left | right; eauto].
      * intros Emax. split; [apply E0; lia|].
        assert (Hr : forall r, Ev r k = Ev (cD_cur s) k).
        { intros r. rewrite (ED_unfold Q rank RK r k), (ED_unfold Q rank RK (cD_cur s) k). symmetry.
          apply evb_agree. intros e He. specialize (Hcov e He). destruct e as [i|d]; cbn [cov esame] in *.
          - destruct Hcov as (_ & _ & Hlt). exfalso. lia.
          - destruct Hcov as (md & _ & _ & _ & _ & Hcst). apply Hcst. lia. }
        intros r r'. now rewrite (Hr r), (Hr r').
      * intros d Hdd. destruct (F d Hdd) as (md & Hmd & Hvd).
        destruct (IS_memo _ _ I _ _ Hmd) as (_ & _ & Hsn' & _). left. now rewrite <- Hvd. }
    assert (Hcl : forall d, In (ECall d) (path (cD_cur s) k) ->
                  ver2D (cD_memo s) (cD_cur s) d \/ constk Q rank d).
    { intros d Hdd. specialize (Hcov _ Hdd). cbn [cov] in Hcov.
      destruct Hcov as (md & Hmd & Hvd & _). left. exists md. auto. }
    exists (fun k0 r => seen k0 r \/ (k0 = k /\ r = cD_cur s)).
    eapply inv_writeS with (ph := DExec b a)
      (m' := mkO (cD_cur s) nv (publish_chg Q s k nv a') (a_dur a') (a_tr a')) (below := below);
      [exact I | exact Hst | exact A | exact (Hwalk_claim k _ below Hst eq_refl)
      | intros r; apply Hnomark; assumption | reflexivity | cbn [uD_ev]; intros ? ? ? ? []
      | reflexivity | exact Hla' | exact Hmok | exact Hcl |].
    + cbn [uD_memo uD_stack stack_okS h_key]. intros Hb'. split; [|exact Hb'].
      unfold frame_okS, frame_okD. cbn [h_phase h_key]. eexists. rewrite updN_same. split; [reflexivity|]. split; reflexivity.
  - (* release_quiet *)
    unfold frame_okD in Hf. cbn [h_phase h_key] in Hf. destruct Hf as (m & Hm & Hv & <-).
    destruct (memo_factsS _ _ _ _ I Hm Hv) as (HE & Hc & Hdu & Hcst & _).
    exists seen. apply inv_nomemoS; auto; cbn [uD_stack uD_ev].
    + eapply deliver_okS; eauto. eapply IS_lvl; eauto.
    + intros t0 k0 r v [E0|[]]. cbn [retm r_val] in E0. injection E0 as <- <- <- <-. now rewrite HE.
  - (* release_wake *)
    exists seen. apply inv_nomemoS; auto; cbn [uD_stack uD_ev stack_okS h_key]; [|intros ? ? ? ? []].
    split; auto.
  - (* unblock *)
    unfold frame_okD in Hf. cbn [h_phase h_key] in Hf. destruct Hf as (m & Hm & Hv & <-).
    destruct (memo_factsS _ _ _ _ I Hm Hv) as (HE & Hc & Hdu & Hcst & _).
    exists seen. apply inv_nomemoS; auto; cbn [uD_stack uD_ev].
    + eapply deliver_okS; eauto. eapply IS_lvl; eauto.
    + intros t0 k0 r v [E0|[]]. cbn [retm r_val] in E0. injection E0 as <- <- <- <-. now rewrite HE.
Qed.

End Short.

Section ShortTop.
Variable fuel : nat.
Variable Q : progD.
Variable rank : key -> nat.

Notation Ev := (ED Q rank).

Lemma inv_gstepS seen s o s' :
  rankedD Q rank -> stampsD_ok Q -> no_never Q -> live_levels Q ->
  SyncD s -> IdleOut s -> InvS Q rank seen s -> gstepD fuel Q true s o = Some s' ->
  IdleOut s' /\ exists seen', InvS Q rank seen' s'.
Proof.
  intros RK SK NN LL SY IO I. destruct o as [t c| |t ks]; cbn [gstepD].
  - unfold tstepD. destruct (mem t (cD_tids s)) eqn:Emem; [|discriminate].
    destruct (step_threadD fuel Q true s t c) as [u|] eqn:Eu; [|discriminate]. intros [= <-]. split.
    + intros t' Hn. rewrite stackD_apply. destruct (N.eqb_spec t t') as [<-|Hne].
      * exfalso. apply Hn. cbn [apply_updD cD_tids]. now apply mem_In.
      * apply IO. exact Hn.
    + eapply inv_stepS; eauto. apply exclD_of_sync; exact SY.
  - destruct (forallb _ _) eqn:Ef; [|discriminate]. intros [= <-].
    pose proof (all_idleD s IO Ef) as E. split; [exact IO|]. exists seen.
    destruct I as [A B C D E0 F G]. constructor; cbn [cD_memo cD_cur cD_log]; auto.
    + intros k m Hm. destruct (A k m Hm) as (a1 & a2 & a3). split; [exact a1|]. split; [lia|exact a3].
    + intros k r Hr. specialize (B k r Hr). lia.
    + intros t. change (stackD (mkCD (cD_cur s + 1) (cD_memo s) (cD_proto s) (cD_thr s) (cD_tids s) (cD_log s)) t)
        with (stackD s t). rewrite E. exact Logic.I.
    + lia.
  - destruct (idlebD (cD_thr s t)) eqn:Ei; [|discriminate]. intros [= <-].
    apply idlebD_spec in Ei as (Es & _). split.
    + intros t' Hn. unfold stackD. cbn [cD_thr cD_tids] in *. unfold updN.
      destruct (N.eqb_spec t t') as [<-|Hne]; [reflexivity|]. apply IO. intros Hin. apply Hn.
      destruct (mem t (cD_tids s)); [exact Hin | now right].
    + exists seen. destruct I as [A B C D E0 F G]. constructor; cbn [cD_memo cD_cur cD_log]; auto.
      intros t'. unfold stackD. cbn [cD_thr]. unfold updN. destruct (N.eqb_spec t t') as [<-|Hne].
      * cbn. exact Logic.I.
      * apply C.
Qed.

Lemma invS_init : InvS Q rank (fun _ _ => False) cinitD.
Proof.
  constructor; cbn; try discriminate; try contradiction; auto;
    try (intros; exact Logic.I); try (unfold REV_START; lia).
Qed.

Theorem creachS_inv s :
  rankedD Q rank -> stampsD_ok Q -> no_never Q -> live_levels Q -> creachD fuel Q true s ->
  IdleOut s /\ exists seen, InvS Q rank seen s.
Proof.
  intros RK SK NN LL H. induction H as [|s o s' Hr IH Hs].
  - split; [intros t _; reflexivity | exists (fun _ _ => False); apply invS_init].
  - destruct IH as [IO (seen & I)]. eapply inv_gstepS; eauto. eapply creachD_sync; eauto.
Qed.

(* with the short-cut on: every value a request returns is the from-scratch value of its revision *)
Theorem values_computed_shortcut s t k r v :
  rankedD Q rank -> stampsD_ok Q -> no_never Q -> live_levels Q -> creachD fuel Q true s ->
  In (ERet t k r v) (cD_log s) -> v = Ev r k.
Proof.
  intros RK SK NN LL H Hin. destruct (creachS_inv s RK SK NN LL H) as [_ (seen & I)].
  eapply (IS_log _ _ _ _ I); eauto.
Qed.

(* ... and every memo carries the from-scratch value of its verified_at, also when verified_at was
   stored by the short-cut *)
Theorem memo_sound_shortcut s k m :
  rankedD Q rank -> stampsD_ok Q -> no_never Q -> live_levels Q -> creachD fuel Q true s ->
  cD_memo s k = Some m -> o_val m = Ev (o_ver m) k.
Proof.
  intros RK SK NN LL H Hm. destruct (creachS_inv s RK SK NN LL H) as [_ (seen & I)].
  destruct (IS_memo _ _ _ _ I _ _ Hm) as (Hc & _ & Hs & Hval & _). symmetry. now apply Hval.
Qed.

(* the short-cut only ever stores verified_at on memos of never-changing durability *)
Theorem shortcut_only_never s k m :
  rankedD Q rank -> stampsD_ok Q -> no_never Q -> live_levels Q -> creachD fuel Q true s ->
  cD_memo s k = Some m -> o_ver m <> cD_cur s -> shortcut Q true (cD_cur s) m = true -> o_dur m = DUR_MAX.
Proof.
  intros RK SK NN LL H Hm Hv Hsc. destruct (creachS_inv s RK SK NN LL H) as [_ (seen & I)].
  apply (probe_never Q rank seen s k m I Hm Hv Hsc).
Qed.

End ShortTop.

(* CFetchD/Model.v — CFetch2 extended: DYNAMIC call lists, bodies that read nothing, and the
   durability short-cut.

   DEFINITIONS ONLY.  Same protocol skeleton as CFetch/Model.v and CFetch2/Model.v (same Proto
   steps, same event log); what is new:

   * a function body is a RESUMABLE COMPUTATION ([body]): it returns ([BRet v]), reads an input
     and continues with its value ([BIn i k]), or calls a function and continues with the value
     the callee returned ([BCall d k]).  The next call is computed from the values returned so
     far: keys computed from inputs or callee values, branches, a callee called twice are all
     bodies.  A body is a well-founded tree, so every execution makes finitely many reads;
   * the executing frame carries the remaining computation and what ActiveQuery accumulates:
     the edges read so far in first-read order WITHOUT repetition (an FxIndexSet in salsa) and
     WITHOUT the reads of never-changing durability (ActiveQuery::add_read records no edge for
     Durability::NEVER_CHANGE unless the `persistence` feature is on), the
     maximum of their changed_at stamps (starting at Revision::start) and the minimum of their
     durabilities (starting at Durability::MAX): a body that reads nothing gets changed_at 1
     and the highest durability.  insert_memo stores exactly that; backdating needs equal
     values, a function that compares values, and a durability that did not decrease
     (backdate.rs can_backdate);
   * the recorded dependency list of a memo is that dynamic trace, inputs and calls interleaved
     ([edge]); deep verification walks it in order: an input edge is "changed" when its stamp is
     after the memo's verified_at, a call edge is a request whose returned changed_at is compared
     with the memo's verified_at; the walk stops at the first changed edge and the function is
     executed (deep_verify_edges);
   * the durability short-cut (shallow_verify_memo_cold): a memo that is not verified in the
     current revision but whose durability level saw no write since its verified_at
     ([d_lc cur (o_dur m) <= o_ver m]) is marked verified WITHOUT a walk, on the hot path (no
     claim held: two shared steps, the probe and the store, [DMark false]) and at the re-check
     after the claim ([DMark true]).

   The program fixes the whole write history: [d_in r i], [d_stamp r i], [d_idur r i] are the
   value, the changed_at stamp and the durability of input [i] in revision [r], [d_lc r d] is
   Runtime::last_changed_revision(d) in revision [r]. *)
From Salsa Require Import Base.
From Salsa.Proto Require Import Model.
From Salsa.CFetch Require Import Model.

Definition ikey := N.
Definition dur := N.
Definition DUR_MAX : dur := 3.

Inductive edge := EIn (i : ikey) | ECall (k : key).

Definition edge_eqb (a b : edge) : bool :=
  match a, b with
  | EIn i, EIn j => i =? j
  | ECall k, ECall l => k =? l
  | _, _ => false
  end.

Inductive body :=
| BRet (v : val)
| BIn (i : ikey) (k : val -> body)
| BCall (d : key) (k : val -> body).

Record progD := mkD {
  d_body : key -> body;
  d_eq : key -> bool;                  (* false for `no_eq` functions: never backdated *)
  d_in : rev -> ikey -> val;
  d_stamp : rev -> ikey -> rev;
  d_idur : rev -> ikey -> dur;
  d_lc : rev -> dur -> rev
}.

(* verified_at, value, changed_at, durability, recorded edges *)
Record memoD := mkO { o_ver : rev; o_val : val; o_chg : rev; o_dur : dur; o_deps : list edge }.

(* what a request returns to its caller *)
Record retD := mkR { r_val : val; r_chg : rev; r_dur : dur }.

(* what ActiveQuery accumulates *)
Record accD := mkA { a_tr : list edge; a_chg : rev; a_dur : dur }.

Definition acc0 : accD := mkA [] REV_START DUR_MAX.

Definition add_edge (a : accD) (e : edge) (c : rev) (d : dur) : accD :=
  mkA (if (d =? DUR_MAX) || existsb (edge_eqb e) (a_tr a) then a_tr a else a_tr a ++ [e])
      (N.max (a_chg a) c) (N.min (a_dur a) d).

Inductive phaseD :=
| DStart
| DMark (claimed : bool) (r : retD)    (* short-cut: the store of verified_at is pending *)
| DCold
| DWait
| DClaimed
| DVerify (rest : list edge) (ok : bool)   (* ok: no walked edge was "changed" so far *)
| DExec (b : body) (a : accD)              (* top of the stack: the body runs *)
| DPend (d : key) (k : val -> body) (a : accD)   (* below the top: waiting for the value of [d] *)
| DRelease (r : retD)
| DUnblock (r : retD).

Record frameD := mkFD { h_key : key; h_phase : phaseD }.

Record tstateD := mkTD { thD_stack : list frameD; thD_todo : list key; thD_cycle : bool }.

Record cstateD := mkCD {
  cD_cur : rev;
  cD_memo : key -> option memoD;
  cD_proto : Model.state;
  cD_thr : thread -> tstateD;
  cD_tids : list thread;
  cD_log : list event
}.

Definition tD_idle : tstateD := mkTD [] [] false.

Definition cinitD : cstateD :=
  mkCD REV_START (fun _ => None) Model.init (fun _ => tD_idle) [] [].

(* ---- the from-scratch value ---- *)
Fixpoint evb (rec : key -> val) (inp : ikey -> val) (b : body) : val :=
  match b with
  | BRet v => v
  | BIn i k => evb rec inp (k (inp i))
  | BCall d k => evb rec inp (k (rec d))
  end.

Fixpoint evD (Q : progD) (n : nat) (r : rev) (k : key) : val :=
  match n with
  | O => 0
  | S n' => evb (evD Q n' r) (d_in Q r) (d_body Q k)
  end.

Definition ED (Q : progD) (rank : key -> nat) (r : rev) (k : key) : val := evD Q (S (rank k)) r k.

(* the calls a computation makes when every callee returns [rec d] *)
Fixpoint callsb (rec : key -> val) (inp : ikey -> val) (b : body) : list key :=
  match b with
  | BRet _ => []
  | BIn i k => callsb rec inp (k (inp i))
  | BCall d k => d :: callsb rec inp (k (rec d))
  end.

(* a returned (value, changed_at, durability) reaches the caller's frame *)
Definition deliverD (mm : key -> option memoD) (r : retD) (below : list frameD) : list frameD :=
  match below with
  | [] => []
  | f :: b =>
    match h_phase f with
    | DVerify l ok =>
      let unchanged := match mm (h_key f) with Some m => r_chg r <=? o_ver m | None => false end in
      mkFD (h_key f) (DVerify l (ok && unchanged)) :: b
    | DPend d k a => mkFD (h_key f) (DExec (k (r_val r)) (add_edge a (ECall d) (r_chg r) (r_dur r))) :: b
    | _ => f :: b
    end
  end.

Record updD := mkUD {
  uD_proto : Model.state;
  uD_memo : key -> option memoD;
  uD_stack : list frameD;
  uD_todo : list key;
  uD_cycle : bool;
  uD_ev : list event
}.

Definition apply_updD (s : cstateD) (t : thread) (u : updD) : cstateD :=
  mkCD (cD_cur s) (uD_memo u) (uD_proto u)
       (updN (cD_thr s) t (mkTD (uD_stack u) (uD_todo u) (uD_cycle u)))
       (cD_tids s) (uD_ev u ++ cD_log s).

Definition retm (m : memoD) : retD := mkR (o_val m) (o_chg m) (o_dur m).

Definition verified_now (cur : rev) (m : memoD) : memoD :=
  mkO cur (o_val m) (o_chg m) (o_dur m) (o_deps m).

Section StepD.
Variable fuel : nat.
Variable Q : progD.
Variable sc : bool.     (* false: the model without the durability short-cut *)

(* the input reads of a body up to its next call or its return *)
Fixpoint adv (cur : rev) (b : body) (a : accD) : body * accD :=
  match b with
  | BIn i k => adv cur (k (d_in Q cur i)) (add_edge a (EIn i) (d_stamp Q cur i) (d_idur Q cur i))
  | _ => (b, a)
  end.

(* the input edges of a recorded list up to its next call edge: all unchanged? *)
Fixpoint skip_ins (cur ver : rev) (l : list edge) : bool * list edge :=
  match l with
  | EIn i :: l' => if d_stamp Q cur i <=? ver then skip_ins cur ver l' else (false, l)
  | _ => (true, l)
  end.

Definition shortcut (cur : rev) (m : memoD) : bool := sc && (d_lc Q cur (o_dur m) <=? o_ver m).

Definition step_frameD (s : cstateD) (t : thread) (ts : tstateD) (k : key) (ph : phaseD)
  (below : list frameD) (c : bool) : option updD :=
  let pr := cD_proto s in
  let cur := cD_cur s in
  let mm := cD_memo s in
  let keep stack := mkUD pr mm stack (thD_todo ts) false [] in
  let top ph' := mkFD k ph' :: below in
  let ret mm' r := mkUD pr mm' (deliverD mm' r below) (thD_todo ts) false [ERet t k cur (r_val r)] in
  let exec := mkUD pr mm (top (DExec (d_body Q k) acc0)) (thD_todo ts) false [EExec t k cur] in
  match ph with
  | DStart =>
    match mm k with
    | Some m => if o_ver m =? cur then Some (ret mm (retm m))                  (* hot hit *)
                else if shortcut cur m then Some (keep (top (DMark false (retm m))))
                else Some (keep (top DCold))
    | None => Some (keep (top DCold))
    end
  | DMark claimed r =>                                   (* the store of mark_as_verified *)
    let mm' := match mm k with
               | Some m => if o_ver m <? cur then updN mm k (Some (verified_now cur m)) else mm
               | None => mm
               end in
    if claimed then Some (mkUD pr mm' (top (DRelease r)) (thD_todo ts) false [])
    else Some (ret mm' r)
  | DCold =>
    match Model.step fuel pr (OClaim t k true) with
    | ROk (pr1, XClaim (CClaimed _)) => Some (mkUD pr1 mm (top DClaimed) (thD_todo ts) false [])
    | ROk (pr1, XClaim (CRunning other)) =>
      match Model.step fuel pr1 (OBlockOn t k other) with
      | ROk (pr2, XBlock BBlocked) => Some (mkUD pr2 mm (top DWait) (thD_todo ts) false [])
      | ROk (pr2, XBlock BCycle) => Some (mkUD pr2 mm (top DCold) (thD_todo ts) true [])
      | _ => None
      end
    | ROk (pr1, XClaim (CCycle _)) => Some (mkUD pr1 mm (top DCold) (thD_todo ts) true [])
    | _ => None
    end
  | DWait =>
    match Model.step fuel pr (OReceive t) with
    | ROk (pr1, XReceive (Some _)) => Some (mkUD pr1 mm (top DStart) (thD_todo ts) false [])
    | _ => None
    end
  | DClaimed =>
    match mm k with
    | Some m =>
      if o_ver m =? cur then Some (keep (top (DRelease (retm m))))
      else if shortcut cur m then Some (keep (top (DMark true (retm m))))
      else if c then Some (keep (top (DVerify (o_deps m) true)))
      else Some exec
    | None => Some exec
    end
  | DVerify rest ok =>
    match mm k with
    | Some m =>
      if ok then
        match skip_ins cur (o_ver m) rest with
        | (true, ECall d :: rest') => Some (keep (mkFD d DStart :: top (DVerify rest' true)))
        | (true, _) =>                                                        (* mark_as_verified *)
          Some (mkUD pr (updN mm k (Some (verified_now cur m))) (top (DRelease (retm m)))
                     (thD_todo ts) false [])
        | (false, _) => Some exec
        end
      else Some exec                        (* an edge was "changed": stop walking, execute *)
    | None => Some exec
    end
  | DExec b a =>
    match adv cur b a with
    | (BCall d kont, a') => Some (keep (mkFD d DStart :: top (DPend d kont a')))
    | (BRet nv, a') =>                                                        (* insert_memo *)
      let ch := match mm k with
                | Some mo => if d_eq Q k && (o_dur mo <=? a_dur a') && (o_val mo =? nv)
                             then o_chg mo else a_chg a'                      (* backdate *)
                | None => a_chg a'
                end in
      Some (mkUD pr (updN mm k (Some (mkO cur nv ch (a_dur a') (a_tr a'))))
                 (top (DRelease (mkR nv ch (a_dur a')))) (thD_todo ts) false [])
    | (BIn _ _, _) => None                                                    (* not reached *)
    end
  | DPend _ _ _ => None                     (* only below the top of the stack *)
  | DRelease r =>
    match Model.step fuel pr (ORemove t k) with
    | ROk (pr1, XRemoved st) =>
      match release_script t k st Completed with
      | [] => Some (mkUD pr1 mm (deliverD mm r below) (thD_todo ts) false [ERet t k cur (r_val r)])
      | [OUnblock _ _ _] => Some (mkUD pr1 mm (top (DUnblock r)) (thD_todo ts) false [])
      | _ => None
      end
    | _ => None
    end
  | DUnblock r =>
    match Model.step fuel pr (OUnblock t k Completed) with
    | ROk (pr1, _) =>
      Some (mkUD pr1 mm (deliverD mm r below) (thD_todo ts) false [ERet t k cur (r_val r)])
    | _ => None
    end
  end.

Definition step_threadD (s : cstateD) (t : thread) (c : bool) : option updD :=
  let ts := cD_thr s t in
  if thD_cycle ts then None else
  match thD_stack ts with
  | [] =>
    match thD_todo ts with
    | [] => None
    | k :: td => Some (mkUD (cD_proto s) (cD_memo s) [mkFD k DStart] td false [])
    end
  | f :: below => step_frameD s t ts (h_key f) (h_phase f) below c
  end.

Definition tstepD (s : cstateD) (t : thread) (c : bool) : option cstateD :=
  if mem t (cD_tids s) then option_map (apply_updD s t) (step_threadD s t c) else None.

Definition idlebD (ts : tstateD) : bool :=
  match thD_stack ts, thD_todo ts with [], [] => negb (thD_cycle ts) | _, _ => false end.

Definition gstepD (s : cstateD) (o : gop) : option cstateD :=
  match o with
  | GStep t c => tstepD s t c
  | GBump =>
    if forallb (fun t => idlebD (cD_thr s t)) (cD_tids s)
    then Some (mkCD (cD_cur s + 1) (cD_memo s) (cD_proto s) (cD_thr s) (cD_tids s) (cD_log s))
    else None
  | GSpawn t ks =>
    if idlebD (cD_thr s t)
    then Some (mkCD (cD_cur s) (cD_memo s) (cD_proto s) (updN (cD_thr s) t (mkTD [] ks false))
                    (if mem t (cD_tids s) then cD_tids s else t :: cD_tids s) (cD_log s))
    else None
  end.

Fixpoint grunD (l : list gop) (s : cstateD) : option cstateD :=
  match l with
  | [] => Some s
  | o :: l' => match gstepD s o with Some s' => grunD l' s' | None => None end
  end.

End StepD.

Definition donebD (ts : tstateD) : bool :=
  match thD_stack ts, thD_todo ts with [], [] => true | _, _ => false end.

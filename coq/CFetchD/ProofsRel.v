(* CFetchD/ProofsRel.v — the from-scratch value of a resumable body is well defined for ranked
   programs; two evaluations that agree on every edge READ ALONG THE PATH agree on the value and
   on the path ([evb_agree], [readsb_agree]: the semantic core of deep verification over dynamic
   dependency lists); the thread step of CFetchD as a relation, one constructor per path. *)
From Salsa Require Import Base.
From Salsa.Proto Require Import Model.
From Salsa.CFetch Require Import Model.
From Salsa.CFetchD Require Import Model.

Definition stackD (s : cstateD) (t : thread) : list frameD := thD_stack (cD_thr s t).
Definition todoD (s : cstateD) (t : thread) : list key := thD_todo (cD_thr s t).

Notation "k @@ ph" := (mkFD k ph) (at level 45, no associativity).

(* the edges a computation reads when inputs are [inp] and every callee returns [rec d] *)
Fixpoint readsb (rec : key -> val) (inp : ikey -> val) (b : body) : list edge :=
  match b with
  | BRet _ => []
  | BIn i k => EIn i :: readsb rec inp (k (inp i))
  | BCall d k => ECall d :: readsb rec inp (k (rec d))
  end.

Definition esame (rec rec' : key -> val) (inp inp' : ikey -> val) (e : edge) : Prop :=
  match e with
  | EIn i => inp i = inp' i
  | ECall d => rec d = rec' d
  end.

Lemma evb_agree rec inp rec' inp' : forall b,
  (forall e, In e (readsb rec inp b) -> esame rec rec' inp inp' e) ->
  evb rec inp b = evb rec' inp' b.
Proof.
  induction b as [v|i k IH|d k IH]; intros H; cbn [evb]; auto.
  - pose proof (H (EIn i) (or_introl eq_refl)) as E0. cbn in E0. rewrite <- E0.
    apply IH. intros e He. apply H. cbn [readsb]. now right.
  - pose proof (H (ECall d) (or_introl eq_refl)) as E0. cbn in E0. rewrite <- E0.
    apply IH. intros e He. apply H. cbn [readsb]. now right.
Qed.

Lemma readsb_agree rec inp rec' inp' : forall b,
  (forall e, In e (readsb rec inp b) -> esame rec rec' inp inp' e) ->
  readsb rec inp b = readsb rec' inp' b.
Proof.
  induction b as [v|i k IH|d k IH]; intros H; cbn [readsb]; auto.
  - pose proof (H (EIn i) (or_introl eq_refl)) as E0. cbn in E0. rewrite <- E0. f_equal.
    apply IH. intros e He. apply H. cbn [readsb]. now right.
  - pose proof (H (ECall d) (or_introl eq_refl)) as E0. cbn in E0. rewrite <- E0. f_equal.
    apply IH. intros e He. apply H. cbn [readsb]. now right.
Qed.

Section Spec.
Variable Q : progD.
Variable rank : key -> nat.

(* calls descend along the rank, whatever values the body has seen *)
Fixpoint body_ranked (n : nat) (b : body) : Prop :=
  match b with
  | BRet _ => True
  | BIn _ k => forall v, body_ranked n (k v)
  | BCall d k => (rank d < n)%nat /\ forall v, body_ranked n (k v)
  end.

Definition rankedD : Prop := forall k, body_ranked (rank k) (d_body Q k).

(* the stamp of an input is the revision of its last write; a stamp is not in the future; an
   input of never-changing durability never changes (Input::set_field panics on it) *)
Definition stampsD_ok : Prop :=
  (forall r i r', d_stamp Q r i <= r' -> r' <= r -> d_in Q r' i = d_in Q r i) /\
  (forall r i, 1 <= r -> d_stamp Q r i <= r) /\
  (forall r i r', d_idur Q r i = DUR_MAX -> r <= r' -> d_in Q r' i = d_in Q r i).

Lemma evb_ext_ranked inp rec rec' n : forall b,
  body_ranked n b -> (forall d, (rank d < n)%nat -> rec d = rec' d) ->
  evb rec inp b = evb rec' inp b.
Proof.
  induction b as [v|i k IH|d k IH]; intros Hr H; cbn [evb].
  - reflexivity.
  - apply IH; [apply Hr | exact H].
  - destruct Hr as [Hd Hk]. rewrite <- (H d Hd). apply IH; [apply Hk | exact H].
Qed.

Lemma readsb_ranked inp rec n : forall b,
  body_ranked n b -> forall d, In (ECall d) (readsb rec inp b) -> (rank d < n)%nat.
Proof.
  induction b as [v|i k IH|d0 k IH]; intros Hr d; cbn [readsb].
  - intros [].
  - intros [E0|Hin]; [discriminate|]. eapply IH; [apply Hr | exact Hin].
  - destruct Hr as [Hd Hk]. intros [E0|Hin]; [injection E0 as <-; exact Hd|]. eapply IH; [apply Hk | exact Hin].
Qed.

Lemma evD_stable : rankedD -> forall r n m k, (rank k < n)%nat -> (rank k < m)%nat ->
  evD Q n r k = evD Q m r k.
Proof.
  intros RK r. induction n as [|n IH]; intros m k Hn Hm; [lia|].
  destruct m as [|m]; [lia|]. cbn [evD]. apply (evb_ext_ranked _ _ _ (rank k)); [apply RK|].
  intros d Hd. apply IH; [clear -Hd Hn | clear -Hd Hm]; lia.
Qed.

Lemma ED_unfold : rankedD -> forall r k,
  ED Q rank r k = evb (ED Q rank r) (d_in Q r) (d_body Q k).
Proof.
  intros RK r k. unfold ED at 1. cbn [evD]. apply (evb_ext_ranked _ _ _ (rank k)); [apply RK|].
  intros d Hd. unfold ED. apply evD_stable; auto; clear -Hd; lia.
Qed.

End Spec.

Section RelD.
Variable fuel : nat.
Variable Q : progD.
Variable sc : bool.

Definition mark_memo (s : cstateD) (k : key) : key -> option memoD :=
  match cD_memo s k with
  | Some m => if o_ver m <? cD_cur s then updN (cD_memo s) k (Some (verified_now (cD_cur s) m))
              else cD_memo s
  | None => cD_memo s
  end.

Definition publish_chg (s : cstateD) (k : key) (nv : val) (a' : accD) : rev :=
  match cD_memo s k with
  | Some mo => if d_eq Q k && (o_dur mo <=? a_dur a') && (o_val mo =? nv) then o_chg mo else a_chg a'
  | None => a_chg a'
  end.

Inductive pathD (s : cstateD) (t : thread) : updD -> Prop :=
| D_begin k td :
    stackD s t = [] -> todoD s t = k :: td ->
    pathD s t (mkUD (cD_proto s) (cD_memo s) [k @@ DStart] td false [])
| D_hit k below m :
    stackD s t = (k @@ DStart) :: below -> cD_memo s k = Some m -> o_ver m = cD_cur s ->
    pathD s t (mkUD (cD_proto s) (cD_memo s) (deliverD (cD_memo s) (retm m) below)
                    (todoD s t) false [ERet t k (cD_cur s) (o_val m)])
| D_hot_sc k below m :
    stackD s t = (k @@ DStart) :: below -> cD_memo s k = Some m -> o_ver m <> cD_cur s ->
    shortcut Q sc (cD_cur s) m = true ->
    pathD s t (mkUD (cD_proto s) (cD_memo s) ((k @@ DMark false (retm m)) :: below) (todoD s t) false [])
| D_go_cold k below :
    stackD s t = (k @@ DStart) :: below ->
    (forall m, cD_memo s k = Some m -> o_ver m <> cD_cur s) ->
    pathD s t (mkUD (cD_proto s) (cD_memo s) ((k @@ DCold) :: below) (todoD s t) false [])
| D_mark_hot k r below :
    stackD s t = (k @@ DMark false r) :: below ->
    pathD s t (mkUD (cD_proto s) (mark_memo s k) (deliverD (mark_memo s k) r below)
                    (todoD s t) false [ERet t k (cD_cur s) (r_val r)])
| D_mark_claimed k r below :
    stackD s t = (k @@ DMark true r) :: below ->
    pathD s t (mkUD (cD_proto s) (mark_memo s k) ((k @@ DRelease r) :: below) (todoD s t) false [])
| D_claimed k below pr1 md :
    stackD s t = (k @@ DCold) :: below ->
    Model.step fuel (cD_proto s) (OClaim t k true) = ROk (pr1, XClaim (CClaimed md)) ->
    pathD s t (mkUD pr1 (cD_memo s) ((k @@ DClaimed) :: below) (todoD s t) false [])
| D_blocked k below pr1 pr2 o :
    stackD s t = (k @@ DCold) :: below ->
    Model.step fuel (cD_proto s) (OClaim t k true) = ROk (pr1, XClaim (CRunning o)) ->
    Model.step fuel pr1 (OBlockOn t k o) = ROk (pr2, XBlock BBlocked) ->
    pathD s t (mkUD pr2 (cD_memo s) ((k @@ DWait) :: below) (todoD s t) false [])
| D_cycle1 k below pr1 inner :
    stackD s t = (k @@ DCold) :: below ->
    Model.step fuel (cD_proto s) (OClaim t k true) = ROk (pr1, XClaim (CCycle inner)) ->
    pathD s t (mkUD pr1 (cD_memo s) ((k @@ DCold) :: below) (todoD s t) true [])
| D_cycle2 k below pr1 pr2 o :
    stackD s t = (k @@ DCold) :: below ->
    Model.step fuel (cD_proto s) (OClaim t k true) = ROk (pr1, XClaim (CRunning o)) ->
    Model.step fuel pr1 (OBlockOn t k o) = ROk (pr2, XBlock BCycle) ->
    pathD s t (mkUD pr2 (cD_memo s) ((k @@ DCold) :: below) (todoD s t) true [])
| D_woken k below pr1 r :
    stackD s t = (k @@ DWait) :: below ->
    Model.step fuel (cD_proto s) (OReceive t) = ROk (pr1, XReceive (Some r)) ->
    pathD s t (mkUD pr1 (cD_memo s) ((k @@ DStart) :: below) (todoD s t) false [])
| D_recheck_hit k below m :
    stackD s t = (k @@ DClaimed) :: below -> cD_memo s k = Some m -> o_ver m = cD_cur s ->
    pathD s t (mkUD (cD_proto s) (cD_memo s) ((k @@ DRelease (retm m)) :: below) (todoD s t) false [])
| D_recheck_sc k below m :
    stackD s t = (k @@ DClaimed) :: below -> cD_memo s k = Some m -> o_ver m <> cD_cur s ->
    shortcut Q sc (cD_cur s) m = true ->
    pathD s t (mkUD (cD_proto s) (cD_memo s) ((k @@ DMark true (retm m)) :: below) (todoD s t) false [])
| D_to_verify k below m :
    stackD s t = (k @@ DClaimed) :: below -> cD_memo s k = Some m -> o_ver m <> cD_cur s ->
    pathD s t (mkUD (cD_proto s) (cD_memo s) ((k @@ DVerify (o_deps m) true) :: below)
                    (todoD s t) false [])
| D_exec_start k ph below :
    stackD s t = (k @@ ph) :: below ->
    (ph = DClaimed /\ (forall m, cD_memo s k = Some m -> o_ver m <> cD_cur s)) \/
    (exists l ok, ph = DVerify l ok) ->
    pathD s t (mkUD (cD_proto s) (cD_memo s) ((k @@ DExec (d_body Q k) acc0) :: below)
                    (todoD s t) false [EExec t k (cD_cur s)])
| D_call_v k rest d rest' below m :
    stackD s t = (k @@ DVerify rest true) :: below -> cD_memo s k = Some m ->
    skip_ins Q (cD_cur s) (o_ver m) rest = (true, ECall d :: rest') ->
    pathD s t (mkUD (cD_proto s) (cD_memo s)
                    ((d @@ DStart) :: (k @@ DVerify rest' true) :: below) (todoD s t) false [])
| D_mark k rest below m :
    stackD s t = (k @@ DVerify rest true) :: below -> cD_memo s k = Some m ->
    skip_ins Q (cD_cur s) (o_ver m) rest = (true, []) ->
    pathD s t (mkUD (cD_proto s) (updN (cD_memo s) k (Some (verified_now (cD_cur s) m)))
                    ((k @@ DRelease (retm m)) :: below) (todoD s t) false [])
| D_call_x k b a d kont a' below :
    stackD s t = (k @@ DExec b a) :: below ->
    adv Q (cD_cur s) b a = (BCall d kont, a') ->
    pathD s t (mkUD (cD_proto s) (cD_memo s)
                    ((d @@ DStart) :: (k @@ DPend d kont a') :: below) (todoD s t) false [])
| D_publish k b a nv a' below :
    stackD s t = (k @@ DExec b a) :: below ->
    adv Q (cD_cur s) b a = (BRet nv, a') ->
    pathD s t (mkUD (cD_proto s)
                    (updN (cD_memo s) k
                          (Some (mkO (cD_cur s) nv (publish_chg s k nv a') (a_dur a') (a_tr a'))))
                    ((k @@ DRelease (mkR nv (publish_chg s k nv a') (a_dur a'))) :: below)
                    (todoD s t) false [])
| D_release_quiet k r below pr1 st :
    stackD s t = (k @@ DRelease r) :: below ->
    Model.step fuel (cD_proto s) (ORemove t k) = ROk (pr1, XRemoved st) ->
    release_script t k st Completed = [] ->
    pathD s t (mkUD pr1 (cD_memo s) (deliverD (cD_memo s) r below) (todoD s t) false
                    [ERet t k (cD_cur s) (r_val r)])
| D_release_wake k r below pr1 st a b c0 :
    stackD s t = (k @@ DRelease r) :: below ->
    Model.step fuel (cD_proto s) (ORemove t k) = ROk (pr1, XRemoved st) ->
    release_script t k st Completed = [OUnblock a b c0] ->
    pathD s t (mkUD pr1 (cD_memo s) ((k @@ DUnblock r) :: below) (todoD s t) false [])
| D_unblock k r below pr1 out :
    stackD s t = (k @@ DUnblock r) :: below ->
    Model.step fuel (cD_proto s) (OUnblock t k Completed) = ROk (pr1, out) ->
    pathD s t (mkUD pr1 (cD_memo s) (deliverD (cD_memo s) r below) (todoD s t) false
                    [ERet t k (cD_cur s) (r_val r)]).

Lemma skip_ins_true cur ver : forall l l',
  skip_ins Q cur ver l = (true, l') -> l' = [] \/ exists d r, l' = ECall d :: r.
Proof.
  induction l as [|e l IH]; intros l'; cbn [skip_ins].
  - intros [= <-]. now left.
  - destruct e as [i|d].
    + destruct (d_stamp Q cur i <=? ver); [apply IH | discriminate].
    + intros [= <-]. right. eauto.
Qed.

Lemma adv_nf cur : forall b a i k a', adv Q cur b a <> (BIn i k, a').
Proof.
  induction b as [v|i0 k0 IH|d k0 IH]; intros a i k a'; cbn [adv]; try discriminate. apply IH.
Qed.

Lemma step_threadD_path s t c u : step_threadD fuel Q sc s t c = Some u -> pathD s t u.
Proof.
  unfold step_threadD. destruct (thD_cycle (cD_thr s t)); [discriminate|].
  destruct (thD_stack (cD_thr s t)) as [|[k ph] below] eqn:Est.
  { destruct (thD_todo (cD_thr s t)) as [|k td] eqn:Etd; [discriminate|].
    intros [= <-]. now constructor. }
  cbn [h_key h_phase]. unfold step_frameD. change (thD_todo (cD_thr s t)) with (todoD s t).
  destruct ph as [|cl r| | | |l ok|b a|d kont a|r|r].
  - (* DStart *)
    destruct (cD_memo s k) as [m|] eqn:Em.
    + destruct (N.eqb_spec (o_ver m) (cD_cur s)) as [Ev|Ev].
      * intros [= <-]. eapply D_hit; eauto.
      * destruct (shortcut Q sc (cD_cur s) m) eqn:Esc; intros [= <-].
        -- eapply D_hot_sc; eauto.
        -- eapply D_go_cold; eauto. intros m' Hm'. congruence.
    + intros [= <-]. eapply D_go_cold; eauto. intros m' Hm'. congruence.
  - (* DMark *)
    destruct cl; intros [= <-].
    + pose proof (D_mark_claimed s t k r below Est) as H. unfold mark_memo in H. exact H.
    + pose proof (D_mark_hot s t k r below Est) as H. unfold mark_memo in H. exact H.
  - destruct (Model.step fuel (cD_proto s) (OClaim t k true)) as [[pr1 out]|] eqn:Ecl; [|discriminate].
    destruct out as [r| | | | | | |]; try discriminate. destruct r as [md|o|inner].
    + intros [= <-]. eapply D_claimed; eauto.
    + destruct (Model.step fuel pr1 (OBlockOn t k o)) as [[pr2 out2]|] eqn:Ebl; [|discriminate].
      destruct out2 as [|b| | | | | |]; try discriminate. destruct b; intros [= <-].
      * eapply D_blocked; eauto.
      * eapply D_cycle2; eauto.
    + intros [= <-]. eapply D_cycle1; eauto.
  - destruct (Model.step fuel (cD_proto s) (OReceive t)) as [[pr1 out]|] eqn:Erc; [|discriminate].
    destruct out as [| |[r|]| | | | |]; try discriminate. intros [= <-]. eapply D_woken; eauto.
  - (* DClaimed *)
    destruct (cD_memo s k) as [m|] eqn:Em.
    + destruct (N.eqb_spec (o_ver m) (cD_cur s)) as [Ev|Ev].
      * intros [= <-]. eapply D_recheck_hit; eauto.
      * destruct (shortcut Q sc (cD_cur s) m) eqn:Esc.
        -- intros [= <-]. eapply D_recheck_sc; eauto.
        -- destruct c; intros [= <-].
           ++ eapply D_to_verify; eauto.
           ++ eapply D_exec_start; eauto. left. split; auto. intros m' Hm'. congruence.
    + intros [= <-]. eapply D_exec_start; eauto. left. split; auto. intros m' Hm'. congruence.
  - (* DVerify *)
    destruct (cD_memo s k) as [m|] eqn:Em.
    + destruct ok.
      * destruct (skip_ins Q (cD_cur s) (o_ver m) l) as [okk l'] eqn:Esk. destruct okk.
        -- destruct (skip_ins_true _ _ _ _ Esk) as [->|(d & r & ->)]; intros [= <-].
           ++ eapply D_mark; eauto.
           ++ eapply D_call_v; eauto.
        -- intros [= <-]. eapply D_exec_start; eauto.
      * intros [= <-]. eapply D_exec_start; eauto.
    + intros [= <-]. eapply D_exec_start; eauto.
  - (* DExec *)
    destruct (adv Q (cD_cur s) b a) as [b' a'] eqn:Ea. destruct b' as [nv|i k0|d kont].
    + intros [= <-]. pose proof (D_publish s t k b a nv a' below Est Ea) as H.
      unfold publish_chg in H. exact H.
    + discriminate.
    + intros [= <-]. eapply D_call_x; eauto.
  - discriminate.
  - destruct (Model.step fuel (cD_proto s) (ORemove t k)) as [[pr1 out]|] eqn:Erm; [|discriminate].
    destruct out as [| | |st| | | |]; try discriminate.
    destruct (release_script t k st Completed) as [|o1 [|o2 l2]] eqn:Ers; try discriminate.
    + intros [= <-]. eapply D_release_quiet; eauto.
    + destruct o1; try discriminate. intros [= <-]. eapply D_release_wake; eauto.
    + destruct o1; discriminate.
  - destruct (Model.step fuel (cD_proto s) (OUnblock t k Completed)) as [[pr1 out]|] eqn:Eub;
      [|discriminate].
    intros [= <-]. eapply D_unblock; eauto.
Qed.

End RelD.

Ltac dpathD Hp :=
  destruct Hp as
    [ k td Hst Htd
    | k below m Hst Hm Hv
    | k below m Hst Hm Hv Hsc
    | k below Hst Hnv
    | k r below Hst
    | k r below Hst
    | k below pr1 md Hst Hcl
    | k below pr1 pr2 o Hst Hcl Hbl
    | k below pr1 inner Hst Hcl
    | k below pr1 pr2 o Hst Hcl Hbl
    | k below pr1 r Hst Hrc
    | k below m Hst Hm Hv
    | k below m Hst Hm Hv Hsc
    | k below m Hst Hm Hv
    | k ph below Hst Hph
    | k rest d rest' below m Hst Hm Hsk
    | k rest below m Hst Hm Hsk
    | k b a d kont a' below Hst Hadv
    | k b a nv a' below Hst Hadv
    | k r below pr1 st Hst Hrm Hrs
    | k r below pr1 st a b c0 Hst Hrm Hrs
    | k r below pr1 out Hst Hub ].

(* CFetchD/ExamplesShort.v — the short-cut theorem applies to the witness program of
   CFetchD/Examples.v: all its inputs are LOW and the last-changed revision of LOW is the current
   one; the two-handle, three-revision run WITH the short-cut on is covered by the theorem, and in
   it the short-cut really fires (a claim-free store on a never-changing memo). *)
From Salsa Require Import Base.
From Salsa.Proto Require Import Model.
From Salsa.CFetch Require Import Model.
From Salsa.CFetchD Require Import Model ProofsRel ProofsSync ProofsVal ProofsTop Examples ProofsShort.

Lemma live_levelsx : live_levels Qx.
Proof. intros r i r0. reflexivity. Qed.

Example s2c_values_from_theorem : forall t k r v, In (ERet t k r v) (cD_log s2c) -> v = ED Qx rankx r k.
Proof.
  intros t k r v.
  apply (values_computed_shortcut 8 Qx rankx s2c t k r v rankedx stampsx no_neverx live_levelsx s2c_reachable).
Qed.

Example s2c_memos_from_theorem : forall k m, cD_memo s2c k = Some m -> o_val m = ED Qx rankx (o_ver m) k.
Proof.
  intros k m. apply (memo_sound_shortcut 8 Qx rankx s2c k m rankedx stampsx no_neverx live_levelsx s2c_reachable).
Qed.

(* the run with the short-cut: same returned values as without; key 1 (never-changing) verified in
   revision 3 although executed once, in revision 1 *)
Example s2c_run :
  top_rets s2c = [(1, 9); (1, 9); (2, 13); (3, 18); (3, 18)] /\
  count_exec 1 1 (cD_log s2c) = 1%nat /\ count_exec 1 2 (cD_log s2c) = 0%nat /\ count_exec 1 3 (cD_log s2c) = 0%nat.
Proof. vm_compute. repeat split; reflexivity. Qed.

(* ---------------------------------------------------------------- the full statement is false *)
(* With [durab_ok] alone the value theorem for the short-cut does not hold of the model: a
   durability may change without a new stamp.  d = input 1 (durability 2 in revision 1), k = d.
   Revision 2 lowers the input's durability to 0 (level 2 counts as written, value and stamp
   unchanged): d is re-verified by its unchanged input stamp and keeps the recorded durability 2,
   so does k.  Revision 3 writes the input at its level 0: level 2 saw no write since revision 2,
   the short-cut marks k verified and returns the stale value. *)
Definition bodyc (k : key) : body :=
  if k =? 1 then BIn 1 (fun x => BRet x) else if k =? 2 then BCall 1 (fun a => BRet a) else BRet 0.

Definition Qc : progD := mkD bodyc (fun _ => true)
  (fun r i => if r <? 3 then 5 else 9)
  (fun r i => if r <? 3 then 1 else 3)
  (fun r i => if r <? 2 then 2 else 0)
  (fun r d => if r <? 2 then r else if r <? 3 then (if d <? 3 then 2 else 1)
              else (if d =? 0 then r else if d <? 3 then 2 else 1)).

Definition rankc (k : key) : nat := N.to_nat k.

Lemma rankedc : rankedD Qc rankc.
Proof.
  intros k. unfold Qc, bodyc, rankc. cbn [d_body].
  destruct (N.eqb_spec k 1) as [->|H1]; [cbn; intros; exact Logic.I|].
  destruct (N.eqb_spec k 2) as [->|H2]; [|exact Logic.I].
  cbn [body_ranked]. split; [cbn; lia | intros; exact Logic.I].
Qed.

Lemma stampsc : stampsD_ok Qc.
Proof.
  unfold stampsD_ok, Qc. cbn [d_in d_stamp d_idur]. split; [|split].
  - intros r i r'. destruct (N.ltb_spec r 3), (N.ltb_spec r' 3); intros; try reflexivity; lia.
  - intros r i Hr. destruct (N.ltb_spec r 3); lia.
  - intros r i r' H. destruct (r <? 2); discriminate.
Qed.

Lemma no_neverc : no_never Qc.
Proof. intros r i. cbn. unfold DUR_MAX. destruct (r <? 2); lia. Qed.

(* the three clauses of Props/C16.v's [durab_ok] *)
Lemma durabc :
  (forall r d d', d <= d' -> d_lc Qc r d' <= d_lc Qc r d) /\
  (forall r d, d_lc Qc r d <= r) /\
  (forall r r0 i, r0 <= r -> d_lc Qc r (d_idur Qc r0 i) <= r0 ->
     d_in Qc r i = d_in Qc r0 i /\ d_stamp Qc r i = d_stamp Qc r0 i /\ d_idur Qc r i = d_idur Qc r0 i).
Proof.
  unfold Qc. cbn [d_lc d_in d_stamp d_idur]. split; [|split].
  - intros r d d' Hd. destruct (N.ltb_spec r 2); [lia|]. destruct (N.ltb_spec r 3).
    + destruct (N.ltb_spec d 3), (N.ltb_spec d' 3); lia.
    + destruct (N.eqb_spec d 0), (N.eqb_spec d' 0), (N.ltb_spec d 3), (N.ltb_spec d' 3); lia.
  - intros r d. destruct (N.ltb_spec r 2); [lia|]. destruct (N.ltb_spec r 3).
    + destruct (d <? 3); lia.
    + destruct (d =? 0); [lia|]. destruct (d <? 3); lia.
  - intros r r0 i Hle.
    destruct (N.ltb_spec r0 2), (N.ltb_spec r 2), (N.ltb_spec r0 3), (N.ltb_spec r 3);
      cbn; intros Hlc; try lia; repeat split; reflexivity.
Qed.

Fixpoint lenc (sc : bool) (l : list gop) (s : cstateD) : cstateD :=
  match l with
  | [] => s
  | o :: l' => match gstepD 8 Qc sc s o with Some s' => lenc sc l' s' | None => lenc sc l' s end
  end.

Lemma lenc_creach sc : forall l s, creachD 8 Qc sc s -> creachD 8 Qc sc (lenc sc l s).
Proof.
  induction l as [|o l IH]; intros s H; cbn [lenc]; auto.
  destruct (gstepD 8 Qc sc s o) as [s'|] eqn:E0; auto. apply IH. eapply crD_step; eauto.
Qed.

Definition scriptc : list gop :=
  [GSpawn 1 [2]] ++ rep 40 [GStep 1 true] ++ [GBump; GSpawn 1 [2]] ++ rep 40 [GStep 1 true] ++
  [GBump; GSpawn 1 [2]] ++ rep 40 [GStep 1 true].

Definition sc3 : cstateD := lenc true scriptc cinitD.

Example sc3_reachable : creachD 8 Qc true sc3.
Proof. apply lenc_creach. constructor. Qed.

(* the run returns 5 for key 2 in revision 3; the from-scratch value is 9 (and the model without
   the short-cut returns 9) *)
Example sc3_stale :
  In (ERet 1 2 3 5) (cD_log sc3) /\ ED Qc rankc 3 2 = 9 /\
  In (ERet 1 2 3 9) (cD_log (lenc false scriptc cinitD)).
Proof. vm_compute. split; [|split; [reflexivity|]]; tauto. Qed.

(* CFetchD/ProofsVal.v — what the model with DYNAMIC call lists computes is the from-scratch
   value (the model without the durability short-cut, [sc = false]).

   The invariant ([InvD], with the ghost set [seen k] of revisions in which [k]'s memo was known
   valid, as in CFetch2/ProofsVal.v):
     * a memo's value is the from-scratch value at every seen revision not before its changed_at;
     * every edge READ ALONG THE PATH of the evaluation at the memo's verified_at is a recorded
       edge, or a call of a key whose value is the same in all revisions ([constk]: what a
       never-changing durability means when no input is never-changing); so two revisions that
       agree on the recorded edges agree on the value AND on the path ([evb_agree]);
     * a memo of never-changing durability has no recorded edges and a constant value;
     * an executing frame holds a residual computation that evaluates like the whole body, and
       every edge of the path that is no longer ahead was accumulated ([cov]): recorded (or
       constant), its stamp below the accumulated changed_at, read from a memo verified now;
     * a verifying frame whose flag is still set has found every recorded edge before its position
       unchanged: input stamps not after the memo's verified_at, callee memos verified now with
       changed_at not after it.
   Rely: a memo verified in the current revision is not written again in it (writers hold the
   claim of an unverified key; claims are exclusive: CFetchD/ProofsSync.v). *)
From Salsa Require Import Base.
From Salsa.Proto Require Import Model.
From Salsa.CFetch Require Import Model.
From Salsa.CFetchD Require Import Model ProofsRel ProofsSync.

Lemma edge_eqb_eq a b : edge_eqb a b = true <-> a = b.
Proof.
  destruct a as [i|k], b as [j|l]; cbn; split; try discriminate.
  - intros H. apply N.eqb_eq in H. now subst.
  - intros [= ->]. apply N.eqb_refl.
  - intros H. apply N.eqb_eq in H. now subst.
  - intros [= ->]. apply N.eqb_refl.
Qed.

Lemma existsb_edge e l : existsb (edge_eqb e) l = true <-> In e l.
Proof.
  rewrite existsb_exists. split.
  - intros (x & Hx & He). apply edge_eqb_eq in He. now subst.
  - intros H. exists e. split; auto. now apply edge_eqb_eq.
Qed.

Lemma add_tr_in a e e' c d : In e (a_tr a) -> In e (a_tr (add_edge a e' c d)).
Proof.
  intros H. unfold add_edge. cbn [a_tr]. destruct ((d =? DUR_MAX) || existsb (edge_eqb e') (a_tr a)); auto.
  apply in_or_app. now left.
Qed.

Lemma add_tr_new a e c d : d <> DUR_MAX -> In e (a_tr (add_edge a e c d)).
Proof.
  intros H. unfold add_edge. cbn [a_tr]. apply N.eqb_neq in H. rewrite H. cbn [orb].
  destruct (existsb (edge_eqb e) (a_tr a)) eqn:Ex.
  - now apply existsb_edge.
  - apply in_or_app. right. now left.
Qed.

Lemma add_tr_inv a e e' c d : In e (a_tr (add_edge a e' c d)) -> In e (a_tr a) \/ (e = e' /\ d <> DUR_MAX).
Proof.
  unfold add_edge. cbn [a_tr]. destruct (N.eqb_spec d DUR_MAX) as [->|Hne]; cbn [orb]; auto.
  destruct (existsb (edge_eqb e') (a_tr a)); auto.
  intros H. apply in_app_or in H as [H|[<-|[]]]; auto.
Qed.

Lemma add_tr_max a e c : a_tr (add_edge a e c DUR_MAX) = a_tr a.
Proof. unfold add_edge. cbn [a_tr]. now rewrite N.eqb_refl. Qed.

(* agreement is only needed for the edges that are on BOTH paths *)
Lemma evb_agree2 rec inp rec' inp' : forall b,
  (forall e, In e (readsb rec inp b) -> In e (readsb rec' inp' b) -> esame rec rec' inp inp' e) ->
  evb rec inp b = evb rec' inp' b.
Proof.
  induction b as [v|i k IH|d k IH]; intros H; cbn [evb]; auto.
  - pose proof (H (EIn i) (or_introl eq_refl) (or_introl eq_refl)) as E0. cbn in E0. rewrite <- E0.
    apply IH. intros e He He'. apply H; cbn [readsb]; [now right|]. right. now rewrite <- E0.
  - pose proof (H (ECall d) (or_introl eq_refl) (or_introl eq_refl)) as E0. cbn in E0. rewrite <- E0.
    apply IH. intros e He He'. apply H; cbn [readsb]; [now right|]. right. now rewrite <- E0.
Qed.

Definition walkingD (ph : phaseD) : bool :=
  match ph with DVerify _ _ | DExec _ _ | DPend _ _ _ => true | _ => false end.

Section Val.
Variable fuel : nat.
Variable Q : progD.
Variable rank : key -> nat.

Notation Ev := (ED Q rank).
Notation path r k := (readsb (Ev r) (d_in Q r) (d_body Q k)).

(* no input is of never-changing durability *)
Definition no_never : Prop := forall r i, d_idur Q r i < DUR_MAX.

Definition constk (d : key) : Prop := forall r r', Ev r d = Ev r' d.

Definition esameR (r r' : rev) (e : edge) : Prop := esame (Ev r) (Ev r') (d_in Q r) (d_in Q r') e.

Definition ver2D (mm : key -> option memoD) (cur : rev) (k : key) : Prop :=
  exists m, mm k = Some m /\ o_ver m = cur.

(* an edge of the path that was accumulated by the executing frame *)
Definition cov (mm : key -> option memoD) (cur : rev) (a : accD) (e : edge) : Prop :=
  match e with
  | EIn i => In e (a_tr a) /\ d_stamp Q cur i <= a_chg a /\ a_dur a < DUR_MAX
  | ECall d => exists m, mm d = Some m /\ o_ver m = cur /\ o_chg m <= a_chg a /\
                         (In e (a_tr a) \/ constk d) /\ (DUR_MAX <= a_dur a -> constk d)
  end.

Definition good_edge (mm : key -> option memoD) (cur since : rev) (e : edge) : Prop :=
  match e with
  | EIn i => d_stamp Q cur i <= since
  | ECall d => exists md, mm d = Some md /\ o_ver md = cur /\ o_chg md <= since
  end.

Definition exec_ok mm cur (k : key) (b : body) (a : accD) : Prop :=
  ~ ver2D mm cur k /\ a_chg a <= cur /\
  evb (Ev cur) (d_in Q cur) (d_body Q k) = evb (Ev cur) (d_in Q cur) b /\
  (forall e, In e (path cur k) -> In e (readsb (Ev cur) (d_in Q cur) b) \/ cov mm cur a e) /\
  (DUR_MAX <= a_dur a -> a_tr a = []) /\
  (forall d, In (ECall d) (a_tr a) -> ver2D mm cur d) /\
  a_dur a <= DUR_MAX.

Definition frame_okD mm cur (pend : list key) (f : frameD) : Prop :=
  match h_phase f with
  | DMark _ _ => False
  | DVerify l ok =>
    ~ ver2D mm cur (h_key f) /\
    (ok = true -> exists m done, mm (h_key f) = Some m /\
       o_deps m = done ++ map ECall pend ++ l /\
       forall e, In e done -> good_edge mm cur (o_ver m) e)
  | DExec b a => pend = [] /\ exec_ok mm cur (h_key f) b a
  | DPend d kont a => pend = [d] /\ exec_ok mm cur (h_key f) (BCall d kont) a
  | DRelease r | DUnblock r =>
    exists m, mm (h_key f) = Some m /\ o_ver m = cur /\ retm m = r
  | _ => True
  end.

Fixpoint stack_okD mm cur (pend : list key) (l : list frameD) : Prop :=
  match l with
  | [] => True
  | f :: b => frame_okD mm cur pend f /\ stack_okD mm cur [h_key f] b
  end.

Definition memo_okD (seen : key -> rev -> Prop) (cur : rev) (k : key) (m : memoD) : Prop :=
  o_chg m <= o_ver m /\ o_ver m <= cur /\ seen k (o_ver m) /\
  (forall r, seen k r -> o_chg m <= r -> Ev r k = o_val m) /\
  (forall e, In e (path (o_ver m) k) -> In e (o_deps m) \/ exists d, e = ECall d /\ constk d) /\
  (o_dur m = DUR_MAX -> o_deps m = [] /\ constk k) /\
  (forall d, In (ECall d) (o_deps m) -> seen d (o_ver m)) /\
  o_dur m <= DUR_MAX.

Record InvD (seen : key -> rev -> Prop) (s : cstateD) : Prop := mkInvD {
  ID_memo : forall k m, cD_memo s k = Some m -> memo_okD seen (cD_cur s) k m;
  ID_seen : forall k r, seen k r -> r <= cD_cur s;
  ID_stack : forall t, stack_okD (cD_memo s) (cD_cur s) [] (stackD s t);
  ID_cur : 1 <= cD_cur s;
  ID_closed : forall k r d, seen k r -> In (ECall d) (path r k) -> seen d r \/ constk d;
  ID_log : forall t k r v, In (ERet t k r v) (cD_log s) -> v = Ev r k
}.

Lemma verified_valueD seen s d md :
  InvD seen s -> cD_memo s d = Some md -> o_ver md = cD_cur s -> Ev (cD_cur s) d = o_val md.
Proof.
  intros I Hm Hv. destruct (ID_memo _ _ I _ _ Hm) as (Hc & _ & Hs & Hval & _).
  apply Hval; [now rewrite <- Hv | lia].
Qed.

(* ---- a write to an unverified key leaves the other frames alone ---- *)
Lemma cov_stable mm mm' cur k0 a e :
  ~ ver2D mm cur k0 -> (forall k, k <> k0 -> mm' k = mm k) -> cov mm cur a e -> cov mm' cur a e.
Proof.
  intros Hun Hoth. destruct e as [i|d]; cbn [cov]; auto.
  intros (m & Hm & Hv & R). exists m. split; auto. rewrite Hoth; auto.
  intros ->. apply Hun. exists m. auto.
Qed.

Lemma ver2D_stable mm mm' cur k0 d :
  ~ ver2D mm cur k0 -> (forall k, k <> k0 -> mm' k = mm k) -> ver2D mm cur d -> ver2D mm' cur d.
Proof.
  intros Hun Hoth (m & Hm & Hv). exists m. split; auto. rewrite Hoth; auto.
  intros ->. apply Hun. exists m. auto.
Qed.

Lemma exec_stable mm mm' cur k0 k b a :
  ~ ver2D mm cur k0 -> (forall k, k <> k0 -> mm' k = mm k) -> k <> k0 ->
  exec_ok mm cur k b a -> exec_ok mm' cur k b a.
Proof.
  intros Hun Hoth Hne (A & B & C & D & E0 & F & G).
  split; [|split; [exact B|split; [exact C|split; [|split; [exact E0|split; [|exact G]]]]]].
  - intros (m & Hm & Hv). apply A. exists m. split; auto. rewrite <- Hoth; auto.
  - intros e He. destruct (D e He) as [H|H]; auto. right. apply (cov_stable mm mm' cur k0); auto.
  - intros d Hd. apply (ver2D_stable mm mm' cur k0); auto.
Qed.

Lemma frame_stableD mm mm' cur k0 pend f :
  ~ ver2D mm cur k0 -> (forall k, k <> k0 -> mm' k = mm k) ->
  (h_key f = k0 -> walkingD (h_phase f) = false) ->
  frame_okD mm cur pend f -> frame_okD mm' cur pend f.
Proof.
  intros Hun Hoth Hcond. unfold frame_okD.
  destruct (h_phase f) as [|cl r| | | |l ok|b a|d kont a|r|r] eqn:Eph; auto.
  - assert (Hne : h_key f <> k0) by (intros E0; specialize (Hcond E0); discriminate).
    intros [Hnv Hok]. split.
    + intros (m & Hm & Hvv). apply Hnv. exists m. rewrite <- Hoth; auto.
    + intros Eok. destruct (Hok Eok) as (m & done & Hm & Hd & Hg). exists m, done.
      rewrite Hoth by auto. repeat split; auto.
      intros e He. specialize (Hg e He). destruct e as [i|d]; cbn [good_edge] in *; auto.
      destruct Hg as (md & Hmd & Hvd & Hcd). exists md. split; auto. rewrite Hoth; auto.
      intros ->. apply Hun. exists md. auto.
  - assert (Hne : h_key f <> k0) by (intros E0; specialize (Hcond E0); discriminate).
    intros [Hp Hx]. split; auto. eapply exec_stable; eauto.
  - assert (Hne : h_key f <> k0) by (intros E0; specialize (Hcond E0); discriminate).
    intros [Hp Hx]. split; auto. eapply exec_stable; eauto.
  - intros (m & Hm & Hvv & Hr). exists m. rewrite Hoth; auto.
    intros E0. apply Hun. exists m. rewrite <- E0. auto.
  - intros (m & Hm & Hvv & Hr). exists m. rewrite Hoth; auto.
    intros E0. apply Hun. exists m. rewrite <- E0. auto.
Qed.

Lemma stack_stableD mm mm' cur k0 : forall l pend,
  ~ ver2D mm cur k0 -> (forall k, k <> k0 -> mm' k = mm k) ->
  (forall f, In f l -> h_key f = k0 -> walkingD (h_phase f) = false) ->
  stack_okD mm cur pend l -> stack_okD mm' cur pend l.
Proof.
  induction l as [|f b IH]; intros pend Hun Hoth Hc; cbn [stack_okD]; auto.
  intros [Hf Hb]. split.
  - eapply frame_stableD; eauto. apply Hc. now left.
  - apply IH; auto. intros f' Hf'. apply Hc. now right.
Qed.

(* ---- accumulating an edge ---- *)
Lemma cov_add mm cur a e e' c d : cov mm cur a e -> cov mm cur (add_edge a e' c d) e.
Proof.
  destruct e as [i|d0]; cbn [cov].
  - intros (A & B & C). split; [now apply add_tr_in|]. unfold add_edge; cbn [a_chg a_dur]. split; lia.
  - intros (m & Hm & Hv & Hc & Hin & Hd). exists m. repeat split; auto.
    + unfold add_edge; cbn [a_chg]. lia.
    + destruct Hin; [left; now apply add_tr_in | now right].
    + unfold add_edge; cbn [a_dur]. intros H. apply Hd. lia.
Qed.


(* ---- a returned (value, changed_at, durability) reaches a correct caller frame ---- *)
Lemma deliver_okD mm cur d md below :
  mm d = Some md -> o_ver md = cur -> Ev cur d = o_val md -> o_chg md <= cur ->
  o_dur md <= DUR_MAX -> (o_dur md = DUR_MAX -> constk d) ->
  stack_okD mm cur [d] below -> stack_okD mm cur [] (deliverD mm (retm md) below).
Proof.
  intros Hm Hv HE Hcc Hdu Hcst. destruct below as [|f b]; cbn [deliverD stack_okD]; auto.
  intros [Hf Hb]. unfold frame_okD in Hf.
  destruct (h_phase f) as [|cl r0| | | |l ok|b0 a|d' kont a|r0|r0] eqn:Eph; cbn [stack_okD h_key].
  - split; [unfold frame_okD; rewrite Eph; auto | exact Hb].
  - contradiction.
  - split; [unfold frame_okD; rewrite Eph; auto | exact Hb].
  - split; [unfold frame_okD; rewrite Eph; auto | exact Hb].
  - split; [unfold frame_okD; rewrite Eph; auto | exact Hb].
  - (* DVerify *)
    destruct Hf as [Hnv Hok]. split; [|exact Hb]. unfold frame_okD. cbn [h_phase h_key].
    split; auto. intros Eok. apply andb_true_iff in Eok as [Eok Eun].
    destruct (Hok Eok) as (m & done & Hmk & Hd & Hg). exists m, (done ++ [ECall d]). split; auto.
    rewrite Hmk in Eun. cbn [retm r_chg] in Eun. apply N.leb_le in Eun. split.
    + rewrite Hd. cbn [map app]. now rewrite <- app_assoc.
    + intros e He. apply in_app_or in He as [He|[<-|[]]]; auto.
      cbn [good_edge]. exists md. auto.
  - destruct Hf as [Hp _]. discriminate.
  - (* DPend *)
    destruct Hf as [Hp (A & B & C & D & E0 & F & G)]. injection Hp as <-.
    split; [|exact Hb]. unfold frame_okD. cbn [h_phase h_key]. split; auto.
    cbn [retm r_val r_chg r_dur].
    split; [exact A|]. split; [unfold add_edge; cbn [a_chg]; lia|]. split; [|split; [|split; [|split]]].
    + rewrite C. cbn [evb]. now rewrite HE.
    + intros e He. destruct (D e He) as [Hin|Hc].
      * cbn [readsb] in Hin. destruct Hin as [<-|Hin].
        -- right. cbn [cov]. exists md. split; auto. split; auto. split; [unfold add_edge; cbn [a_chg]; lia|].
           split.
           ++ destruct (N.eq_dec (o_dur md) DUR_MAX) as [E1|E1]; [right; auto | left; now apply add_tr_new].
           ++ unfold add_edge; cbn [a_dur]. intros H. apply Hcst. lia.
        -- left. now rewrite <- HE.
      * right. now apply cov_add.
    + unfold add_edge at 1; cbn [a_dur]. intros H.
      assert (E1 : o_dur md = DUR_MAX) by lia. rewrite E1, add_tr_max. apply E0. lia.
    + intros d0 Hd0. apply add_tr_inv in Hd0 as [Hd0|[E1 _]]; auto.
      injection E1 as ->. exists md. auto.
    + unfold add_edge; cbn [a_dur]. lia.
  - split; [unfold frame_okD; rewrite Eph; exact Hf | exact Hb].
  - split; [unfold frame_okD; rewrite Eph; exact Hf | exact Hb].
Qed.

(* ---- the input reads of a body ---- *)
Lemma adv_ok mm cur k : no_never -> stampsD_ok Q -> 1 <= cur ->
  forall b a b' a', exec_ok mm cur k b a -> adv Q cur b a = (b', a') -> exec_ok mm cur k b' a'.
Proof.
  intros NN SK H1. induction b as [v|i k0 IH|d k0 IH]; intros a b' a' Hx; cbn [adv].
  - intros [= <- <-]. exact Hx.
  - apply IH. destruct Hx as (A & B & C & D & E0 & F & G).
    pose proof (NN cur i) as Hdu. pose proof (proj1 (proj2 SK) cur i H1) as Hst.
    split; [exact A|]. split; [unfold add_edge; cbn [a_chg]; lia|]. split; [|split; [|split; [|split]]].
    + rewrite C. reflexivity.
    + intros e He. destruct (D e He) as [Hin|Hc].
      * cbn [readsb] in Hin. destruct Hin as [<-|Hin]; [|now left].
        right. cbn [cov]. split; [apply add_tr_new; lia|]. unfold add_edge; cbn [a_chg a_dur]. split; lia.
      * right. now apply cov_add.
    + unfold add_edge at 1; cbn [a_dur]. intros H. exfalso. lia.
    + intros d0 Hd0. apply add_tr_inv in Hd0 as [Hd0|[E1 _]]; auto. discriminate.
    + unfold add_edge; cbn [a_dur]. lia.
  - intros [= <- <-]. exact Hx.
Qed.

Lemma skip_ins_spec mm cur ver : forall l l',
  skip_ins Q cur ver l = (true, l') ->
  exists ins, l = ins ++ l' /\ forall e, In e ins -> good_edge mm cur ver e.
Proof.
  induction l as [|e l IH]; intros l'; cbn [skip_ins].
  - intros [= <-]. exists []. split; auto. intros e [].
  - destruct e as [i|d].
    + destruct (N.leb_spec (d_stamp Q cur i) ver) as [Hle|Hgt]; [|discriminate].
      intros H. destruct (IH _ H) as (ins & -> & Hg). exists (EIn i :: ins). split; auto.
      intros e [<-|He]; auto.
    + intros [= <-]. exists []. split; auto. intros e [].
Qed.

End Val.

Section Pres.
Variable fuel : nat.
Variable Q : progD.
Variable rank : key -> nat.

Notation Ev := (ED Q rank).
Notation path r k := (readsb (Ev r) (d_in Q r) (d_body Q k)).

Lemma inv_nomemoD seen s t u :
  InvD Q rank seen s -> uD_memo u = cD_memo s ->
  stack_okD Q rank (cD_memo s) (cD_cur s) [] (uD_stack u) ->
  (forall t0 k r v, In (ERet t0 k r v) (uD_ev u) -> v = Ev r k) ->
  InvD Q rank seen (apply_updD s t u).
Proof.
  intros [A B C D E0 F] Hm Hs Hl. constructor; cbn [cD_memo cD_cur cD_log apply_updD]; rewrite ?Hm; auto.
  - intros t'. rewrite stackD_apply. destruct (t =? t'); auto.
  - intros t0 k r v Hin. apply in_app_or in Hin as [Hin|Hin]; eauto.
Qed.

Lemma memo_ok_mono (seen seen' : key -> rev -> Prop) cur k m :
  (forall k' r, seen k' r -> seen' k' r) ->
  (forall r, seen' k r -> seen k r) ->
  memo_okD Q rank seen cur k m -> memo_okD Q rank seen' cur k m.
Proof.
  intros Hs Hk (A & B & C & D & E0 & F & G & H).
  split; [exact A|]. split; [exact B|]. split; [apply Hs; exact C|].
  split; [intros r Hr; apply D; apply Hk; exact Hr|]. split; [exact E0|]. split; [exact F|].
  split; [intros d Hd; apply Hs; apply G; exact Hd | exact H].
Qed.

(* the two memo writes *)
Lemma inv_writeD seen s t u k0 ph below m' :
  InvD Q rank seen s -> exclD s ->
  stackD s t = (k0 @@ ph) :: below -> holdD ph = true ->
  ~ ver2D (cD_memo s) (cD_cur s) k0 ->
  uD_memo u = updN (cD_memo s) k0 (Some m') -> uD_ev u = [] ->
  o_ver m' = cD_cur s ->
  memo_okD Q rank (fun k r => seen k r \/ (k = k0 /\ r = cD_cur s)) (cD_cur s) k0 m' ->
  (forall d, In (ECall d) (path (cD_cur s) k0) -> ver2D (cD_memo s) (cD_cur s) d \/ constk Q rank d) ->
  uD_stack u = (k0 @@ DRelease (retm m')) :: below ->
  InvD Q rank (fun k r => seen k r \/ (k = k0 /\ r = cD_cur s)) (apply_updD s t u).
Proof.
  intros I X Hst Hh Hun Hm Hev Hv Hok Hcl Hs.
  assert (Hoth : forall k, k <> k0 -> uD_memo u k = cD_memo s k).
  { intros k Hk. rewrite Hm. now rewrite updN_other by auto. }
  assert (Hk0 : uD_memo u k0 = Some m') by (rewrite Hm; apply updN_same).
  assert (Hwalk : forall t' f, In f (stackD s t') -> (t' <> t \/ In f below) -> h_key f = k0 ->
                  walkingD (h_phase f) = false).
  { intros t' f Hin Hpos Hk. destruct (walkingD (h_phase f)) eqn:Ew; auto. exfalso.
    assert (Hh' : holdD (h_phase f) = true) by (destruct (h_phase f); try discriminate; reflexivity).
    destruct (X _ _ _ _ _ _ Hst Hh Hin Hh' Hk) as [Et Hnb]. destruct Hpos; [congruence | contradiction]. }
  constructor; cbn [cD_memo cD_cur cD_log apply_updD].
  - intros k m Hk. destruct (N.eq_dec k k0) as [->|Hne].
    + rewrite Hk0 in Hk. injection Hk as <-. exact Hok.
    + rewrite Hoth in Hk by auto. eapply memo_ok_mono; [| |eapply (ID_memo _ _ _ _ I); eauto].
      * intros k' r Hr. now left.
      * intros r [Hr|[E0 _]]; [auto | congruence].
  - intros k r [Hr | [_ ->]]; [eapply ID_seen; eauto | lia].
  - intros t'. rewrite stackD_apply. destruct (N.eqb_spec t t') as [<-|Hne].
    + rewrite Hs. cbn [stack_okD h_key]. split.
      * unfold frame_okD. cbn [h_phase h_key]. exists m'. auto.
      * pose proof (ID_stack _ _ _ _ I t) as Hokk. rewrite Hst in Hokk. cbn [stack_okD h_key] in Hokk.
        destruct Hokk as [_ Hb].
        eapply (stack_stableD Q rank (cD_memo s) (uD_memo u) (cD_cur s) k0);
          [exact Hun | exact Hoth | | exact Hb].
        intros f Hf Hk. apply (Hwalk t f); [rewrite Hst; now right | now right | exact Hk].
    + eapply (stack_stableD Q rank (cD_memo s) (uD_memo u) (cD_cur s) k0);
        [exact Hun | exact Hoth | | apply (ID_stack _ _ _ _ I)].
      intros f Hf Hk. apply (Hwalk t' f); auto.
  - apply (ID_cur _ _ _ _ I).
  - intros k r d [Hr | [-> ->]] Hin.
    + destruct (ID_closed _ _ _ _ I _ _ _ Hr Hin); [left; now left | now right].
    + destruct (Hcl _ Hin) as [(md & Hmd & Hvd)|Hc]; [|now right].
      destruct (ID_memo _ _ _ _ I _ _ Hmd) as (_ & _ & Hsn & _). left. left. now rewrite <- Hvd.
  - rewrite Hev. cbn [app]. apply (ID_log _ _ _ _ I).
Qed.

End Pres.

Section Path.
Variable fuel : nat.
Variable Q : progD.
Variable rank : key -> nat.

Notation Ev := (ED Q rank).
Notation path r k := (readsb (Ev r) (d_in Q r) (d_body Q k)).

Lemma memo_facts seen s d md :
  InvD Q rank seen s -> cD_memo s d = Some md -> o_ver md = cD_cur s ->
  Ev (cD_cur s) d = o_val md /\ o_chg md <= cD_cur s /\ o_dur md <= DUR_MAX /\
  (o_dur md = DUR_MAX -> constk Q rank d) /\ seen d (cD_cur s).
Proof.
  intros I Hm Hv. pose proof (verified_valueD Q rank seen s d md I Hm Hv) as HE.
  destruct (ID_memo _ _ _ _ I _ _ Hm) as (A & B & C & D & E0 & F & G & H).
  split; auto. split; [lia|]. split; auto. split; [intros E1; apply F; exact E1|]. now rewrite <- Hv.
Qed.

Lemma inv_pathD seen s t u :
  rankedD Q rank -> stampsD_ok Q -> no_never Q -> InvD Q rank seen s -> exclD s ->
  pathD fuel Q false s t u ->
  exists seen', InvD Q rank seen' (apply_updD s t u).
Proof.
  intros RK SK NN I X Hp.
  pose proof (ID_stack _ _ _ _ I t) as Hok.
  pose proof (ID_cur _ _ _ _ I) as H1.
  dpathD Hp; rewrite Hst in Hok; cbn [stack_okD h_key] in Hok;
    try (destruct Hok as [Hf Hb]; unfold frame_okD in Hf; cbn [h_phase h_key] in Hf).
  - (* begin *)
    exists seen. apply inv_nomemoD; auto; cbn [uD_stack uD_ev stack_okD]; [split; [exact Logic.I|auto] | intros ? ? ? ? []].
  - (* hit *)
    destruct (memo_facts _ _ _ _ I Hm Hv) as (HE & Hc & Hdu & Hcst & _).
    exists seen. apply inv_nomemoD; auto; cbn [uD_stack uD_ev].
    + eapply deliver_okD; eauto.
    + intros t0 k0 r v [E0|[]]. injection E0 as <- <- <- <-. now rewrite HE.
  - (* hot_sc *) unfold shortcut in Hsc. cbn in Hsc. discriminate.
  - (* go_cold *)
    exists seen. apply inv_nomemoD; auto; cbn [uD_stack uD_ev stack_okD h_key]; [split; [exact Logic.I|auto] | intros ? ? ? ? []].
  - contradiction.
  - contradiction.
  - exists seen. apply inv_nomemoD; auto; cbn [uD_stack uD_ev stack_okD h_key]; [split; [exact Logic.I|auto] | intros ? ? ? ? []].
  - exists seen. apply inv_nomemoD; auto; cbn [uD_stack uD_ev stack_okD h_key]; [split; [exact Logic.I|auto] | intros ? ? ? ? []].
  - exists seen. apply inv_nomemoD; auto; cbn [uD_stack uD_ev stack_okD h_key]; [split; [exact Logic.I|auto] | intros ? ? ? ? []].
  - exists seen. apply inv_nomemoD; auto; cbn [uD_stack uD_ev stack_okD h_key]; [split; [exact Logic.I|auto] | intros ? ? ? ? []].
  - exists seen. apply inv_nomemoD; auto; cbn [uD_stack uD_ev stack_okD h_key]; [split; [exact Logic.I|auto] | intros ? ? ? ? []].
  - (* recheck_hit *)
    exists seen. apply inv_nomemoD; auto; cbn [uD_stack uD_ev stack_okD h_key]; [|intros ? ? ? ? []].
    split; auto. unfold frame_okD. cbn [h_phase h_key]. exists m. auto.
  - (* recheck_sc *) unfold shortcut in Hsc. cbn in Hsc. discriminate.
  - (* to_verify *)
    exists seen. apply inv_nomemoD; auto; cbn [uD_stack uD_ev stack_okD h_key]; [|intros ? ? ? ? []].
    split; auto. unfold frame_okD. cbn [h_phase h_key]. split.
    + intros (m0 & Hm0 & Hv0). congruence.
    + intros _. exists m, []. split; auto. split; auto. intros e [].
  - (* exec_start *)
    exists seen. apply inv_nomemoD; auto; cbn [uD_stack uD_ev stack_okD h_key].
    2:{ intros t0 k0 r v [E0|[]]. discriminate. }
    split; auto. unfold frame_okD. cbn [h_phase h_key]. split; auto.
    split; [|split; [exact H1|split; [reflexivity|split; [intros e He; now left|split; [reflexivity|split; [intros d []|]]]]]].
    + destruct Hph as [[-> Hnv] | (l & ok & ->)].
      * intros (m0 & Hm0 & Hv0). eapply Hnv; eauto.
      * apply Hf.
    + cbn. unfold DUR_MAX. lia.
  - (* call_v *)
    destruct Hf as [Hun Hokk]. destruct (Hokk eq_refl) as (m0 & done & Hm0 & Hd & Hg).
    assert (m0 = m) by congruence. subst m0. cbn [map app] in Hd.
    destruct (skip_ins_spec Q (cD_memo s) _ _ _ _ Hsk) as (ins & -> & Hgi).
    exists seen. apply inv_nomemoD; auto; cbn [uD_stack uD_ev stack_okD h_key]; [|intros ? ? ? ? []].
    split; [exact Logic.I|]. split; auto. unfold frame_okD. cbn [h_phase h_key]. split; auto.
    intros _. exists m, (done ++ ins). split; auto. split.
    + rewrite Hd. cbn [map app]. now rewrite <- app_assoc.
    + intros e He. apply in_app_or in He as [He|He]; auto.
  - (* mark *)
    destruct Hf as [Hun Hokk]. destruct (Hokk eq_refl) as (m0 & done & Hm0 & Hd & Hg).
    assert (m0 = m) by congruence. subst m0. cbn [map app] in Hd.
    destruct (skip_ins_spec Q (cD_memo s) _ _ _ _ Hsk) as (ins & -> & Hgi).
    rewrite app_nil_r in Hd.
    assert (Hgood : forall e, In e (o_deps m) -> good_edge Q (cD_memo s) (cD_cur s) (o_ver m) e).
    { intros e He. rewrite Hd in He. apply in_app_or in He as [He|He]; auto. }
    destruct (ID_memo _ _ _ _ I _ _ Hm) as (Hc & Hle & Hsn & Hval & Hpath & Hmax & Hdep & Hdu).
    assert (HA : forall e, In e (o_deps m) -> esameR Q rank (o_ver m) (cD_cur s) e).
    { intros e He. specialize (Hgood e He). destruct e as [i|d]; cbn [good_edge] in Hgood; unfold esameR; cbn [esame].
      - apply (proj1 SK (cD_cur s) i (o_ver m)); auto.
      - destruct Hgood as (md & Hmd & Hvd & Hcd).
        destruct (ID_memo _ _ _ _ I _ _ Hmd) as (Hc' & _ & Hsn' & Hval' & _).
        rewrite (Hval' (cD_cur s)); [|now rewrite <- Hvd | lia].
        rewrite (Hval' (o_ver m)); auto. }
    assert (Hall : forall e, In e (path (o_ver m) k) -> esameR Q rank (o_ver m) (cD_cur s) e).
    { intros e He. destruct (Hpath e He) as [Hin|(d & -> & Hcst)]; auto. unfold esameR; cbn [esame]. apply Hcst. }
    assert (HE : Ev (cD_cur s) k = o_val m).
    { rewrite <- (Hval (o_ver m) Hsn Hc). rewrite (ED_unfold Q rank RK (cD_cur s) k), (ED_unfold Q rank RK (o_ver m) k).
      symmetry. apply evb_agree. exact Hall. }
    assert (Hpe : path (o_ver m) k = path (cD_cur s) k) by (apply readsb_agree; exact Hall).
    assert (Hmok : memo_okD Q rank (fun k0 r => seen k0 r \/ (k0 = k /\ r = cD_cur s)) (cD_cur s) k
                            (verified_now (cD_cur s) m)).
    { unfold memo_okD. cbn [verified_now o_ver o_chg o_val o_dur o_deps].
      split; [lia|]. split; [lia|]. split; [right; auto|]. split; [|split; [|split; [exact Hmax|split; [|exact Hdu]]]].
      * intros r [Hr|[_ ->]] Hler; [now apply Hval | exact HE].
      * intros e He. rewrite <- Hpe in He. now apply Hpath.
      * intros d Hdd. destruct (Hgood _ Hdd) as (md & Hmd & Hvd & _).
        destruct (ID_memo _ _ _ _ I _ _ Hmd) as (_ & _ & Hsn' & _). left. now rewrite <- Hvd. }
    assert (Hcl : forall d, In (ECall d) (path (cD_cur s) k) ->
                  ver2D (cD_memo s) (cD_cur s) d \/ constk Q rank d).
    { intros d Hdd. rewrite <- Hpe in Hdd. destruct (Hpath _ Hdd) as [Hin|(d0 & E0 & Hcst)].
      * left. destruct (Hgood _ Hin) as (md & Hmd & Hvd & _). exists md. auto.
      * injection E0 as ->. now right. }
    exists (fun k0 r => seen k0 r \/ (k0 = k /\ r = cD_cur s)).
    apply (inv_writeD Q rank seen s t _ k (DVerify (ins ++ []) true) below (verified_now (cD_cur s) m)); auto.
  - (* call_x *)
    destruct Hf as [_ Hx]. pose proof (adv_ok Q rank (cD_memo s) (cD_cur s) k NN SK H1 _ _ _ _ Hx Hadv) as Hx'.
    exists seen. apply inv_nomemoD; auto; cbn [uD_stack uD_ev stack_okD h_key]; [|intros ? ? ? ? []].
    split; [exact Logic.I|]. split; auto. unfold frame_okD. cbn [h_phase h_key]. split; auto.
  - (* publish *)
    destruct Hf as [_ Hx]. pose proof (adv_ok Q rank (cD_memo s) (cD_cur s) k NN SK H1 _ _ _ _ Hx Hadv) as Hx'.
    destruct Hx' as (A & B & C & D & E0 & F & G). cbn [evb readsb] in C, D.
    assert (HE : Ev (cD_cur s) k = nv) by (rewrite (ED_unfold Q rank RK); exact C).
    assert (Hcov : forall e, In e (path (cD_cur s) k) -> cov Q rank (cD_memo s) (cD_cur s) a' e).
    { intros e He. destruct (D e He) as [[]|Hc]; auto. }
    assert (Hch0 : forall r, seen k r -> a_chg a' <= r -> Ev r k = nv).
    { intros r Hr Hle. pose proof (ID_seen _ _ _ _ I _ _ Hr) as Hrc. rewrite <- HE.
      rewrite (ED_unfold Q rank RK r k), (ED_unfold Q rank RK (cD_cur s) k). symmetry.
      apply evb_agree2. intros e He He'. specialize (Hcov e He). destruct e as [i|d]; cbn [cov esame] in *.
      - destruct Hcov as (_ & Hs & _). symmetry. apply (proj1 SK (cD_cur s) i r); lia.
      - destruct Hcov as (md & Hmd & Hvd & Hcd & _).
        destruct (ID_memo _ _ _ _ I _ _ Hmd) as (_ & _ & Hsn' & Hval' & _).
        destruct (ID_closed _ _ _ _ I _ _ _ Hr He') as [Hsd|Hcst]; [|apply Hcst].
        rewrite (Hval' (cD_cur s)); [|now rewrite <- Hvd | lia].
        rewrite (Hval' r); auto. lia. }
    assert (Hchle : publish_chg Q s k nv a' <= cD_cur s).
    { unfold publish_chg. destruct (cD_memo s k) as [mo|] eqn:Emo; [|exact B].
      destruct (d_eq Q k && (o_dur mo <=? a_dur a') && (o_val mo =? nv)); [|exact B].
      destruct (ID_memo _ _ _ _ I _ _ Emo) as (? & ? & _). lia. }
    assert (Hmok : memo_okD Q rank (fun k0 r => seen k0 r \/ (k0 = k /\ r = cD_cur s)) (cD_cur s) k
                            (mkO (cD_cur s) nv (publish_chg Q s k nv a') (a_dur a') (a_tr a'))).
    { unfold memo_okD. cbn [o_ver o_chg o_val o_dur o_deps].
      split; [exact Hchle|]. split; [lia|]. split; [right; auto|]. split; [|split; [|split; [|split; [|exact G]]]].
      * intros r [Hr|[_ ->]] Hler; [|exact HE]. unfold publish_chg in Hler.
        destruct (cD_memo s k) as [mo|] eqn:Emo; [|now apply Hch0].
        destruct (d_eq Q k && (o_dur mo <=? a_dur a') && (o_val mo =? nv)) eqn:Eb; [|now apply Hch0].
        apply andb_true_iff in Eb as [_ Eb]. apply N.eqb_eq in Eb.
        destruct (ID_memo _ _ _ _ I _ _ Emo) as (_ & _ & _ & Hval & _). rewrite <- Eb. now apply Hval.
      * intros e He. specialize (Hcov e He). destruct e as [i|d]; cbn [cov] in Hcov.
        -- left. apply Hcov.
        -- destruct Hcov as (md & _ & _ & _ & [Hin|Hcst] & _); [now left | right; eauto].
      * intros Emax. split; [apply E0; lia|].
        assert (Hr : forall r, Ev r k = Ev (cD_cur s) k).
        { intros r. rewrite (ED_unfold Q rank RK r k), (ED_unfold Q rank RK (cD_cur s) k). symmetry.
          apply evb_agree. intros e He. specialize (Hcov e He). destruct e as [i|d]; cbn [cov esame] in *.
          - destruct Hcov as (_ & _ & Hlt). exfalso. lia.
          - destruct Hcov as (md & _ & _ & _ & _ & Hcst). apply Hcst. lia. }
        intros r r'. now rewrite (Hr r), (Hr r').
      * intros d Hdd. destruct (F d Hdd) as (md & Hmd & Hvd).
        destruct (ID_memo _ _ _ _ I _ _ Hmd) as (_ & _ & Hsn' & _). left. now rewrite <- Hvd. }
    assert (Hcl : forall d, In (ECall d) (path (cD_cur s) k) ->
                  ver2D (cD_memo s) (cD_cur s) d \/ constk Q rank d).
    { intros d Hdd. specialize (Hcov _ Hdd). cbn [cov] in Hcov.
      destruct Hcov as (md & Hmd & Hvd & _). left. exists md. auto. }
    exists (fun k0 r => seen k0 r \/ (k0 = k /\ r = cD_cur s)).
    apply (inv_writeD Q rank seen s t _ k (DExec b a) below
      (mkO (cD_cur s) nv (publish_chg Q s k nv a') (a_dur a') (a_tr a'))); auto.
  - (* release_quiet *)
    destruct Hf as (m & Hm & Hv & <-).
    destruct (memo_facts _ _ _ _ I Hm Hv) as (HE & Hc & Hdu & Hcst & _).
    exists seen. apply inv_nomemoD; auto; cbn [uD_stack uD_ev].
    + eapply deliver_okD; eauto.
    + intros t0 k0 r v [E0|[]]. cbn [retm r_val] in E0. injection E0 as <- <- <- <-. now rewrite HE.
  - (* release_wake *)
    exists seen. apply inv_nomemoD; auto; cbn [uD_stack uD_ev stack_okD h_key]; [|intros ? ? ? ? []].
    split; auto.
  - (* unblock *)
    destruct Hf as (m & Hm & Hv & <-).
    destruct (memo_facts _ _ _ _ I Hm Hv) as (HE & Hc & Hdu & Hcst & _).
    exists seen. apply inv_nomemoD; auto; cbn [uD_stack uD_ev].
    + eapply deliver_okD; eauto.
    + intros t0 k0 r v [E0|[]]. cbn [retm r_val] in E0. injection E0 as <- <- <- <-. now rewrite HE.
Qed.

End Path.

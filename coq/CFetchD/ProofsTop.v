(* CFetchD/ProofsTop.v — the theorems about the model with dynamic call lists (without the
   durability short-cut: [sc = false]; exclusivity holds for both settings of the switch). *)
From Salsa Require Import Base.
From Salsa.Proto Require Import Model ProofsList.
From Salsa.CFetch Require Import Model.
From Salsa.CFetchD Require Import Model ProofsRel ProofsSync ProofsVal.

Section Top.
Variable fuel : nat.
Variable Q : progD.
Variable rank : key -> nat.

Notation Ev := (ED Q rank).

(* handles that were never spawned have an empty stack *)
Definition IdleOut (s : cstateD) : Prop := forall t, ~ In t (cD_tids s) -> stackD s t = [].

Lemma all_idleD s :
  IdleOut s -> forallb (fun t => idlebD (cD_thr s t)) (cD_tids s) = true -> forall t, stackD s t = [].
Proof.
  intros IO H t. destruct (in_dec N.eq_dec t (cD_tids s)) as [Hin|Hin].
  - rewrite forallb_forall in H. apply H in Hin. now apply idlebD_spec in Hin.
  - now apply IO.
Qed.

Lemma inv_gstepD seen s o s' :
  rankedD Q rank -> stampsD_ok Q -> no_never Q ->
  SyncD s -> IdleOut s -> InvD Q rank seen s -> gstepD fuel Q false s o = Some s' ->
  IdleOut s' /\ exists seen', InvD Q rank seen' s'.
Proof.
  intros RK SK NN SY IO I. destruct o as [t c| |t ks]; cbn [gstepD].
  - unfold tstepD. destruct (mem t (cD_tids s)) eqn:Emem; [|discriminate].
    destruct (step_threadD fuel Q false s t c) as [u|] eqn:Eu; [|discriminate]. intros [= <-]. split.
    + intros t' Hn. rewrite stackD_apply. destruct (N.eqb_spec t t') as [<-|Hne].
      * exfalso. apply Hn. cbn [apply_updD cD_tids]. now apply mem_In.
      * apply IO. exact Hn.
    + eapply inv_pathD; eauto; [apply exclD_of_sync; exact SY | eapply step_threadD_path; eauto].
  - destruct (forallb _ _) eqn:Ef; [|discriminate]. intros [= <-].
    pose proof (all_idleD s IO Ef) as E. split; [exact IO|]. exists seen.
    destruct I as [A B C D E0 F]. constructor; cbn [cD_memo cD_cur cD_log]; auto.
    + intros k m Hm. destruct (A k m Hm) as (a1 & a2 & a3). split; [exact a1|]. split; [lia|exact a3].
    + intros k r Hr. specialize (B k r Hr). lia.
    + intros t. change (stackD (mkCD (cD_cur s + 1) (cD_memo s) (cD_proto s) (cD_thr s) (cD_tids s) (cD_log s)) t)
        with (stackD s t). rewrite E. exact Logic.I.
    + lia.
  - destruct (idlebD (cD_thr s t)) eqn:Ei; [|discriminate]. intros [= <-].
    apply idlebD_spec in Ei as (Es & _). split.
    + intros t' Hn. unfold stackD. cbn [cD_thr cD_tids] in *. unfold updN.
      destruct (N.eqb_spec t t') as [<-|Hne]; [reflexivity|]. apply IO. intros Hin. apply Hn.
      destruct (mem t (cD_tids s)); [exact Hin | now right].
    + exists seen. destruct I as [A B C D E0 F]. constructor; cbn [cD_memo cD_cur cD_log]; auto.
      intros t'. unfold stackD. cbn [cD_thr]. unfold updN. destruct (N.eqb_spec t t') as [<-|Hne].
      * cbn. exact Logic.I.
      * apply C.
Qed.

Lemma invD_init : InvD Q rank (fun _ _ => False) cinitD.
Proof.
  constructor; cbn; try discriminate; try contradiction; auto;
    try (intros; exact Logic.I); try (unfold REV_START; lia).
Qed.

Theorem creachD_inv s :
  rankedD Q rank -> stampsD_ok Q -> no_never Q -> creachD fuel Q false s ->
  IdleOut s /\ exists seen, InvD Q rank seen s.
Proof.
  intros RK SK NN H. induction H as [|s o s' Hr IH Hs].
  - split; [intros t _; reflexivity | exists (fun _ _ => False); apply invD_init].
  - destruct IH as [IO (seen & I)]. eapply inv_gstepD; eauto. eapply creachD_sync; eauto.
Qed.

(* every value a request returns is the from-scratch value of its revision *)
Theorem values_computedD s t k r v :
  rankedD Q rank -> stampsD_ok Q -> no_never Q -> creachD fuel Q false s ->
  In (ERet t k r v) (cD_log s) -> v = Ev r k.
Proof.
  intros RK SK NN H Hin. destruct (creachD_inv s RK SK NN H) as [_ (seen & I)].
  eapply (ID_log _ _ _ _ I); eauto.
Qed.

(* every memo of every reachable state carries the from-scratch value of its verified_at *)
Theorem memo_soundD s k m :
  rankedD Q rank -> stampsD_ok Q -> no_never Q -> creachD fuel Q false s ->
  cD_memo s k = Some m -> o_val m = Ev (o_ver m) k.
Proof.
  intros RK SK NN H Hm. destruct (creachD_inv s RK SK NN H) as [_ (seen & I)].
  destruct (ID_memo _ _ _ _ I _ _ Hm) as (Hc & _ & Hs & Hval & _). symmetry. now apply Hval.
Qed.

(* ... and its recorded edges determine the value: a revision that agrees with the memo's
   verified_at on every recorded edge has the same from-scratch value (soundness of deep
   verification over the DYNAMIC dependency list, repeated and never-changing callees skipped) *)
Theorem recorded_edges_determineD s k m r' :
  rankedD Q rank -> stampsD_ok Q -> no_never Q -> creachD fuel Q false s ->
  cD_memo s k = Some m ->
  (forall e, In e (o_deps m) -> esameR Q rank (o_ver m) r' e) ->
  Ev r' k = o_val m.
Proof.
  intros RK SK NN H Hm Hsame. destruct (creachD_inv s RK SK NN H) as [_ (seen & I)].
  destruct (ID_memo _ _ _ _ I _ _ Hm) as (Hc & _ & Hs & Hval & Hpath & _).
  rewrite <- (Hval (o_ver m) Hs Hc). rewrite (ED_unfold Q rank RK r' k), (ED_unfold Q rank RK (o_ver m) k).
  symmetry. apply evb_agree. intros e He. destruct (Hpath e He) as [Hin|(d & -> & Hcst)].
  - now apply Hsame.
  - cbn [esame]. apply Hcst.
Qed.

End Top.

(* CFetchD/ProofsLevels.v — the value theorem WITH the durability short-cut ([sc = true]) for ALL
   durability levels, any number of handles, DYNAMIC read paths and durability-changing revisions,
   for programs with STATIC SEMANTIC LEVELS ([static_levels L]): every key k has a level L k that
   is, in every revision, the minimum over the edges of its read path of the durability of the
   input read, resp. of the level of the key called (DUR_MAX for an empty path).  Which inputs
   and which keys are read may depend on values and revisions; only the minimum may not.
   `_partial`: without static levels the invariant needs the observer clause of Core/DInv.v (see
   Props/C16.v).  Same architecture as CFetchD/ProofsStatic.v; the recorded durability of every
   memo is EXACTLY the level of its key, so [o_dur m <= o_dur md] for callees is static. *)
From Salsa Require Import Base.
From Salsa.Proto Require Import Model ProofsList.
From Salsa.CFetch Require Import Model.
From Salsa.CFetchD Require Import Model ProofsRel ProofsSync ProofsVal ProofsTop ProofsWindow.

Section Short.
Variable fuel : nat.
Variable Q : progD.
Variable rank : key -> nat.

Notation Ev := (ED Q rank).
Notation path r k := (readsb (Ev r) (d_in Q r) (d_body Q k)).

Notation reads cur b := (readsb (Ev cur) (d_in Q cur) b).
Notation durge := (durgeD Q rank).

Variable L : key -> dur.

Definition elev (r : rev) (e : edge) : dur :=
  match e with EIn i => d_idur Q r i | ECall c => L c end.
Definition levl (r : rev) (l : list edge) : dur :=
  fold_right (fun e acc => N.min (elev r e) acc) DUR_MAX l.
Definition static_levels : Prop := forall r k, L k = levl r (path r k).

Lemma levl_max r l : levl r l <= DUR_MAX.
Proof. induction l as [|e l IH]; cbn [levl fold_right]; [lia|]. fold (levl r l). lia. Qed.
Lemma levl_le r l e : In e l -> levl r l <= elev r e.
Proof.
  induction l as [|e0 l IH]; intros Hin; [destruct Hin|]. cbn [levl fold_right]. fold (levl r l).
  destruct Hin as [<-|Hin]; [lia | specialize (IH Hin); lia].
Qed.
Lemma levl_glb r l x : x <= DUR_MAX -> (forall e, In e l -> x <= elev r e) -> x <= levl r l.
Proof.
  intros Hx. induction l as [|e0 l IH]; intros H; cbn [levl fold_right]; [exact Hx|]. fold (levl r l).
  pose proof (H e0 (or_introl eq_refl)). assert (x <= levl r l) by (apply IH; intros e He; apply H; now right). lia.
Qed.

Lemma durge_of_levels : rankedD Q rank -> static_levels -> forall r n k, (rank k < n)%nat -> durge r (L k) k.
Proof.
  intros RK SL r. induction n as [|n IH]; intros k Hk; [lia|]. constructor.
  - intros i Hi. rewrite (SL r k). apply (levl_le r _ (EIn i) Hi).
  - intros c Hc. apply (durgeD_mono Q rank r (L c)).
    + rewrite (SL r k). apply (levl_le r _ (ECall c) Hc).
    + apply IH. pose proof (readsb_ranked rank (d_in Q r) (Ev r) (rank k) (d_body Q k) (RK k) c Hc). lia.
Qed.

Definition lc_mono : Prop := forall r r' d, r <= r' -> d_lc Q r d <= d_lc Q r' d.

(* an edge of the path whose durability bounds the accumulator from above *)
Definition covT (cur : rev) (a : accD) (e : edge) : Prop :=
  match e with
  | EIn i => a_dur a <= d_idur Q cur i
  | ECall d => a_dur a <= L d
  end.

Definition framT (cur : rev) (k : key) (b : body) (a : accD) : Prop :=
  (forall e, In e (path cur k) -> In e (reads cur b) \/ covT cur a e) /\
  (forall e, In e (reads cur b) -> In e (path cur k)) /\
  (forall e, In e (a_tr a) -> In e (path cur k)) /\
  (a_dur a = DUR_MAX \/ exists e, In e (path cur k) /\ a_dur a = elev cur e).

Definition extok (k : key) (m : memoD) : Prop :=
  (forall e, In e (o_deps m) -> In e (path (o_ver m) k)) /\ o_dur m = L k.

(* the key's memo fails the short-cut probe *)
Definition nscut (mm : key -> option memoD) (cur : rev) (k : key) : Prop :=
  forall m, mm k = Some m -> shortcut Q true cur m = false.

(* what a pending short-cut store knows *)
Definition markok (mm : key -> option memoD) (cur : rev) (k : key) (r : retD) : Prop :=
  exists m, mm k = Some m /\ retm m = r /\
            (o_ver m = cur \/ (o_ver m < cur /\ shortcut Q true cur m = true)).

Definition frame_okS mm cur (pend : list key) (f : frameD) : Prop :=
  match h_phase f with
  | DMark _ r => markok mm cur (h_key f) r
  | DVerify _ _ => frame_okD Q rank mm cur pend f /\ nscut mm cur (h_key f)
  | DExec b a => frame_okD Q rank mm cur pend f /\ framT cur (h_key f) b a /\ nscut mm cur (h_key f)
  | DPend d kont a =>
    frame_okD Q rank mm cur pend f /\ framT cur (h_key f) (BCall d kont) a /\ nscut mm cur (h_key f)
  | _ => frame_okD Q rank mm cur pend f
  end.

Fixpoint stack_okS mm cur (pend : list key) (l : list frameD) : Prop :=
  match l with
  | [] => True
  | f :: b => frame_okS mm cur pend f /\ stack_okS mm cur [h_key f] b
  end.

Record InvS (seen : key -> rev -> Prop) (s : cstateD) : Prop := mkInvS {
  IS_memo : forall k m, cD_memo s k = Some m -> memo_okD Q rank seen (cD_cur s) k m;
  IS_seen : forall k r, seen k r -> r <= cD_cur s;
  IS_stack : forall t, stack_okS (cD_memo s) (cD_cur s) [] (stackD s t);
  IS_cur : 1 <= cD_cur s;
  IS_closed : forall k r d, seen k r -> In (ECall d) (path r k) -> seen d r \/ constk Q rank d;
  IS_log : forall t k r v, In (ERet t k r v) (cD_log s) -> v = Ev r k;
  IS_lvl : forall k m, cD_memo s k = Some m -> extok k m
}.

Lemma memo_factsS seen s d md :
  InvS seen s -> cD_memo s d = Some md -> o_ver md = cD_cur s ->
  Ev (cD_cur s) d = o_val md /\ o_chg md <= cD_cur s /\ o_dur md <= DUR_MAX /\
  (o_dur md = DUR_MAX -> constk Q rank d) /\ seen d (cD_cur s).
Proof.
  intros I Hm Hv.
  destruct (IS_memo _ _ I _ _ Hm) as (A & B & C & D & E0 & F & G & H).
  split; [apply D; [now rewrite <- Hv | lia] |]. split; [lia|]. split; auto.
  split; [intros E1; apply F; exact E1|]. now rewrite <- Hv.
Qed.

(* ---- a write to an unverified key leaves the other frames alone ---- *)
Lemma nscut_other mm mm' cur k0 k : (forall k', k' <> k0 -> mm' k' = mm k') -> k <> k0 ->
  nscut mm cur k -> nscut mm' cur k.
Proof. intros Hoth Hne H m Hm. rewrite Hoth in Hm by auto. apply H; exact Hm. Qed.

Lemma frame_stableS mm mm' cur k0 pend f :
  ~ ver2D mm cur k0 -> (forall k, k <> k0 -> mm' k = mm k) ->
  (h_key f = k0 -> walkingD (h_phase f) = false) ->
  (forall r, markok mm cur k0 r -> markok mm' cur k0 r) ->
  frame_okS mm cur pend f -> frame_okS mm' cur pend f.
Proof.
  intros Hun Hoth Hcond Hmk. unfold frame_okS.
  pose proof (frame_stableD Q rank mm mm' cur k0 pend f Hun Hoth Hcond) as HD.
  destruct (h_phase f) as [|cl r| | | |l ok|b a|d kont a|r|r] eqn:Eph; auto.
  - (* DMark *)
    destruct (N.eq_dec (h_key f) k0) as [E0|Hne]; [rewrite E0; apply Hmk|].
    intros (m & Hm & R). exists m. rewrite Hoth by auto. split; auto.
  - assert (Hne : h_key f <> k0) by (intros E0; specialize (Hcond E0); discriminate).
    intros [A B]. split; [apply HD; exact A | eapply nscut_other; eauto].
  - assert (Hne : h_key f <> k0) by (intros E0; specialize (Hcond E0); discriminate).
    intros (A & B & C). split; [apply HD; exact A|]. split; [exact B | eapply nscut_other; eauto].
  - assert (Hne : h_key f <> k0) by (intros E0; specialize (Hcond E0); discriminate).
    intros (A & B & C). split; [apply HD; exact A|]. split; [exact B | eapply nscut_other; eauto].
Qed.

Lemma stack_stableS mm mm' cur k0 : forall l pend,
  ~ ver2D mm cur k0 -> (forall k, k <> k0 -> mm' k = mm k) ->
  (forall f, In f l -> h_key f = k0 -> walkingD (h_phase f) = false) ->
  (forall r, markok mm cur k0 r -> markok mm' cur k0 r) ->
  stack_okS mm cur pend l -> stack_okS mm' cur pend l.
Proof.
  induction l as [|f b IH]; intros pend Hun Hoth Hc Hmk; cbn [stack_okS]; auto.
  intros [Hf Hb]. split.
  - eapply frame_stableS; eauto. apply Hc. now left.
  - apply IH; auto. intros f' Hf'. apply Hc. now right.
Qed.

(* ---- a returned (value, changed_at, durability) reaches a correct caller frame ---- *)
Lemma deliver_okS mm cur d md below :
  mm d = Some md -> o_ver md = cur -> Ev cur d = o_val md -> o_chg md <= cur ->
  o_dur md <= DUR_MAX -> (o_dur md = DUR_MAX -> constk Q rank d) -> o_dur md = L d ->
  stack_okS mm cur [d] below -> stack_okS mm cur [] (deliverD mm (retm md) below).
Proof.
  intros Hm Hv HE Hcc Hdu Hcst Hlv. destruct below as [|f b]; cbn [deliverD stack_okS]; auto.
  intros [Hf Hb].
  assert (HD : frame_okD Q rank mm cur [d] f ->
               stack_okD Q rank mm cur [] (deliverD mm (retm md) [f])).
  { intros Hfd. apply (deliver_okD Q rank mm cur d md [f] Hm Hv HE Hcc Hdu Hcst). cbn [stack_okD]. split; auto. }
  unfold frame_okS in Hf.
  destruct (h_phase f) as [|cl r0| | | |l ok|b0 a|d' kont a|r0|r0] eqn:Eph; cbn [stack_okS h_key].
  - split; [unfold frame_okS, frame_okD in *; rewrite Eph in *; exact Hf | exact Hb].
  - split; [unfold frame_okS; rewrite Eph; exact Hf | exact Hb].
  - split; [unfold frame_okS, frame_okD in *; rewrite Eph in *; exact Hf | exact Hb].
  - split; [unfold frame_okS, frame_okD in *; rewrite Eph in *; exact Hf | exact Hb].
  - split; [unfold frame_okS, frame_okD in *; rewrite Eph in *; exact Hf | exact Hb].
  - (* DVerify *)
    destruct Hf as [Hfd Hns]. specialize (HD Hfd). cbn [deliverD] in HD. rewrite Eph in HD.
    cbn [stack_okD] in HD. destruct HD as [HD _]. split; [|exact Hb].
    unfold frame_okS. cbn [h_phase h_key]. split; [exact HD | exact Hns].
  - destruct Hf as [Hfd _]. unfold frame_okD in Hfd. rewrite Eph in Hfd. destruct Hfd as [Hp _]. discriminate.
  - (* DPend *)
    destruct Hf as (Hfd & Hla & Hns). specialize (HD Hfd). cbn [deliverD] in HD. rewrite Eph in HD.
    cbn [stack_okD] in HD. destruct HD as [HD _]. split; [|exact Hb].
    unfold frame_okS. cbn [h_phase h_key]. split; [exact HD|]. split; [|exact Hns].
    assert (Ed : d' = d).
    { unfold frame_okD in Hfd. rewrite Eph in Hfd. destruct Hfd as [Hp _]. now injection Hp. }
    subst d'. destruct Hla as (T1 & T2 & T3 & T4). cbn [retm r_val r_chg r_dur]. cbn [readsb] in T1, T2.
    split; [|split; [|split]].
    + intros e He. destruct (T1 e He) as [[<-|Hin]|Hc].
      * right. cbn [covT]. unfold add_edge; cbn [a_dur]. lia.
      * left. now rewrite <- HE.
      * right. destruct e as [i|c]; cbn [covT] in *; unfold add_edge; cbn [a_dur]; lia.
    + intros e He. apply T2. right. now rewrite HE.
    + intros e He. apply add_tr_inv in He as [He|[-> _]]; [now apply T3 | apply T2; now left].
    + unfold add_edge; cbn [a_dur]. destruct (N.min_spec (a_dur a) (o_dur md)) as [[_ ->]|[_ ->]]; [exact T4|].
      right. exists (ECall d). split; [apply T2; now left | cbn [elev]; exact Hlv].
  - split; [unfold frame_okS, frame_okD in *; rewrite Eph in *; exact Hf | exact Hb].
  - split; [unfold frame_okS, frame_okD in *; rewrite Eph in *; exact Hf | exact Hb].
Qed.

Lemma inv_nomemoS seen s t u :
  InvS seen s -> uD_memo u = cD_memo s ->
  stack_okS (cD_memo s) (cD_cur s) [] (uD_stack u) ->
  (forall t0 k r v, In (ERet t0 k r v) (uD_ev u) -> v = Ev r k) ->
  InvS seen (apply_updD s t u).
Proof.
  intros [A B C D E0 F G] Hm Hs Hl. constructor; cbn [cD_memo cD_cur cD_log apply_updD]; rewrite ?Hm; auto.
  - intros t'. rewrite stackD_apply. destruct (t =? t'); auto.
  - intros t0 k r v Hin. apply in_app_or in Hin as [Hin|Hin]; eauto.
Qed.

(* a memo write at k0 (by the holder of its claim, or the claim-free store of the short-cut) *)
Lemma inv_writeS seen s t u k0 below m' :
  InvS seen s ->
  forall ph, stackD s t = (k0 @@ ph) :: below ->
  ~ ver2D (cD_memo s) (cD_cur s) k0 ->
  (forall t' f, In f (stackD s t') -> (t' <> t \/ In f below) -> h_key f = k0 -> walkingD (h_phase f) = false) ->
  (forall r, markok (cD_memo s) (cD_cur s) k0 r -> markok (uD_memo u) (cD_cur s) k0 r) ->
  uD_memo u = updN (cD_memo s) k0 (Some m') -> 
  (forall t0 k r v, In (ERet t0 k r v) (uD_ev u) -> v = Ev r k) ->
  o_ver m' = cD_cur s -> extok k0 m' ->
  memo_okD Q rank (fun k r => seen k r \/ (k = k0 /\ r = cD_cur s)) (cD_cur s) k0 m' ->
  (forall d, In (ECall d) (path (cD_cur s) k0) -> ver2D (cD_memo s) (cD_cur s) d \/ constk Q rank d) ->
  (stack_okS (uD_memo u) (cD_cur s) [k0] below ->
   stack_okS (uD_memo u) (cD_cur s) [] (uD_stack u)) ->
  InvS (fun k r => seen k r \/ (k = k0 /\ r = cD_cur s)) (apply_updD s t u).
Proof.
  intros I ph Hst Hun Hwalk Hmk Hm Hev Hv Hlv Hok Hcl Hs.
  assert (Hoth : forall k, k <> k0 -> uD_memo u k = cD_memo s k).
  { intros k Hk. rewrite Hm. now rewrite updN_other by auto. }
  assert (Hk0 : uD_memo u k0 = Some m') by (rewrite Hm; apply updN_same).
  constructor; cbn [cD_memo cD_cur cD_log apply_updD].
  - intros k m Hk. destruct (N.eq_dec k k0) as [->|Hne].
    + rewrite Hk0 in Hk. injection Hk as <-. exact Hok.
    + rewrite Hoth in Hk by auto. eapply memo_ok_mono; [| |eapply (IS_memo _ _ I); eauto].
      * intros k' r Hr. now left.
      * intros r [Hr|[E0 _]]; [auto | congruence].
  - intros k r [Hr | [_ ->]]; [eapply IS_seen; eauto | lia].
  - intros t'. rewrite stackD_apply. destruct (N.eqb_spec t t') as [<-|Hne].
    + apply Hs.
      pose proof (IS_stack _ _ I t) as Hokk. rewrite Hst in Hokk. cbn [stack_okS h_key] in Hokk.
      destruct Hokk as [_ Hb].
      eapply (stack_stableS (cD_memo s) (uD_memo u) (cD_cur s) k0);
        [exact Hun | exact Hoth | | exact Hmk | exact Hb].
      intros f Hf Hk. apply (Hwalk t f); [rewrite Hst; now right | now right | exact Hk].
    + eapply (stack_stableS (cD_memo s) (uD_memo u) (cD_cur s) k0);
        [exact Hun | exact Hoth | | exact Hmk | apply (IS_stack _ _ I)].
      intros f Hf Hk. apply (Hwalk t' f); auto.
  - apply (IS_cur _ _ I).
  - intros k r d [Hr | [-> ->]] Hin.
    + destruct (IS_closed _ _ I _ _ _ Hr Hin); [left; now left | now right].
    + destruct (Hcl _ Hin) as [(md & Hmd & Hvd)|Hc]; [|now right].
      destruct (IS_memo _ _ I _ _ Hmd) as (_ & _ & Hsn & _). left. left. now rewrite <- Hvd.
  - intros t0 k r v Hin. apply in_app_or in Hin as [Hin|Hin]; [eauto | eapply IS_log; eauto].
  - intros k m Hk. destruct (N.eq_dec k k0) as [->|Hne].
    + rewrite Hk0 in Hk. injection Hk as <-. exact Hlv.
    + rewrite Hoth in Hk by auto. eapply IS_lvl; eauto.
Qed.


(* ---- frames found anywhere in a stack ---- *)
Lemma stack_frameS mm cur : forall l pend f, stack_okS mm cur pend l -> In f l ->
  exists pend', frame_okS mm cur pend' f.
Proof.
  induction l as [|f0 b IH]; intros pend f Hok Hin; [destruct Hin|].
  cbn [stack_okS] in Hok. destruct Hok as [Hf Hb]. destruct Hin as [<-|Hin]; [eauto | eapply IH; eauto].
Qed.

Lemma walking_nscut mm cur pend f : frame_okS mm cur pend f -> walkingD (h_phase f) = true ->
  nscut mm cur (h_key f).
Proof.
  unfold frame_okS. destruct (h_phase f); try discriminate; intros H _; apply H.
Qed.

Lemma covT_mono cur a a' e : a_dur a' <= a_dur a -> covT cur a e -> covT cur a' e.
Proof.
  intros Hle. destruct e as [i|c]; cbn [covT]; lia.
Qed.

Lemma adv_framT cur k : forall b a b' a', framT cur k b a -> adv Q cur b a = (b', a') -> framT cur k b' a'.
Proof.
  induction b as [v|i k0 IH|d k0 IH]; intros a b' a' HT; cbn [adv].
  - intros [= <- <-]. exact HT.
  - apply IH. destruct HT as (T1 & T2 & T3 & T4). cbn [readsb] in T1, T2. split; [|split; [|split]].
    + intros e He. destruct (T1 e He) as [[<-|Hin]|Hc].
      * right. cbn [covT]. unfold add_edge; cbn [a_dur]. lia.
      * now left.
      * right. apply (covT_mono cur a); [unfold add_edge; cbn [a_dur]; lia | exact Hc].
    + intros e He. apply T2. now right.
    + intros e He. apply add_tr_inv in He as [He|[-> _]]; [now apply T3 | apply T2; now left].
    + unfold add_edge; cbn [a_dur].
      destruct (N.min_spec (a_dur a) (d_idur Q cur i)) as [[_ ->]|[_ ->]]; [exact T4|].
      right. exists (EIn i). split; [apply T2; now left | reflexivity].
  - intros [= <- <-]. exact HT.
Qed.

(* ---- the call closure of a key, through keys seen at revision v ---- *)
Inductive sclos (seen : key -> rev -> Prop) (v : rev) : key -> key -> Prop :=
| sc_refl k : sclos seen v k k
| sc_step a d c : In (ECall d) (path v a) -> seen d v -> sclos seen v d c -> sclos seen v a c.

Lemma sclos_seen (seen : key -> rev -> Prop) v k c : seen k v -> sclos seen v k c -> seen c v.
Proof. intros Hk H. induction H as [k|a d c Hin Hs _ IH]; auto. Qed.

Lemma sclos_durge (seen : key -> rev -> Prop) v d k c : durge v d k -> sclos seen v k c -> durge v d c.
Proof.
  intros Hd H. induction H as [k|a e c Hin Hs _ IH]; auto.
  apply IH. destruct Hd as [a A B]. apply B; exact Hin.
Qed.

Lemma sclos_right (seen : key -> rev -> Prop) v k c d : sclos seen v k c -> In (ECall d) (path v c) -> seen d v -> sclos seen v k d.
Proof.
  intros H Hin Hs. induction H as [k|a e c Hin' Hs' _ IH].
  - eapply sc_step; [exact Hin | exact Hs | apply sc_refl].
  - eapply sc_step; [exact Hin' | exact Hs' | apply IH; exact Hin].
Qed.

(* ---- the store of the short-cut: [seen] grows by the call closure of the marked key ---- *)
Lemma inv_markT seen s t u k ph below m :
  rankedD Q rank -> static_levels -> lc_antitone Q -> lc_mono -> write_rule Q ->
  InvS seen s -> stackD s t = (k @@ ph) :: below ->
  cD_memo s k = Some m -> o_ver m < cD_cur s -> shortcut Q true (cD_cur s) m = true ->
  uD_memo u = updN (cD_memo s) k (Some (verified_now (cD_cur s) m)) ->
  (forall t0 k0 r v, In (ERet t0 k0 r v) (uD_ev u) -> v = Ev r k0) ->
  (stack_okS (uD_memo u) (cD_cur s) [k] below -> stack_okS (uD_memo u) (cD_cur s) [] (uD_stack u)) ->
  Ev (cD_cur s) k = o_val m /\
  InvS (fun c r => seen c r \/ (r = cD_cur s /\ sclos seen (o_ver m) k c)) (apply_updD s t u).
Proof.
  intros RK SL LA LM WR I Hst Hm Hlt Hsc Hmu Hev Hs.
  set (cur := cD_cur s) in *. set (v := o_ver m) in *.
  destruct (IS_memo _ _ I _ _ Hm) as (Hc & Hle & Hsn & Hval & Hpath & Hmax & Hdep & Hdu).
  destruct (IS_lvl _ _ I _ _ Hm) as [Hdp Hdg].
  assert (Hdgv : durge v (o_dur m) k).
  { rewrite Hdg. apply (durge_of_levels RK SL v (S (rank k)) k). lia. }
  assert (Hlc : d_lc Q cur (o_dur m) <= v).
  { unfold shortcut in Hsc. cbn [andb] in Hsc. now apply N.leb_le in Hsc. }
  (* the window, for every key of the closure and every revision of the window *)
  assert (Hwin : forall c, sclos seen v k c -> forall w, v <= w -> w <= cur -> Ev w c = Ev v c).
  { intros c Hcl w Hvw Hwc.
    apply (durgeD_stable Q rank RK v w (o_dur m) c LA WR Hvw).
    - pose proof (LM w cur (o_dur m) Hwc). lia.
    - apply (sclos_durge seen v (o_dur m) k c Hdgv Hcl). }
  assert (Hpw : forall c, sclos seen v k c -> path cur c = path v c).
  { intros c Hcl. apply (durgeD_stable Q rank RK v cur (o_dur m) c LA WR); [lia | exact Hlc |].
    apply (sclos_durge seen v (o_dur m) k c Hdgv Hcl). }
  assert (Hvalc : forall c mc, sclos seen v k c -> cD_memo s c = Some mc -> Ev cur c = o_val mc).
  { intros c mc Hcl Hmc.
    destruct (IS_memo _ _ I _ _ Hmc) as (Hc' & Hle' & Hsn' & Hval' & _).
    pose proof (sclos_seen seen v k c Hsn Hcl) as Hsv.
    destruct (N.le_gt_cases (o_ver mc) v) as [Hwv|Hwv].
    - rewrite (Hwin c Hcl cur); [| lia | lia]. apply Hval'; [exact Hsv | lia].
    - rewrite (Hwin c Hcl cur); [| lia | lia]. rewrite <- (Hwin c Hcl (o_ver mc)); [| lia | exact Hle'].
      apply Hval'; [exact Hsn' | exact Hc']. }
  assert (HE : Ev cur k = o_val m) by (apply (Hvalc k m (sc_refl seen v k) Hm)).
  split; [exact HE|].
  assert (Hoth : forall k', k' <> k -> uD_memo u k' = cD_memo s k').
  { intros k' Hk. rewrite Hmu. now rewrite updN_other by auto. }
  assert (Hk0 : uD_memo u k = Some (verified_now cur m)) by (rewrite Hmu; apply updN_same).
  assert (Hun : ~ ver2D (cD_memo s) cur k).
  { intros (m0 & Hm0 & Hv0). rewrite Hm in Hm0. injection Hm0 as <-. fold v in Hv0. lia. }
  constructor; cbn [cD_memo cD_cur cD_log apply_updD]; fold cur.
  - intros k' m' Hk'. destruct (N.eq_dec k' k) as [->|Hne].
    + rewrite Hk0 in Hk'. injection Hk' as <-. unfold memo_okD. cbn [verified_now o_ver o_chg o_val o_dur o_deps].
      split; [lia|]. split; [lia|]. split; [right; split; [reflexivity | apply sc_refl]|].
      split; [|split; [|split; [exact Hmax|split; [|exact Hdu]]]].
      * intros r [Hr|[-> _]] Hler; [now apply Hval | exact HE].
      * intros e He. rewrite (Hpw k (sc_refl seen v k)) in He. now apply Hpath.
      * intros d Hdd. right. split; [reflexivity|].
        eapply sc_step; [apply (Hdp _ Hdd) | apply (Hdep d Hdd) | apply sc_refl].
    + rewrite Hoth in Hk' by auto.
      destruct (IS_memo _ _ I _ _ Hk') as (A1 & A2 & A3 & A4 & A5 & A6 & A7 & A8).
      split; [exact A1|]. split; [exact A2|]. split; [left; exact A3|].
      split; [|split; [exact A5|split; [exact A6|split; [intros d Hd; left; apply A7; exact Hd | exact A8]]]].
      intros r [Hr|[-> Hcl]] Hler; [now apply A4 | apply (Hvalc k' m' Hcl Hk')].
  - intros c r [Hr | [-> _]]; [eapply IS_seen; eauto | lia].
  - intros t'. rewrite stackD_apply. destruct (N.eqb_spec t t') as [<-|Hne].
    + apply Hs.
      pose proof (IS_stack _ _ I t) as Hokk. rewrite Hst in Hokk. cbn [stack_okS h_key] in Hokk.
      destruct Hokk as [_ Hb].
      eapply (stack_stableS (cD_memo s) (uD_memo u) cur k); [exact Hun | exact Hoth | | | exact Hb].
      * intros f Hf Hk. destruct (walkingD (h_phase f)) eqn:Ew; auto. exfalso.
        destruct (stack_frameS _ _ _ _ _ Hb Hf) as (pend' & Hfr).
        pose proof (walking_nscut _ _ _ _ Hfr Ew) as Hns. rewrite Hk in Hns. pose proof (Hns m Hm) as Hx. unfold cur in Hsc. congruence.
      * intros r (m0 & Hm0 & Hr0 & _). rewrite Hm in Hm0. injection Hm0 as <-.
        exists (verified_now cur m). rewrite Hk0. split; [reflexivity|]. split; [exact Hr0 | left; reflexivity].
    + eapply (stack_stableS (cD_memo s) (uD_memo u) cur k); [exact Hun | exact Hoth | | | apply (IS_stack _ _ I)].
      * intros f Hf Hk. destruct (walkingD (h_phase f)) eqn:Ew; auto. exfalso.
        destruct (stack_frameS _ _ _ _ _ (IS_stack _ _ I t') Hf) as (pend' & Hfr).
        pose proof (walking_nscut _ _ _ _ Hfr Ew) as Hns. rewrite Hk in Hns. pose proof (Hns m Hm) as Hx. unfold cur in Hsc. congruence.
      * intros r (m0 & Hm0 & Hr0 & _). rewrite Hm in Hm0. injection Hm0 as <-.
        exists (verified_now cur m). rewrite Hk0. split; [reflexivity|]. split; [exact Hr0 | left; reflexivity].
  - apply (IS_cur _ _ I).
  - intros c r d [Hr | [-> Hcl]] Hin.
    + destruct (IS_closed _ _ I _ _ _ Hr Hin); [left; now left | now right].
    + rewrite (Hpw c Hcl) in Hin.
      destruct (IS_closed _ _ I _ _ _ (sclos_seen seen v k c Hsn Hcl) Hin) as [Hsd|Hcst]; [|now right].
      left. right. split; [reflexivity|]. apply (sclos_right seen v k c d Hcl Hin Hsd).
  - intros t0 k0 r v0 Hin. apply in_app_or in Hin as [Hin|Hin]; [eauto | eapply IS_log; eauto].
  - intros k' m' Hk'. destruct (N.eq_dec k' k) as [->|Hne].
    + rewrite Hk0 in Hk'. injection Hk' as <-. split; cbn [verified_now o_ver o_deps o_dur].
      * intros e He. rewrite (Hpw k (sc_refl seen v k)). apply Hdp; exact He.
      * exact Hdg.
    + rewrite Hoth in Hk' by auto. eapply IS_lvl; eauto.
Qed.

(* leaving DClaimed towards a walk or an execution means the probe failed *)
Lemma claimed_nsc s t c u k below m :
  step_threadD fuel Q true s t c = Some u ->
  stackD s t = (k @@ DClaimed) :: below -> cD_memo s k = Some m -> o_ver m <> cD_cur s ->
  (forall f b, uD_stack u = f :: b -> walkingD (h_phase f) = true) ->
  shortcut Q true (cD_cur s) m = false.
Proof.
  unfold step_threadD, stackD. intros Hs Hst Hm Hv Hw.
  destruct (thD_cycle (cD_thr s t)); [discriminate|]. rewrite Hst in Hs. cbn [h_key h_phase step_frameD] in Hs.
  rewrite Hm in Hs. destruct (N.eqb_spec (o_ver m) (cD_cur s)) as [E0|_]; [contradiction|].
  destruct (shortcut Q true (cD_cur s) m) eqn:Esc; [|reflexivity].
  injection Hs as <-. cbn [uD_stack] in Hw. specialize (Hw _ _ eq_refl). discriminate.
Qed.


Lemma inv_stepS seen s t c u :
  rankedD Q rank -> stampsD_ok Q -> no_never Q ->
  static_levels -> lc_antitone Q -> lc_mono -> write_rule Q -> InvS seen s -> exclD s ->
  step_threadD fuel Q true s t c = Some u ->
  exists seen', InvS seen' (apply_updD s t u).
Proof.
  intros RK SK NN SL LA LM WR I X Hstep.
  pose proof (step_threadD_path fuel Q true s t c u Hstep) as Hp.
  pose proof (IS_stack _ _ I t) as Hok.
  pose proof (IS_cur _ _ I) as H1.
  assert (Hwalk_claim : forall k0 ph below0, stackD s t = (k0 @@ ph) :: below0 -> holdD ph = true ->
            forall t' f, In f (stackD s t') -> (t' <> t \/ In f below0) -> h_key f = k0 -> walkingD (h_phase f) = false).
  { intros k0 ph below0 Hst0 Hh t' f Hin Hpos Hk. destruct (walkingD (h_phase f)) eqn:Ew; auto. exfalso.
    assert (Hh' : holdD (h_phase f) = true) by (destruct (h_phase f); try discriminate; reflexivity).
    destruct (X _ _ _ _ _ _ Hst0 Hh Hin Hh' Hk) as [Et Hnb]. destruct Hpos; [congruence | contradiction]. }
  assert (Hnomark : forall k0, nscut (cD_memo s) (cD_cur s) k0 -> ~ ver2D (cD_memo s) (cD_cur s) k0 ->
            forall mm' r, markok (cD_memo s) (cD_cur s) k0 r -> markok mm' (cD_cur s) k0 r).
  { intros k0 Hns Hun mm' r (m0 & Hm0 & _ & [Hv0 | [_ Hsc0]]).
    - exfalso. apply Hun. exists m0. auto.
    - rewrite (Hns m0 Hm0) in Hsc0. discriminate. }
  dpathD Hp; rewrite Hst in Hok; cbn [stack_okS h_key] in Hok;
    try (destruct Hok as [Hf Hb]; unfold frame_okS in Hf; cbn [h_phase h_key] in Hf).
  - (* begin *)
    exists seen. apply inv_nomemoS; auto; cbn [uD_stack uD_ev stack_okS]; [split; [exact Logic.I|auto] | intros ? ? ? ? []].
  - (* hit *)
    destruct (memo_factsS _ _ _ _ I Hm Hv) as (HE & Hc & Hdu & Hcst & _).
    exists seen. apply inv_nomemoS; auto; cbn [uD_stack uD_ev].
    + eapply deliver_okS; eauto. apply (proj2 (IS_lvl _ _ I _ _ Hm)).
    + intros t0 k0 r v [E0|[]]. injection E0 as <- <- <- <-. now rewrite HE.
  - (* hot_sc *)
    assert (Hlt : o_ver m < cD_cur s) by (destruct (IS_memo _ _ I _ _ Hm) as (_ & Hle0 & _); lia).
    exists seen. apply inv_nomemoS; auto; cbn [uD_stack uD_ev stack_okS h_key]; [|intros ? ? ? ? []].
    split; [|exact Hb]. unfold frame_okS. cbn [h_phase h_key]. exists m.
    split; [exact Hm|]. split; [reflexivity|]. right. split; assumption.
  - (* go_cold *)
    exists seen. apply inv_nomemoS; auto; cbn [uD_stack uD_ev stack_okS h_key]; [split; [exact Logic.I|auto] | intros ? ? ? ? []].
  - (* mark_hot *)
    destruct Hf as (m & Hm & <- & Hcase).
    destruct (IS_memo _ _ I _ _ Hm) as (Hc & Hle & _ & _ & _ & Hmax & _ & Hdu).
    destruct Hcase as [Hv | [Hlt Hsc]].
    + assert (Emm : mark_memo s k = cD_memo s).
      { unfold mark_memo. rewrite Hm. destruct (N.ltb_spec (o_ver m) (cD_cur s)); [lia | reflexivity]. }
      destruct (memo_factsS _ _ _ _ I Hm Hv) as (HE & _ & _ & Hcst & _).
      rewrite Emm. exists seen. apply inv_nomemoS; auto; cbn [uD_stack uD_ev].
      * eapply deliver_okS; eauto; [lia | apply (proj2 (IS_lvl _ _ I _ _ Hm))].
      * intros t0 k0 r v [E0|[]]. cbn [retm r_val] in E0. injection E0 as <- <- <- <-. now rewrite HE.
    + assert (Emm : mark_memo s k = updN (cD_memo s) k (Some (verified_now (cD_cur s) m))).
      { unfold mark_memo. rewrite Hm. destruct (N.ltb_spec (o_ver m) (cD_cur s)); [reflexivity | lia]. }
      rewrite Emm.
      (* the value first (from the window), then the invariant *)
      assert (HEk : Ev (cD_cur s) k = o_val m).
      { refine (proj1 (inv_markT seen s t
                  (mkUD (cD_proto s) (updN (cD_memo s) k (Some (verified_now (cD_cur s) m)))
                        ((k @@ DStart) :: below) (todoD s t) false [])
                  k _ below m RK SL LA LM WR I Hst Hm Hlt Hsc eq_refl _ _)); cbn [uD_ev uD_stack uD_memo].
        - intros ? ? ? ? [].
        - intros Hb'. cbn [stack_okS h_key]. split; [exact Logic.I | exact Hb']. }
      match goal with |- exists _, InvS _ (apply_updD s t ?u0) =>
        eexists; refine (proj2 (inv_markT seen s t u0 k _ below m RK SL LA LM WR I Hst Hm Hlt Hsc eq_refl _ _)) end;
        cbn [uD_ev uD_stack uD_memo].
      * intros t0 k0 r v [E0|[]]. cbn [retm r_val] in E0. injection E0 as <- <- <- <-. now rewrite HEk.
      * intros Hb'. change (retm m) with (retm (verified_now (cD_cur s) m)).
        apply (deliver_okS _ (cD_cur s) k (verified_now (cD_cur s) m)); auto.
        -- apply updN_same.
        -- cbn. lia.
        -- intros E3. apply Hmax. exact E3.
        -- apply (proj2 (IS_lvl _ _ I _ _ Hm)).
  - (* mark_claimed *)
    destruct Hf as (m & Hm & <- & Hcase).
    destruct Hcase as [Hv | [Hlt Hsc]].
    + assert (Emm : mark_memo s k = cD_memo s).
      { unfold mark_memo. rewrite Hm. destruct (N.ltb_spec (o_ver m) (cD_cur s)); [lia | reflexivity]. }
      rewrite Emm. exists seen. apply inv_nomemoS; auto; cbn [uD_stack uD_ev stack_okS h_key]; [|intros ? ? ? ? []].
      split; [|exact Hb]. unfold frame_okS, frame_okD. cbn [h_phase h_key]. exists m. auto.
    + assert (Emm : mark_memo s k = updN (cD_memo s) k (Some (verified_now (cD_cur s) m))).
      { unfold mark_memo. rewrite Hm. destruct (N.ltb_spec (o_ver m) (cD_cur s)); [reflexivity | lia]. }
      rewrite Emm.
      match goal with |- exists _, InvS _ (apply_updD s t ?u0) =>
        eexists; refine (proj2 (inv_markT seen s t u0 k _ below m RK SL LA LM WR I Hst Hm Hlt Hsc eq_refl _ _)) end;
        cbn [uD_ev uD_stack uD_memo].
      * intros ? ? ? ? [].
      * intros Hb'. cbn [stack_okS h_key]. split; [|exact Hb'].
        unfold frame_okS, frame_okD. cbn [h_phase h_key]. exists (verified_now (cD_cur s) m). rewrite updN_same. auto.
  - exists seen. apply inv_nomemoS; auto; cbn [uD_stack uD_ev stack_okS h_key]; [split; [exact Logic.I|auto] | intros ? ? ? ? []].
  - exists seen. apply inv_nomemoS; auto; cbn [uD_stack uD_ev stack_okS h_key]; [split; [exact Logic.I|auto] | intros ? ? ? ? []].
  - exists seen. apply inv_nomemoS; auto; cbn [uD_stack uD_ev stack_okS h_key]; [split; [exact Logic.I|auto] | intros ? ? ? ? []].
  - exists seen. apply inv_nomemoS; auto; cbn [uD_stack uD_ev stack_okS h_key]; [split; [exact Logic.I|auto] | intros ? ? ? ? []].
  - exists seen. apply inv_nomemoS; auto; cbn [uD_stack uD_ev stack_okS h_key]; [split; [exact Logic.I|auto] | intros ? ? ? ? []].
  - (* recheck_hit *)
    exists seen. apply inv_nomemoS; auto; cbn [uD_stack uD_ev stack_okS h_key]; [|intros ? ? ? ? []].
    split; auto. unfold frame_okS, frame_okD. cbn [h_phase h_key]. exists m. auto.
  - (* recheck_sc *)
    assert (Hlt : o_ver m < cD_cur s) by (destruct (IS_memo _ _ I _ _ Hm) as (_ & Hle0 & _); lia).
    exists seen. apply inv_nomemoS; auto; cbn [uD_stack uD_ev stack_okS h_key]; [|intros ? ? ? ? []].
    split; [|exact Hb]. unfold frame_okS. cbn [h_phase h_key]. exists m.
    split; [exact Hm|]. split; [reflexivity|]. right. split; assumption.
  - (* to_verify *)
    assert (Hnsc : shortcut Q true (cD_cur s) m = false).
    { apply (claimed_nsc s t c _ k below m Hstep Hst Hm Hv). cbn [uD_stack]. intros f b [= <- <-]. reflexivity. }
    exists seen. apply inv_nomemoS; auto; cbn [uD_stack uD_ev stack_okS h_key]; [|intros ? ? ? ? []].
    split; auto. unfold frame_okS, frame_okD. cbn [h_phase h_key]. split; [split|].
    + intros (m0 & Hm0 & Hv0). congruence.
    + intros _. exists m, []. split; auto. split; auto. intros e [].
    + intros m0 Hm0. rewrite Hm in Hm0. injection Hm0 as <-. exact Hnsc.
  - (* exec_start *)
    assert (Hns : nscut (cD_memo s) (cD_cur s) k).
    { destruct Hph as [[-> Hnv] | (l & ok & ->)].
      - intros m Hm. apply (claimed_nsc s t c _ k below m Hstep Hst Hm (Hnv m Hm)).
        cbn [uD_stack]. intros f b [= <- <-]. reflexivity.
      - apply Hf. }
    exists seen. apply inv_nomemoS; auto; cbn [uD_stack uD_ev stack_okS h_key].
    2:{ intros t0 k0 r v [E0|[]]. discriminate. }
    split; auto. unfold frame_okS, frame_okD. cbn [h_phase h_key].
    split; [|split; [split; [intros e He; left; exact He | split; [intros e He; exact He | split; [intros e [] | left; reflexivity]]] | exact Hns]].
    split; auto.
    split; [|split; [exact H1|split; [reflexivity|split; [intros e He; now left|split; [reflexivity|split; [intros d []|]]]]]].
    + destruct Hph as [[-> Hnv] | (l & ok & ->)].
      * intros (m0 & Hm0 & Hv0). eapply Hnv; eauto.
      * destruct Hf as [Hf _]. unfold frame_okD in Hf. cbn [h_phase h_key] in Hf. apply Hf.
    + cbn. unfold DUR_MAX. lia.
  - (* call_v *)
    destruct Hf as [Hfd Hns]. unfold frame_okD in Hfd. cbn [h_phase h_key] in Hfd.
    destruct Hfd as [Hun Hokk]. destruct (Hokk eq_refl) as (m0 & done & Hm0 & Hd & Hg).
    assert (m0 = m) by congruence. subst m0. cbn [map app] in Hd.
    destruct (skip_ins_spec Q (cD_memo s) _ _ _ _ Hsk) as (ins & -> & Hgi).
    exists seen. apply inv_nomemoS; auto; cbn [uD_stack uD_ev stack_okS h_key]; [|intros ? ? ? ? []].
    split; [exact Logic.I|]. split; auto. unfold frame_okS, frame_okD. cbn [h_phase h_key]. split; [|exact Hns]. split; auto.
    intros _. exists m, (done ++ ins). split; auto. split.
    + rewrite Hd. cbn [map app]. now rewrite <- app_assoc.
    + intros e He. apply in_app_or in He as [He|He]; auto.
  - (* mark *)
    destruct Hf as [Hfd Hns]. unfold frame_okD in Hfd. cbn [h_phase h_key] in Hfd.
    destruct Hfd as [Hun Hokk]. destruct (Hokk eq_refl) as (m0 & done & Hm0 & Hd & Hg).
    assert (m0 = m) by congruence. subst m0. cbn [map app] in Hd.
    destruct (skip_ins_spec Q (cD_memo s) _ _ _ _ Hsk) as (ins & -> & Hgi).
    rewrite app_nil_r in Hd.
    assert (Hgood : forall e, In e (o_deps m) -> good_edge Q (cD_memo s) (cD_cur s) (o_ver m) e).
    { intros e He. rewrite Hd in He. apply in_app_or in He as [He|He]; auto. }
    destruct (IS_memo _ _ I _ _ Hm) as (Hc & Hle & Hsn & Hval & Hpath & Hmax & Hdep & Hdu).
    assert (HA : forall e, In e (o_deps m) -> esameR Q rank (o_ver m) (cD_cur s) e).
    { intros e He. specialize (Hgood e He). destruct e as [i|d]; cbn [good_edge] in Hgood; unfold esameR; cbn [esame].
      - apply (proj1 SK (cD_cur s) i (o_ver m)); auto.
      - destruct Hgood as (md & Hmd & Hvd & Hcd).
        destruct (IS_memo _ _ I _ _ Hmd) as (Hc' & _ & Hsn' & Hval' & _).
        rewrite (Hval' (cD_cur s)); [|now rewrite <- Hvd | lia].
        rewrite (Hval' (o_ver m)); auto. }
    assert (Hall : forall e, In e (path (o_ver m) k) -> esameR Q rank (o_ver m) (cD_cur s) e).
    { intros e He. destruct (Hpath e He) as [Hin|(d & -> & Hcst)]; auto. unfold esameR; cbn [esame]. apply Hcst. }
    assert (HE : Ev (cD_cur s) k = o_val m).
    { rewrite <- (Hval (o_ver m) Hsn Hc). rewrite (ED_unfold Q rank RK (cD_cur s) k), (ED_unfold Q rank RK (o_ver m) k).
      symmetry. apply evb_agree. exact Hall. }
    assert (Hpe : path (o_ver m) k = path (cD_cur s) k) by (apply readsb_agree; exact Hall).
    assert (Hmok : memo_okD Q rank (fun k0 r => seen k0 r \/ (k0 = k /\ r = cD_cur s)) (cD_cur s) k
                            (verified_now (cD_cur s) m)).
    { unfold memo_okD. cbn [verified_now o_ver o_chg o_val o_dur o_deps].
      split; [lia|]. split; [lia|]. split; [right; auto|]. split; [|split; [|split; [exact Hmax|split; [|exact Hdu]]]].
      * intros r [Hr|[_ ->]] Hler; [now apply Hval | exact HE].
      * intros e He. rewrite <- Hpe in He. now apply Hpath.
      * intros d Hdd. destruct (Hgood _ Hdd) as (md & Hmd & Hvd & _).
        destruct (IS_memo _ _ I _ _ Hmd) as (_ & _ & Hsn' & _). left. now rewrite <- Hvd. }
    assert (Hcl : forall d, In (ECall d) (path (cD_cur s) k) ->
                  ver2D (cD_memo s) (cD_cur s) d \/ constk Q rank d).
    { intros d Hdd. rewrite <- Hpe in Hdd. destruct (Hpath _ Hdd) as [Hin|(d0 & E0 & Hcst)].
      * left. destruct (Hgood _ Hin) as (md & Hmd & Hvd & _). exists md. auto.
      * injection E0 as ->. now right. }
    exists (fun k0 r => seen k0 r \/ (k0 = k /\ r = cD_cur s)).
    eapply inv_writeS with (ph := DVerify (ins ++ []) true) (m' := verified_now (cD_cur s) m) (below := below);
      [exact I | exact Hst | exact Hun | exact (Hwalk_claim k _ below Hst eq_refl)
      | intros r; apply Hnomark; assumption | reflexivity | cbn [uD_ev]; intros ? ? ? ? []
      | reflexivity | | exact Hmok | exact Hcl |].
    + destruct (IS_lvl _ _ I _ _ Hm) as [Hdp Hdg]. split; cbn [verified_now o_ver o_deps o_dur]; [|exact Hdg].
      intros e He. rewrite <- Hpe. apply Hdp; exact He.
    + cbn [uD_memo uD_stack stack_okS h_key]. intros Hb'. split; [|exact Hb'].
      unfold frame_okS, frame_okD. cbn [h_phase h_key]. exists (verified_now (cD_cur s) m). rewrite updN_same. auto.
  - (* call_x *)
    destruct Hf as (Hfd & Hla & Hns). unfold frame_okD in Hfd. cbn [h_phase h_key] in Hfd.
    destruct Hfd as [_ Hx]. pose proof (adv_ok Q rank (cD_memo s) (cD_cur s) k NN SK H1 _ _ _ _ Hx Hadv) as Hx'.
    pose proof (adv_framT (cD_cur s) k b a _ _ Hla Hadv) as Hla'.
    exists seen. apply inv_nomemoS; auto; cbn [uD_stack uD_ev stack_okS h_key]; [|intros ? ? ? ? []].
    split; [exact Logic.I|]. split; auto. unfold frame_okS, frame_okD. cbn [h_phase h_key]. split; [split; auto|]. split; assumption.
  - (* publish *)
    destruct Hf as (Hfd & Hla & Hns). unfold frame_okD in Hfd. cbn [h_phase h_key] in Hfd.
    destruct Hfd as [_ Hx]. pose proof (adv_ok Q rank (cD_memo s) (cD_cur s) k NN SK H1 _ _ _ _ Hx Hadv) as Hx'.
    pose proof (adv_framT (cD_cur s) k b a _ _ Hla Hadv) as Hla'.
    destruct Hx' as (A & B & C & D & E0 & F & G). cbn [evb readsb] in C, D.
    assert (HE : Ev (cD_cur s) k = nv) by (rewrite (ED_unfold Q rank RK); exact C).
    assert (Hcov : forall e, In e (path (cD_cur s) k) -> cov Q rank (cD_memo s) (cD_cur s) a' e).
    { intros e He. destruct (D e He) as [[]|Hc]; auto. }
    assert (Hch0 : forall r, seen k r -> a_chg a' <= r -> Ev r k = nv).
    { intros r Hr Hle. pose proof (IS_seen _ _ I _ _ Hr) as Hrc. rewrite <- HE.
      rewrite (ED_unfold Q rank RK r k), (ED_unfold Q rank RK (cD_cur s) k). symmetry.
      apply evb_agree2. intros e He He'. specialize (Hcov e He). destruct e as [i|d]; cbn [cov esame] in *.
      - destruct Hcov as (_ & Hs & _). symmetry. apply (proj1 SK (cD_cur s) i r); lia.
      - destruct Hcov as (md & Hmd & Hvd & Hcd & _).
        destruct (IS_memo _ _ I _ _ Hmd) as (_ & _ & Hsn' & Hval' & _).
        destruct (IS_closed _ _ I _ _ _ Hr He') as [Hsd|Hcst]; [|apply Hcst].
        rewrite (Hval' (cD_cur s)); [|now rewrite <- Hvd | lia].
        rewrite (Hval' r); auto. lia. }
    assert (Hchle : publish_chg Q s k nv a' <= cD_cur s).
    { unfold publish_chg. destruct (cD_memo s k) as [mo|] eqn:Emo; [|exact B].
      destruct (d_eq Q k && (o_dur mo <=? a_dur a') && (o_val mo =? nv)); [|exact B].
      destruct (IS_memo _ _ I _ _ Emo) as (? & ? & _). lia. }
    assert (Hmok : memo_okD Q rank (fun k0 r => seen k0 r \/ (k0 = k /\ r = cD_cur s)) (cD_cur s) k
                            (mkO (cD_cur s) nv (publish_chg Q s k nv a') (a_dur a') (a_tr a'))).
    { unfold memo_okD. cbn [o_ver o_chg o_val o_dur o_deps].
      split; [exact Hchle|]. split; [lia|]. split; [right; auto|]. split; [|split; [|split; [|split; [|exact G]]]].
      * intros r [Hr|[_ ->]] Hler; [|exact HE]. unfold publish_chg in Hler.
        destruct (cD_memo s k) as [mo|] eqn:Emo; [|now apply Hch0].
        destruct (d_eq Q k && (o_dur mo <=? a_dur a') && (o_val mo =? nv)) eqn:Eb; [|now apply Hch0].
        apply andb_true_iff in Eb as [_ Eb]. apply N.eqb_eq in Eb.
        destruct (IS_memo _ _ I _ _ Emo) as (_ & _ & _ & Hval & _). rewrite <- Eb. now apply Hval.
      * intros e He. specialize (Hcov e He). destruct e as [i|d]; cbn [cov] in Hcov.
        -- left. apply Hcov.
        -- destruct Hcov as (md & _ & _ & _ & [Hin|Hcst] & _); [now left | right; eauto].
      * intros Emax. split; [apply E0; lia|].
        assert (Hr : forall r, Ev r k = Ev (cD_cur s) k).
        { intros r. rewrite (ED_unfold Q rank RK r k), (ED_unfold Q rank RK (cD_cur s) k). symmetry.
          apply evb_agree. intros e He. specialize (Hcov e He). destruct e as [i|d]; cbn [cov esame] in *.
          - destruct Hcov as (_ & _ & Hlt). exfalso. lia.
          - destruct Hcov as (md & _ & _ & _ & _ & Hcst). apply Hcst. lia. }
        intros r r'. now rewrite (Hr r), (Hr r').
      * intros d Hdd. destruct (F d Hdd) as (md & Hmd & Hvd).
        destruct (IS_memo _ _ I _ _ Hmd) as (_ & _ & Hsn' & _). left. now rewrite <- Hvd. }
    assert (Hcl : forall d, In (ECall d) (path (cD_cur s) k) ->
                  ver2D (cD_memo s) (cD_cur s) d \/ constk Q rank d).
    { intros d Hdd. specialize (Hcov _ Hdd). cbn [cov] in Hcov.
      destruct Hcov as (md & Hmd & Hvd & _). left. exists md. auto. }
    exists (fun k0 r => seen k0 r \/ (k0 = k /\ r = cD_cur s)).
    eapply inv_writeS with (ph := DExec b a)
      (m' := mkO (cD_cur s) nv (publish_chg Q s k nv a') (a_dur a') (a_tr a')) (below := below);
      [exact I | exact Hst | exact A | exact (Hwalk_claim k _ below Hst eq_refl)
      | intros r; apply Hnomark; assumption | reflexivity | cbn [uD_ev]; intros ? ? ? ? []
      | reflexivity | | exact Hmok | exact Hcl |].
    + destruct Hla' as (T1 & T2 & T3 & T4). split; cbn [o_ver o_deps o_dur]; [exact T3|].
      rewrite (SL (cD_cur s) k). apply N.le_antisymm.
      * apply levl_glb; [exact G|]. intros e He. destruct (T1 _ He) as [[]|Hcv].
        destruct e as [i|c0]; cbn [covT elev] in *; exact Hcv.
      * destruct T4 as [->|(e & He & ->)]; [apply levl_max | apply levl_le; exact He].
    + cbn [uD_memo uD_stack stack_okS h_key]. intros Hb'. split; [|exact Hb'].
      unfold frame_okS, frame_okD. cbn [h_phase h_key]. eexists. rewrite updN_same. split; [reflexivity|]. split; reflexivity.
  - (* release_quiet *)
    unfold frame_okD in Hf. cbn [h_phase h_key] in Hf. destruct Hf as (m & Hm & Hv & <-).
    destruct (memo_factsS _ _ _ _ I Hm Hv) as (HE & Hc & Hdu & Hcst & _).
    exists seen. apply inv_nomemoS; auto; cbn [uD_stack uD_ev].
    + eapply deliver_okS; eauto. apply (proj2 (IS_lvl _ _ I _ _ Hm)).
    + intros t0 k0 r v [E0|[]]. cbn [retm r_val] in E0. injection E0 as <- <- <- <-. now rewrite HE.
  - (* release_wake *)
    exists seen. apply inv_nomemoS; auto; cbn [uD_stack uD_ev stack_okS h_key]; [|intros ? ? ? ? []].
    split; auto.
  - (* unblock *)
    unfold frame_okD in Hf. cbn [h_phase h_key] in Hf. destruct Hf as (m & Hm & Hv & <-).
    destruct (memo_factsS _ _ _ _ I Hm Hv) as (HE & Hc & Hdu & Hcst & _).
    exists seen. apply inv_nomemoS; auto; cbn [uD_stack uD_ev].
    + eapply deliver_okS; eauto. apply (proj2 (IS_lvl _ _ I _ _ Hm)).
    + intros t0 k0 r v [E0|[]]. cbn [retm r_val] in E0. injection E0 as <- <- <- <-. now rewrite HE.
Qed.

End Short.

Section ShortTop.
Variable fuel : nat.
Variable Q : progD.
Variable rank : key -> nat.
Variable L : key -> dur.

Notation Ev := (ED Q rank).

Lemma inv_gstepS seen s o s' :
  rankedD Q rank -> stampsD_ok Q -> no_never Q -> static_levels Q rank L -> lc_antitone Q -> lc_mono Q -> write_rule Q ->
  SyncD s -> IdleOut s -> InvS Q rank L seen s -> gstepD fuel Q true s o = Some s' ->
  IdleOut s' /\ exists seen', InvS Q rank L seen' s'.
Proof.
  intros RK SK NN SL LA LM WR SY IO I. destruct o as [t c| |t ks]; cbn [gstepD].
  - unfold tstepD. destruct (mem t (cD_tids s)) eqn:Emem; [|discriminate].
    destruct (step_threadD fuel Q true s t c) as [u|] eqn:Eu; [|discriminate]. intros [= <-]. split.
    + intros t' Hn. rewrite stackD_apply. destruct (N.eqb_spec t t') as [<-|Hne].
      * exfalso. apply Hn. cbn [apply_updD cD_tids]. now apply mem_In.
      * apply IO. exact Hn.
    + eapply inv_stepS; eauto. apply exclD_of_sync; exact SY.
  - destruct (forallb _ _) eqn:Ef; [|discriminate]. intros [= <-].
    pose proof (all_idleD s IO Ef) as E. split; [exact IO|]. exists seen.
    destruct I as [A B C D E0 F G]. constructor; cbn [cD_memo cD_cur cD_log]; auto.
    + intros k m Hm. destruct (A k m Hm) as (a1 & a2 & a3). split; [exact a1|]. split; [lia|exact a3].
    + intros k r Hr. specialize (B k r Hr). lia.
    + intros t. change (stackD (mkCD (cD_cur s + 1) (cD_memo s) (cD_proto s) (cD_thr s) (cD_tids s) (cD_log s)) t)
        with (stackD s t). rewrite E. exact Logic.I.
    + lia.
  - destruct (idlebD (cD_thr s t)) eqn:Ei; [|discriminate]. intros [= <-].
    apply idlebD_spec in Ei as (Es & _). split.
    + intros t' Hn. unfold stackD. cbn [cD_thr cD_tids] in *. unfold updN.
      destruct (N.eqb_spec t t') as [<-|Hne]; [reflexivity|]. apply IO. intros Hin. apply Hn.
      destruct (mem t (cD_tids s)); [exact Hin | now right].
    + exists seen. destruct I as [A B C D E0 F G]. constructor; cbn [cD_memo cD_cur cD_log]; auto.
      intros t'. unfold stackD. cbn [cD_thr]. unfold updN. destruct (N.eqb_spec t t') as [<-|Hne].
      * cbn. exact Logic.I.
      * apply C.
Qed.

Lemma invS_init : InvS Q rank L (fun _ _ => False) cinitD.
Proof.
  constructor; cbn; try discriminate; try contradiction; auto;
    try (intros; exact Logic.I); try (unfold REV_START; lia).
Qed.

Theorem creachS_inv s :
  rankedD Q rank -> stampsD_ok Q -> no_never Q -> static_levels Q rank L -> lc_antitone Q -> lc_mono Q -> write_rule Q -> creachD fuel Q true s ->
  IdleOut s /\ exists seen, InvS Q rank L seen s.
Proof.
  intros RK SK NN SL LA LM WR H. induction H as [|s o s' Hr IH Hs].
  - split; [intros t _; reflexivity | exists (fun _ _ => False); apply invS_init].
  - destruct IH as [IO (seen & I)]. eapply inv_gstepS; eauto. eapply creachD_sync; eauto.
Qed.

(* with the short-cut on: every value a request returns is the from-scratch value of its revision *)
Theorem values_computed_shortcut s t k r v :
  rankedD Q rank -> stampsD_ok Q -> no_never Q -> static_levels Q rank L -> lc_antitone Q -> lc_mono Q -> write_rule Q -> creachD fuel Q true s ->
  In (ERet t k r v) (cD_log s) -> v = Ev r k.
Proof.
  intros RK SK NN SL LA LM WR H Hin. destruct (creachS_inv s RK SK NN SL LA LM WR H) as [_ (seen & I)].
  eapply (IS_log _ _ _ _ _ I); eauto.
Qed.

(* ... and every memo carries the from-scratch value of its verified_at, also when verified_at was
   stored by the short-cut *)
Theorem memo_sound_shortcut s k m :
  rankedD Q rank -> stampsD_ok Q -> no_never Q -> static_levels Q rank L -> lc_antitone Q -> lc_mono Q -> write_rule Q -> creachD fuel Q true s ->
  cD_memo s k = Some m -> o_val m = Ev (o_ver m) k.
Proof.
  intros RK SK NN SL LA LM WR H Hm. destruct (creachS_inv s RK SK NN SL LA LM WR H) as [_ (seen & I)].
  destruct (IS_memo _ _ _ _ _ I _ _ Hm) as (Hc & _ & Hs & Hval & _). symmetry. now apply Hval.
Qed.

End ShortTop.

(* CFetchD/ProofsSync.v — claims are exclusive in CFetchD, directly from the Proto model: a frame
   past the claim for key [k] in the stack of handle [t] means that the sync table records [k] as
   claimed by [t]; the keys a handle holds are pairwise different.  Independent of values, call
   lists and the short-cut switch. *)
From Salsa Require Import Base.
From Salsa.Proto Require Import Model.
From Salsa.CFetch Require Import Model ProofsProto.
From Salsa.CFetchD Require Import Model ProofsRel.

Definition holdD (ph : phaseD) : bool :=
  match ph with
  | DClaimed | DMark true _ | DVerify _ _ | DExec _ _ | DPend _ _ _ | DRelease _ => true
  | _ => false
  end.

Definition hkeysD (l : list frameD) : list key :=
  map h_key (filter (fun f => holdD (h_phase f)) l).

Definition exclD (s : cstateD) : Prop :=
  forall t k ph below t' f',
    stackD s t = (k @@ ph) :: below -> holdD ph = true ->
    In f' (stackD s t') -> holdD (h_phase f') = true -> h_key f' = k ->
    t' = t /\ ~ In f' below.

Record SyncD (s : cstateD) : Prop := mkSyncD {
  SD_only : only_threads (cD_proto s);
  SD_hold : forall t f, In f (stackD s t) -> holdD (h_phase f) = true ->
            exists st, sync (cD_proto s) (h_key f) = Some st /\ ss_id st = OThread t;
  SD_nodup : forall t, NoDup (hkeysD (stackD s t))
}.

Lemma hkeysD_in f l : In f l -> holdD (h_phase f) = true -> In (h_key f) (hkeysD l).
Proof. intros Hin Hh. unfold hkeysD. apply in_map. apply filter_In. auto. Qed.

Lemma hkeysD_spec k l : In k (hkeysD l) -> exists f, In f l /\ holdD (h_phase f) = true /\ h_key f = k.
Proof.
  unfold hkeysD. intros H. apply in_map_iff in H as (f & <- & Hf). apply filter_In in Hf as [A B]. eauto.
Qed.

Lemma exclD_of_sync s : SyncD s -> exclD s.
Proof.
  intros [O H N] t k ph below t' f' Hst Hh Hin Hh' Hk.
  assert (Htop : In (k @@ ph) (stackD s t)) by (rewrite Hst; now left).
  destruct (H t _ Htop Hh) as (st & Hs & Hid). destruct (H t' _ Hin Hh') as (st' & Hs' & Hid').
  cbn [h_key] in Hs. rewrite Hk in Hs'. rewrite Hs in Hs'. injection Hs' as <-.
  rewrite Hid in Hid'. injection Hid' as <-. split; auto.
  intros Hb. specialize (N t). rewrite Hst in N. unfold hkeysD in N. cbn [filter h_phase] in N.
  rewrite Hh in N. cbn [map h_key] in N. inversion N as [|x l Hnot Hnd]. apply Hnot.
  rewrite <- Hk. apply (hkeysD_in f' below Hb Hh').
Qed.

Lemma hkeysD_deliver mm r below : hkeysD (deliverD mm r below) = hkeysD below.
Proof.
  destruct below as [|f b]; cbn [deliverD]; auto. destruct f as [k ph].
  destruct ph; cbn [h_phase h_key]; reflexivity.
Qed.

Lemma in_deliver mm r below f :
  In f (deliverD mm r below) -> holdD (h_phase f) = true ->
  exists f0, In f0 below /\ holdD (h_phase f0) = true /\ h_key f0 = h_key f.
Proof.
  intros Hin Hh. pose proof (hkeysD_in _ _ Hin Hh) as Hk. rewrite hkeysD_deliver in Hk.
  apply hkeysD_spec in Hk. exact Hk.
Qed.

Lemma stackD_apply s t u t' :
  stackD (apply_updD s t u) t' = if t =? t' then uD_stack u else stackD s t'.
Proof. unfold stackD, apply_updD; cbn. unfold updN. destruct (t =? t'); reflexivity. Qed.

Section Pres.
Variable fuel : nat.
Variable Q : progD.
Variable sc : bool.

(* the generic case: the protocol state keeps every claim, the holding keys of the stepping
   handle's new stack are holding keys of its old stack *)
Lemma sync_keep s t u :
  SyncD s ->
  only_threads (uD_proto u) ->
  (forall k st t', sync (cD_proto s) k = Some st -> ss_id st = OThread t' ->
     exists st', sync (uD_proto u) k = Some st' /\ ss_id st' = OThread t') ->
  (forall f, In f (uD_stack u) -> holdD (h_phase f) = true ->
     exists f0, In f0 (stackD s t) /\ holdD (h_phase f0) = true /\ h_key f0 = h_key f) ->
  NoDup (hkeysD (uD_stack u)) ->
  SyncD (apply_updD s t u).
Proof.
  intros [O H N] Ho Hk Hf Hn. constructor; cbn [apply_updD cD_proto]; auto.
  - intros t' f. rewrite stackD_apply. destruct (N.eqb_spec t t') as [<-|Hne]; intros Hin Hh.
    + destruct (Hf f Hin Hh) as (f0 & Hin0 & Hh0 & Ek). destruct (H t f0 Hin0 Hh0) as (st & Hs & Hid).
      rewrite <- Ek. eapply Hk; eauto.
    + destruct (H t' f Hin Hh) as (st & Hs & Hid). eapply Hk; eauto.
  - intros t'. rewrite stackD_apply. destruct (t =? t'); auto.
Qed.

Lemma nodup_tail k ph below : NoDup (hkeysD ((k @@ ph) :: below)) -> NoDup (hkeysD below).
Proof.
  unfold hkeysD. cbn [filter h_phase]. destruct (holdD ph); cbn [map]; auto.
  intros N. now inversion N.
Qed.

Lemma nodup_swap k ph ph' below :
  holdD ph = true -> NoDup (hkeysD ((k @@ ph) :: below)) -> NoDup (hkeysD ((k @@ ph') :: below)).
Proof.
  unfold hkeysD. cbn [filter h_phase]. intros ->. destruct (holdD ph'); cbn [map h_key]; auto.
  intros N. now inversion N.
Qed.

Lemma pres_sync s t u : SyncD s -> pathD fuel Q sc s t u -> SyncD (apply_updD s t u).
Proof.
  intros I Hp. pose proof I as [O H N].
  assert (Hsame : forall k st t', sync (cD_proto s) k = Some st -> ss_id st = OThread t' ->
                  exists st', sync (cD_proto s) k = Some st' /\ ss_id st' = OThread t') by eauto.
  pose proof (N t) as Nt.
  (* frames of the old stack below the top stay *)
  assert (Hbelow : forall top below f, stackD s t = top :: below -> In f below -> In f (stackD s t)).
  { intros top below f E0 Hin. rewrite E0. now right. }
  dpathD Hp; rewrite Hst in Nt.
  - (* begin *)
    apply sync_keep; cbn [uD_proto uD_stack]; [exact I | exact O | exact Hsame | | ].
    + intros f [<-|[]]. discriminate.
    + unfold hkeysD. cbn. constructor.
  - (* hit *)
    apply sync_keep; cbn [uD_proto uD_stack]; [exact I | exact O | exact Hsame | | ].
    + intros f Hin Hh. destruct (in_deliver _ _ _ _ Hin Hh) as (f0 & A & B & C).
      exists f0. split; [eapply Hbelow; eauto | auto].
    + rewrite hkeysD_deliver. eapply nodup_tail; eauto.
  - (* hot_sc *)
    apply sync_keep; cbn [uD_proto uD_stack]; [exact I | exact O | exact Hsame | | ].
    + intros f [<-|Hin] Hh; [discriminate|]. exists f. split; [eapply Hbelow; eauto | auto].
    + apply nodup_tail in Nt. exact Nt.
  - (* go_cold *)
    apply sync_keep; cbn [uD_proto uD_stack]; [exact I | exact O | exact Hsame | | ].
    + intros f [<-|Hin] Hh; [discriminate|]. exists f. split; [eapply Hbelow; eauto | auto].
    + apply nodup_tail in Nt. exact Nt.
  - (* mark_hot *)
    apply sync_keep; cbn [uD_proto uD_stack]; [exact I | exact O | exact Hsame | | ].
    + intros f Hin Hh. destruct (in_deliver _ _ _ _ Hin Hh) as (f0 & A & B & C).
      exists f0. split; [eapply Hbelow; eauto | auto].
    + rewrite hkeysD_deliver. eapply nodup_tail; eauto.
  - (* mark_claimed *)
    apply sync_keep; cbn [uD_proto uD_stack]; [exact I | exact O | exact Hsame | | ].
    + intros f [<-|Hin] Hh.
      * exists (k @@ DMark true r). rewrite Hst. split; [now left | auto].
      * exists f. split; [eapply Hbelow; eauto | auto].
    + eapply nodup_swap; [|exact Nt]. reflexivity.
  - (* claimed *)
    destruct (claim_cases _ _ _ _ _ _ _ O Hcl) as [Hdg [(Hnone & _ & Hsy) | (st & u0 & _ & _ & _ & [[Ec _]|[Ec _]])]];
      try discriminate.
    assert (Hfree : forall t' f, In f (stackD s t') -> holdD (h_phase f) = true -> h_key f <> k).
    { intros t' f Hin Hh E0. destruct (H t' f Hin Hh) as (st & Hs & _). rewrite E0 in Hs. congruence. }
    constructor; cbn [apply_updD cD_proto uD_proto].
    + intros k' st Hs. rewrite Hsy in Hs. unfold updN in Hs. destruct (k =? k').
      * injection Hs as <-. exists t. cbn. auto.
      * eapply O; eauto.
    + intros t' f. rewrite stackD_apply. destruct (N.eqb_spec t t') as [<-|Hne]; cbn [uD_stack].
      * intros [<-|Hin] Hh.
        -- cbn [h_key]. rewrite Hsy, updN_same. exists (fresh_sync t). split; reflexivity.
        -- assert (Hin' : In f (stackD s t)) by (rewrite Hst; now right).
           destruct (H t f Hin' Hh) as (st & Hs & Hid). exists st. split; auto.
           rewrite Hsy, updN_other; auto. intros E0. eapply Hfree; eauto.
      * intros Hin Hh. destruct (H t' f Hin Hh) as (st & Hs & Hid). exists st. split; auto.
        rewrite Hsy, updN_other; auto. intros E0. eapply Hfree; eauto.
    + intros t'. rewrite stackD_apply. destruct (N.eqb_spec t t') as [<-|Hne]; auto. cbn [uD_stack].
      unfold hkeysD. cbn [filter h_phase holdD map h_key]. constructor.
      * intros Hin. apply hkeysD_spec in Hin as (f & A & B & C).
        eapply (Hfree t f); eauto; rewrite Hst; now right.
      * apply nodup_tail in Nt. exact Nt.
  - (* blocked *)
    destruct (claim_cases _ _ _ _ _ _ _ O Hcl) as [Hdg [(_ & Ec & _) | (st & u0 & Hs0 & Hid0 & Hsy & _)]];
      [discriminate|].
    destruct (block_cases _ _ _ _ _ _ _ Hbl) as [Hsy2 _].
    destruct (O _ _ Hs0) as (u1 & Hu1 & Tw & Tg).
    apply sync_keep; cbn [uD_proto uD_stack]; [exact I | | | | ].
    + intros k' st' Hs. rewrite Hsy2, Hsy in Hs. unfold updN in Hs. destruct (N.eqb_spec k k') as [<-|Hne].
      * injection Hs as <-. exists u1. cbn. auto.
      * eapply O; eauto.
    + intros k' st' t' Hs Hid. rewrite Hsy2, Hsy. unfold updN. destruct (N.eqb_spec k k') as [<-|Hne]; eauto.
      rewrite Hs0 in Hs. injection Hs as <-. exists (set_waiting st). split; auto.
    + intros f [<-|Hin] Hh; [discriminate|]. exists f. split; [eapply Hbelow; eauto | auto].
    + apply nodup_tail in Nt. exact Nt.
  - (* cycle1 *)
    destruct (claim_cases _ _ _ _ _ _ _ O Hcl) as [Hdg [(_ & Ec & _) | (st & u0 & Hs0 & Hid0 & Hsy & _)]];
      [discriminate|].
    destruct (O _ _ Hs0) as (u1 & Hu1 & Tw & Tg).
    apply sync_keep; cbn [uD_proto uD_stack]; [exact I | | | | ].
    + intros k' st' Hs. rewrite Hsy in Hs. unfold updN in Hs. destruct (N.eqb_spec k k') as [<-|Hne].
      * injection Hs as <-. exists u1. cbn. auto.
      * eapply O; eauto.
    + intros k' st' t' Hs Hid. rewrite Hsy. unfold updN. destruct (N.eqb_spec k k') as [<-|Hne]; eauto.
      rewrite Hs0 in Hs. injection Hs as <-. exists (set_waiting st). split; auto.
    + intros f [<-|Hin] Hh; [discriminate|]. exists f. split; [eapply Hbelow; eauto | auto].
    + apply nodup_tail in Nt. exact Nt.
  - (* cycle2 *)
    destruct (claim_cases _ _ _ _ _ _ _ O Hcl) as [Hdg [(_ & Ec & _) | (st & u0 & Hs0 & Hid0 & Hsy & _)]];
      [discriminate|].
    destruct (block_cases _ _ _ _ _ _ _ Hbl) as [Hsy2 _].
    destruct (O _ _ Hs0) as (u1 & Hu1 & Tw & Tg).
    apply sync_keep; cbn [uD_proto uD_stack]; [exact I | | | | ].
    + intros k' st' Hs. rewrite Hsy2, Hsy in Hs. unfold updN in Hs. destruct (N.eqb_spec k k') as [<-|Hne].
      * injection Hs as <-. exists u1. cbn. auto.
      * eapply O; eauto.
    + intros k' st' t' Hs Hid. rewrite Hsy2, Hsy. unfold updN. destruct (N.eqb_spec k k') as [<-|Hne]; eauto.
      rewrite Hs0 in Hs. injection Hs as <-. exists (set_waiting st). split; auto.
    + intros f [<-|Hin] Hh; [discriminate|]. exists f. split; [eapply Hbelow; eauto | auto].
    + apply nodup_tail in Nt. exact Nt.
  - (* woken *)
    destruct (receive_cases _ _ _ _ _ Hrc) as (Hsy & _).
    apply sync_keep; cbn [uD_proto uD_stack]; [exact I | | | | ].
    + intros k' st' Hs. rewrite Hsy in Hs. eapply O; eauto.
    + intros k' st' t' Hs Hid. rewrite Hsy. eauto.
    + intros f [<-|Hin] Hh; [discriminate|]. exists f. split; [eapply Hbelow; eauto | auto].
    + apply nodup_tail in Nt. exact Nt.
  - (* recheck_hit *)
    apply sync_keep; cbn [uD_proto uD_stack]; [exact I | exact O | exact Hsame | | ].
    + intros f [<-|Hin] Hh.
      * exists (k @@ DClaimed). rewrite Hst. split; [now left | auto].
      * exists f. split; [eapply Hbelow; eauto | auto].
    + eapply nodup_swap; [|exact Nt]. reflexivity.
  - (* recheck_sc *)
    apply sync_keep; cbn [uD_proto uD_stack]; [exact I | exact O | exact Hsame | | ].
    + intros f [<-|Hin] Hh.
      * exists (k @@ DClaimed). rewrite Hst. split; [now left | auto].
      * exists f. split; [eapply Hbelow; eauto | auto].
    + eapply nodup_swap; [|exact Nt]. reflexivity.
  - (* to_verify *)
    apply sync_keep; cbn [uD_proto uD_stack]; [exact I | exact O | exact Hsame | | ].
    + intros f [<-|Hin] Hh.
      * exists (k @@ DClaimed). rewrite Hst. split; [now left | auto].
      * exists f. split; [eapply Hbelow; eauto | auto].
    + eapply nodup_swap; [|exact Nt]. reflexivity.
  - (* exec_start *)
    assert (Hh0 : holdD ph = true) by (destruct Hph as [[-> _] | (l & ok & ->)]; reflexivity).
    apply sync_keep; cbn [uD_proto uD_stack]; [exact I | exact O | exact Hsame | | ].
    + intros f [<-|Hin] Hh.
      * exists (k @@ ph). rewrite Hst. split; [now left | auto].
      * exists f. split; [eapply Hbelow; eauto | auto].
    + eapply nodup_swap; [|exact Nt]. exact Hh0.
  - (* call_v *)
    apply sync_keep; cbn [uD_proto uD_stack]; [exact I | exact O | exact Hsame | | ].
    + intros f [<-|[<-|Hin]] Hh; [discriminate| |].
      * exists (k @@ DVerify rest true). rewrite Hst. split; [now left | auto].
      * exists f. split; [eapply Hbelow; eauto | auto].
    + change (NoDup (hkeysD ((k @@ DVerify rest' true) :: below))).
      eapply nodup_swap; [|exact Nt]. reflexivity.
  - (* mark *)
    apply sync_keep; cbn [uD_proto uD_stack]; [exact I | exact O | exact Hsame | | ].
    + intros f [<-|Hin] Hh.
      * exists (k @@ DVerify rest true). rewrite Hst. split; [now left | auto].
      * exists f. split; [eapply Hbelow; eauto | auto].
    + eapply nodup_swap; [|exact Nt]. reflexivity.
  - (* call_x *)
    apply sync_keep; cbn [uD_proto uD_stack]; [exact I | exact O | exact Hsame | | ].
    + intros f [<-|[<-|Hin]] Hh; [discriminate| |].
      * exists (k @@ DExec b a). rewrite Hst. split; [now left | auto].
      * exists f. split; [eapply Hbelow; eauto | auto].
    + change (NoDup (hkeysD ((k @@ DPend d kont a') :: below))).
      eapply nodup_swap; [|exact Nt]. reflexivity.
  - (* publish *)
    apply sync_keep; cbn [uD_proto uD_stack]; [exact I | exact O | exact Hsame | | ].
    + intros f [<-|Hin] Hh.
      * exists (k @@ DExec b a). rewrite Hst. split; [now left | auto].
      * exists f. split; [eapply Hbelow; eauto | auto].
    + eapply nodup_swap; [|exact Nt]. reflexivity.
  - (* release_quiet *)
    destruct (remove_cases _ _ _ _ _ _ Hrm) as (Hdg & Hs0 & Hsy).
    assert (Hother : forall t' f, In f (stackD s t') -> holdD (h_phase f) = true ->
                     (t' <> t \/ In f below) -> h_key f <> k).
    { intros t' f Hin Hh Hpos E0.
      assert (X : exclD s) by (apply exclD_of_sync; exact I).
      destruct (X t k (DRelease r) below t' f Hst eq_refl Hin Hh E0) as [Et Hnb].
      destruct Hpos; [congruence | contradiction]. }
    constructor; cbn [apply_updD cD_proto uD_proto].
    + intros k' st' Hs. rewrite Hsy in Hs. unfold updN in Hs. destruct (k =? k'); [discriminate|].
      eapply O; eauto.
    + intros t' f. rewrite stackD_apply. destruct (N.eqb_spec t t') as [<-|Hne]; cbn [uD_stack].
      * intros Hin Hh. destruct (in_deliver _ _ _ _ Hin Hh) as (f0 & A & B & C).
        assert (Hin0 : In f0 (stackD s t)) by (rewrite Hst; now right).
        destruct (H t f0 Hin0 B) as (st0 & Hs & Hid). exists st0. rewrite <- C. split; auto.
        rewrite Hsy, updN_other; auto. intros E0. eapply (Hother t f0); eauto.
      * intros Hin Hh. destruct (H t' f Hin Hh) as (st0 & Hs & Hid). exists st0. split; auto.
        rewrite Hsy, updN_other; auto. intros E0. eapply (Hother t' f); eauto.
    + intros t'. rewrite stackD_apply. destruct (N.eqb_spec t t') as [<-|Hne]; auto. cbn [uD_stack].
      rewrite hkeysD_deliver. eapply nodup_tail; eauto.
  - (* release_wake *)
    destruct (remove_cases _ _ _ _ _ _ Hrm) as (Hdg & Hs0 & Hsy).
    assert (Hother : forall t' f, In f (stackD s t') -> holdD (h_phase f) = true ->
                     (t' <> t \/ In f below) -> h_key f <> k).
    { intros t' f Hin Hh Hpos E0.
      assert (X : exclD s) by (apply exclD_of_sync; exact I).
      destruct (X t k (DRelease r) below t' f Hst eq_refl Hin Hh E0) as [Et Hnb].
      destruct Hpos; [congruence | contradiction]. }
    constructor; cbn [apply_updD cD_proto uD_proto].
    + intros k' st' Hs. rewrite Hsy in Hs. unfold updN in Hs. destruct (k =? k'); [discriminate|].
      eapply O; eauto.
    + intros t' f. rewrite stackD_apply. destruct (N.eqb_spec t t') as [<-|Hne]; cbn [uD_stack].
      * intros [<-|Hin] Hh; [discriminate|].
        assert (Hin0 : In f (stackD s t)) by (rewrite Hst; now right).
        destruct (H t f Hin0 Hh) as (st0 & Hs & Hid). exists st0. split; auto.
        rewrite Hsy, updN_other; auto. intros E0. eapply (Hother t f); eauto.
      * intros Hin Hh. destruct (H t' f Hin Hh) as (st0 & Hs & Hid). exists st0. split; auto.
        rewrite Hsy, updN_other; auto. intros E0. eapply (Hother t' f); eauto.
    + intros t'. rewrite stackD_apply. destruct (N.eqb_spec t t') as [<-|Hne]; auto. cbn [uD_stack].
      apply nodup_tail in Nt. exact Nt.
  - (* unblock *)
    destruct (unblock_cases _ _ _ _ _ _ _ Hub) as (Hsy & _).
    apply sync_keep; cbn [uD_proto uD_stack]; [exact I | | | | ].
    + intros k' st' Hs. rewrite Hsy in Hs. eapply O; eauto.
    + intros k' st' t' Hs Hid. rewrite Hsy. eauto.
    + intros f Hin Hh. destruct (in_deliver _ _ _ _ Hin Hh) as (f0 & A & B & C).
      exists f0. split; [eapply Hbelow; eauto | auto].
    + rewrite hkeysD_deliver. eapply nodup_tail; eauto.
Qed.

End Pres.

(* ---- reachable states ---- *)
Inductive creachD (fuel : nat) (Q : progD) (sc : bool) : cstateD -> Prop :=
| crD_init : creachD fuel Q sc cinitD
| crD_step s o s' : creachD fuel Q sc s -> gstepD fuel Q sc s o = Some s' -> creachD fuel Q sc s'.

Lemma syncD_init : SyncD cinitD.
Proof.
  constructor; cbn.
  - intros k st Hs. discriminate.
  - intros t f [].
  - intros t. constructor.
Qed.

Lemma idlebD_spec ts : idlebD ts = true -> thD_stack ts = [] /\ thD_todo ts = [] /\ thD_cycle ts = false.
Proof.
  unfold idlebD. destruct (thD_stack ts); [|discriminate]. destruct (thD_todo ts); [|discriminate].
  destruct (thD_cycle ts); [discriminate|]. auto.
Qed.

Lemma syncD_gstep fuel Q sc s o s' : SyncD s -> gstepD fuel Q sc s o = Some s' -> SyncD s'.
Proof.
  intros I. destruct o as [t c| |t ks]; cbn [gstepD].
  - unfold tstepD. destruct (mem t (cD_tids s)); [|discriminate].
    destruct (step_threadD fuel Q sc s t c) as [u|] eqn:Eu; [|discriminate]. intros [= <-].
    eapply pres_sync; eauto. eapply step_threadD_path; eauto.
  - destruct (forallb _ _); [|discriminate]. intros [= <-]. destruct I as [O H N]. constructor; auto.
  - destruct (idlebD (cD_thr s t)) eqn:Ei; [|discriminate]. intros [= <-].
    apply idlebD_spec in Ei as (Es & _). destruct I as [O H N].
    constructor; cbn [cD_proto]; auto.
    + intros t' f. unfold stackD. cbn [cD_thr]. unfold updN. destruct (N.eqb_spec t t') as [<-|Hne].
      * cbn. intros [].
      * apply H.
    + intros t'. unfold stackD. cbn [cD_thr]. unfold updN. destruct (N.eqb_spec t t') as [<-|Hne].
      * cbn. constructor.
      * apply N.
Qed.

Theorem creachD_sync fuel Q sc s : creachD fuel Q sc s -> SyncD s.
Proof. induction 1; [apply syncD_init | eapply syncD_gstep; eauto]. Qed.

Theorem claims_exclusiveD fuel Q sc s : creachD fuel Q sc s -> exclD s.
Proof. intros H. apply exclD_of_sync. eapply creachD_sync; eauto. Qed.

(* CFetchD/ProofsObserver.v — specification-side groundwork for the observer clause of
   Core/DInv.v over the resumable bodies of CFetchD (the part of the port that is closed):
   walking the reads of one evaluation against another one, either every read has the same
   answer, or the first read with a different answer is performed by the other evaluation too,
   after the same prefix ([first_changed_is_read_again] of Core/SpecProofs.v).  This is what makes
   "a re-execution never yields a changed_at below the old one" ([frame_changed_lb]) and "the new
   durability is at least the observer's" ([frame_dur_lb]) provable: the re-execution reads the old
   prefix again, then the changed edge, whose stamp is newer than the old verified_at.
   The model-level invariant with the observer clause is NOT in this file (see Props/C16.v). *)
From Salsa Require Import Base.
From Salsa.Proto Require Import Model.
From Salsa.CFetch Require Import Model.
From Salsa.CFetchD Require Import Model ProofsRel.

Definition eanswer (rec : key -> val) (inp : ikey -> val) (e : edge) : val :=
  match e with EIn i => inp i | ECall d => rec d end.

Lemma esame_answer rec rec' inp inp' e :
  esame rec rec' inp inp' e <-> eanswer rec inp e = eanswer rec' inp' e.
Proof. destruct e; cbn; tauto. Qed.

Theorem first_changed_is_read_againD rec inp rec' inp' : forall b,
  (forall e, In e (readsb rec inp b) -> esame rec rec' inp inp' e) \/
  (exists pre e post, readsb rec inp b = pre ++ e :: post /\
     (forall x, In x pre -> esame rec rec' inp inp' x) /\
     ~ esame rec rec' inp inp' e /\
     exists post', readsb rec' inp' b = pre ++ e :: post').
Proof.
  induction b as [v|i k IH|d k IH]; cbn [readsb].
  - left. intros e [].
  - destruct (N.eq_dec (inp i) (inp' i)) as [Heq|Hne].
    + destruct (IH (inp i)) as [Hag|(pre & e & post & Ht & Hpre & Hnee & post' & Ht')].
      * left. intros e [<-|He]; [exact Heq | apply Hag; exact He].
      * right. exists (EIn i :: pre), e, post. split; [cbn; now rewrite Ht|]. split.
        -- intros x [<-|Hx]; [exact Heq | apply Hpre; exact Hx].
        -- split; [exact Hnee|]. exists post'. cbn. now rewrite <- Heq, Ht'.
    + right. exists [], (EIn i), (readsb rec inp (k (inp i))). split; [reflexivity|]. split; [intros x []|].
      split; [exact Hne|]. eexists. reflexivity.
  - destruct (N.eq_dec (rec d) (rec' d)) as [Heq|Hne].
    + destruct (IH (rec d)) as [Hag|(pre & e & post & Ht & Hpre & Hnee & post' & Ht')].
      * left. intros e [<-|He]; [exact Heq | apply Hag; exact He].
      * right. exists (ECall d :: pre), e, post. split; [cbn; now rewrite Ht|]. split.
        -- intros x [<-|Hx]; [exact Heq | apply Hpre; exact Hx].
        -- split; [exact Hnee|]. exists post'. cbn. now rewrite <- Heq, Ht'.
    + right. exists [], (ECall d), (readsb rec inp (k (rec d))). split; [reflexivity|]. split; [intros x []|].
      split; [exact Hne|]. eexists. reflexivity.
Qed.

(* consequence used for changed_at: if the two evaluations differ in value, some edge read by BOTH
   has a different answer *)
Corollary value_change_has_common_changed_edge rec inp rec' inp' b :
  evb rec inp b <> evb rec' inp' b ->
  exists e, In e (readsb rec inp b) /\ In e (readsb rec' inp' b) /\ ~ esame rec rec' inp inp' e.
Proof.
  intros Hne. destruct (first_changed_is_read_againD rec inp rec' inp' b) as [Hag|(pre & e & post & Ht & _ & Hnee & post' & Ht')].
  - exfalso. apply Hne. apply evb_agree. exact Hag.
  - exists e. split; [rewrite Ht; apply in_or_app; right; now left|].
    split; [rewrite Ht'; apply in_or_app; right; now left | exact Hnee].
Qed.

(* CFetchD/Extract.v — extraction of the executable CFetchD model (with the Proto model it runs
   on) to OCaml.  ExtrOcamlBasic only; [N], [positive], [nat] stay the Coq inductive types.
   Not part of _CoqProject: /verif/ocaml/cfetch/build.sh compiles it in .build/ocaml-cfetch,
   where cfetchd_model.ml(i) is written and linked with /verif/ocaml/cfetch/replay3.ml. *)
From Coq Require Import Extraction ExtrOcamlBasic.
From Salsa Require Import Base.
From Salsa.Proto Require Model.
From Salsa.CFetch Require Model.
From Salsa.CFetchD Require Import Model.

Extraction Language OCaml.
Extraction "cfetchd_model.ml"
  cinitD tstepD gstepD step_threadD shortcut adv skip_ins evD
  cD_cur cD_memo cD_proto cD_thr cD_tids cD_log
  thD_stack thD_todo thD_cycle h_key h_phase
  o_ver o_val o_chg o_dur o_deps r_val r_chg r_dur a_tr a_chg a_dur.

(* CFetchD/ProofsOnce.v — at most one execution per key and revision in CFetchD, with or without
   the durability short-cut, for any program (no rank hypothesis): WillExecute is logged only by
   the holder of the claim, which found the memo unverified when it re-checked after claiming;
   a holder that walks its dependencies keeps everybody else from executing the key; once the
   execution has published, the memo is verified in the revision. *)
From Salsa Require Import Base.
From Salsa.Proto Require Import Model.
From Salsa.CFetch Require Import Model ProofsProto ProofsSafe.
From Salsa.CFetchD Require Import Model ProofsRel ProofsSync ProofsVal.

Definition isexecD (ph : phaseD) : Prop :=
  match ph with DExec _ _ | DPend _ _ _ => True | _ => False end.

Record OnceD (s : cstateD) : Prop := mkOnceD {
  O_le : forall t k r, In (EExec t k r) (cD_log s) -> r <= cD_cur s;
  O_cnt : forall k r, (count_exec k r (cD_log s) <= 1)%nat;
  O_now : forall k, (1 <= count_exec k (cD_cur s) (cD_log s))%nat ->
          ver2D (cD_memo s) (cD_cur s) k \/
          exists t f, In f (stackD s t) /\ h_key f = k /\ isexecD (h_phase f);
  O_pre : forall t f l ok, In f (stackD s t) -> h_phase f = DVerify l ok ->
          count_exec (h_key f) (cD_cur s) (cD_log s) = 0%nat
}.

Lemma isexec_hold ph : isexecD ph -> holdD ph = true.
Proof. destruct ph; cbn; tauto. Qed.

Lemma deliver_exec mm r below f :
  In f below -> isexecD (h_phase f) ->
  exists f', In f' (deliverD mm r below) /\ h_key f' = h_key f /\ isexecD (h_phase f').
Proof.
  destruct below as [|f0 b]; [intros []|]. cbn [deliverD]. intros [<-|Hin] Hx.
  - destruct f0 as [k ph]. destruct ph; cbn in Hx; try contradiction;
      cbn [h_phase h_key]; (eexists; split; [now left|]; cbn; auto).
  - exists f. split; auto. destruct (h_phase f0); now right.
Qed.

Lemma deliver_verify mm r below f l ok :
  In f (deliverD mm r below) -> h_phase f = DVerify l ok ->
  exists f0 l0 ok0, In f0 below /\ h_key f0 = h_key f /\ h_phase f0 = DVerify l0 ok0.
Proof.
  destruct below as [|f0 b]; [intros []|]. cbn [deliverD]. destruct f0 as [k ph].
  destruct ph; cbn [h_phase h_key]; intros [<-|Hin] Hp; cbn [h_phase h_key] in *; try discriminate;
    try (eexists _, _, _; split; [now left | split; [reflexivity | cbn; eauto]]; fail);
    try (exists f, l, ok; split; [now right | auto]; fail).
Qed.

Section Once.
Variable fuel : nat.
Variable Q : progD.
Variable sc : bool.

Lemma ver2D_path s t u k1 :
  pathD fuel Q sc s t u -> ver2D (cD_memo s) (cD_cur s) k1 -> ver2D (uD_memo u) (cD_cur s) k1.
Proof.
  intros Hp (m1 & Hm1 & Hv1). dpathD Hp; cbn [uD_memo]; try (exists m1; auto; fail).
  - unfold mark_memo. destruct (cD_memo s k) as [m0|] eqn:E0; [|exists m1; auto].
    destruct (o_ver m0 <? cD_cur s); [|exists m1; auto].
    destruct (N.eq_dec k k1) as [->|Hne].
    + eexists. split; [apply updN_same | reflexivity].
    + exists m1. split; [rewrite updN_other; auto | auto].
  - unfold mark_memo. destruct (cD_memo s k) as [m0|] eqn:E0; [|exists m1; auto].
    destruct (o_ver m0 <? cD_cur s); [|exists m1; auto].
    destruct (N.eq_dec k k1) as [->|Hne].
    + eexists. split; [apply updN_same | reflexivity].
    + exists m1. split; [rewrite updN_other; auto | auto].
  - destruct (N.eq_dec k k1) as [->|Hne].
    + eexists. split; [apply updN_same | reflexivity].
    + exists m1. split; [rewrite updN_other; auto | auto].
  - destruct (N.eq_dec k k1) as [->|Hne].
    + eexists. split; [apply updN_same | reflexivity].
    + exists m1. split; [rewrite updN_other; auto | auto].
Qed.

(* a step that logs no execution *)
Lemma once_keep s t u :
  OnceD s -> pathD fuel Q sc s t u ->
  (forall k r, count_exec k r (uD_ev u) = 0%nat) ->
  (forall t0 k r, ~ In (EExec t0 k r) (uD_ev u)) ->
  (forall f, In f (stackD s t) -> isexecD (h_phase f) ->
     ver2D (uD_memo u) (cD_cur s) (h_key f) \/
     exists f', In f' (uD_stack u) /\ h_key f' = h_key f /\ isexecD (h_phase f')) ->
  (forall f l ok, In f (uD_stack u) -> h_phase f = DVerify l ok ->
     count_exec (h_key f) (cD_cur s) (cD_log s) = 0%nat) ->
  OnceD (apply_updD s t u).
Proof.
  intros [A B C D] Hp Hev Hno Hex Hpre.
  assert (Hc : forall k r, count_exec k r (uD_ev u ++ cD_log s) = count_exec k r (cD_log s)).
  { intros k r. rewrite count_exec_app, Hev. reflexivity. }
  constructor; cbn [apply_updD cD_log cD_cur cD_memo].
  - intros t0 k r Hin. apply in_app_or in Hin as [Hin|Hin]; [exfalso; eapply Hno; eauto | eauto].
  - intros k r. rewrite Hc. apply B.
  - intros k. rewrite Hc. intros H1. destruct (C k H1) as [Hv|(t' & f & Hin & Hk & Hx)].
    + left. eapply ver2D_path; eauto.
    + destruct (N.eqb_spec t t') as [<-|Hne].
      * destruct (Hex f Hin Hx) as [Hv|(f' & Hin' & Hk' & Hx')].
        -- left. now rewrite <- Hk.
        -- right. exists t, f'. rewrite stackD_apply, N.eqb_refl. split; auto. split; [congruence | auto].
      * right. exists t', f. rewrite stackD_apply. destruct (N.eqb_spec t t'); [contradiction|]. auto.
  - intros t' f l ok. rewrite stackD_apply, Hc. destruct (N.eqb_spec t t') as [<-|Hne]; eauto.
Qed.

Ltac top_only Hst :=
  let f := fresh "f" in let Hin := fresh "Hin" in let Hx := fresh "Hx" in
  intros f Hin Hx; rewrite Hst in Hin; destruct Hin as [<-|Hin];
  [ cbn in Hx; try contradiction | right; exists f; split; [cbn; auto | auto] ].

Lemma pres_once s t u : SyncD s -> OnceD s -> pathD fuel Q sc s t u -> OnceD (apply_updD s t u).
Proof.
  intros SY I Hp. pose proof (exclD_of_sync s SY) as X. pose proof I as [A B C D].
  assert (Hpre0 : forall top below f l ok, stackD s t = top :: below -> In f below ->
                  h_phase f = DVerify l ok -> count_exec (h_key f) (cD_cur s) (cD_log s) = 0%nat).
  { intros top below f l ok E0 Hin Hph. eapply (D t f); eauto. rewrite E0. now right. }
  pose proof Hp as Hp0.
  dpathD Hp.
  - (* begin *)
    apply once_keep; cbn [uD_ev uD_stack uD_memo]; [exact I | exact Hp0 | intros; reflexivity | | | ].
    + intros ? ? ? [].
    + intros f Hin. rewrite Hst in Hin. destruct Hin.
    + intros f l ok [<-|[]] Hph. discriminate.
  - (* hit *)
    apply once_keep; cbn [uD_ev uD_stack uD_memo]; [exact I | exact Hp0 | intros; reflexivity | | | ].
    + intros ? ? ? [E0|[]]. discriminate.
    + intros f Hin Hx. rewrite Hst in Hin. destruct Hin as [<-|Hin]; [cbn in Hx; contradiction|].
      right. apply deliver_exec; auto.
    + intros f l ok Hin Hph. destruct (deliver_verify _ _ _ _ _ _ Hin Hph) as (f0 & l0 & ok0 & Hin0 & Hk & Hp1).
      rewrite <- Hk. eapply Hpre0; eauto.
  - (* hot_sc *)
    apply once_keep; cbn [uD_ev uD_stack uD_memo]; [exact I | exact Hp0 | intros; reflexivity | | | ].
    + intros ? ? ? [].
    + top_only Hst.
    + intros f l ok [<-|Hin] Hph; [discriminate|]. eapply Hpre0; eauto.
  - (* go_cold *)
    apply once_keep; cbn [uD_ev uD_stack uD_memo]; [exact I | exact Hp0 | intros; reflexivity | | | ].
    + intros ? ? ? [].
    + top_only Hst.
    + intros f l ok [<-|Hin] Hph; [discriminate|]. eapply Hpre0; eauto.
  - (* mark_hot *)
    apply once_keep; cbn [uD_ev uD_stack uD_memo]; [exact I | exact Hp0 | intros; reflexivity | | | ].
    + intros ? ? ? [E0|[]]. discriminate.
    + intros f Hin Hx. rewrite Hst in Hin. destruct Hin as [<-|Hin]; [cbn in Hx; contradiction|].
      right. apply deliver_exec; auto.
    + intros f l ok Hin Hph. destruct (deliver_verify _ _ _ _ _ _ Hin Hph) as (f0 & l0 & ok0 & Hin0 & Hk & Hp1).
      rewrite <- Hk. eapply Hpre0; eauto.
  - (* mark_claimed *)
    apply once_keep; cbn [uD_ev uD_stack uD_memo]; [exact I | exact Hp0 | intros; reflexivity | | | ].
    + intros ? ? ? [].
    + top_only Hst.
    + intros f l ok [<-|Hin] Hph; [discriminate|]. eapply Hpre0; eauto.
  - (* claimed *)
    apply once_keep; cbn [uD_ev uD_stack uD_memo]; [exact I | exact Hp0 | intros; reflexivity | | | ].
    + intros ? ? ? [].
    + top_only Hst.
    + intros f l ok [<-|Hin] Hph; [discriminate|]. eapply Hpre0; eauto.
  - apply once_keep; cbn [uD_ev uD_stack uD_memo]; [exact I | exact Hp0 | intros; reflexivity | | | ].
    + intros ? ? ? [].
    + top_only Hst.
    + intros f l ok [<-|Hin] Hph; [discriminate|]. eapply Hpre0; eauto.
  - apply once_keep; cbn [uD_ev uD_stack uD_memo]; [exact I | exact Hp0 | intros; reflexivity | | | ].
    + intros ? ? ? [].
    + top_only Hst.
    + intros f l ok [<-|Hin] Hph; [discriminate|]. eapply Hpre0; eauto.
  - apply once_keep; cbn [uD_ev uD_stack uD_memo]; [exact I | exact Hp0 | intros; reflexivity | | | ].
    + intros ? ? ? [].
    + top_only Hst.
    + intros f l ok [<-|Hin] Hph; [discriminate|]. eapply Hpre0; eauto.
  - apply once_keep; cbn [uD_ev uD_stack uD_memo]; [exact I | exact Hp0 | intros; reflexivity | | | ].
    + intros ? ? ? [].
    + top_only Hst.
    + intros f l ok [<-|Hin] Hph; [discriminate|]. eapply Hpre0; eauto.
  - (* recheck_hit *)
    apply once_keep; cbn [uD_ev uD_stack uD_memo]; [exact I | exact Hp0 | intros; reflexivity | | | ].
    + intros ? ? ? [].
    + top_only Hst.
    + intros f l ok [<-|Hin] Hph; [discriminate|]. eapply Hpre0; eauto.
  - (* recheck_sc *)
    apply once_keep; cbn [uD_ev uD_stack uD_memo]; [exact I | exact Hp0 | intros; reflexivity | | | ].
    + intros ? ? ? [].
    + top_only Hst.
    + intros f l ok [<-|Hin] Hph; [discriminate|]. eapply Hpre0; eauto.
  - (* to_verify: the key was not executed in this revision *)
    apply once_keep; cbn [uD_ev uD_stack uD_memo]; [exact I | exact Hp0 | intros; reflexivity | | | ].
    + intros ? ? ? [].
    + top_only Hst.
    + intros f l ok [<-|Hin] Hph; [|eapply Hpre0; eauto]. cbn [h_key].
      destruct (count_exec k (cD_cur s) (cD_log s)) eqn:Ec; auto. exfalso.
      destruct (C k) as [(m0 & Hm0 & Hv0)|(t' & f' & Hin' & Hk' & Hx')]; [lia | congruence |].
      destruct (X t k DClaimed below t' f' Hst eq_refl Hin' (isexec_hold _ Hx') Hk') as [-> Hnb].
      rewrite Hst in Hin'. destruct Hin' as [<-|Hin']; [cbn in Hx'; contradiction | contradiction].
  - (* exec_start *)
    assert (Hh : holdD ph = true) by (destruct Hph as [[-> _]|(l & ok & ->)]; reflexivity).
    assert (Hnx : ~ isexecD ph) by (destruct Hph as [[-> _]|(l & ok & ->)]; cbn; tauto).
    assert (Hzero : count_exec k (cD_cur s) (cD_log s) = 0%nat).
    { destruct Hph as [[-> Hnv]|(l & ok & ->)].
      - destruct (count_exec k (cD_cur s) (cD_log s)) eqn:Ec; auto. exfalso.
        destruct (C k) as [(m0 & Hm0 & Hv0)|(t' & f' & Hin' & Hk' & Hx')]; [lia | eapply Hnv; eauto |].
        destruct (X t k DClaimed below t' f' Hst eq_refl Hin' (isexec_hold _ Hx') Hk') as [-> Hnb].
        rewrite Hst in Hin'. destruct Hin' as [<-|Hin']; [cbn in Hx'; contradiction | contradiction].
      - apply (D t (k @@ DVerify l ok) l ok); [rewrite Hst; now left | reflexivity]. }
    assert (Hcnt : forall k' r', count_exec k' r' (EExec t k (cD_cur s) :: cD_log s) =
                   ((if (k' =? k) && (r' =? cD_cur s) then 1 else 0) + count_exec k' r' (cD_log s))%nat)
      by reflexivity.
    constructor; cbn [apply_updD cD_log cD_cur cD_memo uD_ev uD_memo app].
    + intros t0 k0 r [E0|Hin]; [injection E0 as <- <- <-; lia | eauto].
    + intros k' r'. rewrite Hcnt. destruct (N.eqb_spec k' k) as [->|Hk]; cbn [andb]; [|apply B].
      destruct (N.eqb_spec r' (cD_cur s)) as [->|Hr]; [rewrite Hzero; lia | apply B].
    + intros k'. rewrite Hcnt. destruct (N.eqb_spec k' k) as [->|Hk]; cbn [andb].
      * intros _. right. exists t. eexists. rewrite stackD_apply, N.eqb_refl. cbn [uD_stack].
        split; [now left|]. cbn. auto.
      * intros H1. destruct (C k' H1) as [Hv|(t' & f & Hin & Hkf & Hx)]; [now left|].
        right. exists t', f. rewrite stackD_apply. destruct (N.eqb_spec t t') as [<-|Hne]; auto.
        cbn [uD_stack]. rewrite Hst in Hin. destruct Hin as [<-|Hin]; [contradiction|]. split; [now right|auto].
    + intros t' f l ok. rewrite stackD_apply. rewrite Hcnt. intros Hin Hphf.
      assert (Hin0 : In f (stackD s t') /\ (t' <> t \/ In f below)).
      { destruct (N.eqb_spec t t') as [<-|Hne].
        - cbn [uD_stack] in Hin. destruct Hin as [<-|Hin]; [discriminate|]. rewrite Hst. split; [now right|now right].
        - split; auto. }
      destruct Hin0 as [Hin0 Hpos].
      destruct (N.eqb_spec (h_key f) k) as [Ek|Ek]; cbn [andb]; [|eapply D; eauto].
      exfalso. assert (Hhf : holdD (h_phase f) = true) by (rewrite Hphf; reflexivity).
      destruct (X t k ph below t' f Hst Hh Hin0 Hhf Ek) as [-> Hnb]. destruct Hpos; [congruence|contradiction].
  - (* call_v *)
    apply once_keep; cbn [uD_ev uD_stack uD_memo]; [exact I | exact Hp0 | intros; reflexivity | | | ].
    + intros ? ? ? [].
    + top_only Hst.
    + intros f l ok [<-|[<-|Hin]] Hph; [discriminate| |eapply Hpre0; eauto].
      cbn [h_key]. apply (D t (k @@ DVerify rest true) rest true); [rewrite Hst; now left | reflexivity].
  - (* mark *)
    apply once_keep; cbn [uD_ev uD_stack uD_memo]; [exact I | exact Hp0 | intros; reflexivity | | | ].
    + intros ? ? ? [].
    + top_only Hst.
    + intros f l ok [<-|Hin] Hph; [discriminate|]. eapply Hpre0; eauto.
  - (* call_x *)
    apply once_keep; cbn [uD_ev uD_stack uD_memo]; [exact I | exact Hp0 | intros; reflexivity | | | ].
    + intros ? ? ? [].
    + intros f Hin Hx. rewrite Hst in Hin. destruct Hin as [<-|Hin].
      * right. exists (k @@ DPend d kont a'). split; [right; now left|]. cbn. auto.
      * right. exists f. split; [right; now right | auto].
    + intros f l ok [<-|[<-|Hin]] Hph; [discriminate|discriminate|]. eapply Hpre0; eauto.
  - (* publish *)
    apply once_keep; cbn [uD_ev uD_stack uD_memo]; [exact I | exact Hp0 | intros; reflexivity | | | ].
    + intros ? ? ? [].
    + intros f Hin Hx. rewrite Hst in Hin. destruct Hin as [<-|Hin].
      * left. cbn [h_key]. eexists. split; [apply updN_same | reflexivity].
      * right. exists f. split; [now right | auto].
    + intros f l ok [<-|Hin] Hph; [discriminate|]. eapply Hpre0; eauto.
  - (* release_quiet *)
    apply once_keep; cbn [uD_ev uD_stack uD_memo]; [exact I | exact Hp0 | intros; reflexivity | | | ].
    + intros ? ? ? [E0|[]]. discriminate.
    + intros f Hin Hx. rewrite Hst in Hin. destruct Hin as [<-|Hin]; [cbn in Hx; contradiction|].
      right. apply deliver_exec; auto.
    + intros f l ok Hin Hph. destruct (deliver_verify _ _ _ _ _ _ Hin Hph) as (f0 & l0 & ok0 & Hin0 & Hk & Hp1).
      rewrite <- Hk. eapply Hpre0; eauto.
  - (* release_wake *)
    apply once_keep; cbn [uD_ev uD_stack uD_memo]; [exact I | exact Hp0 | intros; reflexivity | | | ].
    + intros ? ? ? [].
    + top_only Hst.
    + intros f l ok [<-|Hin] Hph; [discriminate|]. eapply Hpre0; eauto.
  - (* unblock *)
    apply once_keep; cbn [uD_ev uD_stack uD_memo]; [exact I | exact Hp0 | intros; reflexivity | | | ].
    + intros ? ? ? [E0|[]]. discriminate.
    + intros f Hin Hx. rewrite Hst in Hin. destruct Hin as [<-|Hin]; [cbn in Hx; contradiction|].
      right. apply deliver_exec; auto.
    + intros f l ok Hin Hph. destruct (deliver_verify _ _ _ _ _ _ Hin Hph) as (f0 & l0 & ok0 & Hin0 & Hk & Hp1).
      rewrite <- Hk. eapply Hpre0; eauto.
Qed.

End Once.

Definition IdleOutD (s : cstateD) : Prop := forall t, ~ In t (cD_tids s) -> stackD s t = [].

Lemma once_gstep fuel Q sc s o s' :
  SyncD s -> IdleOutD s -> OnceD s -> gstepD fuel Q sc s o = Some s' -> IdleOutD s' /\ OnceD s'.
Proof.
  intros SY IO I. destruct o as [t c| |t ks]; cbn [gstepD].
  - unfold tstepD. destruct (mem t (cD_tids s)) eqn:Emem; [|discriminate].
    destruct (step_threadD fuel Q sc s t c) as [u|] eqn:Eu; [|discriminate]. intros [= <-]. split.
    + intros t' Hn. rewrite stackD_apply. destruct (N.eqb_spec t t') as [<-|Hne].
      * exfalso. apply Hn. cbn [apply_updD cD_tids]. now apply ProofsList.mem_In.
      * apply IO. exact Hn.
    + eapply pres_once; eauto. eapply step_threadD_path; eauto.
  - destruct (forallb _ _) eqn:Ef; [|discriminate]. intros [= <-]. split; [exact IO|].
    assert (E : forall t, stackD s t = []).
    { intros t. destruct (in_dec N.eq_dec t (cD_tids s)) as [Hin|Hin].
      - rewrite forallb_forall in Ef. apply Ef in Hin. now apply idlebD_spec in Hin.
      - now apply IO. }
    destruct I as [A B C D]. constructor; cbn [cD_log cD_cur cD_memo].
    + intros t k r Hin. specialize (A t k r Hin). lia.
    + exact B.
    + intros k H1. apply count_exec_in in H1 as [t Ht]. specialize (A _ _ _ Ht). lia.
    + intros t f l ok Hin. change (stackD (mkCD (cD_cur s + 1) (cD_memo s) (cD_proto s) (cD_thr s) (cD_tids s) (cD_log s)) t)
        with (stackD s t) in Hin. rewrite E in Hin. destruct Hin.
  - destruct (idlebD (cD_thr s t)) eqn:Ei; [|discriminate]. intros [= <-].
    apply idlebD_spec in Ei as (Es & _). split.
    + intros t' Hn. unfold stackD. cbn [cD_thr cD_tids] in *. unfold updN.
      destruct (N.eqb_spec t t') as [<-|Hne]; [reflexivity|]. apply IO. intros Hin. apply Hn.
      destruct (mem t (cD_tids s)); [exact Hin | now right].
    + destruct I as [A B C D]. constructor; cbn [cD_log cD_cur cD_memo]; auto.
      * intros k H1. destruct (C k H1) as [Hv|(t' & f & Hin & Hk & Hx)]; [now left|]. right.
        exists t', f. split; auto. unfold stackD. cbn [cD_thr]. unfold updN.
        destruct (N.eqb_spec t t') as [<-|Hne]; auto. unfold stackD in Hin. rewrite Es in Hin. destruct Hin.
      * intros t' f l ok. unfold stackD. cbn [cD_thr]. unfold updN.
        destruct (N.eqb_spec t t') as [<-|Hne]; [intros []|]. apply D.
Qed.

Lemma once_init : OnceD cinitD.
Proof. constructor; cbn; try contradiction; auto. intros k H. lia. Qed.

Theorem once_per_revisionD fuel Q sc s :
  creachD fuel Q sc s -> forall k r, (count_exec k r (cD_log s) <= 1)%nat.
Proof.
  intros H. cut (IdleOutD s /\ OnceD s); [intros [_ I]; apply (O_cnt _ I)|].
  induction H as [|s o s' Hr IH Hs].
  - split; [intros t _; reflexivity | apply once_init].
  - destruct IH as [IO I]. eapply once_gstep; eauto. eapply creachD_sync; eauto.
Qed.

(* WillExecute is logged by the stepping handle, in the current revision, while the sync table
   records the key as claimed by it; coming from the re-check after the claim, the memo was
   absent or not verified in this revision *)
Theorem exec_by_holderD fuel Q sc s t c s' t1 k1 r1 :
  creachD fuel Q sc s -> tstepD fuel Q sc s t c = Some s' ->
  cD_log s' = EExec t1 k1 r1 :: cD_log s ->
  t1 = t /\ r1 = cD_cur s /\
  (exists st, sync (cD_proto s) k1 = Some st /\ ss_id st = OThread t) /\
  (forall m, cD_memo s k1 = Some m -> o_ver m = cD_cur s ->
     exists l ok below, stackD s t = (k1 @@ DVerify l ok) :: below).
Proof.
  intros HR Hs Hlog. pose proof (creachD_sync _ _ _ _ HR) as SY.
  unfold tstepD in Hs. destruct (mem t (cD_tids s)); [|discriminate].
  destruct (step_threadD fuel Q sc s t c) as [u|] eqn:Eu; [|discriminate]. injection Hs as <-.
  apply step_threadD_path in Eu. cbn [apply_updD cD_log] in Hlog.
  assert (Hnil : forall l : list event, l = EExec t1 k1 r1 :: l -> False).
  { intros l E0. apply (f_equal (@length event)) in E0. cbn in E0. lia. }
  dpathD Eu; cbn [uD_ev app] in Hlog; try (exfalso; eapply Hnil; eauto; fail); try discriminate.
  injection Hlog as <- <- <-. split; auto. split; auto. split.
  - assert (Hh : holdD ph = true) by (destruct Hph as [[-> _]|(l & ok & ->)]; reflexivity).
    apply (SD_hold _ SY t (k @@ ph)); [rewrite Hst; now left | exact Hh].
  - intros m Hm Hv. destruct Hph as [[-> Hnv]|(l & ok & ->)]; [exfalso; eapply Hnv; eauto | eauto].
Qed.

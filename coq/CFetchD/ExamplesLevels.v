(* CFetchD/ExamplesLevels.v — a program with a DYNAMIC read path and static semantic levels: key 4
   reads the LOW input 2 and, depending on its value, calls key 3 only or keys 2 and 3 (its level is
   0 on every path); key 3 depends on the HIGH input 1 only (level 2).  The hypotheses of the
   all-levels theorem of CFetchD/ProofsLevels.v hold; the two-handle run in which key 3 is served
   through the short-cut while key 4 is walked, re-executed along its other path, and key 3 is
   invalidated by the HIGH write returns from-scratch values by the theorem. *)
From Salsa Require Import Base.
From Salsa.Proto Require Import Model.
From Salsa.CFetch Require Import Model.
From Salsa.CFetchD Require Import Model ProofsRel ProofsSync ProofsVal ProofsTop Examples ProofsWindow
  ExamplesWindow ExamplesStatic ProofsLevels.

Definition bodyv (k : key) : body :=
  if k =? 1 then BIn 1 (fun x => BRet (x + 1))
  else if k =? 2 then BIn 2 (fun y => BRet (y * 2))
  else if k =? 3 then BCall 1 (fun a => BRet (a + 10))
  else if k =? 4 then
    BIn 2 (fun y => if y =? 1 then BCall 3 (fun c => BRet (y + c))
                    else BCall 2 (fun b => BCall 3 (fun c => BRet (b + c))))
  else BRet 0.

(* the inputs, stamps, durabilities and the last-changed vector of ExamplesWindow.Qw *)
Definition Qv : progD := mkD bodyv (fun _ => true) (d_in Qw) (d_stamp Qw) (d_idur Qw) (d_lc Qw).

Definition Lv (k : key) : dur :=
  if k =? 1 then 2 else if k =? 2 then 0 else if k =? 3 then 2 else if k =? 4 then 0 else 3.

Lemma rankedv : rankedD Qv rankw.
Proof.
  intros k. unfold Qv, bodyv, rankw. cbn [d_body].
  destruct (N.eqb_spec k 1) as [->|H1]; [cbn; intros; exact Logic.I|].
  destruct (N.eqb_spec k 2) as [->|H2]; [cbn; intros; exact Logic.I|].
  destruct (N.eqb_spec k 3) as [->|H3]; [cbn [body_ranked]; split; [cbn; lia | intros; exact Logic.I]|].
  destruct (N.eqb_spec k 4) as [->|H4]; [|exact Logic.I].
  cbn [body_ranked]. intros y. destruct (y =? 1); cbn [body_ranked].
  - split; [cbn; lia | intros; exact Logic.I].
  - split; [cbn; lia|]. intros b. split; [cbn; lia | intros; exact Logic.I].
Qed.

Lemma static_levelsv : static_levels Qv rankw Lv.
Proof.
  intros r k. unfold Lv, Qv, bodyv. cbn [d_body d_in d_idur].
  destruct (N.eqb_spec k 1) as [->|H1]; [reflexivity|].
  destruct (N.eqb_spec k 2) as [->|H2]; [reflexivity|].
  destruct (N.eqb_spec k 3) as [->|H3]; [reflexivity|].
  destruct (N.eqb_spec k 4) as [->|H4]; [|reflexivity].
  cbn. destruct (r <? 2); reflexivity.
Qed.

Fixpoint lenv (sc : bool) (l : list gop) (s : cstateD) : cstateD :=
  match l with
  | [] => s
  | o :: l' => match gstepD 8 Qv sc s o with Some s' => lenv sc l' s' | None => lenv sc l' s end
  end.

Lemma lenv_creach sc : forall l s, creachD 8 Qv sc s -> creachD 8 Qv sc (lenv sc l s).
Proof.
  induction l as [|o l IH]; intros s H; cbn [lenv]; auto.
  destruct (gstepD 8 Qv sc s o) as [s'|] eqn:E0; auto. apply IH. eapply crD_step; eauto.
Qed.

Definition sv : cstateD := lenv true (prew ++ midw ++ restw) cinitD.

Example sv_reachable : creachD 8 Qv true sv.
Proof. apply lenv_creach. constructor. Qed.

(* by the theorem *)
Example sv_values_from_theorem : forall t k r v, In (ERet t k r v) (cD_log sv) -> v = ED Qv rankw r k.
Proof.
  intros t k r v.
  apply (values_computed_shortcut 8 Qv rankw Lv sv t k r v rankedv stampsw no_neverw
           static_levelsv lc_antitonew lc_monow write_rulew sv_reachable).
Qed.

(* by computation: key 4's recorded path changes from [EIn 2; ECall 3] to [EIn 2; ECall 2; ECall 3]
   when the LOW input changes; key 3 (HIGH) is not executed in revision 2 (short-cut) and is
   executed again after the HIGH write *)
Example sv_run :
  filter (fun x => match x with (_, k, _, _) => (k =? 3) || (k =? 4) end) (rets sv)
  = [(1, 3, 1, 16); (1, 3, 1, 16); (1, 4, 1, 17); (1, 3, 2, 16); (2, 3, 2, 16); (2, 4, 2, 22);
     (1, 3, 3, 18); (2, 3, 3, 18); (2, 3, 3, 18); (2, 4, 3, 24)] /\
  deps_of (lenv true prew cinitD) 4 = Some (1, 1, 0, [EIn 2; ECall 3]) /\
  deps_of sv 4 = Some (3, 3, 0, [EIn 2; ECall 2; ECall 3]) /\
  (count_exec 3 1 (cD_log sv), count_exec 3 2 (cD_log sv), count_exec 3 3 (cD_log sv)) = (1, 0, 1)%nat.
Proof. vm_compute. repeat split; reflexivity. Qed.

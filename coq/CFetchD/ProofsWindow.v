(* CFetchD/ProofsWindow.v — the semantic core of the durability short-cut for ALL levels, ported
   from Core/DurSem.v ([durge], [durge_stable]) to the resumable bodies of CFetchD: a key whose
   from-scratch evaluation reads (transitively) only inputs of durability >= d has the same value,
   the same read path and the same level in every later revision in which level d saw no write.
   Hence a memo that carries the from-scratch value of its verified_at and whose recorded
   durability is such a semantic level is correctly served by the short-cut.  Specification side
   only: no model state. *)
From Salsa Require Import Base.
From Salsa.Proto Require Import Model.
From Salsa.CFetch Require Import Model.
From Salsa.CFetchD Require Import Model ProofsRel.

Section Window.
Variable Q : progD.
Variable rank : key -> nat.
Hypothesis RK : rankedD Q rank.

Notation Ev := (ED Q rank).
Notation path r k := (readsb (Ev r) (d_in Q r) (d_body Q k)).

(* the write rule of the last-changed vector, as in Props/C16.v's [durab_ok] *)
Definition lc_antitone : Prop := forall r d d', d <= d' -> d_lc Q r d' <= d_lc Q r d.
Definition write_rule : Prop :=
  forall r r0 i, r0 <= r -> d_lc Q r (d_idur Q r0 i) <= r0 ->
    d_in Q r i = d_in Q r0 i /\ d_stamp Q r i = d_stamp Q r0 i /\ d_idur Q r i = d_idur Q r0 i.

(* [durgeD r d k]: in revision r every input the evaluation of k reads, transitively, has
   durability >= d *)
Inductive durgeD (r : rev) (d : dur) : key -> Prop :=
| durgeD_intro k :
    (forall i, In (EIn i) (path r k) -> d <= d_idur Q r i) ->
    (forall c, In (ECall c) (path r k) -> durgeD r d c) ->
    durgeD r d k.

Lemma durgeD_mono r d d' k : d' <= d -> durgeD r d k -> durgeD r d' k.
Proof.
  intros Hd H. induction H as [k A B IH]. constructor.
  - intros i Hi. specialize (A i Hi). lia.
  - exact IH.
Qed.

(* the stable window *)
Theorem durgeD_stable v cur d k :
  lc_antitone -> write_rule -> v <= cur -> d_lc Q cur d <= v -> durgeD v d k ->
  Ev cur k = Ev v k /\ path cur k = path v k /\ durgeD cur d k.
Proof.
  intros LA WR Hle Hlc H. induction H as [k A B IH].
  assert (Hin : forall i, In (EIn i) (path v k) ->
            d_in Q cur i = d_in Q v i /\ d_idur Q cur i = d_idur Q v i).
  { intros i Hi. pose proof (A i Hi) as Hd. pose proof (LA cur d (d_idur Q v i) Hd) as Hl.
    destruct (WR cur v i Hle) as (E1 & _ & E3); [lia | split; assumption]. }
  assert (Hag : forall e, In e (path v k) -> esame (Ev v) (Ev cur) (d_in Q v) (d_in Q cur) e).
  { intros e He. destruct e as [i|c]; cbn [esame].
    - symmetry. apply (Hin i He).
    - symmetry. apply (IH c He). }
  assert (HE : Ev cur k = Ev v k).
  { rewrite (ED_unfold Q rank RK cur k), (ED_unfold Q rank RK v k). symmetry. apply evb_agree. exact Hag. }
  assert (HP : path cur k = path v k) by (symmetry; apply readsb_agree; exact Hag).
  split; [exact HE|]. split; [exact HP|]. constructor; rewrite HP.
  - intros i Hi. rewrite (proj2 (Hin i Hi)). apply A; exact Hi.
  - intros c Hc. apply (IH c Hc).
Qed.

(* the short-cut is sound for every memo whose recorded durability is a semantic level *)
Corollary shortcut_sound_of_durgeD cur k (m : memoD) :
  lc_antitone -> write_rule ->
  o_val m = Ev (o_ver m) k -> durgeD (o_ver m) (o_dur m) k -> o_ver m <= cur ->
  shortcut Q true cur m = true ->
  o_val m = Ev cur k /\ path cur k = path (o_ver m) k /\ durgeD cur (o_dur m) k.
Proof.
  intros LA WR Hv Hd Hle Hsc. unfold shortcut in Hsc. cbn [andb] in Hsc. apply N.leb_le in Hsc.
  destruct (durgeD_stable (o_ver m) cur (o_dur m) k LA WR Hle Hsc Hd) as (A & B & C).
  split; [rewrite A; exact Hv | split; assumption].
Qed.

(* what a fresh execution records is a semantic level: the minimum over the inputs read and over
   the levels of the callees (the [a_dur] accumulation of ActiveQuery::add_read) *)
Lemma durgeD_of_reads r d k :
  (forall i, In (EIn i) (path r k) -> d <= d_idur Q r i) ->
  (forall c, In (ECall c) (path r k) -> exists dc, d <= dc /\ durgeD r dc c) ->
  durgeD r d k.
Proof.
  intros A B. constructor; [exact A|]. intros c Hc. destruct (B c Hc) as (dc & Hle & Hd).
  apply (durgeD_mono r dc d c Hle Hd).
Qed.

End Window.

(* CFetchD/Examples.v — the hypotheses of the CFetchD theorems are satisfiable and the model
   runs (vm_compute): a program with a body that reads nothing (never-changing durability), a
   branch on an input, a callee called twice, a key computed from a callee's value; three
   revisions, one and two handles, with and without the durability short-cut. *)
From Salsa Require Import Base.
From Salsa.Proto Require Import Model.
From Salsa.CFetch Require Import Model.
From Salsa.CFetchD Require Import Model ProofsRel ProofsSync ProofsVal ProofsTop.

Definition bodyx (k : key) : body :=
  if k =? 1 then BRet 7
  else if k =? 2 then BIn 1 (fun x => BRet (x + 1))
  else if k =? 3 then
    BIn 2 (fun c => if c =? 0 then BCall 1 (fun a => BRet a)
                    else BCall 2 (fun a => BCall 2 (fun b => BRet (a + b))))
  else if k =? 4 then
    BCall 3 (fun v => BCall (if v <? 5 then 1 else 2) (fun w => BRet (v + w)))
  else BRet 0.

Definition Qx : progD := mkD bodyx (fun _ => true)
  (fun r i => if i =? 1 then (if r <? 2 then 1 else 5) else (if r <? 3 then 0 else 1))
  (fun r i => if i =? 1 then (if r <? 2 then 1 else 2) else (if r <? 3 then 1 else 3))
  (fun _ _ => 0)
  (fun r d => if d =? 0 then r else 1).

Definition rankx (k : key) : nat := N.to_nat k.

Lemma rankedx : rankedD Qx rankx.
Proof.
  intros k. unfold Qx, bodyx, rankx. cbn [d_body].
  destruct (N.eqb_spec k 1) as [->|H1]; [exact Logic.I|].
  destruct (N.eqb_spec k 2) as [->|H2]; [cbn; intros; exact Logic.I|].
  destruct (N.eqb_spec k 3) as [->|H3].
  { cbn [body_ranked]. intros c. destruct (c =? 0); cbn [body_ranked].
    - split; [cbn; lia | intros; exact Logic.I].
    - split; [cbn; lia|]. intros a. split; [cbn; lia | intros; exact Logic.I]. }
  destruct (N.eqb_spec k 4) as [->|H4]; [|exact Logic.I].
  cbn [body_ranked]. split; [cbn; lia|]. intros v. split; [|intros; exact Logic.I].
  destruct (v <? 5); cbn; lia.
Qed.

Lemma stampsx : stampsD_ok Qx.
Proof.
  unfold stampsD_ok, Qx. cbn [d_in d_stamp d_idur]. split; [|split].
  - intros r i r'. destruct (i =? 1).
    + destruct (N.ltb_spec r 2), (N.ltb_spec r' 2); intros; try reflexivity; lia.
    + destruct (N.ltb_spec r 3), (N.ltb_spec r' 3); intros; try reflexivity; lia.
  - intros r i Hr. destruct (i =? 1).
    + destruct (N.ltb_spec r 2); lia.
    + destruct (N.ltb_spec r 3); lia.
  - intros r i r' H. discriminate.
Qed.

Lemma no_neverx : no_never Qx.
Proof. intros r i. cbn. unfold DUR_MAX. lia. Qed.

(* take the steps of a schedule that are enabled *)
Fixpoint lenient (sc : bool) (l : list gop) (s : cstateD) : cstateD :=
  match l with
  | [] => s
  | o :: l' => match gstepD 8 Qx sc s o with Some s' => lenient sc l' s' | None => lenient sc l' s end
  end.

Lemma lenient_creach sc : forall l s, creachD 8 Qx sc s -> creachD 8 Qx sc (lenient sc l s).
Proof.
  induction l as [|o l IH]; intros s H; cbn [lenient]; auto.
  destruct (gstepD 8 Qx sc s o) as [s'|] eqn:E0; auto. apply IH. eapply crD_step; eauto.
Qed.

Fixpoint rep {A} (n : nat) (x : list A) : list A := match n with O => [] | S n' => x ++ rep n' x end.

(* one handle asks for key 4 in three revisions *)
Definition script1 : list gop :=
  [GSpawn 1 [4]] ++ rep 60 [GStep 1 true] ++ [GBump; GSpawn 1 [4]] ++ rep 60 [GStep 1 true] ++
  [GBump; GSpawn 1 [4]] ++ rep 60 [GStep 1 true].

(* two handles ask for keys 4 and 3, interleaved *)
Definition script2 : list gop :=
  [GSpawn 1 [4]; GSpawn 2 [3; 4]] ++ rep 80 [GStep 1 true; GStep 2 true] ++
  [GBump; GSpawn 1 [4]; GSpawn 2 [3]] ++ rep 80 [GStep 2 true; GStep 1 true] ++
  [GBump; GSpawn 2 [4]; GSpawn 1 [3; 4]] ++ rep 80 [GStep 1 true; GStep 2 true].

Definition rets (s : cstateD) : list (thread * key * rev * val) :=
  List.rev (fold_right (fun e acc => match e with ERet t k r v => (t, k, r, v) :: acc | _ => acc end) [] (cD_log s)).

Definition top_rets (s : cstateD) : list (rev * val) :=
  fold_right (fun x acc => match x with (_, k, r, v) => if k =? 4 then (r, v) :: acc else acc end) [] (rets s).

Definition execs (s : cstateD) : list (key * rev) :=
  List.rev (fold_right (fun e acc => match e with EExec _ k r => (k, r) :: acc | _ => acc end) [] (cD_log s)).

Definition deps_of (s : cstateD) (k : key) : option (rev * rev * dur * list edge) :=
  option_map (fun m => (o_ver m, o_chg m, o_dur m, o_deps m)) (cD_memo s k).

Definition s1 := lenient false script1 cinitD.
Definition s1c := lenient true script1 cinitD.
Definition s2 := lenient false script2 cinitD.
Definition s2c := lenient true script2 cinitD.

(* the from-scratch values of key 4 in revisions 1, 2, 3 *)
Example spec4 : (ED Qx rankx 1 4, ED Qx rankx 2 4, ED Qx rankx 3 4) = (9, 13, 18).
Proof. vm_compute. reflexivity. Qed.

Example run1_values : top_rets s1 = [(1, 9); (2, 13); (3, 18)].
Proof. vm_compute. reflexivity. Qed.

Example run1_values_shortcut : top_rets s1c = [(1, 9); (2, 13); (3, 18)].
Proof. vm_compute. reflexivity. Qed.

(* key 1 (reads nothing) is executed once in three revisions; key 3 does not change in revision 2
   (its input did not), key 4 is re-executed there because key 2 changed *)
Example run1_execs : execs s1 = [(4, 1); (3, 1); (1, 1); (2, 1); (2, 2); (4, 2); (3, 3); (4, 3)].
Proof. vm_compute. reflexivity. Qed.

(* the recorded edges: key 3 in revision 1 called key 1, whose never-changing durability leaves
   no edge; in revision 3 it calls key 2 twice, one edge; key 4's second callee is computed *)
Example run1_deps_3 : deps_of s1 3 = Some (3, 3, 0, [EIn 2; ECall 2]).
Proof. vm_compute. reflexivity. Qed.

Example run1_deps_4 : deps_of s1 4 = Some (3, 3, 0, [ECall 3; ECall 2]).
Proof. vm_compute. reflexivity. Qed.

(* key 1 is not asked for again: its memo stays verified in revision 1, nobody walks to it *)
Example run1_deps_1 : deps_of s1 1 = Some (1, 1, 3, []).
Proof. vm_compute. reflexivity. Qed.

(* asked for directly in revision 2 it is re-validated, not re-executed: with the short-cut by a
   store on the hot path (2 steps of the handle), without it through a claim and an empty walk *)
Definition script3 : list gop :=
  [GSpawn 1 [1]] ++ rep 10 [GStep 1 true] ++ [GBump; GSpawn 1 [1]] ++ rep 10 [GStep 1 true].

Example run3_shortcut :
  (deps_of (lenient true script3 cinitD) 1, execs (lenient true script3 cinitD),
   top_rets (lenient true script3 cinitD)) = (Some (2, 1, 3, []), [(1, 1)], []).
Proof. vm_compute. reflexivity. Qed.

Example run3_walk :
  (deps_of (lenient false script3 cinitD) 1, execs (lenient false script3 cinitD)) =
  (Some (2, 1, 3, []), [(1, 1)]).
Proof. vm_compute. reflexivity. Qed.

(* the short-cut run takes the DMark path: after the begin step and the probe the handle is at
   the pending store, no claim taken *)
Example run3_at_mark :
  option_map (fun f => h_phase f)
    (hd_error (stackD (lenient true ([GSpawn 1 [1]] ++ rep 10 [GStep 1 true] ++
                                     [GBump; GSpawn 1 [1]; GStep 1 true; GStep 1 true]) cinitD) 1))
  = Some (DMark false (mkR 7 1 3)).
Proof. vm_compute. reflexivity. Qed.

Example run2_all_done : forallb (fun t => donebD (cD_thr s2 t)) (cD_tids s2) = true.
Proof. vm_compute. reflexivity. Qed.

Example run2_values : top_rets s2 = [(1, 9); (1, 9); (2, 13); (3, 18); (3, 18)].
Proof. vm_compute. reflexivity. Qed.

Example run2_values_shortcut : top_rets s2c = top_rets s2.
Proof. vm_compute. reflexivity. Qed.

(* the theorems apply to these runs *)
Example s2_reachable : creachD 8 Qx false s2.
Proof. apply lenient_creach. constructor. Qed.

Example s2_values_from_theorem : forall t k r v, In (ERet t k r v) (cD_log s2) -> v = ED Qx rankx r k.
Proof.
  intros t k r v. apply (values_computedD 8 Qx rankx s2 t k r v rankedx stampsx no_neverx s2_reachable).
Qed.

Example s2_exclusive : exclD s2c.
Proof. apply (claims_exclusiveD 8 Qx true). apply lenient_creach. constructor. Qed.

(* executions per key and revision in the two-handle run with the short-cut: each at most once;
   key 1 (reads nothing) once in three revisions, key 3 not in revision 2 *)
Example run2c_counts :
  (count_exec 4 1 (cD_log s2c), count_exec 4 2 (cD_log s2c), count_exec 4 3 (cD_log s2c),
   count_exec 1 1 (cD_log s2c), count_exec 1 2 (cD_log s2c), count_exec 3 2 (cD_log s2c),
   count_exec 3 3 (cD_log s2c)) = (1, 1, 1, 1, 0, 0, 1)%nat.
Proof. vm_compute. reflexivity. Qed.

Example s2c_reachable : creachD 8 Qx true s2c.
Proof. apply lenient_creach. constructor. Qed.

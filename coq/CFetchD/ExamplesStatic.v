(* CFetchD/ExamplesStatic.v — the HIGH-window witness of CFetchD/ExamplesWindow.v satisfies the
   hypotheses of the all-levels theorem of CFetchD/ProofsStatic.v: the two-handle run in which key 3
   (durability HIGH) is served through the short-cut while another handle walks key 4, and is
   invalidated by the HIGH write, returns from-scratch values BY THE THEOREM. *)
From Salsa Require Import Base.
From Salsa.Proto Require Import Model.
From Salsa.CFetch Require Import Model.
From Salsa.CFetchD Require Import Model ProofsRel ProofsSync ProofsVal ProofsTop Examples ProofsWindow
  ExamplesWindow ProofsStatic.

Lemma stampsw : stampsD_ok Qw.
Proof.
  unfold stampsD_ok, Qw. cbn [d_in d_stamp d_idur]. split; [|split].
  - intros r i r'. destruct (i =? 1).
    + destruct (N.ltb_spec r 3), (N.ltb_spec r' 3); intros; try reflexivity; lia.
    + destruct (N.ltb_spec r 2), (N.ltb_spec r' 2); intros; try reflexivity; lia.
  - intros r i Hr. destruct (i =? 1).
    + destruct (N.ltb_spec r 3); lia.
    + destruct (N.ltb_spec r 2); lia.
  - intros r i r' H. destruct (i =? 1); discriminate.
Qed.

Lemma no_neverw : no_never Qw.
Proof. intros r i. cbn. unfold DUR_MAX. destruct (i =? 1); lia. Qed.

Lemma static_pathsw : static_paths Qw rankw.
Proof.
  intros r r' k. unfold Qw, bodyw. cbn [d_body].
  destruct (k =? 1); [reflexivity|]. destruct (k =? 2); [reflexivity|].
  destruct (k =? 3); [reflexivity|]. destruct (k =? 4); reflexivity.
Qed.

Lemma const_durw : const_dur Qw.
Proof. intros r r' i. reflexivity. Qed.

Lemma lc_monow : lc_mono Qw.
Proof.
  intros r r' d Hle. unfold Qw. cbn [d_lc].
  destruct (N.ltb_spec r 2), (N.ltb_spec r' 2), (N.ltb_spec r 3), (N.ltb_spec r' 3);
    destruct (N.eqb_spec d 0), (N.ltb_spec d 3); lia.
Qed.

Example sw_values_from_theorem : forall t k r v, In (ERet t k r v) (cD_log sw) -> v = ED Qw rankw r k.
Proof.
  intros t k r v.
  apply (values_computed_shortcut 8 Qw rankw sw t k r v rankedw stampsw no_neverw
           static_pathsw const_durw lc_antitonew lc_monow write_rulew sw_reachable).
Qed.

(* CFetchD/ExamplesWindow.v — the short-cut on a HIGH level that is stable over a window: key 3
   depends (through key 1) on the HIGH input 1 only, key 4 also on the LOW input 2.  Revision 2
   writes the LOW input: handle 1 is served key 3 through the short-cut (claim-free store pending)
   while handle 2 walks key 4; revision 3 writes the HIGH input: key 3 is walked and re-executed.
   The semantic window theorem (CFetchD/ProofsWindow.v) applies to key 3 at level 2; every
   returned value is the from-scratch value (by computation). *)
From Salsa Require Import Base.
From Salsa.Proto Require Import Model.
From Salsa.CFetch Require Import Model.
From Salsa.CFetchD Require Import Model ProofsRel ProofsSync ProofsVal ProofsTop Examples ProofsWindow.

Definition bodyw (k : key) : body :=
  if k =? 1 then BIn 1 (fun x => BRet (x + 1))
  else if k =? 2 then BIn 2 (fun y => BRet (y * 2))
  else if k =? 3 then BCall 1 (fun a => BRet (a + 10))
  else if k =? 4 then BCall 2 (fun b => BCall 3 (fun c => BRet (b + c)))
  else BRet 0.

(* input 1: HIGH (2), 5 then 7 from revision 3; input 2: LOW (0), 1 then 3 from revision 2 *)
Definition Qw : progD := mkD bodyw (fun _ => true)
  (fun r i => if i =? 1 then (if r <? 3 then 5 else 7) else (if r <? 2 then 1 else 3))
  (fun r i => if i =? 1 then (if r <? 3 then 1 else 3) else (if r <? 2 then 1 else 2))
  (fun r i => if i =? 1 then 2 else 0)
  (fun r d => if r <? 2 then r else if r <? 3 then (if d =? 0 then 2 else 1)
              else (if d =? 0 then r else if d <? 3 then 3 else 1)).

Definition rankw (k : key) : nat := N.to_nat k.

Lemma rankedw : rankedD Qw rankw.
Proof.
  intros k. unfold Qw, bodyw, rankw. cbn [d_body].
  destruct (N.eqb_spec k 1) as [->|H1]; [cbn; intros; exact Logic.I|].
  destruct (N.eqb_spec k 2) as [->|H2]; [cbn; intros; exact Logic.I|].
  destruct (N.eqb_spec k 3) as [->|H3]; [cbn [body_ranked]; split; [cbn; lia | intros; exact Logic.I]|].
  destruct (N.eqb_spec k 4) as [->|H4]; [|exact Logic.I].
  cbn [body_ranked]. split; [cbn; lia|]. intros b. split; [cbn; lia | intros; exact Logic.I].
Qed.

Lemma lc_antitonew : lc_antitone Qw.
Proof.
  intros r d d' Hd. unfold Qw. cbn [d_lc]. destruct (N.ltb_spec r 2); [lia|]. destruct (N.ltb_spec r 3).
  - destruct (N.eqb_spec d 0), (N.eqb_spec d' 0); lia.
  - destruct (N.eqb_spec d 0), (N.eqb_spec d' 0), (N.ltb_spec d 3), (N.ltb_spec d' 3); lia.
Qed.

Lemma write_rulew : write_rule Qw.
Proof.
  intros r r0 i Hle. unfold Qw. cbn [d_lc d_in d_stamp d_idur].
  destruct (N.eqb_spec i 1) as [->|Hi]; cbn.
  - destruct (N.ltb_spec r 2), (N.ltb_spec r 3), (N.ltb_spec r0 3); cbn; intros Hlc; try lia; repeat split; reflexivity.
  - destruct (N.ltb_spec r 2), (N.ltb_spec r 3), (N.ltb_spec r0 2); cbn; intros Hlc; try lia; repeat split; reflexivity.
Qed.

(* key 3 reads, transitively, only the HIGH input: its semantic level in revision 1 is 2 *)
Lemma durge3 : durgeD Qw rankw 1 2 3.
Proof.
  constructor.
  - intros i Hi. vm_compute in Hi. destruct Hi as [Hi|[]]. discriminate.
  - intros c Hc. vm_compute in Hc. destruct Hc as [Hc|[]]. injection Hc as <-.
    constructor.
    + intros i Hi. vm_compute in Hi. destruct Hi as [Hi|[]]. injection Hi as <-. cbn. lia.
    + intros c Hc. vm_compute in Hc. destruct Hc as [Hc|[]]. discriminate.
Qed.

(* so, by the window theorem: level 2 saw no write in revision 2 (last changed: 1), the value of
   key 3 in revision 2 is its value in revision 1 — what the short-cut relies on *)
Example window3 : ED Qw rankw 2 3 = ED Qw rankw 1 3 /\ durgeD Qw rankw 2 2 3.
Proof.
  destruct (durgeD_stable Qw rankw rankedw 1 2 2 3 lc_antitonew write_rulew) as (A & _ & C).
  - lia.
  - vm_compute. discriminate.
  - exact durge3.
  - split; assumption.
Qed.

Fixpoint lenw (sc : bool) (l : list gop) (s : cstateD) : cstateD :=
  match l with
  | [] => s
  | o :: l' => match gstepD 8 Qw sc s o with Some s' => lenw sc l' s' | None => lenw sc l' s end
  end.

Lemma lenw_creach sc : forall l s, creachD 8 Qw sc s -> creachD 8 Qw sc (lenw sc l s).
Proof.
  induction l as [|o l IH]; intros s H; cbn [lenw]; auto.
  destruct (gstepD 8 Qw sc s o) as [s'|] eqn:E0; auto. apply IH. eapply crD_step; eauto.
Qed.

(* revision 1: handle 1 computes keys 3 and 4; revision 2 (LOW write): handle 1 asks for key 3,
   handle 2 for key 4, interleaved; revision 3 (HIGH write): both again *)
Definition prew : list gop :=
  [GSpawn 1 [3; 4]] ++ rep 80 [GStep 1 true] ++ [GBump; GSpawn 1 [3]; GSpawn 2 [4]].
Definition midw : list gop :=
  [GStep 1 true; GStep 1 true; GStep 2 true; GStep 2 true; GStep 2 true; GStep 2 true].
Definition restw : list gop :=
  rep 80 [GStep 1 true; GStep 2 true] ++ [GBump; GSpawn 1 [3]; GSpawn 2 [4]] ++ rep 80 [GStep 2 true; GStep 1 true].

Definition swm : cstateD := lenw true (prew ++ midw) cinitD.
Definition sw : cstateD := lenw true (prew ++ midw ++ restw) cinitD.

Example sw_reachable : creachD 8 Qw true sw.
Proof. apply lenw_creach. constructor. Qed.

Definition phasesw (s : cstateD) (t : thread) := map (fun f => (h_key f, h_phase f)) (stackD s t).

(* in revision 2, at one moment: handle 1 holds the pending claim-free store of the short-cut for
   key 3 (durability HIGH = 2) while handle 2 is walking key 4's recorded edges *)
Example sw_shortcut_while_walking :
  phasesw swm 1 = [(3, DMark false (mkR 16 1 2))] /\
  phasesw swm 2 = [(4, DVerify [ECall 2; ECall 3] true)].
Proof. vm_compute. split; reflexivity. Qed.

(* every value returned for keys 3 and 4 is the from-scratch value of its revision; key 3 is not
   executed in revision 2 (short-cut) and is executed again in revision 3 (HIGH write) *)
Example sw_values :
  filter (fun x => match x with (_, k, _, _) => (k =? 3) || (k =? 4) end) (rets sw)
  = [(1, 3, 1, 16); (1, 3, 1, 16); (1, 4, 1, 18); (1, 3, 2, 16); (2, 3, 2, 16); (2, 4, 2, 22);
     (1, 3, 3, 18); (2, 3, 3, 18); (2, 3, 3, 18); (2, 4, 3, 24)] /\
  map (fun r => (ED Qw rankw r 3, ED Qw rankw r 4)) [1; 2; 3] = [(16, 18); (16, 22); (18, 24)] /\
  (count_exec 3 1 (cD_log sw), count_exec 3 2 (cD_log sw), count_exec 3 3 (cD_log sw)) = (1, 0, 1)%nat /\
  deps_of sw 3 = Some (3, 3, 2, [ECall 1]).
Proof. vm_compute. repeat split; reflexivity. Qed.

(* ExtractPersist.v — extraction of the Persist model for the correspondence driver (ExtrOcamlBasic only). *)
From Coq Require Import Extraction ExtrOcamlBasic.
From Salsa Require Import Base.
From Salsa.Kern Require Import CoreK.
From Salsa.Persist Require Import Model Spec Dsl.
Extraction Language OCaml.
Separate Extraction
  Model.step Model.run_ops Model.init Model.pinit Model.level Model.fetch Model.snapshot Model.restore
  Model.lost_untracked Model.ppanic_code
  Spec.eval Spec.evalo Spec.snap_of Dsl.prog_of Dsl.binop_eval Base.panic_code
  Model.lru_set_capacity N.of_nat N.to_nat Nat.add.

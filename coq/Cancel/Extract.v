(* Cancel/Extract.v — extraction of the executable Cancel and Alloc machines for the OCaml
   replayer (/verif/ocaml/conc/replay.ml).  ExtrOcamlBasic only: bool, option, unit, list, prod,
   sumbool are mapped to OCaml's; N / positive / nat stay the extracted inductives.
   Compiled by /verif/ocaml/conc/build.sh in the build directory (the .ml goes to the cwd);
   not part of _CoqProject. *)
From Coq Require Import Extraction ExtrOcamlBasic.
From Salsa Require Import Base.
From Salsa.Cancel Require Import Model.
From Salsa.Alloc Require Import Model.

Extraction Language OCaml.

Extraction "conc_model.ml"
  (* kernels *)
  tok_prev_disabled tok_is_cancelled stamp_new stamp_count stamp_iteration split_id make_id
  (* check *)
  check_outcome outcome_code
  (* token machine *)
  tinit tstep t_tok t_att t_frames attached_elsewhere
  (* writer / reader machine *)
  winit wstep w_clones w_arc w_flag w_count w_rev w_hs st_of
  (* stamp rule *)
  stamp_accepts previous_iteration fetch_cold_cycle validate_may_be_provisional
  (* allocation machine *)
  ainit astep a_npages a_ing a_alloc a_shared a_cur a_ret take_first.

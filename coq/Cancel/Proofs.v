(* Cancel/Proofs.v — the lemmas behind Props/C20.v and Props/C21.v in the form they are
   quoted there, with non-vacuity witnesses (`Example`s).  The long proofs are in
   ProofsTok.v (token machine) and ProofsWR.v (writer/reader machine, stamps). *)
From Salsa Require Import Base.
From Salsa.Cancel Require Import Model.
From Salsa.Cancel Require Export ProofsTok ProofsWR.

(* =====================================================================================
   C21 — token machine
   ===================================================================================== *)

Lemma C21_own_only_lemma :
  (* (a) a check unwinds with Local iff the byte is exactly CANCELLED, i.e. the cancelled bit
         is set and the disabled bit is clear; the global flag plays no role *)
  (forall tok flag, check_outcome tok flag = OLocal <-> tok = CANCELLED_MASK) /\
  (forall tok flag, tok_wf tok ->
     (check_outcome tok flag = OLocal <->
      tok_is_cancelled tok = true /\ tok_prev_disabled tok = false)) /\
  (* (b) the outcome of a check on h is a function of h's byte and the flag *)
  (forall s h flag s' o, tstep s (TCheck h flag) = Some (s', o) ->
     s' = s /\ o = TOutcome (check_outcome (t_tok s h) flag)) /\
  (* (c) no operation writes the token of a handle other than the one it is applied to *)
  (forall s op s' o, tstep s op = Some (s', o) ->
     forall h', op_handle s op <> Some h' -> t_tok s' h' = t_tok s h').
Proof.
  split; [exact check_local_iff |]. split; [exact check_local_bits |].
  split; [exact tstep_check_outcome | exact tstep_other_tokens].
Qed.

Lemma C21_not_in_fixpoint_lemma :
  (* no Local unwind while any disable guard of the handle is on a stack, whatever the nesting *)
  (forall s h flag, treach s ->
     (exists t w, In (FDis h w) (t_frames s t)) ->
     check_outcome (t_tok s h) flag <> OLocal) /\
  (* a request is not lost: only the reset at the end of the outermost scope consumes it *)
  (forall s op s' o h, treach s -> tstep s op = Some (s', o) ->
     tok_is_cancelled (t_tok s h) = true -> o <> TReset (Some h) ->
     tok_is_cancelled (t_tok s' h) = true) /\
  (* and it fires at the first check made when no guard is left *)
  (forall s h flag, treach s ->
     tok_is_cancelled (t_tok s h) = true ->
     (forall t w, ~ In (FDis h w) (t_frames s t)) ->
     check_outcome (t_tok s h) flag = OLocal).
Proof.
  split; [exact no_local_while_disabled |].
  split; [exact cancel_request_persists | exact local_fires_when_enabled].
Qed.

Lemma C21_reset_lemma :
  (* the end of the outermost scope resets the token ... *)
  (forall s t h s' o, treach s -> t_att s t = Some h -> t_frames s t = [FDb true None] ->
     tstep s (TPop t) = Some (s', o) ->
     t_tok s' h = 0 /\ t_att s' t = None /\ t_frames s' t = [] /\ o = TReset (Some h)) /\
  (* ... and nothing else does *)
  (forall s t s' o h, treach s -> tstep s (TPop t) = Some (s', o) ->
     (o = TReset (Some h) <-> (t_att s t = Some h /\ t_frames s t = [FDb true None]))) /\
  (* leaving every scope — by returning or by unwinding, from any depth, with any guards
     active — ends with token 0, nothing attached, empty stack, in a reachable state *)
  (forall s t h, treach s -> t_att s t = Some h ->
     t_tok (tunwind s t) h = 0 /\ t_att (tunwind s t) t = None /\
     t_frames (tunwind s t) t = [] /\ treach (tunwind s t)).
Proof.
  split; [exact reset_at_outermost |]. split; [exact reset_only_at_outermost |].
  intros s t h Hr Ha. destruct (reset_after_unwind s t h Hr Ha) as [A [B C]].
  repeat split; auto. apply tunwind_reach; exact Hr.
Qed.

(* ---- witnesses ---- *)

Definition tok_demo_ops : list top :=
  [ TAttach 0 7;            (* outermost tracked-function call on handle 7, thread 0 *)
    TCheck 7 false;         (* -> Continue *)
    TAttach 0 7;            (* nested tracked-function call *)
    TDisable 0 7;           (* fixpoint guard (outer cycle head) *)
    TDisable 0 7;           (* nested fixpoint guard (inner cycle head): saved was = true *)
    TCancel 7;              (* token.cancel() from another thread *)
    TCheck 7 false;         (* inside iteration -> Continue *)
    TPop 0;                 (* inner guard restored (to disabled) *)
    TCheck 7 false;         (* still inside the outer iteration -> Continue *)
    TPop 0;                 (* outer guard restored *)
    TCheck 7 false;         (* first check outside -> Local *)
    TCancel 9;              (* another handle is cancelled meanwhile *)
    TPop 0;                 (* unwinding: nested scope *)
    TPop 0;                 (* unwinding: outermost scope -> reset of 7 *)
    TCheck 7 false;         (* next request on handle 7 runs *)
    TCheck 9 true ].        (* handle 9: Local is tested before the pending write *)

Example tok_demo_outputs :
  option_map snd (trun_out tinit tok_demo_ops) =
  Some [ TNone; TOutcome OContinue; TNone; TWas false; TWas true; TNone;
         TOutcome OContinue; TWas true; TOutcome OContinue; TWas true;
         TOutcome OLocal; TNone; TReset None; TReset (Some 7);
         TOutcome OContinue; TOutcome OLocal ].
Proof. vm_compute. reflexivity. Qed.

Ltac solve_trun_ok :=
  cbn; repeat split; try reflexivity;
  try (intros t' Hne; unfold updN;
       repeat match goal with
              | |- context [N.eqb ?a t'] => destruct (N.eqb_spec a t')
              end; congruence).

(* the state in the middle of the nested fixpoint, cancel pending *)
Definition tok_mid : tstate :=
  match trun tinit (firstn 6 tok_demo_ops) with Some s => s | None => tinit end.

Example tok_mid_reach : treach tok_mid.
Proof.
  apply (trun_reach (firstn 6 tok_demo_ops) tinit); [apply tr_init | | reflexivity].
  solve_trun_ok.
Qed.

(* hypotheses of C21_not_in_fixpoint are satisfiable: two nested guards, request pending *)
Example tok_mid_guards :
  t_frames tok_mid 0 = [FDis 7 true; FDis 7 false; FDb false None; FDb true None] /\
  tok_is_cancelled (t_tok tok_mid 7) = true /\ t_tok tok_mid 7 = 3.
Proof. vm_compute. auto. Qed.

(* unwinding from there (four frames) resets the token *)
Example tok_mid_unwind :
  t_tok (tunwind tok_mid 0) 7 = 0 /\ t_att (tunwind tok_mid 0) 0 = None.
Proof. vm_compute. auto. Qed.

(* the state just before the outermost scope ends (hypotheses of C21_reset, first part) *)
Definition tok_last_ops : list top := [ TAttach 0 7; TAttach 0 7; TCancel 7; TPop 0 ].
Definition tok_last : tstate :=
  match trun tinit tok_last_ops with Some s => s | None => tinit end.

Example tok_last_reach : treach tok_last.
Proof.
  apply (trun_reach tok_last_ops tinit); [apply tr_init | | reflexivity].
  solve_trun_ok.
Qed.

Example tok_last_outermost :
  t_att tok_last 0 = Some 7 /\ t_frames tok_last 0 = [FDb true None] /\ t_tok tok_last 7 = 1.
Proof. vm_compute. auto. Qed.

(* Outside the discipline of generated code: `attach_allow_change` A -> B -> A resets A's token
   when the INNER scope of A ends.  The DISABLED bit is cleared while A's fixpoint guard is
   still active, so a later request fires inside the iteration, and a request made before is
   lost.  (`attach_allow_change` is public API documented with "Switching databases can cause
   bugs"; tracked functions use `attach`, which panics on a database change.) *)
Definition allow_change_ops : list top :=
  [ TAttach 0 1; TDisable 0 1;      (* handle 1 inside a fixpoint iteration *)
    TAttachAC 0 2;                  (* switch to database 2 *)
    TAttachAC 0 1;                  (* and back to 1 *)
    TCancel 1;                      (* request *)
    TPop 0;                         (* inner scope of 1 ends: uncancel() *)
    TCheck 1 false;                 (* the request is gone *)
    TCancel 1;
    TCheck 1 false ].               (* fires although the guard of 1 is still on the stack *)

Example allow_change_corner :
  option_map snd (trun_out tinit allow_change_ops) =
  Some [ TNone; TWas false; TNone; TNone; TNone; TReset (Some 1);
         TOutcome OContinue; TNone; TOutcome OLocal ] /\
  (match trun tinit allow_change_ops with
   | Some s => In (FDis 1 false) (t_frames s 0)
   | None => False
   end).
Proof. split; [vm_compute; reflexivity | vm_compute; auto]. Qed.

(* =====================================================================================
   C20 — writer/reader machine and stamps
   ===================================================================================== *)

Lemma C20_exclusive_lemma :
  forall s a w s' o,
    wreach s -> needs_exclusive a = Some w -> wstep s a = Some (s', o) ->
    w_clones s = 1 /\ w_arc s = 1 /\
    exists g, w_hs s = [g] /\ h_id g = w /\ h_cloning g = false.
Proof. exact exclusive. Qed.

Lemma C20_cancelled_lemma :
  (forall s h tok s' o,
     w_flag s = true -> wstep s (ACheck h tok) = Some (s', o) ->
     (tok = CANCELLED_MASK -> o = WOutcome OLocal) /\
     (tok <> CANCELLED_MASK -> o = WOutcome OPendingWrite) /\
     o <> WOutcome OContinue /\
     exists e, st_of s h = Some (HRunning e) /\
               s' = with_hs s (upd_h (w_hs s) h (set_st (HUnwinding e)))) /\
  (* the flag is up exactly while some writer is between its request and the end of its wait *)
  (forall s, wreach s ->
     (w_flag s = true <-> exists g, In g (w_hs s) /\ flag_phase (h_st g) = true)).
Proof.
  split; [exact cancelled |]. intros s Hr. apply (wi_flag _ (wreach_winv _ Hr)).
Qed.

Lemma C20_progress_lemma :
  (* every step by which another handle finishes, is cancelled, or is dropped strictly
     decreases the measure ... *)
  (forall s a h w s' o,
     wreach s -> draining s a = Some h -> h <> w -> wstep s a = Some (s', o) ->
     (w_measure w s' < w_measure w s)%nat) /\
  (* ... and at measure 0 the writer's wait is over *)
  (forall s w,
     wreach s -> st_of s w = Some HWEvent -> w_measure w s = 0%nat ->
     w_clones s = 1 /\ exists s', wstep s (AWWait w) = Some (s', WNone)).
Proof. split; [exact progress_decreases | exact progress_wait_enabled]. Qed.

Lemma C20_no_mix_stamp_lemma :
  (* after cancel_others has completed (AWBump), and forever after, every provisional stamp
     created before is rejected: same revision with a smaller count, or an older revision *)
  (forall s w s1 o acts s2,
     wreach s -> wstep s (AWBump w) = Some (s1, o) -> wrun s1 acts = Some s2 ->
     forall st, In st (w_stamps s) ->
       stamp_accepts (w_epoch s2) st = false /\
       ((fst st = fst (w_epoch s2) /\ snd st < snd (w_epoch s2)) \/ fst st < fst (w_epoch s2))) /\
  (* the three reuse sites of the implementation accept nothing that stamp_accepts rejects *)
  (forall cur_rev cur_count verified_at stamp hv mp ih rest,
     stamp_accepts (cur_rev, cur_count) (verified_at, stamp_count stamp) = false ->
     (previous_iteration cur_rev cur_count verified_at stamp hv ih = PIOtherRevision \/
      previous_iteration cur_rev cur_count verified_at stamp hv ih = PIDiscard) /\
     fetch_cold_cycle cur_rev cur_count verified_at stamp hv mp ih
       = CCInitial (stamp_new 0 cur_count) /\
     validate_may_be_provisional cur_rev cur_count verified_at stamp false rest = false) /\
  (* a reader's whole computation, including its unwinding, lives in one (revision, count) epoch *)
  (forall s h e, wreach s -> In h (w_hs s) ->
     (h_st h = HRunning e \/ h_st h = HUnwinding e) -> e = w_epoch s).
Proof.
  split; [exact no_mix_stamp |]. split; [| exact single_epoch].
  intros. split; [apply rejected_previous_iteration; assumption |].
  split; [apply rejected_fetch_cold_cycle; assumption | apply rejected_validate; assumption].
Qed.

(* ---- witnesses ---- *)

Definition wr_demo_acts : list wact :=
  [ ACloneBegin 0; ACloneEnd 0;     (* handle 1 *)
    AStart 1; ACheck 1 0;           (* reader running, check passes *)
    AStamp 1;                       (* provisional memo stamped (1,0) *)
    AWSetFlag 0; AWEvent 0;         (* writer requests *)
    ACheck 1 0;                     (* -> PendingWrite *)
    AStamp 1;                       (* poison memo inserted while unwinding: still (1,0) *)
    ACaught 1; ADropArc 1; ADropCoord 1;
    AWWait 0; AWClear 0; AWBump 0;  (* count 0 -> 1, same revision *)
    AWMutate 0 false ].             (* trigger_cancellation / set_lru_capacity: no new revision *)

Example wr_demo_outputs :
  option_map snd (wrun_out winit wr_demo_acts) =
  Some [ WNone; WNew 1; WNone; WOutcome OContinue; WEpoch 1 0; WNone; WNone;
         WOutcome OPendingWrite; WEpoch 1 0; WNone; WNone; WNone; WNone; WNone;
         WOverflow false; WEpoch 1 1 ].
Proof. vm_compute. reflexivity. Qed.

(* the writer cannot get past the wait while the clone exists *)
Example wr_demo_blocked :
  match wrun winit (firstn 7 wr_demo_acts) with
  | Some s => wstep s (AWWait 0) = None /\ w_clones s = 2 /\ w_measure 0 s = 4%nat
  | None => False
  end.
Proof. vm_compute. auto. Qed.

Definition wr_before_bump : wstate :=
  match wrun winit (firstn 14 wr_demo_acts) with Some s => s | None => winit end.

Example wr_before_bump_reach : wreach wr_before_bump.
Proof. apply (wrun_reach (firstn 14 wr_demo_acts) winit); [apply wr_init | vm_compute; reflexivity]. Qed.

(* hypotheses of C20_no_mix_stamp: two stamps exist before the bump; of C20_exclusive: AWBump enabled *)
Example wr_before_bump_facts :
  w_stamps wr_before_bump = [(1, 0); (1, 0)] /\
  (exists s1, wstep wr_before_bump (AWBump 0) = Some (s1, WOverflow false) /\ w_epoch s1 = (1, 1)).
Proof. split; [vm_compute; reflexivity |]. eexists. vm_compute. split; reflexivity. Qed.

(* state with the flag up and a running reader (hypotheses of C20_cancelled / C20_progress) *)
Definition wr_flagged : wstate :=
  match wrun winit (firstn 7 wr_demo_acts) with Some s => s | None => winit end.

Example wr_flagged_facts :
  wreach wr_flagged /\ w_flag wr_flagged = true /\ st_of wr_flagged 0 = Some HWEvent /\
  st_of wr_flagged 1 = Some (HRunning (1, 0)) /\ draining wr_flagged (ACheck 1 0) = Some 1.
Proof.
  split; [apply (wrun_reach (firstn 7 wr_demo_acts) winit); [apply wr_init | vm_compute; reflexivity] |].
  vm_compute. auto.
Qed.

(* measure 0 state: the reader is gone *)
Example wr_drained_facts :
  match wrun winit (firstn 12 wr_demo_acts) with
  | Some s => st_of s 0 = Some HWEvent /\ w_measure 0 s = 0%nat /\ w_clones s = 1
  | None => False
  end.
Proof. vm_compute. auto. Qed.

(* One full cancel_others + a mutation that does not create a revision. *)
Definition cancel_cycle : list wact :=
  [ AWSetFlag 0; AWEvent 0; AWWait 0; AWClear 0; AWBump 0; AWMutate 0 false ].

Fixpoint repeat_acts (n : nat) (l : list wact) : list wact :=
  match n with O => [] | S n' => l ++ repeat_acts n' l end.

(* The u8 wrap case.  255 cancellations in revision 1 bring the count to 255; the 256th
   overflows and, because overflow forces new_revision, lands in (2, 0) — not in (1, 0). *)
Example wr_overflow_moves_revision :
  option_map w_epoch (wrun winit (repeat_acts 255 cancel_cycle)) = Some (1, 255) /\
  option_map w_epoch (wrun winit (repeat_acts 256 cancel_cycle)) = Some (2, 0).
Proof. split; vm_compute; reflexivity. Qed.

(* Why it has to: with a wrapping bump and no revision change the 256th cancellation would
   bring back the epoch (1, 0), and a stamp created before the first cancellation would be
   accepted again. *)
Example wrapping_bump_would_mix :
  N.iter 256 bump_wrapping 0 = 0 /\
  stamp_accepts (1, N.iter 256 bump_wrapping 0) (1, 0) = true.
Proof. split; vm_compute; reflexivity. Qed.

(* the three reuse sites on a concrete memo: stamp (iteration 2, count 0), verified_at 1 *)
Example sites_accept_same_epoch :
  previous_iteration 1 0 1 (stamp_new 2 0) true true = PISeed (stamp_new 2 0) true /\
  fetch_cold_cycle 1 0 1 (stamp_new 2 0) true true true = CCReuseProvisional /\
  validate_may_be_provisional 1 0 1 (stamp_new 2 0) false true = true.
Proof. vm_compute. auto. Qed.

Example sites_reject_after_cancellation :
  previous_iteration 1 1 1 (stamp_new 2 0) true true = PIDiscard /\
  fetch_cold_cycle 1 1 1 (stamp_new 2 0) true true true = CCInitial (stamp_new 0 1) /\
  validate_may_be_provisional 1 1 1 (stamp_new 2 0) false true = false.
Proof. vm_compute. auto. Qed.

(* Cancel/ProofsWR.v — lemmas about the WRITER/READER machine and the stamp rule (C20). *)
From Salsa Require Import Base.
From Salsa.Cancel Require Import Model ProofsTok.

(* ---------- list-of-handles plumbing ---------- *)

Lemma find_h_some hs id h : find_h hs id = Some h -> In h hs /\ h_id h = id.
Proof.
  unfold find_h. intros H. apply find_some in H. destruct H as [Hin He].
  apply N.eqb_eq in He. auto.
Qed.

Lemma nodup_ids_inj hs a b :
  NoDup (map h_id hs) -> In a hs -> In b hs -> h_id a = h_id b -> a = b.
Proof.
  induction hs as [| x hs IH]; intros Hnd Ha Hb He; [contradiction |].
  cbn in Hnd. inversion Hnd as [| ? ? Hnot Hnd']; subst.
  destruct Ha as [-> | Ha], Hb as [-> | Hb]; auto.
  - exfalso. apply Hnot. rewrite He. apply in_map; exact Hb.
  - exfalso. apply Hnot. rewrite <- He. apply in_map; exact Ha.
Qed.

Lemma find_h_in hs id h :
  NoDup (map h_id hs) -> In h hs -> h_id h = id -> find_h hs id = Some h.
Proof.
  intros Hnd Hin He. unfold find_h.
  destruct (find (fun h0 => h_id h0 =? id) hs) as [g |] eqn:Ef.
  - apply find_some in Ef. destruct Ef as [Hg Hge]. apply N.eqb_eq in Hge.
    f_equal. eapply nodup_ids_inj; eauto. congruence.
  - exfalso. pose proof (find_none _ _ Ef h Hin) as Hn. cbn in Hn.
    apply N.eqb_neq in Hn. contradiction.
Qed.

Lemma upd_h_ids hs id f :
  (forall h, h_id (f h) = h_id h) -> map h_id (upd_h hs id f) = map h_id hs.
Proof.
  intros Hf. unfold upd_h. rewrite map_map. apply map_ext. intros h.
  destruct (h_id h =? id); auto.
Qed.

Lemma upd_h_length hs id f : length (upd_h hs id f) = length hs.
Proof. unfold upd_h. apply map_length. Qed.

Lemma in_upd_h hs id f h' :
  In h' (upd_h hs id f) ->
  (In h' hs /\ h_id h' <> id) \/ (exists h, In h hs /\ h_id h = id /\ h' = f h).
Proof.
  unfold upd_h. intros H. apply in_map_iff in H. destruct H as [h [He Hin]].
  destruct (N.eqb_spec (h_id h) id) as [E | E]; subst h'.
  - right. exists h. auto.
  - left. auto.
Qed.

Lemma in_upd_h_other hs id f h : In h hs -> h_id h <> id -> In h (upd_h hs id f).
Proof.
  intros Hin Hne. unfold upd_h. apply in_map_iff. exists h. split; [| exact Hin].
  apply N.eqb_neq in Hne. rewrite Hne. reflexivity.
Qed.

Lemma in_upd_h_same hs id f h : In h hs -> h_id h = id -> In (f h) (upd_h hs id f).
Proof.
  intros Hin He. unfold upd_h. apply in_map_iff. exists h. split; [| exact Hin].
  apply N.eqb_eq in He. rewrite He. reflexivity.
Qed.

Lemma upd_h_notin hs id f : ~ In id (map h_id hs) -> upd_h hs id f = hs.
Proof.
  induction hs as [| x hs IH]; intros Hn; [reflexivity |].
  cbn in *. destruct (N.eqb_spec (h_id x) id) as [E | E]; [exfalso; auto |].
  f_equal. apply IH. tauto.
Qed.

Lemma del_h_notin hs id : ~ In id (map h_id hs) -> del_h hs id = hs.
Proof.
  induction hs as [| x hs IH]; intros Hn; [reflexivity |].
  cbn in *. destruct (N.eqb_spec (h_id x) id) as [E | E]; [exfalso; auto |].
  cbn. f_equal. apply IH. tauto.
Qed.

Lemma sumf_upd g hs id f h :
  NoDup (map h_id hs) -> find_h hs id = Some h ->
  (sumf g (upd_h hs id f) + g h = sumf g hs + g (f h))%nat.
Proof.
  induction hs as [| x hs IH]; intros Hnd Hf; [discriminate |].
  cbn in Hnd. inversion Hnd as [| ? ? Hnot Hnd']; subst.
  unfold find_h in Hf. cbn in Hf. cbn [upd_h map sumf].
  destruct (N.eqb_spec (h_id x) id) as [E | E].
  - inversion Hf; subst x. subst id.
    fold (upd_h hs (h_id h) f). rewrite (upd_h_notin _ _ _ Hnot). lia.
  - fold (upd_h hs id f). specialize (IH Hnd' Hf). lia.
Qed.

Lemma sumf_del g hs id h :
  NoDup (map h_id hs) -> find_h hs id = Some h ->
  (sumf g (del_h hs id) + g h = sumf g hs)%nat.
Proof.
  induction hs as [| x hs IH]; intros Hnd Hf; [discriminate |].
  cbn in Hnd. inversion Hnd as [| ? ? Hnot Hnd']; subst.
  unfold find_h in Hf. cbn in Hf. cbn [del_h filter].
  destruct (N.eqb_spec (h_id x) id) as [E | E]; cbn [negb].
  - inversion Hf; subst x. subst id. fold (del_h hs (h_id h)).
    rewrite (del_h_notin _ _ Hnot). cbn [sumf]. lia.
  - fold (del_h hs id). cbn [sumf]. specialize (IH Hnd' Hf). lia.
Qed.

Lemma sumf_app g a b : sumf g (a ++ b) = (sumf g a + sumf g b)%nat.
Proof. induction a as [| x a IH]; cbn; [reflexivity | rewrite IH; lia]. Qed.

Lemma sumf_one hs : sumf (fun _ => 1%nat) hs = length hs.
Proof. induction hs as [| x hs IH]; cbn; [reflexivity | rewrite IH; reflexivity]. Qed.

Lemma sumf_zero g hs : sumf g hs = 0%nat -> forall h, In h hs -> g h = 0%nat.
Proof.
  induction hs as [| x hs IH]; intros Hz h Hin; [contradiction |].
  cbn in Hz. destruct Hin as [-> | Hin]; [lia | apply IH; [lia | exact Hin]].
Qed.

Lemma sumf_pos g hs h : In h hs -> (g h <= sumf g hs)%nat.
Proof.
  induction hs as [| x hs IH]; intros Hin; [contradiction |].
  cbn. destruct Hin as [-> | Hin]; [lia |]. specialize (IH Hin). lia.
Qed.

Lemma in_del_h hs id h' : In h' (del_h hs id) <-> In h' hs /\ h_id h' <> id.
Proof.
  unfold del_h. rewrite filter_In. rewrite negb_true_iff, N.eqb_neq. tauto.
Qed.

Lemma del_h_nodup hs id : NoDup (map h_id hs) -> NoDup (map h_id (del_h hs id)).
Proof.
  induction hs as [| x hs IH]; intros Hnd; [constructor |].
  cbn in Hnd. inversion Hnd as [| ? ? Hnot Hnd']; subst.
  cbn. destruct (negb (h_id x =? id)); [| apply IH; exact Hnd'].
  cbn. constructor; [| apply IH; exact Hnd'].
  intros Hin. apply Hnot. apply in_map_iff in Hin. destruct Hin as [y [Hy Hin]].
  apply in_del_h in Hin. apply in_map_iff. exists y. tauto.
Qed.

Lemma len1_in (hs : list handle) a b : length hs = 1%nat -> In a hs -> In b hs -> a = b.
Proof.
  destruct hs as [| x [| y hs]]; cbn; intros Hl Ha Hb; try discriminate.
  destruct Ha as [<- | []], Hb as [<- | []]. reflexivity.
Qed.

Lemma len1_upd hs id f h :
  length hs = 1%nat -> find_h hs id = Some h -> hs = [h] /\ upd_h hs id f = [f h].
Proof.
  intros Hl Hf. destruct (find_h_some _ _ _ Hf) as [Hin He].
  destruct hs as [| x [| y hs]]; cbn in Hl; try discriminate.
  destruct Hin as [-> | []]. split; [reflexivity |].
  cbn. apply N.eqb_eq in He. rewrite He. reflexivity.
Qed.

Definition b2n (b : bool) : nat := if b then 1%nat else 0%nat.

Definition cl_n (hs : list handle) : nat := sumf (fun h => b2n (h_cloning h)) hs.
Definition live_n (hs : list handle) : nat := sumf (fun h => b2n (negb (is_dropping h))) hs.

Definition running_epoch (st : hst) : option epoch :=
  match st with HRunning e | HUnwinding e => Some e | _ => None end.

(* ---------- epochs ---------- *)

Lemma ep_le_refl e : ep_le e e.
Proof. left; reflexivity. Qed.

Lemma ep_lt_le_trans a b c : ep_lt a b -> ep_le b c -> ep_lt a c.
Proof.
  intros Hab [-> | Hbc]; [exact Hab |].
  unfold ep_lt in *. lia.
Qed.

Lemma ep_le_lt_trans a b c : ep_le a b -> ep_lt b c -> ep_lt a c.
Proof.
  intros [-> | Hab] Hbc; [exact Hbc |].
  unfold ep_lt in *. lia.
Qed.

Lemma ep_le_trans a b c : ep_le a b -> ep_le b c -> ep_le a c.
Proof.
  intros [-> | Hab] Hbc; [exact Hbc |]. right. eapply ep_lt_le_trans; eauto.
Qed.

Lemma ep_lt_neq a b : ep_lt a b -> a <> b.
Proof. intros H ->. unfold ep_lt in H. lia. Qed.

Lemma stamp_accepts_true cur m : stamp_accepts cur m = true <-> m = cur.
Proof.
  unfold stamp_accepts. rewrite andb_true_iff, !N.eqb_eq.
  destruct cur, m; cbn. split; [intros [-> ->]; reflexivity | intros E; inversion E; auto].
Qed.

Lemma stamp_rejects_lt cur m : ep_lt m cur -> stamp_accepts cur m = false.
Proof.
  intros Hlt. destruct (stamp_accepts cur m) eqn:E; [| reflexivity].
  apply stamp_accepts_true in E. exfalso. exact (ep_lt_neq _ _ Hlt E).
Qed.

(* ---------- the invariant ---------- *)

Record winv (s : wstate) : Prop := {
  wi_nodup : NoDup (map h_id (w_hs s));
  wi_fresh : forall h, In h (w_hs s) -> h_id h < w_next s;
  wi_clones : w_clones s = N.of_nat (length (w_hs s) + cl_n (w_hs s));
  wi_arc : w_arc s = N.of_nat (live_n (w_hs s));
  wi_excl : forall h, In h (w_hs s) -> past_wait (h_st h) = true ->
            length (w_hs s) = 1%nat /\ cl_n (w_hs s) = 0%nat;
  wi_cloning : forall h, In h (w_hs s) -> h_cloning h = true ->
               h_st h = HIdle \/ exists e, h_st h = HRunning e;
  wi_epoch : forall h e, In h (w_hs s) -> running_epoch (h_st h) = Some e -> e = w_epoch s;
  wi_stamps : forall e, In e (w_stamps s) -> ep_le e (w_epoch s);
  wi_count : w_count s <= U8_MAX;
  wi_flag : w_flag s = true <-> exists h, In h (w_hs s) /\ flag_phase (h_st h) = true
}.

Lemma winv_init : winv winit.
Proof.
  constructor; cbn.
  - constructor; [intros [] | constructor].
  - intros h [<- | []]. cbn. lia.
  - reflexivity.
  - reflexivity.
  - intros h [<- | []]. cbn. discriminate.
  - intros h [<- | []]. cbn. discriminate.
  - intros h e [<- | []]. cbn. discriminate.
  - intros e [].
  - unfold U8_MAX. lia.
  - split; [discriminate |]. intros [h [[<- | []] Hf]]. cbn in Hf. discriminate.
Qed.

Lemma st_of_inv s id st :
  st_of s id = Some st ->
  exists h, find_h (w_hs s) id = Some h /\ h_cloning h = false /\ h_st h = st.
Proof.
  unfold st_of. destruct (find_h (w_hs s) id) as [h |]; [| discriminate].
  destruct (h_cloning h) eqn:Ec; [discriminate |]. intros E; inversion E. eauto.
Qed.

(* Effect of changing the status of one (non-cloning) handle, counters untouched. *)
Section SetSt.
  Variable hs : list handle.
  Variable id : N.
  Variable h : handle.
  Variable st' : hst.
  Hypothesis Hnd : NoDup (map h_id hs).
  Hypothesis Hf : find_h hs id = Some h.
  Hypothesis Hc : h_cloning h = false.

  Let hs' := upd_h hs id (set_st st').

  Lemma setst_ids : map h_id hs' = map h_id hs.
  Proof. apply upd_h_ids. reflexivity. Qed.

  Lemma setst_len : length hs' = length hs.
  Proof. apply upd_h_length. Qed.

  Lemma setst_cl : cl_n hs' = cl_n hs.
  Proof.
    unfold cl_n, hs'.
    pose proof (sumf_upd (fun h => b2n (h_cloning h)) hs id (set_st st') h Hnd Hf) as E.
    cbn in E. lia.
  Qed.

  Lemma setst_live :
    (live_n hs' + b2n (negb (is_dropping h))
     = live_n hs + b2n (negb (is_dropping (set_st st' h))))%nat.
  Proof.
    unfold live_n, hs'.
    exact (sumf_upd (fun h => b2n (negb (is_dropping h))) hs id (set_st st') h Hnd Hf).
  Qed.

  Lemma setst_in h' :
    In h' hs' -> (In h' hs /\ h_id h' <> id) \/ h' = set_st st' h.
  Proof.
    intros Hin. apply in_upd_h in Hin. destruct Hin as [? | [g [Hg [Hge ->]]]]; [left; auto |].
    right. f_equal. destruct (find_h_some _ _ _ Hf) as [Hh Hhe].
    eapply nodup_ids_inj; eauto. congruence.
  Qed.

  Lemma setst_in_new : In (set_st st' h) hs'.
  Proof. destruct (find_h_some _ _ _ Hf). apply in_upd_h_same; auto. Qed.

  Lemma setst_in_old h' : In h' hs -> h_id h' <> id -> In h' hs'.
  Proof. apply in_upd_h_other. Qed.
End SetSt.

Lemma is_dropping_set_st st h : is_dropping (set_st st h) = match st with HDropping => true | _ => false end.
Proof. reflexivity. Qed.

(* a tactic-free packaging of "status change only" steps *)
Lemma winv_setst s id h st' (s' : wstate) :
  winv s ->
  find_h (w_hs s) id = Some h -> h_cloning h = false ->
  w_hs s' = upd_h (w_hs s) id (set_st st') ->
  w_next s' = w_next s -> w_clones s' = w_clones s -> w_count s' = w_count s ->
  w_rev s' = w_rev s -> w_stamps s' = w_stamps s ->
  (* Arc count follows the Dropping status *)
  w_arc s' + N.of_nat (b2n (negb (is_dropping h)))
    = w_arc s + N.of_nat (b2n (negb (is_dropping (set_st st' h)))) ->
  (* exclusivity of a newly past-wait writer *)
  (past_wait st' = true -> length (w_hs s) = 1%nat /\ cl_n (w_hs s) = 0%nat) ->
  (* a running status carries the current epoch *)
  (forall e, running_epoch st' = Some e -> e = w_epoch s) ->
  (* the flag *)
  (w_flag s' = true <-> exists g, In g (w_hs s') /\ flag_phase (h_st g) = true) ->
  winv s'.
Proof.
  intros [Hnd Hfr Hcl Harc Hex Hcn Hep Hst Hct Hfl] Hf Hc Ehs En Ecl Ect Erv Est Earc Hpw Hrun Hflag.
  assert (Eep : w_epoch s' = w_epoch s) by (unfold w_epoch; congruence).
  constructor.
  - rewrite Ehs, setst_ids. exact Hnd.
  - rewrite Ehs, En. intros g Hg. destruct (setst_in _ _ _ _ Hnd Hf g Hg) as [[Hg' _] | ->].
    + apply Hfr; exact Hg'.
    + cbn. apply Hfr. apply (find_h_some _ _ _ Hf).
  - rewrite Ehs, Ecl, setst_len, (setst_cl _ _ _ _ Hnd Hf). exact Hcl.
  - rewrite Ehs. pose proof (setst_live _ _ _ st' Hnd Hf) as E. rewrite Harc in Earc. lia.
  - rewrite Ehs. intros g Hg Hp. rewrite setst_len, (setst_cl _ _ _ _ Hnd Hf).
    destruct (setst_in _ _ _ _ Hnd Hf g Hg) as [[Hg' _] | ->].
    + apply (Hex g Hg' Hp).
    + cbn in Hp. apply Hpw; exact Hp.
  - rewrite Ehs. intros g Hg Hgc.
    destruct (setst_in _ _ _ _ Hnd Hf g Hg) as [[Hg' _] | ->].
    + apply Hcn; auto.
    + cbn in Hgc. congruence.
  - rewrite Ehs, Eep. intros g e Hg Hr.
    destruct (setst_in _ _ _ _ Hnd Hf g Hg) as [[Hg' _] | ->].
    + eapply Hep; eauto.
    + cbn in Hr. apply Hrun; exact Hr.
  - rewrite Est, Eep. exact Hst.
  - rewrite Ect. exact Hct.
  - exact Hflag.
Qed.

(* the flag clause when the flag and every handle's flag-phase membership are unchanged *)
Lemma flag_clause_setst s id h st' :
  winv s -> find_h (w_hs s) id = Some h ->
  flag_phase (h_st h) = flag_phase st' ->
  (w_flag s = true <->
   exists g, In g (upd_h (w_hs s) id (set_st st')) /\ flag_phase (h_st g) = true).
Proof.
  intros Hi Hf Hsame. pose proof (wi_nodup _ Hi) as Hnd. rewrite (wi_flag _ Hi).
  destruct (find_h_some _ _ _ Hf) as [Hh Hhe].
  split; intros [g [Hg Hp]].
  - destruct (N.eq_dec (h_id g) id) as [E | E].
    + assert (g = h) by (eapply nodup_ids_inj; eauto; congruence). subst g.
      exists (set_st st' h). split; [apply (setst_in_new _ _ _ _ Hf) |]. cbn. congruence.
    + exists g. split; [apply setst_in_old; auto | exact Hp].
  - destruct (setst_in _ _ _ _ Hnd Hf g Hg) as [[Hg' _] | ->].
    + exists g; auto.
    + exists h. split; [exact Hh |]. cbn in Hp. congruence.
Qed.

Lemma NoDup_app_single (l : list N) x : NoDup l -> ~ In x l -> NoDup (l ++ [x]).
Proof.
  induction l as [| y l IH]; intros Hnd Hn; cbn.
  - constructor; [intros [] | constructor].
  - inversion Hnd as [| ? ? Hy Hnd']; subst. constructor.
    + intros Hin. apply in_app_or in Hin. destruct Hin as [Hin | [<- | []]]; [auto |].
      apply Hn. left; reflexivity.
    + apply IH; [exact Hnd' |]. intros Hin. apply Hn. right; exact Hin.
Qed.

(* "no handle is in a flag phase" when the only handle is not *)
Lemma flag_clause_single (flag : bool) g :
  flag = flag_phase (h_st g) ->
  (flag = true <-> exists x, In x [g] /\ flag_phase (h_st x) = true).
Proof.
  intros ->. split.
  - intros H. exists g. split; [left; reflexivity | exact H].
  - intros [x [[<- | []] H]]. exact H.
Qed.

Ltac arc_tac :=
  unfold is_dropping; cbn;
  repeat match goal with H : h_st _ = _ |- _ => rewrite H end;
  cbn; try reflexivity.

Lemma winv_step s a s' o : winv s -> wstep s a = Some (s', o) -> winv s'.
Proof.
  intros Hi Hstep.
  pose proof Hi as [Hnd Hfr Hcl Harc Hex Hcn Hep Hst Hct Hfl].
  destruct a as [id | id | id | id tok | id | id | id | id | id | id | id | id | id | id | id nr];
    cbn [wstep] in Hstep.
  - (* ACloneBegin *)
    destruct (st_of s id) as [st |] eqn:Es; [| discriminate].
    destruct (st_of_inv _ _ _ Es) as [h [Hf [Hc Hs]]].
    assert (Hidle : st = HIdle \/ exists e, st = HRunning e).
    { destruct st; try discriminate; eauto. }
    assert (Es' : s' = {| w_clones := w_clones s + 1; w_arc := w_arc s; w_flag := w_flag s;
                          w_count := w_count s; w_rev := w_rev s;
                          w_hs := upd_h (w_hs s) id (set_cloning true);
                          w_next := w_next s; w_stamps := w_stamps s |}).
    { destruct st; try discriminate; inversion Hstep; reflexivity. }
    clear Hstep. subst s'.
    destruct (find_h_some _ _ _ Hf) as [Hh Hhe].
    assert (Hin' : forall g, In g (upd_h (w_hs s) id (set_cloning true)) ->
                   (In g (w_hs s) /\ h_id g <> id) \/ g = set_cloning true h).
    { intros g Hg. apply in_upd_h in Hg. destruct Hg as [? | [x [Hx [Hxe ->]]]]; [left; auto |].
      right. f_equal. eapply nodup_ids_inj; eauto. congruence. }
    assert (Enp : past_wait (h_st h) = false).
    { rewrite Hs. destruct Hidle as [-> | [e ->]]; reflexivity. }
    assert (Enf : flag_phase (h_st h) = false).
    { rewrite Hs. destruct Hidle as [-> | [e ->]]; reflexivity. }
    constructor; cbn.
    + rewrite upd_h_ids by reflexivity. exact Hnd.
    + intros g Hg. destruct (Hin' g Hg) as [[Hg' _] | ->]; [apply Hfr; exact Hg' |].
      cbn. apply Hfr; exact Hh.
    + rewrite upd_h_length. unfold cl_n.
      pose proof (sumf_upd (fun h => b2n (h_cloning h)) _ _ (set_cloning true) _ Hnd Hf) as E.
      cbn in E. rewrite Hc in E. cbn in E. rewrite Hcl. unfold cl_n. lia.
    + unfold live_n.
      pose proof (sumf_upd (fun h => b2n (negb (is_dropping h))) _ _ (set_cloning true) _ Hnd Hf) as E.
      cbn beta in E. change (is_dropping (set_cloning true h)) with (is_dropping h) in E.
      rewrite Harc. unfold live_n. f_equal. lia.
    + intros g Hg Hp. exfalso.
      destruct (Hin' g Hg) as [[Hg' Hne] | ->].
      * destruct (Hex g Hg' Hp) as [Hl _]. apply Hne. rewrite <- Hhe. f_equal.
        eapply len1_in; eauto.
      * cbn in Hp. congruence.
    + intros g Hg Hgc. destruct (Hin' g Hg) as [[Hg' _] | ->]; [apply Hcn; auto |].
      cbn. rewrite Hs. exact Hidle.
    + intros g e Hg Hr. destruct (Hin' g Hg) as [[Hg' _] | ->]; [eapply Hep; eauto |].
      cbn in Hr. eapply Hep; eauto.
    + exact Hst.
    + exact Hct.
    + rewrite Hfl. split; intros [g [Hg Hp]].
      * destruct (N.eq_dec (h_id g) id) as [E | E].
        -- assert (g = h) by (eapply nodup_ids_inj; eauto; congruence). subst g. congruence.
        -- exists g. split; [apply in_upd_h_other; auto | exact Hp].
      * destruct (Hin' g Hg) as [[Hg' _] | ->]; [exists g; auto |].
        cbn in Hp. congruence.
  - (* ACloneEnd *)
    destruct (find_h (w_hs s) id) as [h |] eqn:Hf; [| discriminate].
    destruct (h_cloning h) eqn:Hc; [| discriminate].
    inversion Hstep; subst s' o; clear Hstep.
    destruct (find_h_some _ _ _ Hf) as [Hh Hhe].
    set (nh := {| h_id := w_next s; h_st := HIdle; h_cloning := false |}).
    assert (Hin' : forall g, In g (upd_h (w_hs s) id (set_cloning false) ++ [nh]) ->
                   (In g (w_hs s) /\ h_id g <> id) \/ g = set_cloning false h \/ g = nh).
    { intros g Hg. apply in_app_or in Hg. destruct Hg as [Hg | [<- | []]]; [| auto].
      apply in_upd_h in Hg. destruct Hg as [? | [x [Hx [Hxe ->]]]]; [left; auto |].
      right; left. f_equal. eapply nodup_ids_inj; eauto. congruence. }
    assert (Hst_h : h_st h = HIdle \/ exists e, h_st h = HRunning e) by (apply Hcn; auto).
    assert (Hcl1 : (1 <= cl_n (w_hs s))%nat).
    { unfold cl_n. pose proof (sumf_pos (fun h => b2n (h_cloning h)) _ _ Hh) as E.
      cbn in E. rewrite Hc in E. exact E. }
    constructor; cbn.
    + rewrite map_app, upd_h_ids by reflexivity. cbn.
      apply NoDup_app_single; [exact Hnd |].
      intros Hin. apply in_map_iff in Hin. destruct Hin as [g [Hge Hg]].
      pose proof (Hfr g Hg). lia.
    + intros g Hg. destruct (Hin' g Hg) as [[Hg' _] | [-> | ->]]; cbn.
      * pose proof (Hfr g Hg'). lia.
      * pose proof (Hfr h Hh). lia.
      * lia.
    + rewrite app_length, upd_h_length. cbn. unfold cl_n. rewrite sumf_app. cbn.
      pose proof (sumf_upd (fun h => b2n (h_cloning h)) _ _ (set_cloning false) _ Hnd Hf) as E.
      cbn in E. rewrite Hc in E. cbn in E. rewrite Hcl. unfold cl_n in *. lia.
    + unfold live_n. rewrite sumf_app. cbn.
      pose proof (sumf_upd (fun h => b2n (negb (is_dropping h))) _ _ (set_cloning false) _ Hnd Hf) as E.
      cbn beta in E. change (is_dropping (set_cloning false h)) with (is_dropping h) in E.
      rewrite Harc. unfold live_n. lia.
    + intros g Hg Hp. exfalso.
      destruct (Hin' g Hg) as [[Hg' _] | [-> | ->]].
      * destruct (Hex g Hg' Hp) as [_ Hz]. lia.
      * cbn in Hp. destruct Hst_h as [E | [e E]]; rewrite E in Hp; discriminate.
      * cbn in Hp. discriminate.
    + intros g Hg Hgc. destruct (Hin' g Hg) as [[Hg' _] | [-> | ->]]; [apply Hcn; auto | |];
        cbn in Hgc; discriminate.
    + intros g e Hg Hr. destruct (Hin' g Hg) as [[Hg' _] | [-> | ->]]; [eapply Hep; eauto | |].
      * cbn in Hr. eapply Hep; eauto.
      * cbn in Hr. discriminate.
    + exact Hst.
    + exact Hct.
    + rewrite Hfl. split; intros [g [Hg Hp]].
      * destruct (N.eq_dec (h_id g) id) as [E | E].
        -- assert (g = h) by (eapply nodup_ids_inj; eauto; congruence). subst g.
           exists (set_cloning false h). split; [| exact Hp].
           apply in_or_app. left. apply in_upd_h_same; auto.
        -- exists g. split; [apply in_or_app; left; apply in_upd_h_other; auto | exact Hp].
      * destruct (Hin' g Hg) as [[Hg' _] | [-> | ->]]; [exists g; auto | |].
        -- exists h. split; [exact Hh | exact Hp].
        -- cbn in Hp. discriminate.
  - (* AStart *)
    destruct (st_of s id) as [st |] eqn:Es; [| discriminate].
    destruct (st_of_inv _ _ _ Es) as [h [Hf [Hc Hs]]].
    destruct st; try discriminate. inversion Hstep; subst s' o; clear Hstep.
    eapply (winv_setst s id h (HRunning (w_epoch s))); eauto; cbn; try reflexivity.
    + arc_tac.
    + discriminate.
    + intros e E; inversion E; reflexivity.
    + apply (flag_clause_setst s id h); auto. rewrite Hs. reflexivity.
  - (* ACheck *)
    destruct (st_of s id) as [st |] eqn:Es; [| discriminate].
    destruct (st_of_inv _ _ _ Es) as [h [Hf [Hc Hs]]].
    destruct st as [| e | | | | | | |]; try discriminate.
    assert (Hun : winv (with_hs s (upd_h (w_hs s) id (set_st (HUnwinding e))))).
    { eapply (winv_setst s id h (HUnwinding e)); eauto; cbn; try reflexivity.
      + arc_tac.
      + discriminate.
      + intros e' E; inversion E; subst e'. eapply Hep; [apply (find_h_some _ _ _ Hf) |].
        rewrite Hs. reflexivity.
      + apply (flag_clause_setst s id h); auto. rewrite Hs. reflexivity. }
    destruct (check_outcome tok (w_flag s)); inversion Hstep; subst s' o; auto.
  - (* AStamp *)
    destruct (st_of s id) as [st |] eqn:Es; [| discriminate].
    assert (Es' : s' = {| w_clones := w_clones s; w_arc := w_arc s; w_flag := w_flag s;
                   w_count := w_count s; w_rev := w_rev s; w_hs := w_hs s;
                   w_next := w_next s; w_stamps := w_epoch s :: w_stamps s |}).
    { destruct st; try discriminate; inversion Hstep; reflexivity. }
    subst s'. constructor; cbn; auto.
    intros e [<- | He]; [apply ep_le_refl | apply Hst; exact He].
  - (* AFinish *)
    destruct (st_of s id) as [st |] eqn:Es; [| discriminate].
    destruct (st_of_inv _ _ _ Es) as [h [Hf [Hc Hs]]].
    destruct st; try discriminate. inversion Hstep; subst s' o; clear Hstep.
    eapply (winv_setst s id h HIdle); eauto; cbn; try reflexivity.
    + arc_tac.
    + discriminate.
    + discriminate.
    + apply (flag_clause_setst s id h); auto. rewrite Hs. reflexivity.
  - (* ACaught *)
    destruct (st_of s id) as [st |] eqn:Es; [| discriminate].
    destruct (st_of_inv _ _ _ Es) as [h [Hf [Hc Hs]]].
    destruct st; try discriminate. inversion Hstep; subst s' o; clear Hstep.
    eapply (winv_setst s id h HIdle); eauto; cbn; try reflexivity.
    + arc_tac.
    + discriminate.
    + discriminate.
    + apply (flag_clause_setst s id h); auto. rewrite Hs. reflexivity.
  - (* ADropArc *)
    destruct (st_of s id) as [st |] eqn:Es; [| discriminate].
    destruct (st_of_inv _ _ _ Es) as [h [Hf [Hc Hs]]].
    destruct st; try discriminate. inversion Hstep; subst s' o; clear Hstep.
    assert (Hlive : (1 <= live_n (w_hs s))%nat).
    { unfold live_n. pose proof (sumf_pos (fun h => b2n (negb (is_dropping h))) _ _
                                   (proj1 (find_h_some _ _ _ Hf))) as E.
      cbn in E. unfold is_dropping in E. rewrite Hs in E. exact E. }
    eapply (winv_setst s id h HDropping); eauto; cbn; try reflexivity.
    + arc_tac. rewrite Harc. lia.
    + discriminate.
    + discriminate.
    + apply (flag_clause_setst s id h); auto. rewrite Hs. reflexivity.
  - (* ADropCoord *)
    destruct (st_of s id) as [st |] eqn:Es; [| discriminate].
    destruct (st_of_inv _ _ _ Es) as [h [Hf [Hc Hs]]].
    destruct st; try discriminate. inversion Hstep; subst s' o; clear Hstep.
    destruct (find_h_some _ _ _ Hf) as [Hh Hhe].
    constructor; cbn.
    + apply del_h_nodup; exact Hnd.
    + intros g Hg. apply in_del_h in Hg. apply Hfr; tauto.
    + pose proof (sumf_del (fun _ => 1%nat) _ _ _ Hnd Hf) as E1. rewrite !sumf_one in E1.
      pose proof (sumf_del (fun h => b2n (h_cloning h)) _ _ _ Hnd Hf) as E2.
      cbn in E2. rewrite Hc in E2. cbn in E2. rewrite Hcl. unfold cl_n. lia.
    + pose proof (sumf_del (fun h => b2n (negb (is_dropping h))) _ _ _ Hnd Hf) as E.
      cbn in E. unfold is_dropping at 2 in E. rewrite Hs in E. cbn in E.
      rewrite Harc. unfold live_n. f_equal. lia.
    + intros g Hg Hp. exfalso. apply in_del_h in Hg. destruct Hg as [Hg Hne].
      destruct (Hex g Hg Hp) as [Hl _]. apply Hne. rewrite <- Hhe. f_equal.
      eapply len1_in; eauto.
    + intros g Hg. apply in_del_h in Hg. apply Hcn; tauto.
    + intros g e Hg. apply in_del_h in Hg. apply Hep; tauto.
    + exact Hst.
    + exact Hct.
    + rewrite Hfl. split; intros [g [Hg Hp]].
      * exists g. split; [| exact Hp]. apply in_del_h. split; [exact Hg |].
        intros E. assert (g = h) by (eapply nodup_ids_inj; eauto; congruence). subst g.
        rewrite Hs in Hp. discriminate.
      * apply in_del_h in Hg. exists g. tauto.
  - (* AWSetFlag *)
    destruct (st_of s id) as [st |] eqn:Es; [| discriminate].
    destruct (st_of_inv _ _ _ Es) as [h [Hf [Hc Hs]]].
    destruct st; try discriminate. inversion Hstep; subst s' o; clear Hstep.
    eapply (winv_setst s id h HWFlag); eauto; cbn; try reflexivity.
    + arc_tac.
    + discriminate.
    + discriminate.
    + split; [| reflexivity]. intros _. exists (set_st HWFlag h).
      split; [apply (setst_in_new _ _ _ _ Hf) | reflexivity].
  - (* AWEvent *)
    destruct (st_of s id) as [st |] eqn:Es; [| discriminate].
    destruct (st_of_inv _ _ _ Es) as [h [Hf [Hc Hs]]].
    destruct st; try discriminate. inversion Hstep; subst s' o; clear Hstep.
    eapply (winv_setst s id h HWEvent); eauto; cbn; try reflexivity.
    + arc_tac.
    + discriminate.
    + discriminate.
    + apply (flag_clause_setst s id h); auto. rewrite Hs. reflexivity.
  - (* AWWait *)
    destruct (st_of s id) as [st |] eqn:Es; [| discriminate].
    destruct (st_of_inv _ _ _ Es) as [h [Hf [Hc Hs]]].
    destruct st; try discriminate.
    destruct (N.eqb_spec (w_clones s) 1) as [E1 | E1]; [| discriminate].
    inversion Hstep; subst s' o; clear Hstep.
    assert (Hlen : length (w_hs s) = 1%nat /\ cl_n (w_hs s) = 0%nat).
    { rewrite Hcl in E1.
      assert (1 <= length (w_hs s))%nat.
      { pose proof (sumf_pos (fun _ => 1%nat) _ _ (proj1 (find_h_some _ _ _ Hf))) as E.
        rewrite sumf_one in E. exact E. }
      lia. }
    eapply (winv_setst s id h HWWaited); eauto; cbn; try reflexivity.
    + arc_tac.
    + discriminate.
    + apply (flag_clause_setst s id h); auto. rewrite Hs. reflexivity.
  - (* AWClear *)
    destruct (st_of s id) as [st |] eqn:Es; [| discriminate].
    destruct (st_of_inv _ _ _ Es) as [h [Hf [Hc Hs]]].
    destruct st; try discriminate. inversion Hstep; subst s' o; clear Hstep.
    destruct (find_h_some _ _ _ Hf) as [Hh Hhe].
    assert (Hlen : length (w_hs s) = 1%nat /\ cl_n (w_hs s) = 0%nat).
    { apply (Hex h Hh). rewrite Hs. reflexivity. }
    eapply (winv_setst s id h HWCleared); eauto; cbn; try reflexivity.
    + arc_tac.
    + discriminate.
    + destruct (len1_upd _ _ (set_st HWCleared) _ (proj1 Hlen) Hf) as [_ ->].
      apply flag_clause_single. reflexivity.
  - (* AWBump *)
    destruct (st_of s id) as [st |] eqn:Es; [| discriminate].
    destruct (st_of_inv _ _ _ Es) as [h [Hf [Hc Hs]]].
    destruct st; try discriminate.
    destruct (find_h_some _ _ _ Hf) as [Hh Hhe].
    assert (Hlen : length (w_hs s) = 1%nat /\ cl_n (w_hs s) = 0%nat).
    { apply (Hex h Hh). rewrite Hs. reflexivity. }
    destruct (len1_upd _ _ (set_st HWMut) _ (proj1 Hlen) Hf) as [Ehs Eupd].
    destruct (bump_count (w_count s)) as [c ov] eqn:Eb.
    inversion Hstep; subst s' o; clear Hstep.
    assert (Hnf : w_flag s = false).
    { destruct (w_flag s) eqn:Efl; [| reflexivity]. exfalso.
      destruct (proj1 Hfl eq_refl) as [g [Hg Hp]]. rewrite Ehs in Hg. destruct Hg as [<- | []].
      rewrite Hs in Hp. discriminate. }
    destruct (bump_count_spec _ Hct) as [[Hlt Eb'] | [Heq Eb']]; rewrite Eb' in Eb;
      inversion Eb; subst c ov; clear Eb.
    + (* no overflow *)
      constructor; cbn; rewrite ?Eupd.
      * cbn. rewrite Ehs in Hnd. exact Hnd.
      * intros g [<- | []]. cbn. apply Hfr; exact Hh.
      * rewrite Hcl, Ehs. unfold cl_n. cbn. rewrite Hc. reflexivity.
      * rewrite Harc, Ehs. unfold live_n. cbn. unfold is_dropping. cbn. rewrite Hs. reflexivity.
      * intros g [<- | []] _. cbn. unfold cl_n. cbn. rewrite Hc. auto.
      * intros g [<- | []]. cbn. congruence.
      * intros g e [<- | []]. cbn. discriminate.
      * intros e He. eapply ep_le_trans; [apply Hst; exact He |].
        right. unfold ep_lt, w_epoch. cbn. right. split; [reflexivity | lia].
      * unfold U8_MAX in *. lia.
      * rewrite Hnf. split; [discriminate |]. intros [g [[<- | []] Hp]]. cbn in Hp. discriminate.
    + (* overflow: new revision *)
      constructor; cbn; rewrite ?Eupd.
      * cbn. rewrite Ehs in Hnd. exact Hnd.
      * intros g [<- | []]. cbn. apply Hfr; exact Hh.
      * rewrite Hcl, Ehs. unfold cl_n. cbn. rewrite Hc. reflexivity.
      * rewrite Harc, Ehs. unfold live_n. cbn. unfold is_dropping. cbn. rewrite Hs. reflexivity.
      * intros g [<- | []] _. cbn. unfold cl_n. cbn. rewrite Hc. auto.
      * intros g [<- | []]. cbn. congruence.
      * intros g e [<- | []]. cbn. discriminate.
      * intros e He. eapply ep_le_trans; [apply Hst; exact He |].
        right. unfold ep_lt, w_epoch. cbn. left. lia.
      * unfold U8_MAX. lia.
      * rewrite Hnf. split; [discriminate |]. intros [g [[<- | []] Hp]]. cbn in Hp. discriminate.
  - (* AWMutate *)
    destruct (st_of s id) as [st |] eqn:Es; [| discriminate].
    destruct (st_of_inv _ _ _ Es) as [h [Hf [Hc Hs]]].
    destruct st; try discriminate.
    destruct (find_h_some _ _ _ Hf) as [Hh Hhe].
    assert (Hlen : length (w_hs s) = 1%nat /\ cl_n (w_hs s) = 0%nat).
    { apply (Hex h Hh). rewrite Hs. reflexivity. }
    destruct (len1_upd _ _ (set_st HIdle) _ (proj1 Hlen) Hf) as [Ehs Eupd].
    inversion Hstep; subst s' o; clear Hstep.
    assert (Hnf : w_flag s = false).
    { destruct (w_flag s) eqn:Efl; [| reflexivity]. exfalso.
      destruct (proj1 Hfl eq_refl) as [g [Hg Hp]]. rewrite Ehs in Hg. destruct Hg as [<- | []].
      rewrite Hs in Hp. discriminate. }
    destruct nr; constructor; cbn; rewrite ?Eupd;
      try (cbn; rewrite Ehs in Hnd; exact Hnd);
      try (intros g [<- | []]; cbn; apply Hfr; exact Hh);
      try (rewrite Hcl, Ehs; unfold cl_n; cbn; rewrite Hc; reflexivity);
      try (rewrite Harc, Ehs; unfold live_n; cbn; unfold is_dropping; cbn; rewrite Hs; reflexivity);
      try (intros g [<- | []] Hp; cbn in Hp; discriminate);
      try (intros g [<- | []]; cbn; congruence);
      try (intros g e [<- | []]; cbn; discriminate);
      try (rewrite Hnf; split; [discriminate |]; intros [g [[<- | []] Hp]]; cbn in Hp; discriminate).
    + intros e He. eapply ep_le_trans; [apply Hst; exact He |].
      right. unfold ep_lt, w_epoch. cbn. left. lia.
    + unfold U8_MAX. lia.
    + exact Hst.
    + exact Hct.
Qed.

Lemma wreach_winv s : wreach s -> winv s.
Proof.
  induction 1 as [| s a s' o Hr IH Hs]; [apply winv_init | eapply winv_step; eauto].
Qed.

(* ---------- C20_exclusive ---------- *)

(* the steps of a writer that come after the wait: they use (or are about to use) &mut Zalsa *)
Definition needs_exclusive (a : wact) : option N :=
  match a with
  | AWClear h | AWBump h | AWMutate h _ => Some h
  | _ => None
  end.

Lemma exclusive s a w s' o :
  wreach s -> needs_exclusive a = Some w -> wstep s a = Some (s', o) ->
  w_clones s = 1 /\ w_arc s = 1 /\
  exists g, w_hs s = [g] /\ h_id g = w /\ h_cloning g = false.
Proof.
  intros Hr Hn Hstep. pose proof (wreach_winv _ Hr) as Hi.
  assert (Hpw : exists st, st_of s w = Some st /\ past_wait st = true).
  { destruct a; cbn in Hn; try discriminate; inversion Hn; subst; cbn in Hstep;
      destruct (st_of s w) as [st |]; try discriminate;
      destruct st; try discriminate; eexists; split; reflexivity. }
  destruct Hpw as [st [Es Hp]].
  destruct (st_of_inv _ _ _ Es) as [g [Hf [Hc Hs]]].
  destruct (find_h_some _ _ _ Hf) as [Hg Hge].
  destruct (wi_excl _ Hi g Hg) as [Hl Hz]; [rewrite Hs; exact Hp |].
  destruct (len1_upd _ _ (fun x => x) _ Hl Hf) as [Ehs _].
  repeat split.
  - rewrite (wi_clones _ Hi), Hl, Hz. reflexivity.
  - rewrite (wi_arc _ Hi), Ehs. unfold live_n. cbn. unfold is_dropping. rewrite Hs.
    destruct st; try discriminate; reflexivity.
  - exists g. auto.
Qed.

(* ---------- C20_cancelled ---------- *)

Lemma cancelled s h tok s' o :
  w_flag s = true -> wstep s (ACheck h tok) = Some (s', o) ->
  (tok = CANCELLED_MASK -> o = WOutcome OLocal) /\
  (tok <> CANCELLED_MASK -> o = WOutcome OPendingWrite) /\
  o <> WOutcome OContinue /\
  exists e, st_of s h = Some (HRunning e) /\
            s' = with_hs s (upd_h (w_hs s) h (set_st (HUnwinding e))).
Proof.
  intros Hfl Hstep. cbn in Hstep.
  destruct (st_of s h) as [st |]; [| discriminate].
  destruct st as [| e | | | | | | |]; try discriminate.
  rewrite Hfl in Hstep.
  assert (Hco : (tok = CANCELLED_MASK -> check_outcome tok true = OLocal) /\
                (tok <> CANCELLED_MASK -> check_outcome tok true = OPendingWrite)).
  { split; intros H; [apply check_local_iff; exact H | apply check_pending_iff; auto]. }
  destruct Hco as [H1 H2].
  destruct (N.eq_dec tok CANCELLED_MASK) as [E | E].
  - rewrite (H1 E) in Hstep. inversion Hstep; subst. repeat split; eauto; try tauto; discriminate.
  - rewrite (H2 E) in Hstep. inversion Hstep; subst. repeat split; eauto; try tauto; discriminate.
Qed.

(* the flag is up for as long as some writer is between its request and the end of its wait *)
Lemma flag_while_requested s g :
  wreach s -> In g (w_hs s) -> flag_phase (h_st g) = true -> w_flag s = true.
Proof.
  intros Hr Hg Hp. apply (wi_flag _ (wreach_winv _ Hr)). eauto.
Qed.

(* ... and it is down otherwise: readers are not cancelled spuriously *)
Lemma no_flag_without_request s :
  wreach s -> (forall g, In g (w_hs s) -> flag_phase (h_st g) = false) -> w_flag s = false.
Proof.
  intros Hr Hno. destruct (w_flag s) eqn:E; [| reflexivity].
  apply (wi_flag _ (wreach_winv _ Hr)) in E. destruct E as [g [Hg Hp]].
  rewrite (Hno g Hg) in Hp. discriminate.
Qed.

(* ---------- C20_progress ---------- *)

Lemma measure_setst w s id h st' :
  NoDup (map h_id (w_hs s)) -> find_h (w_hs s) id = Some h -> h_cloning h = false -> id <> w ->
  (sumf (h_weight w) (upd_h (w_hs s) id (set_st st')) + st_weight (h_st h)
   = sumf (h_weight w) (w_hs s) + st_weight st')%nat.
Proof.
  intros Hnd Hf Hc Hne.
  pose proof (sumf_upd (h_weight w) _ _ (set_st st') _ Hnd Hf) as E.
  destruct (find_h_some _ _ _ Hf) as [_ He].
  unfold h_weight in E at 2 4. cbn in E. rewrite He in E.
  apply N.eqb_neq in Hne. rewrite Hne, Hc in E. lia.
Qed.

Lemma progress_decreases s a h w s' o :
  wreach s -> draining s a = Some h -> h <> w -> wstep s a = Some (s', o) ->
  (w_measure w s' < w_measure w s)%nat.
Proof.
  intros Hr Hd Hne Hstep. pose proof (wreach_winv _ Hr) as Hi.
  pose proof (wi_nodup _ Hi) as Hnd. unfold w_measure.
  destruct a as [id | id | id | id tok | id | id | id | id | id | id | id | id | id | id | id nr];
    cbn in Hd; try discriminate.
  - (* ACloneEnd *)
    inversion Hd; subst id. cbn in Hstep.
    destruct (find_h (w_hs s) h) as [g |] eqn:Hf; [| discriminate].
    destruct (h_cloning g) eqn:Hc; [| discriminate]. inversion Hstep; subst; cbn.
    rewrite sumf_app. cbn.
    pose proof (sumf_upd (h_weight w) _ _ (set_cloning false) _ Hnd Hf) as E.
    destruct (find_h_some _ _ _ Hf) as [Hg He].
    unfold h_weight in E at 2 4. cbn in E. rewrite He in E.
    pose proof Hne as Hne'. apply N.eqb_neq in Hne'. rewrite Hne', Hc in E.
    unfold h_weight at 2. cbn.
    destruct (w_next s =? w); cbn; lia.
  - (* ACheck, flag set *)
    destruct (w_flag s) eqn:Hfl; [| discriminate]. inversion Hd; subst id.
    destruct (cancelled _ _ _ _ _ Hfl Hstep) as [_ [_ [_ [e [Es ->]]]]].
    destruct (st_of_inv _ _ _ Es) as [g [Hf [Hc Hs]]]. cbn.
    pose proof (measure_setst w s h g (HUnwinding e) Hnd Hf Hc Hne) as E.
    rewrite Hs in E. cbn in E. lia.
  - (* AFinish *)
    inversion Hd; subst id. cbn in Hstep.
    destruct (st_of s h) as [st |] eqn:Es; [| discriminate].
    destruct (st_of_inv _ _ _ Es) as [g [Hf [Hc Hs]]].
    destruct st; try discriminate. inversion Hstep; subst; cbn.
    pose proof (measure_setst w s h g HIdle Hnd Hf Hc Hne) as E.
    rewrite Hs in E. cbn in E. lia.
  - (* ACaught *)
    inversion Hd; subst id. cbn in Hstep.
    destruct (st_of s h) as [st |] eqn:Es; [| discriminate].
    destruct (st_of_inv _ _ _ Es) as [g [Hf [Hc Hs]]].
    destruct st; try discriminate. inversion Hstep; subst; cbn.
    pose proof (measure_setst w s h g HIdle Hnd Hf Hc Hne) as E.
    rewrite Hs in E. cbn in E. lia.
  - (* ADropArc *)
    inversion Hd; subst id. cbn in Hstep.
    destruct (st_of s h) as [st |] eqn:Es; [| discriminate].
    destruct (st_of_inv _ _ _ Es) as [g [Hf [Hc Hs]]].
    destruct st; try discriminate. inversion Hstep; subst; cbn.
    pose proof (measure_setst w s h g HDropping Hnd Hf Hc Hne) as E.
    rewrite Hs in E. cbn in E. lia.
  - (* ADropCoord *)
    inversion Hd; subst id. cbn in Hstep.
    destruct (st_of s h) as [st |] eqn:Es; [| discriminate].
    destruct (st_of_inv _ _ _ Es) as [g [Hf [Hc Hs]]].
    destruct st; try discriminate. inversion Hstep; subst; cbn.
    pose proof (sumf_del (h_weight w) _ _ _ Hnd Hf) as E.
    destruct (find_h_some _ _ _ Hf) as [_ He].
    unfold h_weight in E at 2. rewrite He in E.
    pose proof Hne as Hne'. apply N.eqb_neq in Hne'. rewrite Hne', Hc, Hs in E. cbn in E. lia.
Qed.

Lemma weight_pos w h : h_id h <> w -> (1 <= h_weight w h)%nat.
Proof.
  intros Hne. unfold h_weight. apply N.eqb_neq in Hne. rewrite Hne.
  destruct (h_st h); cbn; lia.
Qed.

Lemma progress_wait_enabled s w :
  wreach s -> st_of s w = Some HWEvent -> w_measure w s = 0%nat ->
  w_clones s = 1 /\ exists s', wstep s (AWWait w) = Some (s', WNone).
Proof.
  intros Hr Es Hz. pose proof (wreach_winv _ Hr) as Hi.
  destruct (st_of_inv _ _ _ Es) as [g [Hf [Hc Hs]]].
  destruct (find_h_some _ _ _ Hf) as [Hg Hge].
  assert (Hall : forall x, In x (w_hs s) -> x = g).
  { intros x Hx. destruct (N.eq_dec (h_id x) w) as [E | E].
    - eapply nodup_ids_inj; eauto using wi_nodup. congruence.
    - pose proof (sumf_zero _ _ Hz x Hx) as Hw. pose proof (weight_pos w x E). lia. }
  assert (Ehs : w_hs s = [g]).
  { pose proof (wi_nodup _ Hi) as Hnd.
    destruct (w_hs s) as [| a [| b l]] eqn:E; [contradiction | |].
    - destruct Hg as [-> | []]. reflexivity.
    - exfalso. assert (a = g) by (apply Hall; left; reflexivity).
      assert (b = g) by (apply Hall; right; left; reflexivity). subst a b.
      cbn in Hnd. inversion Hnd as [| ? ? Hnot _]. apply Hnot. left; reflexivity. }
  assert (Hcl : w_clones s = 1).
  { rewrite (wi_clones _ Hi), Ehs. unfold cl_n. cbn. rewrite Hc. reflexivity. }
  split; [exact Hcl |]. cbn. rewrite Es, Hcl. cbn. eauto.
Qed.

(* ---------- epochs move forward only, and only through an exclusive writer ---------- *)

Lemma wstep_epoch s a s' o :
  winv s -> wstep s a = Some (s', o) ->
  match a with
  | AWBump _ => ep_lt (w_epoch s) (w_epoch s')
  | AWMutate _ true => ep_lt (w_epoch s) (w_epoch s')
  | _ => w_epoch s' = w_epoch s
  end.
Proof.
  intros Hi Hstep. pose proof (wi_count _ Hi) as Hct.
  destruct a as [id | id | id | id tok | id | id | id | id | id | id | id | id | id | id | id nr];
    cbn [wstep] in Hstep;
    try (destruct (st_of s id) as [st |]; [| discriminate]; destruct st; try discriminate;
         inversion Hstep; subst; reflexivity).
  - (* ACloneEnd *)
    destruct (find_h (w_hs s) id) as [h |]; [| discriminate].
    destruct (h_cloning h); [| discriminate]. inversion Hstep; subst; reflexivity.
  - (* ACheck *)
    destruct (st_of s id) as [st |]; [| discriminate]. destruct st; try discriminate.
    destruct (check_outcome tok (w_flag s)); inversion Hstep; subst; reflexivity.
  - (* AWWait *)
    destruct (st_of s id) as [st |]; [| discriminate]. destruct st; try discriminate.
    destruct (w_clones s =? 1); [| discriminate]. inversion Hstep; subst; reflexivity.
  - (* AWBump *)
    destruct (st_of s id) as [st |]; [| discriminate]. destruct st; try discriminate.
    destruct (bump_count_spec _ Hct) as [[Hlt Eb] | [Heq Eb]]; rewrite Eb in Hstep;
      inversion Hstep; subst; unfold ep_lt, w_epoch; cbn; lia.
  - (* AWMutate *)
    destruct (st_of s id) as [st |]; [| discriminate]. destruct st; try discriminate.
    inversion Hstep; subst. destruct nr; [| reflexivity].
    unfold ep_lt, w_epoch; cbn; lia.
Qed.

Lemma wstep_epoch_le s a s' o :
  winv s -> wstep s a = Some (s', o) -> ep_le (w_epoch s) (w_epoch s').
Proof.
  intros Hi Hstep. pose proof (wstep_epoch _ _ _ _ Hi Hstep) as H.
  destruct a; try (left; symmetry; exact H); try (right; exact H).
  destruct new_rev; [right; exact H | left; symmetry; exact H].
Qed.

Lemma wrun_epoch_le : forall acts s s',
  winv s -> wrun s acts = Some s' -> ep_le (w_epoch s) (w_epoch s') /\ winv s'.
Proof.
  induction acts as [| a acts IH]; intros s s' Hi Hrun; cbn in Hrun.
  - inversion Hrun; subst. split; [apply ep_le_refl | exact Hi].
  - destruct (wstep s a) as [[s1 o] |] eqn:Es; [| discriminate].
    pose proof (winv_step _ _ _ _ Hi Es) as Hi1.
    destruct (IH _ _ Hi1 Hrun) as [Hle Hi'].
    split; [| exact Hi']. eapply ep_le_trans; [eapply wstep_epoch_le; eauto | exact Hle].
Qed.

Lemma wrun_reach : forall acts s s', wreach s -> wrun s acts = Some s' -> wreach s'.
Proof.
  induction acts as [| a acts IH]; intros s s' Hr Hrun; cbn in Hrun.
  - inversion Hrun; subst; exact Hr.
  - destruct (wstep s a) as [[s1 o] |] eqn:Es; [| discriminate].
    eapply IH; [| exact Hrun]. eapply wr_step; eauto.
Qed.

(* ---------- C20_no_mix_stamp ---------- *)

Lemma no_mix_stamp s w s1 o acts s2 :
  wreach s -> wstep s (AWBump w) = Some (s1, o) -> wrun s1 acts = Some s2 ->
  forall st, In st (w_stamps s) ->
    stamp_accepts (w_epoch s2) st = false /\
    ((fst st = fst (w_epoch s2) /\ snd st < snd (w_epoch s2)) \/ fst st < fst (w_epoch s2)).
Proof.
  intros Hr Hb Hrun st Hin. pose proof (wreach_winv _ Hr) as Hi.
  pose proof (wstep_epoch _ _ _ _ Hi Hb) as Hlt. cbn in Hlt.
  pose proof (winv_step _ _ _ _ Hi Hb) as Hi1.
  destruct (wrun_epoch_le _ _ _ Hi1 Hrun) as [Hle _].
  assert (Hst : ep_lt st (w_epoch s2)).
  { eapply ep_le_lt_trans; [apply (wi_stamps _ Hi); exact Hin |].
    eapply ep_lt_le_trans; eauto. }
  split; [apply stamp_rejects_lt; exact Hst |].
  unfold ep_lt in Hst. tauto.
Qed.

(* what the three reuse sites do with a rejected stamp *)
Lemma rejected_previous_iteration cur_rev cur_count verified_at stamp hv ih :
  stamp_accepts (cur_rev, cur_count) (verified_at, stamp_count stamp) = false ->
  previous_iteration cur_rev cur_count verified_at stamp hv ih = PIOtherRevision \/
  previous_iteration cur_rev cur_count verified_at stamp hv ih = PIDiscard.
Proof.
  unfold stamp_accepts, previous_iteration. cbn [fst snd]. intros H.
  destruct (verified_at =? cur_rev); cbn in *; [| left; reflexivity].
  rewrite H. cbn. right; reflexivity.
Qed.

Lemma rejected_fetch_cold_cycle cur_rev cur_count verified_at stamp hv mp ih :
  stamp_accepts (cur_rev, cur_count) (verified_at, stamp_count stamp) = false ->
  fetch_cold_cycle cur_rev cur_count verified_at stamp hv mp ih
  = CCInitial (stamp_new 0 cur_count).
Proof.
  unfold stamp_accepts, fetch_cold_cycle. cbn [fst snd]. intros H.
  destruct (verified_at =? cur_rev); cbn in *.
  - rewrite H. rewrite !andb_false_r. cbn. reflexivity.
  - rewrite !andb_false_r. cbn. reflexivity.
Qed.

Lemma rejected_validate cur_rev cur_count verified_at stamp rest :
  stamp_accepts (cur_rev, cur_count) (verified_at, stamp_count stamp) = false ->
  validate_may_be_provisional cur_rev cur_count verified_at stamp false rest = false.
Proof.
  unfold stamp_accepts, validate_may_be_provisional. cbn [fst snd]. intros H.
  destruct (stamp_count stamp =? cur_count); cbn; [| reflexivity].
  rewrite andb_true_r in H. rewrite H. reflexivity.
Qed.

(* conversely every reuse implies acceptance: the three sites never go beyond stamp_accepts *)
Lemma reuse_needs_accept cur_rev cur_count verified_at stamp hv mp ih rest :
  (forall i r, previous_iteration cur_rev cur_count verified_at stamp hv ih = PISeed i r ->
     stamp_accepts (cur_rev, cur_count) (verified_at, stamp_count stamp) = true) /\
  (fetch_cold_cycle cur_rev cur_count verified_at stamp hv mp ih = CCReuseProvisional ->
     stamp_accepts (cur_rev, cur_count) (verified_at, stamp_count stamp) = true) /\
  (validate_may_be_provisional cur_rev cur_count verified_at stamp false rest = true ->
     stamp_accepts (cur_rev, cur_count) (verified_at, stamp_count stamp) = true).
Proof.
  unfold stamp_accepts, previous_iteration, fetch_cold_cycle, validate_may_be_provisional.
  cbn [fst snd].
  destruct (verified_at =? cur_rev), (stamp_count stamp =? cur_count), hv, mp, ih, rest;
    cbn; repeat split; intros; try discriminate; reflexivity.
Qed.

(* ---------- C20: a reader's computation lives in a single epoch ---------- *)

Lemma single_epoch s h e :
  wreach s -> In h (w_hs s) -> (h_st h = HRunning e \/ h_st h = HUnwinding e) ->
  e = w_epoch s.
Proof.
  intros Hr Hh Hs. apply (wi_epoch _ (wreach_winv _ Hr) h e Hh).
  destruct Hs as [-> | ->]; reflexivity.
Qed.

(* every stamp is the epoch at which it was created, and never ahead of the present *)
Lemma stamps_not_ahead s st : wreach s -> In st (w_stamps s) -> ep_le st (w_epoch s).
Proof. intros Hr. apply (wi_stamps _ (wreach_winv _ Hr)). Qed.

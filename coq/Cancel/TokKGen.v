(* Cancel/TokKGen.v — the kernels of Cancel/TokK.v, taken from the translator's output
   (coq/gen/Kernels.v, regenerated from /repo's Rust source): `CancellationToken`
   (src/zalsa_local.rs), `Runtime::bump_cancellation_count` (src/runtime.rs), `IterationStamp`
   (src/cycle.rs).  Same names, same types, same interface lemmas as the hand-written
   Cancel/TokK.v; Cancel/Model.v chooses between the two in its one `Require Export` line. *)
From Coq Require Import NArith Bool Lia.
From Salsa.gen Require Import Kernels.
From Salsa.Kern Require Import K4_Stamp.
Open Scope N_scope.

Definition CANCELLED_MASK : N := k_TOK_CANCELLED_MASK.
Definition DISABLED_MASK : N := k_TOK_DISABLED_MASK.
Definition U8_MAX : N := 255.

Definition tok_cancel (t : N) : N := k_tok_cancel t.
Definition tok_is_cancelled (t : N) : bool := k_tok_is_cancelled t.
(* k_tok_set_cancellation_disabled : byte -> bool -> (returned previous-disabled flag, new byte) *)
Definition tok_set_disabled (t : N) (disabled : bool) : N :=
  snd (k_tok_set_cancellation_disabled t disabled).
Definition tok_prev_disabled (t : N) : bool :=
  fst (k_tok_set_cancellation_disabled t true).
Definition tok_should_trigger (t : N) : bool := k_tok_should_trigger t.
Definition tok_reset (t : N) : N := k_tok_reset t.

(* k_bump_count : count -> (overflow, new count) *)
Definition bump_count (c : N) : N * bool :=
  (snd (k_bump_count c), fst (k_bump_count c)).

Definition stamp_new (iteration count : N) : N := k_stamp_new iteration count.
Definition stamp_count (s : N) : N := k_stamp_cancellation_count s.
Definition stamp_iteration (s : N) : N := k_stamp_iteration s.

(* the returned flag does not depend on the argument *)
Lemma tok_prev_disabled_any t b :
  fst (k_tok_set_cancellation_disabled t b) = tok_prev_disabled t.
Proof. unfold tok_prev_disabled, k_tok_set_cancellation_disabled. destruct b; reflexivity. Qed.

(* ---- interface lemmas (tokens range over the four byte values 0..3) ---- *)

Definition tok_wf (t : N) : Prop := t < 4.

Lemma tok_wf_cases t : tok_wf t -> t = 0 \/ t = 1 \/ t = 2 \/ t = 3.
Proof. unfold tok_wf; lia. Qed.

Ltac tok_cases H :=
  let H' := fresh in
  pose proof (tok_wf_cases _ H) as H';
  destruct H' as [-> | [-> | [-> | ->]]].

Lemma tok_cancel_wf t : tok_wf t -> tok_wf (tok_cancel t).
Proof. intros H; tok_cases H; vm_compute; reflexivity. Qed.

Lemma tok_set_disabled_wf t b : tok_wf t -> tok_wf (tok_set_disabled t b).
Proof. intros H; tok_cases H; destruct b; vm_compute; reflexivity. Qed.

Lemma tok_reset_wf t : tok_wf (tok_reset t).
Proof. vm_compute; reflexivity. Qed.

Lemma tok_reset_zero t : tok_reset t = 0.
Proof. reflexivity. Qed.

Lemma tok_cancel_is_cancelled t : tok_wf t -> tok_is_cancelled (tok_cancel t) = true.
Proof. intros H; tok_cases H; reflexivity. Qed.

Lemma tok_cancel_prev_disabled t :
  tok_wf t -> tok_prev_disabled (tok_cancel t) = tok_prev_disabled t.
Proof. intros H; tok_cases H; reflexivity. Qed.

Lemma tok_set_disabled_prev t b :
  tok_wf t -> tok_prev_disabled (tok_set_disabled t b) = b.
Proof. intros H; tok_cases H; destruct b; reflexivity. Qed.

Lemma tok_set_disabled_is_cancelled t b :
  tok_wf t -> tok_is_cancelled (tok_set_disabled t b) = tok_is_cancelled t.
Proof. intros H; tok_cases H; destruct b; reflexivity. Qed.

Lemma tok_should_trigger_spec t :
  tok_wf t ->
  tok_should_trigger t = tok_is_cancelled t && negb (tok_prev_disabled t).
Proof. intros H; tok_cases H; reflexivity. Qed.

Lemma tok_should_trigger_exact t : tok_should_trigger t = true <-> t = CANCELLED_MASK.
Proof. unfold tok_should_trigger, k_tok_should_trigger, CANCELLED_MASK. apply N.eqb_eq. Qed.

Lemma tok_bits_ext t u :
  tok_wf t -> tok_wf u ->
  tok_is_cancelled t = tok_is_cancelled u ->
  tok_prev_disabled t = tok_prev_disabled u -> t = u.
Proof.
  intros Ht Hu; tok_cases Ht; tok_cases Hu; vm_compute; intros; congruence.
Qed.

Lemma bump_count_spec c :
  c <= U8_MAX ->
  (c < U8_MAX /\ bump_count c = (c + 1, false)) \/ (c = U8_MAX /\ bump_count c = (c, true)).
Proof.
  unfold U8_MAX, bump_count. intros H. destruct (N.lt_ge_cases c 255) as [Hlt | Hge].
  - left. split; [exact Hlt |]. rewrite (k_bump_count_ok c Hlt). reflexivity.
  - right. split; [lia |]. rewrite (k_bump_count_overflow c Hge). reflexivity.
Qed.

Lemma stamp_count_new i c : i < 256 -> c < 256 -> stamp_count (stamp_new i c) = c.
Proof. exact (k_stamp_count_new i c). Qed.

Global Arguments tok_cancel : simpl never.
Global Arguments tok_is_cancelled : simpl never.
Global Arguments tok_set_disabled : simpl never.
Global Arguments tok_prev_disabled : simpl never.
Global Arguments tok_should_trigger : simpl never.
Global Arguments tok_reset : simpl never.
Global Arguments bump_count : simpl never.
Global Arguments stamp_new : simpl never.
Global Arguments stamp_count : simpl never.
Global Arguments stamp_iteration : simpl never.

(* Cancel/TokK.v — the integer kernels of `CancellationToken` (src/zalsa_local.rs) and of the
   cancellation epoch (`Runtime::bump_cancellation_count`, `IterationStamp`), hand-transcribed.

   HAND-WRITTEN STAND-IN.  Cancel/TokKGen.v provides the same names, types and interface lemmas on
   top of the translator's output (coq/gen/Kernels.v: the k_tok_, k_bump_count and k_stamp_ families).
   Cancel/Model.v picks one of the two in its single `Require Export` line (default: TokKGen);
   every other file of the layer gets the kernels through Cancel/Model.v.  Types:
     tok_cancel          : N -> N              fetch_or(CANCELLED_MASK): new byte
     tok_is_cancelled    : N -> bool           load & CANCELLED_MASK != 0
     tok_set_disabled    : N -> bool -> N      new byte of fetch_or(DISABLED)/fetch_and(!DISABLED)
     tok_prev_disabled   : N -> bool           previous & DISABLED_MASK != 0 (the value returned)
     tok_should_trigger  : N -> bool           load == CANCELLED_MASK
     tok_reset           : N -> N              store(0)
     bump_count          : N -> N * bool       checked_add(1) on u8: (new count, overflow)
     stamp_new           : N -> N -> N         u16::from_le_bytes([iteration, count])
     stamp_count         : N -> N              to_le_bytes()[1]
     stamp_iteration     : N -> N              to_le_bytes()[0]
   The interface lemmas the proofs need are at the end of this file (identical statements in
   TokKGen.v). *)
From Coq Require Import NArith Bool Lia.
Open Scope N_scope.

(* const CANCELLED_MASK: u8 = 0b01; const DISABLED_MASK: u8 = 0b10; *)
Definition CANCELLED_MASK : N := 1.
Definition DISABLED_MASK : N := 2.
Definition U8_MAX : N := 255.

(* pub fn cancel(&self) { self.0.fetch_or(Self::CANCELLED_MASK, Relaxed); } *)
Definition tok_cancel (t : N) : N := N.lor t CANCELLED_MASK.

(* pub fn is_cancelled(&self) -> bool { self.0.load(Relaxed) & Self::CANCELLED_MASK != 0 } *)
Definition tok_is_cancelled (t : N) : bool := negb (N.land t CANCELLED_MASK =? 0).

(* fn set_cancellation_disabled(&self, disabled: bool) -> bool {
     let previous_disabled_bit = if disabled { fetch_or(DISABLED_MASK) }
                                 else { fetch_and(!DISABLED_MASK) };
     previous_disabled_bit & Self::DISABLED_MASK != 0 }
   `!DISABLED_MASK` on u8 is 0xFD. *)
Definition tok_set_disabled (t : N) (disabled : bool) : N :=
  if disabled then N.lor t DISABLED_MASK else N.land t (N.lxor U8_MAX DISABLED_MASK).
Definition tok_prev_disabled (t : N) : bool := negb (N.land t DISABLED_MASK =? 0).

(* fn should_trigger_local_cancellation(&self) -> bool { load(Relaxed) == Self::CANCELLED_MASK } *)
Definition tok_should_trigger (t : N) : bool := t =? CANCELLED_MASK.

(* fn reset(&self) { self.0.store(0, Relaxed); } *)
Definition tok_reset (t : N) : N := 0.

(* Runtime::bump_cancellation_count:
     let Some(next) = count.checked_add(1) else { return true; }; *count = next; false *)
Definition bump_count (c : N) : N * bool :=
  if c <? U8_MAX then (c + 1, false) else (c, true).

(* IterationStamp(u16::from_le_bytes([iteration, cancellation_count])) *)
Definition stamp_new (iteration count : N) : N := N.lor (N.shiftl count 8) iteration.
Definition stamp_count (s : N) : N := N.shiftr s 8 mod 256.
Definition stamp_iteration (s : N) : N := s mod 256.

(* ---- interface lemmas (tokens range over the four byte values 0..3) ---- *)

Definition tok_wf (t : N) : Prop := t < 4.

Lemma tok_wf_cases t : tok_wf t -> t = 0 \/ t = 1 \/ t = 2 \/ t = 3.
Proof. unfold tok_wf; lia. Qed.

Ltac tok_cases H :=
  let H' := fresh in
  pose proof (tok_wf_cases _ H) as H';
  destruct H' as [-> | [-> | [-> | ->]]].

Lemma tok_cancel_wf t : tok_wf t -> tok_wf (tok_cancel t).
Proof. intros H; tok_cases H; vm_compute; reflexivity. Qed.

Lemma tok_set_disabled_wf t b : tok_wf t -> tok_wf (tok_set_disabled t b).
Proof. intros H; tok_cases H; destruct b; vm_compute; reflexivity. Qed.

Lemma tok_reset_wf t : tok_wf (tok_reset t).
Proof. vm_compute; reflexivity. Qed.

Lemma tok_reset_zero t : tok_reset t = 0.
Proof. reflexivity. Qed.

(* cancel sets the CANCELLED bit and keeps the DISABLED bit *)
Lemma tok_cancel_is_cancelled t : tok_wf t -> tok_is_cancelled (tok_cancel t) = true.
Proof. intros H; tok_cases H; reflexivity. Qed.

Lemma tok_cancel_prev_disabled t :
  tok_wf t -> tok_prev_disabled (tok_cancel t) = tok_prev_disabled t.
Proof. intros H; tok_cases H; reflexivity. Qed.

(* set_disabled sets/clears exactly the DISABLED bit and keeps the CANCELLED bit *)
Lemma tok_set_disabled_prev t b :
  tok_wf t -> tok_prev_disabled (tok_set_disabled t b) = b.
Proof. intros H; tok_cases H; destruct b; reflexivity. Qed.

Lemma tok_set_disabled_is_cancelled t b :
  tok_wf t -> tok_is_cancelled (tok_set_disabled t b) = tok_is_cancelled t.
Proof. intros H; tok_cases H; destruct b; reflexivity. Qed.

(* the trigger predicate is "CANCELLED and not DISABLED" *)
Lemma tok_should_trigger_spec t :
  tok_wf t ->
  tok_should_trigger t = tok_is_cancelled t && negb (tok_prev_disabled t).
Proof. intros H; tok_cases H; reflexivity. Qed.

Lemma tok_should_trigger_exact t : tok_should_trigger t = true <-> t = CANCELLED_MASK.
Proof. unfold tok_should_trigger. apply N.eqb_eq. Qed.

(* a byte is determined by its two bits *)
Lemma tok_bits_ext t u :
  tok_wf t -> tok_wf u ->
  tok_is_cancelled t = tok_is_cancelled u ->
  tok_prev_disabled t = tok_prev_disabled u -> t = u.
Proof.
  intros Ht Hu; tok_cases Ht; tok_cases Hu; vm_compute; intros; congruence.
Qed.

Lemma bump_count_spec c :
  c <= U8_MAX ->
  (c < U8_MAX /\ bump_count c = (c + 1, false)) \/ (c = U8_MAX /\ bump_count c = (c, true)).
Proof.
  intros H. unfold bump_count. destruct (N.ltb_spec c U8_MAX); [left | right]; split; auto; lia.
Qed.

Lemma stamp_count_new i c : i < 256 -> c < 256 -> stamp_count (stamp_new i c) = c.
Proof.
  intros Hi Hc. unfold stamp_count, stamp_new.
  rewrite N.shiftr_lor, N.shiftr_shiftl_l by lia.
  rewrite N.sub_diag, N.shiftl_0_r.
  assert (E : N.shiftr i 8 = 0).
  { apply N.shiftr_eq_0. destruct (N.eq_dec i 0) as [-> | Hn]; [reflexivity |].
    apply N.log2_lt_pow2; [lia | exact Hi]. }
  rewrite E, N.lor_0_r. apply N.mod_small; exact Hc.
Qed.

(* keep `cbn`/`simpl` from unfolding the kernels in proofs about the machines *)
Global Arguments tok_cancel : simpl never.
Global Arguments tok_is_cancelled : simpl never.
Global Arguments tok_set_disabled : simpl never.
Global Arguments tok_prev_disabled : simpl never.
Global Arguments tok_should_trigger : simpl never.
Global Arguments tok_reset : simpl never.
Global Arguments bump_count : simpl never.
Global Arguments stamp_new : simpl never.
Global Arguments stamp_count : simpl never.
Global Arguments stamp_iteration : simpl never.

(* Cancel/ProofsTok.v — lemmas about the TOKEN machine of Cancel/Model.v (C21). *)
From Salsa Require Import Base.
From Salsa.Cancel Require Import Model.

(* ---------- check ---------- *)

Lemma check_local_iff tok flag :
  check_outcome tok flag = OLocal <-> tok = CANCELLED_MASK.
Proof.
  unfold check_outcome. rewrite <- tok_should_trigger_exact.
  destruct (tok_should_trigger tok); [tauto |].
  destruct flag; split; intros H; discriminate.
Qed.

Lemma check_local_bits tok flag :
  tok_wf tok ->
  (check_outcome tok flag = OLocal <->
   tok_is_cancelled tok = true /\ tok_prev_disabled tok = false).
Proof.
  intros Hwf. unfold check_outcome. rewrite (tok_should_trigger_spec _ Hwf).
  destruct (tok_is_cancelled tok), (tok_prev_disabled tok); cbn; destruct flag;
    split; try tauto; try discriminate; intros [? ?]; discriminate.
Qed.

Lemma check_pending_iff tok flag :
  check_outcome tok flag = OPendingWrite <-> (tok <> CANCELLED_MASK /\ flag = true).
Proof.
  unfold check_outcome. rewrite <- tok_should_trigger_exact.
  destruct (tok_should_trigger tok), flag; split; try discriminate; try tauto;
    try (intros [H ?]; try discriminate; exfalso; apply H; reflexivity).
  intros _. split; [discriminate | reflexivity].
Qed.

(* ---------- frames / small state lemmas ---------- *)

Lemma drop_frame_frames s t f : t_frames (fst (drop_frame s t f)) = t_frames s.
Proof.
  destruct f as [[|] prev | h was]; cbn; try reflexivity.
  destruct (t_att s t); reflexivity.
Qed.

Lemma has_dis_false_iff h fs :
  has_dis h fs = false <-> (forall w, ~ In (FDis h w) fs).
Proof.
  unfold has_dis. split.
  - intros H w Hin.
    assert (E : existsb (is_dis h) fs = true).
    { apply existsb_exists. exists (FDis h w). split; [exact Hin | cbn; apply N.eqb_refl]. }
    congruence.
  - intros H. destruct (existsb (is_dis h) fs) eqn:E; [| reflexivity].
    apply existsb_exists in E. destruct E as [f [Hin Hd]].
    destruct f as [a p | h' w]; cbn in Hd; [discriminate |].
    apply N.eqb_eq in Hd. subst h'. exfalso. exact (H w Hin).
Qed.

(* ---------- C21_own_only, second half: frame rule for tokens ---------- *)

Lemma tstep_other_tokens s op s' o :
  tstep s op = Some (s', o) ->
  forall h', op_handle s op <> Some h' -> t_tok s' h' = t_tok s h'.
Proof.
  intros Hstep h' Hne.
  destruct op as [h | t h | t h | t h | t | h flag]; cbn in Hstep, Hne.
  - inversion Hstep; subst; cbn. apply updN_other. congruence.
  - destruct (t_att s t) as [cur |]; [destruct (cur =? h) |]; inversion Hstep; subst; reflexivity.
  - destruct (t_att s t) as [cur |]; [destruct (cur =? h) |]; inversion Hstep; subst; reflexivity.
  - destruct (opt_eqb (t_att s t) (Some h)); [| discriminate].
    inversion Hstep; subst; cbn. apply updN_other. congruence.
  - destruct (t_frames s t) as [| f fs] eqn:Ef; [discriminate |].
    inversion Hstep as [Hd]; clear Hstep.
    destruct f as [[|] prev | h was]; cbn in Hd.
    + destruct (t_att s t) as [d |] eqn:Ea; inversion Hd; subst; cbn.
      * apply updN_other. congruence.
      * reflexivity.
    + inversion Hd; subst; reflexivity.
    + inversion Hd; subst; cbn. apply updN_other. congruence.
  - inversion Hstep; subst; reflexivity.
Qed.

(* the result of a check depends on this handle's byte and the flag only *)
Lemma tstep_check_outcome s h flag s' o :
  tstep s (TCheck h flag) = Some (s', o) ->
  s' = s /\ o = TOutcome (check_outcome (t_tok s h) flag).
Proof. cbn. intros H; inversion H; auto. Qed.

(* ---------- the invariant ---------- *)

Definition inner_ok (h : N) (f : frame) : Prop :=
  f = FDb false None \/ exists w, f = FDis h w.

(* each disable guard saved "was a guard already active below me" *)
Fixpoint chain (h : N) (fs : list frame) : Prop :=
  match fs with
  | [] => True
  | FDis _ w :: rest => w = has_dis h rest /\ chain h rest
  | _ :: rest => chain h rest
  end.

Record tinv (s : tstate) : Prop := {
  ti_wf : forall h, tok_wf (t_tok s h);
  ti_unatt : forall t, t_att s t = None -> t_frames s t = [];
  ti_att : forall t h, t_att s t = Some h ->
     exists inner, t_frames s t = inner ++ [FDb true None]
       /\ Forall (inner_ok h) inner
       /\ tok_prev_disabled (t_tok s h) = has_dis h inner
       /\ chain h inner;
  ti_excl : forall t t' h, t_att s t = Some h -> t_att s t' = Some h -> t = t';
  ti_dis : forall h, tok_prev_disabled (t_tok s h) = true -> exists t, t_att s t = Some h
}.

Lemma tinv_init : tinv tinit.
Proof.
  constructor; cbn; intros; try discriminate; try reflexivity.
Qed.

Lemma opt_eqb_some a h : opt_eqb a (Some h) = true <-> a = Some h.
Proof.
  destruct a as [x |]; cbn; [| split; discriminate].
  rewrite N.eqb_eq. split; congruence.
Qed.

Lemma tinv_step s op s' o :
  tinv s -> plain_op op = true -> attach_ok s op -> tstep s op = Some (s', o) -> tinv s'.
Proof.
  intros [Hwf Hun Hat Hex Hfr] Hplain Hok Hstep.
  destruct op as [h | t h | t h | t h | t | h flag]; cbn in Hstep; try discriminate Hplain.
  - (* TCancel *)
    inversion Hstep; subst; clear Hstep. constructor; cbn.
    + intros h'. unfold updN. destruct (h =? h'); [apply tok_cancel_wf |]; apply Hwf.
    + exact Hun.
    + intros t h' Ha. destruct (Hat t h' Ha) as [inner [E1 [E2 [E3 E4]]]].
      exists inner. repeat split; auto.
      unfold updN. destruct (N.eqb_spec h h') as [-> | Hn]; [| exact E3].
      rewrite tok_cancel_prev_disabled by apply Hwf. exact E3.
    + exact Hex.
    + intros h'. unfold updN. destruct (N.eqb_spec h h') as [-> | Hn]; [| apply Hfr].
      rewrite tok_cancel_prev_disabled by apply Hwf. apply Hfr.
  - (* TAttach *)
    destruct (t_att s t) as [cur |] eqn:Ea.
    + destruct (N.eqb_spec cur h) as [-> | Hn]; inversion Hstep; subst; clear Hstep.
      * (* nested scope of the same handle *)
        constructor; cbn; auto.
        -- intros t' Ha'. unfold updN. destruct (N.eqb_spec t t') as [-> | Hn]; [congruence |].
           apply Hun; exact Ha'.
        -- intros t' h' Ha'. unfold updN. destruct (N.eqb_spec t t') as [-> | Hn].
           ++ destruct (Hat t' h' Ha') as [inner [E1 [E2 [E3 E4]]]].
              exists (FDb false None :: inner). rewrite E1. repeat split; auto.
              constructor; [left; reflexivity | exact E2].
           ++ apply Hat; exact Ha'.
      * (* panic: state unchanged *)
        constructor; auto.
    + inversion Hstep; subst; clear Hstep. cbn in Hok.
      assert (Hfree : forall t', t_att s t' <> Some h).
      { intros t'. destruct (N.eq_dec t' t) as [-> | Hn]; [congruence | apply Hok; exact Hn]. }
      constructor; cbn.
      * exact Hwf.
      * intros t'. unfold updN. destruct (N.eqb_spec t t') as [-> | Hn]; [discriminate |].
        apply Hun.
      * intros t' h'. unfold updN at 1 2. destruct (N.eqb_spec t t') as [-> | Hn].
        -- intros E; inversion E; subst h'. exists []. rewrite (Hun t' Ea). cbn.
           repeat split; auto.
           destruct (tok_prev_disabled (t_tok s h)) eqn:Ed; [| reflexivity].
           destruct (Hfr h Ed) as [t0 Ht0]. exfalso. exact (Hfree t0 Ht0).
        -- apply Hat.
      * intros t1 t2 h'. unfold updN.
        destruct (N.eqb_spec t t1) as [E1 | Hn1]; destruct (N.eqb_spec t t2) as [E2 | Hn2].
        -- congruence.
        -- intros A B. inversion A; subst h'. exfalso. exact (Hfree t2 B).
        -- intros A B. inversion B; subst h'. exfalso. exact (Hfree t1 A).
        -- apply Hex.
      * intros h' Hd. destruct (Hfr h' Hd) as [t0 Ht0]. exists t0.
        unfold updN. destruct (N.eqb_spec t t0) as [-> | Hn]; [congruence | exact Ht0].
  - (* TDisable *)
    destruct (opt_eqb (t_att s t) (Some h)) eqn:Eo; [| discriminate].
    apply opt_eqb_some in Eo. inversion Hstep; subst; clear Hstep.
    constructor; cbn.
    + intros h'. unfold updN. destruct (h =? h'); [apply tok_set_disabled_wf |]; apply Hwf.
    + intros t' Ha'. unfold updN. destruct (N.eqb_spec t t') as [-> | Hn]; [congruence |].
      apply Hun; exact Ha'.
    + intros t' h' Ha'. unfold updN at 1. destruct (N.eqb_spec t t') as [-> | Hn].
      * assert (h' = h) by congruence. subst h'.
        destruct (Hat t' h Ha') as [inner [E1 [E2 [E3 E4]]]].
        exists (FDis h (tok_prev_disabled (t_tok s h)) :: inner). rewrite E1.
        rewrite updN_same. repeat split.
        -- constructor; [right; eexists; reflexivity | exact E2].
        -- rewrite tok_set_disabled_prev by apply Hwf. cbn. rewrite N.eqb_refl. reflexivity.
        -- exact E3.
        -- exact E4.
      * assert (Hne : h <> h').
        { intros ->. apply Hn. exact (Hex _ _ _ Eo Ha'). }
        rewrite updN_other by exact Hne. apply Hat; exact Ha'.
    + exact Hex.
    + intros h'. unfold updN. destruct (N.eqb_spec h h') as [-> | Hne]; [| apply Hfr].
      intros _. exists t. exact Eo.
  - (* TPop *)
    destruct (t_frames s t) as [| f fs] eqn:Ef; [discriminate |].
    inversion Hstep as [Hd]; clear Hstep.
    destruct (t_att s t) as [h |] eqn:Ea; [| rewrite (Hun t Ea) in Ef; discriminate].
    destruct (Hat t h Ea) as [inner [E1 [E2 [E3 E4]]]].
    rewrite Ef in E1.
    destruct inner as [| g inner'].
    + (* the outermost scope ends: reset *)
      cbn in E1. inversion E1; subst f fs. cbn in Hd. rewrite Ea in Hd.
      inversion Hd; subst; clear Hd. constructor; cbn.
      * intros h'. unfold updN. destruct (h =? h'); [apply tok_reset_wf | apply Hwf].
      * intros t'. unfold updN. destruct (N.eqb_spec t t') as [-> | Hn]; [reflexivity |].
        apply Hun.
      * intros t' h'. unfold updN at 1 2. destruct (N.eqb_spec t t') as [-> | Hn]; [discriminate |].
        intros Ha'. assert (Hne : h <> h').
        { intros ->. apply Hn. exact (Hex _ _ _ Ea Ha'). }
        rewrite updN_other by exact Hne. apply Hat; exact Ha'.
      * intros t1 t2 h'. unfold updN.
        destruct (N.eqb_spec t t1), (N.eqb_spec t t2); try discriminate. apply Hex.
      * intros h'. unfold updN at 1. destruct (N.eqb_spec h h') as [-> | Hne]; [discriminate |].
        intros Hd. destruct (Hfr h' Hd) as [t0 Ht0]. exists t0.
        unfold updN. destruct (N.eqb_spec t t0) as [-> | Hn]; [congruence | exact Ht0].
    + cbn in E1. inversion E1; subst g fs. clear E1.
      inversion E2 as [| ? ? Hg E2']; subst.
      destruct Hg as [-> | [w ->]]; cbn in Hd; inversion Hd; subst; clear Hd.
      * (* a nested attach scope ends: nothing but the stack changes *)
        constructor; cbn; auto.
        -- intros t' Ha'. unfold updN. destruct (N.eqb_spec t t') as [-> | Hn]; [congruence |].
           apply Hun; exact Ha'.
        -- intros t' h' Ha'. unfold updN. destruct (N.eqb_spec t t') as [-> | Hn].
           ++ assert (h' = h) by congruence. subst h'. exists inner'. repeat split; auto.
           ++ apply Hat; exact Ha'.
      * (* a disable guard is restored *)
        cbn in E4. destruct E4 as [Ew E4].
        constructor; cbn.
        -- intros h'. unfold updN. destruct (h =? h'); [apply tok_set_disabled_wf |]; apply Hwf.
        -- intros t' Ha'. unfold updN. destruct (N.eqb_spec t t') as [-> | Hn]; [congruence |].
           apply Hun; exact Ha'.
        -- intros t' h' Ha'. unfold updN at 1. destruct (N.eqb_spec t t') as [-> | Hn].
           ++ assert (h' = h) by congruence. subst h'. exists inner'.
              rewrite updN_same. repeat split; auto.
              rewrite tok_set_disabled_prev by apply Hwf. exact Ew.
           ++ assert (Hne : h <> h').
              { intros ->. apply Hn. exact (Hex _ _ _ Ea Ha'). }
              rewrite updN_other by exact Hne. apply Hat; exact Ha'.
        -- exact Hex.
        -- intros h'. unfold updN. destruct (N.eqb_spec h h') as [-> | Hne]; [| apply Hfr].
           intros _. exists t. exact Ea.
  - (* TCheck *)
    inversion Hstep; subst. constructor; auto.
Qed.

Lemma treach_tinv s : treach s -> tinv s.
Proof.
  induction 1 as [| s op s' o Hr IH Hp Hok Hs]; [apply tinv_init |].
  eapply tinv_step; eauto.
Qed.

(* ---------- C21_not_in_fixpoint ---------- *)

Lemma dis_frame_owner s t h w :
  tinv s -> In (FDis h w) (t_frames s t) ->
  exists inner, t_att s t = Some h /\ t_frames s t = inner ++ [FDb true None]
                /\ In (FDis h w) inner /\ tok_prev_disabled (t_tok s h) = has_dis h inner.
Proof.
  intros [Hwf Hun Hat Hex Hfr] Hin.
  destruct (t_att s t) as [h0 |] eqn:Ea; [| rewrite (Hun t Ea) in Hin; contradiction].
  destruct (Hat t h0 Ea) as [inner [E1 [E2 [E3 E4]]]].
  rewrite E1 in Hin. apply in_app_or in Hin. destruct Hin as [Hin | [Hin | []]]; [| discriminate].
  rewrite Forall_forall in E2. destruct (E2 _ Hin) as [Hd | [w' Hd]]; [discriminate |].
  inversion Hd; subst h0 w'. exists inner. auto.
Qed.

Lemma no_local_while_disabled s h flag :
  treach s ->
  (exists t w, In (FDis h w) (t_frames s t)) ->
  check_outcome (t_tok s h) flag <> OLocal.
Proof.
  intros Hr [t [w Hin]]. pose proof (treach_tinv _ Hr) as Hi.
  destruct (dis_frame_owner _ _ _ _ Hi Hin) as [inner [Ea [E1 [Hin' E3]]]].
  rewrite (check_local_bits _ _ (ti_wf _ Hi h)). intros [_ Hd].
  rewrite E3 in Hd. exact (proj1 (has_dis_false_iff _ _) Hd w Hin').
Qed.

Lemma local_fires_when_enabled s h flag :
  treach s ->
  tok_is_cancelled (t_tok s h) = true ->
  (forall t w, ~ In (FDis h w) (t_frames s t)) ->
  check_outcome (t_tok s h) flag = OLocal.
Proof.
  intros Hr Hc Hno. pose proof (treach_tinv _ Hr) as Hi.
  apply (check_local_bits _ _ (ti_wf _ Hi h)). split; [exact Hc |].
  destruct Hi as [Hwf Hun Hat Hex Hfr].
  destruct (tok_prev_disabled (t_tok s h)) eqn:Ed; [| reflexivity].
  destruct (Hfr h Ed) as [t Ha]. destruct (Hat t h Ha) as [inner [E1 [E2 [E3 E4]]]].
  rewrite Ed in E3. symmetry in E3. unfold has_dis in E3. apply existsb_exists in E3.
  destruct E3 as [f [Hin Hd]]. destruct f as [a p | h' w]; cbn in Hd; [discriminate |].
  apply N.eqb_eq in Hd; subst h'. exfalso. apply (Hno t w). rewrite E1.
  apply in_or_app. left; exact Hin.
Qed.

(* a cancellation request is only ever consumed by the reset at the end of the outermost scope *)
Lemma cancel_request_persists s op s' o h :
  treach s -> tstep s op = Some (s', o) ->
  tok_is_cancelled (t_tok s h) = true ->
  o <> TReset (Some h) ->
  tok_is_cancelled (t_tok s' h) = true.
Proof.
  intros Hr Hstep Hc Hno. pose proof (treach_tinv _ Hr) as Hi. pose proof (ti_wf _ Hi) as Hwf.
  destruct op as [h0 | t h0 | t h0 | t h0 | t | h0 flag]; cbn in Hstep.
  - inversion Hstep; subst; cbn. unfold updN. destruct (N.eqb_spec h0 h) as [-> | Hn]; [| exact Hc].
    apply tok_cancel_is_cancelled. apply Hwf.
  - destruct (t_att s t) as [cur |]; [destruct (cur =? h0) |]; inversion Hstep; subst; exact Hc.
  - destruct (t_att s t) as [cur |]; [destruct (cur =? h0) |]; inversion Hstep; subst; exact Hc.
  - destruct (opt_eqb (t_att s t) (Some h0)); [| discriminate].
    inversion Hstep; subst; cbn. unfold updN. destruct (N.eqb_spec h0 h) as [-> | Hn]; [| exact Hc].
    rewrite tok_set_disabled_is_cancelled by apply Hwf. exact Hc.
  - destruct (t_frames s t) as [| f fs] eqn:Ef; [discriminate |].
    inversion Hstep as [Hd]; clear Hstep.
    destruct f as [[|] prev | h1 was]; cbn in Hd.
    + destruct (t_att s t) as [d |] eqn:Ea; inversion Hd; subst; cbn; [| exact Hc].
      unfold updN. destruct (N.eqb_spec d h) as [-> | Hn]; [| exact Hc].
      exfalso. apply Hno. reflexivity.
    + inversion Hd; subst; exact Hc.
    + inversion Hd; subst; cbn. unfold updN. destruct (N.eqb_spec h1 h) as [-> | Hn]; [| exact Hc].
      rewrite tok_set_disabled_is_cancelled by apply Hwf. exact Hc.
  - inversion Hstep; subst; exact Hc.
Qed.

(* ---------- C21_reset ---------- *)

(* the reset happens exactly when the outermost scope of the handle ends *)
Lemma reset_only_at_outermost s t s' o h :
  treach s -> tstep s (TPop t) = Some (s', o) ->
  (o = TReset (Some h) <-> (t_att s t = Some h /\ t_frames s t = [FDb true None])).
Proof.
  intros Hr Hstep. destruct (treach_tinv _ Hr) as [Hwf Hun Hat Hex Hfr].
  cbn in Hstep. destruct (t_frames s t) as [| f fs] eqn:Ef; [discriminate |].
  inversion Hstep as [Hd]; clear Hstep.
  destruct (t_att s t) as [h0 |] eqn:Ea; [| rewrite (Hun t Ea) in Ef; discriminate].
  destruct (Hat t h0 Ea) as [inner [E1 [E2 [E3 E4]]]]. rewrite Ef in E1.
  destruct inner as [| g inner'].
  - cbn in E1. inversion E1; subst f fs. cbn in Hd. rewrite Ea in Hd. inversion Hd; subst.
    split; [intros E; inversion E; subst; auto | intros [E _]; inversion E; subst; reflexivity].
  - cbn in E1. inversion E1; subst g fs. inversion E2 as [| ? ? Hg E2']; subst.
    assert (Hnil : inner' ++ [FDb true None] <> []) by (destruct inner'; discriminate).
    destruct Hg as [-> | [w ->]]; cbn in Hd; inversion Hd; subst;
      (split; [discriminate | intros [_ E]; inversion E; congruence]).
Qed.

Lemma reset_at_outermost s t h s' o :
  treach s -> t_att s t = Some h -> t_frames s t = [FDb true None] ->
  tstep s (TPop t) = Some (s', o) ->
  t_tok s' h = 0 /\ t_att s' t = None /\ t_frames s' t = [] /\ o = TReset (Some h).
Proof.
  intros Hr Ea Ef Hstep. cbn in Hstep. rewrite Ef in Hstep. cbn in Hstep. rewrite Ea in Hstep.
  inversion Hstep; subst; cbn. rewrite !updN_same. auto.
Qed.

(* unwinding (or returning through) every scope of the thread *)
Lemma tpops_inner t h : forall inner s,
  t_frames s t = inner ++ [FDb true None] ->
  Forall (inner_ok h) inner ->
  t_att s t = Some h ->
  let s' := tpops s t (length (inner ++ [FDb true None])) in
  t_tok s' h = 0 /\ t_att s' t = None /\ t_frames s' t = [].
Proof.
  induction inner as [| g inner IH]; intros s Ef Hin Ea.
  - cbn [app length tpops]. cbn in Ef. cbn [tstep]. rewrite Ef. cbn. rewrite Ea. cbn.
    rewrite !updN_same. auto.
  - inversion Hin as [| ? ? Hg Hin']; subst.
    cbn [app length tpops tstep]. rewrite Ef. cbn [app].
    destruct Hg as [-> | [w ->]].
    + cbn [drop_frame]. apply IH; cbn; auto. rewrite updN_same. reflexivity.
    + cbn [drop_frame]. apply IH; cbn; auto. rewrite updN_same. reflexivity.
Qed.

Lemma reset_after_unwind s t h :
  treach s -> t_att s t = Some h ->
  let s' := tunwind s t in
  t_tok s' h = 0 /\ t_att s' t = None /\ t_frames s' t = [].
Proof.
  intros Hr Ea. destruct (treach_tinv _ Hr) as [Hwf Hun Hat Hex Hfr].
  destruct (Hat t h Ea) as [inner [E1 [E2 [E3 E4]]]].
  unfold tunwind. rewrite E1. apply tpops_inner; auto.
Qed.

Lemma tpops_reach t : forall n s, treach s -> treach (tpops s t n).
Proof.
  induction n as [| n IH]; intros s Hr; cbn [tpops]; [exact Hr |].
  destruct (tstep s (TPop t)) as [[s' o] |] eqn:E; [| exact Hr].
  apply IH. eapply tr_step; eauto; cbn; auto.
Qed.

Lemma tunwind_reach s t : treach s -> treach (tunwind s t).
Proof. apply tpops_reach. Qed.

(* ---------- reachability of concrete runs (used by the Examples) ---------- *)

Fixpoint trun_ok (s : tstate) (ops : list top) : Prop :=
  match ops with
  | [] => True
  | op :: rest =>
      plain_op op = true /\ attach_ok s op /\
      match tstep s op with
      | Some (s', _) => trun_ok s' rest
      | None => False
      end
  end.

Lemma trun_reach : forall ops s s',
  treach s -> trun_ok s ops -> trun s ops = Some s' -> treach s'.
Proof.
  induction ops as [| op ops IH]; intros s s' Hr Hok Hrun; cbn in *.
  - inversion Hrun; subst; exact Hr.
  - destruct Hok as [Hp [Ha Hrest]].
    destruct (tstep s op) as [[s1 o] |] eqn:E; [| contradiction].
    eapply IH; [| exact Hrest | exact Hrun]. eapply tr_step; eauto.
Qed.

(* Cancel/Model.v — executable state machines for cancellation (definitions only).

   Mirrors (hand-transcribed; tied to the code by the `token`/`writer` shuttle profiles of
   /verif/harness-conc and the OCaml replayer /verif/ocaml/conc/replay.ml):
     src/zalsa.rs          Zalsa::unwind_if_revision_cancelled
     src/zalsa_local.rs    CancellationToken (through Cancel/TokK.v), ZalsaLocal::uncancel
     src/attach.rs         Attached::attach / attach_allow_change, DbGuard::new, DbGuard::drop
     src/function/execute.rs  DisableLocalCancellationGuard::{new,drop},
                              MemoHeader::previous_iteration, execute_maybe_iterate (seed part)
     src/function/fetch.rs    fetch_cold_cycle (the three cancellation_count comparisons)
     src/function/maybe_changed_after.rs  validate_may_be_provisional (count gate),
                              validate_same_iteration (revision gate)
     src/storage.rs        StorageHandle::clone, Storage::cancel_others, CoordinateDrop::drop,
                           CancellationFlagGuard::{new,drop}, field drop order of StorageHandle
     src/runtime.rs        set/reset/load_cancellation_flag, bump_cancellation_count, new_revision
     src/database.rs       synthetic_write / trigger_cancellation / trigger_lru_eviction (mutation kinds)

   Three machines:
     (i)   TOKEN    tstate / top / tstep      — per-handle token byte, per-thread guard stack
     (ii)  WRITER   wstate / wact / wstep     — handles, clones, Arc count, flag, count, revision
     (iii) STAMP    stamp_accepts and the three transcribed reuse sites
   All functions are total and computable; `None` = the action is not enabled in that state. *)
From Salsa Require Import Base.
(* SWAP POINT (one line): TokKGen = kernels translated from the Rust source (coq/gen/Kernels.v);
   TokK = the hand-transcribed stand-in with the same interface.  Every file of this layer gets
   the kernels through this export. *)
From Salsa.Cancel Require Export TokKGen.

(* ------------------------------------------------------------------------------------- *)
(* (0) unwind_if_revision_cancelled                                                       *)
(*     if zalsa_local.should_trigger_local_cancellation() { unwind_cancelled() }          *)
(*     if self.runtime().load_cancellation_flag()         { unwind_pending_write() }      *)
(*     The LOCAL token is tested first, the global flag second.                           *)
(* ------------------------------------------------------------------------------------- *)

Inductive outcome := OContinue | OLocal | OPendingWrite.

Definition check_outcome (tok : N) (flag : bool) : outcome :=
  if tok_should_trigger tok then OLocal
  else if flag then OPendingWrite
  else OContinue.

Definition outcome_code (o : outcome) : N :=
  match o with OContinue => 0 | OLocal => 1 | OPendingWrite => 2 end.

(* ------------------------------------------------------------------------------------- *)
(* (i) TOKEN machine                                                                      *)
(* ------------------------------------------------------------------------------------- *)

(* Guards live on the Rust call stack of a thread and are dropped innermost first, both on
   normal return and while unwinding.  One stack per thread, innermost frame first. *)
Inductive frame :=
| FDb (attached_here : bool) (prev : option N)
    (* attach.rs DbGuard { state: Some(_) iff attached_here, prev } ; `attach` always has prev = None *)
| FDis (h : N) (was : bool).
    (* execute.rs DisableLocalCancellationGuard { zalsa_local of handle h, was_disabled: was } *)

Record tstate := {
  t_tok : N -> N;               (* handle -> CancellationToken byte (Arc<AtomicU8>) *)
  t_att : N -> option N;        (* thread -> ATTACHED.database (which handle) *)
  t_frames : N -> list frame    (* thread -> guard stack *)
}.

Definition tinit : tstate :=
  {| t_tok := fun _ => 0; t_att := fun _ => None; t_frames := fun _ => [] |}.

Inductive top :=
| TCancel (h : N)             (* CancellationToken::cancel — any thread, any time *)
| TAttach (t h : N)           (* attach::attach(db, op) entry: DbGuard::new (every tracked fn call) *)
| TAttachAC (t h : N)         (* attach::attach_allow_change entry *)
| TDisable (t h : N)          (* DisableLocalCancellationGuard::new (execute, Fixpoint/FallbackImmediate) *)
| TPop (t : N)                (* Drop of the innermost guard of thread t (return or unwinding) *)
| TCheck (h : N) (flag : bool). (* unwind_if_revision_cancelled on handle h, global flag as read *)

Inductive tout :=
| TNone
| TOutcome (o : outcome)      (* result of a check *)
| TWas (b : bool)             (* value returned by set_cancellation_disabled *)
| TReset (h : option N)       (* DbGuard::drop: which handle was uncancel()ed, if any *)
| TPanic.                     (* "Cannot change database mid-query" *)

Definition set_tok (s : tstate) (h : N) (v : N) : tstate :=
  {| t_tok := updN (t_tok s) h v; t_att := t_att s; t_frames := t_frames s |}.
Definition set_att (s : tstate) (t : N) (a : option N) : tstate :=
  {| t_tok := t_tok s; t_att := updN (t_att s) t a; t_frames := t_frames s |}.
Definition set_frames (s : tstate) (t : N) (fs : list frame) : tstate :=
  {| t_tok := t_tok s; t_att := t_att s; t_frames := updN (t_frames s) t fs |}.
Definition push_frame (s : tstate) (t : N) (f : frame) : tstate :=
  set_frames s t (f :: t_frames s t).

Definition opt_eqb (a b : option N) : bool :=
  match a, b with
  | Some x, Some y => x =? y
  | None, None => true
  | _, _ => false
  end.

(* The effect of dropping one guard (the frame has already been removed from the stack). *)
Definition drop_frame (s : tstate) (t : N) (f : frame) : tstate * tout :=
  match f with
  | FDb false _ => (s, TReset None)
      (* `if let Some(attached) = self.state` fails: nothing happens *)
  | FDb true prev =>
      (* if let Some(prev_db) = attached.database.replace(self.prev) { prev_db.zalsa_local().uncancel() } *)
      let old := t_att s t in
      let s1 := set_att s t prev in
      match old with
      | Some d => (set_tok s1 d (tok_reset (t_tok s1 d)), TReset (Some d))
      | None => (s1, TReset None)
      end
  | FDis h was =>
      (* self.zalsa_local.set_cancellation_disabled(self.was_disabled) *)
      (set_tok s h (tok_set_disabled (t_tok s h) was), TWas (tok_prev_disabled (t_tok s h)))
  end.

Definition tstep (s : tstate) (op : top) : option (tstate * tout) :=
  match op with
  | TCancel h => Some (set_tok s h (tok_cancel (t_tok s h)), TNone)
  | TAttach t h =>
      match t_att s t with
      | Some cur =>
          if cur =? h then Some (push_frame s t (FDb false None), TNone)
          else Some (s, TPanic)
      | None => Some (push_frame (set_att s t (Some h)) t (FDb true None), TNone)
      end
  | TAttachAC t h =>
      (* match attached.database.replace(Some(db)) *)
      match t_att s t with
      | Some prev =>
          if prev =? h then Some (push_frame s t (FDb false None), TNone)
          else Some (push_frame (set_att s t (Some h)) t (FDb true (Some prev)), TNone)
      | None => Some (push_frame (set_att s t (Some h)) t (FDb true None), TNone)
      end
  | TDisable t h =>
      (* `execute` is only entered below the tracked function's own `attach` scope *)
      if opt_eqb (t_att s t) (Some h) then
        let was := tok_prev_disabled (t_tok s h) in
        Some (push_frame (set_tok s h (tok_set_disabled (t_tok s h) true)) t (FDis h was), TWas was)
      else None
  | TPop t =>
      match t_frames s t with
      | [] => None
      | f :: fs => Some (drop_frame (set_frames s t fs) t f)
      end
  | TCheck h flag => Some (s, TOutcome (check_outcome (t_tok s h) flag))
  end.

Fixpoint trun (s : tstate) (ops : list top) : option tstate :=
  match ops with
  | [] => Some s
  | op :: rest =>
      match tstep s op with
      | Some (s', _) => trun s' rest
      | None => None
      end
  end.

(* the same, collecting the outputs (used by the replayer) *)
Fixpoint trun_out (s : tstate) (ops : list top) : option (tstate * list tout) :=
  match ops with
  | [] => Some (s, [])
  | op :: rest =>
      match tstep s op with
      | Some (s', o) =>
          match trun_out s' rest with
          | Some (s'', os) => Some (s'', o :: os)
          | None => None
          end
      | None => None
      end
  end.

(* Unwinding of thread t up to the bottom of its stack (a `Cancelled::catch` at top level):
   every guard is dropped, innermost first — i.e. as many TPop steps as there are frames. *)
Fixpoint tpops (s : tstate) (t : N) (n : nat) : tstate :=
  match n with
  | O => s
  | S n' =>
      match tstep s (TPop t) with
      | Some (s', _) => tpops s' t n'
      | None => s
      end
  end.

Definition tunwind (s : tstate) (t : N) : tstate := tpops s t (length (t_frames s t)).

(* the discipline of generated code: tracked functions use `attach`, never `attach_allow_change` *)
Definition plain_op (op : top) : bool :=
  match op with TAttachAC _ _ => false | _ => true end.

(* `attach` of handle h on thread t while h is attached on another thread cannot be written in
   safe Rust (`Storage` is !Sync because of `ZalsaLocal`); the reachability predicate used by the
   theorems therefore only allows TAttach t h when no other thread has h attached.  The test is
   over an explicit finite list of thread names so that it stays computable. *)
Definition attached_elsewhere (s : tstate) (threads : list N) (t h : N) : bool :=
  existsb (fun t' => negb (t' =? t) && opt_eqb (t_att s t') (Some h)) threads.

(* which handle's token an operation may write *)
Definition op_handle (s : tstate) (op : top) : option N :=
  match op with
  | TCancel h => Some h
  | TAttach _ _ | TAttachAC _ _ => None
  | TDisable _ h => Some h
  | TCheck _ _ => None
  | TPop t =>
      match t_frames s t with
      | FDis h _ :: _ => Some h
      | FDb true _ :: _ => t_att s t
      | _ => None
      end
  end.

(* Reachable states of the token machine under the discipline of generated code (plain
   `attach` only) and of the type system (`Storage` is !Sync: a handle is never attached on two
   threads at once).  Any number of handles and threads, any interleaving. *)
Definition attach_ok (s : tstate) (op : top) : Prop :=
  match op with
  | TAttach t h => forall t', t' <> t -> t_att s t' <> Some h
  | _ => True
  end.

Inductive treach : tstate -> Prop :=
| tr_init : treach tinit
| tr_step s op s' o :
    treach s -> plain_op op = true -> attach_ok s op -> tstep s op = Some (s', o) -> treach s'.

Definition is_dis (h : N) (f : frame) : bool :=
  match f with FDis h' _ => h' =? h | _ => false end.

Definition has_dis (h : N) (fs : list frame) : bool := existsb (is_dis h) fs.

(* ------------------------------------------------------------------------------------- *)
(* (ii) WRITER / READER machine                                                           *)
(* ------------------------------------------------------------------------------------- *)

Definition epoch := (N * N)%type.      (* (current revision, cancellation count) *)

Inductive hst :=
| HIdle
| HRunning (e : epoch)     (* executing tracked functions; ghost: epoch at the start *)
| HUnwinding (e : epoch)   (* unwinding with Cancelled::*; guards (incl. PoisonProvisionalIfPanicking) still run *)
| HWFlag                   (* cancel_others: after CancellationFlagGuard::new (flag stored true) *)
| HWEvent                  (* after the DidSetCancellationFlag event callback returned *)
| HWWaited                 (* `while *clones != 1 { wait }` has exited; lock released *)
| HWCleared                (* CancellationFlagGuard dropped (flag stored false) *)
| HWMut                    (* Arc::get_mut succeeded, count bumped; holds &mut Zalsa *)
| HDropping.               (* Storage drop: zalsa_impl (Arc<Zalsa>) released, CoordinateDrop not yet run *)

Record handle := { h_id : N; h_st : hst; h_cloning : bool }.
   (* h_cloning: inside StorageHandle::clone between `*clones.lock() += 1` and `zalsa_impl.clone()` *)

Record wstate := {
  w_clones : N;             (* Coordinate.clones *)
  w_arc : N;                (* strong count of Arc<Zalsa> *)
  w_flag : bool;            (* Runtime.revision_cancelled *)
  w_count : N;              (* Runtime.cancellation_count (u8) *)
  w_rev : N;                (* Runtime.revisions[0] *)
  w_hs : list handle;       (* live handles *)
  w_next : N;               (* next fresh handle name *)
  w_stamps : list epoch     (* ghost: (verified_at, stamp count) of every provisional memo inserted so far *)
}.

Definition winit : wstate :=
  {| w_clones := 1; w_arc := 1; w_flag := false; w_count := 0; w_rev := 1;
     w_hs := [ {| h_id := 0; h_st := HIdle; h_cloning := false |} ]; w_next := 1;
     w_stamps := [] |}.

Definition w_epoch (s : wstate) : epoch := (w_rev s, w_count s).

Inductive wact :=
| ACloneBegin (h : N)       (* Clone: *self.coordinate.clones.lock() += 1 *)
| ACloneEnd (h : N)         (* Clone: zalsa_impl.clone(); the new handle exists *)
| AStart (h : N)            (* a tracked-function call begins on an idle handle *)
| ACheck (h : N) (tok : N)  (* unwind_if_revision_cancelled; tok = the handle's token byte *)
| AStamp (h : N)            (* a provisional memo is inserted (verified_at = rev, stamp count = count) *)
| AFinish (h : N)           (* outermost tracked-function call returns *)
| ACaught (h : N)           (* unwinding reached the top-level catch *)
| ADropArc (h : N)          (* Storage drop, field 1: Arc<Zalsa> *)
| ADropCoord (h : N)        (* Storage drop, field 2: CoordinateDrop: clones -= 1; notify_all *)
| AWSetFlag (h : N)         (* cancel_others: CancellationFlagGuard::new *)
| AWEvent (h : N)           (* cancel_others: event DidSetCancellationFlag *)
| AWWait (h : N)            (* cancel_others: loop exit, requires *clones == 1 *)
| AWClear (h : N)           (* cancel_others: guard drop: reset_cancellation_flag *)
| AWBump (h : N)            (* cancel_others: Arc::get_mut().unwrap(); bump_cancellation_count; overflow => new_revision *)
| AWMutate (h : N) (new_rev : bool).
    (* the caller's mutation through &mut Zalsa.  new_rev = true: set_field / synthetic_write
       (zalsa.new_revision()); false: trigger_cancellation / trigger_lru_eviction / set_lru_capacity *)

Inductive wout :=
| WNone
| WOutcome (o : outcome)
| WNew (id : N)
| WOverflow (b : bool)
| WEpoch (rev count : N).

Definition find_h (hs : list handle) (id : N) : option handle :=
  find (fun h => h_id h =? id) hs.

Definition upd_h (hs : list handle) (id : N) (f : handle -> handle) : list handle :=
  map (fun h => if h_id h =? id then f h else h) hs.

Definition del_h (hs : list handle) (id : N) : list handle :=
  filter (fun h => negb (h_id h =? id)) hs.

Definition set_st (st : hst) (h : handle) : handle :=
  {| h_id := h_id h; h_st := st; h_cloning := h_cloning h |}.
Definition set_cloning (b : bool) (h : handle) : handle :=
  {| h_id := h_id h; h_st := h_st h; h_cloning := b |}.

Definition with_hs (s : wstate) (hs : list handle) : wstate :=
  {| w_clones := w_clones s; w_arc := w_arc s; w_flag := w_flag s; w_count := w_count s;
     w_rev := w_rev s; w_hs := hs; w_next := w_next s; w_stamps := w_stamps s |}.

Definition st_of (s : wstate) (id : N) : option hst :=
  match find_h (w_hs s) id with
  | Some h => if h_cloning h then None else Some (h_st h)
  | None => None
  end.
  (* the status of a handle whose thread is not inside Clone::clone; every action but
     ACloneEnd is taken by such a handle *)

(* Runtime::new_revision: revisions[0] = next; cancellation_count = 0 *)
Definition new_revision (s : wstate) : wstate :=
  {| w_clones := w_clones s; w_arc := w_arc s; w_flag := w_flag s; w_count := 0;
     w_rev := w_rev s + 1; w_hs := w_hs s; w_next := w_next s; w_stamps := w_stamps s |}.

Definition wstep (s : wstate) (a : wact) : option (wstate * wout) :=
  match a with
  | ACloneBegin id =>
      match st_of s id with
      | Some HIdle | Some (HRunning _) =>
          Some ({| w_clones := w_clones s + 1; w_arc := w_arc s; w_flag := w_flag s;
                   w_count := w_count s; w_rev := w_rev s;
                   w_hs := upd_h (w_hs s) id (set_cloning true);
                   w_next := w_next s; w_stamps := w_stamps s |}, WNone)
      | _ => None
      end
  | ACloneEnd id =>
      match find_h (w_hs s) id with
      | Some h =>
          if h_cloning h then
            Some ({| w_clones := w_clones s; w_arc := w_arc s + 1; w_flag := w_flag s;
                     w_count := w_count s; w_rev := w_rev s;
                     w_hs := upd_h (w_hs s) id (set_cloning false)
                             ++ [ {| h_id := w_next s; h_st := HIdle; h_cloning := false |} ];
                     w_next := w_next s + 1; w_stamps := w_stamps s |}, WNew (w_next s))
          else None
      | None => None
      end
  | AStart id =>
      match st_of s id with
      | Some HIdle => Some (with_hs s (upd_h (w_hs s) id (set_st (HRunning (w_epoch s)))), WNone)
      | _ => None
      end
  | ACheck id tok =>
      match st_of s id with
      | Some (HRunning e) =>
          let o := check_outcome tok (w_flag s) in
          match o with
          | OContinue => Some (s, WOutcome o)
          | _ => Some (with_hs s (upd_h (w_hs s) id (set_st (HUnwinding e))), WOutcome o)
          end
      | _ => None
      end
  | AStamp id =>
      match st_of s id with
      | Some (HRunning _) | Some (HUnwinding _) =>
          Some ({| w_clones := w_clones s; w_arc := w_arc s; w_flag := w_flag s;
                   w_count := w_count s; w_rev := w_rev s; w_hs := w_hs s;
                   w_next := w_next s; w_stamps := w_epoch s :: w_stamps s |},
                WEpoch (w_rev s) (w_count s))
      | _ => None
      end
  | AFinish id =>
      match st_of s id with
      | Some (HRunning _) => Some (with_hs s (upd_h (w_hs s) id (set_st HIdle)), WNone)
      | _ => None
      end
  | ACaught id =>
      match st_of s id with
      | Some (HUnwinding _) => Some (with_hs s (upd_h (w_hs s) id (set_st HIdle)), WNone)
      | _ => None
      end
  | ADropArc id =>
      match st_of s id with
      | Some HIdle =>
          Some ({| w_clones := w_clones s; w_arc := w_arc s - 1; w_flag := w_flag s;
                   w_count := w_count s; w_rev := w_rev s;
                   w_hs := upd_h (w_hs s) id (set_st HDropping);
                   w_next := w_next s; w_stamps := w_stamps s |}, WNone)
      | _ => None
      end
  | ADropCoord id =>
      match st_of s id with
      | Some HDropping =>
          Some ({| w_clones := w_clones s - 1; w_arc := w_arc s; w_flag := w_flag s;
                   w_count := w_count s; w_rev := w_rev s;
                   w_hs := del_h (w_hs s) id;
                   w_next := w_next s; w_stamps := w_stamps s |}, WNone)
      | _ => None
      end
  | AWSetFlag id =>
      (* debug_assert: query stack empty, i.e. the handle is idle *)
      match st_of s id with
      | Some HIdle =>
          Some ({| w_clones := w_clones s; w_arc := w_arc s; w_flag := true;
                   w_count := w_count s; w_rev := w_rev s;
                   w_hs := upd_h (w_hs s) id (set_st HWFlag);
                   w_next := w_next s; w_stamps := w_stamps s |}, WNone)
      | _ => None
      end
  | AWEvent id =>
      match st_of s id with
      | Some HWFlag => Some (with_hs s (upd_h (w_hs s) id (set_st HWEvent)), WNone)
      | _ => None
      end
  | AWWait id =>
      match st_of s id with
      | Some HWEvent =>
          if w_clones s =? 1
          then Some (with_hs s (upd_h (w_hs s) id (set_st HWWaited)), WNone)
          else None
      | _ => None
      end
  | AWClear id =>
      match st_of s id with
      | Some HWWaited =>
          Some ({| w_clones := w_clones s; w_arc := w_arc s; w_flag := false;
                   w_count := w_count s; w_rev := w_rev s;
                   w_hs := upd_h (w_hs s) id (set_st HWCleared);
                   w_next := w_next s; w_stamps := w_stamps s |}, WNone)
      | _ => None
      end
  | AWBump id =>
      match st_of s id with
      | Some HWCleared =>
          let '(c, overflow) := bump_count (w_count s) in
          let s1 := {| w_clones := w_clones s; w_arc := w_arc s; w_flag := w_flag s;
                       w_count := c; w_rev := w_rev s;
                       w_hs := upd_h (w_hs s) id (set_st HWMut);
                       w_next := w_next s; w_stamps := w_stamps s |} in
          Some (if overflow then new_revision s1 else s1, WOverflow overflow)
      | _ => None
      end
  | AWMutate id new_rev =>
      match st_of s id with
      | Some HWMut =>
          let s1 := with_hs s (upd_h (w_hs s) id (set_st HIdle)) in
          let s2 := if new_rev then new_revision s1 else s1 in
          Some (s2, WEpoch (w_rev s2) (w_count s2))
      | _ => None
      end
  end.

Fixpoint wrun (s : wstate) (acts : list wact) : option wstate :=
  match acts with
  | [] => Some s
  | a :: rest =>
      match wstep s a with
      | Some (s', _) => wrun s' rest
      | None => None
      end
  end.

Fixpoint wrun_out (s : wstate) (acts : list wact) : option (wstate * list wout) :=
  match acts with
  | [] => Some (s, [])
  | a :: rest =>
      match wstep s a with
      | Some (s', o) =>
          match wrun_out s' rest with
          | Some (s'', os) => Some (s'', o :: os)
          | None => None
          end
      | None => None
      end
  end.

(* statuses of a writer that has passed the wait *)
Definition past_wait (st : hst) : bool :=
  match st with HWWaited | HWCleared | HWMut => true | _ => false end.

(* statuses of a writer between setting and clearing the flag *)
Definition flag_phase (st : hst) : bool :=
  match st with HWFlag | HWEvent | HWWaited => true | _ => false end.

Definition is_dropping (h : handle) : bool :=
  match h_st h with HDropping => true | _ => false end.

(* the measure of C20_progress: how far the handles other than `w` are from being gone *)
Definition st_weight (st : hst) : nat :=
  match st with
  | HRunning _ => 4
  | HUnwinding _ => 3
  | HDropping => 1
  | _ => 2
  end.

Definition h_weight (w : N) (h : handle) : nat :=
  if h_id h =? w then 0 else (st_weight (h_st h) + if h_cloning h then 3 else 0)%nat.
   (* a handle inside Clone::clone still has to create (and someone has to drop) one more handle *)

Fixpoint sumf (g : handle -> nat) (hs : list handle) : nat :=
  match hs with
  | [] => 0%nat
  | h :: rest => (g h + sumf g rest)%nat
  end.

Definition w_measure (w : N) (s : wstate) : nat := sumf (h_weight w) (w_hs s).

(* Reachable states: any number of handles, any interleaving of their atomic steps. *)
Inductive wreach : wstate -> Prop :=
| wr_init : wreach winit
| wr_step s a s' o : wreach s -> wstep s a = Some (s', o) -> wreach s'.

(* the steps by which handle h gets out of a pending writer's way *)
Definition draining (s : wstate) (a : wact) : option N :=
  match a with
  | ACheck h _ => if w_flag s then Some h else None
  | ACaught h | AFinish h | ADropArc h | ADropCoord h | ACloneEnd h => Some h
  | _ => None
  end.

(* ------------------------------------------------------------------------------------- *)
(* (iii) the provisional-memo stamp rule                                                  *)
(* ------------------------------------------------------------------------------------- *)

(* lexicographic order on epochs *)
Definition ep_lt (a b : epoch) : Prop :=
  fst a < fst b \/ (fst a = fst b /\ snd a < snd b).
Definition ep_le (a b : epoch) : Prop := a = b \/ ep_lt a b.

(* The common core of every same-epoch reuse site: a provisional memo created at
   (verified_at, stamp count) is taken as belonging to the running fixpoint computation only
   if both components equal the current ones. *)
Definition stamp_accepts (cur : epoch) (memo : epoch) : bool :=
  (fst memo =? fst cur) && (snd memo =? snd cur).

(* execute.rs, execute_maybe_iterate:
     if let Some(old_memo) = opt_old_memo && old_memo.header.verified_at.load() == current_revision {
        match old_memo.header.previous_iteration(key, cancellation_count, old_memo.value.is_some()) {
          Some(prev) => { if prev.reuse_as_provisional { last_provisional = Some(old_memo) }
                          iteration = prev.iteration }
          None => opt_old_memo = None } }
   MemoHeader::previous_iteration:
     if self.revisions.iteration().cancellation_count() != cancellation_count { return None }
     if !has_value { Cancelled::PropagatedPanic.throw() }
     Some(PreviousIteration { iteration, reuse_as_provisional: cycle_heads().contains(&key) }) *)
Inductive prev_iter :=
| PIOtherRevision                       (* guard false: old memo kept for backdating only, iteration = initial *)
| PIDiscard                             (* None: the old memo is not used at all *)
| PIPropagatedPanic
| PISeed (stamp : N) (reuse_as_provisional : bool).

Definition previous_iteration (cur_rev cur_count verified_at stamp : N)
           (has_value is_head : bool) : prev_iter :=
  if negb (verified_at =? cur_rev) then PIOtherRevision
  else if negb (stamp_count stamp =? cur_count) then PIDiscard
  else if negb has_value then PIPropagatedPanic
  else PISeed stamp is_head.

(* fetch.rs, fetch_cold_cycle (Fixpoint | FallbackImmediate arm), an existing memo:
     if value.is_none() && may_be_provisional && verified_at == current_revision
        && iteration.cancellation_count() == cancellation_count      { PropagatedPanic.throw() }
     if verified_at == current_revision && value.is_some()
        && iteration.cancellation_count() == cancellation_count
        && cycle_heads().contains(&key)                               { return memo }
     iteration = if verified_at == current_revision && value.is_some()
                    && iteration.cancellation_count() == cancellation_count
                 { memo iteration } else { IterationStamp::initial(cancellation_count) } *)
Inductive cold_cycle :=
| CCPropagatedPanic
| CCReuseProvisional                    (* the old provisional value is returned *)
| CCInitial (stamp : N).                (* a fresh initial memo with this stamp is inserted *)

Definition fetch_cold_cycle (cur_rev cur_count verified_at stamp : N)
           (has_value may_be_provisional is_head : bool) : cold_cycle :=
  if negb has_value && may_be_provisional && (verified_at =? cur_rev)
     && (stamp_count stamp =? cur_count)
  then CCPropagatedPanic
  else if (verified_at =? cur_rev) && has_value && (stamp_count stamp =? cur_count) && is_head
  then CCReuseProvisional
  else if (verified_at =? cur_rev) && has_value && (stamp_count stamp =? cur_count)
  then CCInitial stamp
  else CCInitial (stamp_new 0 cur_count).

(* maybe_changed_after.rs, validate_may_be_provisional, for a memo that may be provisional and
   has cycle heads:
     if iteration().cancellation_count() != runtime.cancellation_count() { return false }
     validate_provisional(..)         — needs every head Final with verified_at == memo's
     || validate_same_iteration(..)   — first test: memo_verified_at == current_revision
   `heads_final` / `same_iteration_rest` stand for the parts that belong to the Cycle layer. *)
Definition validate_may_be_provisional (cur_rev cur_count verified_at stamp : N)
           (heads_final same_iteration_rest : bool) : bool :=
  if negb (stamp_count stamp =? cur_count) then false
  else heads_final || ((verified_at =? cur_rev) && same_iteration_rest).

(* What would go wrong without the overflow => new_revision rule: a wrapping bump. *)
Definition bump_wrapping (c : N) : N := (c + 1) mod 256.

(* CCycle/Extract.v — extraction of the multi-handle certificates for the correspondence driver
   (ocaml/ccycle_driver.ml).  Only ExtrOcamlBasic; monolithic extraction into one file because
   Salsa.Core.Model and Salsa.CCycle.Model share their short module name.  Not part of
   _CoqProject (compiled by ocaml/build_ccycle.sh). *)
From Coq Require Import Extraction ExtrOcamlBasic.
From Salsa Require Import Base.
From Salsa.Core Require Model Spec Dsl.
From Salsa.Cycle Require Spec DslSpec.
From Salsa.CCycle Require Model.
Extraction Language OCaml.
Extraction "ccycle_model.ml"
  Salsa.CCycle.Model.mh_cert_fix Salsa.CCycle.Model.mh_cert_fb Salsa.CCycle.Model.mh_below
  Salsa.CCycle.Model.mh_results_eq Salsa.CCycle.Model.mh_sig
  Salsa.Cycle.Spec.kleene Salsa.Cycle.Spec.spec_fallback Salsa.Cycle.DslSpec.mono_table
  Salsa.Core.Dsl.prog_of.

(* CCycle/Model.v — cyclic programs read by SEVERAL handles (C18).  Definitions only.

   What is (and is not) modelled here.  The composition of the single-threaded cycle algorithm
   (Cycle/Model.v: heads, provisional memos, nested iteration) with the claim / wait / transfer
   protocol (Proto/Model.v) as one small-step machine is NOT written.  Instead this layer has

   * [mh_final] — what the correspondence harness reads off the real crate after a round in which
     2-3 handles entered a cyclic program at different members: the snapshot, the settled memos
     (value present, verified in the current revision, final or finalisable — read back through
     the public API without any execution) and the values the handles returned; and the
     decidable certificates [mh_cert_fix] / [mh_cert_fb] evaluated on every such state by
     ocaml/ccycle_driver.ml (extracted from here);
   * [seen] — an over-approximation of every value ANY handle can compute, store or return
     during fixpoint iteration under ANY interleaving, including stale reads: the closure of the
     initial value under "execute a body over values seen so far" and under the join of
     cycle_fn;
   * [cmi_*] — the abstract chaotic multi-handle iteration: a schedule is any list of picks
     (handle, node); a pick re-evaluates the node's body atomically over the shared provisional
     assignment.  For this machine termination and the result are PROVED for every schedule
     (CCycle/Proofs.v); it is the abstract algorithm, not a transcription of salsa's.
   * the protocol-level statements about ownership transfer are over Proto/Model.v itself
     (CCycle/ProtoProofs.v). *)
From Salsa Require Import Base.
From Salsa.Core Require Import Model Spec.
From Salsa.Cycle Require Import Spec.

(* ---------------------------------------------------------------- a multi-handle final state *)
Record mh_final := mkMh {
  mh_snap : snapshot;                       (* inputs of the revision the round ran in *)
  mh_sigma : qkey -> option val;            (* the settled memos of the final state *)
  mh_results : list (N * qkey * val)        (* (handle, key, value the handle's request returned) *)
}.

(* the settled assignment restricted to the listed nodes *)
Definition mh_sig (ns : list qkey) (st : mh_final) : qkey -> option val :=
  fun q => if mem q ns then mh_sigma st q else None.

(* every returned value is the value of a settled memo of the final state *)
Definition results_settled (ns : list qkey) (st : mh_final) : bool :=
  forallb (fun r => match mh_sig ns st (snd (fst r)) with
                    | Some v => v =? snd r
                    | None => false
                    end) (mh_results st).

(* C12 side: the settled memos satisfy their equations, and cover what was returned *)
Definition mh_cert_fix (prog : qkey -> body) (ns : list qkey) (st : mh_final) : bool :=
  cert_fix prog (mh_snap st) ns (mh_sig ns st) && results_settled ns st.

(* the values held lie below the least fixpoint (decidable because kleene is computable) *)
Definition mh_below (prog : qkey -> body) (ns : list qkey) (st : mh_final) : bool :=
  forallb (fun q => match mh_sig ns st q with
                    | Some v => le_bitsb v (kleene prog (mh_snap st) ns q)
                    | None => true
                    end) ns.

(* C13 side: settled memos of cyclic nodes hold the fallback, the others their body's value *)
Definition mh_cert_fb (prog : qkey -> body) (fb : qkey -> val) (ns : list qkey) (st : mh_final) : bool :=
  let cn := cyclic_nodes (succs prog (mh_snap st)) ns in
  cert_fallback prog (mh_snap st) fb (fun q => mem q cn) ns (mh_sig ns st) && results_settled ns st.

(* what the driver prints as `eq`: every returned value equals the specification *)
Definition mh_results_eq (spec : qkey -> val) (st : mh_final) : bool :=
  forallb (fun r => snd r =? spec (snd (fst r))) (mh_results st).

(* ---------------------------------------------------------------- values under any interleaving *)
(* Every value a handle can hold for node q while the inputs are those of [sn]:
   the initial value; the result of executing q's body over ANY combination of values seen so
   far for the callees (any interleaving, stale or fresh provisional memos of other handles);
   the join of two seen values (cycle_fn = last | new). *)
Inductive seen (prog : qkey -> body) (sn : snapshot) (ns : list qkey) : qkey -> val -> Prop :=
| seen_init q : seen prog sn ns q 0
| seen_exec q rho : In q ns -> (forall p, seen prog sn ns p (rho p)) -> seen prog sn ns q (F prog sn rho q)
| seen_join q v w : seen prog sn ns q v -> seen prog sn ns q w -> seen prog sn ns q (N.lor v w).

(* ---------------------------------------------------------------- abstract chaotic iteration *)
(* shared provisional assignment; a pick (handle, node) re-evaluates the node atomically *)
Definition pick := (N * qkey)%type.

Definition cmi_step (prog : qkey -> body) (sn : snapshot) (rho : qkey -> val) (p : pick) : qkey -> val :=
  upd rho (snd p) (F prog sn rho (snd p)).

Fixpoint cmi_run (prog : qkey -> body) (sn : snapshot) (l : list pick) (rho : qkey -> val) : qkey -> val :=
  match l with
  | [] => rho
  | p :: l' => cmi_run prog sn l' (cmi_step prog sn rho p)
  end.

Definition bottom : qkey -> val := fun _ => 0.

(* number of picks of a schedule that change the shared assignment *)
Fixpoint changes (prog : qkey -> body) (sn : snapshot) (l : list pick) (rho : qkey -> val) : nat :=
  match l with
  | [] => O
  | p :: l' =>
      ((if F prog sn rho (snd p) =? rho (snd p) then 0 else 1) + changes prog sn l' (cmi_step prog sn rho p))%nat
  end.

(* no pick of a listed node changes anything *)
Definition quiescent (prog : qkey -> body) (sn : snapshot) (ns : list qkey) (rho : qkey -> val) : bool :=
  forallb (fun q => F prog sn rho q =? rho q) ns.

(* a sweep gives every listed node (to some handle) at least once *)
Definition is_sweep (ns : list qkey) (l : list pick) : Prop :=
  (forall q, In q ns -> exists h, In (h, q) l) /\ (forall p, In p l -> In (snd p) ns).

(* ---------------------------------------------------------------- the shape of the full statement *)
(* A multi-handle machine: what a faithful composition of Cycle/Model.v with Proto/Model.v would
   have to provide for the full statement of C18 (Props/C18.v) to be about it.  [mm_step s h s']:
   handle h performs one atomic step. *)
Record mh_machine := mkMachine {
  mm_state : Type;
  mm_init : (qkey -> body) -> snapshot -> list (N * qkey) -> mm_state;   (* program, inputs, requests per handle *)
  mm_step : (qkey -> body) -> mm_state -> N -> mm_state -> Prop;
  mm_obs : mm_state -> mh_final
}.

Inductive mm_reach (M : mh_machine) (prog : qkey -> body) (s0 : mm_state M) : mm_state M -> Prop :=
| mmr_refl : mm_reach M prog s0 s0
| mmr_step s h s' : mm_reach M prog s0 s -> mm_step M prog s h s' -> mm_reach M prog s0 s'.

(* the abstract chaotic iteration as such a machine: a step of handle h re-evaluates one of the
   listed nodes and CHANGES the assignment (stuttering steps are not steps, so termination is
   meaningful); the observation reports the whole assignment as settled and no results *)
Definition cmi_machine (ns : list qkey) : mh_machine :=
  mkMachine (snapshot * (qkey -> val))%type
            (fun _ sn _ => (sn, bottom))
            (fun prog s h s' => exists q, In q ns /\ fst s' = fst s /\
                                          F prog (fst s) (snd s) q <> snd s q /\
                                          forall x, snd s' x = cmi_step prog (fst s) (snd s) (h, q) x)
            (fun s => mkMh (fst s) (fun q => Some (snd s q)) []).

(* "every schedule terminates, and every terminal state holds / has returned the single-threaded
   results" *)
Definition mh_full_statement (M : mh_machine) (ns : list qkey) : Prop :=
  forall (prog : qkey -> body) (sn : snapshot) (reqs : list (N * qkey)),
    monotone_prog prog sn -> fits8 prog sn ->
    let s0 := mm_init M prog sn reqs in
    (forall s, mm_reach M prog s0 s -> Acc (fun s2 s1 => exists h, mm_step M prog s1 h s2) s) /\
    (forall s, mm_reach M prog s0 s -> (forall h s', ~ mm_step M prog s h s') ->
       mh_snap (mm_obs M s) = sn /\
       (forall q v, In q ns -> mh_sigma (mm_obs M s) q = Some v -> v = kleene prog sn ns q) /\
       (forall h q v, In (h, q, v) (mh_results (mm_obs M s)) -> v = kleene prog sn ns q)).

(* CCycle/Proofs.v — values of cyclic programs read by several handles:
   * every value seen under any interleaving lies below the least fixpoint ([seen_below]);
   * a multi-handle final state that passes the certificate holds / has returned the
     single-threaded results ([mh_certified_values], [mh_certified_fb_values]), hence results are
     schedule independent ([mh_schedule_independent]);
   * the abstract chaotic multi-handle iteration terminates under every schedule that keeps
     sweeping, with the least fixpoint ([cmi_changes_bounded], [cmi_terminates_lfp]). *)
From Salsa Require Import Base.
From Salsa.Core Require Import Model Spec.
From Salsa.Cycle Require Import Spec SpecProofs FallbackProofs.
From Salsa.CCycle Require Import Model.

Lemma lor_le a b c : le_bits a c -> le_bits b c -> le_bits (N.lor a b) c.
Proof.
  intros Ha Hb. unfold le_bits. apply N.bits_inj. intros n.
  rewrite N.land_spec, N.lor_spec.
  assert (Ha' := le_bits_testbit a c n Ha). assert (Hb' := le_bits_testbit b c n Hb).
  destruct (N.testbit a n) eqn:Ea; destruct (N.testbit b n) eqn:Eb; cbn;
    try (rewrite (Ha' eq_refl)); try (rewrite (Hb' eq_refl)); reflexivity.
Qed.

Lemma le_bitsb_spec a b : le_bitsb a b = true <-> le_bits a b.
Proof. unfold le_bitsb, le_bits. apply N.eqb_eq. Qed.

Section Values.
Variable prog : qkey -> body.
Variable sn : snapshot.
Variable ns : list qkey.
Hypothesis Hmono : monotone_prog prog sn.
Hypothesis Hfits : fits8 prog sn.

Notation lfp := (kleene prog sn ns).

Lemma lfp_fix q : In q ns -> F prog sn lfp q = lfp q.
Proof. apply (kleene_is_fixpoint prog sn ns Hmono Hfits). Qed.

(* every value any handle can hold, under any interleaving, lies below the least fixpoint *)
Theorem seen_below : forall q v, seen prog sn ns q v -> le_bits v (lfp q).
Proof.
  induction 1 as [q | q rho Hq _ IH | q v w _ IHv _ IHw].
  - apply le_bits_0.
  - rewrite <- (lfp_fix q Hq). apply Hmono. intros p. apply IH.
  - now apply lor_le.
Qed.

End Values.

(* ---------------------------------------------------------------- certificates *)
Lemma mh_sig_dom ns st q v : mh_sig ns st q = Some v -> In q ns.
Proof. unfold mh_sig. destruct (mem q ns) eqn:E; [intros _; now apply mem_In | discriminate]. Qed.

Lemma results_settled_spec ns st :
  results_settled ns st = true ->
  forall h q v, In (h, q, v) (mh_results st) -> mh_sig ns st q = Some v.
Proof.
  unfold results_settled. rewrite forallb_forall. intros H h q v Hin.
  specialize (H _ Hin). cbn [fst snd] in H.
  destruct (mh_sig ns st q) as [v' |]; [| discriminate]. apply N.eqb_eq in H. now subst.
Qed.

Lemma mh_below_spec prog ns st :
  mh_below prog ns st = true ->
  forall q v, mh_sig ns st q = Some v -> le_bits v (kleene prog (mh_snap st) ns q).
Proof.
  unfold mh_below. rewrite forallb_forall. intros H q v Hs.
  specialize (H q (mh_sig_dom _ _ _ _ Hs)). rewrite Hs in H. now apply le_bitsb_spec.
Qed.

(* C12 for several handles: whatever the schedule was, if the final state of the round passes
   the certificate and holds values below the least fixpoint, every value a handle returned is
   the least fixpoint's — the single-threaded result *)
Theorem mh_certified_values : forall (prog : qkey -> body) (ns : list qkey) (st : mh_final),
  monotone_prog prog (mh_snap st) -> fits8 prog (mh_snap st) ->
  mh_cert_fix prog ns st = true ->
  (forall q v, mh_sig ns st q = Some v -> le_bits v (kleene prog (mh_snap st) ns q)) ->
  (forall q v, mh_sig ns st q = Some v -> v = kleene prog (mh_snap st) ns q) /\
  (forall h q v, In (h, q, v) (mh_results st) -> v = kleene prog (mh_snap st) ns q).
Proof.
  intros prog ns st Hm Hf Hc Hb. unfold mh_cert_fix in Hc. apply andb_true_iff in Hc as [Hc Hr].
  assert (A : forall q v, mh_sig ns st q = Some v -> v = kleene prog (mh_snap st) ns q).
  { intros q v Hs. apply (certified_fix prog (mh_snap st) ns Hm Hf (mh_sig ns st) Hc Hb q v); auto.
    eapply mh_sig_dom; eauto. }
  split; [exact A |]. intros h q v Hin. apply A. eapply results_settled_spec; eauto.
Qed.

(* the same with both side conditions decidable, as evaluated by the driver on every run *)
Corollary mh_certified_values_dec : forall (prog : qkey -> body) (ns : list qkey) (st : mh_final),
  monotone_prog prog (mh_snap st) -> fits8 prog (mh_snap st) ->
  mh_cert_fix prog ns st && mh_below prog ns st = true ->
  forall h q v, In (h, q, v) (mh_results st) -> v = kleene prog (mh_snap st) ns q.
Proof.
  intros prog ns st Hm Hf H. apply andb_true_iff in H as [Hc Hb].
  apply (mh_certified_values prog ns st Hm Hf Hc). now apply mh_below_spec.
Qed.

(* ... and with "below" discharged by the interleaving-independent closure [seen] *)
Corollary mh_certified_values_seen : forall (prog : qkey -> body) (ns : list qkey) (st : mh_final),
  monotone_prog prog (mh_snap st) -> fits8 prog (mh_snap st) ->
  mh_cert_fix prog ns st = true ->
  (forall q v, mh_sig ns st q = Some v -> seen prog (mh_snap st) ns q v) ->
  forall h q v, In (h, q, v) (mh_results st) -> v = kleene prog (mh_snap st) ns q.
Proof.
  intros prog ns st Hm Hf Hc Hs. apply (mh_certified_values prog ns st Hm Hf Hc).
  intros q v E. apply seen_below; auto.
Qed.

(* schedule independence: two rounds over the same inputs (any two schedules, any two sets of
   handles) whose final states pass the certificate returned the same value for the same key *)
Theorem mh_schedule_independent : forall (prog : qkey -> body) (ns : list qkey) (st1 st2 : mh_final),
  mh_snap st1 = mh_snap st2 ->
  monotone_prog prog (mh_snap st1) -> fits8 prog (mh_snap st1) ->
  mh_cert_fix prog ns st1 && mh_below prog ns st1 = true ->
  mh_cert_fix prog ns st2 && mh_below prog ns st2 = true ->
  forall h1 h2 q v1 v2, In (h1, q, v1) (mh_results st1) -> In (h2, q, v2) (mh_results st2) -> v1 = v2.
Proof.
  intros prog ns st1 st2 E Hm Hf H1 H2 h1 h2 q v1 v2 I1 I2.
  rewrite (mh_certified_values_dec prog ns st1 Hm Hf H1 h1 q v1 I1).
  rewrite E in Hm, Hf.
  rewrite (mh_certified_values_dec prog ns st2 Hm Hf H2 h2 q v2 I2). now rewrite E.
Qed.

(* C13 for several handles *)
Theorem mh_certified_fb_values : forall (prog : qkey -> body) (fb : qkey -> val) (ns : list qkey)
    (rank : qkey -> nat) (st : mh_final),
  input_determined prog (mh_snap st) ->
  let cyc := fun q => mem q (cyclic_nodes (succs prog (mh_snap st)) ns) in
  (forall q q', cyc q = false -> In q' (succs prog (mh_snap st) q) -> cyc q' = false -> (rank q' < rank q)%nat) ->
  (forall q, (rank q < length ns)%nat) ->
  mh_cert_fb prog fb ns st = true ->
  forall h q v, In (h, q, v) (mh_results st) -> v = spec_fallback prog (mh_snap st) fb ns q.
Proof.
  intros prog fb ns rank st Hdet cyc Hrank Hb Hc h q v Hin.
  unfold mh_cert_fb in Hc. apply andb_true_iff in Hc as [Hc Hr].
  apply (certified_fallback prog (mh_snap st) fb ns rank (mh_sig ns st) Hdet Hrank Hb Hc).
  - intros q0 v0. apply mh_sig_dom.
  - eapply results_settled_spec; eauto.
Qed.

(* ---------------------------------------------------------------- abstract chaotic iteration *)
Lemma sum_bottom (l : list qkey) : list_sum (map (fun q => bc (bottom q)) l) = 0%nat.
Proof.
  induction l as [| x l IH]; [reflexivity |].
  change ((bc 0%N + list_sum (map (fun q => bc (bottom q)) l))%nat = 0%nat). rewrite IH. reflexivity.
Qed.

Section Cmi.
Variable prog : qkey -> body.
Variable sn : snapshot.
Variable ns : list qkey.
Hypothesis Hmono : monotone_prog prog sn.
Hypothesis Hfits : fits8 prog sn.

Notation Fq := (F prog sn).
Notation lfp := (kleene prog sn ns).
Notation step := (cmi_step prog sn).
Notation run := (cmi_run prog sn).
Notation chg := (changes prog sn).

Definition picks_in (l : list pick) : Prop := forall p, In p l -> In (snd p) ns.

(* ascending, byte-valued, below the least fixpoint *)
Record cinv (rho : qkey -> val) : Prop := mkCinv {
  ci_asc : forall q, le_bits (rho q) (Fq rho q);
  ci_byte : forall q, rho q < 256;
  ci_below : forall q, le_bits (rho q) (lfp q)
}.

Lemma cinv_bottom : cinv bottom.
Proof. constructor; intros q; unfold bottom; [apply le_bits_0 | lia | apply le_bits_0]. Qed.

Lemma step_le rho p : cinv rho -> env_le rho (step rho p).
Proof.
  intros I x. unfold cmi_step, upd. destruct (key_eqb_spec (snd p) x) as [<- |]; [apply ci_asc; auto | apply le_bits_refl].
Qed.

Lemma step_cinv rho p : cinv rho -> In (snd p) ns -> cinv (step rho p).
Proof.
  intros I Hp. assert (Hle := step_le rho p I). constructor; intros q.
  - unfold cmi_step at 1, upd. destruct (key_eqb_spec (snd p) q) as [<- | Hne].
    + apply Hmono. exact Hle.
    + eapply le_bits_trans; [apply (ci_asc rho I) | apply Hmono; exact Hle].
  - unfold cmi_step, upd. destruct (key_eqb (snd p) q); [apply Hfits; apply (ci_byte rho I) | apply (ci_byte rho I)].
  - unfold cmi_step, upd. destruct (key_eqb_spec (snd p) q) as [<- | Hne]; [| apply (ci_below rho I)].
    rewrite <- (kleene_is_fixpoint prog sn ns Hmono Hfits (snd p) Hp). apply Hmono. intros x. apply (ci_below rho I).
Qed.

Lemma run_cinv : forall l rho, cinv rho -> picks_in l -> cinv (run l rho).
Proof.
  induction l as [| p l IH]; intros rho I Hp; cbn [cmi_run]; [exact I |].
  apply IH; [apply step_cinv; auto; apply Hp; now left | intros x Hx; apply Hp; now right].
Qed.

(* safety under every schedule: all values below the least fixpoint *)
Theorem cmi_below : forall l, picks_in l -> env_le (run l bottom) lfp.
Proof. intros l Hp q. apply (ci_below _ (run_cinv l bottom cinv_bottom Hp)). Qed.

(* ---- the measure *)
Definition wt (rho : qkey -> val) : nat := list_sum (map (fun q => bc (rho q)) ns).

Lemma wt_bound rho : (wt rho <= 8 * length ns)%nat.
Proof. unfold wt. apply list_sum_bound. intros q. apply bc_le8. Qed.

Lemma step_wt rho p : cinv rho -> In (snd p) ns ->
  (wt rho + (if Fq rho (snd p) =? rho (snd p) then 0 else 1) <= wt (step rho p))%nat.
Proof.
  intros I Hp. assert (Hle := step_le rho p I).
  destruct (N.eqb_spec (Fq rho (snd p)) (rho (snd p))) as [E | Hne].
  - assert (wt rho <= wt (step rho p))%nat; [| lia]. apply list_sum_le. intros q _. apply bc_le, Hle.
  - assert (wt rho < wt (step rho p))%nat; [| lia].
    apply list_sum_lt; [intros q _; apply bc_le, Hle |].
    exists (snd p). split; [exact Hp |]. apply bc_lt.
    + apply Hle.
    + apply (ci_byte rho I).
    + apply (ci_byte _ (step_cinv rho p I Hp)).
    + unfold cmi_step. rewrite upd_same. congruence.
Qed.

Lemma run_wt : forall l rho, cinv rho -> picks_in l -> (wt rho + chg l rho <= wt (run l rho))%nat.
Proof.
  induction l as [| p l IH]; intros rho I Hp; cbn [cmi_run changes]; [lia |].
  assert (Hin : In (snd p) ns) by (apply Hp; now left).
  assert (H1 := step_wt rho p I Hin).
  assert (H2 := IH (step rho p) (step_cinv rho p I Hin) (fun x Hx => Hp x (or_intror Hx))). lia.
Qed.

(* bounded progress under every schedule: at most height x nodes picks ever change anything *)
Theorem cmi_changes_bounded : forall l, picks_in l -> (chg l bottom <= 8 * length ns)%nat.
Proof.
  intros l Hp. assert (H := run_wt l bottom cinv_bottom Hp). assert (B := wt_bound (run l bottom)).
  assert (wt bottom = 0%nat) by apply sum_bottom. lia.
Qed.

(* ---- quiet sweeps *)
Lemma step_ext rho rho' p : (forall x, rho x = rho' x) -> forall x, step rho p x = step rho' p x.
Proof.
  intros E x. unfold cmi_step, upd. destruct (key_eqb (snd p) x); [apply F_ext; exact E | apply E].
Qed.

Lemma run_ext : forall l rho rho', (forall x, rho x = rho' x) -> forall x, run l rho x = run l rho' x.
Proof.
  induction l as [| p l IH]; intros rho rho' E x; cbn [cmi_run]; [apply E |].
  apply IH. now apply step_ext.
Qed.

Lemma chg_ext : forall l rho rho', (forall x, rho x = rho' x) -> chg l rho = chg l rho'.
Proof.
  induction l as [| p l IH]; intros rho rho' E; cbn [changes]; [reflexivity |].
  rewrite (F_ext prog sn rho rho' (snd p) E), (E (snd p)). f_equal. apply IH. now apply step_ext.
Qed.

Lemma step_quiet rho p : Fq rho (snd p) = rho (snd p) -> forall x, step rho p x = rho x.
Proof.
  intros E x. unfold cmi_step, upd. destruct (key_eqb_spec (snd p) x) as [<- |]; auto.
Qed.

Lemma chg_zero : forall l rho, chg l rho = 0%nat ->
  (forall p, In p l -> Fq rho (snd p) = rho (snd p)) /\ (forall x, run l rho x = rho x).
Proof.
  induction l as [| p l IH]; intros rho H; cbn [changes cmi_run] in *.
  - split; [intros p [] | reflexivity].
  - destruct (N.eqb_spec (Fq rho (snd p)) (rho (snd p))) as [E | Hne]; [| discriminate].
    cbn in H. assert (Q := step_quiet rho p E).
    rewrite (chg_ext l _ _ Q) in H. destruct (IH rho H) as [A B]. split.
    + intros p' [<- | Hin]; [exact E | now apply A].
    + intros x. rewrite (run_ext l _ _ Q). apply B.
Qed.

Lemma quiet_sweep l rho : is_sweep ns l -> chg l rho = 0%nat -> quiescent prog sn ns rho = true.
Proof.
  intros [Hall _] H. destruct (chg_zero l rho H) as [A _].
  unfold quiescent. apply forallb_forall. intros q Hq. destruct (Hall q Hq) as [h Hin].
  apply N.eqb_eq. exact (A _ Hin).
Qed.

Lemma run_app : forall l1 l2 rho, run (l1 ++ l2) rho = run l2 (run l1 rho).
Proof. induction l1 as [| p l1 IH]; intros l2 rho; cbn [app cmi_run]; [reflexivity | apply IH]. Qed.

Lemma chg_app : forall l1 l2 rho, chg (l1 ++ l2) rho = (chg l1 rho + chg l2 (run l1 rho))%nat.
Proof.
  induction l1 as [| p l1 IH]; intros l2 rho; cbn [app cmi_run changes]; [reflexivity |].
  rewrite IH. lia.
Qed.

(* pigeonhole: more sweeps than changing picks means some sweep changes nothing *)
Lemma find_quiet : forall (sweeps : list (list pick)) rho,
  (chg (concat sweeps) rho < length sweeps)%nat ->
  exists pre s post, sweeps = pre ++ s :: post /\ chg s (run (concat pre) rho) = 0%nat.
Proof.
  induction sweeps as [| s rest IH]; intros rho H; cbn [concat length] in H; [lia |].
  rewrite chg_app in H. destruct (chg s rho) as [| n] eqn:E.
  - exists [], s, rest. split; [reflexivity | exact E].
  - destruct (IH (run s rho)) as (pre & s' & post & -> & Hq); [lia |].
    exists (s :: pre), s', post. split; [reflexivity |]. cbn [concat]. now rewrite run_app.
Qed.

Lemma quiescent_lfp rho : cinv rho -> quiescent prog sn ns rho = true -> forall q, rho q = lfp q.
Proof.
  intros I Q. apply (chaotic prog sn ns Hmono rho).
  - intros p. apply (ci_below rho I).
  - intros q Hq. unfold quiescent in Q. rewrite forallb_forall in Q. apply N.eqb_eq. now apply Q.
Qed.

Lemma run_at_lfp : forall l rho, picks_in l -> (forall x, rho x = lfp x) -> forall x, run l rho x = lfp x.
Proof.
  induction l as [| p l IH]; intros rho Hp E x; cbn [cmi_run]; [apply E |].
  apply IH; [intros y Hy; apply Hp; now right |]. intros y.
  unfold cmi_step, upd. destruct (key_eqb_spec (snd p) y) as [<- | Hne]; [| apply E].
  rewrite (F_ext prog sn rho lfp (snd p) E).
  apply (kleene_is_fixpoint prog sn ns Hmono Hfits). apply Hp. now left.
Qed.

Lemma concat_picks (sweeps : list (list pick)) :
  (forall s, In s sweeps -> is_sweep ns s) -> picks_in (concat sweeps).
Proof.
  intros H p Hin. apply in_concat in Hin as (s & Hs & Hp). destruct (H s Hs) as [_ B]. now apply B.
Qed.

(* termination with the single-threaded result under every schedule: whatever the handles pick
   and in whatever order, once the schedule contains more than height x nodes sweeps the shared
   assignment IS the least fixpoint (and stays so) *)
Theorem cmi_terminates_lfp : forall sweeps : list (list pick),
  (forall s, In s sweeps -> is_sweep ns s) -> (8 * length ns < length sweeps)%nat ->
  (exists pre s post, sweeps = pre ++ s :: post /\
     quiescent prog sn ns (run (concat pre) bottom) = true) /\
  forall q, run (concat sweeps) bottom q = lfp q.
Proof.
  intros sweeps Hs Hlen.
  assert (Hp := concat_picks sweeps Hs).
  destruct (find_quiet sweeps bottom) as (pre & s & post & E & Hq).
  { assert (B := cmi_changes_bounded (concat sweeps) Hp). lia. }
  assert (Hpre : picks_in (concat pre)).
  { apply concat_picks. intros x Hx. apply Hs. rewrite E. apply in_or_app. now left. }
  assert (I := run_cinv (concat pre) bottom cinv_bottom Hpre).
  assert (Q : quiescent prog sn ns (run (concat pre) bottom) = true).
  { apply (quiet_sweep s); [apply Hs; rewrite E; apply in_or_app; right; now left | exact Hq]. }
  split; [exists pre, s, post; split; [exact E | exact Q] |].
  intros q. rewrite E, concat_app, run_app. apply run_at_lfp.
  - apply concat_picks. intros x Hx. apply Hs. rewrite E. apply in_or_app. now right.
  - apply quiescent_lfp; auto.
Qed.

(* ---- the machine form: the full statement holds for the abstract chaotic iteration *)
Lemma cinv_ext rho rho' : (forall x, rho x = rho' x) -> cinv rho -> cinv rho'.
Proof.
  intros E [A B C]. constructor; intros q.
  - rewrite <- (E q), <- (F_ext prog sn rho rho' q E). apply A.
  - rewrite <- (E q). apply B.
  - rewrite <- (E q). apply C.
Qed.

Lemma wt_ext rho rho' : (forall x, rho x = rho' x) -> wt rho = wt rho'.
Proof. intros E. unfold wt. f_equal. apply map_ext. intros q. now rewrite E. Qed.

Lemma cmi_reach_inv reqs s :
  mm_reach (cmi_machine ns) prog (mm_init (cmi_machine ns) prog sn reqs) s -> fst s = sn /\ cinv (snd s).
Proof.
  induction 1 as [| s h s' _ [Es I] (q & Hq & E1 & Hne & E2)].
  - cbn. split; [reflexivity | apply cinv_bottom].
  - split; [congruence |]. rewrite Es in E2.
    apply (cinv_ext (step (snd s) (h, q))); [intros x; symmetry; apply E2 | now apply step_cinv].
Qed.

Lemma cmi_acc : forall n s, fst s = sn -> cinv (snd s) -> (8 * length ns - wt (snd s) < n)%nat ->
  Acc (fun s2 s1 => exists h, mm_step (cmi_machine ns) prog s1 h s2) s.
Proof.
  induction n as [| n IH]; intros s Es I Hn; [lia |]. constructor.
  intros s' (h & q & Hq & E1 & Hne & E2). rewrite Es in E2, Hne.
  assert (I' : cinv (snd s')).
  { apply (cinv_ext (step (snd s) (h, q))); [intros x; symmetry; apply E2 | now apply step_cinv]. }
  apply IH; [congruence | exact I' |].
  assert (W := step_wt (snd s) (h, q) I Hq). cbn [snd] in W.
  destruct (N.eqb_spec (Fq (snd s) q) (snd s q)) as [E | _]; [contradiction |].
  rewrite (wt_ext (snd s') (step (snd s) (h, q)) E2).
  assert (B := wt_bound (step (snd s) (h, q))). lia.
Qed.

Lemma cmi_terminal s : fst s = sn -> cinv (snd s) ->
  (forall h s', ~ mm_step (cmi_machine ns) prog s h s') -> forall q, snd s q = lfp q.
Proof.
  intros Es I Hno. apply quiescent_lfp; [exact I |].
  unfold quiescent. apply forallb_forall. intros q Hq. apply N.eqb_eq.
  destruct (N.eq_dec (Fq (snd s) q) (snd s q)) as [E | Hne]; [exact E |]. exfalso.
  apply (Hno 0 (fst s, step (snd s) (0, q))). exists q. cbn [fst snd]. rewrite Es.
  repeat split; auto.
Qed.

End Cmi.

Theorem cmi_full : forall ns, mh_full_statement (cmi_machine ns) ns.
Proof.
  intros ns prog sn reqs Hm Hf s0. split.
  - intros s HR. destruct (cmi_reach_inv prog sn ns Hm Hf reqs s HR) as [Es I].
    apply (cmi_acc prog sn ns Hm Hf (S (8 * length ns - wt ns (snd s)))); auto.
  - intros s HR Hno. destruct (cmi_reach_inv prog sn ns Hm Hf reqs s HR) as [Es I].
    cbn [mm_obs cmi_machine mh_snap mh_sigma mh_results]. split; [exact Es |]. split.
    + intros q v _ [= <-]. now apply (cmi_terminal prog sn ns Hm s).
    + intros h q v [].
Qed.

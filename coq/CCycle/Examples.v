(* CCycle/Examples.v — concrete witnesses (vm_compute only here):
   * [ex_nested]: three handles enter a nested cycle a -> b -> c -> {b, a} at a (thread 1),
     c (thread 2) and b (thread 3); ownership of b moves to thread 2 (b is a participant of the
     cycle headed by c), then ownership of c — and with it of b — moves to thread 1 (c is a
     participant of the cycle headed by a); thread 1 iterates, completes and releases a: both
     waiting threads are woken with Completed and nothing is left in the graph.  The operations
     are those of an H2 trace recorded from the real crate (harness-par/cyc_par, case n1 of
     checks/notes/C18.txt) with threads 0,1,2 renamed 1,2,3 and keys 5.0.0/5.1.0/5.2.0 renamed
     10/11/12;
   * a two-node fixpoint read by two handles: the certificate, `below`, and the abstract
     chaotic iteration. *)
From Salsa Require Import Base.
From Salsa.Core Require Import Model Spec.
From Salsa.Cycle Require Import Spec SpecProofs.
From Salsa.Cycle Require Examples.
From Salsa.Proto Require Import Model ProofsGraph ProofsList ProofsInv ProofsTransfer ProofsWake
  ProofsStep.
From Salsa.CCycle Require Import Model Proofs.

Definition ex_nested : list op :=
  [ OClaim 1 10 true;               (* t1 claims a (outer head) *)
    OClaim 2 12 true;               (* t2 claims c *)
    OClaim 3 11 true;               (* t3 claims b *)
    OClaim 1 11 true;               (* t1: a calls b — Running(t3) *)
    OBlockOn 1 11 3;
    OClaim 2 11 true;               (* t2: c calls b — Running(t3) *)
    OBlockOn 2 11 3;
    OClaim 3 12 true;               (* t3: b calls c — t2 waits for t3: Cycle *)
    OMarkTarget 3 12;               (* b completes as a participant of c's cycle *)
    OTransfer 3 11 12 (OThread 2);  (* b -> c: wakes t2, re-points t1's edge to t2, t3 waits for c@t2 *)
    OReceive 2;
    OClaim 2 11 true;               (* t2 re-enters b, which it owns now: claimed_twice *)
    OReleaseSelf 2 11;
    OClaim 2 10 true;               (* t2: c calls a — t1 waits for t2: Cycle *)
    OMarkTarget 2 10;               (* c completes as a participant of a's cycle *)
    OTransfer 2 12 10 (OThread 1);  (* c -> a (b follows): wakes t1, re-points t3's edge to t1, t2 waits for a@t1 *)
    OReceive 1;
    OClaim 1 11 true;               (* t1 iterates: b (b -> c -> a resolves to t1) *)
    OReleaseSelf 1 11;
    OClaim 1 12 true;               (* ... and c *)
    OReleaseSelf 1 12;
    ORemove 1 10;                   (* a converged: release *)
    OUnblock 1 10 Completed;        (* wakes t2 *)
    OUnblockTransferred 1 10 Completed;   (* releases c and b, wakes t3 *)
    OReceive 2;
    OReceive 3 ].

Example ex_nested_outcomes :
  option_map snd
    (match run_out 20 ex_nested init with ROk r => Some r | RErr _ => None end) =
  Some [ XClaim (CClaimed MDefault); XClaim (CClaimed MDefault); XClaim (CClaimed MDefault);
         XClaim (CRunning 3); XBlock BBlocked;
         XClaim (CRunning 3); XBlock BBlocked;
         XClaim (CCycle false);
         XMarked (Some (OThread 2));
         XTransfer true;
         XReceive (Some Completed);
         XClaim (CClaimed MSelfOnly); XSelfKept;
         XClaim (CCycle false);
         XMarked (Some (OThread 1));
         XTransfer true;
         XReceive (Some Completed);
         XClaim (CClaimed MSelfOnly); XSelfKept;
         XClaim (CClaimed MSelfOnly); XSelfKept;
         XRemoved (mkSync (OThread 1) true true false);
         XUnit; XUnit;
         XReceive (Some Completed); XReceive (Some Completed) ].
Proof. vm_compute. reflexivity. Qed.

Example ex_nested_valid : valid_client 20 ex_nested.
Proof. apply validb_valid. vm_compute. reflexivity. Qed.

(* after the second transfer: t2 waits for a (owned by t1), t3's edge was re-pointed to t1, t1
   runs; b and c are both (transitively) transferred to a *)
Definition ex_nested_mid : state :=
  match run 20 (firstn 16 ex_nested) init with ROk s => s | RErr _ => init end.

Example ex_nested_mid_reachable : reachable 20 ex_nested_mid.
Proof.
  eapply valid_from_reachable with (l := firstn 16 ex_nested) (s := init).
  - constructor.
  - apply validb_valid. vm_compute. reflexivity.
  - vm_compute. reflexivity.
Qed.

Example ex_nested_mid_state :
  (edges (dg ex_nested_mid) 1, edges (dg ex_nested_mid) 2, edges (dg ex_nested_mid) 3,
   wres (dg ex_nested_mid) 1,
   transferred (dg ex_nested_mid) 11, transferred (dg ex_nested_mid) 12,
   transferred (dg ex_nested_mid) 10) =
  (None, Some (1, 10), Some (1, 12), Some Completed, Some (2, 12), Some (1, 10), None).
Proof. vm_compute. reflexivity. Qed.

(* everybody runs again at the end, nothing is left *)
Example ex_nested_final :
  match run 20 ex_nested init with
  | ROk s => (edges (dg s) 1, edges (dg s) 2, edges (dg s) 3,
              wres (dg s) 1, wres (dg s) 2, wres (dg s) 3,
              transferred (dg s) 11, transferred (dg s) 12, tdeps (dg s) 10, sync s 10,
              map fst (notified (dg s)))
  | RErr _ => (None, None, None, None, None, None, None, None, None, None, [])
  end = (None, None, None, None, None, None, None, None, None, None, [3; 2; 1; 2]).
Proof. vm_compute. reflexivity. Qed.

(* ---------------------------------------------------------------- values *)
(* the two-node fixpoint of Cycle/Examples.v ( x0 = in | x1, x1 = 2 | (x0 & 6), in = 5 ) read by
   two handles: handle 0 asked for x0, handle 1 for x1 *)
Definition ex_snap : snapshot := {| sn_in := Cycle.Examples.ex12_iv; sn_cell := fun _ => 0 |}.
Definition ex_mh : mh_final :=
  mkMh ex_snap
       (fun q => if key_eqb q (1, 0) then Some 7 else if key_eqb q (1, 1) then Some 6 else None)
       [(0, (1, 0), 7); (1, (1, 1), 6)].

Example ex_mh_certified :
  mh_cert_fix Cycle.Examples.ex12_prog Cycle.Examples.ex12_ns ex_mh &&
  mh_below Cycle.Examples.ex12_prog Cycle.Examples.ex12_ns ex_mh = true.
Proof. vm_compute. reflexivity. Qed.

(* what a leaked provisional value produces: with the input lowered from 5 to 1 the OLD values
   x0 = 7, x1 = 6 still satisfy the NEW equations (7 = 1 | 6, 6 = 2 | (7 & 6)) — a non-least
   fixpoint: the equations conjunct of the certificate holds, `below` rejects it (lfp: 3, 2) *)
Definition ex_snap_low : snapshot :=
  {| sn_in := fun i => if key_eqb i (0, 0) then 1 else 0; sn_cell := fun _ => 0 |}.
Example ex_mh_stale_rejected :
  let st := mkMh ex_snap_low (mh_sigma ex_mh) (mh_results ex_mh) in
  mh_cert_fix Cycle.Examples.ex12_prog Cycle.Examples.ex12_ns st = true /\
  mh_below Cycle.Examples.ex12_prog Cycle.Examples.ex12_ns st = false /\
  kleene Cycle.Examples.ex12_prog ex_snap_low Cycle.Examples.ex12_ns (1, 0) = 3.
Proof. vm_compute. repeat split; reflexivity. Qed.

(* the abstract chaotic iteration: two handles picking in opposite orders *)
Example ex_cmi :
  let l := [(0, (1, 0)); (1, (1, 1)); (1, (1, 0)); (0, (1, 1)); (0, (1, 0)); (1, (1, 1))] in
  (cmi_run Cycle.Examples.ex12_prog ex_snap l bottom (1, 0),
   cmi_run Cycle.Examples.ex12_prog ex_snap l bottom (1, 1),
   quiescent Cycle.Examples.ex12_prog ex_snap Cycle.Examples.ex12_ns
             (cmi_run Cycle.Examples.ex12_prog ex_snap l bottom),
   changes Cycle.Examples.ex12_prog ex_snap l bottom) = (7, 6, true, 3%nat).
Proof. vm_compute. reflexivity. Qed.

(* CCycle/ProtoProofs.v — the ownership-transfer scenario of cross-thread cycles, over
   Proto/Model.v, for ALL reachable protocol states:
   * [transfer_progress]: an inner cycle head (thread B) handing its lock to the outer head's
     query keeps the protocol invariants, leaves the wait graph grounded in a running thread,
     wakes exactly the new owner's thread(s) with Completed and makes B wait for the new owner
     (or keeps it running);
   * [outer_release_wakes_nested]: when the owner of the outer head releases it, every thread
     waiting for the head AND every thread waiting for any query whose ownership was
     (transitively) transferred to it is woken with the release result, and those queries are
     cleared;
   * [claim_never_waits_into_cycle] / [transferred_claim_resolves]: a claim is answered
     "wait for thread o" only if o does not (transitively) wait for the claimant, and for a
     transferred query o is the RESOLVED owner. *)
From Salsa Require Import Base.
From Salsa.Proto Require Import Model ProofsGraph ProofsList ProofsInv ProofsTransfer ProofsWake
  ProofsSubtree ProofsStep.

Theorem transfer_progress fuel s t k n id s' b :
  reachable fuel s -> pre s (OTransfer t k n id) ->
  step fuel s (OTransfer t k n id) = ROk (s', XTransfer b) ->
  reachable fuel s' /\
  (forall x, exists r, reaches (eproj (dg s')) x r /\ edges (dg s') r = None) /\
  exists W, NoDup W /\ ~ In t W /\
    (forall d, In d W -> edges (dg s) d <> None /\ edges (dg s') d = None /\
                         wres (dg s') d = Some Completed) /\
    (forall d, ~ In d W -> d <> t ->
               wait_key (dg s') d = wait_key (dg s) d /\ wres (dg s') d = wres (dg s) d) /\
    (if b then wait_key (dg s') t = Some n else edges (dg s') t = None) /\
    wres (dg s') t = None.
Proof.
  intros HR Hp H.
  assert (HR' : reachable fuel s') by (eapply reach_step; eauto).
  split; [exact HR' |]. split; [apply (no_wait_cycle fuel s' HR') |].
  cbn [step] in H. apply bind_ok in H as ([s1 b1] & H1 & H). injection H as <- <-.
  unfold transfer in H1. destruct (sync s k) as [st |]; [| discriminate].
  apply bind_ok in H1 as ([g1 b2] & H1 & H2). injection H2 as <- <-.
  cbn [dg set_dg set_sync fst snd] in *.
  destruct Hp as (Ec & Wc & _).
  apply transfer_lock_wake in H1 as (W & g2 & HW & [[-> ->] | [-> HB]]).
  - destruct HW as (ND & _ & A & B). exists W. split; [exact ND |].
    assert (HnW : ~ In t W) by (intros Hin; destruct (A _ Hin) as (E & _); auto).
    split; [exact HnW |]. split; [exact A |]. split; [intros d Hd _; now apply B |].
    destruct (B _ HnW) as [K Wr]. split.
    + apply wait_key_none. rewrite K. now apply wait_key_none.
    + congruence.
  - destruct HW as (ND & _ & A & B). destruct HB as (E0 & [u E1] & Eo & Wr & _).
    exists W. split; [exact ND |].
    assert (HnW : ~ In t W) by (intros Hin; destruct (A _ Hin) as (E & _); auto).
    split; [exact HnW |]. split.
    { intros d Hd. destruct (A _ Hd) as (Ea & Eb & Wd). split; [exact Ea |].
      assert (d <> t) by (intros ->; auto). split; [now rewrite Eo | now rewrite Wr]. }
    split.
    { intros d Hd Hne. destruct (B _ Hd) as [K Wd]. split; [| now rewrite Wr].
      unfold wait_key in *. now rewrite Eo. }
    split; [unfold wait_key; now rewrite E1 |].
    destruct (B _ HnW) as [_ Wt]. rewrite Wr. congruence.
Qed.

Theorem outer_release_wakes_nested fuel s a kout r s1 o1 s2 o2 :
  reachable fuel s ->
  step fuel s (OUnblock a kout r) = ROk (s1, o1) ->
  step fuel s1 (OUnblockTransferred a kout r) = ROk (s2, o2) ->
  reachable fuel s2 /\
  (forall d u, edges (dg s) d = Some (u, kout) ->
               edges (dg s2) d = None /\ wres (dg s2) d = Some r) /\
  (forall x, x <> kout -> reaches (tproj (dg s)) x kout ->
     cleared (dg s2) x /\
     forall d u, edges (dg s) d = Some (u, x) ->
                 edges (dg s2) d = None /\ wres (dg s2) d = Some r) /\
  transferred (dg s2) kout = None.
Proof.
  intros HR H1 H2.
  assert (HR1 : reachable fuel s1) by (apply (reach_step fuel s (OUnblock a kout r) s1 o1 HR I H1)).
  assert (HR2 : reachable fuel s2) by (apply (reach_step fuel s1 (OUnblockTransferred a kout r) s2 o2 HR1 I H2)).
  destruct (release_wakes_all fuel s a kout r s1 o1 HR H1) as (_ & A1 & B1).
  destruct (release_target_wakes_all fuel s1 a kout r s2 o2 HR1 H2) as (T2 & _ & C2).
  assert (ST : transferred (dg s1) = transferred (dg s)).
  { cbn [step] in H1. apply bind_ok in H1 as (g1 & Hg & H1). injection H1 as <- _. cbn [dg set_dg].
    now apply unblock_on_same_T in Hg as [-> _]. }
  split; [exact HR2 |]. split; [| split; [| exact T2]].
  - intros d u Ed. destruct (A1 d (ex_intro _ u Ed)) as [E1 W1].
    destruct (woken_exactly_once fuel s1 (OUnblockTransferred a kout r) s2 o2 HR1 I H2) as (W & _ & _ & TS).
    destruct (TS d) as [_ K Wr | k _ _ _ _ _ Ho | _ Hne _ _ _ | r0 _ _ _ _ _ Ho _].
    + split; [| congruence]. apply wait_key_none. rewrite K. now apply wait_key_none.
    + destruct Ho as [(other & Ho & _) | (q & id & Ho & _)]; discriminate.
    + contradiction.
    + discriminate.
  - intros x Hx Hr. assert (Hr1 : reaches (tproj (dg s1)) x kout).
    { eapply reaches_ext; [| exact Hr]. intros z. unfold tproj. now rewrite ST. }
    destruct (C2 x Hx Hr1) as [Cl Wk]. split; [exact Cl |].
    intros d u Ed.
    assert (Hnk : forall u', edges (dg s) d <> Some (u', kout)) by (intros u' E'; congruence).
    destruct (B1 d Hnk) as [K _]. unfold wait_key in K. rewrite Ed in K. cbn in K.
    destruct (edges (dg s1) d) as [[u' x'] |] eqn:E1; [| discriminate].
    cbn in K. injection K as ->. eapply Wk; eauto.
Qed.

Theorem claim_never_waits_into_cycle fuel s t k allow s' other :
  reachable fuel s ->
  step fuel s (OClaim t k allow) = ROk (s', XClaim (CRunning other)) ->
  other <> t /\ ~ reaches (eproj (dg s)) other t /\ dg s' = dg s.
Proof.
  intros HR H. destruct (cycle_reported fuel s HR) as [_ C].
  destruct (C (OClaim t k allow) t k allow s' (CRunning other) (or_introl eq_refl) H) as [E [A B]].
  auto.
Qed.

(* for a transferred query the thread a claimant is told to wait for is the resolved owner *)
Theorem transferred_claim_resolves fuel s t k allow s' other st :
  sync s k = Some st -> ss_id st = OTransferred ->
  step fuel s (OClaim t k allow) = ROk (s', XClaim (CRunning other)) ->
  thread_id_of_transferred_query fuel (dg s) k None = ROk (Some other).
Proof.
  intros Es Ei H. cbn [step] in H. apply bind_ok in H as ([s1 r] & H1 & H). injection H as _ ->.
  unfold try_claim in H1. rewrite Es, Ei in H1.
  apply bind_ok in H1 as (bt & Hbt & H1).
  unfold block_transferred in Hbt. apply bind_ok in Hbt as (o & Ho & Hbt). rewrite Ho.
  destruct o as [owner |].
  - apply bind_ok in Hbt as (b & _ & Hbt).
    destruct ((owner =? t) || b); injection Hbt as <-.
    + destruct allow; [destruct (ss_twice st); [discriminate | discriminate] | discriminate].
    + apply bind_ok in H1 as (r0 & Hr & H1). injection H1 as _ ->.
      unfold runtime_block in Hr. destruct (t =? owner); [discriminate |].
      apply bind_ok in Hr as (b' & _ & Hr). destruct b'; [discriminate |]. now injection Hr as ->.
  - injection Hbt as <-. discriminate.
Qed.

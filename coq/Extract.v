(* Extract.v — extraction of the executable models for the correspondence drivers.
   Only ExtrOcamlBasic is used: bool, option, unit, list, prod, sumbool map to OCaml's;
   N / positive / nat stay the extracted inductive types. No Extract Constant. *)
From Coq Require Import Extraction ExtrOcamlBasic.
From Salsa Require Import Base.
From Salsa.Kern Require Import CoreK.
From Salsa.Core Require Import Model Spec Dsl.
Extraction Language OCaml.
Separate Extraction
  Model.step Model.run_ops Model.init Model.level Model.fetch
  Spec.eval Spec.evalo Spec.snap_of Dsl.prog_of Dsl.binop_eval Base.panic_code
  Model.lru_set_capacity N.of_nat N.to_nat Nat.add.

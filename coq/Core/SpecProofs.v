(* Core/SpecProofs.v — semantic lemmas about bodies and from-scratch evaluation. *)
From Salsa Require Import Base.
From Salsa.Core Require Import Model Spec.

(* what a read returns under an environment *)
Definition answer (e : env) (r : rd) : val :=
  match r with
  | RIn i => e_in e i
  | RQ q => e_q e q
  | RCell c => e_cell e c
  | RTouch => 0
  end.

Definition agree_on (e e' : env) (l : list rd) : Prop :=
  forall r, In r l -> answer e r = answer e' r.

(* A body's run is a function of the answers to the reads it performs. *)
Lemma trace_determined (b : body) : forall e e',
  agree_on e e' (trace e b) -> trace e' b = trace e b /\ run e' b = run e b.
Proof.
  induction b as [v | i k IH | q k IH | c k IH | k IH | pc k IH]; intros e e' H; cbn [trace run] in *.
  - split; reflexivity.
  - assert (Hi : e_in e i = e_in e' i) by (apply (H (RIn i)); left; reflexivity).
    rewrite <- Hi.
    destruct (IH (e_in e i) e e') as [Ht Hr].
    + intros r Hr; apply H; right; exact Hr.
    + rewrite Ht, Hr; split; reflexivity.
  - assert (Hq : e_q e q = e_q e' q) by (apply (H (RQ q)); left; reflexivity).
    rewrite <- Hq.
    destruct (IH (e_q e q) e e') as [Ht Hr].
    + intros r Hr; apply H; right; exact Hr.
    + rewrite Ht, Hr; split; reflexivity.
  - assert (Hc : e_cell e c = e_cell e' c) by (apply (H (RCell c)); left; reflexivity).
    rewrite <- Hc.
    destruct (IH (e_cell e c) e e') as [Ht Hr].
    + intros r Hr; apply H; right; exact Hr.
    + rewrite Ht, Hr; split; reflexivity.
  - destruct (IH e e') as [Ht Hr].
    + intros r Hr; apply H; right; exact Hr.
    + rewrite Ht, Hr; split; reflexivity.
  - apply IH; exact H.
Qed.

(* Walking the old trace in order: either every read has the same answer (and then the
   run is the same), or there is a first read with a different answer, and the new run
   performs that read too, after the same prefix. *)
Lemma first_changed_is_read_again (b : body) : forall e e',
  (agree_on e e' (trace e b)) \/
  (exists pre r post, trace e b = pre ++ r :: post /\ agree_on e e' pre /\
                      answer e r <> answer e' r /\
                      exists post', trace e' b = pre ++ r :: post').
Proof.
  induction b as [v | i k IH | q k IH | c k IH | k IH | pc k IH]; intros e e'; cbn [trace].
  - left; intros r [].
  - destruct (N.eq_dec (e_in e i) (e_in e' i)) as [Heq | Hne].
    + destruct (IH (e_in e i) e e') as [Hag | (pre & r & post & Ht & Hpre & Hne & post' & Ht')].
      * left; intros r [<- | Hr]; [exact Heq | apply Hag; exact Hr].
      * right; exists (RIn i :: pre), r, post; repeat split.
        -- cbn; rewrite Ht; reflexivity.
        -- intros r0 [<- | Hr0]; [exact Heq | apply Hpre; exact Hr0].
        -- exact Hne.
        -- exists post'; cbn; rewrite <- Heq, Ht'; reflexivity.
    + right; exists [], (RIn i), (trace e (k (e_in e i))); repeat split.
      * intros r [].
      * exact Hne.
      * exists (trace e' (k (e_in e' i))); reflexivity.
  - destruct (N.eq_dec (e_q e q) (e_q e' q)) as [Heq | Hne].
    + destruct (IH (e_q e q) e e') as [Hag | (pre & r & post & Ht & Hpre & Hne & post' & Ht')].
      * left; intros r [<- | Hr]; [exact Heq | apply Hag; exact Hr].
      * right; exists (RQ q :: pre), r, post; repeat split.
        -- cbn; rewrite Ht; reflexivity.
        -- intros r0 [<- | Hr0]; [exact Heq | apply Hpre; exact Hr0].
        -- exact Hne.
        -- exists post'; cbn; rewrite <- Heq, Ht'; reflexivity.
    + right; exists [], (RQ q), (trace e (k (e_q e q))); repeat split.
      * intros r [].
      * exact Hne.
      * exists (trace e' (k (e_q e' q))); reflexivity.
  - destruct (N.eq_dec (e_cell e c) (e_cell e' c)) as [Heq | Hne].
    + destruct (IH (e_cell e c) e e') as [Hag | (pre & r & post & Ht & Hpre & Hne & post' & Ht')].
      * left; intros r [<- | Hr]; [exact Heq | apply Hag; exact Hr].
      * right; exists (RCell c :: pre), r, post; repeat split.
        -- cbn; rewrite Ht; reflexivity.
        -- intros r0 [<- | Hr0]; [exact Heq | apply Hpre; exact Hr0].
        -- exact Hne.
        -- exists post'; cbn; rewrite <- Heq, Ht'; reflexivity.
    + right; exists [], (RCell c), (trace e (k (e_cell e c))); repeat split.
      * intros r [].
      * exact Hne.
      * exists (trace e' (k (e_cell e' c))); reflexivity.
  - destruct (IH e e') as [Hag | (pre & r & post & Ht & Hpre & Hne & post' & Ht')].
    + left; intros r [<- | Hr]; [reflexivity | apply Hag; exact Hr].
    + right; exists (RTouch :: pre), r, post; repeat split.
      * cbn; rewrite Ht; reflexivity.
      * intros r0 [<- | Hr0]; [reflexivity | apply Hpre; exact Hr0].
      * exact Hne.
      * exists post'; cbn; rewrite Ht'; reflexivity.
  - apply IH.
Qed.

(* eval is stable once the fuel exceeds the rank *)
Section Rank.
Variable prog : qkey -> body.
Variable rank : qkey -> nat.
Hypothesis Hrank : calls_below prog rank.

Lemma calls_of_trace e b q : In (RQ q) (trace e b) -> calls b q.
Proof.
  induction b as [v | i k IH | q0 k IH | c k IH | k IH | pc k IH]; cbn [trace]; intros H.
  - destruct H.
  - destruct H as [H | H]; [discriminate | eapply calls_in_rdin, IH, H].
  - destruct H as [H | H].
    + injection H as <-; constructor.
    + eapply calls_in_call, IH, H.
  - destruct H as [H | H]; [discriminate | eapply calls_in_cell, IH, H].
  - destruct H as [H | H]; [discriminate | eapply calls_in_touch, IH, H].
  - eapply calls_in_panicif, IH, H.
Qed.

Lemma eval_fuel_irrelevant sn : forall n m q,
  (rank q < n)%nat -> (rank q < m)%nat -> eval prog n sn q = eval prog m sn q.
Proof.
  induction n as [|n IH]; intros m q Hn Hm; [inversion Hn|].
  destruct m as [|m]; [inversion Hm|].
  cbn [eval].
  set (e := {| e_in := sn_in sn; e_cell := sn_cell sn; e_q := eval prog n sn |}).
  set (e' := {| e_in := sn_in sn; e_cell := sn_cell sn; e_q := eval prog m sn |}).
  destruct (trace_determined (prog q) e e') as [_ Hr]; [|symmetry; exact Hr].
  intros r Hr; destruct r as [i | q' | c |]; cbn; try reflexivity.
  apply calls_of_trace in Hr. apply Hrank in Hr.
  apply IH; lia.
Qed.
End Rank.

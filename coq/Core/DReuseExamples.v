(* Core/DReuseExamples.v — non-vacuity of the event-level reuse theorems (C03, C04): a concrete
   program and history satisfying their hypotheses, in which
   - a callee re-executes after a write, returns an equal value, is backdated, and its caller
     is only validated;
   - a query that reads an untracked cell re-executes in every later revision in which it is
     requested; when its value is equal its dependent is only validated, when it differs the
     dependent re-executes;
   - a query none of whose recorded dependencies changed is served by validations alone. *)
From Salsa Require Import Base.
From Salsa.Kern Require Import CoreK.
From Salsa.Core Require Import Model Spec Inv InvTop DInvTop DReuse DReuseTop DReuseValid.

(* g = a / 2 over the HIGH input a = (0,0);  f = g + b over the LOW input b = (0,1);
   u = the untracked cell 0;  w = u / 2 *)
Definition rg_body : body := RdIn (0, 0) (fun a => Ret (a / 2)).
Definition rf_body : body := CallQ (1, 0) (fun v => RdIn (0, 1) (fun b => Ret (v + b))).
Definition ru_body : body := RdCell 0 (fun c => Ret c).
Definition rw_body : body := CallQ (2, 0) (fun v => Ret (v / 2)).
Definition rx_prog (q : qkey) : body :=
  if key_eqb q (1, 0) then rg_body else if key_eqb q (0, 0) then rf_body
  else if key_eqb q (2, 0) then ru_body else if key_eqb q (3, 0) then rw_body else Ret 0.
Definition rx_rank (q : qkey) : nat :=
  if key_eqb q (0, 0) then 1%nat else if key_eqb q (3, 0) then 1%nat else 0%nat.
Definition rx_iv (i : ikey) : val := if key_eqb i (0, 0) then 4 else if key_eqb i (0, 1) then 1 else 0.
Definition rx_idur (i : ikey) : dur := if key_eqb i (0, 0) then D_HIGH else D_LOW.
Definition rx_lru (_ : N) : lru_state := {| lru_cap := None; lru_set := [] |}.
Definition rx_noeq (_ : qkey) : bool := false.
Definition rx_init : db := init rx_iv rx_idur rx_lru.

Definition rx_ops : list op :=
  [ OGet (0, 0);          (* 1: executes f, g *)
    OGet (3, 0);          (* 2: executes w, u *)
    OSet (0, 0) 5 None;   (* 3: a: 4 -> 5, g keeps the value 2 *)
    OGet (0, 0);          (* 4: g executes again, equal value, backdated; f is only validated *)
    OSetCell 0 7; OSynth 0;
    OGet (3, 0);          (* 7: u executes again (0 -> 7), w executes again *)
    OSynth 0;
    OGet (3, 0);          (* 9: u executes again (equal value, backdated); w is only validated *)
    OSetCell 0 6; OSynth 0;
    OGet (3, 0);          (* 12: u executes again (7 -> 6), so w executes again (value 3 again) *)
    OGet (0, 0) ].        (* 13: nothing f read has changed since revision 2: only validations *)

Lemma rx_calls_below : calls_below rx_prog rx_rank.
Proof.
  intros q q' Hc. unfold rx_prog in Hc.
  destruct (key_eqb_spec q (1, 0)) as [-> | H1].
  { unfold rg_body in Hc. inversion Hc as [| | ? ? v ? Hc' | | |]; subst. inversion Hc'. }
  destruct (key_eqb_spec q (0, 0)) as [-> | H0].
  { unfold rf_body in Hc. inversion Hc as [| ? ? v ? Hc' | | | |]; subst.
    - cbn. lia.
    - inversion Hc' as [| | ? ? v' ? Hc'' | | |]; subst. inversion Hc''. }
  destruct (key_eqb_spec q (2, 0)) as [-> | H2].
  { unfold ru_body in Hc. inversion Hc as [| | | ? ? v ? Hc' | |]; subst. inversion Hc'. }
  destruct (key_eqb_spec q (3, 0)) as [-> | H3].
  { unfold rw_body in Hc. inversion Hc as [| ? ? v ? Hc' | | | |]; subst.
    - cbn. lia.
    - inversion Hc'. }
  inversion Hc.
Qed.

Lemma rx_bound : forall q, (rx_rank q < 2)%nat.
Proof. intros q. unfold rx_rank. destruct (key_eqb q (0, 0)), (key_eqb q (3, 0)); lia. Qed.

Lemma rx_idur_le : forall i, rx_idur i <= 3.
Proof. intros i. unfold rx_idur, D_HIGH, D_LOW. destruct (key_eqb i (0, 0)); lia. Qed.

Lemma rx_dur_ops : Forall dur_op rx_ops.
Proof. repeat constructor. Qed.

Lemma rx_wf : wf_ops false rx_ops.
Proof. cbn. repeat split. Qed.

(* the hypotheses of the theorems hold, hence their conclusions *)
Example rx_exec_justified :
  gets_sat rx_prog rx_noeq [] (exec_justified rx_prog rx_noeq 2) 2 rx_init rx_ops.
Proof.
  apply (exec_justified_all rx_prog rx_noeq [] rx_rank rx_calls_below 2 rx_bound 2 rx_bound
           rx_ops false rx_init rx_dur_ops rx_wf).
  apply init_ok_dur. exact rx_idur_le.
Qed.

Example rx_stamp_moves :
  gets_sat rx_prog rx_noeq [] (stamp_moves_justified rx_noeq) 2 rx_init rx_ops.
Proof.
  apply (stamp_moves_all rx_prog rx_noeq [] rx_rank rx_calls_below 2 rx_bound 2 rx_bound
           rx_ops false rx_init rx_dur_ops rx_wf).
  apply init_ok_dur. exact rx_idur_le.
Qed.

Example rx_untracked_reexecutes :
  gets_sat rx_prog rx_noeq [] (untracked_reexecutes rx_prog 2) 2 rx_init rx_ops.
Proof.
  apply (untracked_reexecutes_all rx_prog rx_noeq [] rx_rank rx_calls_below 2 rx_bound 2 rx_bound
           rx_ops false rx_init rx_dur_ops rx_wf).
  apply init_ok_dur. exact rx_idur_le.
Qed.

(* ... and by computation: what each Get logged (newest event first) *)
Definition rx_run (n : nat) : db * list out := run_ops rx_prog rx_noeq [] 2 rx_init (firstn n rx_ops).
Definition rx_new (n : nat) : list event :=
  firstn (length (d_log (fst (rx_run n))) - length (d_log (fst (rx_run (n - 1))))) (d_log (fst (rx_run n))).

Example rx_backdating :
  (* the write changes a, g executes again and returns the equal value 2: f is validated *)
  rx_new 4 = [EvValidate (0, 0); EvExec (1, 0)] /\
  option_map (fun m => (m_val m, m_verified m, m_changed m)) (d_memo (fst (rx_run 3)) (1, 0)) = Some (Some 2, 1, 1) /\
  option_map (fun m => (m_val m, m_verified m, m_changed m)) (d_memo (fst (rx_run 4)) (1, 0)) = Some (Some 2, 2, 1) /\
  snd (rx_run 4) = [Ok 3; Ok 0; Ok 0; Ok 3].
Proof. vm_compute. repeat split. Qed.

Example rx_untracked :
  (* u's memo is untracked and was verified in revision 1 *)
  option_map (fun m => (m_untracked m, m_verified m)) (d_memo (fst (rx_run 6)) (2, 0)) = Some (true, 1) /\
  (* cell changed: u and w execute again *)
  rx_new 7 = [EvExec (3, 0); EvExec (2, 0)] /\
  (* cell unchanged, later revision: u executes again, equal value, w is only validated *)
  rx_new 9 = [EvValidate (3, 0); EvExec (2, 0)] /\
  (* cell changed again: u executes, its value differs, w executes (and returns 3 again) *)
  rx_new 12 = [EvExec (3, 0); EvExec (2, 0)] /\
  snd (rx_run 12) = [Ok 3; Ok 0; Ok 0; Ok 3; Ok 0; Ok 0; Ok 3; Ok 0; Ok 3; Ok 0; Ok 0; Ok 3].
Proof. vm_compute. repeat split. Qed.

Example rx_unchanged_reused :
  gets_sat rx_prog rx_noeq [] (unchanged_reused rx_prog 2) 2 rx_init rx_ops.
Proof.
  apply (unchanged_reused_all rx_prog rx_noeq [] rx_rank rx_calls_below 2 rx_bound 2 rx_bound
           rx_ops false rx_init rx_dur_ops rx_wf).
  apply init_ok_dur. exact rx_idur_le.
Qed.

(* before the last Get (revision 5), f's memo (verified in revision 2) is settled: its input b is
   unwritten since then, its callee g is HIGH-durable with no HIGH write since revision 2 and
   has changed_at 1 *)
Example rx_settled : settled (fst (rx_run 12)) (0, 0).
Proof.
  assert (Hf : d_memo (fst (rx_run 12)) (0, 0) =
               Some {| m_val := Some 3; m_verified := 2; m_changed := 1; m_dur := 0;
                       m_untracked := false; m_edges := [EQ (1, 0); EIn (0, 1)] |})
    by (vm_compute; reflexivity).
  assert (Hg : d_memo (fst (rx_run 12)) (1, 0) =
               Some {| m_val := Some 2; m_verified := 2; m_changed := 1; m_dur := 2;
                       m_untracked := false; m_edges := [EIn (0, 0)] |})
    by (vm_compute; reflexivity).
  apply (settled_deep _ _ _ Hf); cbn [m_val m_verified m_untracked m_edges].
  - intros Hx; discriminate Hx.
  - reflexivity.
  - intros i [Hi | [Hi | []]]; [discriminate Hi|]. injection Hi as <-.
    vm_compute. intros Hx; discriminate Hx.
  - intros d [Hd | [Hd | []]]; [|discriminate Hd]. injection Hd as <-.
    apply (settled_short _ _ _ Hg); cbn [m_val m_verified m_dur]; [intros Hx; discriminate Hx|].
    vm_compute. intros Hx; discriminate Hx.
  - intros d [Hd | [Hd | []]]; [|discriminate Hd]. injection Hd as <-.
    eexists. split; [exact Hg|]. cbn [m_changed]. clear Hf Hg. lia.
Qed.

Example rx_reused :
  rx_new 13 = [EvValidate (0, 0); EvValidate (1, 0)] /\ nth 12 (snd (rx_run 13)) Fuel = Ok 3.
Proof. vm_compute. split; reflexivity. Qed.

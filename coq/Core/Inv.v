(* Core/Inv.v — the invariant of the Core model, relative to a ghost history of snapshots.
   Definitions and basic facts. *)
From Salsa Require Import Base.
From Salsa.Kern Require Import CoreK CoreKFacts.
From Salsa.Core Require Import Model Spec SpecProofs Wp.

Section Inv.
Variable prog : qkey -> body.
Variable rank : qkey -> nat.
Hypothesis Hrank : calls_below prog rank.
Variable NF : nat.                       (* a bound above every rank *)
Hypothesis Hbound : forall q, (rank q < NF)%nat.

(* ---------------------------------------------------------------- semantics over a history *)
Definition hist := rev -> snapshot.

Definition E (H : hist) (r : rev) (q : qkey) : val := eval prog NF (H r) q.

Definition envat (H : hist) (r : rev) : env :=
  {| e_in := sn_in (H r); e_cell := sn_cell (H r); e_q := E H r |}.

Definition tr (H : hist) (r : rev) (q : qkey) : list rd := trace (envat H r) (prog q).

Lemma E_unfold H r q : E H r q = run (envat H r) (prog q).
Proof.
  unfold E. pose proof (Hbound q) as Hq.
  destruct NF as [|n] eqn:HN; [inversion Hq|].
  cbn [eval].
  set (e := {| e_in := sn_in (H r); e_cell := sn_cell (H r); e_q := eval prog n (H r) |}).
  destruct (trace_determined (prog q) e (envat H r)) as [_ Hr]; [|symmetry; exact Hr].
  intros x Hx; destruct x as [i | d | c |]; cbn; try reflexivity.
  apply calls_of_trace in Hx. apply Hrank in Hx.
  unfold E. rewrite HN.
  apply (eval_fuel_irrelevant prog rank Hrank); lia.
Qed.

Lemma tr_calls H r q d : In (RQ d) (tr H r q) -> (rank d < rank q)%nat.
Proof. intros Hx. apply calls_of_trace in Hx. apply Hrank in Hx. exact Hx. Qed.

(* A query is quiet when, under every snapshot, it performs no input, cell or untracked
   read and calls only quiet queries: these are the queries whose memo has durability
   NEVER_CHANGE when every input is LOW. *)
Definition env_of (sn : snapshot) : env :=
  {| e_in := sn_in sn; e_cell := sn_cell sn; e_q := eval prog NF sn |}.

Inductive quiet : qkey -> Prop :=
| quiet_intro q :
    (forall sn x, In x (trace (env_of sn) (prog q)) -> exists d, x = RQ d /\ quiet d) -> quiet q.

Lemma eval_unfold sn q : eval prog NF sn q = run (env_of sn) (prog q).
Proof.
  exact (E_unfold (fun _ => sn) 0 q).
Qed.

Lemma quiet_const_n : forall n q, (rank q < n)%nat -> quiet q ->
  forall sn sn', eval prog NF sn q = eval prog NF sn' q.
Proof.
  induction n as [|n IH]; intros q Hn Hq sn sn'; [inversion Hn|].
  destruct Hq as [q Hq].
  rewrite !eval_unfold.
  destruct (trace_determined (prog q) (env_of sn) (env_of sn')) as [_ Hr]; [|symmetry; exact Hr].
  intros x Hx. destruct (Hq sn x Hx) as (d & -> & Hd). cbn.
  apply IH; [|exact Hd].
  apply calls_of_trace in Hx. apply Hrank in Hx. lia.
Qed.

Lemma quiet_const q : quiet q -> forall sn sn', eval prog NF sn q = eval prog NF sn' q.
Proof. intros Hq. apply (quiet_const_n (S (rank q))); [lia | exact Hq]. Qed.

Lemma quiet_E H q : quiet q -> forall r r', E H r q = E H r' q.
Proof. intros Hq r r'. apply quiet_const; exact Hq. Qed.

Lemma envat_env_of H r : envat H r = env_of (H r).
Proof. reflexivity. Qed.

(* ---------------------------------------------------------------- the invariant *)
Definition seen (s : db) (q : qkey) (r : rev) : Prop := In (q, r) (d_seen s).

Record memo_ok (H : hist) (s : db) (q : qkey) (m : memo) : Prop := {
  mo_order : 1 <= m_verified m /\ m_changed m <= m_verified m /\ m_verified m <= cur s;
  mo_val : forall x, m_val m = Some x -> x = E H (m_verified m) q;
  mo_reads_in : forall i, In (RIn i) (tr H (m_verified m) q) -> In (EIn i) (m_edges m);
  mo_reads_q : forall d, In (RQ d) (tr H (m_verified m) q) -> In (EQ d) (m_edges m) \/ quiet d;
  mo_reads_cell : forall x, In x (tr H (m_verified m) q) -> (x = RTouch \/ exists c, x = RCell c) ->
                  m_untracked m = true;
  mo_edges_q : forall d, In (EQ d) (m_edges m) ->
               In (RQ d) (tr H (m_verified m) q) /\ seen s d (m_verified m);
  mo_changed : forall r, seen s q r -> m_changed m <= r -> E H r q = E H (m_verified m) q;
  mo_untr : m_untracked m = true -> m_dur m = 0;
  mo_dur : m_dur m = 0 \/ (m_dur m = 3 /\ m_untracked m = false /\ quiet q /\ m_edges m = []);
  mo_seen : seen s q (m_verified m)
}.

Record Inv (H : hist) (s : db) : Prop := {
  inv_cur : 1 <= cur s;
  inv_in : forall i r, f_changed (d_in s i) <= r -> r <= cur s -> sn_in (H r) i = f_val (d_in s i);
  inv_in_le : forall i, f_changed (d_in s i) <= cur s;
  inv_cell : forall c, sn_cell (H (cur s)) c = d_cell s c;
  inv_low : forall i, f_dur (d_in s i) = 0;
  inv_memo : forall q m, d_memo s q = Some m -> memo_ok H s q m;
  inv_seen : forall q r, seen s q r ->
             r <= cur s /\ (exists m, d_memo s q = Some m /\ r <= m_verified m) /\
             (forall d, In (RQ d) (tr H r q) -> seen s d r \/ quiet d)
}.

(* within-revision extension: what a sub-computation may change *)
Record ext (s s' : db) : Prop := {
  ext_revs : d_revs s' = d_revs s;
  ext_in : d_in s' = d_in s;
  ext_cell : d_cell s' = d_cell s;
  ext_pcell : d_pcell s' = d_pcell s;
  ext_evfault : d_evfault s = None -> d_evfault s' = None;
  ext_seen : forall q r, seen s q r -> seen s' q r;
  ext_valid : forall q m, d_memo s q = Some m -> m_verified m = cur s -> m_val m <> None ->
              d_memo s' q = Some m
}.

Lemma ext_refl s : ext s s.
Proof. constructor; auto. Qed.

Lemma ext_cur s s' : ext s s' -> cur s' = cur s.
Proof. intros [Hr _ _ _ _ _ _]. unfold cur. rewrite Hr. reflexivity. Qed.

Lemma ext_trans s1 s2 s3 : ext s1 s2 -> ext s2 s3 -> ext s1 s3.
Proof.
  intros H12 H23. pose proof (ext_cur _ _ H12) as Hc.
  destruct H12 as [a1 b1 c1 d1 g1 e1 f1], H23 as [a2 b2 c2 d2 g2 e2 f2].
  constructor; try congruence; auto.
  intros q m Hm Hv Hx. apply f2; [apply f1; assumption | rewrite Hc; exact Hv | exact Hx].
Qed.

(* a computation for a query of rank < k leaves memos and ghost pairs of rank >= k alone *)
Definition touch_below (s s' : db) (k : nat) : Prop :=
  forall p, (k <= rank p)%nat ->
    d_memo s' p = d_memo s p /\ (forall r, seen s' p r -> seen s p r).

Lemma touch_below_refl s k : touch_below s s k.
Proof. intros p _; split; auto. Qed.

Lemma touch_below_trans s1 s2 s3 k1 k2 k :
  (k1 <= k)%nat -> (k2 <= k)%nat ->
  touch_below s1 s2 k1 -> touch_below s2 s3 k2 -> touch_below s1 s3 k.
Proof.
  intros H1 H2 T1 T2 p Hp.
  destruct (T1 p ltac:(lia)) as [a1 b1], (T2 p ltac:(lia)) as [a2 b2].
  split; [congruence | auto].
Qed.

Definition stack_ok (s : db) (q : qkey) : Prop :=
  forall p, In p (d_stack s) -> (rank q < rank p)%nat.

(* panics that can escape a Get on an acyclic program: the backdate-violation assertion, or
   an injected fault -- and the latter only while some fault switch is on *)
Definition allowed (s : db) (p : panic) : Prop :=
  p = PBackdate \/ (p = PInjected /\ ((exists c, d_pcell s c <> 0) \/ d_evfault s <> None)).

Lemma allowed_ext s s' p :
  d_pcell s' = d_pcell s -> (d_evfault s = None -> d_evfault s' = None) ->
  allowed s' p -> allowed s p.
Proof.
  intros He Hf [-> | [-> [(c & Hc) | Hn]]]; [left; reflexivity | right; split; [reflexivity|] ..].
  - left. exists c. rewrite <- He. exact Hc.
  - right. intros H0. apply Hn. apply Hf. exact H0.
Qed.

End Inv.

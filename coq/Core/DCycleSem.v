(* Core/DCycleSem.v — the from-scratch evaluation [evalo] on programs that may be cyclic: fuel
   monotonicity and determinism, evaluation that avoids a set of open calls ([evaloa]), and the
   regress lemma: a query whose body cannot be evaluated while the query itself is open cannot be
   evaluated at all (its evaluation re-enters it). *)
From Coq Require Import PeanoNat.
From Salsa Require Import Base.
From Salsa.Core Require Import Model Spec.

Section Sem.
Variable prog : qkey -> body.
Variable sn : snapshot.
Notation ro := (runo (sn_in sn) (sn_cell sn)).

Lemma runo_mono : forall b (eq eq' : qkey -> option val) v,
  (forall q w, eq q = Some w -> eq' q = Some w) -> ro eq b = Some v -> ro eq' b = Some v.
Proof.
  induction b as [v0 | i k IH | d k IH | c k IH | k IH | c k IH]; intros eq eq' v He H; cbn in *.
  - exact H.
  - eapply IH; eassumption.
  - destruct (eq d) as [w |] eqn:Ed; [| discriminate]. rewrite (He d w Ed). eapply IH; eassumption.
  - eapply IH; eassumption.
  - eapply IH; eassumption.
  - eapply IH; eassumption.
Qed.

Lemma evalo_step : forall n q v, evalo prog n sn q = Some v -> evalo prog (S n) sn q = Some v.
Proof.
  induction n as [| n IH]; intros q v H; [discriminate |].
  cbn [evalo] in *. apply (runo_mono _ (evalo prog n sn)); [| exact H]. intros d w Hd. now apply IH.
Qed.

Lemma evalo_mono : forall n m q v, (n <= m)%nat -> evalo prog n sn q = Some v -> evalo prog m sn q = Some v.
Proof.
  intros n m q v Hle H. induction Hle as [| m Hle IH]; [exact H | now apply evalo_step].
Qed.

Lemma evalo_det n m q v v' : evalo prog n sn q = Some v -> evalo prog m sn q = Some v' -> v = v'.
Proof.
  intros H1 H2. apply (evalo_mono n (max n m)) in H1; [| apply Nat.le_max_l].
  apply (evalo_mono m (max n m)) in H2; [| apply Nat.le_max_r]. congruence.
Qed.

(* ---------------------------------------------------------------- avoiding open calls *)
Fixpoint evaloa (n : nat) (st : list qkey) (q : qkey) : option val :=
  match n with
  | O => None
  | S n' => if existsb (key_eqb q) st then None else ro (evaloa n' st) (prog q)
  end.

Lemma evaloa_nil : forall n q, evaloa n [] q = evalo prog n sn q.
Proof.
  induction n as [| n IH]; intros q; [reflexivity |]. cbn.
  assert (He : forall b, ro (evaloa n []) b = ro (evalo prog n sn) b).
  { induction b as [v0 | i k IHb | d k IHb | c k IHb | k IHb | c k IHb]; cbn; auto.
    rewrite IH. destruct (evalo prog n sn d); auto. }
  apply He.
Qed.

Lemma evaloa_evalo : forall n st q v, evaloa n st q = Some v -> evalo prog n sn q = Some v.
Proof.
  induction n as [| n IH]; intros st q v H; [discriminate |]. cbn in *.
  destruct (existsb (key_eqb q) st); [discriminate |].
  apply (runo_mono _ (evaloa n st)); [| exact H]. intros d w Hd. now apply (IH st).
Qed.

Lemma runo_split : forall b (eq eq' : qkey -> option val) v (P : Prop),
  (forall d w, eq d = Some w -> eq' d = Some w \/ P) -> ro eq b = Some v -> ro eq' b = Some v \/ P.
Proof.
  induction b as [v0 | i k IH | d k IH | c k IH | k IH | c k IH]; intros eq eq' v P He H; cbn in *.
  - now left.
  - eapply IH; eassumption.
  - destruct (eq d) as [w |] eqn:Ed; [| discriminate].
    destruct (He d w Ed) as [Hd | HP]; [| now right]. rewrite Hd. eapply IH; eassumption.
  - eapply IH; eassumption.
  - eapply IH; eassumption.
  - eapply IH; eassumption.
Qed.

Lemma evaloa_split q st : forall n e w, evaloa n st e = Some w ->
  evaloa n (q :: st) e = Some w \/ exists m u, (m <= n)%nat /\ evaloa m st q = Some u.
Proof.
  induction n as [| n IH]; intros e w H; [discriminate |]. cbn [evaloa] in H.
  destruct (existsb (key_eqb e) st) eqn:Est; [discriminate |].
  destruct (key_eqb_spec e q) as [-> | Hne].
  - right. exists (S n), w. split; [lia |]. cbn [evaloa]. now rewrite Est.
  - cbn [evaloa existsb]. apply key_eqb_neq in Hne. rewrite Hne, Est. cbn [orb].
    destruct (runo_split (prog e) (evaloa n st) (evaloa n (q :: st)) w
                (exists m u, (m <= n)%nat /\ evaloa m st q = Some u)) as [Hs | (m & u & Hm & Hu)].
    + intros d w' Hd. apply IH. exact Hd.
    + exact H.
    + now left.
    + right. exists m, u. split; [lia | exact Hu].
Qed.

(* the body of q cannot be evaluated while q is open: then q cannot be evaluated at all *)
Lemma regress q st : existsb (key_eqb q) st = false ->
  (forall n, ro (evaloa n (q :: st)) (prog q) = None) -> forall n, evaloa n st q = None.
Proof.
  intros Hq Hb.
  assert (Hall : forall n m, (m <= n)%nat -> evaloa m st q = None).
  { induction n as [| n IH]; intros m Hm.
    - assert (m = 0)%nat by lia. subst. reflexivity.
    - destruct (Nat.eq_dec m (S n)) as [-> | Hne]; [| apply IH; lia].
      cbn [evaloa]. rewrite Hq.
      destruct (ro (evaloa n st) (prog q)) as [v |] eqn:Hr; [| reflexivity]. exfalso.
      destruct (runo_split (prog q) (evaloa n st) (evaloa n (q :: st)) v
                  (exists m u, (m <= n)%nat /\ evaloa m st q = Some u)) as [Hs | (m & u & Hm' & Hu)].
      + intros d w Hd. now apply evaloa_split.
      + exact Hr.
      + rewrite Hb in Hs. discriminate.
      + rewrite (IH m Hm') in Hu. discriminate. }
  intros n. now apply (Hall n n).
Qed.

(* ---------------------------------------------------------------- bodies: value / blocked *)
Definition bval (b : body) (v : val) : Prop := exists n, ro (evalo prog n sn) b = Some v.
Definition qval (q : qkey) (v : val) : Prop := exists n, evalo prog n sn q = Some v.
Definition bblk (st : list qkey) (b : body) : Prop := forall n, ro (evaloa n st) b = None.
Definition qblk (st : list qkey) (q : qkey) : Prop := forall n, evaloa n st q = None.

Lemma qval_of_body q v : bval (prog q) v -> qval q v.
Proof. intros (n & H). exists (S n). exact H. Qed.

Lemma bval_call d k w v : qval d w -> bval (k w) v -> bval (CallQ d k) v.
Proof.
  intros (n1 & H1) (n2 & H2). exists (max n1 n2). cbn.
  rewrite (evalo_mono n1 (max n1 n2) d w (Nat.le_max_l _ _) H1).
  apply (runo_mono _ (evalo prog n2 sn)); [| exact H2].
  intros q' w' Hq'. apply (evalo_mono n2); [apply Nat.le_max_r | exact Hq'].
Qed.

Lemma bblk_call_blocked st d k : qblk st d -> bblk st (CallQ d k).
Proof. intros H n. cbn. now rewrite H. Qed.

Lemma bblk_call_value st d k w : qval d w -> bblk st (k w) -> bblk st (CallQ d k).
Proof.
  intros (n0 & H0) Hb n. cbn. destruct (evaloa n st d) as [w' |] eqn:Ed; [| reflexivity].
  apply evaloa_evalo in Ed. rewrite (evalo_det _ _ _ _ _ Ed H0). apply Hb.
Qed.

Lemma qblk_stacked st q : existsb (key_eqb q) st = true -> qblk st q.
Proof. intros H n. destruct n; [reflexivity |]. cbn. now rewrite H. Qed.

Lemma qblk_nil q : qblk [] q -> forall n, evalo prog n sn q = None.
Proof. intros H n. rewrite <- evaloa_nil. apply H. Qed.

Lemma qval_not_blocked q v : qval q v -> qblk [] q -> False.
Proof. intros (n & H) Hb. rewrite (qblk_nil q Hb n) in H. discriminate. Qed.

End Sem.

(* Core/DCycleBound.v — the depth bound for the from-scratch evaluation: over a call-closed
   list [ns] of keys, a key that has a value at all has it with fuel [length ns]; so
   [evalo prog (length ns) sn q = None] decides "the from-scratch evaluation of q re-enters a
   node".  (An acyclic call chain visits distinct keys.) *)
From Coq Require Import PeanoNat Lia Wf_nat.
From Salsa Require Import Base.
From Salsa.Core Require Import Model Spec DCycleSem.

Section Bound.
Variable prog : qkey -> body.
Variable sn : snapshot.
Variable ns : list qkey.

Notation ro := (runo (sn_in sn) (sn_cell sn)).
Notation evaloa := (evaloa prog sn).

Hypothesis Hclosed : forall q d, In q ns -> calls (prog q) d -> In d ns.

Lemma runo_split_calls : forall b (eq eq' : qkey -> option val) v (P : Prop),
  (forall d w, calls b d -> eq d = Some w -> eq' d = Some w \/ P) ->
  ro eq b = Some v -> ro eq' b = Some v \/ P.
Proof.
  induction b as [v0 | i k IH | d k IH | c k IH | k IH | c k IH]; intros eq eq' v P He H; cbn in *.
  - now left.
  - apply (IH _ eq eq' v P); [| exact H]. intros d w Hc. apply He. econstructor; exact Hc.
  - destruct (eq d) as [w |] eqn:Ed; [| discriminate].
    destruct (He d w (calls_here d k) Ed) as [Hd | HP]; [| now right]. rewrite Hd.
    apply (IH _ eq eq' v P); [| exact H]. intros d' w' Hc. apply He. econstructor; exact Hc.
  - apply (IH _ eq eq' v P); [| exact H]. intros d w Hc. apply He. econstructor; exact Hc.
  - apply (IH eq eq' v P); [| exact H]. intros d w Hc. apply He. constructor; exact Hc.
  - apply (IH eq eq' v P); [| exact H]. intros d w Hc. apply He. constructor; exact Hc.
Qed.

(* fewer open calls: more values *)
Lemma evaloa_weaken q st : forall n e w, evaloa n (q :: st) e = Some w -> evaloa n st e = Some w.
Proof.
  induction n as [| n IH]; intros e w H; [discriminate |]. cbn [DCycleSem.evaloa existsb] in *.
  destruct (key_eqb e q); [discriminate |]. cbn [orb] in H.
  destruct (existsb (key_eqb e) st); [discriminate |].
  apply (runo_mono sn _ (evaloa n (q :: st))); [| exact H]. intros d w' Hd. now apply IH.
Qed.

Lemma evaloa_bound : forall d st, NoDup st -> incl st ns -> d = (length ns - length st)%nat ->
  forall n q v, In q ns -> evaloa n st q = Some v -> evaloa d st q = Some v.
Proof.
  induction d as [| d' IHd]; intros st Hnd Hin Hd n.
  - intros q v Hq H. exfalso. destruct n as [| n]; [discriminate |]. cbn [DCycleSem.evaloa] in H.
    destruct (existsb (key_eqb q) st) eqn:Eq; [discriminate |].
    assert (Hnq : ~ In q st).
    { intros Hi. assert (Ht : existsb (key_eqb q) st = true)
        by (apply existsb_exists; exists q; split; [exact Hi | apply key_eqb_refl]). congruence. }
    assert (Hle : (length (q :: st) <= length ns)%nat).
    { apply NoDup_incl_length; [constructor; assumption |].
      intros x [Hx | Hx]; [now subst x | now apply Hin]. }
    cbn [length] in Hle. lia.
  - induction n as [n IHn] using lt_wf_ind. intros q v Hq H.
    destruct n as [| n]; [discriminate |]. cbn [DCycleSem.evaloa] in H.
    destruct (existsb (key_eqb q) st) eqn:Eq; [discriminate |].
    assert (Hnq : ~ In q st).
    { intros Hi. assert (Ht : existsb (key_eqb q) st = true)
        by (apply existsb_exists; exists q; split; [exact Hi | apply key_eqb_refl]). congruence. }
    assert (Hnd' : NoDup (q :: st)) by (constructor; assumption).
    assert (Hin' : incl (q :: st) ns) by (intros x [Hx | Hx]; [now subst x | now apply Hin]).
    assert (Hd' : d' = (length ns - length (q :: st))%nat) by (cbn [length]; lia).
    destruct (runo_split_calls (prog q) (evaloa n st) (evaloa d' (q :: st)) v
                (exists m u, (m <= n)%nat /\ evaloa m st q = Some u)) as [Hs | (m & u & Hm & Hu)].
    + intros e w Hc He. destruct (evaloa_split prog sn q st n e w He) as [Hl | Hr].
      * left. apply (IHd (q :: st) Hnd' Hin' Hd' n e w); [| exact Hl]. now apply (Hclosed q).
      * right. exact Hr.
    + exact H.
    + cbn [DCycleSem.evaloa]. rewrite Eq.
      apply (runo_mono sn _ (evaloa d' (q :: st))); [| exact Hs]. intros e w He. now apply evaloa_weaken in He.
    + assert (Hu' : evaloa (S d') st q = Some u) by (apply (IHn m); [lia | exact Hq | exact Hu]).
      assert (E1 : evalo prog (S n) sn q = Some v).
      { apply (evaloa_evalo prog sn (S n) st). cbn [DCycleSem.evaloa]. now rewrite Eq. }
      pose proof (evaloa_evalo prog sn _ _ _ _ Hu) as E2.
      rewrite (evalo_det prog sn _ _ _ _ _ E1 E2). exact Hu'.
Qed.

(* the value, if any, is reached with fuel [length ns] *)
Theorem evalo_bound q v : In q ns -> qval prog sn q v -> evalo prog (length ns) sn q = Some v.
Proof.
  intros Hq (n & H). rewrite <- evaloa_nil. rewrite <- evaloa_nil in H.
  apply (evaloa_bound (length ns) [] (NoDup_nil _) (incl_nil_l _)) with (n := n);
    [cbn [length]; lia | exact Hq | exact H].
Qed.

(* so [None] at that fuel is [None] at every fuel: the evaluation re-enters a node *)
Theorem evalo_cyclic_iff q : In q ns ->
  (evalo prog (length ns) sn q = None <-> forall n, evalo prog n sn q = None).
Proof.
  intros Hq. split; [| intros H; apply H].
  intros H n. destruct (evalo prog n sn q) as [v |] eqn:E; [| reflexivity].
  rewrite (evalo_bound q v Hq (ex_intro _ n E)) in H. discriminate.
Qed.

End Bound.

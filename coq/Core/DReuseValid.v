(* Core/DReuseValid.v — frugality, the converse of "executions are justified" (C03): a query
   whose recorded dependency walk finds nothing changed is served without executing anything,
   only validation events are logged.  A third induction over the levels, beside those of
   Core/DInvOps.v and Core/DReuseOps.v. *)
From Salsa Require Import Base.
From Salsa.Kern Require Import CoreK CoreKFacts.
From Salsa.Core Require Import Model Spec SpecProofs Wp Inv InvFrame InvSem InvTop DurSem DInv DInvSem DInvOps DInvTop
     ReuseProofs DReuse DReuseOps DReuseTop.

(* ---------------------------------------------------------------- settled queries *)
(* q is settled in s: it has a memo with a value that is verified in the current revision, or
   whose durability level saw no write since it was verified, or (tracked) all of whose
   recorded input edges are unwritten since it was verified and all of whose recorded callees
   are settled and have a changed_at stamp not later than its verified_at. *)
Inductive settled (s : db) : qkey -> Prop :=
| settled_now q m :
    d_memo s q = Some m -> m_val m <> None -> m_verified m = cur s -> settled s q
| settled_short q m :
    d_memo s q = Some m -> m_val m <> None ->
    last_changed (d_revs s) (m_dur m) <= m_verified m -> settled s q
| settled_deep q m :
    d_memo s q = Some m -> m_val m <> None -> m_untracked m = false ->
    (forall i, In (EIn i) (m_edges m) -> f_changed (d_in s i) <= m_verified m) ->
    (forall d, In (EQ d) (m_edges m) -> settled s d) ->
    (forall d, In (EQ d) (m_edges m) -> exists md, d_memo s d = Some md /\ m_changed md <= m_verified m) ->
    settled s q.

(* only validations happened between s and s' *)
Record MV (s s' : db) : Prop := {
  mv_revs : d_revs s' = d_revs s;
  mv_in : d_in s' = d_in s;
  mv_memo : forall d, d_memo s' d = d_memo s d \/
                      exists m, d_memo s d = Some m /\ d_memo s' d = Some (reverify m (cur s));
  mv_log : exists new, d_log s' = new ++ d_log s /\ forall x, ~ In (EvExec x) new
}.

Lemma MV_cur s s' : MV s s' -> cur s' = cur s.
Proof. intros HM. unfold cur. rewrite (mv_revs _ _ HM). reflexivity. Qed.

Lemma MV_refl s : MV s s.
Proof. constructor; auto. exists []. split; [reflexivity | intros x []]. Qed.

Lemma MV_trans s1 s2 s3 : MV s1 s2 -> MV s2 s3 -> MV s1 s3.
Proof.
  intros A B. pose proof (MV_cur _ _ A) as Hc.
  destruct (mv_log _ _ A) as (n12 & Hl12 & Hn12), (mv_log _ _ B) as (n23 & Hl23 & Hn23).
  constructor.
  - rewrite (mv_revs _ _ B). apply (mv_revs _ _ A).
  - rewrite (mv_in _ _ B). apply (mv_in _ _ A).
  - intros d. destruct (mv_memo _ _ B d) as [E2 | (m2 & Hm2 & E2)].
    + rewrite E2. apply (mv_memo _ _ A d).
    + destruct (mv_memo _ _ A d) as [E1 | (m1 & Hm1 & E1)].
      * right. exists m2. rewrite <- E1, <- Hc. split; assumption.
      * right. exists m1. split; [exact Hm1|]. rewrite E2. rewrite E1 in Hm2. injection Hm2 as <-.
        rewrite Hc. reflexivity.
  - exists (n23 ++ n12). split; [rewrite Hl23, Hl12, app_assoc; reflexivity|].
    intros x Hx. apply in_app_iff in Hx. destruct Hx as [Hx | Hx]; [apply (Hn23 x Hx) | apply (Hn12 x Hx)].
Qed.

Lemma MV_quiet s s1 :
  d_revs s1 = d_revs s -> d_in s1 = d_in s -> d_memo s1 = d_memo s -> d_log s1 = d_log s -> MV s s1.
Proof.
  intros Hr Hi Hm Hl. constructor; auto.
  - intros d. left. rewrite Hm. reflexivity.
  - exists []. split; [exact Hl | intros x []].
Qed.

Lemma MV_validate s s1 q :
  d_revs s1 = d_revs s -> d_in s1 = d_in s -> d_memo s1 = d_memo s ->
  d_log s1 = EvValidate q :: d_log s -> MV s s1.
Proof.
  intros Hr Hi Hm Hl. constructor; auto.
  - intros d. left. rewrite Hm. reflexivity.
  - exists [EvValidate q]. split; [exact Hl|]. intros x [Hx | []]. discriminate.
Qed.

Lemma MV_mark s q m : d_memo s q = Some m -> MV s (store s q (reverify m (cur s))).
Proof.
  intros Hm. constructor; try reflexivity.
  - intros d. unfold store; cbn. unfold upd. destruct (key_eqb_spec q d) as [<- | Hne]; [right | left; reflexivity].
    exists m. split; [exact Hm | reflexivity].
  - exists []. split; [reflexivity | intros x []].
Qed.

Lemma MV_stamp s s' d md : MV s s' -> d_memo s d = Some md ->
  exists md', d_memo s' d = Some md' /\ m_changed md' = m_changed md /\ m_val md' = m_val md.
Proof.
  intros HM Hmd. destruct (mv_memo _ _ HM d) as [E | (m & Hm & E)].
  - exists md. rewrite E. split; [exact Hmd | split; reflexivity].
  - rewrite Hmd in Hm. injection Hm as <-. exists (reverify md (cur s)). split; [exact E | split; reflexivity].
Qed.

Lemma settled_MV s s' q : MV s s' -> settled s q -> settled s' q.
Proof.
  intros HM Hs. pose proof (MV_cur _ _ HM) as Hc.
  induction Hs as [q m Hm Hx Hv | q m Hm Hx Hlc | q m Hm Hx Hu Hin Hq IH Hqc].
  - destruct (mv_memo _ _ HM q) as [E | (m0 & Hm0 & E)].
    + apply (settled_now s' q m); [rewrite E; exact Hm | exact Hx | congruence].
    + rewrite Hm in Hm0. injection Hm0 as <-.
      apply (settled_now s' q (reverify m (cur s))); [exact E | exact Hx | cbn; congruence].
  - destruct (mv_memo _ _ HM q) as [E | (m0 & Hm0 & E)].
    + apply (settled_short s' q m); [rewrite E; exact Hm | exact Hx | rewrite (mv_revs _ _ HM); exact Hlc].
    + rewrite Hm in Hm0. injection Hm0 as <-.
      apply (settled_now s' q (reverify m (cur s))); [exact E | exact Hx | cbn; congruence].
  - destruct (mv_memo _ _ HM q) as [E | (m0 & Hm0 & E)].
    + apply (settled_deep s' q m); [rewrite E; exact Hm | exact Hx | exact Hu | | exact IH |].
      * intros i Hi. rewrite (mv_in _ _ HM). apply Hin; exact Hi.
      * intros d Hd. destruct (Hqc d Hd) as (md & Hmd & Hle).
        destruct (MV_stamp s s' d md HM Hmd) as (md' & Hmd' & Hc' & _).
        exists md'. split; [exact Hmd' | lia].
    + rewrite Hm in Hm0. injection Hm0 as <-.
      apply (settled_now s' q (reverify m (cur s))); [exact E | exact Hx | cbn; congruence].
Qed.

Section VOps.
Variable prog : qkey -> body.
Variable noeq : qkey -> bool.
Variable rank : qkey -> nat.
Hypothesis Hrank : calls_below prog rank.
Variable NF : nat.
Hypothesis Hbound : forall q, (rank q < NF)%nat.
Variable H : hist.
Variable D : dhist.
Notation tr := (tr prog NF H).
Notation DInv := (DInv prog NF H D).
Notation stack_ok := (stack_ok rank).
Notation fetch_spec := (fetch_spec prog rank NF H D).
Notation mca_spec := (mca_spec prog rank NF H D).

Ltac conj := repeat match goal with |- _ /\ _ => split end.
Ltac triv := intros; exact I.

Lemma mark_verified_mv q m s :
  d_memo s q = Some m ->
  wp (mark_verified q m) (fun m' s' => m' = reverify m (cur s) /\ MV s s') XT s.
Proof.
  intros Hm. unfold mark_verified.
  apply wp_bind, wp_get. apply wp_bind. apply emit_rx.
  intros s1 Hr Hi Hce Hmm Hst Hl.
  apply wp_bind. unfold set_memo_at. apply wp_modify. apply wp_ret.
  split; [reflexivity|].
  assert (Hc1 : cur s1 = cur s) by (unfold cur; rewrite Hr; reflexivity).
  apply (MV_trans s s1).
  - apply (MV_validate s s1 q); assumption.
  - change (set_seen _ _) with (store s1 q (reverify m (cur s))). rewrite <- Hc1.
    apply MV_mark. rewrite Hmm. exact Hm.
Qed.

Lemma update_shallow_mv q m s u :
  d_memo s q = Some m ->
  wp (update_shallow q m u)
     (fun m' s' => MV s s' /\ m_changed m' = m_changed m) XT s.
Proof.
  intros Hm. destruct u; cbn [update_shallow]; try (apply wp_ret; split; [apply MV_refl | reflexivity]).
  eapply wp_conseq; [apply (mark_verified_mv q m s Hm) | | triv].
  intros m' s' [-> HR]. split; [exact HR | reflexivity].
Qed.

Definition fetch_nx (L : lower) (n : nat) : Prop :=
  forall q s, (rank q < n)%nat -> DInv s -> stack_ok s q -> settled s q ->
    wp (l_fetch L q) (fun _ s' => MV s s') XT s.

Definition mca_nx (L : lower) (n : nat) : Prop :=
  forall q since s, (rank q < n)%nat -> DInv s -> stack_ok s q -> settled s q ->
    wp (l_mca L q since)
       (fun b s' => MV s s' /\ forall m, d_memo s q = Some m -> b = changed_after (m_changed m) since) XT s.

Lemma walk_edges_nx L n q m (HM : mca_spec L n) (HM' : mca_nx L n) : forall es s,
  DInv s -> d_memo s q = Some m ->
  (forall d, In (EQ d) es -> (rank d < n)%nat /\ (rank d < rank q)%nat) ->
  (forall p, In p (d_stack s) -> (rank q <= rank p)%nat) ->
  (forall i, In (EIn i) es -> f_changed (d_in s i) <= m_verified m) ->
  (forall d, In (EQ d) es -> settled s d) ->
  (forall d, In (EQ d) es -> exists md, d_memo s d = Some md /\ m_changed md <= m_verified m) ->
  wp (walk_edges L es (m_verified m)) (fun b s' => MV s s' /\ b = false) XT s.
Proof.
  induction es as [|e es IH]; intros s HI Hm Hes Hst Hin Hset Hqc; cbn [walk_edges].
  - apply wp_ret. split; [apply MV_refl | reflexivity].
  - destruct e as [i | d].
    + apply wp_bind, wp_get.
      assert (Hca : changed_after (f_changed (d_in s i)) (m_verified m) = false).
      { apply changed_after_false. apply Hin. left; reflexivity. }
      rewrite Hca.
      apply (IH s HI Hm); try assumption.
      * intros d Hd. apply Hes. right; exact Hd.
      * intros j Hj. apply Hin. right; exact Hj.
      * intros d Hd. apply Hset. right; exact Hd.
      * intros d Hd. apply Hqc. right; exact Hd.
    + destruct (Hes d (or_introl eq_refl)) as (Hdn & Hdq).
      assert (Hsd : stack_ok s d) by (intros p Hp; specialize (Hst p Hp); lia).
      apply wp_bind.
      eapply wp_conseq; [apply wp_and;
        [apply (HM d (m_verified m) s Hdn HI Hsd)
        | apply (HM' d (m_verified m) s Hdn HI Hsd (Hset d (or_introl eq_refl)))] | | triv].
      intros c s1 ((HI1 & He1 & Ht1 & Hs1 & _) & (HR1 & Hc)).
      assert (Hm1 : d_memo s1 q = Some m) by (rewrite (Ht1 q) by lia; exact Hm).
      destruct (Hqc d (or_introl eq_refl)) as (md & Hmd & Hle).
      rewrite (Hc md Hmd).
      assert (Hca : changed_after (m_changed md) (m_verified m) = false) by (apply changed_after_false; exact Hle).
      rewrite Hca.
      eapply wp_conseq; [apply (IH s1 HI1 Hm1) | | triv].
      * intros d' Hd'. apply (Hes d' (or_intror Hd')).
      * rewrite Hs1. exact Hst.
      * intros j Hj. rewrite (mv_in _ _ HR1). apply Hin. right; exact Hj.
      * intros d' Hd'. apply (settled_MV s s1 d' HR1). apply Hset. right; exact Hd'.
      * intros d' Hd'. destruct (Hqc d' (or_intror Hd')) as (md' & Hmd' & Hle').
        destruct (MV_stamp s s1 d' md' HR1 Hmd') as (md'' & Hmd'' & Hc'' & _).
        exists md''. split; [exact Hmd'' | lia].
      * intros b s' (HR & Hb). split; [apply (MV_trans s s1 s'); assumption | exact Hb].
Qed.

Lemma verify_nx L n q m s (HM : mca_spec L n) (HM' : mca_nx L n) :
  (rank q <= n)%nat -> DInv s -> d_memo s q = Some m ->
  (forall p, In p (d_stack s) -> (rank q <= rank p)%nat) ->
  settled s q ->
  wp (verify_memo L q m) (fun r s' => MV s s' /\ fst r = true) XT s.
Proof.
  intros Hn HI Hm Hst Hset. unfold verify_memo.
  apply wp_bind, wp_get.
  destruct (shallow_verify s m) eqn:Hsh.
  - apply wp_bind.
    eapply wp_conseq; [apply (update_shallow_mv q m s ShVerified Hm) | | triv].
    intros m' s' [HR _]. apply wp_ret. split; [exact HR | reflexivity].
  - apply wp_bind.
    eapply wp_conseq; [apply (update_shallow_mv q m s ShHigher Hm) | | triv].
    intros m' s' [HR _]. apply wp_ret. split; [exact HR | reflexivity].
  - pose proof (shallow_cases s m) as Hc. rewrite Hsh in Hc.
    pose proof (inv_memo _ _ _ _ _ HI q m Hm) as Hok.
    destruct Hset as [q m0 Hm0 Hx Hv | q m0 Hm0 Hx Hlc | q m0 Hm0 Hx Hu Hin Hq Hqc];
      rewrite Hm in Hm0; injection Hm0 as <-.
    + contradiction.
    + exfalso. unfold shallow_verify in Hsh.
      destruct (m_verified m =? cur s); [discriminate|].
      apply shallow_ok_spec in Hlc. rewrite Hlc in Hsh. discriminate.
    + unfold deep_verify. rewrite Hu.
      assert (Hes : forall d, In (EQ d) (m_edges m) -> (rank d < n)%nat /\ (rank d < rank q)%nat).
      { intros d Hd. pose proof (mo_edges_q _ _ _ _ _ _ _ Hok d Hd) as Hind.
        pose proof (tr_calls prog rank Hrank NF H _ _ _ Hind). split; lia. }
      assert (Hes' : forall d, In (EQ d) (m_edges m) -> (rank d < n)%nat /\ (rank d < rank q)%nat /\
                                                        In (RQ d) (tr (m_verified m) q)).
      { intros d Hd. destruct (Hes d Hd). conj; auto. apply (mo_edges_q _ _ _ _ _ _ _ Hok d Hd). }
      apply wp_bind.
      eapply wp_conseq; [apply wp_and;
        [apply (walk_edges_ok prog rank NF H D L n q m HM (m_edges m) s HI Hm Hes' Hst)
        | apply (walk_edges_nx L n q m HM HM' (m_edges m) s HI Hm Hes Hst Hin Hq Hqc)] | | triv].
      intros c s1 ((HI1 & He1 & Ht1 & Hs1 & _) & (HR1 & ->)).
      assert (Hm1 : d_memo s1 q = Some m) by (rewrite (Ht1 q) by lia; exact Hm).
      apply wp_bind.
      eapply wp_conseq; [apply (mark_verified_mv q m s1 Hm1) | | triv].
      intros m' s2 [_ HR2]. apply wp_ret.
      split; [apply (MV_trans s s1 s2); assumption | reflexivity].
Qed.

Lemma settled_memo s q : settled s q -> exists m v, d_memo s q = Some m /\ m_val m = Some v.
Proof.
  intros [q0 m Hm Hx _ | q0 m Hm Hx _ | q0 m Hm Hx _ _ _ _];
    (destruct (m_val m) as [v|] eqn:Hv; [exists m, v; split; assumption | contradiction]).
Qed.

Lemma MV_stack s l : MV s (set_stack s l).
Proof. apply MV_quiet; reflexivity. Qed.

Lemma MV_lru s l : MV s (set_lru s l).
Proof. apply MV_quiet; reflexivity. Qed.

Lemma fetch_nx_ok L n (HF : fetch_spec L n) (HM : mca_spec L n) (HM' : mca_nx L n) :
  forall q s, (rank q <= n)%nat -> DInv s -> stack_ok s q -> settled s q ->
    wp (fetch prog noeq L q) (fun _ s' => MV s s') XT s.
Proof.
  intros q s Hn HI Hst Hset. unfold fetch.
  destruct (settled_memo s q Hset) as (m & v & Hm & Hv).
  assert (Hfin : forall (mv : memo * val) s2, MV s s2 ->
            wp (modify (fun s => set_lru s (updN (d_lru s) (fst q) (lru_record_use (d_lru s (fst q)) (snd q)))) ;;;
                ret (memo_qres (fst mv) (snd mv))) (fun _ s' => MV s s') XT s2).
  { intros mv s2 HR. apply wp_bind, wp_modify, wp_ret.
    apply (MV_trans s s2); [exact HR | apply MV_lru]. }
  apply wp_bind. unfold fetch_hot. apply wp_bind, wp_get. rewrite Hm, Hv.
  assert (Hgot : forall u,
            wp (m' <- update_shallow q m u ;; ret (Some (m', v)))
               (fun hot s' => wp (r <- match hot with Some mv => ret mv | None => fetch_cold prog noeq L q end ;;
                                  modify (fun s => set_lru s (updN (d_lru s) (fst q) (lru_record_use (d_lru s (fst q)) (snd q)))) ;;;
                                  ret (memo_qres (fst r) (snd r))) (fun _ s'' => MV s s'') XT s') XT s).
  { intros u. apply wp_bind.
    eapply wp_conseq; [apply (update_shallow_mv q m s u Hm) | | triv].
    intros m' s' [HR _]. apply wp_ret. apply wp_bind, wp_ret. apply Hfin. exact HR. }
  destruct (shallow_verify s m) eqn:Hsh; [apply Hgot | apply Hgot |].
  apply wp_ret. apply wp_bind.
  (* the cold path: verification succeeds *)
  unfold fetch_cold.
  apply wp_bind. apply (claim_ok rank); [exact Hst|].
  set (s1 := set_stack s (q :: d_stack s)).
  assert (Hce : dcore_eq s s1) by apply dcore_eq_stack.
  assert (HI1 : DInv s1) by (apply (DInv_core_eq prog NF H D s); assumption).
  assert (HR01 : MV s s1) by apply MV_stack.
  assert (Hst1 : forall p, In p (d_stack s1) -> (rank q <= rank p)%nat) by (apply stacked; exact Hst).
  assert (Hset1 : settled s1 q) by (apply (settled_MV s s1 q HR01 Hset)).
  apply wp_bind, wp_get. change (d_memo s1 q) with (d_memo s q). rewrite Hm, Hv.
  apply wp_bind. apply wp_bind.
  eapply wp_conseq; [apply (verify_nx L n q m s1 HM HM' Hn HI1 Hm Hst1 Hset1) | | triv].
  intros [b m'] s2 (HR12 & Hb). cbn [fst snd] in *. subst b.
  apply wp_ret. apply wp_bind. unfold release. apply wp_modify. apply wp_ret.
  apply Hfin.
  apply (MV_trans s s1); [exact HR01|]. apply (MV_trans s1 s2); [exact HR12 | apply MV_stack].
Qed.

Lemma mca_nx_ok L n (HF : fetch_spec L n) (HM : mca_spec L n) (HM' : mca_nx L n) :
  forall q since s, (rank q <= n)%nat -> DInv s -> stack_ok s q -> settled s q ->
    wp (mca prog noeq L q since)
       (fun b s' => MV s s' /\ forall m, d_memo s q = Some m -> b = changed_after (m_changed m) since) XT s.
Proof.
  intros q since s Hn HI Hst Hset. unfold mca.
  destruct (settled_memo s q Hset) as (m & v & Hm & Hv).
  apply (wp_conseq _ (fun b s' => MV s s' /\ b = changed_after (m_changed m) since) _ XT XT);
    [| intros b s' [HR Hb]; split; [exact HR|];
       intros m0 Hm0; rewrite Hm in Hm0; injection Hm0 as <-; exact Hb | triv].
  apply wp_bind, wp_get. rewrite Hm.
  assert (Hgot : forall u,
            wp (m' <- update_shallow q m u ;; ret (changed_after (m_changed m') since))
               (fun b s' => MV s s' /\ b = changed_after (m_changed m) since) XT s).
  { intros u. apply wp_bind.
    eapply wp_conseq; [apply (update_shallow_mv q m s u Hm) | | triv].
    intros m' s' [HR Hc]. apply wp_ret. split; [exact HR|]. rewrite Hc. reflexivity. }
  destruct (shallow_verify s m) eqn:Hsh; [apply Hgot | apply Hgot |].
  unfold mca_cold.
  apply wp_bind. apply (claim_ok rank); [exact Hst|].
  set (s1 := set_stack s (q :: d_stack s)).
  assert (Hce : dcore_eq s s1) by apply dcore_eq_stack.
  assert (HI1 : DInv s1) by (apply (DInv_core_eq prog NF H D s); assumption).
  assert (HR01 : MV s s1) by apply MV_stack.
  assert (Hst1 : forall p, In p (d_stack s1) -> (rank q <= rank p)%nat) by (apply stacked; exact Hst).
  assert (Hset1 : settled s1 q) by (apply (settled_MV s s1 q HR01 Hset)).
  apply wp_bind, wp_get. change (d_memo s1 q) with (d_memo s q). rewrite Hm.
  apply wp_bind.
  eapply wp_conseq; [apply wp_and;
    [apply (verify_memo_ok prog rank Hrank NF Hbound H D L n q m s1 HM Hn HI1 Hm Hst1)
    | apply (verify_nx L n q m s1 HM HM' Hn HI1 Hm Hst1 Hset1)] | | triv].
  intros [b m'] s2 ((_ & _ & _ & _ & Htrue & _) & (HR12 & Hb)). cbn [fst snd] in *. subst b.
  destruct (Htrue eq_refl) as (_ & _ & _ & _ & _ & _ & _ & _ & Hch & _).
  apply wp_bind. unfold release. apply wp_modify. apply wp_ret.
  split.
  - apply (MV_trans s s1); [exact HR01|]. apply (MV_trans s1 s2); [exact HR12 | apply MV_stack].
  - rewrite Hch. reflexivity.
Qed.

Theorem nlevel_ok : forall n,
  fetch_nx (level prog noeq n) n /\ mca_nx (level prog noeq n) n.
Proof.
  induction n as [|n [IHF IHM]].
  - split; intros q; intros; lia.
  - destruct (dlevel_ok prog noeq rank Hrank NF Hbound H D n) as [HF HM].
    split.
    + intros q s Hq HI Hst Hset. cbn [level l_fetch].
      apply (fetch_nx_ok (level prog noeq n) n HF HM IHM q s); [lia | exact HI | exact Hst | exact Hset].
    + intros q since s Hq HI Hst Hset. cbn [level l_mca].
      apply (mca_nx_ok (level prog noeq n) n HF HM IHM q since s); [lia | exact HI | exact Hst | exact Hset].
Qed.

End VOps.

(* ---------------------------------------------------------------- over whole histories *)
Section VTop.
Variable prog : qkey -> body.
Variable noeq : qkey -> bool.
Variable fams : list N.
Variable rank : qkey -> nat.
Hypothesis Hrank : calls_below prog rank.
Variable NF : nat.
Hypothesis Hbound : forall q, (rank q < NF)%nat.
Notation state_ok := (state_ok prog NF).

(* a Get of a settled query returns the from-scratch value and executes nothing *)
Definition unchanged_reused (s : db) (q : qkey) (s' : db) (r : out) : Prop :=
  settled s q -> forall v, r = Ok v ->
  v = eval prog NF (snap_of s) q /\
  exists new, d_log s' = new ++ d_log s /\ forall x, ~ In (EvExec x) new.

Lemma get_unchanged_reused fuel s q :
  (forall p, (rank p < fuel)%nat) -> state_ok false s ->
  unchanged_reused s q (fst (step prog noeq fams fuel s (OGet q))) (snd (step prog noeq fams fuel s (OGet q))).
Proof.
  intros Hfuel Hok Hset v Hr.
  destruct (step prog noeq fams fuel s (OGet q)) as [s' r] eqn:Hstep. cbn [fst snd] in *. subst r.
  destruct (get_rx prog noeq fams rank Hrank NF Hbound fuel s q s' v Hfuel Hok Hstep) as (_ & Hval & _).
  split; [exact Hval|].
  destruct Hok as [(H & D & HI) Hst]. cbn [step] in Hstep.
  destruct (dlevel_ok prog noeq rank Hrank NF Hbound H D fuel) as [HF HM].
  destruct (nlevel_ok prog noeq rank Hrank NF Hbound H D fuel) as [_ HM'].
  assert (Hso : stack_ok rank s q) by (intros p Hp; rewrite Hst in Hp; destruct Hp).
  assert (Hq : (rank q <= fuel)%nat) by (specialize (Hfuel q); lia).
  pose proof (fetch_nx_ok prog noeq rank Hrank NF H D (level prog noeq fuel) fuel HF HM HM' q s Hq HI Hso Hset) as Hwp.
  unfold wp in Hwp.
  destruct (fetch prog noeq (level prog noeq fuel) q s) as [s1 [[[v1 d1] c1] | p |]] eqn:Hf;
    [|discriminate | discriminate].
  injection Hstep as <- <-. apply (mv_log _ _ Hwp).
Qed.

Theorem unchanged_reused_all fuel :
  (forall p, (rank p < fuel)%nat) ->
  forall ops dirty s, Forall dur_op ops -> wf_ops dirty ops -> state_ok dirty s ->
  gets_sat prog noeq fams unchanged_reused fuel s ops.
Proof.
  intros Hfuel. apply (gets_sat_reachable prog noeq fams rank Hrank NF Hbound unchanged_reused fuel Hfuel).
  intros s q Hok. apply get_unchanged_reused; assumption.
Qed.

Theorem unchanged_reused_init fuel :
  (forall p, (rank p < fuel)%nat) ->
  forall iv idur lru0 ops, (forall i, idur i <= 3) -> Forall dur_op ops -> wf_ops false ops ->
  gets_sat prog noeq fams unchanged_reused fuel (init iv idur lru0) ops.
Proof.
  intros Hfuel. apply (gets_sat_init prog noeq fams rank Hrank NF Hbound unchanged_reused fuel Hfuel).
  intros s q Hok. apply get_unchanged_reused; assumption.
Qed.

End VTop.

(* Core/Wp.v — a small weakest-precondition calculus for the state+error monad. *)
From Salsa Require Import Base.
From Salsa.Core Require Import Model.

(* [wp m Q X s]: running m from s never runs out of fuel; a normal result satisfies Q,
   a panic satisfies X. *)
Definition wp {A} (m : M A) (Q : A -> db -> Prop) (X : panic -> db -> Prop) (s : db) : Prop :=
  match m s with
  | (s', Ok a) => Q a s'
  | (s', Panic p) => X p s'
  | (_, Fuel) => False
  end.

Lemma wp_ret {A} (a : A) (Q : A -> db -> Prop) (X : panic -> db -> Prop) s : Q a s -> wp (ret a) Q X s.
Proof. intros H; exact H. Qed.

Lemma wp_bind {A B} (m : M A) (f : A -> M B) (Q : B -> db -> Prop) (X : panic -> db -> Prop) s :
  wp m (fun a s' => wp (f a) Q X s') X s -> wp (bind m f) Q X s.
Proof.
  unfold wp, bind. destruct (m s) as [s' [a | p |]]; intros H; exact H.
Qed.

Lemma wp_get (Q : db -> db -> Prop) (X : panic -> db -> Prop) s : Q s s -> wp get Q X s.
Proof. intros H; exact H. Qed.

Lemma wp_modify f (Q : unit -> db -> Prop) (X : panic -> db -> Prop) s : Q tt (f s) -> wp (modify f) Q X s.
Proof. intros H; exact H. Qed.

Lemma wp_fail {A} p (Q : A -> db -> Prop) (X : panic -> db -> Prop) s : X p s -> wp (fail p) Q X s.
Proof. intros H; exact H. Qed.

Lemma wp_emit e (Q : unit -> db -> Prop) (X : panic -> db -> Prop) s :
  (forall s1, d_revs s1 = d_revs s -> d_in s1 = d_in s -> d_cell s1 = d_cell s ->
              d_pcell s1 = d_pcell s -> d_memo s1 = d_memo s -> d_seen s1 = d_seen s ->
              d_stack s1 = d_stack s -> d_lru s1 = d_lru s ->
              (d_evfault s = None -> d_evfault s1 = None) ->
              d_log s1 = e :: d_log s -> Q tt s1) ->
  (d_evfault s <> None -> X PInjected (set_evfault s None)) ->
  wp (emit e) Q X s.
Proof.
  intros HQ HX. unfold wp, emit.
  destruct (d_evfault s) as [[|n]|] eqn:He.
  - apply HX. discriminate.
  - apply HQ; try reflexivity. discriminate.
  - apply HQ; try reflexivity. intros _. cbn. exact He.
Qed.

Lemma wp_conseq {A} (m : M A) (Q Q' : A -> db -> Prop) (X X' : panic -> db -> Prop) s :
  wp m Q X s -> (forall a s', Q a s' -> Q' a s') -> (forall p s', X p s' -> X' p s') -> wp m Q' X' s.
Proof.
  unfold wp. destruct (m s) as [s' [a | p |]]; intros H HQ HX; auto.
Qed.

Lemma wp_inv {A} (m : M A) (Q : A -> db -> Prop) (X : panic -> db -> Prop) s :
  wp m Q X s ->
  (exists s' a, m s = (s', Ok a) /\ Q a s') \/ (exists s' p, m s = (s', Panic p) /\ X p s').
Proof.
  unfold wp. destruct (m s) as [s' [a | p |]]; intros H.
  - left; eauto.
  - right; eauto.
  - destruct H.
Qed.

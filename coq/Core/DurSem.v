(* Core/DurSem.v — the semantic side of the durability short-cut: durability levels of a
   query over a history (which inputs its from-scratch evaluation reads, transitively, and how
   durable they were), the call closure, and constancy over windows without writes at a level.
   No model state here: only histories. *)
From Salsa Require Import Base.
From Salsa.Kern Require Import CoreK CoreKFacts K2_WriteReport.
From Salsa.Core Require Import Model Spec SpecProofs Wp Inv.

(* ---------------------------------------------------------------- the last-changed vector *)
Definition revs_ok (r : revs) : Prop := 1 <= r_high r /\ r_high r <= r_med r /\ r_med r <= r_cur r.

Lemma lc_cases r d :
  (d = 0 /\ last_changed r d = r_cur r) \/ (d = 1 /\ last_changed r d = r_med r) \/
  (d = 2 /\ last_changed r d = r_high r) \/ (3 <= d /\ last_changed r d = 1).
Proof.
  destruct (N.eq_dec d 0) as [-> | H0]; [left; split; reflexivity|].
  destruct (N.eq_dec d 1) as [-> | H1]; [right; left; split; reflexivity|].
  destruct (N.eq_dec d 2) as [-> | H2]; [right; right; left; split; reflexivity|].
  right; right; right. split; [lia|].
  unfold last_changed, Kernels.k_last_changed_revision, Kernels.k_dur_index.
  destruct (N.ltb_spec d 3) as [Hlt | Hge]; [lia | reflexivity].
Qed.

Lemma lc_anti r d d' : revs_ok r -> d <= d' -> last_changed r d' <= last_changed r d.
Proof.
  intros (A & B & C) Hd.
  destruct (lc_cases r d) as [[-> ->] | [[-> ->] | [[-> ->] | [Hd3 ->]]]];
    destruct (lc_cases r d') as [[-> ->] | [[-> ->] | [[-> ->] | [Hd3' ->]]]]; lia.
Qed.

Lemma lc_le_cur r d : revs_ok r -> last_changed r d <= r_cur r.
Proof.
  intros (A & B & C).
  destruct (lc_cases r d) as [[-> ->] | [[-> ->] | [[-> ->] | [Hd3 ->]]]]; lia.
Qed.

Lemma lc_ge1 r d : revs_ok r -> 1 <= last_changed r d.
Proof.
  intros (A & B & C).
  destruct (lc_cases r d) as [[-> ->] | [[-> ->] | [[-> ->] | [Hd3 ->]]]]; lia.
Qed.

Lemma lc_zero r : last_changed r 0 = r_cur r.
Proof. reflexivity. Qed.

Lemma lc_never r d : 3 <= d -> last_changed r d = 1.
Proof.
  intros Hd. destruct (lc_cases r d) as [[-> _] | [[-> _] | [[-> _] | [_ E]]]]; lia.
Qed.

(* report_tracked_write(d): exactly the levels <= d move to the current revision *)
Lemma lc_report_write r d k :
  last_changed (report_write r d) k =
  if (k =? 0) || ((k <=? d) && (k <? 3)) then r_cur r else last_changed r k.
Proof.
  destruct (lc_cases r k) as [[-> E] | [[-> E] | [[-> E] | [Hk E]]]]; rewrite E.
  - reflexivity.
  - rewrite last_changed_medium. cbn [report_write r_med].
    rewrite k_report_write_slot_spec. cbn [N.leb N.eqb orb N.ltb N.compare Pos.compare Pos.compare_cont andb].
    destruct (1 <=? d); reflexivity.
  - rewrite last_changed_high. cbn [report_write r_high].
    rewrite k_report_write_slot_spec.
    change (1 <=? 2) with true. cbn [andb].
    destruct (2 <=? d); reflexivity.
  - rewrite lc_never by exact Hk.
    destruct (N.eqb_spec k 0) as [-> | _]; [lia|].
    destruct (N.ltb_spec k 3) as [Hlt | _]; [lia|]. rewrite andb_false_r. reflexivity.
Qed.

Lemma revs_ok_report_write r d : revs_ok r -> revs_ok (report_write r d).
Proof.
  intros (A & B & C). unfold revs_ok. cbn [report_write r_cur r_med r_high].
  rewrite !k_report_write_slot_spec.
  change (1 <=? 1) with true. change (1 <=? 2) with true. cbn [andb].
  destruct (N.leb_spec 1 d), (N.leb_spec 2 d); lia.
Qed.

Lemma lc_report_write_ge r d k : revs_ok r -> last_changed r k <= last_changed (report_write r d) k.
Proof.
  intros Hr. rewrite lc_report_write.
  destruct ((k =? 0) || ((k <=? d) && (k <? 3))); [apply lc_le_cur; exact Hr | lia].
Qed.

(* untracked reads: report_untracked_read with or without an external cell *)
Definition untr (x : rd) : Prop := x = RTouch \/ exists c, x = RCell c.

Section DurSem.
Variable prog : qkey -> body.
Variable rank : qkey -> nat.
Hypothesis Hrank : calls_below prog rank.
Variable NF : nat.
Hypothesis Hbound : forall q, (rank q < NF)%nat.
Notation E := (E prog NF).
Notation tr := (tr prog NF).
Notation envat := (envat prog NF).

(* the durability of every input at every revision (ghost, like the snapshot history) *)
Definition dhist := rev -> ikey -> dur.

Section Hist.
Variable H : hist.
Variable D : dhist.

(* [durge r k q]: at revision r, every input the from-scratch evaluation of q reads
   (transitively) has durability >= k, and unless k = 0 it performs no untracked read *)
Inductive durge (r : rev) (k : dur) : qkey -> Prop :=
| durge_intro q :
    (forall i, In (RIn i) (tr H r q) -> k <= D r i) ->
    (forall d, In (RQ d) (tr H r q) -> durge r k d) ->
    (forall x, In x (tr H r q) -> untr x -> k = 0) ->
    durge r k q.

Lemma durge_in r k q i : durge r k q -> In (RIn i) (tr H r q) -> k <= D r i.
Proof. intros [q0 A _ _]. apply A. Qed.

Lemma durge_q r k q d : durge r k q -> In (RQ d) (tr H r q) -> durge r k d.
Proof. intros [q0 _ B _]. apply B. Qed.

Lemma durge_untr r k q x : durge r k q -> In x (tr H r q) -> untr x -> k = 0.
Proof. intros [q0 _ _ C]. apply C. Qed.

Lemma durge_mono r k k' q : k' <= k -> durge r k q -> durge r k' q.
Proof.
  intros Hk Hd. induction Hd as [q A B IH C]. constructor.
  - intros i Hi. specialize (A i Hi). lia.
  - exact IH.
  - intros x Hx Hu. specialize (C x Hx Hu). lia.
Qed.

Lemma durge_zero_n r : forall n q, (rank q < n)%nat -> durge r 0 q.
Proof.
  induction n as [|n IH]; intros q Hq; [inversion Hq|].
  constructor.
  - intros i _. lia.
  - intros d Hd. apply IH. pose proof (tr_calls prog rank Hrank NF H _ _ _ Hd). lia.
  - intros x _ _. reflexivity.
Qed.

Lemma durge_zero r q : durge r 0 q.
Proof. apply (durge_zero_n r (S (rank q))). lia. Qed.

(* the semantic call closure of f at r *)
Inductive clos (r : rev) : qkey -> qkey -> Prop :=
| clos_refl f : clos r f f
| clos_step f d e : In (RQ d) (tr H r f) -> clos r d e -> clos r f e.

Lemma clos_trans r f d e : clos r f d -> clos r d e -> clos r f e.
Proof.
  intros Hfd Hde. induction Hfd as [f | f d0 d Hin Hd0 IH]; [exact Hde|].
  eapply clos_step; [exact Hin | apply IH; exact Hde].
Qed.

Lemma clos_right r f d e : clos r f d -> In (RQ e) (tr H r d) -> clos r f e.
Proof.
  intros Hfd Hin. eapply clos_trans; [exact Hfd|].
  eapply clos_step; [exact Hin | apply clos_refl].
Qed.

Lemma clos_one r f d : In (RQ d) (tr H r f) -> clos r f d.
Proof. intros Hin. eapply clos_step; [exact Hin | apply clos_refl]. Qed.

Lemma clos_rank r f d : clos r f d -> (rank d <= rank f)%nat.
Proof.
  intros Hc. induction Hc as [f | f d0 d Hin Hd0 IH]; [lia|].
  pose proof (tr_calls prog rank Hrank NF H _ _ _ Hin). lia.
Qed.

Lemma clos_neq_rank r f d : clos r f d -> d <> f -> (rank d < rank f)%nat.
Proof.
  intros Hc Hne. destruct Hc as [f | f d0 d Hin Hd0]; [contradiction|].
  pose proof (tr_calls prog rank Hrank NF H _ _ _ Hin).
  pose proof (clos_rank _ _ _ Hd0). lia.
Qed.

Lemma durge_clos r k f d : durge r k f -> clos r f d -> durge r k d.
Proof.
  intros Hd Hc. induction Hc as [f | f d0 d Hin Hd0 IH]; [exact Hd|].
  apply IH. eapply durge_q; eassumption.
Qed.

(* a window [a, b] in which no input of level >= k was written (value or durability) *)
Definition wstable (k : dur) (a b : rev) : Prop :=
  forall i, k <= D a i -> forall r, a <= r -> r <= b ->
    sn_in (H r) i = sn_in (H a) i /\ D r i = D a i.

Lemma wstable_sub k a b b' : wstable k a b -> b' <= b -> wstable k a b'.
Proof. intros Hw Hb i Hi r Ha Hr. apply Hw; [exact Hi | exact Ha | lia]. Qed.

(* support constancy: a query whose level is >= k >= 1 has the same value, the same read
   trace and the same level throughout a k-stable window *)
Lemma durge_stable_n k a b : 1 <= k -> wstable k a b ->
  forall n q, (rank q < n)%nat -> durge a k q -> forall r, a <= r -> r <= b ->
    tr H r q = tr H a q /\ E H r q = E H a q /\ durge r k q.
Proof.
  intros Hk Hw. induction n as [|n IH]; intros q Hq Hd r Ha Hb; [inversion Hq|].
  assert (Hag : agree_on (envat H a) (envat H r) (tr H a q)).
  { intros x Hx. destruct x as [i | d | c |]; cbn.
    - symmetry. apply (Hw i); [eapply durge_in; eassumption | exact Ha | exact Hb].
    - symmetry. apply (IH d); [|eapply durge_q; eassumption | exact Ha | exact Hb].
      pose proof (tr_calls prog rank Hrank NF H _ _ _ Hx). lia.
    - exfalso. assert (k = 0) by (eapply durge_untr; [exact Hd | exact Hx | right; eauto]). lia.
    - reflexivity. }
  destruct (trace_determined (prog q) _ _ Hag) as [Htr Hrun].
  assert (Htr' : tr H r q = tr H a q) by exact Htr.
  split; [exact Htr'|]. split.
  - rewrite !(E_unfold prog rank Hrank NF Hbound). exact Hrun.
  - constructor; rewrite Htr'.
    + intros i Hi. pose proof (durge_in _ _ _ _ Hd Hi) as Hki.
      destruct (Hw i Hki r Ha Hb) as [_ ->]. exact Hki.
    + intros d Hx. apply (IH d); [|eapply durge_q; eassumption | exact Ha | exact Hb].
      pose proof (tr_calls prog rank Hrank NF H _ _ _ Hx). lia.
    + intros x Hx Hu. eapply durge_untr; eassumption.
Qed.

Lemma durge_stable k a b q r : 1 <= k -> wstable k a b -> durge a k q -> a <= r -> r <= b ->
  tr H r q = tr H a q /\ E H r q = E H a q /\ durge r k q.
Proof. intros Hk Hw Hd. apply (durge_stable_n k a b Hk Hw (S (rank q))); [lia | exact Hd]. Qed.

Lemma clos_stable k a b f r : 1 <= k -> wstable k a b -> durge a k f -> a <= r -> r <= b ->
  forall d, clos r f d <-> clos a f d.
Proof.
  intros Hk Hw Hd Ha Hb d. split; intros Hc.
  - revert Hd. induction Hc as [f | f d0 d Hin Hd0 IH]; intros Hd; [apply clos_refl|].
    destruct (durge_stable k a b f r Hk Hw Hd Ha Hb) as (Htr & _ & _).
    rewrite Htr in Hin. eapply clos_step; [exact Hin|]. apply IH. eapply durge_q; eassumption.
  - revert Hd. induction Hc as [f | f d0 d Hin Hd0 IH]; intros Hd; [apply clos_refl|].
    destruct (durge_stable k a b f r Hk Hw Hd Ha Hb) as (Htr & _ & _).
    eapply clos_step; [rewrite Htr; exact Hin|]. apply IH. eapply durge_q; eassumption.
Qed.

End Hist.

(* durge / clos at r only depend on the history at r *)
Lemma durge_hist_eq H D H' D' r k q :
  H' r = H r -> (forall i, D' r i = D r i) -> durge H D r k q -> durge H' D' r k q.
Proof.
  intros HH HD Hd. induction Hd as [q A B IH C].
  assert (Htr : tr H' r q = tr H r q).
  { unfold tr, Inv.tr, envat, Inv.envat, Inv.E. rewrite HH. reflexivity. }
  constructor; rewrite Htr.
  - intros i Hi. rewrite HD. apply A; exact Hi.
  - exact IH.
  - exact C.
Qed.

Lemma clos_hist_eq H H' r f d : H' r = H r -> clos H r f d -> clos H' r f d.
Proof.
  intros HH Hc. induction Hc as [f | f d0 d Hin Hd0 IH]; [apply clos_refl|].
  eapply clos_step; [|exact IH].
  unfold tr, Inv.tr, envat, Inv.envat, Inv.E. rewrite HH. exact Hin.
Qed.

End DurSem.

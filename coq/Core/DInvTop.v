(* Core/DInvTop.v — the durability invariant across API operations (new revisions, writes that
   report the OLD durability and install the new one, synthetic writes, eviction, reads), and
   the from-scratch theorem for inputs of ARBITRARY durability: [from_scratch_dur]. *)
From Salsa Require Import Base.
From Salsa.Kern Require Import CoreK CoreKFacts.
From Salsa.Core Require Import Model Spec SpecProofs Wp Inv InvFrame InvSem InvTop DurSem DInv DInvSem DInvOps.

Section Top.
Variable prog : qkey -> body.
Variable noeq : qkey -> bool.
Variable fams : list N.
Variable rank : qkey -> nat.
Hypothesis Hrank : calls_below prog rank.
Variable NF : nat.
Hypothesis Hbound : forall q, (rank q < NF)%nat.
Notation E := (E prog NF).
Notation tr := (tr prog NF).
Notation durge := (durge prog NF).
Notation clos := (clos prog NF).
Notation dmemo_ok := (dmemo_ok prog NF).
Notation DInv := (DInv prog NF).
Notation obs_pre := (obs_pre prog NF).

(* ---------------------------------------------------------------- durability histories *)
Definition extendD (D : dhist) (c : rev) (f : ikey -> dur) : dhist :=
  fun r => if r =? c then f else D r.

Lemma extendD_same D c f : extendD D c f c = f.
Proof. unfold extendD. rewrite N.eqb_refl. reflexivity. Qed.

Lemma extendD_other D c f r : r <> c -> extendD D c f r = D r.
Proof. unfold extendD. intros Hne. apply N.eqb_neq in Hne. rewrite Hne. reflexivity. Qed.

Definition durs_of (s : db) : ikey -> dur := fun i => f_dur (d_in s i).

(* ---------------------------------------------------------------- eviction keeps everything but values *)
Definition memo_sim (m m' : memo) : Prop :=
  m_verified m' = m_verified m /\ m_changed m' = m_changed m /\ m_dur m' = m_dur m /\
  m_untracked m' = m_untracked m /\ m_edges m' = m_edges m /\
  (forall x, m_val m' = Some x -> m_val m = Some x).

Lemma memo_sim_refl m : memo_sim m m.
Proof. repeat split; auto. Qed.

Lemma memo_sim_evict m : memo_sim m (evict_memo m).
Proof.
  unfold evict_memo. destruct (m_untracked m) eqn:Hu; [apply memo_sim_refl|].
  repeat split; cbn; auto. discriminate.
Qed.

Lemma evicted_fwd mm mm' q m : evicted_from mm mm' -> mm q = Some m ->
  exists m', mm' q = Some m' /\ memo_sim m m'.
Proof.
  intros Hev Hm. destruct (Hev q) as [Heq | (m0 & Hm0 & Heq)].
  - exists m. split; [congruence | apply memo_sim_refl].
  - rewrite Hm in Hm0. injection Hm0 as <-. exists (evict_memo m). split; [exact Heq | apply memo_sim_evict].
Qed.

Lemma evicted_bwd mm mm' q m' : evicted_from mm mm' -> mm' q = Some m' ->
  exists m, mm q = Some m /\ memo_sim m m'.
Proof.
  intros Hev Hm'. destruct (Hev q) as [Heq | (m0 & Hm0 & Heq)].
  - exists m'. split; [congruence | apply memo_sim_refl].
  - rewrite Heq in Hm'. injection Hm' as <-. exists m0. split; [exact Hm0 | apply memo_sim_evict].
Qed.

(* ---------------------------------------------------------------- the invariant modulo cells *)
Definition DInv_d (H : hist) (D : dhist) (s : db) : Prop :=
  DInv H D (set_cell s (sn_cell (H (cur s)))).

(* The general transfer lemma: from (dirty) s under (H, D) to s' under (H', D'). *)
Lemma DInv_transfer H D H' D' s s' :
  DInv_d H D s ->
  cur s <= cur s' -> 1 <= cur s' -> revs_ok (d_revs s') ->
  (forall k, lcs s k <= lcs s' k) ->
  evicted_from (d_memo s) (d_memo s') ->
  (forall i, f_changed (d_in s i) <= f_changed (d_in s' i)) ->
  (* the past is kept wherever a memo was verified *)
  (forall q m, d_memo s q = Some m ->
     H' (m_verified m) = H (m_verified m) /\ forall i, D' (m_verified m) i = D (m_verified m) i) ->
  (forall i r, f_changed (d_in s' i) <= r -> r <= cur s' -> sn_in (H' r) i = f_val (d_in s' i)) ->
  (forall i r, f_changed (d_in s' i) <= r -> r <= cur s' -> D' r i = f_dur (d_in s' i)) ->
  (forall i, f_changed (d_in s' i) <= cur s') ->
  (forall c, sn_cell (H' (cur s')) c = d_cell s' c) ->
  (forall r i, D' r i <= 3) ->
  (forall r i, r < cur s' -> lcs s' (D' r i) <= r ->
     sn_in (H' (r + 1)) i = sn_in (H' r) i /\ D' (r + 1) i = D' r i) ->
  DInv H' D' s'.
Proof.
  intros HI Hc H1 Hrv Hlc Hev Hfc Hpast Hin Hdur Hinle Hcell Hd3 Hwr.
  unfold DInv_d in HI. destruct HI as [a a' b b' c d e f g].
  change (cur (set_cell s _)) with (cur s) in *.
  change (d_memo (set_cell s _)) with (d_memo s) in *.
  assert (Hok : forall q m m', d_memo s q = Some m -> memo_sim m m' -> dmemo_ok H' D' s' q m').
  { intros q m m' Hm (S1 & S2 & S3 & S4 & S5 & S6). specialize (g q m Hm).
    destruct g as [a0 b0 c0 d0 e0 f0 g0 h0 i0 k0 j0].
    destruct (Hpast q m Hm) as [HHv HDv].
    assert (Hdg : forall k x, durge H D (m_verified m) k x -> durge H' D' (m_verified m) k x).
    { intros k x. apply (durge_hist_eq prog NF H D H' D'); assumption. }
    assert (Hdg' : forall k x, durge H' D' (m_verified m) k x -> durge H D (m_verified m) k x).
    { intros k x. apply (durge_hist_eq prog NF H' D' H D); [symmetry; exact HHv | intros i; symmetry; apply HDv]. }
    constructor; rewrite ?S1, ?S2, ?S3, ?S4, ?S5, ?(tr_hist_eq prog NF H H' _ q HHv); auto.
    - change (cur (set_cell s _)) with (cur s) in a0. lia.
    - intros x Hx. rewrite (E_hist_eq prog NF H H' _ q HHv). apply b0. apply S6; exact Hx.
    - intros i Hi. rewrite HDv. apply c0; exact Hi.
    - intros d1 Hd1. destruct (d0 d1 Hd1) as [A | A]; [left; exact A | right; apply Hdg; exact A].
    - destruct k0 as [A | (x & Hx & Hs)]; [left; exact A | right].
      exists x. split; [exact Hx|]. destruct x as [i1 | d1 | c1 |]; cbn in *; try exact Hs.
      + change (d_in (set_cell s _) i1) with (d_in s i1) in Hs. specialize (Hfc i1). lia.
      + destruct Hs as (md & Hmd & Hle).
        change (d_memo (set_cell s _) d1) with (d_memo s d1) in Hmd.
        destruct (evicted_fwd _ _ d1 md Hev Hmd) as (md' & Hmd' & (_ & T2 & _)).
        exists md'. split; [exact Hmd' | lia].
    - intros d1 Hd1. apply (clos_hist_eq prog NF H' H) in Hd1; [|symmetry; exact HHv].
      destruct (j0 d1 Hd1) as (md & Hmd & Hobs).
      change (d_memo (set_cell s _) d1) with (d_memo s d1) in Hmd.
      destruct (evicted_fwd _ _ d1 md Hev Hmd) as (md' & Hmd' & (T1 & T2 & T3 & _)).
      exists md'. split; [exact Hmd'|].
      intros Hp. rewrite T1, T3.
      destruct (Hpast d1 md Hmd) as [HHd _].
      rewrite (E_hist_eq prog NF H H' _ d1 HHv), (E_hist_eq prog NF H H' _ d1 HHd).
      apply Hobs. destruct Hp as [Hp | (k & Hk & Hlk)].
      + left. rewrite <- T2. exact Hp.
      + right. exists k. split; [apply Hdg'; exact Hk|].
        change (lcs (set_cell s _) k) with (lcs s k). specialize (Hlc k). lia. }
  constructor; auto.
  intros q m' Hm'. destruct (evicted_bwd _ _ q m' Hev Hm') as (m & Hm & Hsim).
  apply (Hok q m m' Hm Hsim).
Qed.

Lemma DInv_to_d H D s : DInv H D s -> DInv_d H D s.
Proof.
  intros [a a' b b' c d e f g]. unfold DInv_d. constructor; auto.
  intros q m Hm. specialize (g q m Hm). destruct g as [a0 b0 c0 d0 e0 f0 g0 h0 i0 k0 j0].
  constructor; auto.
Qed.

Lemma DInv_d_facts H D s : DInv_d H D s ->
  1 <= cur s /\ revs_ok (d_revs s) /\
  (forall q m, d_memo s q = Some m -> m_verified m <= cur s) /\
  (forall i r, f_changed (d_in s i) <= r -> r <= cur s -> sn_in (H r) i = f_val (d_in s i)) /\
  (forall i r, f_changed (d_in s i) <= r -> r <= cur s -> D r i = f_dur (d_in s i)) /\
  (forall i, f_changed (d_in s i) <= cur s) /\ (forall r i, D r i <= 3) /\
  (forall r i, r < cur s -> lcs s (D r i) <= r ->
     sn_in (H (r + 1)) i = sn_in (H r) i /\ D (r + 1) i = D r i).
Proof.
  unfold DInv_d. intros [a a' b b' c d e f g].
  split; [exact a|]. split; [exact a'|]. split.
  - intros q m Hm. pose proof (mo_order _ _ _ _ _ _ _ (g q m Hm)) as (_ & _ & Hv). exact Hv.
  - split; [exact b|]. split; [exact b'|]. split; [exact c|]. split; [exact e | exact f].
Qed.

(* ---------------------------------------------------------------- "ok" states *)
Definition OK (s : db) : Prop := exists H D, DInv H D s.
Definition OK_d (s : db) : Prop := exists H D, DInv_d H D s.

Lemma OK_to_d s : OK s -> OK_d s.
Proof. intros (H & D & HI). exists H, D. apply DInv_to_d; exact HI. Qed.

Lemma DInv_snap H D s : DInv H D s -> snap_eq (H (cur s)) (snap_of s).
Proof.
  intros HI. split; cbn.
  - intros i. apply (inv_in _ _ _ _ _ HI); [apply (inv_in_le _ _ _ _ _ HI) | lia].
  - apply (inv_cell _ _ _ _ _ HI).
Qed.

(* changes that keep the revision vector, the inputs and (up to eviction) the memos *)
Lemma OK_d_same s s' :
  OK_d s -> d_revs s' = d_revs s -> d_in s' = d_in s ->
  evicted_from (d_memo s) (d_memo s') -> OK_d s'.
Proof.
  intros (H & D & HI) Hr Hi Hev. exists H, D.
  destruct (DInv_d_facts H D s HI) as (F1 & F2 & F3 & F4 & F5 & F6 & F7 & F8).
  assert (Hc : cur s' = cur s) by (unfold cur; rewrite Hr; reflexivity).
  unfold DInv_d.
  apply (DInv_transfer H D H D s (set_cell s' (sn_cell (H (cur s'))))); auto;
    change (cur (set_cell s' _)) with (cur s'); change (d_in (set_cell s' _)) with (d_in s');
    change (d_revs (set_cell s' _)) with (d_revs s'); rewrite ?Hc, ?Hi, ?Hr; auto; try lia.
  - intros k. unfold lcs. cbn. rewrite Hr. lia.
  - intros r i Hlt Hl. apply F8; [exact Hlt|]. unfold lcs in *. cbn in Hl. rewrite Hr in Hl. exact Hl.
Qed.

Lemma OK_same s s' :
  OK s -> d_revs s' = d_revs s -> d_in s' = d_in s -> d_cell s' = d_cell s ->
  evicted_from (d_memo s) (d_memo s') -> OK s'.
Proof.
  intros (H & D & HI) Hr Hi Hce Hev. exists H, D.
  destruct (DInv_d_facts H D s (DInv_to_d H D s HI)) as (F1 & F2 & F3 & F4 & F5 & F6 & F7 & F8).
  assert (Hc : cur s' = cur s) by (unfold cur; rewrite Hr; reflexivity).
  apply (DInv_transfer H D H D s s'); rewrite ?Hc, ?Hi, ?Hr; auto; try lia.
  - apply DInv_to_d; exact HI.
  - intros k. unfold lcs. rewrite Hr. lia.
  - rewrite Hce. apply (inv_cell _ _ _ _ _ HI).
  - intros r i Hlt Hl. apply F8; [exact Hlt|]. unfold lcs in *. rewrite Hr in Hl. exact Hl.
Qed.

(* a state in which nothing has been verified at the current revision yet *)
Definition fresh (s : db) : Prop :=
  forall q m, d_memo s q = Some m -> m_verified m < cur s.

(* starting a new revision: the current-revision slot moves, nothing else *)
Lemma OK_advance s s' :
  OK_d s ->
  d_revs s' = {| r_cur := r_cur (d_revs s) + 1; r_med := r_med (d_revs s); r_high := r_high (d_revs s) |} ->
  d_in s' = d_in s ->
  evicted_from (d_memo s) (d_memo s') ->
  OK s' /\ fresh s'.
Proof.
  intros (H & D & HI) Hr Hi Hev.
  destruct (DInv_d_facts H D s HI) as (F1 & F2 & F3 & F4 & F5 & F6 & F7 & F8).
  assert (Hc : cur s' = cur s + 1) by (unfold cur; rewrite Hr; reflexivity).
  assert (Hlc : forall k, lcs s k <= lcs s' k).
  { intros k. unfold lcs. rewrite Hr.
    destruct (lc_cases (d_revs s) k) as [[-> ->] | [[-> ->] | [[-> ->] | [Hk ->]]]]; cbn; try lia.
    rewrite lc_never by exact Hk. lia. }
  split.
  - exists (extend H (cur s') (snap_of s')), (extendD D (cur s') (durs_of s')).
    apply (DInv_transfer H D _ _ s s'); auto; try lia.
    + destruct F2 as (A & B & C). rewrite Hr. unfold revs_ok; cbn. lia.
    + intros i. rewrite Hi. lia.
    + intros q m Hm. specialize (F3 q m Hm).
      split; [apply extend_other; lia | intros i; rewrite extendD_other by lia; reflexivity].
    + intros i r Hle Hrc. destruct (N.eq_dec r (cur s')) as [-> | Hne].
      * rewrite extend_same. reflexivity.
      * rewrite extend_other by exact Hne. rewrite Hi in *. apply F4; lia.
    + intros i r Hle Hrc. destruct (N.eq_dec r (cur s')) as [-> | Hne].
      * rewrite extendD_same. reflexivity.
      * rewrite extendD_other by exact Hne. rewrite Hi in *. apply F5; lia.
    + intros i. rewrite Hi. specialize (F6 i). lia.
    + intros c. rewrite extend_same. reflexivity.
    + intros r i. unfold extendD. destruct (r =? cur s'); [|apply F7].
      unfold durs_of. rewrite Hi. rewrite <- (F5 i (cur s)); [apply F7 | apply F6 | lia].
    + intros r i Hlt Hl.
      destruct (N.eq_dec (r + 1) (cur s')) as [Heq | Hne].
      * assert (r = cur s) by lia. subst r.
        rewrite Heq, extend_same, extendD_same, extend_other, extendD_other by lia.
        unfold durs_of; cbn. rewrite Hi.
        split; symmetry; [apply F4 | apply F5]; try apply F6; lia.
      * rewrite !extend_other, !extendD_other by lia.
        rewrite extendD_other in Hl by lia.
        apply F8; [lia|]. specialize (Hlc (D r i)). lia.
  - intros q m' Hm'. destruct (evicted_bwd _ _ q m' Hev Hm') as (m & Hm & (S1 & _)).
    rewrite S1. specialize (F3 q m Hm). lia.
Qed.

(* a revision-vector change alone (a synthetic write): levels only move forward *)
Lemma OK_revs s s' :
  OK s -> cur s' = cur s -> revs_ok (d_revs s') -> (forall k, lcs s k <= lcs s' k) ->
  d_in s' = d_in s -> d_cell s' = d_cell s -> d_memo s' = d_memo s -> OK s'.
Proof.
  intros (H & D & HI) Hc Hrv Hlc Hi Hce Hm. exists H, D.
  destruct (DInv_d_facts H D s (DInv_to_d H D s HI)) as (F1 & F2 & F3 & F4 & F5 & F6 & F7 & F8).
  apply (DInv_transfer H D H D s s'); rewrite ?Hc, ?Hi; auto; try lia.
  - apply DInv_to_d; exact HI.
  - rewrite Hm. apply evicted_refl.
  - rewrite Hce. apply (inv_cell _ _ _ _ _ HI).
  - intros r i Hlt Hl. apply F8; [exact Hlt|]. specialize (Hlc (D r i)). lia.
Qed.

(* the write rule: rewriting ONE input inside a fresh revision, reporting its OLD durability *)
Lemma OK_write s i v nd :
  OK s -> fresh s -> f_dur (d_in s i) <> 3 -> nd <= 3 ->
  let od := f_dur (d_in s i) in
  let r1 := if od =? D_LOW then d_revs s else report_write (d_revs s) od in
  let f' := {| f_val := v; f_changed := cur s; f_dur := nd |} in
  OK (set_in (set_revs s r1) (upd (d_in s) i f')).
Proof.
  intros (H & D & HI) Hfresh Hod Hnd od r1 f'.
  set (s' := set_in (set_revs s r1) (upd (d_in s) i f')).
  destruct (DInv_d_facts H D s (DInv_to_d H D s HI)) as (F1 & F2 & F3 & F4 & F5 & F6 & F7 & F8).
  assert (Hod3 : od < 3).
  { unfold od. pose proof (F7 (cur s) i) as A. rewrite (F5 i (cur s)) in A; [lia | apply F6 | lia]. }
  assert (Hcur_r1 : r_cur r1 = r_cur (d_revs s)).
  { unfold r1. destruct (od =? D_LOW); reflexivity. }
  assert (Hc : cur s' = cur s) by (unfold cur, s'; cbn; exact Hcur_r1).
  assert (Hrv : revs_ok r1).
  { unfold r1. destruct (od =? D_LOW); [exact F2 | apply revs_ok_report_write; exact F2]. }
  assert (Hlc : forall k, lcs s k <= lcs s' k).
  { intros k. unfold lcs, s'; cbn. unfold r1. destruct (od =? D_LOW); [lia|].
    apply lc_report_write_ge; exact F2. }
  assert (Hlc_od : forall k, k <= od -> lcs s' k = cur s).
  { intros k Hk. unfold lcs, s'; cbn. unfold r1.
    destruct (N.eqb_spec od D_LOW) as [H0 | H0].
    - unfold D_LOW in H0. replace k with 0 by lia. apply lc_zero.
    - rewrite lc_report_write.
      destruct (N.eqb_spec k 0) as [-> | Hk0]; [reflexivity|].
      destruct (N.leb_spec k od) as [_ | Hx]; [|lia].
      destruct (N.ltb_spec k 3) as [_ | Hx]; [|lia]. reflexivity. }
  assert (Hin' : forall j, j <> i -> d_in s' j = d_in s j).
  { intros j Hj. unfold s'; cbn. apply upd_other. congruence. }
  assert (Hin_i : d_in s' i = f') by (unfold s'; cbn; apply upd_same).
  exists (extend H (cur s') (snap_of s')), (extendD D (cur s') (durs_of s')).
  apply (DInv_transfer H D _ _ s s'); auto; try lia.
  - apply DInv_to_d; exact HI.
  - apply evicted_refl.
  - intros j. destruct (key_eqb_spec j i) as [-> | Hji].
    + rewrite Hin_i. cbn. apply F6.
    + rewrite (Hin' j Hji). lia.
  - intros q m Hm. specialize (Hfresh q m Hm).
    split; [apply extend_other; lia | intros j; rewrite extendD_other by lia; reflexivity].
  - intros j r Hle Hrc. destruct (N.eq_dec r (cur s')) as [-> | Hne].
    + rewrite extend_same. reflexivity.
    + rewrite extend_other by exact Hne.
      destruct (key_eqb_spec j i) as [-> | Hji].
      * rewrite Hin_i in Hle. cbn in Hle. lia.
      * rewrite (Hin' j Hji) in *. apply F4; lia.
  - intros j r Hle Hrc. destruct (N.eq_dec r (cur s')) as [-> | Hne].
    + rewrite extendD_same. reflexivity.
    + rewrite extendD_other by exact Hne.
      destruct (key_eqb_spec j i) as [-> | Hji].
      * rewrite Hin_i in Hle. cbn in Hle. lia.
      * rewrite (Hin' j Hji) in *. apply F5; lia.
  - intros j. destruct (key_eqb_spec j i) as [-> | Hji].
    + rewrite Hin_i. cbn. lia.
    + rewrite (Hin' j Hji). specialize (F6 j). lia.
  - intros c. rewrite extend_same. reflexivity.
  - intros r j. unfold extendD. destruct (r =? cur s'); [|apply F7].
    unfold durs_of. destruct (key_eqb_spec j i) as [-> | Hji].
    + rewrite Hin_i. cbn. exact Hnd.
    + rewrite (Hin' j Hji). rewrite <- (F5 j (cur s)); [apply F7 | apply F6 | lia].
  - intros r j Hlt Hl.
    destruct (N.eq_dec (r + 1) (cur s')) as [Heq | Hne].
    + (* the step into the rewritten revision *)
      rewrite extendD_other in Hl by lia.
      rewrite Heq, extend_same, extendD_same, extend_other, extendD_other by lia.
      assert (Hr1 : r + 1 = cur s) by lia.
      destruct (key_eqb_spec j i) as [-> | Hji].
      * exfalso.
        destruct (N.le_gt_cases (lcs s (D r i)) r) as [Hold | Hold].
        -- destruct (F8 r i) as [_ B]; [lia | exact Hold|].
           rewrite Hr1 in B. rewrite (F5 i (cur s)) in B; [|apply F6 | lia].
           fold od in B. rewrite <- B in Hl. rewrite Hlc_od in Hl by lia. lia.
        -- specialize (Hlc (D r i)). lia.
      * unfold durs_of, snap_of. cbn [sn_in]. rewrite !(Hin' j Hji).
        destruct (F8 r j) as [A B]; [lia | specialize (Hlc (D r j)); lia|].
        rewrite Hr1 in A, B.
        rewrite <- A, <- B. split; symmetry; [apply F4 | apply F5]; try apply F6; lia.
    + rewrite !extend_other, !extendD_other by lia.
      rewrite extendD_other in Hl by lia.
      apply F8; [lia|]. specialize (Hlc (D r j)). lia.
Qed.

(* ---------------------------------------------------------------- operations *)
Lemma new_revision_revs s :
  d_revs (new_revision fams s) =
  {| r_cur := r_cur (d_revs s) + 1; r_med := r_med (d_revs s); r_high := r_high (d_revs s) |}.
Proof.
  unfold new_revision. set (s1 := set_ccount _ 0).
  destruct (evict_all_sbm fams s1) as [a _ _ _ _]. rewrite a. reflexivity.
Qed.

Lemma OK_d_new_revision s : OK_d s -> OK (new_revision fams s) /\ fresh (new_revision fams s).
Proof.
  intros Hok. destruct (new_revision_facts fams s) as (_ & _ & C & _ & _ & F).
  apply (OK_advance s); auto. apply new_revision_revs.
Qed.

Lemma zalsa_mut_revs s : d_ccount s =? 255 = false -> d_revs (zalsa_mut fams s) = d_revs s.
Proof. intros Hc. unfold zalsa_mut. rewrite Hc. reflexivity. Qed.

Lemma OK_d_zalsa_mut s : OK_d s -> OK_d (zalsa_mut fams s).
Proof.
  intros Hok. unfold zalsa_mut. destruct (d_ccount s =? 255).
  - apply OK_to_d. apply OK_d_new_revision; exact Hok.
  - apply (OK_d_same s); auto. apply evicted_refl.
Qed.

Lemma OK_zalsa_mut s : OK s -> OK (zalsa_mut fams s).
Proof.
  intros Hok. unfold zalsa_mut. destruct (d_ccount s =? 255).
  - apply OK_d_new_revision. apply OK_to_d; exact Hok.
  - apply (OK_same s); auto. apply evicted_refl.
Qed.

Lemma evict_all_revs s : d_revs (evict_all fams s) = d_revs s.
Proof. destruct (evict_all_sbm fams s) as [a _ _ _ _]. exact a. Qed.

(* the durabilities an operation may install: the four levels *)
Definition dur_op (o : op) : Prop :=
  match o with OSet _ _ (Some d) => d <= 3 | _ => True end.

Definition state_ok (dirty : bool) (s : db) : Prop :=
  (if dirty then OK_d s else OK s) /\ d_stack s = [].

Lemma state_ok_d dirty s : state_ok dirty s -> OK_d s.
Proof. destruct dirty; intros [A _]; [exact A | apply OK_to_d; exact A]. Qed.

Notation get_ok := (get_ok prog NF).
Notation outs_ok := (outs_ok prog noeq fams NF).

(* the outcome of a Get, with the sharp set of panics: the from-scratch value, or an injected
   fault while some fault switch is on.  (The backdate-violation assertion is unreachable.) *)
Definition get_ok_strict (s : db) (q : qkey) (r : out) : Prop :=
  r = Ok (eval prog NF (snap_of s) q) \/
  (r = Panic PInjected /\ ((exists c, d_pcell s c <> 0) \/ d_evfault s <> None)).

Fixpoint outs_ok_strict (fuel : nat) (s : db) (os : list op) : Prop :=
  match os with
  | [] => True
  | o :: os' =>
      (match o with OGet q => get_ok_strict s q (snd (step prog noeq fams fuel s o)) | _ => True end) /\
      outs_ok_strict fuel (fst (step prog noeq fams fuel s o)) os'
  end.

Lemma get_ok_strict_get_ok s q r : get_ok_strict s q r -> get_ok s q r.
Proof.
  intros [Hx | [Hp Ha]]; [left; exact Hx | right].
  exists PInjected. split; [exact Hp | right; split; [reflexivity | exact Ha]].
Qed.

Lemma outs_ok_strict_outs_ok fuel : forall os s, outs_ok_strict fuel s os -> outs_ok fuel s os.
Proof.
  induction os as [|o os IH]; intros s Hx; [exact I|].
  cbn [outs_ok_strict InvTop.outs_ok] in *. destruct Hx as [A B].
  split; [|apply IH; exact B].
  destruct o; try exact I. apply get_ok_strict_get_ok; exact A.
Qed.

Lemma step_get_ok fuel s q :
  (forall p, (rank p < fuel)%nat) -> state_ok false s ->
  get_ok_strict s q (snd (step prog noeq fams fuel s (OGet q))) /\
  state_ok false (fst (step prog noeq fams fuel s (OGet q))).
Proof.
  intros Hfuel [(H & D & HI) Hst]. cbn [step].
  destruct (dlevel_ok prog noeq rank Hrank NF Hbound H D fuel) as [HF HM].
  assert (Hso : stack_ok rank s q) by (intros p Hp; rewrite Hst in Hp; destruct Hp).
  assert (Hq : (rank q <= fuel)%nat) by (specialize (Hfuel q); lia).
  pose proof (fetch_ok prog noeq rank Hrank NF Hbound H D (level prog noeq fuel) fuel HF HM q s Hq HI Hso) as Hwp.
  unfold wp in Hwp.
  destruct (fetch prog noeq (level prog noeq fuel) q s) as [s' [[[v d] c] | p |]] eqn:Hf.
  - cbn [fst snd].
    destruct Hwp as (HI' & He & _ & Hs' & Hv & _). cbn [fst snd] in Hv.
    split.
    + left. f_equal. rewrite Hv. unfold Inv.E.
      apply (eval_snap_eq prog). apply (DInv_snap H D); exact HI.
    + split; [exists H, D; exact HI' | congruence].
  - cbn [fst snd]. destruct Hwp as ([-> Ha] & HI' & _).
    split; [right; split; [reflexivity | exact Ha]|].
    split; [|reflexivity].
    exists H, D. apply (DInv_core_eq prog NF H D s'); [repeat split | exact HI'].
  - destruct Hwp.
Qed.

Lemma step_other_ok fuel dirty s o :
  dur_op o -> state_ok dirty s ->
  match o with
  | OGet _ => True
  | OSetCell _ _ => state_ok true (fst (step prog noeq fams fuel s o))
  | OSet _ _ _ | OSynth _ => state_ok false (fst (step prog noeq fams fuel s o))
  | _ => state_ok dirty (fst (step prog noeq fams fuel s o))
  end.
Proof.
  intros Hdop Hok. pose proof (state_ok_d dirty s Hok) as Hd.
  assert (Hst : d_stack s = []) by (destruct Hok; assumption).
  destruct o as [i v d | d | c v | c v | ef | q | fam n |]; cbn [step fst].
  - (* OSet *)
    pose proof (OK_d_zalsa_mut s Hd) as Hz.
    destruct (OK_d_new_revision _ Hz) as [Hn Hfresh].
    set (s1 := new_revision fams (zalsa_mut fams s)) in *.
    assert (Hst1 : d_stack s1 = []).
    { unfold s1. destruct (new_revision_facts fams (zalsa_mut fams s)) as (_ & _ & _ & _ & E0 & _).
      rewrite E0, zalsa_mut_stack. exact Hst. }
    destruct (f_dur (d_in s1 i) =? D_NEVER) eqn:Hnever; cbn [fst].
    + split; assumption.
    + split; [|exact Hst1].
      apply N.eqb_neq in Hnever. unfold D_NEVER in Hnever.
      assert (Hnd : match d with Some d' => d' | None => f_dur (d_in s1 i) end <= 3).
      { destruct d as [d'|]; [exact Hdop|].
        destruct Hn as (H1 & D1 & HI1).
        rewrite <- (inv_dur _ _ _ _ _ HI1 i (cur s1)); [apply (inv_dur3 _ _ _ _ _ HI1) | apply (inv_in_le _ _ _ _ _ HI1) | lia]. }
      exact (OK_write s1 i v _ Hn Hfresh Hnever Hnd).
  - (* OSynth *)
    pose proof (OK_d_zalsa_mut s Hd) as Hz.
    destruct (OK_d_new_revision _ Hz) as [Hn Hfresh].
    set (s1 := new_revision fams (zalsa_mut fams s)) in *.
    assert (Hst1 : d_stack s1 = []).
    { unfold s1. destruct (new_revision_facts fams (zalsa_mut fams s)) as (_ & _ & _ & _ & E0 & _).
      rewrite E0, zalsa_mut_stack. exact Hst. }
    destruct (d =? D_NEVER); cbn [fst].
    + split; assumption.
    + split; [|exact Hst1].
      assert (Hrv1 : revs_ok (d_revs s1)) by (destruct Hn as (H1 & D1 & HI1); apply (inv_revs _ _ _ _ _ HI1)).
      apply (OK_revs s1); auto.
      * cbn. apply revs_ok_report_write; exact Hrv1.
      * intros k. unfold lcs; cbn. apply lc_report_write_ge; exact Hrv1.
  - (* OSetCell *)
    split; [|exact Hst]. apply (OK_d_same s); auto. apply evicted_refl.
  - (* OSetPanic *)
    split; [|exact Hst]. destruct dirty; destruct Hok as [A _].
    + apply (OK_d_same s); auto. apply evicted_refl.
    + apply (OK_same s); auto. apply evicted_refl.
  - (* OSetEvFault *)
    split; [|exact Hst]. destruct dirty; destruct Hok as [A _].
    + apply (OK_d_same s); auto. apply evicted_refl.
    + apply (OK_same s); auto. apply evicted_refl.
  - exact I.
  - (* OSetLru *)
    split; [|cbn; rewrite zalsa_mut_stack; exact Hst].
    destruct dirty; destruct Hok as [A _].
    + apply (OK_d_same (zalsa_mut fams s)); auto; [apply OK_d_zalsa_mut; exact A | apply evicted_refl].
    + apply (OK_same (zalsa_mut fams s)); auto; [apply OK_zalsa_mut; exact A | apply evicted_refl].
  - (* OEvict *)
    destruct (evict_all_facts fams (zalsa_mut fams s)) as (A1 & A2 & A3 & A4 & A5).
    split; [|rewrite evict_all_stack, zalsa_mut_stack; exact Hst].
    destruct dirty; destruct Hok as [A _].
    + apply (OK_d_same (zalsa_mut fams s)); auto; [apply OK_d_zalsa_mut; exact A | apply evict_all_revs].
    + apply (OK_same (zalsa_mut fams s)); auto; [apply OK_zalsa_mut; exact A | apply evict_all_revs].
Qed.

(* The from-scratch theorem for inputs and writes of arbitrary durability, with the sharp
   set of panics: no backdate-violation panic, injected panics only while a switch is on. *)
Theorem from_scratch_dur_strong fuel :
  (forall p, (rank p < fuel)%nat) ->
  forall ops dirty s, Forall dur_op ops -> wf_ops dirty ops -> state_ok dirty s ->
  outs_ok_strict fuel s ops.
Proof.
  intros Hfuel. induction ops as [|o ops IH]; intros dirty s Hdur Hwf Hok; [exact I|].
  inversion Hdur as [|? ? Hdo Hdurs]; subst.
  cbn [outs_ok_strict].
  destruct o as [i v d | d | c v | c v | ef | q | fam n |].
  - split; [exact I|]. apply (IH false); [exact Hdurs | exact Hwf |].
    apply (step_other_ok fuel dirty s (OSet i v d) Hdo Hok).
  - split; [exact I|]. apply (IH false); [exact Hdurs | exact Hwf |].
    apply (step_other_ok fuel dirty s (OSynth d) Hdo Hok).
  - split; [exact I|]. apply (IH true); [exact Hdurs | exact Hwf |].
    apply (step_other_ok fuel dirty s (OSetCell c v) Hdo Hok).
  - split; [exact I|]. apply (IH dirty); [exact Hdurs | exact Hwf |].
    apply (step_other_ok fuel dirty s (OSetPanic c v) Hdo Hok).
  - split; [exact I|]. apply (IH dirty); [exact Hdurs | exact Hwf |].
    apply (step_other_ok fuel dirty s (OSetEvFault ef) Hdo Hok).
  - destruct Hwf as [-> Hwf].
    destruct (step_get_ok fuel s q Hfuel Hok) as [Hg Hs].
    split; [exact Hg|]. apply (IH false); assumption.
  - split; [exact I|]. apply (IH dirty); [exact Hdurs | exact Hwf |].
    apply (step_other_ok fuel dirty s (OSetLru fam n) Hdo Hok).
  - split; [exact I|]. apply (IH dirty); [exact Hdurs | exact Hwf |].
    apply (step_other_ok fuel dirty s OEvict Hdo Hok).
Qed.

Theorem from_scratch_dur fuel :
  (forall p, (rank p < fuel)%nat) ->
  forall ops dirty s, Forall dur_op ops -> wf_ops dirty ops -> state_ok dirty s ->
  outs_ok fuel s ops.
Proof.
  intros Hfuel ops dirty s Hdur Hwf Hok. apply outs_ok_strict_outs_ok.
  apply (from_scratch_dur_strong fuel Hfuel ops dirty s Hdur Hwf Hok).
Qed.

Lemma init_ok_dur iv idur lru0 : (forall i, idur i <= 3) -> state_ok false (init iv idur lru0).
Proof.
  intros Hid. split; [|reflexivity].
  exists (fun _ => snap_of (init iv idur lru0)), (fun _ => idur).
  constructor.
  - cbn. unfold REV_START. lia.
  - cbn. unfold revs_ok, REV_START; cbn. lia.
  - intros i r _ _. reflexivity.
  - intros i r _ _. reflexivity.
  - intros i. cbn. unfold REV_START. lia.
  - intros c. reflexivity.
  - intros r i. apply Hid.
  - intros r i _ _. split; reflexivity.
  - intros q m Hm. discriminate.
Qed.

(* from the initial database, with any initial durabilities *)
Theorem from_scratch_dur_init fuel :
  (forall p, (rank p < fuel)%nat) ->
  forall iv idur lru0 ops, (forall i, idur i <= 3) -> Forall dur_op ops -> wf_ops false ops ->
  outs_ok fuel (init iv idur lru0) ops.
Proof.
  intros Hfuel iv idur lru0 ops Hid Hdur Hwf.
  apply (from_scratch_dur fuel Hfuel ops false _ Hdur Hwf). apply init_ok_dur. exact Hid.
Qed.

Theorem from_scratch_dur_strong_init fuel :
  (forall p, (rank p < fuel)%nat) ->
  forall iv idur lru0 ops, (forall i, idur i <= 3) -> Forall dur_op ops -> wf_ops false ops ->
  outs_ok_strict fuel (init iv idur lru0) ops.
Proof.
  intros Hfuel iv idur lru0 ops Hid Hdur Hwf.
  apply (from_scratch_dur_strong fuel Hfuel ops false _ Hdur Hwf). apply init_ok_dur. exact Hid.
Qed.

(* the LOW-durability theorem of Core/InvTop.v is an instance *)
Lemma low_op_dur_op o : low_op o -> dur_op o.
Proof. destruct o as [i v [d|] | d | c v | c v | ef | q | fam n |]; cbn; intros Hl; try exact I. lia. Qed.

Corollary from_scratch_low_again fuel :
  (forall p, (rank p < fuel)%nat) ->
  forall iv lru0 ops, Forall low_op ops -> wf_ops false ops ->
  outs_ok fuel (init iv (fun _ => 0) lru0) ops.
Proof.
  intros Hfuel iv lru0 ops Hlow Hwf.
  apply (from_scratch_dur_init fuel Hfuel); [intros _; lia | | exact Hwf].
  eapply Forall_impl; [|exact Hlow]. exact low_op_dur_op.
Qed.

End Top.

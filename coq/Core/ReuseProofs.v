(* Core/ReuseProofs.v — reuse facts about the Core model (C03, C04) and the frozen-field
   facts (C02) that follow directly from the definitions. *)
From Salsa Require Import Base.
From Salsa.Kern Require Import CoreK CoreKFacts.
From Salsa.Core Require Import Model Spec Dsl.

Section Reuse.
Variable prog : qkey -> body.
Variable noeq : qkey -> bool.
Variable fams : list N.

(* C03: a memo that is verified in the current revision and holds a value is returned
   without executing or validating anything: the event log and the memo table are untouched. *)
Lemma fetch_valid_no_event L q s m v :
  d_memo s q = Some m -> m_val m = Some v -> m_verified m = cur s ->
  exists s', fetch prog noeq L q s = (s', Ok (v, m_dur m, m_changed m)) /\
             d_log s' = d_log s /\ d_memo s' = d_memo s.
Proof.
  intros Hm Hv Hver. unfold fetch, fetch_hot, bind, get. rewrite Hm, Hv.
  unfold shallow_verify. rewrite Hver, N.eqb_refl. cbn [update_shallow].
  unfold ret, modify. cbn. eexists. split; [reflexivity|]. split; reflexivity.
Qed.

(* C04: deep verification of a memo with untracked reads always answers "changed" and touches
   nothing; such a memo is never evicted; and an untracked frame has durability LOW and is
   stamped with the current revision. *)
Lemma deep_verify_untracked L q m s :
  m_untracked m = true -> deep_verify L q m s = (s, Ok (false, m)).
Proof. intros Hu. unfold deep_verify. rewrite Hu. reflexivity. Qed.

Lemma evict_untracked m : m_untracked m = true -> evict_memo m = m.
Proof. intros Hu. unfold evict_memo. rewrite Hu. reflexivity. Qed.

Lemma untracked_frame fr now :
  fr_dur (add_untracked fr now) = D_LOW /\ fr_changed (add_untracked fr now) = now /\
  fr_untracked (add_untracked fr now) = true.
Proof. repeat split. Qed.

Lemma add_read_keeps_low fr e d c : fr_dur fr = 0 -> fr_dur (add_read fr e d c) = 0.
Proof. intros H. unfold add_read, dur_min; cbn. rewrite H. apply N.min_0_l. Qed.

Lemma add_read_keeps_untracked fr e d c :
  fr_untracked (add_read fr e d c) = fr_untracked fr.
Proof. reflexivity. Qed.

(* a LOW memo verified in an earlier revision can never be shallow-verified *)
Lemma low_never_shallow s m :
  m_dur m = 0 -> m_verified m < cur s -> shallow_verify s m = ShNo.
Proof.
  intros Hd Hv. unfold shallow_verify.
  destruct (N.eqb_spec (m_verified m) (cur s)) as [Heq | _]; [lia|].
  rewrite Hd, last_changed_low.
  destruct (shallow_ok (r_cur (d_revs s)) (m_verified m)) eqn:Hs; [|reflexivity].
  apply shallow_ok_spec in Hs. unfold cur in Hv. lia.
Qed.

(* C02: a never-change field rejects every write; a never-change synthetic write is
   rejected; in both cases no input value or durability changes (only the revision has
   moved and the eviction pass has run, as in the Rust, where the assertion comes after
   new_revision). *)
Lemma new_revision_in fs s : d_in (new_revision fs s) = d_in s.
Proof.
  unfold new_revision.
  set (s1 := set_ccount _ 0).
  assert (H : forall fs' t, d_in (evict_all fs' t) = d_in t).
  { unfold evict_all. induction fs' as [|f fs' IH]; intros t; cbn [fold_left]; [reflexivity|].
    rewrite IH. destruct (lru_evict (d_lru t f)); reflexivity. }
  rewrite H. reflexivity.
Qed.

Lemma zalsa_mut_in s : d_in (zalsa_mut fams s) = d_in s.
Proof. unfold zalsa_mut. destruct (d_ccount s =? 255); [apply new_revision_in | reflexivity]. Qed.

Lemma frozen_set fuel s i v d :
  f_dur (d_in s i) = D_NEVER ->
  snd (step prog noeq fams fuel s (OSet i v d)) = Panic PNeverChange /\
  d_in (fst (step prog noeq fams fuel s (OSet i v d))) = d_in s.
Proof.
  intros Hn. cbn [step].
  rewrite new_revision_in, zalsa_mut_in, Hn. cbn.
  split; [reflexivity|]. rewrite new_revision_in, zalsa_mut_in. reflexivity.
Qed.

Lemma frozen_synth fuel s :
  snd (step prog noeq fams fuel s (OSynth D_NEVER)) = Panic PNeverChange /\
  d_in (fst (step prog noeq fams fuel s (OSynth D_NEVER))) = d_in s.
Proof.
  cbn [step]. cbn. split; [reflexivity|]. rewrite new_revision_in, zalsa_mut_in. reflexivity.
Qed.

(* a write to another field, a synthetic write, a cell change, a capacity change or an
   eviction request leaves a given field alone *)
Lemma other_ops_keep_field fuel s o i :
  (forall j v d, o = OSet j v d -> j <> i) -> (forall q, o <> OGet q) ->
  d_in (fst (step prog noeq fams fuel s o)) i = d_in s i.
Proof.
  intros Hset Hget. destruct o as [j v d | d | c v | c v | ef | q | fam n |]; cbn [step].
  - specialize (Hset j v d eq_refl).
    destruct (f_dur (d_in (new_revision fams (zalsa_mut fams s)) j) =? D_NEVER); cbn [fst].
    + rewrite new_revision_in, zalsa_mut_in. reflexivity.
    + cbn. rewrite upd_other by exact Hset. rewrite new_revision_in, zalsa_mut_in. reflexivity.
  - destruct (d =? D_NEVER); cbn; rewrite new_revision_in, zalsa_mut_in; reflexivity.
  - reflexivity.
  - reflexivity.
  - reflexivity.
  - exfalso. apply (Hget q). reflexivity.
  - cbn. rewrite zalsa_mut_in. reflexivity.
  - cbn.
    assert (H : forall fs' t, d_in (evict_all fs' t) = d_in t).
    { unfold evict_all. induction fs' as [|f fs' IH]; intros t; cbn [fold_left]; [reflexivity|].
      rewrite IH. destruct (lru_evict (d_lru t f)); reflexivity. }
    rewrite H, zalsa_mut_in. reflexivity.
Qed.

End Reuse.

(* ---------------------------------------------------------------------------------
   C03 known finding: a caller re-executes because a callee whose value was evicted was
   invalidated, although the callee's recomputed value is equal.  Witness on the model:
   g (family 1, lru) = a / 2, f (family 0) = g + 1.  After g is evicted and a goes 4 -> 5,
   requesting f executes f and g; without the eviction it executes g and validates f. *)
Definition kf_prog : qkey -> body :=
  prog_of 2 [ ((1, 0), EOp BShr (EInp 0 0) (ELit 1)) ; ((0, 0), EOp BAdd (ECall 1 (ELit 0)) (ELit 1)) ].
Definition kf_init : db :=
  init (fun i => if key_eqb i (0, 0) then 4 else 0) (fun _ => 0)
       (fun fam => if fam =? 1 then {| lru_cap := Some 1; lru_set := [] |} else {| lru_cap := None; lru_set := [] |}).
Definition kf_ops_evicted : list op :=
  [OGet (0, 0); OGet (1, 1); OSet (0, 0) 5 None; OGet (0, 0)].
Definition kf_ops_kept : list op :=
  [OGet (0, 0); OSet (0, 0) 5 None; OGet (0, 0)].
Definition kf_log (ops : list op) : list event :=
  d_log (fst (run_ops kf_prog (fun _ => false) [1] 5 kf_init ops)).

Lemma kf_evicted_callee :
  (* newest first: the last Get executed f (0,0) and then g (1,0) *)
  firstn 2 (kf_log kf_ops_evicted) = [EvExec (1, 0); EvExec (0, 0)] /\
  (* the same history without the eviction executes g and only validates f *)
  firstn 2 (kf_log kf_ops_kept) = [EvValidate (0, 0); EvExec (1, 0)] /\
  (* and the results are the same *)
  snd (run_ops kf_prog (fun _ => false) [1] 5 kf_init kf_ops_evicted) = [Ok 3; Ok 0; Ok 0; Ok 3] /\
  snd (run_ops kf_prog (fun _ => false) [1] 5 kf_init kf_ops_kept) = [Ok 3; Ok 0; Ok 3].
Proof. vm_compute. repeat split. Qed.

(* Core/DCycleInv.v — the Core model inside its first revision on programs that may be CYCLIC
   (depending on the inputs), no cycle recovery: a fetch returns the from-scratch value, or unwinds
   with the cycle error exactly when the from-scratch evaluation re-enters an open call; in both
   cases the memo table only holds values of completed (acyclic) evaluations, so the database
   remains usable.  Exceptional postconditions as in Core/Wp.v. *)
From Coq Require Import PeanoNat Lia.
From Salsa Require Import Base.
From Salsa.Kern Require Import CoreK.
From Salsa.Core Require Import Model Spec Wp DCycleSem.

Section CycleInv.
Variable prog : qkey -> body.
Variable noeq : qkey -> bool.
Variable sn : snapshot.
Variable ns : list qkey.

Notation qval := (qval prog sn).
Notation bval := (bval prog sn).
Notation qblk := (qblk prog sn).
Notation bblk := (bblk prog sn).

(* every key a listed query can ever call is listed *)
Definition closed_calls : Prop := forall q d, In q ns -> calls (prog q) d -> In d ns.
Hypothesis Hclosed : closed_calls.

(* the invariant (the stack is tracked separately) *)
Definition FI (s : db) : Prop :=
  (forall i, f_val (d_in s i) = sn_in sn i) /\
  (forall c, d_cell s c = sn_cell sn c) /\
  (forall c, d_pcell s c = 0) /\
  d_evfault s = None /\
  (forall q m, d_memo s q = Some m ->
     m_verified m = cur s /\ exists v, m_val m = Some v /\ qval q v).

Lemma FI_eq s s' :
  d_revs s' = d_revs s -> d_in s' = d_in s -> d_cell s' = d_cell s -> d_pcell s' = d_pcell s ->
  d_evfault s' = None -> d_memo s' = d_memo s -> FI s -> FI s'.
Proof.
  intros Hr Hi Hc Hp He Hm (F1 & F2 & F3 & F4 & F5).
  unfold FI. rewrite Hi, Hc, Hp, Hm. replace (cur s') with (cur s) by (unfold cur; now rewrite Hr).
  split; [exact F1 |]. split; [exact F2 |]. split; [exact F3 |]. split; [exact He | exact F5].
Qed.

(* what the lower level must provide *)
Definition fspec (L : lower) (n : nat) : Prop :=
  forall st s q, FI s -> d_stack s = st -> NoDup st -> incl st ns -> In q ns ->
    (length ns < n + length st)%nat ->
    wp (l_fetch L q)
       (fun r s' => FI s' /\ d_stack s' = st /\ qval q (fst (fst r)))
       (fun p s' => FI s' /\ p = PCycle /\ qblk st q) s.

Section Level.
Variable L : lower.
Variable n : nat.
Hypothesis HL : fspec L n.
Variable st' : list qkey.
Hypothesis Hnd : NoDup st'.
Hypothesis Hin : incl st' ns.
Hypothesis Hfuel : (length ns < n + length st')%nat.

Lemma run_body_ok : forall b fr s, FI s -> d_stack s = st' -> (forall d, calls b d -> In d ns) ->
  wp (run_body L b fr)
     (fun r s' => FI s' /\ d_stack s' = st' /\ bval b (fst r))
     (fun p s' => FI s' /\ p = PCycle /\ bblk st' b) s.
Proof.
  induction b as [v | i k IH | d k IH | c k IH | k IH | c k IH]; intros fr s HF Hs Hc; cbn [run_body].
  - apply wp_ret. split; [exact HF |]. split; [exact Hs |]. exists 0%nat. reflexivity.
  - apply wp_bind, wp_get. destruct HF as (F1 & Frest). rewrite (F1 i).
    eapply wp_conseq.
    + apply IH; [exact (conj F1 Frest) | exact Hs |]. intros d Hd. apply Hc. econstructor; exact Hd.
    + intros r s' H. exact H.
    + intros p s' H. exact H.
  - apply wp_bind. eapply wp_conseq.
    + apply (HL st' s d HF Hs Hnd Hin); [apply Hc; constructor | exact Hfuel].
    + intros [[v du] ch] s1 (HF1 & Hs1 & Hv). cbn [fst] in Hv.
      eapply wp_conseq.
      * apply (IH v _ s1 HF1 Hs1). intros d' Hd'. apply Hc. econstructor; exact Hd'.
      * intros r s2 (H1 & H2 & H3). split; [exact H1 |]. split; [exact H2 |]. now apply (bval_call prog sn d k v).
      * intros p s2 (H1 & H2 & H3). split; [exact H1 |]. split; [exact H2 |]. now apply (bblk_call_value prog sn st' d k v).
    + intros p s1 (H1 & H2 & H3). split; [exact H1 |]. split; [exact H2 |]. now apply bblk_call_blocked.
  - apply wp_bind, wp_get. destruct HF as (F1 & F2 & Frest). rewrite (F2 c).
    eapply wp_conseq.
    + apply IH; [exact (conj F1 (conj F2 Frest)) | exact Hs |]. intros d Hd. apply Hc. econstructor; exact Hd.
    + intros r s' H. exact H.
    + intros p s' H. exact H.
  - apply wp_bind, wp_get.
    eapply wp_conseq.
    + apply IH; [exact HF | exact Hs |]. intros d Hd. apply Hc. constructor; exact Hd.
    + intros r s' H. exact H.
    + intros p s' H. exact H.
  - apply wp_bind, wp_get. destruct HF as (F1 & F2 & F3 & Frest). rewrite (F3 c). cbn [N.eqb].
    eapply wp_conseq.
    + apply IH; [exact (conj F1 (conj F2 (conj F3 Frest))) | exact Hs |]. intros d Hd. apply Hc. constructor; exact Hd.
    + intros r s' H. exact H.
    + intros p s' H. exact H.
Qed.

End Level.

Lemma notin_existsb q (st : list qkey) : ~ In q st -> existsb (key_eqb q) st = false.
Proof.
  intros Hn. destruct (existsb (key_eqb q) st) eqn:He; [| reflexivity].
  apply existsb_exists in He. destruct He as (x & Hx & Hqx). apply key_eqb_eq in Hqx. subst x. contradiction.
Qed.

Lemma existsb_in q (st : list qkey) : existsb (key_eqb q) st = false -> ~ In q st.
Proof.
  intros He Hi. assert (H : existsb (key_eqb q) st = true).
  { apply existsb_exists. exists q. split; [exact Hi | apply key_eqb_refl]. }
  congruence.
Qed.

(* executing q for the first time, q claimed on top of st *)
Lemma execute_ok L n (HL : fspec L n) q st s :
  FI s -> d_stack s = q :: st -> NoDup (q :: st) -> incl (q :: st) ns ->
  (length ns < n + length (q :: st))%nat ->
  wp (execute prog noeq L q None)
     (fun m s' => FI s' /\ d_stack s' = q :: st /\ exists v, m_val m = Some v /\ qval q v)
     (fun p s' => FI s' /\ p = PCycle /\ qblk st q) s.
Proof.
  intros HF Hs Hnd Hin Hfuel. unfold execute.
  apply wp_bind, wp_emit.
  - intros s1 Hr Hi Hc Hp Hm _ Hst _ Hev _.
    assert (HF1 : FI s1).
    { apply (FI_eq s s1 Hr Hi Hc Hp); [| exact Hm | exact HF]. apply Hev. apply HF. }
    apply wp_bind. eapply wp_conseq.
    + apply (run_body_ok L n HL (q :: st) Hnd Hin Hfuel (prog q) frame0 s1 HF1).
      * rewrite Hst. exact Hs.
      * intros d Hd. apply (Hclosed q d); [apply Hin; left; reflexivity | exact Hd].
    + intros [v fr] s2 (HF2 & Hs2 & Hv). cbn [fst] in Hv.
      apply wp_bind, wp_get. unfold set_memo_at. apply wp_bind, wp_modify, wp_ret.
      split; [| split].
      * destruct HF2 as (F1 & F2 & F3 & F4 & F5).
        split; [exact F1 |]. split; [exact F2 |]. split; [exact F3 |]. split; [exact F4 |].
        intros q' m'. cbn [d_memo set_seen set_memo]. unfold upd.
        destruct (key_eqb q q') eqn:Hqq.
        -- apply key_eqb_eq in Hqq. subst q'. intros Hm'. injection Hm' as <-. cbn [m_verified m_val].
           split; [reflexivity |]. exists v. split; [reflexivity |]. apply qval_of_body. exact Hv.
        -- intros Hm'. exact (F5 q' m' Hm').
      * exact Hs2.
      * exists v. split; [reflexivity |]. apply qval_of_body. exact Hv.
    + intros p s2 (HF2 & Hp2 & Hb). split; [exact HF2 |]. split; [exact Hp2 |].
      intros k. apply (regress prog sn q st); [| exact Hb].
      apply notin_existsb. now inversion Hnd.
  - intros Hne. exfalso. apply Hne. apply HF.
Qed.

(* one level of fetch *)
Lemma fetch_ok L n (HL : fspec L n) : forall st s q,
  FI s -> d_stack s = st -> NoDup st -> incl st ns -> In q ns ->
  (length ns < S n + length st)%nat ->
  wp (fetch prog noeq L q)
     (fun r s' => FI s' /\ d_stack s' = st /\ qval q (fst (fst r)))
     (fun p s' => FI s' /\ p = PCycle /\ qblk st q) s.
Proof.
  intros st s q HF Hs Hnd Hin Hq Hfuel. unfold fetch.
  assert (Hlru : forall s1 r, FI s1 -> d_stack s1 = st -> qval q (snd r) ->
     wp (modify (fun s => set_lru s (updN (d_lru s) (fst q) (lru_record_use (d_lru s (fst q)) (snd q)))) ;;;
         ret (memo_qres (fst r) (snd r)))
        (fun r s' => FI s' /\ d_stack s' = st /\ qval q (fst (fst r)))
        (fun p s' => FI s' /\ p = PCycle /\ qblk st q) s1).
  { intros s1 r HF1 Hs1 Hv. apply wp_bind, wp_modify, wp_ret.
    split; [| split; [exact Hs1 | exact Hv]].
    apply (FI_eq s1); try reflexivity; [apply HF1 | exact HF1]. }
  apply wp_bind. unfold fetch_hot. apply wp_bind, wp_get.
  destruct (d_memo s q) as [m |] eqn:Hm.
  - destruct HF as (F1 & F2 & F3 & F4 & F5). destruct (F5 q m Hm) as (Hver & v & Hv & Hqv).
    rewrite Hv. unfold shallow_verify. rewrite Hver, N.eqb_refl. cbn [update_shallow].
    apply wp_bind, wp_ret, wp_ret. apply wp_bind, wp_ret.
    apply (Hlru s (m, v)); [exact (conj F1 (conj F2 (conj F3 (conj F4 F5)))) | exact Hs | exact Hqv].
  - apply wp_ret. apply wp_bind. unfold fetch_cold.
    apply wp_bind. unfold claim. apply wp_bind, wp_get.
    destruct (existsb (key_eqb q) (d_stack s)) eqn:Hex.
    + apply wp_fail. split; [exact HF |]. split; [reflexivity |]. apply qblk_stacked. rewrite <- Hs. exact Hex.
    + apply wp_modify. apply wp_bind, wp_get. cbn [d_memo set_stack]. rewrite Hm.
      apply wp_bind, wp_ret. apply wp_bind.
      assert (Hnq : ~ In q st) by (apply existsb_in; rewrite <- Hs; exact Hex).
      eapply wp_conseq.
      * apply (execute_ok L n HL q st).
        -- apply (FI_eq s); try reflexivity; [apply HF | exact HF].
        -- cbn [d_stack set_stack]. now rewrite Hs.
        -- constructor; assumption.
        -- intros x [Hx | Hx]; [now subst x | now apply Hin].
        -- cbn [length]. lia.
      * intros m s2 (HF2 & Hs2 & v & Hv & Hqv). apply wp_bind. unfold release. apply wp_modify.
        rewrite Hv. apply wp_ret.
        apply (Hlru _ (m, v)); [| cbn [d_stack set_stack]; now rewrite Hs2 | exact Hqv].
        apply (FI_eq s2); try reflexivity; [apply HF2 | exact HF2].
      * intros p s2 H. exact H.
Qed.

Theorem level_spec : forall n, fspec (level prog noeq n) n.
Proof.
  induction n as [| n IH].
  - intros st s q _ _ Hnd Hin _ Hlt. exfalso.
    pose proof (NoDup_incl_length Hnd Hin) as Hle. cbn [Nat.add] in Hlt. lia.
  - intros st s q HF Hs Hnd Hin Hq Hlt. cbn [level l_fetch].
    exact (fetch_ok (level prog noeq n) n IH st s q HF Hs Hnd Hin Hq Hlt).
Qed.

End CycleInv.

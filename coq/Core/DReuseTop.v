(* Core/DReuseTop.v — the event-level reuse theorems over whole histories (C03, C04):
   in every state reachable from the initial database, every execution a Get performs is
   justified by something recorded in the state before the Get; a changed_at stamp moves only
   when backdating is impossible; an untracked memo is executed again in every later revision. *)
From Salsa Require Import Base.
From Salsa.Kern Require Import CoreK CoreKFacts.
From Salsa.Core Require Import Model Spec SpecProofs Wp Inv InvFrame InvSem InvTop DurSem DInv DInvSem DInvOps DInvTop
     ReuseProofs DReuse DReuseOps.

Section RTop.
Variable prog : qkey -> body.
Variable noeq : qkey -> bool.
Variable fams : list N.
Variable rank : qkey -> nat.
Hypothesis Hrank : calls_below prog rank.
Variable NF : nat.
Hypothesis Hbound : forall q, (rank q < NF)%nat.
Notation DInv := (DInv prog NF).
Notation RX := (RX noeq).
Notation state_ok := (state_ok prog NF).

(* ---------------------------------------------------------------- a property of every Get of a history *)
(* [P s q s' r]: the Get of q from s ends in s' with outcome r *)
Fixpoint gets_sat (P : db -> qkey -> db -> out -> Prop) (fuel : nat) (s : db) (os : list op) : Prop :=
  match os with
  | [] => True
  | o :: os' =>
      (match o with
       | OGet q => P s q (fst (step prog noeq fams fuel s o)) (snd (step prog noeq fams fuel s o))
       | _ => True
       end) /\
      gets_sat P fuel (fst (step prog noeq fams fuel s o)) os'
  end.

Lemma gets_sat_reachable (P : db -> qkey -> db -> out -> Prop) fuel :
  (forall p, (rank p < fuel)%nat) ->
  (forall s q, state_ok false s ->
     P s q (fst (step prog noeq fams fuel s (OGet q))) (snd (step prog noeq fams fuel s (OGet q)))) ->
  forall ops dirty s, Forall dur_op ops -> wf_ops dirty ops -> state_ok dirty s ->
  gets_sat P fuel s ops.
Proof.
  intros Hfuel HP. induction ops as [|o ops IH]; intros dirty s Hdur Hwf Hok; [exact I|].
  inversion Hdur as [|? ? Hdo Hdurs]; subst.
  cbn [gets_sat].
  destruct o as [i v d | d | c v | c v | ef | q | fam n |].
  - split; [exact I|]. apply (IH false); [exact Hdurs | exact Hwf |].
    apply (step_other_ok prog noeq fams NF fuel dirty s (OSet i v d) Hdo Hok).
  - split; [exact I|]. apply (IH false); [exact Hdurs | exact Hwf |].
    apply (step_other_ok prog noeq fams NF fuel dirty s (OSynth d) Hdo Hok).
  - split; [exact I|]. apply (IH true); [exact Hdurs | exact Hwf |].
    apply (step_other_ok prog noeq fams NF fuel dirty s (OSetCell c v) Hdo Hok).
  - split; [exact I|]. apply (IH dirty); [exact Hdurs | exact Hwf |].
    apply (step_other_ok prog noeq fams NF fuel dirty s (OSetPanic c v) Hdo Hok).
  - split; [exact I|]. apply (IH dirty); [exact Hdurs | exact Hwf |].
    apply (step_other_ok prog noeq fams NF fuel dirty s (OSetEvFault ef) Hdo Hok).
  - destruct Hwf as [-> Hwf].
    destruct (step_get_ok prog noeq fams rank Hrank NF Hbound fuel s q Hfuel Hok) as [_ Hs].
    split; [apply HP; exact Hok|]. apply (IH false); assumption.
  - split; [exact I|]. apply (IH dirty); [exact Hdurs | exact Hwf |].
    apply (step_other_ok prog noeq fams NF fuel dirty s (OSetLru fam n) Hdo Hok).
  - split; [exact I|]. apply (IH dirty); [exact Hdurs | exact Hwf |].
    apply (step_other_ok prog noeq fams NF fuel dirty s OEvict Hdo Hok).
Qed.

(* ---------------------------------------------------------------- one Get *)
(* a Get that returns a value relates its end states by RX, and the invariant holds after it *)
Lemma get_rx fuel s q s' v :
  (forall p, (rank p < fuel)%nat) -> state_ok false s ->
  step prog noeq fams fuel s (OGet q) = (s', Ok v) ->
  RX s s' /\ v = eval prog NF (snap_of s) q /\ exists H D, DInv H D s /\ DInv H D s'.
Proof.
  intros Hfuel [(H & D & HI) Hst] Hstep. cbn [step] in Hstep.
  destruct (dlevel_ok prog noeq rank Hrank NF Hbound H D fuel) as [HF HM].
  destruct (rlevel_ok prog noeq rank Hrank NF Hbound H D fuel) as [HF' HM'].
  assert (Hso : stack_ok rank s q) by (intros p Hp; rewrite Hst in Hp; destruct Hp).
  assert (Hq : (rank q <= fuel)%nat) by (specialize (Hfuel q); lia).
  pose proof (wp_and _ _ _ _ _ _
    (fetch_ok prog noeq rank Hrank NF Hbound H D (level prog noeq fuel) fuel HF HM q s Hq HI Hso)
    (fetch_rx_ok prog noeq rank Hrank NF Hbound H D (level prog noeq fuel) fuel HF HM HF' HM' q s Hq HI Hso)) as Hwp.
  unfold wp in Hwp.
  destruct (fetch prog noeq (level prog noeq fuel) q s) as [s1 [[[v1 d1] c1] | p |]] eqn:Hf;
    [|discriminate | discriminate].
  injection Hstep as <- <-.
  destruct Hwp as ((HI' & _ & _ & _ & Hv & _) & HR). cbn [fst snd] in Hv.
  split; [exact HR|]. split.
  - rewrite Hv. unfold Inv.E. apply (eval_snap_eq prog). apply (DInv_snap prog NF H D); exact HI.
  - exists H, D. split; assumption.
Qed.

(* ---------------------------------------------------------------- C03: executions are justified *)
(* Why a Get that took s to s' and logged [new] executed q.  Everything is read off the state
   BEFORE the Get, except for callees that were executed in this very Get. *)
Definition justified (s s' : db) (new : list event) (q : qkey) : Prop :=
  (* no memo *)
  d_memo s q = None \/
  exists m, d_memo s q = Some m /\
    ((* the value was evicted *)
     m_val m = None \/
     (* the previous execution read untracked state *)
     m_untracked m = true \/
     (* an input field it read was written since it was validated *)
     (exists i, In (EIn i) (m_edges m) /\ m_verified m < f_changed (d_in s i)) \/
     (* a tracked function it called ... *)
     (exists d, In (EQ d) (m_edges m) /\
        ((* ... has no value (evicted): the known finding C03_refuted_evicted_callee *)
         noval s d \/
         (* ... was re-executed without backdating since then, in an earlier request *)
         (exists md, d_memo s d = Some md /\ m_verified m < m_changed md) \/
         (* ... was executed in this Get and could not backdate: it is no_eq, or became less
            durable, or produced a value differing from its previous one *)
         (In (EvExec d) new /\
          exists md md', d_memo s d = Some md /\ d_memo s' d = Some md' /\
            (noeq d = true \/ m_dur md' < m_dur md \/
             exists ov, m_val md = Some ov /\ ov <> eval prog NF (snap_of s) d))))).

Definition exec_justified (s : db) (q0 : qkey) (s' : db) (r : out) : Prop :=
  forall v, r = Ok v ->
  exists new, d_log s' = new ++ d_log s /\
    forall q, In (EvExec q) new -> justified s s' new q.

Lemma get_exec_justified fuel s q0 :
  (forall p, (rank p < fuel)%nat) -> state_ok false s ->
  exec_justified s q0 (fst (step prog noeq fams fuel s (OGet q0))) (snd (step prog noeq fams fuel s (OGet q0))).
Proof.
  intros Hfuel Hok v Hr.
  destruct (step prog noeq fams fuel s (OGet q0)) as [s' r] eqn:Hstep. cbn [fst snd] in *. subst r.
  destruct (get_rx fuel s q0 s' v Hfuel Hok Hstep) as (HR & _ & H & D & HI & HI').
  destruct (rx_log _ _ _ HR) as (new & Hl & HJ & HX).
  exists new. split; [exact Hl|].
  intros q Hq. destruct (HJ q Hq) as [_ Hj].
  destruct Hj as [Hn | (m & Hm & Hx)]; [left; exact Hn | right].
  exists m. split; [exact Hm|].
  destruct Hx as [A | [A | [A | (d & Hd & [B | (md' & Hmd' & Hlt)])]]]; auto.
  - right; right; right. exists d. split; [exact Hd | left; exact B].
  - right; right; right. exists d. split; [exact Hd|].
    destruct (d_memo s d) as [md|] eqn:Hmd; [|left; intros md0 Hmd0; congruence].
    destruct (N.le_gt_cases (m_changed md) (m_verified m)) as [Hle | Hgt];
      [|right; left; exists md; split; [reflexivity | exact Hgt]].
    assert (Hne : m_changed md <> m_changed md') by lia.
    destruct (HX d md md' Hmd Hmd' Hne) as (Hin & Hre & Hv' & Hx').
    destruct Hre as [R1 | [R2 | [R3 | (ov & v' & Hov & Hv'' & Hdiff)]]].
    + right; right. split; [exact Hin|]. exists md, md'. split; [reflexivity|]. split; [exact Hmd'|].
      left; exact R1.
    + left. intros md0 Hmd0. assert (md0 = md) by congruence. subst md0. exact R2.
    + right; right. split; [exact Hin|]. exists md, md'. split; [reflexivity|]. split; [exact Hmd'|].
      right; left; exact R3.
    + right; right. split; [exact Hin|]. exists md, md'. split; [reflexivity|]. split; [exact Hmd'|].
      right; right. exists ov. split; [exact Hov|].
      pose proof (mo_val _ _ _ _ _ _ _ (inv_memo _ _ _ _ _ HI' d md' Hmd') v' Hv'') as Hval.
      rewrite Hv', <- (rx_cur _ _ _ HR) in Hval.
      assert (HE : Inv.E prog NF H (cur s') d = eval prog NF (snap_of s) d).
      { rewrite (rx_cur _ _ _ HR). unfold Inv.E. apply (eval_snap_eq prog).
        apply (DInv_snap prog NF H D); exact HI. }
      rewrite HE in Hval. congruence.
Qed.

(* ---------------------------------------------------------------- C03: backdating *)
(* In a Get that returns a value: if the changed_at stamp of d differs before and after, then
   d was executed in this Get and backdating was impossible. *)
Definition stamp_moves_justified (s : db) (q0 : qkey) (s' : db) (r : out) : Prop :=
  forall v, r = Ok v ->
  exists new, d_log s' = new ++ d_log s /\
    forall d md md', d_memo s d = Some md -> d_memo s' d = Some md' ->
      m_changed md <> m_changed md' ->
      In (EvExec d) new /\ reasons noeq d md md'.

Lemma get_stamp_moves fuel s q0 :
  (forall p, (rank p < fuel)%nat) -> state_ok false s ->
  stamp_moves_justified s q0 (fst (step prog noeq fams fuel s (OGet q0))) (snd (step prog noeq fams fuel s (OGet q0))).
Proof.
  intros Hfuel Hok v Hr.
  destruct (step prog noeq fams fuel s (OGet q0)) as [s' r] eqn:Hstep. cbn [fst snd] in *. subst r.
  destruct (get_rx fuel s q0 s' v Hfuel Hok Hstep) as (HR & _).
  destruct (rx_log _ _ _ HR) as (new & Hl & _ & HX).
  exists new. split; [exact Hl|].
  intros d md md' Hmd Hmd' Hne. destruct (HX d md md' Hmd Hmd' Hne) as (A & B & _). split; assumption.
Qed.

(* ---------------------------------------------------------------- C04: untracked memos re-execute *)
Definition untracked_reexecutes (s : db) (q : qkey) (s' : db) (r : out) : Prop :=
  forall m v, d_memo s q = Some m -> m_untracked m = true -> m_verified m < cur s -> r = Ok v ->
  v = eval prog NF (snap_of s) q /\
  exists new, d_log s' = new ++ d_log s /\ In (EvExec q) new.

Lemma get_untracked_reexecutes fuel s q :
  (forall p, (rank p < fuel)%nat) -> state_ok false s ->
  untracked_reexecutes s q (fst (step prog noeq fams fuel s (OGet q))) (snd (step prog noeq fams fuel s (OGet q))).
Proof.
  intros Hfuel Hok m v Hm Hu Hv Hr.
  destruct (step prog noeq fams fuel s (OGet q)) as [s' r] eqn:Hstep. cbn [fst snd] in *. subst r.
  destruct (get_rx fuel s q s' v Hfuel Hok Hstep) as (HR & Hval & _).
  split; [exact Hval|].
  destruct (rx_log _ _ _ HR) as (new & Hl & _). exists new. split; [exact Hl|].
  destruct Hok as [(H & D & HI) Hst]. cbn [step] in Hstep.
  destruct (dlevel_ok prog noeq rank Hrank NF Hbound H D fuel) as [HF HM].
  destruct (rlevel_ok prog noeq rank Hrank NF Hbound H D fuel) as [HF' HM'].
  assert (Hso : stack_ok rank s q) by (intros p Hp; rewrite Hst in Hp; destruct Hp).
  assert (Hq : (rank q <= fuel)%nat) by (specialize (Hfuel q); lia).
  pose proof (fetch_untracked_rx prog noeq rank Hrank NF Hbound H D (level prog noeq fuel) fuel q m s
                HF HF' Hq HI Hso Hm Hu Hv) as Hwp.
  unfold wp in Hwp.
  destruct (fetch prog noeq (level prog noeq fuel) q s) as [s1 [[[v1 d1] c1] | p |]] eqn:Hf;
    [|discriminate | discriminate].
  injection Hstep as <- <-. apply Hwp. exact Hl.
Qed.

(* ---------------------------------------------------------------- over whole histories *)
Theorem exec_justified_all fuel :
  (forall p, (rank p < fuel)%nat) ->
  forall ops dirty s, Forall dur_op ops -> wf_ops dirty ops -> state_ok dirty s ->
  gets_sat exec_justified fuel s ops.
Proof.
  intros Hfuel. apply (gets_sat_reachable exec_justified fuel Hfuel).
  intros s q Hok. apply get_exec_justified; assumption.
Qed.

Theorem stamp_moves_all fuel :
  (forall p, (rank p < fuel)%nat) ->
  forall ops dirty s, Forall dur_op ops -> wf_ops dirty ops -> state_ok dirty s ->
  gets_sat stamp_moves_justified fuel s ops.
Proof.
  intros Hfuel. apply (gets_sat_reachable stamp_moves_justified fuel Hfuel).
  intros s q Hok. apply get_stamp_moves; assumption.
Qed.

Theorem untracked_reexecutes_all fuel :
  (forall p, (rank p < fuel)%nat) ->
  forall ops dirty s, Forall dur_op ops -> wf_ops dirty ops -> state_ok dirty s ->
  gets_sat untracked_reexecutes fuel s ops.
Proof.
  intros Hfuel. apply (gets_sat_reachable untracked_reexecutes fuel Hfuel).
  intros s q Hok. apply get_untracked_reexecutes; assumption.
Qed.

(* a callee that executes again and returns an equal value (not no_eq, durability not lower)
   keeps its changed_at stamp: it is backdated *)
Lemma equal_value_backdated s q0 s' r :
  stamp_moves_justified s q0 s' r -> forall v, r = Ok v ->
  forall d md md' ov, d_memo s d = Some md -> d_memo s' d = Some md' ->
    noeq d = false -> m_dur md <= m_dur md' -> m_val md = Some ov -> m_val md' = Some ov ->
    m_changed md' = m_changed md.
Proof.
  intros Hs v Hr d md md' ov Hmd Hmd' Hne Hdur Hov Hov'.
  destruct (Hs v Hr) as (new & _ & HX).
  destruct (N.eq_dec (m_changed md) (m_changed md')) as [Heq | Hneq]; [symmetry; exact Heq|].
  exfalso. destruct (HX d md md' Hmd Hmd' Hneq) as (_ & [R | [R | [R | (ov0 & v' & A & B & C)]]]).
  - congruence.
  - congruence.
  - lia.
  - congruence.
Qed.

(* ---------------------------------------------------------------- from the initial database *)
Lemma gets_sat_init (P : db -> qkey -> db -> out -> Prop) fuel :
  (forall p, (rank p < fuel)%nat) ->
  (forall s q, state_ok false s ->
     P s q (fst (step prog noeq fams fuel s (OGet q))) (snd (step prog noeq fams fuel s (OGet q)))) ->
  forall iv idur lru0 ops, (forall i, idur i <= 3) -> Forall dur_op ops -> wf_ops false ops ->
  gets_sat P fuel (init iv idur lru0) ops.
Proof.
  intros Hfuel HP iv idur lru0 ops Hid Hdur Hwf.
  apply (gets_sat_reachable P fuel Hfuel HP ops false _ Hdur Hwf). apply init_ok_dur. exact Hid.
Qed.

Theorem exec_justified_init fuel :
  (forall p, (rank p < fuel)%nat) ->
  forall iv idur lru0 ops, (forall i, idur i <= 3) -> Forall dur_op ops -> wf_ops false ops ->
  gets_sat exec_justified fuel (init iv idur lru0) ops.
Proof.
  intros Hfuel. apply (gets_sat_init exec_justified fuel Hfuel).
  intros s q Hok. apply get_exec_justified; assumption.
Qed.

Theorem stamp_moves_init fuel :
  (forall p, (rank p < fuel)%nat) ->
  forall iv idur lru0 ops, (forall i, idur i <= 3) -> Forall dur_op ops -> wf_ops false ops ->
  gets_sat stamp_moves_justified fuel (init iv idur lru0) ops.
Proof.
  intros Hfuel. apply (gets_sat_init stamp_moves_justified fuel Hfuel).
  intros s q Hok. apply get_stamp_moves; assumption.
Qed.

Theorem untracked_reexecutes_init fuel :
  (forall p, (rank p < fuel)%nat) ->
  forall iv idur lru0 ops, (forall i, idur i <= 3) -> Forall dur_op ops -> wf_ops false ops ->
  gets_sat untracked_reexecutes fuel (init iv idur lru0) ops.
Proof.
  intros Hfuel. apply (gets_sat_init untracked_reexecutes fuel Hfuel).
  intros s q Hok. apply get_untracked_reexecutes; assumption.
Qed.

End RTop.

(* Core/InvSem.v — the semantic heart of the Core proof: when is a memo that is marked
   verified now, or freshly computed now, ok with respect to the history. *)
From Salsa Require Import Base.
From Salsa.Kern Require Import CoreK CoreKFacts.
From Salsa.Core Require Import Model Spec SpecProofs Wp Inv InvFrame.

Section Sem.
Variable prog : qkey -> body.
Variable rank : qkey -> nat.
Hypothesis Hrank : calls_below prog rank.
Variable NF : nat.
Hypothesis Hbound : forall q, (rank q < NF)%nat.
Notation E := (E prog NF).
Notation tr := (tr prog NF).
Notation envat := (envat prog NF).
Notation memo_ok := (memo_ok prog NF).
Notation Inv := (Inv prog NF).
Notation quiet := (quiet prog NF).

Definition reverify (m : memo) (now : rev) : memo :=
  {| m_val := m_val m; m_verified := now; m_changed := m_changed m; m_dur := m_dur m;
     m_untracked := m_untracked m; m_edges := m_edges m |}.

Lemma reverify_same m : reverify m (m_verified m) = m.
Proof. destruct m; reflexivity. Qed.

(* A memo whose recorded reads all still have the answers they had when it was verified
   may be marked verified now. *)
Lemma revalidate_ok H s q m :
  Inv H s -> d_memo s q = Some m ->
  agree_on (envat H (m_verified m)) (envat H (cur s)) (tr H (m_verified m) q) ->
  (forall d, In (EQ d) (m_edges m) -> seen s d (cur s)) ->
  let m' := reverify m (cur s) in
  memo_ok H (store s q m') q m' /\
  (forall d, In (RQ d) (tr H (cur s) q) -> seen s d (cur s) \/ quiet d) /\
  E H (cur s) q = E H (m_verified m) q.
Proof.
  intros HI Hm Hag Hedges m'.
  pose proof (inv_memo _ _ _ _ HI q m Hm) as Hok.
  destruct (trace_determined (prog q) _ _ Hag) as [Htr Hrun].
  assert (HE : E H (cur s) q = E H (m_verified m) q).
  { rewrite !(E_unfold prog rank Hrank NF Hbound). exact Hrun. }
  assert (Htr' : tr H (cur s) q = tr H (m_verified m) q) by exact Htr.
  destruct Hok as [a b c d e f g h i j].
  split; [|split; [|exact HE]].
  - constructor; cbn [m' reverify m_val m_verified m_changed m_dur m_untracked m_edges];
      rewrite ?cur_store, ?Htr'; auto.
    + pose proof (inv_cur _ _ _ _ HI). lia.
    + intros x Hx. rewrite HE. apply b; exact Hx.
    + intros d0 Hd0. destruct (f d0 Hd0) as [Hin _]. split; [exact Hin|].
      apply seen_store; right. apply Hedges; exact Hd0.
    + intros r Hr Hle. apply seen_store in Hr. destruct Hr as [[_ ->] | Hr]; [reflexivity|].
      rewrite HE. apply g; assumption.
    + apply seen_store; left; split; reflexivity.
  - intros d0 Hd0. rewrite Htr' in Hd0. destruct (d d0 Hd0) as [Hin | Hq]; [left | right; exact Hq].
    apply Hedges; exact Hin.
Qed.

(* ---------------------------------------------------------------- frames *)
Record covers (s : db) (pre : list rd) (fr : frame) : Prop := {
  cv_in : forall i, In (RIn i) pre ->
          In (EIn i) (fr_edges fr) /\ f_changed (d_in s i) <= fr_changed fr /\ fr_dur fr = 0;
  cv_q : forall d, In (RQ d) pre ->
         exists md, d_memo s d = Some md /\ m_verified md = cur s /\ m_val md <> None /\
                    m_changed md <= fr_changed fr /\ fr_dur fr <= m_dur md /\
                    (In (EQ d) (fr_edges fr) \/ m_dur md = 3);
  cv_cell : forall x, In x pre -> (x = RTouch \/ exists c, x = RCell c) ->
            fr_untracked fr = true /\ fr_changed fr = cur s /\ fr_dur fr = 0;
  cv_edges_in : forall i, In (EIn i) (fr_edges fr) -> In (RIn i) pre;
  cv_edges_q : forall d, In (EQ d) (fr_edges fr) -> In (RQ d) pre;
  cv_le : fr_changed fr <= cur s;
  cv_dur : fr_dur fr = 0 \/ fr_dur fr = 3;
  cv_untr : fr_untracked fr = true -> fr_dur fr = 0
}.

Lemma covers_frame0 s : 1 <= cur s -> covers s [] frame0.
Proof.
  intros Hc. constructor.
  - intros i [].
  - intros d [].
  - intros x [].
  - intros i [].
  - intros d [].
  - exact Hc.
  - right; reflexivity.
  - discriminate.
Qed.

(* the memo built by execute from a completed frame *)
Definition fresh_memo (v : val) (now : rev) (ch : rev) (fr : frame) : memo :=
  {| m_val := Some v; m_verified := now; m_changed := ch; m_dur := fr_dur fr;
     m_untracked := fr_untracked fr;
     m_edges := if (fr_dur fr =? D_NEVER) && negb (fr_untracked fr) then [] else fr_edges fr |}.

Lemma quiet_of_covers H s q fr :
  Inv H s -> covers s (tr H (cur s) q) fr -> fr_dur fr = 3 -> quiet q.
Proof.
  intros HI Hcv Hd.
  assert (Hall : forall x, In x (tr H (cur s) q) -> exists d, x = RQ d /\ quiet d).
  { intros x Hx. destruct x as [i | d | c |].
    - destruct (cv_in _ _ _ Hcv i Hx) as (_ & _ & H0). rewrite H0 in Hd; discriminate.
    - exists d; split; [reflexivity|].
      destruct (cv_q _ _ _ Hcv d Hx) as (md & Hmd & _ & _ & _ & Hle & _).
      pose proof (inv_memo _ _ _ _ HI d md Hmd) as Hok.
      destruct (mo_dur _ _ _ _ _ _ Hok) as [H0 | (_ & _ & Hq & _)]; [|exact Hq].
      rewrite Hd, H0 in Hle. lia.
    - destruct (cv_cell _ _ _ Hcv (RCell c) Hx) as (_ & _ & H0); [right; eauto|].
      rewrite H0 in Hd; discriminate.
    - destruct (cv_cell _ _ _ Hcv RTouch Hx) as (_ & _ & H0); [left; reflexivity|].
      rewrite H0 in Hd; discriminate. }
  constructor. intros sn x Hx.
  assert (Hsame : trace (env_of prog NF sn) (prog q) = tr H (cur s) q).
  { destruct (trace_determined (prog q) (envat H (cur s)) (env_of prog NF sn)) as [Ht _]; [|exact Ht].
    intros y Hy. destruct (Hall y Hy) as (d & -> & Hq). cbn.
    apply (quiet_const prog rank Hrank NF Hbound); exact Hq. }
  rewrite Hsame in Hx. apply Hall; exact Hx.
Qed.

(* A freshly computed memo is ok: the changed_at clause is the interesting one. *)
Lemma fresh_memo_ok H s q fr v ch (old : option memo) :
  Inv H s ->
  covers s (tr H (cur s) q) fr ->
  v = E H (cur s) q ->
  d_memo s q = old ->
  (* ch is either the frame's stamp, or the old memo's stamp when the value is unchanged *)
  (ch = fr_changed fr \/
   exists o ov, old = Some o /\ m_val o = Some ov /\ ov = v /\ ch = m_changed o) ->
  let m' := fresh_memo v (cur s) ch fr in
  memo_ok H (store s q m') q m' /\
  (forall d, In (RQ d) (tr H (cur s) q) -> seen s d (cur s) \/ quiet d).
Proof.
  intros HI Hcv Hv Hold Hch m'.
  assert (Hclos : forall d, In (RQ d) (tr H (cur s) q) -> seen s d (cur s) \/ quiet d).
  { intros d Hd. left.
    destruct (cv_q _ _ _ Hcv d Hd) as (md & Hmd & Hvd & _).
    pose proof (mo_seen _ _ _ _ _ _ (inv_memo _ _ _ _ HI d md Hmd)) as Hs.
    rewrite Hvd in Hs. exact Hs. }
  split; [|exact Hclos].
  assert (Hch_le : ch <= cur s).
  { destruct Hch as [-> | (o & ov & Ho & _ & _ & ->)].
    - apply (cv_le _ _ _ Hcv).
    - subst old. pose proof (mo_order _ _ _ _ _ _ (inv_memo _ _ _ _ HI q o Ho)). lia. }
  assert (Hedges_sub : forall e, In e (m_edges m') -> In e (fr_edges fr)).
  { intros e. cbn. destruct ((fr_dur fr =? D_NEVER) && negb (fr_untracked fr)); [intros [] | auto]. }
  constructor; cbn [m' fresh_memo m_val m_verified m_changed m_dur m_untracked]; rewrite ?cur_store.
  - pose proof (inv_cur _ _ _ _ HI). lia.
  - intros x Hx. injection Hx as <-. exact Hv.
  - intros i Hi. destruct (cv_in _ _ _ Hcv i Hi) as (Hin & _ & H0).
    cbn. rewrite H0. cbn. exact Hin.
  - intros d Hd. destruct (cv_q _ _ _ Hcv d Hd) as (md & Hmd & _ & _ & _ & Hle & Hor).
    pose proof (inv_memo _ _ _ _ HI d md Hmd) as Hok.
    assert (Hq3 : m_dur md = 3 -> quiet d).
    { intros H3. destruct (mo_dur _ _ _ _ _ _ Hok) as [H0 | (_ & _ & Hq & _)]; [|exact Hq].
      rewrite H0 in H3; discriminate. }
    cbn. destruct ((fr_dur fr =? D_NEVER) && negb (fr_untracked fr)) eqn:Hb.
    + right. apply Hq3. apply andb_true_iff in Hb. destruct Hb as [Hb _].
      apply N.eqb_eq in Hb. unfold D_NEVER in Hb. rewrite Hb in Hle.
      destruct (mo_dur _ _ _ _ _ _ Hok) as [H0 | (H3 & _)]; [rewrite H0 in Hle; lia | exact H3].
    + destruct Hor as [Hin | H3]; [left; exact Hin | right; apply Hq3; exact H3].
  - intros x Hx Hc. destruct (cv_cell _ _ _ Hcv x Hx Hc) as (Hu & _). exact Hu.
  - intros d Hd. apply Hedges_sub in Hd.
    pose proof (cv_edges_q _ _ _ Hcv d Hd) as Hin. split; [exact Hin|].
    apply seen_store; right. destruct (Hclos d Hin) as [Hs | Hq]; [exact Hs|].
    (* quiet callees are still seen: they were fetched *)
    destruct (cv_q _ _ _ Hcv d Hin) as (md & Hmd & Hvd & _).
    pose proof (mo_seen _ _ _ _ _ _ (inv_memo _ _ _ _ HI d md Hmd)) as Hs.
    rewrite Hvd in Hs. exact Hs.
  - (* changed_at *)
    intros r Hr Hle. apply seen_store in Hr. destruct Hr as [[_ ->] | Hr]; [reflexivity|].
    destruct (inv_seen _ _ _ _ HI q r Hr) as (Hrle & _ & Hcl).
    destruct (N.eq_dec r (cur s)) as [-> | Hrne]; [reflexivity|].
    assert (Hrlt : r < cur s) by lia.
    destruct Hch as [-> | (o & ov & Ho & Hov & Heq & ->)].
    + (* not backdated: every read of the new run has a stamp <= r *)
      rewrite !(E_unfold prog rank Hrank NF Hbound).
      destruct (first_changed_is_read_again (prog q) (envat H (cur s)) (envat H r))
        as [Hag | (pre & x & post & Ht & _ & Hne & post' & Ht')].
      * destruct (trace_determined _ _ _ Hag) as [_ Hrun]. exact Hrun.
      * exfalso. apply Hne.
        assert (Hx : In x (tr H (cur s) q)).
        { unfold tr, Inv.tr. rewrite Ht. apply in_or_app; right; left; reflexivity. }
        assert (Hx' : In x (tr H r q)).
        { unfold tr, Inv.tr. rewrite Ht'. apply in_or_app; right; left; reflexivity. }
        destruct x as [i | d | c |]; cbn.
        -- destruct (cv_in _ _ _ Hcv i Hx) as (_ & Hst & _).
           rewrite (inv_in _ _ _ _ HI i (cur s)); [|apply (inv_in_le _ _ _ _ HI) | lia].
           rewrite (inv_in _ _ _ _ HI i r); [reflexivity | lia | lia].
        -- destruct (cv_q _ _ _ Hcv d Hx) as (md & Hmd & Hvd & _ & Hcd & _).
           destruct (Hcl d Hx') as [Hsd | Hq].
           ++ pose proof (mo_changed _ _ _ _ _ _ (inv_memo _ _ _ _ HI d md Hmd) r Hsd) as Hc.
              rewrite Hvd in Hc. symmetry. apply Hc. lia.
           ++ apply (quiet_E prog rank Hrank NF Hbound); exact Hq.
        -- destruct (cv_cell _ _ _ Hcv (RCell c) Hx) as (_ & Hcc & _); [right; eauto | lia].
        -- reflexivity.
    + (* backdated: the value equals the old one *)
      subst old.
      pose proof (inv_memo _ _ _ _ HI q o Ho) as Hok.
      rewrite (mo_changed _ _ _ _ _ _ Hok r Hr Hle).
      rewrite <- (mo_val _ _ _ _ _ _ Hok ov Hov). rewrite Heq. exact Hv.
  - intros Hu. apply (cv_untr _ _ _ Hcv Hu).
  - destruct (cv_dur _ _ _ Hcv) as [H0 | H3]; [left; exact H0 | right].
    assert (Hu : fr_untracked fr = false).
    { destruct (fr_untracked fr) eqn:Hu; [|reflexivity].
      rewrite (cv_untr _ _ _ Hcv Hu) in H3; discriminate. }
    split; [exact H3|]. split; [exact Hu|]. split.
    + apply (quiet_of_covers H s q fr HI Hcv H3).
    + cbn. rewrite H3, Hu. reflexivity.
  - apply seen_store; left; split; reflexivity.
Qed.

End Sem.

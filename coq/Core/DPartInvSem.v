(* Core/DPartInvSem.v — Core/DInvSem.v redone for programs that may be cyclic: the durability
   invariant [DInv] (whose E / tr / clos are the total ones) together with [PM]: a memo exists only
   for a listed query that is acyclic at its verified_at, and its recorded edges are in the order
   of the reads of that (acyclic) evaluation.  No rank anywhere: the rank lemmas are replaced by
   the acyclicity lemmas of Core/DPartSem.v. *)
From Coq Require Import Lia.
From Salsa Require Import Base.
From Salsa.Kern Require Import CoreK CoreKFacts.
From Salsa.Core Require Import Model Spec SpecProofs Wp Inv InvFrame InvSem DurSem DInv DInvSem.
From Salsa.Core Require Import DCycleSem DCycleBound DPartSem.

Section Sem.
Variable prog : qkey -> body.
Variable ns : list qkey.
Hypothesis Hclosed : forall q d, In q ns -> calls (prog q) d -> In d ns.
Variable NF : nat.
Hypothesis HNF : (length ns <= NF)%nat.
Notation E := (E prog NF).
Notation tr := (tr prog NF).
Notation envat := (envat prog NF).
Notation durge := (durge prog NF).
Notation clos := (clos prog NF).
Notation dmemo_ok := (dmemo_ok prog NF).
Notation DInv := (DInv prog NF).
Notation obs_pre := (obs_pre prog NF).
Notation ac := (ac prog).
Notation covers := (DInvSem.covers).

(* recorded edges follow the order of the reads: before the first read of d, every tracked
   read has its edge earlier in the list (or can never change) *)
Definition eord (H : hist) (D : dhist) (v : rev) (q : qkey) (es : list edge) : Prop :=
  forall epre d epost, es = epre ++ EQ d :: epost ->
    exists tpre tpost, tr H v q = tpre ++ RQ d :: tpost /\
      (forall i, In (RIn i) tpre -> In (EIn i) epre \/ D v i = 3) /\
      (forall e, In (RQ e) tpre -> In (EQ e) epre \/ durge H D v 3 e).

Definition pmemo (H : hist) (D : dhist) (q : qkey) (m : memo) : Prop :=
  In q ns /\ ac H (m_verified m) q /\ eord H D (m_verified m) q (m_edges m).

Definition PM (H : hist) (D : dhist) (s : db) : Prop :=
  forall q m, d_memo s q = Some m -> pmemo H D q m.

Lemma PM_memo_eq H D s s' : d_memo s' = d_memo s -> PM H D s -> PM H D s'.
Proof. intros Hm HP q m Hq. rewrite Hm in Hq. exact (HP q m Hq). Qed.

Lemma PM_store H D s q m : PM H D s -> pmemo H D q m -> PM H D (store s q m).
Proof.
  intros HP Hm p mp. unfold store; cbn. unfold upd. destruct (key_eqb_spec q p) as [<- | Hne].
  - intros Hp. injection Hp as <-. exact Hm.
  - apply HP.
Qed.

Ltac conj := repeat match goal with |- _ /\ _ => split end.

(* never-change callees stay what they are *)
Lemma never_now H D s a d :
  DInv H D s -> 1 <= a -> a <= cur s -> durge H D a 3 d -> In d ns -> ac H a d ->
  tr H (cur s) d = tr H a d /\ E H (cur s) d = E H a d /\ durge H D (cur s) 3 d /\ ac H (cur s) d.
Proof.
  intros HI Ha Hle Hd Hdn Had.
  apply (durge_stable' prog ns Hclosed NF HNF H D 3 a (cur s));
    [lia | apply (stable_never prog NF H D s a HI Ha) | exact Hd | exact Hdn | exact Had | exact Hle | lia].
Qed.

(* ---------------------------------------------------------------- marking a memo verified now *)
Lemma revalidate_ok H D s q m :
  DInv H D s -> PM H D s -> d_memo s q = Some m -> ac H (cur s) q ->
  agree_on (envat H (m_verified m)) (envat H (cur s)) (tr H (m_verified m) q) ->
  (forall i, In (RIn i) (tr H (m_verified m) q) -> D (cur s) i = D (m_verified m) i) ->
  durge H D (cur s) (m_dur m) q ->
  (forall d, clos H (cur s) q d -> d <> q ->
     exists md, d_memo s d = Some md /\ E H (cur s) d = E H (m_verified md) d /\ m_dur m <= m_dur md) ->
  let m' := reverify m (cur s) in
  DInv H D (store s q m') /\ PM H D (store s q m') /\ dext s (store s q m') /\
  E H (cur s) q = E H (m_verified m) q.
Proof.
  intros HI HP Hm Hacc Hag HDin Hdg Hclos m'.
  pose proof (inv_memo _ _ _ _ _ HI q m Hm) as Hok.
  destruct (HP q m Hm) as (Hqn & Hacv & Hord).
  destruct (trace_determined (prog q) _ _ Hag) as [Htr Hrun].
  assert (HE : E H (cur s) q = E H (m_verified m) q).
  { rewrite (E_unfold' prog ns Hclosed NF HNF H (cur s) q Hqn Hacc),
            (E_unfold' prog ns Hclosed NF HNF H (m_verified m) q Hqn Hacv). exact Hrun. }
  assert (Htr' : tr H (cur s) q = tr H (m_verified m) q) by exact Htr.
  pose proof (mo_order _ _ _ _ _ _ _ Hok) as (Ho1 & Ho2 & Ho3).
  assert (Hnev : forall d0, In (RQ d0) (tr H (m_verified m) q) -> durge H D (m_verified m) 3 d0 ->
            durge H D (cur s) 3 d0).
  { intros d0 Hd0 A. destruct (tr_ac prog ns Hclosed NF HNF H _ q d0 Hqn Hacv Hd0) as (Ha0 & Hn0 & _).
    apply (never_now H D s (m_verified m) d0 HI Ho1 Ho3 A Hn0 Ha0). }
  assert (HPM : PM H D (store s q m')).
  { apply PM_store; [exact HP |]. split; [exact Hqn |]. split; [exact Hacc |].
    cbn [m' reverify m_verified m_edges]. intros epre d0 epost Hes.
    destruct (Hord epre d0 epost Hes) as (tpre & tpost & Ht & Hin & Hq).
    assert (Hsub : forall x, In x tpre -> In x (tr H (m_verified m) q)).
    { intros x Hx. rewrite Ht. apply in_or_app. left; exact Hx. }
    exists tpre, tpost. split; [rewrite Htr'; exact Ht |]. split.
    - intros i Hi. destruct (Hin i Hi) as [A | A]; [left; exact A | right].
      rewrite (HDin i (Hsub _ Hi)). exact A.
    - intros e He. destruct (Hq e He) as [A | A]; [left; exact A | right].
      apply (Hnev e (Hsub _ He) A). }
  assert (Hfin : DInv H D (store s q m') /\ dext s (store s q m')).
  { apply (DInv_store prog NF H D s q m' HI); [reflexivity | | | |].
    - destruct Hok as [a b c d e f g h i k j].
      constructor; cbn [m' reverify m_val m_verified m_changed m_dur m_untracked m_edges];
        rewrite ?cur_store, ?Htr'; auto.
      + pose proof (inv_cur _ _ _ _ _ HI). lia.
      + intros x Hx. rewrite HE. apply b; exact Hx.
      + intros i0 Hi0. destruct (c i0 Hi0) as [A | A]; [left; exact A | right].
        rewrite (HDin i0 Hi0). exact A.
      + intros d0 Hd0. destruct (d d0 Hd0) as [A | A]; [left; exact A | right].
        apply (Hnev d0 Hd0 A).
      + destruct k as [A | (x & Hx & Hs)]; [left; exact A | right].
        exists x. split; [exact Hx|]. destruct x as [i0 | d0 | c0 |]; cbn in *; try exact Hs.
        destruct Hs as (md & Hmd & Hle).
        assert (Hne : q <> d0).
        { intros <-. destruct (tr_ac prog ns Hclosed NF HNF H _ q q Hqn Hacv Hx) as (_ & _ & Hnn). now apply Hnn. }
        exists md. split; [rewrite upd_other by exact Hne; exact Hmd | exact Hle].
      + intros d0 Hd0. destruct (key_eqb_spec q d0) as [<- | Hne].
        * exists m'. split; [unfold store; cbn; apply upd_same|].
          intros _. split; [reflexivity | cbn; lia].
        * destruct (Hclos d0 Hd0) as (md & Hmd & HEd & Hdd); [congruence|].
          exists md. split; [unfold store; cbn; rewrite upd_other by exact Hne; exact Hmd|].
          intros _. split; assumption.
    - intros g mg Hg Hne Hcl Hpre.
      pose proof (inv_memo _ _ _ _ _ HI g mg Hg) as Hokg.
      destruct (mo_obs _ _ _ _ _ _ _ Hokg q Hcl) as (md & Hmd & Hobs).
      rewrite Hm in Hmd. injection Hmd as <-.
      destruct Hobs as [A B]; [exact Hpre|].
      split; [rewrite A; symmetry; exact HE | exact B].
    - intros m0 Hm0 Hv0. rewrite Hm in Hm0. injection Hm0 as <-.
      split; [|cbn; lia]. intros _. unfold m'. rewrite <- Hv0. symmetry. apply reverify_same.
    - intros m0 Hm0. rewrite Hm in Hm0. injection Hm0 as <-. cbn. lia. }
  destruct Hfin as [A B]. split; [exact A|]. split; [exact HPM |]. split; [exact B | exact HE].
Qed.

(* The durability short-cut: nothing at the memo's level was written since it was verified. *)
Lemma shortcut_ok H D s q m :
  DInv H D s -> PM H D s -> d_memo s q = Some m ->
  lcs s (m_dur m) <= m_verified m ->
  let m' := reverify m (cur s) in
  DInv H D (store s q m') /\ PM H D (store s q m') /\ dext s (store s q m') /\
  E H (cur s) q = E H (m_verified m) q.
Proof.
  intros HI HP Hm Hlc.
  pose proof (inv_memo _ _ _ _ _ HI q m Hm) as Hok.
  destruct (HP q m Hm) as (Hqn & Hacv & Hord).
  pose proof (mo_order _ _ _ _ _ _ _ Hok) as (Ho1 & Ho2 & Ho3).
  destruct (N.eq_dec (m_verified m) (cur s)) as [Heq | Hne].
  - (* already verified now: nothing moves *)
    apply (revalidate_ok H D s q m HI HP Hm); rewrite <- ?Heq.
    + exact Hacv.
    + intros x _. reflexivity.
    + intros i _. reflexivity.
    + apply (mo_durge _ _ _ _ _ _ _ Hok).
    + intros d Hd Hdq.
      destruct (mo_obs _ _ _ _ _ _ _ Hok d Hd) as (md & Hmd & Hobs).
      exists md. split; [exact Hmd|]. apply Hobs. left.
      pose proof (mo_order _ _ _ _ _ _ _ (inv_memo _ _ _ _ _ HI d md Hmd)) as (_ & A & B). lia.
  - assert (Hk : 1 <= m_dur m).
    { destruct (N.eq_dec (m_dur m) 0) as [H0 | H0]; [|lia].
      rewrite H0 in Hlc. unfold lcs in Hlc. rewrite lc_zero in Hlc. unfold cur in *. lia. }
    pose proof (stable_now prog NF H D s (m_dur m) (m_verified m) HI Hlc) as Hw.
    pose proof (mo_durge _ _ _ _ _ _ _ Hok) as Hdg.
    assert (Hst : forall d, In d ns -> ac H (m_verified m) d -> durge H D (m_verified m) (m_dur m) d ->
              tr H (cur s) d = tr H (m_verified m) d /\ E H (cur s) d = E H (m_verified m) d /\
              durge H D (cur s) (m_dur m) d /\ ac H (cur s) d).
    { intros d Hdn Had Hd.
      apply (durge_stable' prog ns Hclosed NF HNF H D (m_dur m) (m_verified m) (cur s) Hk Hw d Hd Hdn Had);
        [exact Ho3 | lia]. }
    assert (Hcal : forall d, In (RQ d) (tr H (m_verified m) q) -> In d ns /\ ac H (m_verified m) d).
    { intros d Hx. destruct (tr_ac prog ns Hclosed NF HNF H _ q d Hqn Hacv Hx) as (A & B & _). split; assumption. }
    apply (revalidate_ok H D s q m HI HP Hm).
    + apply (Hst q Hqn Hacv Hdg).
    + intros x Hx. destruct x as [i | d | c |]; cbn.
      * symmetry. apply (Hw i); [apply (durge_in _ _ _ _ _ _ _ _ Hdg Hx) | lia | lia].
      * symmetry. destruct (Hcal d Hx) as [A B]. apply (Hst d A B). apply (durge_q _ _ _ _ _ _ _ _ Hdg Hx).
      * exfalso. assert (m_dur m = 0); [|lia].
        apply (durge_untr _ _ _ _ _ _ _ _ Hdg Hx). right; eauto.
      * reflexivity.
    + intros i Hi. apply (Hw i); [apply (durge_in _ _ _ _ _ _ _ _ Hdg Hi) | lia | lia].
    + apply (Hst q Hqn Hacv Hdg).
    + intros d Hd Hdq.
      apply (clos_stable' prog ns Hclosed NF HNF H D (m_dur m) (m_verified m) (cur s) q (cur s) Hk Hw Hdg Hqn Hacv Ho3 (N.le_refl _)) in Hd.
      destruct (mo_obs _ _ _ _ _ _ _ Hok d Hd) as (md & Hmd & Hobs).
      pose proof (durge_clos _ _ _ _ _ _ _ _ Hdg Hd) as Hdd.
      destruct (clos_ac prog ns Hclosed NF HNF H _ q d Hqn Hacv Hd) as (Hdn & Had).
      exists md. split; [exact Hmd|].
      destruct Hobs as [A B]; [right; exists (m_dur m); split; assumption|].
      split; [|exact B]. rewrite <- A. apply (Hst d Hdn Had Hdd).
Qed.

(* A freshly computed memo may be stored: it is ok, and every observer is served. *)
Lemma fresh_store_ok H D s q fr v ch (old : option memo) :
  DInv H D s -> PM H D s -> In q ns -> ac H (cur s) q ->
  covers s (tr H (cur s) q) fr ->
  v = E H (cur s) q ->
  d_memo s q = old ->
  (forall m0, old = Some m0 -> m_verified m0 = cur s -> m_val m0 = None) ->
  (* ch is either the frame's stamp, or the old memo's stamp when the value is unchanged and
     the durability did not decrease *)
  (ch = fr_changed fr \/
   exists o ov, old = Some o /\ m_val o = Some ov /\ ov = v /\ ch = m_changed o /\
                m_dur o <= fr_dur fr /\ m_changed o <= fr_changed fr) ->
  let m' := fresh_memo v (cur s) ch fr in
  DInv H D (store s q m') /\ dext s (store s q m').
Proof.
  intros HI HP Hqn Hacc Hcv Hv Hold Hnv Hch m'.
  assert (Hch_le : ch <= cur s).
  { destruct Hch as [-> | (o & ov & Ho & _ & _ & -> & _ & _)].
    - apply (cv_le _ _ _ Hcv).
    - subst old. pose proof (mo_order _ _ _ _ _ _ _ (inv_memo _ _ _ _ _ HI q o Ho)). lia. }
  assert (Hedges_sub : forall e, In e (m_edges m') -> In e (fr_edges fr)).
  { intros e. cbn. destruct ((fr_dur fr =? D_NEVER) && negb (fr_untracked fr)); [intros [] | auto]. }
  assert (Hcur1 : 1 <= cur s) by apply (inv_cur _ _ _ _ _ HI).
  assert (HDcur : forall i, D (cur s) i = f_dur (d_in s i)).
  { intros i. apply (inv_dur _ _ _ _ _ HI); [apply (inv_in_le _ _ _ _ _ HI) | lia]. }
  (* callees of the new run: verified now *)
  assert (Hcallee : forall d, In (RQ d) (tr H (cur s) q) ->
            exists md, d_memo s d = Some md /\ m_verified md = cur s /\
                       m_changed md <= fr_changed fr /\ fr_dur fr <= m_dur md /\
                       durge H D (cur s) (m_dur md) d).
  { intros d Hd. destruct (cv_q _ _ _ Hcv d Hd) as (md & Hmd & Hvd & _ & Hcd & Hdd & _).
    exists md. conj; auto. rewrite <- Hvd.
    apply (mo_durge _ _ _ _ _ _ _ (inv_memo _ _ _ _ _ HI d md Hmd)). }
  assert (Hdg : durge H D (cur s) (fr_dur fr) q).
  { constructor.
    - intros i Hi. rewrite HDcur. apply (cv_in _ _ _ Hcv i Hi).
    - intros d Hd. destruct (Hcallee d Hd) as (md & _ & _ & _ & Hle & Hdd).
      eapply durge_mono; [exact Hle | exact Hdd].
    - intros x Hx Hu. apply (cv_cell _ _ _ Hcv x Hx Hu). }
  apply (DInv_store prog NF H D s q m' HI); [reflexivity | | | |].
  - (* the new memo is ok *)
    constructor; cbn [m' fresh_memo m_val m_verified m_changed m_dur m_untracked]; rewrite ?cur_store.
    + lia.
    + intros x Hx. injection Hx as <-. exact Hv.
    + intros i Hi. destruct (cv_in _ _ _ Hcv i Hi) as (Hin & _ & Hle).
      rewrite HDcur. cbn.
      destruct ((fr_dur fr =? D_NEVER) && negb (fr_untracked fr)) eqn:Hb.
      * right. apply andb_true_iff in Hb. destruct Hb as [Hb _]. apply N.eqb_eq in Hb.
        unfold D_NEVER in Hb. pose proof (inv_dur3 _ _ _ _ _ HI (cur s) i) as H3.
        rewrite HDcur in H3. lia.
      * exact Hin.
    + intros d Hd. destruct (cv_q _ _ _ Hcv d Hd) as (md & Hmd & Hvd & _ & _ & Hle & Hor).
      pose proof (inv_memo _ _ _ _ _ HI d md Hmd) as Hokd.
      assert (H3d : m_dur md = 3 -> durge H D (cur s) 3 d).
      { intros H3. rewrite <- H3, <- Hvd. apply (mo_durge _ _ _ _ _ _ _ Hokd). }
      cbn. destruct ((fr_dur fr =? D_NEVER) && negb (fr_untracked fr)) eqn:Hb.
      * right. apply H3d. apply andb_true_iff in Hb. destruct Hb as [Hb _]. apply N.eqb_eq in Hb.
        unfold D_NEVER in Hb. pose proof (mo_dur3 _ _ _ _ _ _ _ Hokd). lia.
      * destruct Hor as [Hin | H3]; [left; exact Hin | right; apply H3d; exact H3].
    + intros x Hx Hu. apply (cv_cell _ _ _ Hcv x Hx Hu).
    + intros d Hd. apply Hedges_sub in Hd. apply (cv_edges_q _ _ _ Hcv d Hd).
    + apply (cv_untr _ _ _ Hcv).
    + exact Hdg.
    + apply (cv_dur3 _ _ _ Hcv).
    + assert (Hle : ch <= fr_changed fr).
      { destruct Hch as [-> | (o & ov & _ & _ & _ & -> & _ & A)]; [lia | exact A]. }
      destruct (cv_stamp _ _ _ Hcv) as [A | (x & Hx & Hs)]; [left; lia | right].
      exists x. split; [exact Hx|]. destruct x as [i0 | d0 | c0 |]; cbn in *; try exact Hs; [lia|].
      destruct Hs as (md & Hmd & Hle').
      assert (Hne : q <> d0).
      { intros <-. destruct (tr_ac prog ns Hclosed NF HNF H _ q q Hqn Hacc Hx) as (_ & _ & Hnn). now apply Hnn. }
      exists md. split; [rewrite upd_other by exact Hne; exact Hmd | lia].
    + intros d Hd. destruct (key_eqb_spec q d) as [<- | Hne].
      * exists m'. split; [unfold store; cbn; apply upd_same|].
        intros _. split; [reflexivity | cbn; lia].
      * assert (Hstep : exists d1, In (RQ d1) (tr H (cur s) q) /\ clos H (cur s) d1 d).
        { destruct Hd as [f | f d1 e Hin Hd1]; [contradiction | exists d1; split; assumption]. }
        destruct Hstep as (d1 & Hin1 & Hd1).
        destruct (Hcallee d1 Hin1) as (md1 & Hmd1 & Hvd1 & _ & Hle1 & _).
        destruct (obs_of_callee prog NF H D s d1 md1 d HI Hmd1 Hvd1 Hd1) as (md & Hmd & HEd & Hdd).
        exists md. split; [unfold store; cbn; rewrite upd_other by exact Hne; exact Hmd|].
        intros _. split; [exact HEd | lia].
  - (* observers *)
    intros g mg Hg Hne Hcl Hpre.
    pose proof (inv_memo _ _ _ _ _ HI g mg Hg) as Hokg.
    pose proof (mo_order _ _ _ _ _ _ _ Hokg) as (Hg1 & Hg2 & Hg3).
    pose proof (durge_clos _ _ _ _ _ _ _ _ (mo_durge _ _ _ _ _ _ _ Hokg) Hcl) as Hdgq.
    assert (Hacg : ac H (m_verified mg) q).
    { destruct (HP g mg Hg) as (Hgn & Hag & _).
      apply (clos_ac prog ns Hclosed NF HNF H _ g q Hgn Hag Hcl). }
    assert (Hmdle : forall d md, d_memo s d = Some md -> m_changed md <= cur s).
    { intros d md Hmd. pose proof (mo_order _ _ _ _ _ _ _ (inv_memo _ _ _ _ _ HI d md Hmd)). lia. }
    destruct (N.eq_dec (m_verified mg) (cur s)) as [Heq | Hnow].
    { (* g is verified now *)
      split; [rewrite Heq; reflexivity|].
      apply (frame_dur_lb prog NF H D s q fr g mg HI Hcv Hg Hcl); rewrite ?Heq; auto.
      intros d md _ Hmd. left. apply (Hmdle d md Hmd). }
    assert (Hlt : m_verified mg < cur s) by lia.
    (* stable since v_g at some level *)
    assert (Hstable : forall k, durge H D (m_verified mg) k q -> lcs s k <= m_verified mg ->
              E H (m_verified mg) q = E H (cur s) q /\ m_dur mg <= m_dur m').
    { intros k Hdk Hlck.
      assert (Hk : 1 <= k).
      { destruct (N.eq_dec k 0) as [-> | H0]; [|lia].
        unfold lcs in Hlck. rewrite lc_zero in Hlck. unfold cur in *. lia. }
      pose proof (stable_now prog NF H D s k (m_verified mg) HI Hlck) as Hw.
      destruct (durge_stable' prog ns Hclosed NF HNF H D k (m_verified mg) (cur s) Hk Hw q Hdk Hqn Hacg (cur s) Hg3 (N.le_refl _))
        as (Htr & HE & _).
      split; [symmetry; exact HE|].
      apply (frame_dur_lb prog NF H D s q fr g mg HI Hcv Hg Hcl Htr).
      - intros i Hi. rewrite Htr in Hi.
        apply (Hw i); [apply (durge_in _ _ _ _ _ _ _ _ Hdk Hi) | lia | lia].
      - intros d md Hd _. rewrite Htr in Hd. right. exists k.
        split; [apply (durge_q _ _ _ _ _ _ _ _ Hdk Hd) | exact Hlck]. }
    destruct Hpre as [Hle | (k & Hdk & Hlck)]; [|apply (Hstable k Hdk Hlck)].
    cbn [m' fresh_memo m_changed] in Hle.
    destruct Hch as [-> | (o & ov & Ho & Hov & Heq & -> & Hdo & _)].
    + (* not backdated: every read of the new run has a stamp <= v_g *)
      assert (Hsame_ans : forall x, In x (tr H (cur s) q) -> In x (tr H (m_verified mg) q) ->
                answer (envat H (cur s)) x = answer (envat H (m_verified mg)) x).
      { intros x Hx Hx'. destruct x as [i | d | c |]; cbn.
        - destruct (cv_in _ _ _ Hcv i Hx) as (_ & Hst & _).
          rewrite (inv_in _ _ _ _ _ HI i (cur s)); [|apply (inv_in_le _ _ _ _ _ HI) | lia].
          rewrite (inv_in _ _ _ _ _ HI i (m_verified mg)); [reflexivity | lia | lia].
        - destruct (cv_q _ _ _ Hcv d Hx) as (md & Hmd & Hvd & _ & Hcd & _).
          pose proof (clos_right _ _ _ _ _ _ _ Hcl Hx') as Hcd'.
          destruct (mo_obs _ _ _ _ _ _ _ Hokg d Hcd') as (md0 & Hmd0 & Hobs).
          rewrite Hmd in Hmd0. injection Hmd0 as <-.
          destruct Hobs as [A _]; [left; lia|]. rewrite A, Hvd. reflexivity.
        - destruct (cv_cell _ _ _ Hcv (RCell c) Hx) as (_ & Hcc & _); [right; eauto | lia].
        - reflexivity. }
      assert (Hag : agree_on (envat H (cur s)) (envat H (m_verified mg)) (tr H (cur s) q)).
      { destruct (first_changed_is_read_again (prog q) (envat H (cur s)) (envat H (m_verified mg)))
          as [Hag | (pre & x & post & Ht & _ & Hnea & post' & Ht')]; [exact Hag|].
        exfalso. apply Hnea. apply Hsame_ans.
        - unfold tr, Inv.tr. rewrite Ht. apply in_or_app; right; left; reflexivity.
        - unfold tr, Inv.tr. rewrite Ht'. apply in_or_app; right; left; reflexivity. }
      destruct (trace_determined _ _ _ Hag) as [Htr Hrun].
      assert (Htr' : tr H (cur s) q = tr H (m_verified mg) q) by (symmetry; exact Htr).
      split; [rewrite (E_unfold' prog ns Hclosed NF HNF H _ q Hqn Hacg), (E_unfold' prog ns Hclosed NF HNF H _ q Hqn Hacc); exact Hrun|].
      apply (frame_dur_lb prog NF H D s q fr g mg HI Hcv Hg Hcl Htr').
      * intros i Hi. destruct (cv_in _ _ _ Hcv i Hi) as (_ & Hst & _).
        rewrite HDcur. symmetry. apply (inv_dur _ _ _ _ _ HI); lia.
      * intros d md Hd Hmd. destruct (cv_q _ _ _ Hcv d Hd) as (md0 & Hmd0 & _ & _ & Hcd & _).
        rewrite Hmd in Hmd0. injection Hmd0 as <-. left. lia.
    + (* backdated: the value equals the old one, the durability did not decrease *)
      subst old.
      destruct (mo_obs _ _ _ _ _ _ _ Hokg q Hcl) as (md0 & Hmd0 & Hobs).
      rewrite Ho in Hmd0. injection Hmd0 as <-.
      destruct Hobs as [A B]; [left; exact Hle|].
      split; [|cbn; lia].
      rewrite A. rewrite <- (mo_val _ _ _ _ _ _ _ (inv_memo _ _ _ _ _ HI q o Ho) ov Hov).
      rewrite Heq. exact Hv.
  - (* the query's own memo, if it was verified now (and evicted) *)
    intros m0 Hm0 Hv0.
    split; [intros Hx; exfalso; apply Hx; apply Hnv; [congruence | exact Hv0]|].
    cbn [m' fresh_memo m_dur].
    apply (frame_dur_lb prog NF H D s q fr q m0 HI Hcv Hm0); rewrite ?Hv0; auto.
    + apply clos_refl.
    + intros d md _ Hmd. left.
      pose proof (mo_order _ _ _ _ _ _ _ (inv_memo _ _ _ _ _ HI d md Hmd)). lia.
  - (* changed_at never decreases *)
    intros m0 Hm0. cbn [m' fresh_memo m_changed].
    destruct Hch as [-> | (o & ov & Ho & _ & _ & -> & _ & _)].
    + apply (frame_changed_lb prog NF H D s q fr m0 HI Hcv Hm0).
    + subst old. rewrite Hm0 in Ho. injection Ho as <-. lia.
Qed.

(* ---------------------------------------------------------------- the edge walk succeeded *)
(* Every recorded edge is unchanged since the memo was verified: the memo may be marked
   verified now.  Inputs and callees of level NEVER_CHANGE have no edge; they cannot move. *)
Lemma deep_ok H D s q m :
  DInv H D s -> PM H D s -> d_memo s q = Some m -> m_untracked m = false ->
  (forall e, In e (m_edges m) ->
     match e with
     | EIn i => f_changed (d_in s i) <= m_verified m
     | EQ d => E H (m_verified m) d = E H (cur s) d /\ durge H D (cur s) (m_dur m) d /\
               exists md, d_memo s d = Some md /\ m_verified md = cur s /\ m_dur m <= m_dur md
     end) ->
  let m' := reverify m (cur s) in
  DInv H D (store s q m') /\ PM H D (store s q m') /\ dext s (store s q m') /\
  E H (cur s) q = E H (m_verified m) q.
Proof.
  intros HI HP Hm Hu Hc.
  pose proof (inv_memo _ _ _ _ _ HI q m Hm) as Hok.
  destruct (HP q m Hm) as (Hqn & Hacv & Hord).
  assert (Hcal : forall d, In (RQ d) (tr H (m_verified m) q) -> In d ns /\ ac H (m_verified m) d).
  { intros d Hx. destruct (tr_ac prog ns Hclosed NF HNF H _ q d Hqn Hacv Hx) as (A & B & _). split; assumption. }
  pose proof (mo_order _ _ _ _ _ _ _ Hok) as (Ho1 & Ho2 & Ho3).
  pose proof (mo_durge _ _ _ _ _ _ _ Hok) as Hdg.
  pose proof (stable_never prog NF H D s (m_verified m) HI Ho1) as Hw3.
  assert (Hin_same : forall i, In (RIn i) (tr H (m_verified m) q) ->
            sn_in (H (cur s)) i = sn_in (H (m_verified m)) i /\ D (cur s) i = D (m_verified m) i).
  { intros i Hi. destruct (mo_reads_in _ _ _ _ _ _ _ Hok i Hi) as [He | H3].
    - pose proof (Hc _ He) as Hle. cbn in Hle. split.
      + rewrite (inv_in _ _ _ _ _ HI i (m_verified m) Hle Ho3).
        apply (inv_in _ _ _ _ _ HI i (cur s)); [apply (inv_in_le _ _ _ _ _ HI) | lia].
      + rewrite (inv_dur _ _ _ _ _ HI i (m_verified m) Hle Ho3).
        apply (inv_dur _ _ _ _ _ HI i (cur s)); [apply (inv_in_le _ _ _ _ _ HI) | lia].
    - apply (Hw3 i); [lia | exact Ho3 | lia]. }
  assert (Hag : agree_on (envat H (m_verified m)) (envat H (cur s)) (tr H (m_verified m) q)).
  { intros x Hx. destruct x as [i | d | c |]; cbn.
    - symmetry. apply (Hin_same i Hx).
    - destruct (mo_reads_q _ _ _ _ _ _ _ Hok d Hx) as [He | H3].
      + exact (proj1 (Hc _ He)).
      + symmetry. destruct (Hcal d Hx) as [A B]. apply (never_now H D s (m_verified m) d HI Ho1 Ho3 H3 A B).
    - rewrite (mo_reads_cell _ _ _ _ _ _ _ Hok (RCell c) Hx) in Hu; [discriminate | right; eauto].
    - reflexivity. }
  destruct (trace_determined (prog q) _ _ Hag) as [Htr _].
  assert (Htr' : tr H (cur s) q = tr H (m_verified m) q) by exact Htr.
  assert (Hacc : ac H (cur s) q).
  { apply (ac_of_tr prog ns Hclosed NF HNF). intros d Hd. rewrite Htr' in Hd.
    destruct (Hcal d Hd) as [A B]. split; [| exact A].
    destruct (mo_reads_q _ _ _ _ _ _ _ Hok d Hd) as [He | H3].
    - destruct (Hc _ He) as (_ & _ & md & Hmd & Hvd & _).
      destruct (HP d md Hmd) as (_ & Hamd & _). rewrite Hvd in Hamd. exact Hamd.
    - apply (never_now H D s (m_verified m) d HI Ho1 Ho3 H3 A B). }
  apply (revalidate_ok H D s q m HI HP Hm Hacc Hag).
  - intros i Hi. apply (Hin_same i Hi).
  - constructor; rewrite Htr'.
    + intros i Hi. rewrite (proj2 (Hin_same i Hi)). apply (durge_in _ _ _ _ _ _ _ _ Hdg Hi).
    + intros d Hd. destruct (mo_reads_q _ _ _ _ _ _ _ Hok d Hd) as [He | H3].
      * exact (proj1 (proj2 (Hc _ He))).
      * eapply durge_mono; [apply (mo_dur3 _ _ _ _ _ _ _ Hok)|].
        destruct (Hcal d Hd) as [A B]. apply (never_now H D s (m_verified m) d HI Ho1 Ho3 H3 A B).
    + intros x Hx Hux. apply (durge_untr _ _ _ _ _ _ _ _ Hdg Hx Hux).
  - intros d Hd Hdq.
    assert (Hstep : exists d1, In (RQ d1) (tr H (cur s) q) /\ clos H (cur s) d1 d).
    { destruct Hd as [f | f d1 e Hin Hd1]; [contradiction | exists d1; split; assumption]. }
    destruct Hstep as (d1 & Hin1 & Hd1). rewrite Htr' in Hin1.
    destruct (mo_reads_q _ _ _ _ _ _ _ Hok d1 Hin1) as [He | H3].
    + destruct (Hc _ He) as (_ & _ & md1 & Hmd1 & Hvd1 & Hle1).
      destruct (obs_of_callee prog NF H D s d1 md1 d HI Hmd1 Hvd1 Hd1) as (md & Hmd & HEd & Hdd).
      exists md. split; [exact Hmd|]. split; [exact HEd | lia].
    + assert (H31 : (1 <= 3)) by lia.
      destruct (Hcal d1 Hin1) as [Hd1n Hd1a].
      apply (clos_stable' prog ns Hclosed NF HNF H D 3 (m_verified m) (cur s) d1 (cur s) H31 Hw3 H3 Hd1n Hd1a Ho3 (N.le_refl _)) in Hd1.
      pose proof (durge_clos _ _ _ _ _ _ _ _ H3 Hd1) as H3d.
      assert (Hcq : clos H (m_verified m) q d) by (eapply clos_step; eassumption).
      destruct (mo_obs _ _ _ _ _ _ _ Hok d Hcq) as (md & Hmd & Hobs).
      exists md. split; [exact Hmd|].
      destruct Hobs as [A B].
      { right. exists 3. split; [exact H3d|]. unfold lcs. rewrite lc_never by lia. exact Ho1. }
      split; [|exact B]. rewrite <- A.
      destruct (clos_ac prog ns Hclosed NF HNF H _ q d Hqn Hacv Hcq) as (Hdn & Had).
      apply (never_now H D s (m_verified m) d HI Ho1 Ho3 H3d Hdn Had).
Qed.


(* ---------------------------------------------------------------- the order of a frame's edges *)
Definition cord (s : db) (pre : list rd) (fr : frame) : Prop :=
  forall epre d epost, fr_edges fr = epre ++ EQ d :: epost ->
    exists tpre tpost, pre = tpre ++ RQ d :: tpost /\
      (forall i, In (RIn i) tpre -> In (EIn i) epre \/ f_dur (d_in s i) = 3) /\
      (forall e, In (RQ e) tpre -> In (EQ e) epre \/
         exists md, d_memo s e = Some md /\ m_verified md = cur s /\ m_val md <> None /\ m_dur md = 3).

Lemma cord_frame0 s : cord s [] frame0.
Proof. intros epre d epost He. cbn in He. destruct epre; discriminate. Qed.

Lemma cord_ext s s' pre fr : dext s s' -> cord s pre fr -> cord s' pre fr.
Proof.
  intros He Hc epre d epost Hes. destruct (Hc epre d epost Hes) as (tpre & tpost & Hp & Hi & Hq).
  exists tpre, tpost. split; [exact Hp |]. split.
  - intros i Hin. rewrite (ext_in _ _ He). apply Hi; exact Hin.
  - intros e Hin. destruct (Hq e Hin) as [A | (md & Hmd & Hv & Hx & H3)]; [left; exact A | right].
    exists md. split; [apply (ext_valid _ _ He); assumption |].
    rewrite (dext_cur _ _ He). split; [exact Hv |]. split; assumption.
Qed.

Lemma snoc_split {T} (es : list T) x epre y epost :
  es ++ [x] = epre ++ y :: epost ->
  (exists epost', es = epre ++ y :: epost' /\ epost = epost' ++ [x]) \/
  (epre = es /\ y = x /\ epost = []).
Proof.
  revert epre. induction es as [| a es IH]; intros epre He; cbn [app] in He.
  - destruct epre as [| b epre]; cbn [app] in He.
    + injection He as <- <-. right. repeat split.
    + injection He as _ He. destruct epre; discriminate.
  - destruct epre as [| b epre]; cbn [app] in He.
    + injection He as <- <-. left. exists es. split; reflexivity.
    + injection He as <- He. destruct (IH epre He) as [(ep & A & B) | (A & B & C)].
      * left. exists ep. split; [cbn; now rewrite A | exact B].
      * right. subst. repeat split.
Qed.

(* the frame after one more read: the edge list is unchanged or grows at the end *)
Lemma cord_grow s pre fr x es' :
  cord s pre fr ->
  (es' = fr_edges fr \/
   (exists e, es' = fr_edges fr ++ [e] /\
      match e with
      | EIn _ => True
      | EQ d => x = RQ d /\
          (forall i, In (RIn i) pre -> In (EIn i) (fr_edges fr) \/ f_dur (d_in s i) = 3) /\
          (forall e0, In (RQ e0) pre -> In (EQ e0) (fr_edges fr) \/
             exists md, d_memo s e0 = Some md /\ m_verified md = cur s /\ m_val md <> None /\ m_dur md = 3)
      end)) ->
  forall fr', fr_edges fr' = es' -> cord s (pre ++ [x]) fr'.
Proof.
  intros Hc Hes fr' Hfr' epre d epost Hsplit. rewrite Hfr' in Hsplit.
  assert (Hold : forall epost0, fr_edges fr = epre ++ EQ d :: epost0 ->
            exists tpre tpost, pre ++ [x] = tpre ++ RQ d :: tpost /\
              (forall i, In (RIn i) tpre -> In (EIn i) epre \/ f_dur (d_in s i) = 3) /\
              (forall e, In (RQ e) tpre -> In (EQ e) epre \/
                 exists md, d_memo s e = Some md /\ m_verified md = cur s /\ m_val md <> None /\ m_dur md = 3)).
  { intros epost0 He0. destruct (Hc epre d epost0 He0) as (tpre & tpost & Hp & Hi & Hq).
    exists tpre, (tpost ++ [x]). split; [rewrite Hp, <- app_assoc; reflexivity |]. split; assumption. }
  destruct Hes as [-> | (e & -> & He)]; [apply (Hold epost Hsplit) |].
  destruct (snoc_split _ _ _ _ _ Hsplit) as [(ep & A & B) | (A & B & C)]; [apply (Hold ep A) |].
  subst epre epost. subst e. destruct He as (-> & Hi & Hq).
  exists pre, []. split; [reflexivity |]. split; assumption.
Qed.

Lemma cord_add_in s pre fr i du ch :
  cord s pre fr -> cord s (pre ++ [RIn i]) (add_read fr (EIn i) du ch).
Proof.
  intros Hc. apply (cord_grow s pre fr (RIn i) (fr_edges (add_read fr (EIn i) du ch)) Hc); [| reflexivity].
  cbn [add_read fr_edges]. destruct (du =? D_NEVER); [left; reflexivity |].
  unfold add_edge. destruct (existsb (edge_eqb (EIn i)) (fr_edges fr)); [left; reflexivity | right].
  exists (EIn i). split; [reflexivity | exact I].
Qed.

Lemma cord_add_q s pre fr d md :
  covers s pre fr -> cord s pre fr ->
  cord s (pre ++ [RQ d]) (add_read fr (EQ d) (m_dur md) (m_changed md)).
Proof.
  intros Hcv Hc. apply (cord_grow s pre fr (RQ d) (fr_edges (add_read fr (EQ d) (m_dur md) (m_changed md))) Hc); [| reflexivity].
  cbn [add_read fr_edges]. destruct (m_dur md =? D_NEVER); [left; reflexivity |].
  unfold add_edge. destruct (existsb (edge_eqb (EQ d)) (fr_edges fr)); [left; reflexivity | right].
  exists (EQ d). split; [reflexivity |]. split; [reflexivity |]. split.
  - intros i Hi. apply (cv_in _ _ _ Hcv i Hi).
  - intros e0 He0. destruct (cv_q _ _ _ Hcv e0 He0) as (md0 & A & B & C & _ & _ & F).
    destruct F as [F | F]; [left; exact F | right]. exists md0. repeat split; assumption.
Qed.

Lemma cord_add_untracked s pre fr x now :
  cord s pre fr -> cord s (pre ++ [x]) (add_untracked fr now).
Proof.
  intros Hc. apply (cord_grow s pre fr x (fr_edges fr) Hc); [left; reflexivity | reflexivity].
Qed.

(* the fresh memo's edges are ordered *)
Lemma eord_fresh H D s q fr v ch :
  DInv H D s -> covers s (tr H (cur s) q) fr -> cord s (tr H (cur s) q) fr ->
  eord H D (cur s) q (m_edges (fresh_memo v (cur s) ch fr)).
Proof.
  intros HI Hcv Hc epre d epost Hes. cbn [fresh_memo m_edges] in Hes.
  destruct ((fr_dur fr =? D_NEVER) && negb (fr_untracked fr)); [destruct epre; discriminate |].
  destruct (Hc epre d epost Hes) as (tpre & tpost & Hp & Hi & Hq).
  exists tpre, tpost. split; [exact Hp |]. split.
  - intros i Hin. destruct (Hi i Hin) as [A | A]; [left; exact A | right].
    rewrite (inv_dur _ _ _ _ _ HI i (cur s)); [exact A | apply (inv_in_le _ _ _ _ _ HI) | lia].
  - intros e Hin. destruct (Hq e Hin) as [A | (md & Hmd & Hv & _ & H3)]; [left; exact A | right].
    rewrite <- H3, <- Hv. apply (mo_durge _ _ _ _ _ _ _ (inv_memo _ _ _ _ _ HI e md Hmd)).
Qed.

End Sem.

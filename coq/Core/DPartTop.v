(* Core/DPartTop.v — Core/DInvTop.v redone for programs that may be cyclic: the pair
   ([DInv], [PM]) across API operations, and the from-scratch theorem over every well-formed
   history: a Get answers the from-scratch value when the from-scratch evaluation at the current
   snapshot is acyclic, and panics with the cycle error when it re-enters a node (or with an
   injected fault while a fault switch is on); never out of fuel. *)
From Coq Require Import Lia.
From Salsa Require Import Base.
From Salsa.Kern Require Import CoreK CoreKFacts K2_WriteReport.
From Salsa.Core Require Import Model Spec SpecProofs Wp Inv InvFrame InvSem InvOps InvTop.
From Salsa.Core Require Import DurSem DInv DInvSem DInvOps DInvTop.
From Salsa.Core Require Import DCycleSem DCycleInv DCycleBound DPartSem DPartInvSem DPartOps.

Ltac conj := repeat match goal with |- _ /\ _ => split end.

Section Top.
Variable prog : qkey -> body.
Variable noeq : qkey -> bool.
Variable fams : list N.
Variable ns : list qkey.
Hypothesis Hclosed : forall q d, In q ns -> calls (prog q) d -> In d ns.
Variable NF : nat.
Hypothesis HNF : (length ns <= NF)%nat.
Notation E := (E prog NF).
Notation tr := (tr prog NF).
Notation durge := (durge prog NF).
Notation clos := (clos prog NF).
Notation dmemo_ok := (dmemo_ok prog NF).
Notation DInv := (DInv prog NF).
Notation DInv_d := (DInv_d prog NF).
Notation PM := (PM prog ns NF).
Notation fresh := (DInvTop.fresh).

(* [PM] only talks about the history at the revisions where memos were verified *)
Lemma PM_transfer H D H' D' s s' :
  evicted_from (d_memo s) (d_memo s') ->
  (forall q m, d_memo s q = Some m ->
     H' (m_verified m) = H (m_verified m) /\ forall i, D' (m_verified m) i = D (m_verified m) i) ->
  PM H D s -> PM H' D' s'.
Proof.
  intros Hev Hpast HP q m' Hm'.
  destruct (evicted_bwd _ _ q m' Hev Hm') as (m & Hm & (S1 & _ & _ & _ & S5 & _)).
  destruct (HP q m Hm) as (Hqn & Hac & Hord). destruct (Hpast q m Hm) as [HHv HDv].
  split; [exact Hqn |]. rewrite S1, S5. split.
  - apply (ac_hist_eq prog H H' _ q HHv Hac).
  - intros epre d epost Hes. destruct (Hord epre d epost Hes) as (tpre & tpost & Ht & Hi & Hq).
    exists tpre, tpost. split; [rewrite (tr_hist_eq prog NF H H' _ q HHv); exact Ht |]. split.
    + intros i Hin. destruct (Hi i Hin) as [A | A]; [left; exact A | right; rewrite HDv; exact A].
    + intros e Hin. destruct (Hq e Hin) as [A | A]; [left; exact A | right].
      apply (durge_hist_eq prog NF H D H' D'); assumption.
Qed.

Lemma PInv_transfer H D H' D' s s' :
  DInv_d H D s -> PM H D s ->
  cur s <= cur s' -> 1 <= cur s' -> revs_ok (d_revs s') ->
  (forall k, lcs s k <= lcs s' k) ->
  evicted_from (d_memo s) (d_memo s') ->
  (forall i, f_changed (d_in s i) <= f_changed (d_in s' i)) ->
  (forall q m, d_memo s q = Some m ->
     H' (m_verified m) = H (m_verified m) /\ forall i, D' (m_verified m) i = D (m_verified m) i) ->
  (forall i r, f_changed (d_in s' i) <= r -> r <= cur s' -> sn_in (H' r) i = f_val (d_in s' i)) ->
  (forall i r, f_changed (d_in s' i) <= r -> r <= cur s' -> D' r i = f_dur (d_in s' i)) ->
  (forall i, f_changed (d_in s' i) <= cur s') ->
  (forall c, sn_cell (H' (cur s')) c = d_cell s' c) ->
  (forall r i, D' r i <= 3) ->
  (forall r i, r < cur s' -> lcs s' (D' r i) <= r ->
     sn_in (H' (r + 1)) i = sn_in (H' r) i /\ D' (r + 1) i = D' r i) ->
  DInv H' D' s' /\ PM H' D' s'.
Proof.
  intros HI HP Hc H1 Hrv Hlc Hev Hfc Hpast Hin Hdur Hinle Hcell Hd3 Hwr. split.
  - apply (DInv_transfer prog NF H D H' D' s s'); assumption.
  - apply (PM_transfer H D H' D' s s'); assumption.
Qed.

Definition OKp (s : db) : Prop := exists H D, DInv H D s /\ PM H D s.
Definition OKp_d (s : db) : Prop := exists H D, DInv_d H D s /\ PM H D s.

Lemma OKp_to_d s : OKp s -> OKp_d s.
Proof. intros (H & D & HI & HP). exists H, D. split; [apply (DInv_to_d prog NF); exact HI | exact HP]. Qed.

Lemma OKp_d_same s s' :
  OKp_d s -> d_revs s' = d_revs s -> d_in s' = d_in s ->
  evicted_from (d_memo s) (d_memo s') -> OKp_d s'.
Proof.
  intros (H & D & HI & HP) Hr Hi Hev. exists H, D.
  destruct (DInv_d_facts prog NF H D s HI) as (F1 & F2 & F3 & F4 & F5 & F6 & F7 & F8).
  assert (Hc : cur s' = cur s) by (unfold cur; rewrite Hr; reflexivity).
  unfold DInv_d.
  apply (PInv_transfer H D H D s (set_cell s' (sn_cell (H (cur s'))))); auto;
    change (cur (set_cell s' _)) with (cur s'); change (d_in (set_cell s' _)) with (d_in s');
    change (d_revs (set_cell s' _)) with (d_revs s'); rewrite ?Hc, ?Hi, ?Hr; auto; try lia.
  - intros k. unfold lcs. cbn. rewrite Hr. lia.
  - intros r i Hlt Hl. apply F8; [exact Hlt|]. unfold lcs in *. cbn in Hl. rewrite Hr in Hl. exact Hl.
Qed.

Lemma OKp_same s s' :
  OKp s -> d_revs s' = d_revs s -> d_in s' = d_in s -> d_cell s' = d_cell s ->
  evicted_from (d_memo s) (d_memo s') -> OKp s'.
Proof.
  intros (H & D & HI & HP) Hr Hi Hce Hev. exists H, D.
  destruct (DInv_d_facts prog NF H D s (DInv_to_d prog NF H D s HI)) as (F1 & F2 & F3 & F4 & F5 & F6 & F7 & F8).
  assert (Hc : cur s' = cur s) by (unfold cur; rewrite Hr; reflexivity).
  apply (PInv_transfer H D H D s s'); rewrite ?Hc, ?Hi, ?Hr; auto; try lia.
  - apply (DInv_to_d prog NF); exact HI.
  - intros k. unfold lcs. rewrite Hr. lia.
  - rewrite Hce. apply (inv_cell _ _ _ _ _ HI).
  - intros r i Hlt Hl. apply F8; [exact Hlt|]. unfold lcs in *. rewrite Hr in Hl. exact Hl.
Qed.

Lemma OKp_advance s s' :
  OKp_d s ->
  d_revs s' = {| r_cur := r_cur (d_revs s) + 1; r_med := r_med (d_revs s); r_high := r_high (d_revs s) |} ->
  d_in s' = d_in s ->
  evicted_from (d_memo s) (d_memo s') ->
  OKp s' /\ fresh s'.
Proof.
  intros (H & D & HI & HP) Hr Hi Hev.
  destruct (DInv_d_facts prog NF H D s HI) as (F1 & F2 & F3 & F4 & F5 & F6 & F7 & F8).
  assert (Hc : cur s' = cur s + 1) by (unfold cur; rewrite Hr; reflexivity).
  assert (Hlc : forall k, lcs s k <= lcs s' k).
  { intros k. unfold lcs. rewrite Hr.
    destruct (lc_cases (d_revs s) k) as [[-> ->] | [[-> ->] | [[-> ->] | [Hk ->]]]]; cbn; try lia.
    rewrite lc_never by exact Hk. lia. }
  split.
  - exists (extend H (cur s') (snap_of s')), (extendD D (cur s') (durs_of s')).
    apply (PInv_transfer H D _ _ s s'); auto; try lia.
    + destruct F2 as (A & B & C). rewrite Hr. unfold revs_ok; cbn. lia.
    + intros i. rewrite Hi. lia.
    + intros q m Hm. specialize (F3 q m Hm).
      split; [apply extend_other; lia | intros i; rewrite extendD_other by lia; reflexivity].
    + intros i r Hle Hrc. destruct (N.eq_dec r (cur s')) as [-> | Hne].
      * rewrite extend_same. reflexivity.
      * rewrite extend_other by exact Hne. rewrite Hi in *. apply F4; lia.
    + intros i r Hle Hrc. destruct (N.eq_dec r (cur s')) as [-> | Hne].
      * rewrite extendD_same. reflexivity.
      * rewrite extendD_other by exact Hne. rewrite Hi in *. apply F5; lia.
    + intros i. rewrite Hi. specialize (F6 i). lia.
    + intros c. rewrite extend_same. reflexivity.
    + intros r i. unfold extendD. destruct (r =? cur s'); [|apply F7].
      unfold durs_of. rewrite Hi. rewrite <- (F5 i (cur s)); [apply F7 | apply F6 | lia].
    + intros r i Hlt Hl.
      destruct (N.eq_dec (r + 1) (cur s')) as [Heq | Hne].
      * assert (r = cur s) by lia. subst r.
        rewrite Heq, extend_same, extendD_same, extend_other, extendD_other by lia.
        unfold durs_of; cbn. rewrite Hi.
        split; symmetry; [apply F4 | apply F5]; try apply F6; lia.
      * rewrite !extend_other, !extendD_other by lia.
        rewrite extendD_other in Hl by lia.
        apply F8; [lia|]. specialize (Hlc (D r i)). lia.
  - intros q m' Hm'. destruct (evicted_bwd _ _ q m' Hev Hm') as (m & Hm & (S1 & _)).
    rewrite S1. specialize (F3 q m Hm). lia.
Qed.

Lemma OKp_revs s s' :
  OKp s -> cur s' = cur s -> revs_ok (d_revs s') -> (forall k, lcs s k <= lcs s' k) ->
  d_in s' = d_in s -> d_cell s' = d_cell s -> d_memo s' = d_memo s -> OKp s'.
Proof.
  intros (H & D & HI & HP) Hc Hrv Hlc Hi Hce Hm. exists H, D.
  destruct (DInv_d_facts prog NF H D s (DInv_to_d prog NF H D s HI)) as (F1 & F2 & F3 & F4 & F5 & F6 & F7 & F8).
  apply (PInv_transfer H D H D s s'); rewrite ?Hc, ?Hi; auto; try lia.
  - apply (DInv_to_d prog NF); exact HI.
  - rewrite Hm. apply evicted_refl.
  - rewrite Hce. apply (inv_cell _ _ _ _ _ HI).
  - intros r i Hlt Hl. apply F8; [exact Hlt|]. specialize (Hlc (D r i)). lia.
Qed.

Lemma OKp_write s i v nd :
  OKp s -> fresh s -> f_dur (d_in s i) <> 3 -> nd <= 3 ->
  let od := f_dur (d_in s i) in
  let r1 := if od =? D_LOW then d_revs s else report_write (d_revs s) od in
  let f' := {| f_val := v; f_changed := cur s; f_dur := nd |} in
  OKp (set_in (set_revs s r1) (upd (d_in s) i f')).
Proof.
  intros (H & D & HI & HP) Hfresh Hod Hnd od r1 f'.
  set (s' := set_in (set_revs s r1) (upd (d_in s) i f')).
  destruct (DInv_d_facts prog NF H D s (DInv_to_d prog NF H D s HI)) as (F1 & F2 & F3 & F4 & F5 & F6 & F7 & F8).
  assert (Hod3 : od < 3).
  { unfold od. pose proof (F7 (cur s) i) as A. rewrite (F5 i (cur s)) in A; [lia | apply F6 | lia]. }
  assert (Hcur_r1 : r_cur r1 = r_cur (d_revs s)).
  { unfold r1. destruct (od =? D_LOW); reflexivity. }
  assert (Hc : cur s' = cur s) by (unfold cur, s'; cbn; exact Hcur_r1).
  assert (Hrv : revs_ok r1).
  { unfold r1. destruct (od =? D_LOW); [exact F2 | apply revs_ok_report_write; exact F2]. }
  assert (Hlc : forall k, lcs s k <= lcs s' k).
  { intros k. unfold lcs, s'; cbn. unfold r1. destruct (od =? D_LOW); [lia|].
    apply lc_report_write_ge; exact F2. }
  assert (Hlc_od : forall k, k <= od -> lcs s' k = cur s).
  { intros k Hk. unfold lcs, s'; cbn. unfold r1.
    destruct (N.eqb_spec od D_LOW) as [H0 | H0].
    - unfold D_LOW in H0. replace k with 0 by lia. apply lc_zero.
    - rewrite lc_report_write.
      destruct (N.eqb_spec k 0) as [-> | Hk0]; [reflexivity|].
      destruct (N.leb_spec k od) as [_ | Hx]; [|lia].
      destruct (N.ltb_spec k 3) as [_ | Hx]; [|lia]. reflexivity. }
  assert (Hin' : forall j, j <> i -> d_in s' j = d_in s j).
  { intros j Hj. unfold s'; cbn. apply upd_other. congruence. }
  assert (Hin_i : d_in s' i = f') by (unfold s'; cbn; apply upd_same).
  exists (extend H (cur s') (snap_of s')), (extendD D (cur s') (durs_of s')).
  apply (PInv_transfer H D _ _ s s'); auto; try lia.
  - apply (DInv_to_d prog NF); exact HI.
  - apply evicted_refl.
  - intros j. destruct (key_eqb_spec j i) as [-> | Hji].
    + rewrite Hin_i. cbn. apply F6.
    + rewrite (Hin' j Hji). lia.
  - intros q m Hm. specialize (Hfresh q m Hm).
    split; [apply extend_other; lia | intros j; rewrite extendD_other by lia; reflexivity].
  - intros j r Hle Hrc. destruct (N.eq_dec r (cur s')) as [-> | Hne].
    + rewrite extend_same. reflexivity.
    + rewrite extend_other by exact Hne.
      destruct (key_eqb_spec j i) as [-> | Hji].
      * rewrite Hin_i in Hle. cbn in Hle. lia.
      * rewrite (Hin' j Hji) in *. apply F4; lia.
  - intros j r Hle Hrc. destruct (N.eq_dec r (cur s')) as [-> | Hne].
    + rewrite extendD_same. reflexivity.
    + rewrite extendD_other by exact Hne.
      destruct (key_eqb_spec j i) as [-> | Hji].
      * rewrite Hin_i in Hle. cbn in Hle. lia.
      * rewrite (Hin' j Hji) in *. apply F5; lia.
  - intros j. destruct (key_eqb_spec j i) as [-> | Hji].
    + rewrite Hin_i. cbn. lia.
    + rewrite (Hin' j Hji). specialize (F6 j). lia.
  - intros c. rewrite extend_same. reflexivity.
  - intros r j. unfold extendD. destruct (r =? cur s'); [|apply F7].
    unfold durs_of. destruct (key_eqb_spec j i) as [-> | Hji].
    + rewrite Hin_i. cbn. exact Hnd.
    + rewrite (Hin' j Hji). rewrite <- (F5 j (cur s)); [apply F7 | apply F6 | lia].
  - intros r j Hlt Hl.
    destruct (N.eq_dec (r + 1) (cur s')) as [Heq | Hne].
    + (* the step into the rewritten revision *)
      rewrite extendD_other in Hl by lia.
      rewrite Heq, extend_same, extendD_same, extend_other, extendD_other by lia.
      assert (Hr1 : r + 1 = cur s) by lia.
      destruct (key_eqb_spec j i) as [-> | Hji].
      * exfalso.
        destruct (N.le_gt_cases (lcs s (D r i)) r) as [Hold | Hold].
        -- destruct (F8 r i) as [_ B]; [lia | exact Hold|].
           rewrite Hr1 in B. rewrite (F5 i (cur s)) in B; [|apply F6 | lia].
           fold od in B. rewrite <- B in Hl. rewrite Hlc_od in Hl by lia. lia.
        -- specialize (Hlc (D r i)). lia.
      * unfold durs_of, snap_of. cbn [sn_in]. rewrite !(Hin' j Hji).
        destruct (F8 r j) as [A B]; [lia | specialize (Hlc (D r j)); lia|].
        rewrite Hr1 in A, B.
        rewrite <- A, <- B. split; symmetry; [apply F4 | apply F5]; try apply F6; lia.
    + rewrite !extend_other, !extendD_other by lia.
      rewrite extendD_other in Hl by lia.
      apply F8; [lia|]. specialize (Hlc (D r j)). lia.
Qed.

Lemma OKp_d_new_revision s : OKp_d s -> OKp (new_revision fams s) /\ fresh (new_revision fams s).
Proof.
  intros Hok. destruct (InvTop.new_revision_facts fams s) as (_ & _ & C & _ & _ & F).
  apply (OKp_advance s); auto. apply new_revision_revs.
Qed.

Lemma OKp_d_zalsa_mut s : OKp_d s -> OKp_d (zalsa_mut fams s).
Proof.
  intros Hok. unfold zalsa_mut. destruct (d_ccount s =? 255).
  - apply OKp_to_d. apply OKp_d_new_revision; exact Hok.
  - apply (OKp_d_same s); auto. apply evicted_refl.
Qed.

Lemma OKp_zalsa_mut s : OKp s -> OKp (zalsa_mut fams s).
Proof.
  intros Hok. unfold zalsa_mut. destruct (d_ccount s =? 255).
  - apply OKp_d_new_revision. apply OKp_to_d; exact Hok.
  - apply (OKp_same s); auto. apply evicted_refl.
Qed.


(* ---------------------------------------------------------------- operations *)
Definition state_ok (dirty : bool) (s : db) : Prop :=
  (if dirty then OKp_d s else OKp s) /\ d_stack s = [].

Lemma state_ok_d dirty s : state_ok dirty s -> OKp_d s.
Proof. destruct dirty; intros [A _]; [exact A | apply OKp_to_d; exact A]. Qed.

Lemma step_other_ok fuel dirty s o :
  dur_op o -> state_ok dirty s ->
  match o with
  | OGet _ => True
  | OSetCell _ _ => state_ok true (fst (step prog noeq fams fuel s o))
  | OSet _ _ _ | OSynth _ => state_ok false (fst (step prog noeq fams fuel s o))
  | _ => state_ok dirty (fst (step prog noeq fams fuel s o))
  end.
Proof.
  intros Hdop Hok. pose proof (state_ok_d dirty s Hok) as Hd.
  assert (Hst : d_stack s = []) by (destruct Hok; assumption).
  destruct o as [i v d | d | c v | c v | ef | q | fam n |]; cbn [step fst].
  - (* OSet *)
    pose proof (OKp_d_zalsa_mut s Hd) as Hz.
    destruct (OKp_d_new_revision _ Hz) as [Hn Hfresh].
    set (s1 := new_revision fams (zalsa_mut fams s)) in *.
    assert (Hst1 : d_stack s1 = []).
    { unfold s1. destruct (InvTop.new_revision_facts fams (zalsa_mut fams s)) as (_ & _ & _ & _ & E0 & _).
      rewrite E0, zalsa_mut_stack. exact Hst. }
    destruct (f_dur (d_in s1 i) =? D_NEVER) eqn:Hnever; cbn [fst].
    + split; assumption.
    + split; [|exact Hst1].
      apply N.eqb_neq in Hnever. unfold D_NEVER in Hnever.
      assert (Hnd : match d with Some d' => d' | None => f_dur (d_in s1 i) end <= 3).
      { destruct d as [d'|]; [exact Hdop|].
        destruct Hn as (H1 & D1 & HI1 & HP1).
        rewrite <- (inv_dur _ _ _ _ _ HI1 i (cur s1)); [apply (inv_dur3 _ _ _ _ _ HI1) | apply (inv_in_le _ _ _ _ _ HI1) | lia]. }
      exact (OKp_write s1 i v _ Hn Hfresh Hnever Hnd).
  - (* OSynth *)
    pose proof (OKp_d_zalsa_mut s Hd) as Hz.
    destruct (OKp_d_new_revision _ Hz) as [Hn Hfresh].
    set (s1 := new_revision fams (zalsa_mut fams s)) in *.
    assert (Hst1 : d_stack s1 = []).
    { unfold s1. destruct (InvTop.new_revision_facts fams (zalsa_mut fams s)) as (_ & _ & _ & _ & E0 & _).
      rewrite E0, zalsa_mut_stack. exact Hst. }
    destruct (d =? D_NEVER); cbn [fst].
    + split; assumption.
    + split; [|exact Hst1].
      assert (Hrv1 : revs_ok (d_revs s1)) by (destruct Hn as (H1 & D1 & HI1 & HP1); apply (inv_revs _ _ _ _ _ HI1)).
      apply (OKp_revs s1); auto.
      * cbn. apply revs_ok_report_write; exact Hrv1.
      * intros k. unfold lcs; cbn. apply lc_report_write_ge; exact Hrv1.
  - (* OSetCell *)
    split; [|exact Hst]. apply (OKp_d_same s); auto. apply evicted_refl.
  - (* OSetPanic *)
    split; [|exact Hst]. destruct dirty; destruct Hok as [A _].
    + apply (OKp_d_same s); auto. apply evicted_refl.
    + apply (OKp_same s); auto. apply evicted_refl.
  - (* OSetEvFault *)
    split; [|exact Hst]. destruct dirty; destruct Hok as [A _].
    + apply (OKp_d_same s); auto. apply evicted_refl.
    + apply (OKp_same s); auto. apply evicted_refl.
  - exact I.
  - (* OSetLru *)
    split; [|cbn; rewrite zalsa_mut_stack; exact Hst].
    destruct dirty; destruct Hok as [A _].
    + apply (OKp_d_same (zalsa_mut fams s)); auto; [apply OKp_d_zalsa_mut; exact A | apply evicted_refl].
    + apply (OKp_same (zalsa_mut fams s)); auto; [apply OKp_zalsa_mut; exact A | apply evicted_refl].
  - (* OEvict *)
    destruct (evict_all_facts fams (zalsa_mut fams s)) as (A1 & A2 & A3 & A4 & A5).
    split; [|rewrite evict_all_stack, zalsa_mut_stack; exact Hst].
    destruct dirty; destruct Hok as [A _].
    + apply (OKp_d_same (zalsa_mut fams s)); auto; [apply OKp_d_zalsa_mut; exact A | apply evict_all_revs].
    + apply (OKp_same (zalsa_mut fams s)); auto; [apply OKp_zalsa_mut; exact A | apply evict_all_revs].
Qed.


(* ---------------------------------------------------------------- a Get *)
Lemma runo_ext : forall b ein ecell ein' ecell' (eq eq' : qkey -> option val),
  (forall i, ein i = ein' i) -> (forall c, ecell c = ecell' c) -> (forall d, eq d = eq' d) ->
  runo ein ecell eq b = runo ein' ecell' eq' b.
Proof.
  induction b as [v0 | i k IH | d k IH | c k IH | k IH | pc k IH]; intros ein ecell ein' ecell' eq eq' Hi Hc Hq;
    cbn [runo].
  - reflexivity.
  - rewrite (Hi i). apply IH; assumption.
  - rewrite (Hq d). destruct (eq' d); [apply IH; assumption | reflexivity].
  - rewrite (Hc c). apply IH; assumption.
  - apply IH; assumption.
  - apply IH; assumption.
Qed.

Lemma evalo_snap_eq a b : snap_eq a b -> forall n q, evalo prog n a q = evalo prog n b q.
Proof.
  intros [Hi Hc]. induction n as [| n IH]; intros q; [reflexivity |]. cbn [evalo].
  apply runo_ext; assumption.
Qed.

(* the outcome of a Get: an injected fault while a fault switch is on, or exactly what the
   from-scratch evaluation at the current snapshot says *)
Definition get_ok_part (s : db) (q : qkey) (r : out) : Prop :=
  (r = Panic PInjected /\ ((exists c, d_pcell s c <> 0) \/ d_evfault s <> None)) \/
  match evalo prog NF (snap_of s) q with
  | Some v => r = Ok v
  | None => r = Panic PCycle
  end.

Definition op_listed (o : op) : Prop := match o with OGet q => In q ns | _ => True end.

Fixpoint outs_part (fuel : nat) (s : db) (os : list op) : Prop :=
  match os with
  | [] => True
  | o :: os' =>
      (match o with OGet q => get_ok_part s q (snd (step prog noeq fams fuel s o)) | _ => True end) /\
      outs_part fuel (fst (step prog noeq fams fuel s o)) os'
  end.

Lemma step_get_ok' fuel s q :
  (length ns <= fuel)%nat -> In q ns -> state_ok false s ->
  get_ok_part s q (snd (step prog noeq fams fuel s (OGet q))) /\
  state_ok false (fst (step prog noeq fams fuel s (OGet q))).
Proof.
  intros Hfuel Hq [(H & D & HI & HP) Hst]. cbn [step].
  destruct (plevel_ok prog noeq ns Hclosed NF HNF H D fuel) as [HF HM].
  assert (Hctx : ctx ns [] s).
  { split; [exact Hst |]. split; [constructor |]. split; [intros x [] | intros p m []]. }
  assert (Hlt : (length ns < S fuel + length (@nil qkey))%nat) by (cbn [length]; lia).
  pose proof (fetch_ok' prog noeq ns Hclosed NF HNF H D (level prog noeq fuel) fuel HF HM q s []
                Hq (conj HI HP) Hctx Hlt) as Hwp.
  pose proof (DInv_snap prog NF H D s HI) as Hsn.
  unfold wp in Hwp. unfold get_ok_part.
  rewrite <- (evalo_snap_eq _ _ Hsn NF q).
  destruct (fetch prog noeq (level prog noeq fuel) q s) as [s' [[[v d] c] | p |]] eqn:Hf.
  - cbn [fst snd].
    destruct Hwp as ([HI' HP'] & He & _ & Hs' & Hv & (m & Hm & Hvm & _)). cbn [fst snd] in Hv.
    split.
    + right. destruct (HP' q m Hm) as (_ & Hac & _). rewrite Hvm in Hac.
      rewrite (acs_value prog ns Hclosed NF HNF (H (cur s)) q Hq Hac). f_equal. exact Hv.
    + split; [exists H, D; split; assumption | congruence].
  - cbn [fst snd]. destruct Hwp as (Hp & HI' & _).
    split.
    + destruct Hp as [[-> Ha] | [-> Hb]]; [left; split; [reflexivity | exact Ha] | right].
      rewrite (qblk_nil prog (H (cur s)) q Hb NF). reflexivity.
    + split; [| reflexivity].
      exists H, D. apply (PInv_core_eq prog ns NF H D s'); [repeat split | exact HI'].
  - destruct Hwp.
Qed.

(* The from-scratch theorem for programs that may be cyclic: every well-formed history, inputs
   and writes of any durability. *)
Theorem from_scratch_part fuel :
  (length ns <= fuel)%nat ->
  forall ops dirty s, Forall dur_op ops -> Forall op_listed ops -> wf_ops dirty ops ->
  state_ok dirty s -> outs_part fuel s ops.
Proof.
  intros Hfuel. induction ops as [|o ops IH]; intros dirty s Hdur Hlist Hwf Hok; [exact I|].
  inversion Hdur as [|? ? Hdo Hdurs]; subst. inversion Hlist as [|? ? Hlo Hlists]; subst.
  cbn [outs_part].
  destruct o as [i v d | d | c v | c v | ef | q | fam n |].
  - split; [exact I|]. apply (IH false); [exact Hdurs | exact Hlists | exact Hwf |].
    apply (step_other_ok fuel dirty s (OSet i v d) Hdo Hok).
  - split; [exact I|]. apply (IH false); [exact Hdurs | exact Hlists | exact Hwf |].
    apply (step_other_ok fuel dirty s (OSynth d) Hdo Hok).
  - split; [exact I|]. apply (IH true); [exact Hdurs | exact Hlists | exact Hwf |].
    apply (step_other_ok fuel dirty s (OSetCell c v) Hdo Hok).
  - split; [exact I|]. apply (IH dirty); [exact Hdurs | exact Hlists | exact Hwf |].
    apply (step_other_ok fuel dirty s (OSetPanic c v) Hdo Hok).
  - split; [exact I|]. apply (IH dirty); [exact Hdurs | exact Hlists | exact Hwf |].
    apply (step_other_ok fuel dirty s (OSetEvFault ef) Hdo Hok).
  - destruct Hwf as [-> Hwf].
    destruct (step_get_ok' fuel s q Hfuel Hlo Hok) as [Hg Hs].
    split; [exact Hg|]. apply (IH false); assumption.
  - split; [exact I|]. apply (IH dirty); [exact Hdurs | exact Hlists | exact Hwf |].
    apply (step_other_ok fuel dirty s (OSetLru fam n) Hdo Hok).
  - split; [exact I|]. apply (IH dirty); [exact Hdurs | exact Hlists | exact Hwf |].
    apply (step_other_ok fuel dirty s OEvict Hdo Hok).
Qed.

Lemma init_ok_part iv idur lru0 : (forall i, idur i <= 3) -> state_ok false (init iv idur lru0).
Proof.
  intros Hid. split; [|reflexivity].
  exists (fun _ => snap_of (init iv idur lru0)), (fun _ => idur). split.
  - constructor.
    + cbn. unfold REV_START. lia.
    + cbn. unfold revs_ok, REV_START; cbn. lia.
    + intros i r _ _. reflexivity.
    + intros i r _ _. reflexivity.
    + intros i. cbn. unfold REV_START. lia.
    + intros c. reflexivity.
    + intros r i. apply Hid.
    + intros r i _ _. split; reflexivity.
    + intros q m Hm. discriminate.
  - intros q m Hm. discriminate.
Qed.

Theorem from_scratch_part_init fuel :
  (length ns <= fuel)%nat ->
  forall iv idur lru0 ops, (forall i, idur i <= 3) -> Forall dur_op ops -> Forall op_listed ops ->
  wf_ops false ops -> outs_part fuel (init iv idur lru0) ops.
Proof.
  intros Hfuel iv idur lru0 ops Hid Hdur Hlist Hwf.
  apply (from_scratch_part fuel Hfuel ops false _ Hdur Hlist Hwf). apply init_ok_part. exact Hid.
Qed.


(* ---------------------------------------------------------------- the same, per Get of a history *)
Lemma run_ops_fst_cons fuel s o os :
  fst (run_ops prog noeq fams fuel s (o :: os)) =
  fst (run_ops prog noeq fams fuel (fst (step prog noeq fams fuel s o)) os).
Proof.
  cbn [run_ops]. destruct (step prog noeq fams fuel s o) as [s1 r]. cbn [fst].
  destruct (run_ops prog noeq fams fuel s1 os) as [s2 rs]. reflexivity.
Qed.

Lemma outs_part_at fuel : forall pre s q post,
  outs_part fuel s (pre ++ OGet q :: post) ->
  get_ok_part (fst (run_ops prog noeq fams fuel s pre)) q
    (snd (step prog noeq fams fuel (fst (run_ops prog noeq fams fuel s pre)) (OGet q))).
Proof.
  induction pre as [| o pre IH]; intros s q post Hout.
  - cbn [app outs_part run_ops fst] in *. exact (proj1 Hout).
  - rewrite run_ops_fst_cons. cbn [app outs_part] in Hout. apply (IH _ q post). exact (proj2 Hout).
Qed.

Theorem usable_afterwards fuel :
  (length ns <= fuel)%nat ->
  forall iv idur lru0 pre q, (forall i, idur i <= 3) ->
  Forall dur_op (pre ++ [OGet q]) -> Forall op_listed (pre ++ [OGet q]) -> wf_ops false (pre ++ [OGet q]) ->
  get_ok_part (fst (run_ops prog noeq fams fuel (init iv idur lru0) pre)) q
    (snd (step prog noeq fams fuel (fst (run_ops prog noeq fams fuel (init iv idur lru0) pre)) (OGet q))).
Proof.
  intros Hfuel iv idur lru0 pre q Hid Hdur Hlist Hwf.
  apply (outs_part_at fuel pre (init iv idur lru0) q []).
  apply (from_scratch_part_init fuel Hfuel iv idur lru0 _ Hid Hdur Hlist Hwf).
Qed.

(* ---------------------------------------------------------------- sanity: acyclic programs *)
Section Acyclic.
Variable rank : qkey -> nat.
Hypothesis Hrank : calls_below prog rank.
Hypothesis Hbound : forall q, (rank q < NF)%nat.

Lemma runo_total : forall b ein ecell (eq : qkey -> option val),
  (forall d, calls b d -> exists w, eq d = Some w) -> exists v, runo ein ecell eq b = Some v.
Proof.
  induction b as [v0 | i k IH | d k IH | c k IH | k IH | pc k IH]; intros ein ecell eq Hall; cbn [runo].
  - eauto.
  - apply IH. intros d Hd. apply Hall. econstructor; exact Hd.
  - destruct (Hall d (calls_here d k)) as (w & ->). apply IH. intros d' Hd. apply Hall. econstructor; exact Hd.
  - apply IH. intros d Hd. apply Hall. econstructor; exact Hd.
  - apply IH. intros d Hd. apply Hall. constructor; exact Hd.
  - apply IH. intros d Hd. apply Hall. constructor; exact Hd.
Qed.

Lemma rank_acs sn : forall n q, (rank q < n)%nat -> exists v, evalo prog n sn q = Some v.
Proof.
  induction n as [| n IH]; intros q Hq; [lia |]. cbn [evalo].
  apply runo_total. intros d Hd. apply IH. pose proof (Hrank q d Hd). lia.
Qed.

Lemma get_ok_part_strict s q r : get_ok_part s q r -> get_ok_strict prog NF s q r.
Proof.
  intros [Hx | Hx]; [right; exact Hx | left].
  destruct (rank_acs (snap_of s) NF q (Hbound q)) as (v & Hv). rewrite Hv in Hx.
  rewrite Hx. f_equal. symmetry. apply (eval_evalo prog ns NF HNF (snap_of s) NF q v Hv NF). lia.
Qed.

Lemma outs_part_strict fuel : forall os s, outs_part fuel s os -> outs_ok_strict prog noeq fams NF fuel s os.
Proof.
  induction os as [| o os IH]; intros s Hx; [exact I |].
  cbn [outs_part outs_ok_strict] in *. destruct Hx as [A B]. split; [| apply IH; exact B].
  destruct o; try exact I. apply get_ok_part_strict; exact A.
Qed.

(* [from_scratch_dur_strong_init] of Core/DInvTop.v, for the Gets of listed keys *)
Corollary from_scratch_dur_strong_init_again fuel :
  (length ns <= fuel)%nat ->
  forall iv idur lru0 ops, (forall i, idur i <= 3) -> Forall dur_op ops -> Forall op_listed ops ->
  wf_ops false ops -> outs_ok_strict prog noeq fams NF fuel (init iv idur lru0) ops.
Proof.
  intros Hfuel iv idur lru0 ops Hid Hdur Hlist Hwf. apply outs_part_strict.
  apply (from_scratch_part_init fuel Hfuel iv idur lru0 ops Hid Hdur Hlist Hwf).
Qed.

End Acyclic.

End Top.

(* Core/DCycleTop.v — Gets on a fresh revision state of the Core model, programs that may be
   cyclic (depending on the inputs), no cycle recovery.  Every Get answers exactly what the
   from-scratch evaluation says: its value when that evaluation is acyclic, the cycle panic when it
   re-enters a node; never out of fuel, never another panic; and the state after either outcome
   is again a fresh-revision state (memo table holds only from-scratch values, no claim is left). *)
From Coq Require Import PeanoNat Lia.
From Salsa Require Import Base.
From Salsa.Kern Require Import CoreK.
From Salsa.Core Require Import Model Spec Wp DCycleSem DCycleInv DCycleBound.

Section Top.
Variable prog : qkey -> body.
Variable noeq : qkey -> bool.
Variable fams : list N.
Variable sn : snapshot.
Variable ns : list qkey.
Hypothesis Hclosed : closed_calls prog ns.

(* the state between two Gets *)
Definition fresh_state (s : db) : Prop := FI prog sn s /\ d_stack s = [].

(* what a Get of q must answer *)
Definition get_answer (q : qkey) (o : out) : Prop :=
  match evalo prog (length ns) sn q with
  | Some v => o = Ok v
  | None => o = Panic PCycle
  end.

Lemma step_get fuel s q : (length ns <= fuel)%nat -> In q ns -> fresh_state s ->
  fresh_state (fst (step prog noeq fams fuel s (OGet q))) /\
  get_answer q (snd (step prog noeq fams fuel s (OGet q))).
Proof.
  intros Hfuel Hq (HF & Hs).
  assert (Hlt : (length ns < S fuel + length (@nil qkey))%nat) by (cbn [length]; lia).
  pose proof (fetch_ok prog noeq sn ns Hclosed (level prog noeq fuel) fuel
                (level_spec prog noeq sn ns Hclosed fuel) [] s q HF Hs (NoDup_nil _) (incl_nil_l _) Hq Hlt) as H.
  unfold wp in H. cbn [step].
  destruct (fetch prog noeq (level prog noeq fuel) q s) as [s' [[[v du] ch] | p |]]; cbn [fst snd].
  - destruct H as (HF' & Hs' & Hv). cbn [fst] in Hv. split; [exact (conj HF' Hs') |].
    unfold get_answer. now rewrite (evalo_bound prog sn ns Hclosed q v Hq Hv).
  - destruct H as (HF' & -> & Hb). split.
    + split; [| reflexivity]. apply (FI_eq prog sn s'); try reflexivity; [apply HF' | exact HF'].
    + unfold get_answer. now rewrite (qblk_nil prog sn q Hb (length ns)).
  - destruct H.
Qed.

Theorem gets_fresh fuel : (length ns <= fuel)%nat -> forall qs s, incl qs ns -> fresh_state s ->
  fresh_state (fst (run_ops prog noeq fams fuel s (map OGet qs))) /\
  Forall2 get_answer qs (snd (run_ops prog noeq fams fuel s (map OGet qs))).
Proof.
  intros Hfuel. induction qs as [| q qs IH]; intros s Hin Hfs; cbn [map run_ops].
  - split; [exact Hfs | constructor].
  - destruct (step_get fuel s q Hfuel (Hin q (or_introl eq_refl)) Hfs) as (H1 & H2).
    destruct (step prog noeq fams fuel s (OGet q)) as [s1 r]. cbn [fst snd] in H1, H2.
    specialize (IH s1 (fun x Hx => Hin x (or_intror Hx)) H1).
    destruct (run_ops prog noeq fams fuel s1 (map OGet qs)) as [s2 rs]. cbn [fst snd] in *.
    destruct IH as (I1 & I2). split; [exact I1 | constructor; assumption].
Qed.

End Top.

(* the initial database is a fresh state of its own snapshot *)
Lemma init_fresh prog iv idur lru0 :
  fresh_state prog (snap_of (init iv idur lru0)) (init iv idur lru0).
Proof.
  split; [| reflexivity]. unfold FI. cbn [init d_in d_cell d_pcell d_evfault d_memo f_val snap_of sn_in sn_cell].
  split; [reflexivity |]. split; [reflexivity |]. split; [reflexivity |]. split; [reflexivity |].
  intros q m Hm. discriminate.
Qed.

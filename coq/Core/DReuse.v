(* Core/DReuse.v — reuse at the level of events (C03, C04): what a computation inside one Get
   does to the log and to the memo table, as a relation [RX s s'] between the state before and
   after.  Definitions and the algebra of the relation (reflexivity, transitivity, the basic
   steps).  Nothing here needs the semantic invariant: these are facts about the algorithm. *)
From Salsa Require Import Base.
From Salsa.Kern Require Import CoreK CoreKFacts.
From Salsa.Core Require Import Model Spec SpecProofs Wp Inv InvFrame InvSem DurSem DInv DInvSem DInvOps.

Section Reuse.
Variable noeq : qkey -> bool.

(* d has no memoized value (never computed, or its value was evicted) *)
Definition noval (s : db) (d : qkey) : Prop := forall md, d_memo s d = Some md -> m_val md = None.

(* Why q is executed, judged in the state s in which the decision is taken; s' supplies the
   stamps of q's recorded callees after they were asked whether they changed. *)
Definition J (s s' : db) (q : qkey) : Prop :=
  not_valid_with_value s q /\
  (d_memo s q = None \/
   exists m, d_memo s q = Some m /\
     (m_val m = None \/ m_untracked m = true \/
      (exists i, In (EIn i) (m_edges m) /\ m_verified m < f_changed (d_in s i)) \/
      (exists d, In (EQ d) (m_edges m) /\
         (noval s d \/ exists md', d_memo s' d = Some md' /\ m_verified m < m_changed md')))).

(* why an execution of d replaced its memo m by m' with a different changed_at (no backdating) *)
Definition reasons (d : qkey) (m m' : memo) : Prop :=
  noeq d = true \/ m_val m = None \/ m_dur m' < m_dur m \/
  exists ov v', m_val m = Some ov /\ m_val m' = Some v' /\ ov <> v'.

Record RX (s s' : db) : Prop := {
  rx_cur : cur s' = cur s;
  rx_in : d_in s' = d_in s;
  (* a memo is left alone or replaced by one verified in the current revision *)
  rx_same : forall q, d_memo s' q = d_memo s q \/
                      exists m', d_memo s' q = Some m' /\ m_verified m' = cur s;
  (* values are not lost inside a revision *)
  rx_val : forall q m v, d_memo s q = Some m -> m_val m = Some v ->
           exists m' v', d_memo s' q = Some m' /\ m_val m' = Some v';
  rx_valid : forall q m, d_memo s q = Some m -> m_verified m = cur s -> m_val m <> None ->
             d_memo s' q = Some m;
  rx_mono : forall q m, d_memo s q = Some m ->
            exists m', d_memo s' q = Some m' /\ m_changed m <= m_changed m';
  rx_log : exists new, d_log s' = new ++ d_log s /\
     (* every execution is justified *)
     (forall q, In (EvExec q) new -> J s s' q) /\
     (* a changed_at stamp moves only by an execution that could not backdate *)
     (forall d m m', d_memo s d = Some m -> d_memo s' d = Some m' -> m_changed m <> m_changed m' ->
        In (EvExec d) new /\ reasons d m m' /\ m_verified m' = cur s /\ m_val m' <> None)
}.

Lemma noval_back s s' d : RX s s' -> noval s' d -> noval s d.
Proof.
  intros HR Hn md Hmd. destruct (m_val md) as [v|] eqn:Hv; [|reflexivity].
  destruct (rx_val _ _ HR d md v Hmd Hv) as (m' & v' & Hm' & Hv').
  rewrite (Hn m' Hm') in Hv'. discriminate.
Qed.

Lemma RX_refl s : RX s s.
Proof.
  constructor; auto.
  - intros q m v Hm Hv. exists m, v. split; assumption.
  - intros q m Hm. exists m. split; [exact Hm | lia].
  - exists []. split; [reflexivity|]. split; [intros q []|].
    intros d m m' Hm Hm' Hne. rewrite Hm in Hm'. injection Hm' as <-. contradiction.
Qed.

Lemma J_post s s1 s2 q :
  (forall d m, d_memo s1 d = Some m -> exists m', d_memo s2 d = Some m' /\ m_changed m <= m_changed m') ->
  J s s1 q -> J s s2 q.
Proof.
  intros Hmono [Hnv Hj]. split; [exact Hnv|].
  destruct Hj as [Hn | (m & Hm & Hx)]; [left; exact Hn | right].
  exists m. split; [exact Hm|].
  destruct Hx as [A | [A | [A | (d & Hd & [B | (md' & Hmd' & Hlt)])]]]; auto.
  - right; right; right. exists d. split; [exact Hd | left; exact B].
  - right; right; right. exists d. split; [exact Hd | right].
    destruct (Hmono d md' Hmd') as (md'' & Hmd'' & Hle). exists md''. split; [exact Hmd'' | lia].
Qed.

Lemma RX_trans s1 s2 s3 : RX s1 s2 -> RX s2 s3 -> RX s1 s3.
Proof.
  intros R12 R23.
  pose proof (rx_cur _ _ R12) as Hc12. pose proof (rx_cur _ _ R23) as Hc23.
  destruct (rx_log _ _ R12) as (n12 & Hl12 & HJ12 & HX12).
  destruct (rx_log _ _ R23) as (n23 & Hl23 & HJ23 & HX23).
  constructor.
  - congruence.
  - rewrite (rx_in _ _ R23). apply (rx_in _ _ R12).
  - intros q. destruct (rx_same _ _ R23 q) as [A | (m' & A & B)].
    + rewrite A. apply (rx_same _ _ R12 q).
    + right. exists m'. split; [exact A | congruence].
  - intros q m v Hm Hv. destruct (rx_val _ _ R12 q m v Hm Hv) as (m' & v' & Hm' & Hv').
    apply (rx_val _ _ R23 q m' v' Hm' Hv').
  - intros q m Hm Hv Hx. apply (rx_valid _ _ R23); [apply (rx_valid _ _ R12); assumption | congruence | exact Hx].
  - intros q m Hm. destruct (rx_mono _ _ R12 q m Hm) as (m' & Hm' & Hle).
    destruct (rx_mono _ _ R23 q m' Hm') as (m'' & Hm'' & Hle').
    exists m''. split; [exact Hm'' | lia].
  - exists (n23 ++ n12). split; [rewrite Hl23, Hl12, app_assoc; reflexivity|]. split.
    + intros q Hq. apply in_app_iff in Hq. destruct Hq as [Hq | Hq].
      * (* executed in the second part *)
        destruct (HJ23 q Hq) as [Hnv2 Hj2].
        assert (Hnv1 : not_valid_with_value s1 q).
        { intros m0 Hm0 Hv0. destruct (m_val m0) as [v|] eqn:Hval; [|reflexivity].
          exfalso. assert (Hm2 : d_memo s2 q = Some m0).
          { apply (rx_valid _ _ R12); [exact Hm0 | exact Hv0 | rewrite Hval; discriminate]. }
          rewrite (Hnv2 m0 Hm2) in Hval; [discriminate | congruence]. }
        split; [exact Hnv1|].
        destruct (rx_same _ _ R12 q) as [Hsame | (m' & Hm' & Hv')].
        -- rewrite Hsame in Hj2. rewrite (rx_in _ _ R12) in Hj2.
           destruct Hj2 as [Hn | (m & Hm & Hx)]; [left; exact Hn | right].
           exists m. split; [exact Hm|].
           destruct Hx as [A | [A | [A | (d & Hd & [B | B])]]]; auto.
           ++ right; right; right. exists d. split; [exact Hd | left].
              apply (noval_back s1 s2 d R12 B).
           ++ right; right; right. exists d. split; [exact Hd | right; exact B].
        -- assert (Hval2 : m_val m' = None) by (apply Hnv2; [exact Hm' | congruence]).
           destruct (d_memo s1 q) as [m1|] eqn:Hm1; [right | left; reflexivity].
           exists m1. split; [reflexivity|]. left.
           destruct (m_val m1) as [v|] eqn:Hv1; [|reflexivity].
           destruct (rx_val _ _ R12 q m1 v Hm1 Hv1) as (m2 & v2 & Hm2 & Hv2).
           rewrite Hm' in Hm2. injection Hm2 as <-. rewrite Hval2 in Hv2. discriminate.
      * (* executed in the first part *)
        apply (J_post s1 s2 s3 q); [intros d m Hm; apply (rx_mono _ _ R23 d m Hm) | apply HJ12; exact Hq].
    + intros d m1 m3 Hm1 Hm3 Hne.
      destruct (rx_mono _ _ R12 d m1 Hm1) as (m2 & Hm2 & _).
      destruct (N.eq_dec (m_changed m1) (m_changed m2)) as [Heq | Hne12].
      * assert (Hne23 : m_changed m2 <> m_changed m3) by congruence.
        destruct (HX23 d m2 m3 Hm2 Hm3 Hne23) as (Hin & Hre & Hv3 & Hx3).
        split; [apply in_app_iff; left; exact Hin|]. split; [|split; [congruence | exact Hx3]].
        destruct (rx_same _ _ R12 d) as [Hsame | (m' & Hm' & Hv')].
        -- rewrite Hsame, Hm1 in Hm2. injection Hm2 as <-. exact Hre.
        -- rewrite Hm' in Hm2. injection Hm2 as <-.
           destruct (HJ23 d Hin) as [Hnv2 _].
           assert (Hval2 : m_val m' = None) by (apply Hnv2; [exact Hm' | congruence]).
           right; left.
           destruct (m_val m1) as [v|] eqn:Hv1; [|reflexivity].
           destruct (rx_val _ _ R12 d m1 v Hm1 Hv1) as (m2' & v2 & Hm2' & Hv2).
           rewrite Hm' in Hm2'. injection Hm2' as <-. rewrite Hval2 in Hv2. discriminate.
      * destruct (HX12 d m1 m2 Hm1 Hm2 Hne12) as (Hin & Hre & Hv2 & Hx2).
        assert (Hm3' : d_memo s3 d = Some m2).
        { apply (rx_valid _ _ R23); [exact Hm2 | congruence | exact Hx2]. }
        rewrite Hm3 in Hm3'. injection Hm3' as ->.
        split; [apply in_app_iff; right; exact Hin|]. split; [exact Hre|]. split; assumption.
Qed.

(* ---------------------------------------------------------------- basic steps *)
(* nothing but the log moved, by one event *)
Lemma RX_event s s1 e :
  d_revs s1 = d_revs s -> d_in s1 = d_in s -> d_memo s1 = d_memo s -> d_log s1 = e :: d_log s ->
  (forall q, e = EvExec q -> J s s q) -> RX s s1.
Proof.
  intros Hr Hi Hm Hl He.
  constructor; rewrite ?Hm; auto.
  - unfold cur. rewrite Hr. reflexivity.
  - intros q m v Hq Hv. exists m, v. split; assumption.
  - intros q m Hq. exists m. split; [exact Hq | lia].
  - exists [e]. split; [exact Hl|]. split.
    + intros q [-> | []]. specialize (He q eq_refl).
      apply (J_post s s s1 q); [|exact He].
      intros d m Hd. exists m. rewrite Hm. split; [exact Hd | lia].
    + intros d m m' Hd Hd' Hne. rewrite Hd in Hd'. injection Hd' as <-. contradiction.
Qed.

(* nothing the relation talks about moved *)
Lemma RX_quiet s s1 :
  d_revs s1 = d_revs s -> d_in s1 = d_in s -> d_memo s1 = d_memo s -> d_log s1 = d_log s -> RX s s1.
Proof.
  intros Hr Hi Hm Hl.
  constructor; rewrite ?Hm; auto.
  - unfold cur. rewrite Hr. reflexivity.
  - intros q m v Hq Hv. exists m, v. split; assumption.
  - intros q m Hq. exists m. split; [exact Hq | lia].
  - exists []. split; [exact Hl|]. split; [intros q []|].
    intros d m m' Hd Hd' Hne. rewrite Hd in Hd'. injection Hd' as <-. contradiction.
Qed.

(* a memo is marked verified now *)
Lemma RX_mark s q m : d_memo s q = Some m -> RX s (store s q (reverify m (cur s))).
Proof.
  intros Hm. set (m' := reverify m (cur s)).
  assert (Hother : forall p, p <> q -> d_memo (store s q m') p = d_memo s p).
  { intros p Hp. unfold store; cbn. apply upd_other. congruence. }
  assert (Hq : d_memo (store s q m') q = Some m') by (unfold store; cbn; apply upd_same).
  constructor; auto.
  - intros p. destruct (key_eqb_spec p q) as [-> | Hne]; [right | left; apply Hother; exact Hne].
    exists m'. split; [exact Hq | reflexivity].
  - intros p mp v Hp Hv. destruct (key_eqb_spec p q) as [-> | Hne].
    + rewrite Hm in Hp. injection Hp as <-. exists m', v. split; [exact Hq | exact Hv].
    + exists mp, v. rewrite (Hother p Hne). split; assumption.
  - intros p mp Hp Hv Hx. destruct (key_eqb_spec p q) as [-> | Hne].
    + rewrite Hm in Hp. injection Hp as <-. rewrite Hq. unfold m'. rewrite <- Hv.
      rewrite reverify_same. reflexivity.
    + rewrite (Hother p Hne). exact Hp.
  - intros p mp Hp. destruct (key_eqb_spec p q) as [-> | Hne].
    + rewrite Hm in Hp. injection Hp as <-. exists m'. split; [exact Hq | cbn; lia].
    + exists mp. rewrite (Hother p Hne). split; [exact Hp | lia].
  - exists []. split; [reflexivity|]. split; [intros p []|].
    intros d md md' Hd Hd' Hne. exfalso. apply Hne.
    destruct (key_eqb_spec d q) as [-> | Hnq].
    + rewrite Hm in Hd. rewrite Hq in Hd'. injection Hd as <-. injection Hd' as <-. reflexivity.
    + rewrite (Hother d Hnq), Hd in Hd'. injection Hd' as <-. reflexivity.
Qed.

(* the end of an execution of q: the fresh memo m' is stored.  s is the state in which the
   execution was decided, s2 the state after the body has run. *)
Lemma RX_finish s s2 q m' :
  RX s s2 -> d_memo s2 q = d_memo s q -> not_valid_with_value s q ->
  (forall new, d_log s2 = new ++ d_log s -> In (EvExec q) new) ->
  m_verified m' = cur s -> m_val m' <> None ->
  (forall o, d_memo s q = Some o -> m_changed o <= m_changed m') ->
  (forall o, d_memo s q = Some o -> m_changed o <> m_changed m' -> reasons q o m') ->
  RX s (store s2 q m').
Proof.
  intros HR Hsame Hnv Hev Hv' Hx' Hmono Hre.
  assert (Hother : forall p, p <> q -> d_memo (store s2 q m') p = d_memo s2 p).
  { intros p Hp. unfold store; cbn. apply upd_other. congruence. }
  assert (Hq : d_memo (store s2 q m') q = Some m') by (unfold store; cbn; apply upd_same).
  destruct (rx_log _ _ HR) as (new & Hl & HJ & HX).
  constructor.
  - apply (rx_cur _ _ HR).
  - apply (rx_in _ _ HR).
  - intros p. destruct (key_eqb_spec p q) as [-> | Hne].
    + right. exists m'. split; assumption.
    + rewrite (Hother p Hne). apply (rx_same _ _ HR).
  - intros p mp v Hp Hv. destruct (key_eqb_spec p q) as [-> | Hne].
    + destruct (m_val m') as [v'|] eqn:Hvm; [|contradiction]. exists m', v'. split; assumption.
    + rewrite (Hother p Hne). apply (rx_val _ _ HR p mp v Hp Hv).
  - intros p mp Hp Hv Hx. destruct (key_eqb_spec p q) as [-> | Hne].
    + exfalso. apply Hx. apply Hnv; assumption.
    + rewrite (Hother p Hne). apply (rx_valid _ _ HR); assumption.
  - intros p mp Hp. destruct (key_eqb_spec p q) as [-> | Hne].
    + exists m'. split; [exact Hq | apply Hmono; exact Hp].
    + rewrite (Hother p Hne). apply (rx_mono _ _ HR); exact Hp.
  - exists new. split; [exact Hl|]. split.
    + intros p Hp. apply (J_post s s2 (store s2 q m') p); [|apply HJ; exact Hp].
      intros d md Hd. destruct (key_eqb_spec d q) as [-> | Hne].
      * exists m'. split; [exact Hq|]. apply Hmono. rewrite <- Hsame. exact Hd.
      * exists md. rewrite (Hother d Hne). split; [exact Hd | lia].
    + intros d md md' Hd Hd' Hne. destruct (key_eqb_spec d q) as [-> | Hnq].
      * rewrite Hq in Hd'. injection Hd' as <-.
        split; [apply Hev; exact Hl|]. split; [apply Hre; assumption|]. split; assumption.
      * rewrite (Hother d Hnq) in Hd'. apply (HX d md md' Hd Hd' Hne).
Qed.

End Reuse.

(* Core/DCycleTerm.v — the Core model never hangs, whatever happened before: for ALL programs
   (cyclic or not), ALL histories of operations (writes of any durability, synthetic writes,
   cell changes, fault injection, LRU changes, eviction, Gets), a Get with fuel at least the
   number of keys reachable ends with a value or with a panic — never out of fuel — and leaves no
   claim behind.  The reason is the claim stack: every nested fetch / maybe_changed_after below
   the memo fast paths first claims its key, a claimed key is refused (cycle panic), so the
   nesting depth is bounded by the number of distinct keys.  Values are not discussed here. *)
From Coq Require Import PeanoNat Lia.
From Salsa Require Import Base.
From Salsa.Kern Require Import CoreK.
From Salsa.Core Require Import Model Spec Wp.
From Salsa.Core Require InvTop.
From Salsa.Core Require Import DCycleInv.

Section Term.
Variable prog : qkey -> body.
Variable noeq : qkey -> bool.
Variable ns : list qkey.
Hypothesis Hclosed : closed_calls prog ns.

Definition edges_in (es : list edge) : Prop := forall d, In (EQ d) es -> In d ns.

(* recorded dependencies of listed keys are listed keys *)
Definition EI (s : db) : Prop :=
  forall q m, In q ns -> d_memo s q = Some m -> edges_in (m_edges m).

Lemma EI_eq s s' : d_memo s' = d_memo s -> EI s -> EI s'.
Proof. intros Hm HE q m Hq Hqm. rewrite Hm in Hqm. exact (HE q m Hq Hqm). Qed.

Lemma EI_store s q m x : EI s -> edges_in (m_edges m) ->
  EI (set_seen (set_memo s (upd (d_memo s) q (Some m))) x).
Proof.
  intros HE Hm q' m' Hq'. cbn [d_memo set_seen set_memo]. unfold upd.
  destruct (key_eqb q q'); intros Hqm.
  - injection Hqm as <-. exact Hm.
  - exact (HE q' m' Hq' Hqm).
Qed.

Lemma add_read_edges fr e du c d :
  In (EQ d) (fr_edges (add_read fr e du c)) -> In (EQ d) (fr_edges fr) \/ e = EQ d.
Proof.
  cbn [add_read fr_edges]. destruct (du =? D_NEVER); [now left |].
  unfold add_edge. destruct (existsb (edge_eqb e) (fr_edges fr)); [now left |].
  intros H. apply in_app_or in H. destruct H as [H | [H | []]]; [now left | now right].
Qed.

Definition tspec (L : lower) (n : nat) : Prop :=
  forall st s q, EI s -> d_stack s = st -> NoDup st -> incl st ns -> In q ns ->
    (length ns < n + length st)%nat ->
    wp (l_fetch L q) (fun _ s' => EI s' /\ d_stack s' = st) (fun _ s' => EI s') s /\
    forall since, wp (l_mca L q since) (fun _ s' => EI s' /\ d_stack s' = st) (fun _ s' => EI s') s.

Section Level.
Variable L : lower.
Variable n : nat.
Hypothesis HL : tspec L n.
Variable st' : list qkey.
Hypothesis Hnd : NoDup st'.
Hypothesis Hin : incl st' ns.
Hypothesis Hfuel : (length ns < n + length st')%nat.

Lemma run_body_t : forall b fr s, EI s -> d_stack s = st' -> (forall d, calls b d -> In d ns) ->
  edges_in (fr_edges fr) ->
  wp (run_body L b fr)
     (fun r s' => EI s' /\ d_stack s' = st' /\ edges_in (fr_edges (snd r)))
     (fun _ s' => EI s') s.
Proof.
  induction b as [v | i k IH | d k IH | c k IH | k IH | c k IH]; intros fr s HE Hs Hc Hfr; cbn [run_body].
  - apply wp_ret. split; [exact HE |]. split; [exact Hs | exact Hfr].
  - apply wp_bind, wp_get. apply IH; [exact HE | exact Hs | |].
    + intros d Hd. apply Hc. econstructor; exact Hd.
    + intros d Hd. apply add_read_edges in Hd. destruct Hd as [Hd | Hd]; [now apply Hfr | discriminate].
  - apply wp_bind. eapply wp_conseq.
    + apply (HL st' s d HE Hs Hnd Hin); [apply Hc; constructor | exact Hfuel].
    + intros [[v du] ch] s1 (HE1 & Hs1). apply IH; [exact HE1 | exact Hs1 | |].
      * intros d' Hd'. apply Hc. econstructor; exact Hd'.
      * intros d' Hd'. apply add_read_edges in Hd'. destruct Hd' as [Hd' | Hd']; [now apply Hfr |].
        injection Hd' as <-. apply Hc. constructor.
    + intros p s1 H. exact H.
  - apply wp_bind, wp_get. apply IH; [exact HE | exact Hs | | exact Hfr].
    intros d Hd. apply Hc. econstructor; exact Hd.
  - apply wp_bind, wp_get. apply IH; [exact HE | exact Hs | | exact Hfr].
    intros d Hd. apply Hc. constructor; exact Hd.
  - apply wp_bind, wp_get. destruct (d_pcell s c =? 0).
    + apply IH; [exact HE | exact Hs | | exact Hfr]. intros d Hd. apply Hc. constructor; exact Hd.
    + apply wp_fail. exact HE.
Qed.

Lemma walk_edges_t since : forall es s, EI s -> d_stack s = st' -> edges_in es ->
  wp (walk_edges L es since) (fun _ s' => EI s' /\ d_stack s' = st') (fun _ s' => EI s') s.
Proof.
  induction es as [| [i | d] es IH]; intros s HE Hs Hes; cbn [walk_edges].
  - apply wp_ret. split; assumption.
  - apply wp_bind, wp_get. destruct (changed_after (f_changed (d_in s i)) since).
    + apply wp_ret. split; assumption.
    + apply IH; [exact HE | exact Hs |]. intros d Hd. apply Hes. right; exact Hd.
  - apply wp_bind. eapply wp_conseq.
    + apply (HL st' s d HE Hs Hnd Hin); [apply Hes; left; reflexivity | exact Hfuel].
    + intros c s1 (HE1 & Hs1). destruct c.
      * apply wp_ret. split; assumption.
      * apply IH; [exact HE1 | exact Hs1 |]. intros d' Hd'. apply Hes. right; exact Hd'.
    + intros p s1 H. exact H.
Qed.

Lemma mark_verified_t q m s : EI s -> d_stack s = st' -> edges_in (m_edges m) ->
  wp (mark_verified q m) (fun _ s' => EI s' /\ d_stack s' = st') (fun _ s' => EI s') s.
Proof.
  intros HE Hs Hm. unfold mark_verified. apply wp_bind, wp_get. apply wp_bind, wp_emit.
  - intros s1 _ _ _ _ Hmm _ Hst _ _ _. unfold set_memo_at. apply wp_bind, wp_modify, wp_ret. split.
    + apply EI_store; [exact (EI_eq s s1 Hmm HE) | exact Hm].
    + cbn [d_stack set_seen set_memo]. now rewrite Hst.
  - intros _. apply (EI_eq s); [reflexivity | exact HE].
Qed.

Lemma verify_memo_t q m s : EI s -> d_stack s = st' -> edges_in (m_edges m) ->
  wp (verify_memo L q m) (fun _ s' => EI s' /\ d_stack s' = st') (fun _ s' => EI s') s.
Proof.
  intros HE Hs Hm. unfold verify_memo. apply wp_bind, wp_get.
  destruct (shallow_verify s m); cbn [update_shallow].
  - apply wp_bind, wp_ret, wp_ret. split; assumption.
  - apply wp_bind. eapply wp_conseq; [apply (mark_verified_t q m s HE Hs Hm) | | intros p s1 H; exact H].
    intros m' s1 H. apply wp_ret. exact H.
  - unfold deep_verify. destruct (m_untracked m).
    + apply wp_ret. split; assumption.
    + apply wp_bind. eapply wp_conseq; [apply (walk_edges_t (m_verified m) (m_edges m) s HE Hs Hm) | | intros p s1 H; exact H].
      intros c s1 (HE1 & Hs1). destruct c.
      * apply wp_ret. split; assumption.
      * apply wp_bind. eapply wp_conseq; [apply (mark_verified_t q m s1 HE1 Hs1 Hm) | | intros p s2 H; exact H].
        intros m' s2 H. apply wp_ret. exact H.
Qed.

Lemma execute_t q old s : In q ns -> EI s -> d_stack s = st' ->
  wp (execute prog noeq L q old)
     (fun m s' => EI s' /\ d_stack s' = st' /\ m_val m <> None) (fun _ s' => EI s') s.
Proof.
  intros Hq HE Hs. unfold execute. apply wp_bind, wp_emit.
  - intros s1 _ _ _ _ Hmm _ Hst _ _ _. apply wp_bind. eapply wp_conseq.
    + apply (run_body_t (prog q) frame0 s1 (EI_eq s s1 Hmm HE)).
      * now rewrite Hst.
      * intros d Hd. exact (Hclosed q d Hq Hd).
      * intros d Hd. destruct Hd.
    + intros [v fr] s2 (HE2 & Hs2 & Hfr). cbn [snd] in Hfr. apply wp_bind, wp_get.
      match goal with |- wp (match ?bd with _ => _ end) _ _ _ => destruct bd as [ch | p |] eqn:Hbd end.
      * unfold set_memo_at. apply wp_bind, wp_modify, wp_ret. split; [| split].
        -- apply EI_store; [exact HE2 |]. cbn [m_edges].
           destruct ((fr_dur fr =? D_NEVER) && negb (fr_untracked fr)); [intros d [] | exact Hfr].
        -- exact Hs2.
        -- cbn [m_val]. discriminate.
      * apply wp_fail. exact HE2.
      * exfalso. destruct old as [o |]; [| discriminate]. destruct (m_val o); [| discriminate].
        destruct (can_backdate_dur (fr_dur fr) (m_dur o) && negb (noeq q)); [| discriminate].
        destruct (negb (d_pcell s2 EQ_FAULT =? 0)); [discriminate |].
        destruct (_ =? v); [| discriminate].
        destruct (changed_after (m_changed o) (fr_changed fr)); discriminate.
    + intros p s2 H. exact H.
  - intros _. apply (EI_eq s); [reflexivity | exact HE].
Qed.

End Level.

Section Fetch.
Variable L : lower.
Variable n : nat.
Hypothesis HL : tspec L n.
Variable st : list qkey.
Variable q : qkey.
Hypothesis Hnd : NoDup st.
Hypothesis Hin : incl st ns.
Hypothesis Hq : In q ns.
Hypothesis Hfuel : (length ns < S n + length st)%nat.

Lemma claim_t s : EI s -> d_stack s = st ->
  wp (claim q) (fun _ s' => EI s' /\ d_stack s' = q :: st /\ d_memo s' = d_memo s /\ ~ In q st)
     (fun _ s' => EI s') s.
Proof.
  intros HE Hs. unfold claim. apply wp_bind, wp_get.
  destruct (existsb (key_eqb q) (d_stack s)) eqn:Hex.
  - apply wp_fail. exact HE.
  - apply wp_modify. split; [apply (EI_eq s); [reflexivity | exact HE] |].
    split; [cbn [d_stack set_stack]; now rewrite Hs |]. split; [reflexivity |].
    apply existsb_in. rewrite <- Hs. exact Hex.
Qed.

Lemma release_t s : EI s -> d_stack s = q :: st ->
  wp (release q) (fun _ s' => EI s' /\ d_stack s' = st) (fun _ s' => EI s') s.
Proof.
  intros HE Hs. unfold release. apply wp_modify. split; [apply (EI_eq s); [reflexivity | exact HE] |].
  cbn [d_stack set_stack]. now rewrite Hs.
Qed.

Section Claimed.
Hypothesis Hnq : ~ In q st.

Lemma Hnd' : NoDup (q :: st).
Proof. constructor; assumption. Qed.
Lemma Hin' : incl (q :: st) ns.
Proof. intros x [Hx | Hx]; [now subst x | now apply Hin]. Qed.
Lemma Hfuel' : (length ns < n + length (q :: st))%nat.
Proof. cbn [length]. lia. Qed.

Lemma exec_release_t old s : EI s -> d_stack s = q :: st ->
  wp (m <- execute prog noeq L q old ;; release q ;;;
      match m_val m with Some v => ret (m, v) | None => nofuel end)
     (fun _ s' => EI s' /\ d_stack s' = st) (fun _ s' => EI s') s.
Proof.
  intros HE Hs. apply wp_bind. eapply wp_conseq.
  - apply (execute_t L n HL (q :: st) Hnd' Hin' Hfuel' q old s Hq HE Hs).
  - intros m s1 (HE1 & Hs1 & Hv). apply wp_bind. eapply wp_conseq.
    + apply (release_t s1 HE1 Hs1).
    + intros ? s2 H. destruct (m_val m) as [v |]; [apply wp_ret; exact H | congruence].
    + intros p s2 H. exact H.
  - intros p s1 H. exact H.
Qed.

End Claimed.

Lemma fetch_cold_t s : EI s -> d_stack s = st ->
  wp (fetch_cold prog noeq L q) (fun _ s' => EI s' /\ d_stack s' = st) (fun _ s' => EI s') s.
Proof.
  intros HE Hs. unfold fetch_cold. apply wp_bind. eapply wp_conseq.
  - apply (claim_t s HE Hs).
  - intros ? s1 (HE1 & Hs1 & Hm1 & Hnq). apply wp_bind, wp_get. apply wp_bind.
    destruct (d_memo s1 q) as [m |] eqn:Hm; [destruct (m_val m) as [v |] eqn:Hv |].
    + apply wp_bind. eapply wp_conseq.
      * apply (verify_memo_t L n HL (q :: st) (Hnd' Hnq) Hin' Hfuel' q m s1 HE1 Hs1). exact (HE1 q m Hq Hm).
      * intros r s2 (HE2 & Hs2). apply wp_ret. destruct (fst r).
        -- apply wp_bind. eapply wp_conseq; [apply (release_t s2 HE2 Hs2) | | intros p s3 H; exact H].
           intros ? s3 H. apply wp_ret. exact H.
        -- apply (exec_release_t Hnq _ s2 HE2 Hs2).
      * intros p s2 H. exact H.
    + apply wp_ret. apply (exec_release_t Hnq _ s1 HE1 Hs1).
    + apply wp_ret. apply (exec_release_t Hnq _ s1 HE1 Hs1).
  - intros p s1 H. exact H.
Qed.

Lemma update_shallow_t m u s : EI s -> d_stack s = st -> edges_in (m_edges m) ->
  wp (update_shallow q m u) (fun _ s' => EI s' /\ d_stack s' = st) (fun _ s' => EI s') s.
Proof.
  intros HE Hs Hm. destruct u; cbn [update_shallow].
  - apply wp_ret. split; assumption.
  - apply (mark_verified_t st q m s HE Hs Hm).
  - apply wp_ret. split; assumption.
Qed.

Lemma fetch_t s : EI s -> d_stack s = st ->
  wp (fetch prog noeq L q) (fun _ s' => EI s' /\ d_stack s' = st) (fun _ s' => EI s') s.
Proof.
  intros HE Hs. unfold fetch.
  assert (Hlru : forall s1 (r : memo * val), EI s1 -> d_stack s1 = st ->
     wp (modify (fun s => set_lru s (updN (d_lru s) (fst q) (lru_record_use (d_lru s (fst q)) (snd q)))) ;;;
         ret (memo_qres (fst r) (snd r)))
        (fun _ s' => EI s' /\ d_stack s' = st) (fun _ s' => EI s') s1).
  { intros s1 r HE1 Hs1. apply wp_bind, wp_modify, wp_ret.
    split; [apply (EI_eq s1); [reflexivity | exact HE1] | exact Hs1]. }
  assert (Hcold : wp (r <- fetch_cold prog noeq L q ;;
         modify (fun s => set_lru s (updN (d_lru s) (fst q) (lru_record_use (d_lru s (fst q)) (snd q)))) ;;;
         ret (memo_qres (fst r) (snd r)))
        (fun _ s' => EI s' /\ d_stack s' = st) (fun _ s' => EI s') s).
  { apply wp_bind. eapply wp_conseq; [apply (fetch_cold_t s HE Hs) | | intros p s1 H; exact H].
    intros r s1 (HE1 & Hs1). apply (Hlru s1 r HE1 Hs1). }
  apply wp_bind. unfold fetch_hot. apply wp_bind, wp_get.
  destruct (d_memo s q) as [m |] eqn:Hm; [destruct (m_val m) as [v |] eqn:Hv |].
  - destruct (shallow_verify s m) eqn:Hsh.
    + apply wp_bind. eapply wp_conseq; [apply (update_shallow_t m ShVerified s HE Hs (HE q m Hq Hm)) | | intros p s1 H; exact H].
      intros m' s1 (HE1 & Hs1). apply wp_ret. apply wp_bind, wp_ret. apply (Hlru s1 (m', v) HE1 Hs1).
    + apply wp_bind. eapply wp_conseq; [apply (update_shallow_t m ShHigher s HE Hs (HE q m Hq Hm)) | | intros p s1 H; exact H].
      intros m' s1 (HE1 & Hs1). apply wp_ret. apply wp_bind, wp_ret. apply (Hlru s1 (m', v) HE1 Hs1).
    + apply wp_ret. exact Hcold.
  - apply wp_ret. exact Hcold.
  - apply wp_ret. exact Hcold.
Qed.

Lemma mca_cold_t since s : EI s -> d_stack s = st ->
  wp (mca_cold prog noeq L q since) (fun _ s' => EI s' /\ d_stack s' = st) (fun _ s' => EI s') s.
Proof.
  intros HE Hs. unfold mca_cold. apply wp_bind. eapply wp_conseq.
  - apply (claim_t s HE Hs).
  - intros ? s1 (HE1 & Hs1 & Hm1 & Hnq). apply wp_bind, wp_get.
    assert (Hrel : forall (b : bool) s2, EI s2 -> d_stack s2 = q :: st ->
              wp (release q ;;; ret b) (fun _ s' => EI s' /\ d_stack s' = st) (fun _ s' => EI s') s2).
    { intros b s2 HE2 Hs2. apply wp_bind. eapply wp_conseq; [apply (release_t s2 HE2 Hs2) | | intros p s3 H; exact H].
      intros ? s3 H. apply wp_ret. exact H. }
    destruct (d_memo s1 q) as [m |] eqn:Hm.
    + apply wp_bind. eapply wp_conseq.
      * apply (verify_memo_t L n HL (q :: st) (Hnd' Hnq) Hin' Hfuel' q m s1 HE1 Hs1). exact (HE1 q m Hq Hm).
      * intros r s2 (HE2 & Hs2). destruct (fst r).
        -- apply (Hrel _ s2 HE2 Hs2).
        -- destruct (m_val m).
           ++ apply wp_bind. eapply wp_conseq.
              ** apply (execute_t L n HL (q :: st) (Hnd' Hnq) Hin' Hfuel' q (Some m) s2 Hq HE2 Hs2).
              ** intros mnew s3 (HE3 & Hs3 & _). apply (Hrel _ s3 HE3 Hs3).
              ** intros p s3 H. exact H.
           ++ apply (Hrel _ s2 HE2 Hs2).
      * intros p s2 H. exact H.
    + apply (Hrel _ s1 HE1 Hs1).
  - intros p s1 H. exact H.
Qed.

Lemma mca_t since s : EI s -> d_stack s = st ->
  wp (mca prog noeq L q since) (fun _ s' => EI s' /\ d_stack s' = st) (fun _ s' => EI s') s.
Proof.
  intros HE Hs. unfold mca. apply wp_bind, wp_get.
  destruct (d_memo s q) as [m |] eqn:Hm; [| apply wp_ret; split; assumption].
  destruct (shallow_verify s m) eqn:Hsh.
  - apply wp_bind. eapply wp_conseq; [apply (update_shallow_t m ShVerified s HE Hs (HE q m Hq Hm)) | | intros p s1 H; exact H].
    intros m' s1 H. apply wp_ret. exact H.
  - apply wp_bind. eapply wp_conseq; [apply (update_shallow_t m ShHigher s HE Hs (HE q m Hq Hm)) | | intros p s1 H; exact H].
    intros m' s1 H. apply wp_ret. exact H.
  - apply (mca_cold_t since s HE Hs).
Qed.

End Fetch.

Theorem level_t : forall n, tspec (level prog noeq n) n.
Proof.
  induction n as [| n IH].
  - intros st s q _ _ Hnd Hin _ Hlt. exfalso.
    pose proof (NoDup_incl_length Hnd Hin) as Hle. cbn [Nat.add] in Hlt. lia.
  - intros st s q HE Hs Hnd Hin Hq Hlt. cbn [level l_fetch l_mca]. split.
    + exact (fetch_t (level prog noeq n) n IH st q Hnd Hin Hq Hlt s HE Hs).
    + intros since. exact (mca_t (level prog noeq n) n IH st q Hnd Hin Hq Hlt since s HE Hs).
Qed.

End Term.

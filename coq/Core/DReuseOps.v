(* Core/DReuseOps.v — every level function of the Core model relates the state before and
   after by [RX] (Core/DReuse.v): executions are justified, values are not lost, changed_at
   moves only when backdating is impossible.  A second induction over the levels, run beside
   the one of Core/DInvOps.v: the invariant [DInv] is a precondition, and the state facts a
   proof needs between two calls come from the specifications proved there ([wp_and]). *)
From Salsa Require Import Base.
From Salsa.Kern Require Import CoreK CoreKFacts.
From Salsa.Core Require Import Model Spec SpecProofs Wp Inv InvFrame InvSem DurSem DInv DInvSem DInvOps ReuseProofs DReuse.

Lemma wp_and {A} (m : M A) (Q Q' : A -> db -> Prop) (X X' : panic -> db -> Prop) s :
  wp m Q X s -> wp m Q' X' s ->
  wp m (fun a s' => Q a s' /\ Q' a s') (fun p s' => X p s' /\ X' p s') s.
Proof. unfold wp. destruct (m s) as [s' [a | p |]]; tauto. Qed.

Definition XT : panic -> db -> Prop := fun _ _ => True.

Section ROps.
Variable prog : qkey -> body.
Variable noeq : qkey -> bool.
Variable rank : qkey -> nat.
Hypothesis Hrank : calls_below prog rank.
Variable NF : nat.
Hypothesis Hbound : forall q, (rank q < NF)%nat.
Variable H : hist.
Variable D : dhist.
Notation E := (E prog NF H).
Notation tr := (tr prog NF H).
Notation envat := (envat prog NF H).
Notation DInv := (DInv prog NF H D).
Notation dtouch_below := (dtouch_below rank).
Notation stack_ok := (stack_ok rank).
Notation RX := (RX noeq).
Notation J := (J).
Notation fetch_spec := (fetch_spec prog rank NF H D).
Notation mca_spec := (mca_spec prog rank NF H D).

Ltac conj := repeat match goal with |- _ /\ _ => split end.
Ltac triv := intros; exact I.

(* ---------------------------------------------------------------- events, marking *)
Lemma emit_rx e s (Q : unit -> db -> Prop) :
  (forall s1, d_revs s1 = d_revs s -> d_in s1 = d_in s -> d_cell s1 = d_cell s ->
              d_memo s1 = d_memo s -> d_stack s1 = d_stack s -> d_log s1 = e :: d_log s -> Q tt s1) ->
  wp (emit e) Q XT s.
Proof. intros HQ. apply wp_emit; [intros; apply HQ; assumption | triv]. Qed.

Lemma mark_verified_rx q m s :
  d_memo s q = Some m ->
  wp (mark_verified q m) (fun m' s' => m' = reverify m (cur s) /\ RX s s') XT s.
Proof.
  intros Hm. unfold mark_verified.
  apply wp_bind, wp_get. apply wp_bind. apply emit_rx.
  intros s1 Hr Hi Hce Hmm Hst Hl.
  apply wp_bind. unfold set_memo_at. apply wp_modify. apply wp_ret.
  split; [reflexivity|].
  assert (Hc1 : cur s1 = cur s) by (unfold cur; rewrite Hr; reflexivity).
  apply (RX_trans noeq s s1).
  - apply (RX_event noeq s s1 (EvValidate q)); try assumption. intros q0 Heq; discriminate.
  - change (set_seen _ _) with (store s1 q (reverify m (cur s))). rewrite <- Hc1.
    apply RX_mark. rewrite Hmm. exact Hm.
Qed.

Lemma update_shallow_rx q m s u :
  d_memo s q = Some m ->
  wp (update_shallow q m u) (fun _ s' => RX s s') XT s.
Proof.
  intros Hm. destruct u; cbn [update_shallow]; try (apply wp_ret; apply RX_refl).
  eapply wp_conseq; [apply (mark_verified_rx q m s Hm) | | triv].
  intros m' s' [_ HR]. exact HR.
Qed.

(* ---------------------------------------------------------------- specifications of a level *)
(* what "maybe changed" means when it is answered for d *)
Definition mca_true (s' : db) (d : qkey) (since : rev) : Prop :=
  noval s' d \/ exists md', d_memo s' d = Some md' /\ since < m_changed md'.

Definition fetch_rx (L : lower) (n : nat) : Prop :=
  forall q s, (rank q < n)%nat -> DInv s -> stack_ok s q ->
    wp (l_fetch L q) (fun _ s' => RX s s') XT s.

Definition mca_rx (L : lower) (n : nat) : Prop :=
  forall q since s, (rank q < n)%nat -> DInv s -> stack_ok s q ->
    wp (l_mca L q since) (fun b s' => RX s s' /\ (b = true -> mca_true s' q since)) XT s.

(* the first recorded edge that answers "changed" *)
Definition edge_changed (s s' : db) (since : rev) (e : edge) : Prop :=
  match e with
  | EIn i => since < f_changed (d_in s i)
  | EQ d => mca_true s' d since
  end.

(* ---------------------------------------------------------------- deep verification *)
Lemma walk_edges_rx L n q m (HM : mca_spec L n) (HM' : mca_rx L n) : forall es s,
  DInv s -> d_memo s q = Some m ->
  (forall d, In (EQ d) es -> (rank d < n)%nat /\ (rank d < rank q)%nat /\
                             In (RQ d) (tr (m_verified m) q)) ->
  (forall p, In p (d_stack s) -> (rank q <= rank p)%nat) ->
  wp (walk_edges L es (m_verified m))
     (fun b s' => RX s s' /\
        (b = true -> exists e, In e es /\ edge_changed s s' (m_verified m) e)) XT s.
Proof.
  induction es as [|e es IH]; intros s HI Hm Hes Hst; cbn [walk_edges].
  - apply wp_ret. split; [apply RX_refl | discriminate].
  - destruct e as [i | d].
    + apply wp_bind, wp_get.
      destruct (changed_after (f_changed (d_in s i)) (m_verified m)) eqn:Hca.
      * apply wp_ret. split; [apply RX_refl|]. intros _.
        exists (EIn i). split; [left; reflexivity|]. cbn. apply changed_after_spec. exact Hca.
      * eapply wp_conseq; [apply (IH s HI Hm) | | triv].
        -- intros d Hd. apply Hes. right; exact Hd.
        -- exact Hst.
        -- intros b s' (HR & Hb). split; [exact HR|]. intros Hbt.
           destruct (Hb Hbt) as (e & He & Hx). exists e. split; [right; exact He | exact Hx].
    + destruct (Hes d (or_introl eq_refl)) as (Hdn & Hdq & Hind).
      assert (Hsd : stack_ok s d) by (intros p Hp; specialize (Hst p Hp); lia).
      apply wp_bind.
      eapply wp_conseq; [apply wp_and; [apply (HM d (m_verified m) s Hdn HI Hsd) | apply (HM' d (m_verified m) s Hdn HI Hsd)] | | triv].
      intros c s1 ((HI1 & He1 & Ht1 & Hs1 & _) & (HR1 & Hc)).
      assert (Hm1 : d_memo s1 q = Some m) by (rewrite (Ht1 q) by lia; exact Hm).
      destruct c.
      * apply wp_ret. split; [exact HR1|]. intros _.
        exists (EQ d). split; [left; reflexivity | apply Hc; reflexivity].
      * eapply wp_conseq; [apply (IH s1 HI1 Hm1) | | triv].
        -- intros d' Hd'. apply (Hes d' (or_intror Hd')).
        -- rewrite Hs1. exact Hst.
        -- intros b s' (HR & Hb). split; [apply (RX_trans noeq s s1 s'); assumption|].
           intros Hbt. destruct (Hb Hbt) as (e & He & Hx). exists e. split; [right; exact He|].
           destruct e as [i | d']; cbn in *; [rewrite <- (rx_in _ _ _ HR1); exact Hx | exact Hx].
Qed.

(* why a verification failed *)
Definition verify_failed (s s' : db) (m : memo) : Prop :=
  m_untracked m = true \/ exists e, In e (m_edges m) /\ edge_changed s s' (m_verified m) e.

Lemma deep_verify_rx L n q m s (HM : mca_spec L n) (HM' : mca_rx L n) :
  (rank q <= n)%nat -> DInv s -> d_memo s q = Some m ->
  (forall p, In p (d_stack s) -> (rank q <= rank p)%nat) ->
  wp (deep_verify L q m)
     (fun r s' => RX s s' /\ (fst r = false -> verify_failed s s' m)) XT s.
Proof.
  intros Hn HI Hm Hst. unfold deep_verify.
  pose proof (inv_memo _ _ _ _ _ HI q m Hm) as Hok.
  destruct (m_untracked m) eqn:Hu.
  - apply wp_ret. split; [apply RX_refl|]. intros _. left. exact Hu.
  - assert (Hes : forall d, In (EQ d) (m_edges m) -> (rank d < n)%nat /\ (rank d < rank q)%nat /\
                                                     In (RQ d) (tr (m_verified m) q)).
    { intros d Hd. pose proof (mo_edges_q _ _ _ _ _ _ _ Hok d Hd) as Hin.
      pose proof (tr_calls prog rank Hrank NF H _ _ _ Hin). conj; [lia | lia | exact Hin]. }
    apply wp_bind.
    eapply wp_conseq; [apply wp_and; [apply (walk_edges_ok prog rank NF H D L n q m HM (m_edges m) s HI Hm Hes Hst) | apply (walk_edges_rx L n q m HM HM' (m_edges m) s HI Hm Hes Hst)] | | triv].
    intros c s1 ((HI1 & He1 & Ht1 & Hs1 & _) & (HR1 & Hc)).
    assert (Hm1 : d_memo s1 q = Some m) by (rewrite (Ht1 q) by lia; exact Hm).
    destruct c.
    + apply wp_ret. split; [exact HR1|]. intros _. right. apply Hc. reflexivity.
    + apply wp_bind.
      eapply wp_conseq; [apply (mark_verified_rx q m s1 Hm1) | | triv].
      intros m' s2 [_ HR2]. apply wp_ret.
      split; [apply (RX_trans noeq s s1 s2); assumption | discriminate].
Qed.

Lemma verify_memo_rx L n q m s (HM : mca_spec L n) (HM' : mca_rx L n) :
  (rank q <= n)%nat -> DInv s -> d_memo s q = Some m ->
  (forall p, In p (d_stack s) -> (rank q <= rank p)%nat) ->
  wp (verify_memo L q m)
     (fun r s' => RX s s' /\
        (fst r = false -> shallow_verify s m = ShNo /\ verify_failed s s' m)) XT s.
Proof.
  intros Hn HI Hm Hst. unfold verify_memo.
  apply wp_bind, wp_get.
  destruct (shallow_verify s m) eqn:Hsh.
  - apply wp_bind.
    eapply wp_conseq; [apply (update_shallow_rx q m s ShVerified Hm) | | triv].
    intros m' s' HR. apply wp_ret. split; [exact HR | discriminate].
  - apply wp_bind.
    eapply wp_conseq; [apply (update_shallow_rx q m s ShHigher Hm) | | triv].
    intros m' s' HR. apply wp_ret. split; [exact HR | discriminate].
  - eapply wp_conseq; [apply (deep_verify_rx L n q m s HM HM' Hn HI Hm Hst) | | triv].
    intros r s' (HR & Hf). split; [exact HR|]. intros Hx. split; [reflexivity | apply Hf; exact Hx].
Qed.

(* ---------------------------------------------------------------- running a body *)
Lemma run_body_rx L n q (HF : fetch_spec L n) (HF' : fetch_rx L n) : forall b fr s,
  (forall d, calls b d -> (rank d < n)%nat /\ (rank d < rank q)%nat) ->
  DInv s ->
  (forall p, In p (d_stack s) -> (rank q <= rank p)%nat) ->
  wp (run_body L b fr) (fun _ s' => RX s s') XT s.
Proof.
  induction b as [v | i k IH | d k IH | c k IH | k IH | pc k IH];
    intros fr s Hcalls HI Hst; cbn [run_body].
  - apply wp_ret. apply RX_refl.
  - apply wp_bind, wp_get. apply IH; try assumption.
    intros d Hd. apply Hcalls. eapply calls_in_rdin; exact Hd.
  - destruct (Hcalls d (calls_here d k)) as [Hdn Hdq].
    assert (Hsd : stack_ok s d) by (intros p Hp; specialize (Hst p Hp); lia).
    apply wp_bind.
    eapply wp_conseq; [apply wp_and; [apply (HF d s Hdn HI Hsd) | apply (HF' d s Hdn HI Hsd)] | | triv].
    intros [[v dd] cd] s1 ((HI1 & He1 & Ht1 & Hs1 & _) & HR1).
    eapply wp_conseq; [apply (IH v _ s1) | | triv].
    + intros d' Hd'. apply Hcalls. eapply calls_in_call; exact Hd'.
    + exact HI1.
    + rewrite Hs1. exact Hst.
    + intros r s2 HR2. apply (RX_trans noeq s s1 s2); assumption.
  - apply wp_bind, wp_get. apply IH; try assumption.
    intros d Hd. apply Hcalls. eapply calls_in_cell; exact Hd.
  - apply wp_bind, wp_get. apply IH; try assumption.
    intros d Hd. apply Hcalls. eapply calls_in_touch; exact Hd.
  - apply wp_bind, wp_get.
    destruct (d_pcell s pc =? 0).
    + apply IH; try assumption.
      intros d Hd. apply Hcalls. eapply calls_in_panicif; exact Hd.
    + apply wp_fail. exact I.
Qed.

(* ---------------------------------------------------------------- execute *)
Lemma execute_rx L n q s old (HF : fetch_spec L n) (HF' : fetch_rx L n) :
  (rank q <= n)%nat -> DInv s -> d_memo s q = old ->
  not_valid_with_value s q ->
  (forall p, In p (d_stack s) -> (rank q <= rank p)%nat) ->
  J s s q ->
  wp (execute prog noeq L q old)
     (fun _ s' => RX s s' /\ (forall new, d_log s' = new ++ d_log s -> In (EvExec q) new)) XT s.
Proof.
  intros Hn HI Hold Hnv Hst HJ. unfold execute.
  apply wp_bind. apply emit_rx.
  intros s1 Hr1 Hi1 Hce1 Hm1 Hst1 Hl1.
  assert (Hce : dcore_eq s s1) by (repeat split; assumption).
  assert (HI1 : DInv s1) by (apply (DInv_core_eq prog NF H D s); assumption).
  assert (Hcur01 : cur s1 = cur s) by (apply dcore_eq_cur; exact Hce).
  assert (HR01 : RX s s1).
  { apply (RX_event noeq s s1 (EvExec q)); try assumption. intros q0 Heq. injection Heq as <-. exact HJ. }
  assert (Hcalls : forall d, calls (prog q) d -> (rank d < n)%nat /\ (rank d < rank q)%nat).
  { intros d Hd. pose proof (Hrank q d Hd). split; lia. }
  assert (Hst1' : forall p, In p (d_stack s1) -> (rank q <= rank p)%nat) by (rewrite Hst1; exact Hst).
  apply wp_bind.
  eapply wp_conseq; [apply wp_and;
    [apply (run_body_ok prog noeq rank NF H D L n q (cur s) HF (prog q) [] frame0 s1 Hcur01 eq_refl
              (E_unfold prog rank Hrank NF Hbound H (cur s) q) Hcalls HI1
              (covers_frame0 s1 (inv_cur _ _ _ _ _ HI1)) Hst1')
    | apply (run_body_rx L n q HF HF' (prog q) frame0 s1 Hcalls HI1 Hst1')] | | triv].
  intros [v fr] s2 ((HI2 & He2 & Ht2 & Hs2 & Hv & Hcv) & HR12). cbn [fst snd] in *.
  pose proof (dext_cur _ _ He2) as Hc2. rewrite Hcur01 in Hc2.
  apply wp_bind, wp_get.
  assert (HR02 : RX s s2) by (apply (RX_trans noeq s s1 s2); assumption).
  assert (Hold2 : d_memo s2 q = d_memo s q).
  { rewrite (Ht2 q) by lia. rewrite Hm1. reflexivity. }
  assert (Hev : forall new, d_log s2 = new ++ d_log s -> In (EvExec q) new).
  { intros new Hnew. destruct (rx_log _ _ _ HR12) as (n12 & Hl12 & _).
    rewrite Hl12, Hl1 in Hnew.
    assert (Hnew' : (n12 ++ [EvExec q]) ++ d_log s = new ++ d_log s).
    { rewrite <- app_assoc. exact Hnew. }
    apply app_inv_tail in Hnew'. rewrite <- Hnew'. apply in_or_app; right; left; reflexivity. }
  assert (Hcv' : covers s2 (tr (cur s2) q) fr) by (rewrite Hc2; exact Hcv).
  assert (Hlb : forall o, d_memo s q = Some o -> m_changed o <= fr_changed fr).
  { intros o Ho. apply (frame_changed_lb prog NF H D s2 q fr o HI2 Hcv'). rewrite Hold2. exact Ho. }
  (* the common ending *)
  assert (Hfin : forall ch,
    (forall o, d_memo s q = Some o -> m_changed o <= ch) ->
    (forall o, d_memo s q = Some o -> m_changed o <> ch ->
       reasons noeq q o (fresh_memo v (cur s2) ch fr)) ->
    wp (set_memo_at q (fresh_memo v (cur s2) ch fr) ;;; ret (fresh_memo v (cur s2) ch fr))
       (fun _ s' => RX s s' /\ (forall new, d_log s' = new ++ d_log s -> In (EvExec q) new)) XT s2).
  { intros ch Hmono Hre. apply wp_bind. unfold set_memo_at. apply wp_modify. apply wp_ret.
    change (set_seen _ _) with (store s2 q (fresh_memo v (cur s2) ch fr)).
    split; [|exact Hev].
    apply (RX_finish noeq s s2 q); try assumption.
    cbn. discriminate. }
  subst old.
  destruct (d_memo s q) as [o|] eqn:Ho.
  - destruct (m_val o) as [ov|] eqn:Hov.
    + destruct (can_backdate_dur (fr_dur fr) (m_dur o) && negb (noeq q)) eqn:Hbk.
      * destruct (d_pcell s2 EQ_FAULT =? 0) eqn:Hqf; cbn [negb]; [|apply wp_fail; exact I].
        destruct (ov =? v) eqn:Hbd.
        -- destruct (changed_after (m_changed o) (fr_changed fr)) eqn:Hca; [apply wp_fail; exact I|].
           apply Hfin.
           ++ intros o0 Ho0. injection Ho0 as <-. lia.
           ++ intros o0 Ho0 Hne. injection Ho0 as <-. contradiction.
        -- apply Hfin.
           ++ intros o0 Ho0. apply Hlb. exact Ho0.
           ++ intros o0 Ho0 _. injection Ho0 as <-. right; right; right.
              exists ov, v. split; [exact Hov|]. split; [reflexivity|].
              apply N.eqb_neq. exact Hbd.
      * apply Hfin.
        -- intros o0 Ho0. apply Hlb. exact Ho0.
        -- intros o0 Ho0 _. injection Ho0 as <-.
           apply andb_false_iff in Hbk. destruct Hbk as [Hbk | Hbk].
           ++ right; right; left. cbn [fresh_memo m_dur].
              destruct (N.le_gt_cases (m_dur o) (fr_dur fr)) as [Hle | Hgt]; [|lia].
              apply can_backdate_dur_spec in Hle. congruence.
           ++ left. apply negb_false_iff. exact Hbk.
    + apply Hfin.
      * intros o0 Ho0. apply Hlb. exact Ho0.
      * intros o0 Ho0 _. injection Ho0 as <-. right; left. exact Hov.
  - apply Hfin; intros o0 Ho0; discriminate.
Qed.

(* ---------------------------------------------------------------- fetch *)
Lemma RX_stack s l : RX s (set_stack s l).
Proof. apply RX_quiet; reflexivity. Qed.

Lemma RX_lru s l : RX s (set_lru s l).
Proof. apply RX_quiet; reflexivity. Qed.

(* the reason recorded by a failed verification is a justification *)
Lemma J_of_failed s1 s2 q m :
  RX s1 s2 -> d_memo s2 q = Some m -> d_memo s1 q = Some m ->
  shallow_verify s1 m = ShNo -> verify_failed s1 s2 m -> J s2 s2 q.
Proof.
  intros HR Hm2 Hm1 Hsh Hvf.
  pose proof (shallow_cases s1 m) as Hc. rewrite Hsh in Hc.
  split.
  - apply (not_valid_of_ne s2 q m Hm2). rewrite (rx_cur _ _ _ HR). exact Hc.
  - right. exists m. split; [exact Hm2|].
    destruct Hvf as [Hu | (e & He & Hx)]; [right; left; exact Hu|].
    right; right. destruct e as [i | d]; cbn in Hx.
    + left. exists i. split; [exact He|]. rewrite (rx_in _ _ _ HR). exact Hx.
    + right. exists d. split; [exact He | exact Hx].
Qed.

Lemma fetch_cold_rx L n q s (HF : fetch_spec L n) (HM : mca_spec L n)
      (HF' : fetch_rx L n) (HM' : mca_rx L n) :
  (rank q <= n)%nat -> DInv s -> stack_ok s q -> not_valid_with_value s q ->
  wp (fetch_cold prog noeq L q) (fun _ s' => RX s s') XT s.
Proof.
  intros Hn HI Hst Hnv. unfold fetch_cold.
  apply wp_bind. apply (claim_ok rank); [exact Hst|].
  set (s1 := set_stack s (q :: d_stack s)).
  assert (Hce : dcore_eq s s1) by apply dcore_eq_stack.
  assert (HI1 : DInv s1) by (apply (DInv_core_eq prog NF H D s); assumption).
  assert (HR01 : RX s s1) by apply RX_stack.
  assert (Hst1 : forall p, In p (d_stack s1) -> (rank q <= rank p)%nat) by (apply stacked; exact Hst).
  apply wp_bind, wp_get. change (d_memo s1 q) with (d_memo s q).
  assert (Hexec : forall s2, DInv s2 -> RX s s2 -> d_stack s2 = d_stack s1 ->
            d_memo s2 q = d_memo s q -> not_valid_with_value s2 q -> J s2 s2 q ->
            wp (m <- execute prog noeq L q (d_memo s q) ;;
                release q ;;;
                match m_val m with Some v => ret (m, v) | None => nofuel end)
               (fun _ s' => RX s s') XT s2).
  { intros s2 HI2 HR2 Hs2 Hm2 Hnv2 HJ2.
    assert (Hst2 : forall p, In p (d_stack s2) -> (rank q <= rank p)%nat) by (rewrite Hs2; exact Hst1).
    apply wp_bind.
    eapply wp_conseq; [apply wp_and;
      [apply (execute_ok prog noeq rank Hrank NF Hbound H D L n q s2 (d_memo s q) HF Hn HI2 Hm2 (fun m0 A B => Hnv2 m0 (eq_trans Hm2 A) B) Hst2)
      | apply (execute_rx L n q s2 (d_memo s q) HF HF' Hn HI2 Hm2 Hnv2 Hst2 HJ2)] | | triv].
    intros m s3 ((HI3 & He3 & Ht3 & Hs3 & Hm3 & Hv3 & Hx3) & (HR3 & _)).
    apply wp_bind. unfold release. apply wp_modify.
    rewrite Hx3. apply wp_ret.
    apply (RX_trans noeq s s2); [exact HR2|].
    apply (RX_trans noeq s2 s3); [exact HR3 | apply RX_stack]. }
  destruct (d_memo s q) as [m|] eqn:Hm.
  - destruct (m_val m) as [v|] eqn:Hv.
    + apply wp_bind. apply wp_bind.
      eapply wp_conseq; [apply wp_and;
        [apply (verify_memo_ok prog rank Hrank NF Hbound H D L n q m s1 HM Hn HI1 Hm Hst1)
        | apply (verify_memo_rx L n q m s1 HM HM' Hn HI1 Hm Hst1)] | | triv].
      intros [b m'] s2 ((HI2 & He2 & Ht2 & Hs2 & Htrue & Hfalse) & (HR12 & Hf)). cbn [fst snd] in *.
      apply wp_ret.
      assert (HR02 : RX s s2) by (apply (RX_trans noeq s s1 s2); assumption).
      destruct b.
      * apply wp_bind. unfold release. apply wp_modify. apply wp_ret.
        apply (RX_trans noeq s s2); [exact HR02 | apply RX_stack].
      * specialize (Hfalse eq_refl). change (d_memo s1 q) with (d_memo s q) in Hfalse.
        destruct (Hf eq_refl) as [Hsh Hvf].
        assert (Hm2 : d_memo s2 q = Some m) by (rewrite Hfalse; exact Hm).
        assert (HJ2 : J s2 s2 q) by (apply (J_of_failed s1 s2 q m HR12 Hm2 Hm Hsh Hvf)).
        apply Hexec; [exact HI2 | exact HR02 | exact Hs2 | congruence | apply HJ2 | exact HJ2].
    + apply wp_bind, wp_ret.
      apply Hexec; [exact HI1 | exact HR01 | reflexivity | exact Hm | exact Hnv |].
      split; [exact Hnv|]. right. exists m. split; [exact Hm | left; exact Hv].
  - apply wp_bind, wp_ret.
    apply Hexec; [exact HI1 | exact HR01 | reflexivity | exact Hm | exact Hnv |].
    split; [exact Hnv | left; exact Hm].
Qed.

Lemma fetch_hot_rx q s :
  wp (fetch_hot q)
     (fun hot s' => match hot with
                    | Some _ => RX s s'
                    | None => s' = s
                    end) XT s.
Proof.
  unfold fetch_hot. apply wp_bind, wp_get.
  destruct (d_memo s q) as [m|] eqn:Hm; [|apply wp_ret; reflexivity].
  destruct (m_val m) as [v|] eqn:Hv; [|apply wp_ret; reflexivity].
  destruct (shallow_verify s m) eqn:Hsh.
  - apply wp_bind. eapply wp_conseq; [apply (update_shallow_rx q m s ShVerified Hm) | | triv].
    intros m' s' HR. apply wp_ret. exact HR.
  - apply wp_bind. eapply wp_conseq; [apply (update_shallow_rx q m s ShHigher Hm) | | triv].
    intros m' s' HR. apply wp_ret. exact HR.
  - apply wp_ret. reflexivity.
Qed.

Lemma fetch_rx_ok L n (HF : fetch_spec L n) (HM : mca_spec L n)
      (HF' : fetch_rx L n) (HM' : mca_rx L n) :
  forall q s, (rank q <= n)%nat -> DInv s -> stack_ok s q ->
    wp (fetch prog noeq L q) (fun _ s' => RX s s') XT s.
Proof.
  intros q s Hn HI Hst. unfold fetch.
  apply wp_bind.
  eapply wp_conseq; [apply wp_and; [apply (fetch_hot_ok prog rank Hrank NF Hbound H D q s HI) | apply (fetch_hot_rx q s)] | | triv].
  intros hot s1 [Hold Hnew].
  assert (Hfin : forall (mv : memo * val) s2, RX s s2 ->
            wp (modify (fun s => set_lru s (updN (d_lru s) (fst q) (lru_record_use (d_lru s (fst q)) (snd q)))) ;;;
                ret (memo_qres (fst mv) (snd mv))) (fun _ s' => RX s s') XT s2).
  { intros mv s2 HR. apply wp_bind, wp_modify, wp_ret.
    apply (RX_trans noeq s s2); [exact HR | apply RX_lru]. }
  apply wp_bind.
  destruct hot as [mv|].
  - apply wp_ret. apply Hfin. exact Hnew.
  - destruct Hold as [-> Hnv].
    eapply wp_conseq; [apply (fetch_cold_rx L n q s HF HM HF' HM' Hn HI Hst Hnv) | | triv].
    intros mv s2 HR. apply Hfin. exact HR.
Qed.

(* ---------------------------------------------------------------- maybe_changed_after *)
Lemma mca_true_stack s l q since : mca_true s q since -> mca_true (set_stack s l) q since.
Proof. intros Hx. exact Hx. Qed.

Lemma mca_cold_rx L n q since s (HF : fetch_spec L n) (HM : mca_spec L n)
      (HF' : fetch_rx L n) (HM' : mca_rx L n) :
  (rank q <= n)%nat -> DInv s -> stack_ok s q -> not_valid_with_value s q ->
  wp (mca_cold prog noeq L q since)
     (fun b s' => RX s s' /\ (b = true -> mca_true s' q since)) XT s.
Proof.
  intros Hn HI Hst Hnv. unfold mca_cold.
  apply wp_bind. apply (claim_ok rank); [exact Hst|].
  set (s1 := set_stack s (q :: d_stack s)).
  assert (Hce : dcore_eq s s1) by apply dcore_eq_stack.
  assert (HI1 : DInv s1) by (apply (DInv_core_eq prog NF H D s); assumption).
  assert (HR01 : RX s s1) by apply RX_stack.
  assert (Hst1 : forall p, In p (d_stack s1) -> (rank q <= rank p)%nat) by (apply stacked; exact Hst).
  apply wp_bind, wp_get. change (d_memo s1 q) with (d_memo s q).
  assert (Hleave : forall b s2, RX s s2 -> (b = true -> mca_true s2 q since) ->
            wp (release q ;;; ret b)
               (fun b s' => RX s s' /\ (b = true -> mca_true s' q since)) XT s2).
  { intros b s2 HR Hb. apply wp_bind. unfold release. apply wp_modify. apply wp_ret.
    split; [apply (RX_trans noeq s s2); [exact HR | apply RX_stack]|].
    intros Hbt. apply mca_true_stack. apply Hb; exact Hbt. }
  destruct (d_memo s q) as [old|] eqn:Hm.
  - apply wp_bind.
    eapply wp_conseq; [apply wp_and;
      [apply (verify_memo_ok prog rank Hrank NF Hbound H D L n q old s1 HM Hn HI1 Hm Hst1)
      | apply (verify_memo_rx L n q old s1 HM HM' Hn HI1 Hm Hst1)] | | triv].
    intros [b m'] s2 ((HI2 & He2 & Ht2 & Hs2 & Htrue & Hfalse) & (HR12 & Hf)). cbn [fst snd] in *.
    assert (HR02 : RX s s2) by (apply (RX_trans noeq s s1 s2); assumption).
    destruct b.
    + destruct (Htrue eq_refl) as (_ & _ & _ & _ & Hm' & _).
      apply Hleave; [exact HR02|].
      intros Hca. apply changed_after_spec in Hca. right. exists m'. split; assumption.
    + specialize (Hfalse eq_refl). change (d_memo s1 q) with (d_memo s q) in Hfalse.
      destruct (Hf eq_refl) as [Hsh Hvf].
      assert (Hm2 : d_memo s2 q = Some old) by (rewrite Hfalse; exact Hm).
      destruct (m_val old) as [ov|] eqn:Hov.
      * assert (HJ2 : J s2 s2 q) by (apply (J_of_failed s1 s2 q old HR12 Hm2 Hm Hsh Hvf)).
        assert (Hst2 : forall p, In p (d_stack s2) -> (rank q <= rank p)%nat) by (rewrite Hs2; exact Hst1).
        apply wp_bind.
        eapply wp_conseq; [apply wp_and;
          [apply (execute_ok prog noeq rank Hrank NF Hbound H D L n q s2 (Some old) HF Hn HI2 Hm2 (fun m0 A B => proj1 HJ2 m0 (eq_trans Hm2 A) B) Hst2)
          | apply (execute_rx L n q s2 (Some old) HF HF' Hn HI2 Hm2 (proj1 HJ2) Hst2 HJ2)] | | triv].
        intros mnew s3 ((HI3 & He3 & Ht3 & Hs3 & Hm3 & _) & (HR3 & _)).
        apply Hleave; [apply (RX_trans noeq s s2 s3); assumption|].
        intros Hca. apply changed_after_spec in Hca. right. exists mnew. split; assumption.
      * apply Hleave; [exact HR02|]. intros _. left.
        intros md Hmd. rewrite Hm2 in Hmd. injection Hmd as <-. exact Hov.
  - apply Hleave; [exact HR01|]. intros _. left. intros md Hmd.
    change (d_memo s1 q) with (d_memo s q) in Hmd. congruence.
Qed.

Lemma mca_rx_ok L n (HF : fetch_spec L n) (HM : mca_spec L n)
      (HF' : fetch_rx L n) (HM' : mca_rx L n) :
  forall q since s, (rank q <= n)%nat -> DInv s -> stack_ok s q ->
    wp (mca prog noeq L q since)
       (fun b s' => RX s s' /\ (b = true -> mca_true s' q since)) XT s.
Proof.
  intros q since s Hn HI Hst. unfold mca.
  apply wp_bind, wp_get.
  destruct (d_memo s q) as [m|] eqn:Hm.
  - assert (Hgot : forall u, shallow_verify s m = u -> u <> ShNo ->
              wp (m' <- update_shallow q m u ;; ret (changed_after (m_changed m') since))
                 (fun b s' => RX s s' /\ (b = true -> mca_true s' q since)) XT s).
    { intros u Hu Hne. apply wp_bind.
      eapply wp_conseq; [apply wp_and;
        [apply (update_shallow_ok prog rank Hrank NF Hbound H D q m s u s (dext_refl s) HI Hm Hu Hne)
        | apply (update_shallow_rx q m s u Hm)] | | triv].
      intros m' s' ((_ & _ & _ & _ & Hm' & _) & HR).
      apply wp_ret. split; [exact HR|].
      intros Hca. apply changed_after_spec in Hca. right. exists m'. split; assumption. }
    destruct (shallow_verify s m) eqn:Hsh.
    + apply Hgot; [reflexivity | discriminate].
    + apply Hgot; [reflexivity | discriminate].
    + apply (mca_cold_rx L n q since s HF HM HF' HM' Hn HI Hst).
      pose proof (shallow_cases s m) as Hc. rewrite Hsh in Hc.
      eapply not_valid_of_ne; eassumption.
  - apply wp_ret. split; [apply RX_refl|]. intros _. left. intros md Hmd. congruence.
Qed.

(* ---------------------------------------------------------------- untracked memos (C04) *)
Lemma wp_eq {A} (m : M A) (Q : A -> db -> Prop) (X : panic -> db -> Prop) s s' a :
  m s = (s', Ok a) -> Q a s' -> wp m Q X s.
Proof. intros Heq HQ. unfold wp. rewrite Heq. exact HQ. Qed.

(* A memo whose last execution read untracked state, requested in a later revision: it can
   be neither short-cut (it is LOW) nor deep-verified (the untracked arm answers "changed"),
   so the request executes the body again. *)
Lemma fetch_untracked_rx L n q m s (HF : fetch_spec L n) (HF' : fetch_rx L n) :
  (rank q <= n)%nat -> DInv s -> stack_ok s q ->
  d_memo s q = Some m -> m_untracked m = true -> m_verified m < cur s ->
  wp (fetch prog noeq L q)
     (fun _ s' => forall new, d_log s' = new ++ d_log s -> In (EvExec q) new) XT s.
Proof.
  intros Hn HI Hst Hm Hu Hv.
  pose proof (inv_memo _ _ _ _ _ HI q m Hm) as Hok.
  pose proof (mo_untr _ _ _ _ _ _ _ Hok Hu) as Hd0.
  assert (Hsh : forall s0, cur s0 = cur s -> shallow_verify s0 m = ShNo).
  { intros s0 Hc0. apply ReuseProofs.low_never_shallow; [exact Hd0 | rewrite Hc0; exact Hv]. }
  unfold fetch.
  apply wp_bind.
  assert (Hhot : fetch_hot q s = (s, Ok None)).
  { unfold fetch_hot, bind, get. rewrite Hm. destruct (m_val m); [rewrite (Hsh s eq_refl)|]; reflexivity. }
  apply (wp_eq _ _ _ s s None Hhot).
  apply wp_bind. unfold fetch_cold.
  apply wp_bind. apply (claim_ok rank); [exact Hst|].
  set (s1 := set_stack s (q :: d_stack s)).
  assert (Hce : dcore_eq s s1) by apply dcore_eq_stack.
  assert (HI1 : DInv s1) by (apply (DInv_core_eq prog NF H D s); assumption).
  assert (Hst1 : forall p, In p (d_stack s1) -> (rank q <= rank p)%nat) by (apply stacked; exact Hst).
  assert (Hm1 : d_memo s1 q = Some m) by exact Hm.
  assert (Hnv1 : not_valid_with_value s1 q).
  { apply (not_valid_of_ne s1 q m Hm1). change (cur s1) with (cur s). lia. }
  assert (HJ1 : J s1 s1 q).
  { split; [exact Hnv1|]. right. exists m. split; [exact Hm1 | right; left; exact Hu]. }
  apply wp_bind, wp_get. change (d_memo s1 q) with (d_memo s q). rewrite Hm.
  assert (Hexec :
    wp (m0 <- execute prog noeq L q (Some m) ;;
        release q ;;;
        match m_val m0 with Some v => ret (m0, v) | None => nofuel end)
       (fun (mv : memo * val) s' =>
          wp (modify (fun s => set_lru s (updN (d_lru s) (fst q) (lru_record_use (d_lru s (fst q)) (snd q)))) ;;;
              ret (memo_qres (fst mv) (snd mv)))
             (fun _ s'' => forall new, d_log s'' = new ++ d_log s -> In (EvExec q) new) XT s') XT s1).
  { apply wp_bind.
    eapply wp_conseq; [apply wp_and;
      [apply (execute_ok prog noeq rank Hrank NF Hbound H D L n q s1 (Some m) HF Hn HI1 Hm1
                (fun m0 A B => Hnv1 m0 (eq_trans Hm1 A) B) Hst1)
      | apply (execute_rx L n q s1 (Some m) HF HF' Hn HI1 Hm1 Hnv1 Hst1 HJ1)] | | triv].
    intros m0 s3 ((_ & _ & _ & _ & _ & _ & Hx3) & (_ & Hev3)).
    apply wp_bind. unfold release. apply wp_modify. rewrite Hx3. apply wp_ret.
    apply wp_bind, wp_modify, wp_ret.
    intros new Hnew. apply Hev3. exact Hnew. }
  destruct (m_val m) as [v|] eqn:Hval.
  - apply wp_bind. apply wp_bind.
    assert (Hver : verify_memo L q m s1 = (s1, Ok (false, m))).
    { unfold verify_memo, bind, get. rewrite (Hsh s1 eq_refl).
      apply ReuseProofs.deep_verify_untracked. exact Hu. }
    apply (wp_eq _ _ _ s1 s1 (false, m) Hver).
    apply wp_ret. cbn [fst]. exact Hexec.
  - apply wp_bind, wp_ret. exact Hexec.
Qed.

(* ---------------------------------------------------------------- tying the knot *)
Theorem rlevel_ok : forall n,
  fetch_rx (level prog noeq n) n /\ mca_rx (level prog noeq n) n.
Proof.
  induction n as [|n [IHF IHM]].
  - split; intros q; intros; lia.
  - destruct (dlevel_ok prog noeq rank Hrank NF Hbound H D n) as [HF HM].
    split.
    + intros q s Hq HI Hst. cbn [level l_fetch].
      apply (fetch_rx_ok (level prog noeq n) n HF HM IHF IHM q s); [lia | exact HI | exact Hst].
    + intros q since s Hq HI Hst. cbn [level l_mca].
      apply (mca_rx_ok (level prog noeq n) n HF HM IHF IHM q since s); [lia | exact HI | exact Hst].
Qed.

End ROps.

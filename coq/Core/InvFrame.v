(* Core/InvFrame.v — how the invariant reacts to storing a memo. *)
From Salsa Require Import Base.
From Salsa.Kern Require Import CoreK CoreKFacts.
From Salsa.Core Require Import Model Spec SpecProofs Wp Inv.

Section Frame.
Variable prog : qkey -> body.
Variable rank : qkey -> nat.
Variable NF : nat.
Notation E := (E prog NF).
Notation tr := (tr prog NF).
Notation memo_ok := (memo_ok prog NF).
Notation Inv := (Inv prog NF).
Notation quiet := (quiet prog NF).

(* the part of the state the invariant talks about *)
Definition core_eq (s s' : db) : Prop :=
  d_revs s' = d_revs s /\ d_in s' = d_in s /\ d_cell s' = d_cell s /\
  d_memo s' = d_memo s /\ d_seen s' = d_seen s.

Lemma core_eq_cur s s' : core_eq s s' -> cur s' = cur s.
Proof. intros (Hr & _). unfold cur; rewrite Hr; reflexivity. Qed.

Lemma memo_ok_core_eq H s s' q m : core_eq s s' -> memo_ok H s q m -> memo_ok H s' q m.
Proof.
  intros Hc Hm. pose proof (core_eq_cur _ _ Hc) as Hcur.
  destruct Hc as (_ & _ & _ & _ & Hs).
  destruct Hm as [a b c d e f g h i j].
  constructor; unfold seen in *; rewrite ?Hs, ?Hcur; auto.
Qed.

Lemma Inv_core_eq H s s' : core_eq s s' -> Inv H s -> Inv H s'.
Proof.
  intros Hc HI. pose proof (core_eq_cur _ _ Hc) as Hcur.
  pose proof Hc as (Hr & Hi & Hce & Hm & Hs).
  destruct HI as [a b c d e f g].
  constructor; unfold seen in *; rewrite ?Hcur, ?Hi, ?Hce, ?Hm, ?Hs; auto.
  intros q m Hq. apply (memo_ok_core_eq H s); [exact Hc | apply f; exact Hq].
Qed.

(* storing a memo for q (and recording the ghost pair) *)
Definition store (s : db) (q : qkey) (m : memo) : db :=
  set_seen (set_memo s (upd (d_memo s) q (Some m))) ((q, m_verified m) :: d_seen s).

Lemma seen_store s q m p r : seen (store s q m) p r <-> (p = q /\ r = m_verified m) \/ seen s p r.
Proof.
  unfold seen, store; cbn. split.
  - intros [Heq | Hin]; [left; injection Heq; auto | right; exact Hin].
  - intros [[-> ->] | Hin]; [left; reflexivity | right; exact Hin].
Qed.

Lemma cur_store s q m : cur (store s q m) = cur s.
Proof. reflexivity. Qed.

(* other keys' memos stay ok when q's memo is (re)stored as verified now *)
Lemma memo_ok_store_other H s q m p mp :
  p <> q -> memo_ok H s p mp -> memo_ok H (store s q m) p mp.
Proof.
  intros Hne [a b c d e f g h i j].
  constructor; rewrite ?cur_store; auto.
  - intros d0 Hd0. destruct (f d0 Hd0) as [Hin Hs]. split; [exact Hin|].
    apply seen_store; right; exact Hs.
  - intros r Hr Hle. apply g; [|exact Hle].
    apply seen_store in Hr. destruct Hr as [[Heq _] | Hr]; [contradiction | exact Hr].
  - apply seen_store; right; exact j.
Qed.

(* The frame rule: store a memo verified now. *)
Lemma Inv_store H s q m :
  Inv H s ->
  m_verified m = cur s ->
  memo_ok H (store s q m) q m ->
  (forall d, In (RQ d) (tr H (cur s) q) -> seen s d (cur s) \/ quiet d) ->
  (forall m0, d_memo s q = Some m0 -> m_verified m0 = cur s -> m_val m0 <> None -> m0 = m) ->
  Inv H (store s q m) /\ ext s (store s q m).
Proof.
  intros HI Hv Hok Hreads Hsame.
  destruct HI as [a b c d e f g].
  split.
  - constructor; rewrite ?cur_store; auto.
    + intros p mp Hp. unfold store in Hp; cbn in Hp. unfold upd in Hp.
      destruct (key_eqb_spec q p) as [<- | Hne].
      * injection Hp as <-. exact Hok.
      * apply memo_ok_store_other; [congruence | apply f; exact Hp].
    + intros p r Hs. apply seen_store in Hs. destruct Hs as [[-> ->] | Hs].
      * rewrite Hv. split; [lia|]. split.
        -- exists m. split; [|lia]. unfold store; cbn. apply upd_same.
        -- intros d0 Hd0. destruct (Hreads d0 Hd0) as [Hs0 | Hq]; [left | right; exact Hq].
           apply seen_store; right; exact Hs0.
      * destruct (g p r Hs) as (Hle & (mp & Hmp & Hrv) & Hcl).
        split; [exact Hle|]. split.
        -- unfold store; cbn. unfold upd. destruct (key_eqb_spec q p) as [<- | Hne].
           ++ exists m. split; [reflexivity | lia].
           ++ exists mp. split; assumption.
        -- intros d0 Hd0. destruct (Hcl d0 Hd0) as [Hs0 | Hq]; [left | right; exact Hq].
           apply seen_store; right; exact Hs0.
  - constructor; try reflexivity; try (intros Hev0; exact Hev0).
    + intros p r Hs. apply seen_store; right; exact Hs.
    + intros p mp Hp Hvp Hxp. unfold store; cbn. unfold upd.
      destruct (key_eqb_spec q p) as [<- | Hne]; [|exact Hp].
      rewrite (Hsame mp Hp Hvp Hxp). reflexivity.
Qed.

End Frame.

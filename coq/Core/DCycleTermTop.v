(* Core/DCycleTermTop.v — never out of fuel, over every history of operations (see DCycleTerm.v). *)
From Coq Require Import PeanoNat Lia.
From Salsa Require Import Base.
From Salsa.Kern Require Import CoreK.
From Salsa.Core Require Import Model Spec Wp.
From Salsa.Core Require InvTop.
From Salsa.Core Require Import DCycleInv DCycleTerm.

Section TermTop.
Variable prog : qkey -> body.
Variable noeq : qkey -> bool.
Variable fams : list N.
Variable ns : list qkey.
Hypothesis Hclosed : closed_calls prog ns.

(* between two operations: recorded dependencies of listed keys are listed, no claim is held *)
Definition idle (s : db) : Prop := EI ns s /\ d_stack s = [].

(* the Gets of the history ask for listed keys *)
Definition op_listed (o : op) : Prop := match o with OGet q => In q ns | _ => True end.

Lemma idle_eq s s' : d_memo s' = d_memo s -> d_stack s' = d_stack s -> idle s -> idle s'.
Proof. intros Hm Hs (HE & Hst). split; [exact (EI_eq ns s s' Hm HE) | congruence]. Qed.

Lemma EI_evicted s s' : InvTop.evicted_from (d_memo s) (d_memo s') -> EI ns s -> EI ns s'.
Proof.
  intros Hev HE q m Hq Hm. destruct (Hev q) as [He | (m0 & Hm0 & He)].
  - rewrite He in Hm. exact (HE q m Hq Hm).
  - rewrite He in Hm. injection Hm as <-. pose proof (HE q m0 Hq Hm0) as H0.
    unfold evict_memo. destruct (m_untracked m0); [exact H0 | exact H0].
Qed.

Lemma idle_evict_all s : idle s -> idle (evict_all fams s).
Proof.
  intros (HE & Hst). split.
  - apply (EI_evicted s); [| exact HE]. apply (InvTop.sb_memo _ _ (InvTop.evict_all_sbm fams s)).
  - rewrite InvTop.evict_all_stack. exact Hst.
Qed.

Lemma idle_new_revision s : idle s -> idle (new_revision fams s).
Proof. intros H. unfold new_revision. apply idle_evict_all. apply (idle_eq s); [reflexivity | reflexivity | exact H]. Qed.

Lemma idle_zalsa_mut s : idle s -> idle (zalsa_mut fams s).
Proof.
  intros H. unfold zalsa_mut. destruct (d_ccount s =? 255).
  - now apply idle_new_revision.
  - apply (idle_eq s); [reflexivity | reflexivity | exact H].
Qed.

Lemma step_t fuel s o : (length ns <= fuel)%nat -> op_listed o -> idle s ->
  idle (fst (step prog noeq fams fuel s o)) /\ snd (step prog noeq fams fuel s o) <> Fuel.
Proof.
  intros Hfuel Ho Hi. destruct o as [i v d | d | c v | c v | e | q | fam k |]; cbn [step].
  - pose proof (idle_new_revision _ (idle_zalsa_mut s Hi)) as H1.
    destruct (f_dur (d_in (new_revision fams (zalsa_mut fams s)) i) =? D_NEVER); cbn [fst snd].
    + split; [exact H1 | discriminate].
    + split; [| discriminate]. eapply idle_eq; [| | exact H1]; reflexivity.
  - pose proof (idle_new_revision _ (idle_zalsa_mut s Hi)) as H1.
    destruct (d =? D_NEVER); cbn [fst snd].
    + split; [exact H1 | discriminate].
    + split; [| discriminate]. eapply idle_eq; [| | exact H1]; reflexivity.
  - cbn [fst snd]. split; [| discriminate]. eapply idle_eq; [| | exact Hi]; reflexivity.
  - cbn [fst snd]. split; [| discriminate]. eapply idle_eq; [| | exact Hi]; reflexivity.
  - cbn [fst snd]. split; [| discriminate]. eapply idle_eq; [| | exact Hi]; reflexivity.
  - destruct Hi as (HE & Hs). cbn [op_listed] in Ho.
    assert (Hlt : (length ns < S fuel + length (@nil qkey))%nat) by (cbn [length]; lia).
    pose proof (fetch_t prog noeq ns Hclosed (level prog noeq fuel) fuel (level_t prog noeq ns Hclosed fuel)
                  [] q (NoDup_nil _) (incl_nil_l _) Ho Hlt s HE Hs) as H.
    unfold wp in H.
    destruct (fetch prog noeq (level prog noeq fuel) q s) as [s' [[[v du] ch] | p |]]; cbn [fst snd].
    + split; [exact H | discriminate].
    + split; [| discriminate]. split; [apply (EI_eq ns s'); [reflexivity | exact H] | reflexivity].
    + destruct H.
  - cbn [fst snd]. split; [| discriminate]. eapply idle_eq; [| | exact (idle_zalsa_mut s Hi)]; reflexivity.
  - cbn [fst snd]. split; [| discriminate]. exact (idle_evict_all _ (idle_zalsa_mut s Hi)).
Qed.

Theorem never_fuel fuel : (length ns <= fuel)%nat -> forall ops s, Forall op_listed ops -> idle s ->
  idle (fst (run_ops prog noeq fams fuel s ops)) /\
  Forall (fun o => o <> Fuel) (snd (run_ops prog noeq fams fuel s ops)).
Proof.
  intros Hfuel. induction ops as [| o ops IH]; intros s Hops Hi; cbn [run_ops].
  - split; [exact Hi | constructor].
  - inversion Hops as [| ? ? Ho Hops']; subst.
    destruct (step_t fuel s o Hfuel Ho Hi) as (H1 & H2).
    destruct (step prog noeq fams fuel s o) as [s1 r]. cbn [fst snd] in H1, H2.
    specialize (IH s1 Hops' H1).
    destruct (run_ops prog noeq fams fuel s1 ops) as [s2 rs]. cbn [fst snd] in *.
    destruct IH as (I1 & I2). split; [exact I1 | constructor; assumption].
Qed.

End TermTop.

Lemma init_idle ns iv idur lru0 : idle ns (init iv idur lru0).
Proof. split; [| reflexivity]. intros q m _ Hm. discriminate. Qed.

(* Core/InvOps.v — every level function of the Core model preserves the invariant and
   meets its specification (weakest-precondition proofs, then one induction on the level). *)
From Salsa Require Import Base.
From Salsa.Kern Require Import CoreK CoreKFacts.
From Salsa.Core Require Import Model Spec SpecProofs Wp Inv InvFrame InvSem.

Section Ops.
Variable prog : qkey -> body.
Variable noeq : qkey -> bool.
Variable rank : qkey -> nat.
Hypothesis Hrank : calls_below prog rank.
Variable NF : nat.
Hypothesis Hbound : forall q, (rank q < NF)%nat.
Variable H : hist.
Notation E := (E prog NF H).
Notation tr := (tr prog NF H).
Notation envat := (envat prog NF H).
Notation memo_ok := (memo_ok prog NF H).
Notation Inv := (Inv prog NF H).
Notation quiet := (quiet prog NF).
Notation touch_below := (touch_below rank).
Notation stack_ok := (stack_ok rank).

Ltac conj := repeat match goal with |- _ /\ _ => split end.

(* ---------------------------------------------------------------- bookkeeping *)
Lemma ext_of_core_eq' s s' :
  core_eq s s' -> d_pcell s' = d_pcell s -> (d_evfault s = None -> d_evfault s' = None) -> ext s s'.
Proof.
  intros (Hr & Hi & Hce & Hm & Hs) Hp Hev. constructor; auto.
  - intros q r. unfold seen. rewrite Hs. auto.
  - intros q m Hq _ _. rewrite Hm. exact Hq.
Qed.

Lemma ext_of_core_eq s s' :
  core_eq s s' -> d_pcell s' = d_pcell s -> d_evfault s' = d_evfault s -> ext s s'.
Proof.
  intros (Hr & Hi & Hce & Hm & Hs) Hp Hev. constructor; auto; [congruence|..].
  - intros q r. unfold seen. rewrite Hs. auto.
  - intros q m Hq _ _. rewrite Hm. exact Hq.
Qed.

Lemma touch_of_core_eq s s' k : core_eq s s' -> touch_below s s' k.
Proof.
  intros (_ & _ & _ & Hm & Hs) p _. split; [rewrite Hm; reflexivity|].
  intros r. unfold seen. rewrite Hs. auto.
Qed.

Lemma core_eq_refl s : core_eq s s.
Proof. repeat split. Qed.

Lemma core_eq_log s l : core_eq s (set_log s l).
Proof. repeat split. Qed.
Lemma core_eq_stack s l : core_eq s (set_stack s l).
Proof. repeat split. Qed.
Lemma core_eq_lru s l : core_eq s (set_lru s l).
Proof. repeat split. Qed.

Lemma touch_store s q m k : (rank q < k)%nat -> touch_below s (store s q m) k.
Proof.
  intros Hk p Hp. assert (Hne : q <> p) by (intros ->; lia).
  split.
  - unfold store; cbn. apply upd_other; exact Hne.
  - intros r Hs. apply seen_store in Hs. destruct Hs as [[-> _] | Hs]; [contradiction | exact Hs].
Qed.

Definition XP (s0 : db) : panic -> db -> Prop :=
  fun p s' => allowed s0 p /\ Inv s' /\ ext s0 s'.

(* the event callback: either the event is logged (nothing the invariant talks about moves),
   or the armed fault fires and the computation unwinds from an unchanged core state *)
Lemma emit_ok e s s0 (Q : unit -> db -> Prop) :
  Inv s -> ext s0 s ->
  (forall s1, core_eq s s1 -> Inv s1 -> ext s s1 -> d_stack s1 = d_stack s ->
              d_log s1 = e :: d_log s -> Q tt s1) ->
  wp (emit e) Q (XP s0) s.
Proof.
  intros HI He HQ. apply wp_emit.
  - intros s1 Hr Hi Hc Hp Hm Hs Hst Hl Hev Hlog.
    assert (Hce : core_eq s s1) by (repeat split; assumption).
    apply HQ; try assumption.
    + apply (Inv_core_eq prog NF H s); assumption.
    + apply ext_of_core_eq'; assumption.
  - intros Hne.
    assert (Hce : core_eq s (set_evfault s None)) by (repeat split).
    split.
    + right. split; [reflexivity|]. right. intros H0. apply Hne. apply (ext_evfault _ _ He). exact H0.
    + split; [apply (Inv_core_eq prog NF H s); assumption|].
      eapply ext_trans; [exact He|]. apply ext_of_core_eq'; [exact Hce | reflexivity | reflexivity].
Qed.

(* ---------------------------------------------------------------- mark_verified *)
Lemma mark_verified_ok q m s s0 :
  ext s0 s ->
  Inv s -> d_memo s q = Some m ->
  agree_on (envat (m_verified m)) (envat (cur s)) (tr (m_verified m) q) ->
  (forall d, In (EQ d) (m_edges m) -> seen s d (cur s)) ->
  wp (mark_verified q m)
     (fun m' s' => m' = reverify m (cur s) /\ Inv s' /\ ext s s' /\
                   touch_below s s' (S (rank q)) /\ d_stack s' = d_stack s /\
                   d_memo s' q = Some m' /\ E (cur s) q = E (m_verified m) q) (XP s0) s.
Proof.
  intros He0 HI Hm Hag Hed.
  unfold mark_verified.
  apply wp_bind, wp_get. apply wp_bind. apply (emit_ok _ s s0); [exact HI | exact He0|].
  intros s1 Hce HI1 He01 Hst1 _.
  apply wp_bind.
  unfold set_memo_at. apply wp_modify. apply wp_ret.
  set (m' := {| m_val := m_val m; m_verified := cur s; m_changed := m_changed m; m_dur := m_dur m;
               m_untracked := m_untracked m; m_edges := m_edges m |}).
  change (set_seen _ _) with (store s1 q m').
  assert (Hcur1 : cur s1 = cur s) by (apply core_eq_cur; exact Hce).
  assert (Hm1 : d_memo s1 q = Some m) by (destruct Hce as (_ & _ & _ & Hmm & _); rewrite Hmm; exact Hm).
  assert (Hed1 : forall d, In (EQ d) (m_edges m) -> seen s1 d (cur s1)).
  { intros d Hd. rewrite Hcur1. apply (ext_seen _ _ He01). apply Hed; exact Hd. }
  assert (Hag1 : agree_on (envat (m_verified m)) (envat (cur s1)) (tr (m_verified m) q))
    by (rewrite Hcur1; exact Hag).
  destruct (revalidate_ok prog rank Hrank NF Hbound H s1 q m HI1 Hm1 Hag1 Hed1) as (Hok & Hcl & HE).
  assert (Hrv : reverify m (cur s1) = m') by (unfold reverify, m'; rewrite Hcur1; reflexivity).
  cbv zeta in Hok. rewrite Hrv in Hok.
  destruct (Inv_store prog NF H s1 q m' HI1 (eq_sym Hcur1) Hok Hcl) as [HI2 Hext].
  { intros m0 Hm0 Hv0 _.
    rewrite Hm1 in Hm0. injection Hm0 as <-. rewrite Hcur1 in Hv0.
    unfold m'. rewrite <- Hv0. symmetry. apply reverify_same. }
  split; [reflexivity|]. split; [exact HI2|]. split.
  { eapply ext_trans; [exact He01 | exact Hext]. }
  split.
  { eapply touch_below_trans with (k1 := S (rank q)) (k2 := S (rank q));
      [lia | lia | apply touch_of_core_eq; exact Hce | apply touch_store; lia]. }
  split; [cbn; exact Hst1|]. split; [|rewrite <- Hcur1; exact HE].
  unfold store; cbn. apply upd_same.
Qed.

(* ---------------------------------------------------------------- shallow verification *)
Lemma shallow_cases s q m : Inv s -> d_memo s q = Some m ->
  match shallow_verify s m with
  | ShVerified => m_verified m = cur s
  | ShHigher => m_verified m <> cur s /\ m_dur m = 3
  | ShNo => m_verified m <> cur s
  end.
Proof.
  intros HI Hm. pose proof (inv_memo _ _ _ _ HI q m Hm) as Hok.
  unfold shallow_verify.
  destruct (N.eqb_spec (m_verified m) (cur s)) as [Heq | Hne]; [exact Heq|].
  destruct (shallow_ok (last_changed (d_revs s) (m_dur m)) (m_verified m)) eqn:Hsh; [|exact Hne].
  split; [exact Hne|].
  destruct (mo_dur _ _ _ _ _ _ Hok) as [H0 | (H3 & _)]; [|exact H3].
  exfalso. rewrite H0, last_changed_low in Hsh. apply shallow_ok_spec in Hsh.
  pose proof (mo_order _ _ _ _ _ _ Hok) as (_ & _ & Hle). unfold cur in *. lia.
Qed.

Lemma quiet_agree q r r' : quiet q -> agree_on (envat r) (envat r') (tr r q).
Proof.
  intros Hq x Hx. destruct Hq as [q Hq].
  destruct (Hq (H r) x Hx) as (d & -> & Hd). cbn.
  apply (quiet_E prog rank Hrank NF Hbound); exact Hd.
Qed.

Definition verified_now (s0 : db) (q : qkey) (m : memo) (m' : memo) (s' : db) : Prop :=
  Inv s' /\ ext s0 s' /\ touch_below s0 s' (S (rank q)) /\ d_stack s' = d_stack s0 /\
  d_memo s' q = Some m' /\ m_verified m' = cur s0 /\ m_val m' = m_val m /\
  m_dur m' = m_dur m /\ m_changed m' = m_changed m /\ E (cur s0) q = E (m_verified m) q.

Lemma update_shallow_ok q m s u s0 :
  ext s0 s ->
  Inv s -> d_memo s q = Some m -> shallow_verify s m = u -> u <> ShNo ->
  wp (update_shallow q m u) (fun m' s' => verified_now s q m m' s') (XP s0) s.
Proof.
  intros He0 HI Hm Hu Hne.
  pose proof (shallow_cases s q m HI Hm) as Hc. rewrite Hu in Hc.
  destruct u; [| |contradiction]; cbn [update_shallow].
  - apply wp_ret. unfold verified_now. rewrite Hc.
    split; [exact HI|]. split; [apply ext_refl|]. split; [apply touch_below_refl|].
    conj; auto.
  - destruct Hc as [_ H3].
    pose proof (inv_memo _ _ _ _ HI q m Hm) as Hok.
    destruct (mo_dur _ _ _ _ _ _ Hok) as [H0 | (_ & _ & Hq & Hed)]; [rewrite H0 in H3; discriminate|].
    assert (Hed' : forall d, In (EQ d) (m_edges m) -> seen s d (cur s)).
    { rewrite Hed. intros d []. }
    pose proof (mark_verified_ok q m s s0 He0 HI Hm (quiet_agree q _ _ Hq) Hed') as Hmv.
    eapply wp_conseq; [exact Hmv | | intros; assumption].
    intros m' s' (-> & HI' & Hext & Ht & Hst & Hm' & HE).
    unfold verified_now. conj; auto.
Qed.

(* ---------------------------------------------------------------- specifications of a level *)
Definition fetch_post (s0 : db) (q : qkey) (r : qres) (s' : db) : Prop :=
  Inv s' /\ ext s0 s' /\ touch_below s0 s' (S (rank q)) /\ d_stack s' = d_stack s0 /\
  fst (fst r) = E (cur s0) q /\
  exists m, d_memo s' q = Some m /\ m_verified m = cur s0 /\ m_val m = Some (fst (fst r)) /\
            m_dur m = snd (fst r) /\ m_changed m = snd r.

Definition fetch_spec (L : lower) (n : nat) : Prop :=
  forall q s, (rank q < n)%nat -> Inv s -> stack_ok s q ->
    wp (l_fetch L q) (fetch_post s q) (XP s) s.

Definition mca_post (s0 : db) (q : qkey) (since : rev) (b : bool) (s' : db) : Prop :=
  Inv s' /\ ext s0 s' /\ touch_below s0 s' (S (rank q)) /\ d_stack s' = d_stack s0 /\
  (b = false -> exists m, d_memo s' q = Some m /\ m_verified m = cur s0 /\ m_changed m <= since).

Definition mca_spec (L : lower) (n : nat) : Prop :=
  forall q since s, (rank q < n)%nat -> Inv s -> stack_ok s q ->
    wp (l_mca L q since) (mca_post s q since) (XP s) s.

Lemma XP_trans s0 s1 p s' : ext s0 s1 -> XP s1 p s' -> XP s0 p s'.
Proof.
  intros He (Ha & HI & He'). split; [apply (allowed_ext s0 s1); [apply (ext_pcell _ _ He) | apply (ext_evfault _ _ He) | exact Ha]|].
  split; [exact HI|].
  eapply ext_trans; eassumption.
Qed.

(* ---------------------------------------------------------------- deep verification *)
Lemma walk_edges_ok L n q (HM : mca_spec L n) : forall es since s,
  Inv s ->
  (forall d, In (EQ d) es -> (rank d < n)%nat /\ (rank d < rank q)%nat /\ seen s d since) ->
  (forall p, In p (d_stack s) -> (rank q <= rank p)%nat) ->
  wp (walk_edges L es since)
     (fun b s' => Inv s' /\ ext s s' /\ touch_below s s' (rank q) /\ d_stack s' = d_stack s /\
        (b = false -> forall e, In e es ->
           match e with
           | EIn i => f_changed (d_in s i) <= since
           | EQ d => E since d = E (cur s) d /\ seen s' d (cur s)
           end)) (XP s) s.
Proof.
  induction es as [|e es IH]; intros since s HI Hes Hst; cbn [walk_edges].
  - apply wp_ret. split; [exact HI|]. split; [apply ext_refl|]. split; [apply touch_below_refl|].
    split; [reflexivity|]. intros _ e [].
  - destruct e as [i | d].
    + apply wp_bind, wp_get.
      destruct (changed_after (f_changed (d_in s i)) since) eqn:Hca.
      * apply wp_ret. split; [exact HI|]. split; [apply ext_refl|]. split; [apply touch_below_refl|].
        split; [reflexivity|]. discriminate.
      * apply changed_after_false in Hca.
        eapply wp_conseq; [apply (IH since s HI) | |intros; assumption].
        -- intros d Hd. apply Hes. right; exact Hd.
        -- exact Hst.
        -- intros b s' (HI' & He & Ht & Hs & Hb). conj; auto.
           intros Hbf e [<- | He']; [exact Hca | apply Hb; assumption].
    + destruct (Hes d (or_introl eq_refl)) as (Hdn & Hdq & Hsd).
      apply wp_bind.
      eapply wp_conseq; [apply (HM d since s Hdn HI) | |intros; assumption].
      { intros p Hp. specialize (Hst p Hp). lia. }
      intros c s1 (HI1 & He1 & Ht1 & Hs1 & Hc).
      pose proof (ext_cur _ _ He1) as Hcur1.
      destruct c.
      * apply wp_ret. split; [exact HI1|]. split; [exact He1|]. split.
        { eapply touch_below_trans with (k1 := S (rank d)) (k2 := rank q);
            [lia | lia | exact Ht1 | apply touch_below_refl]. }
        split; [exact Hs1|]. discriminate.
      * destruct (Hc eq_refl) as (md & Hmd & Hvd & Hcd).
        pose proof (inv_memo _ _ _ _ HI1 d md Hmd) as Hok.
        assert (HEd : E since d = E (cur s) d).
        { rewrite <- Hvd. apply (mo_changed _ _ _ _ _ _ Hok); [|exact Hcd].
          apply (ext_seen _ _ He1); exact Hsd. }
        assert (Hsn : seen s1 d (cur s)).
        { rewrite <- Hvd. apply (mo_seen _ _ _ _ _ _ Hok). }
        eapply wp_conseq; [apply (IH since s1 HI1) | |].
        -- intros d' Hd'. destruct (Hes d' (or_intror Hd')) as (A & B & C).
           split; [exact A|]. split; [exact B|]. apply (ext_seen _ _ He1); exact C.
        -- rewrite Hs1. exact Hst.
        -- intros b s' (HI' & He & Ht & Hs & Hb).
           split; [exact HI'|]. split; [eapply ext_trans; eassumption|]. split.
           { eapply touch_below_trans with (k1 := S (rank d)) (k2 := rank q);
               [lia | lia | exact Ht1 | exact Ht]. }
           split; [congruence|].
           intros Hbf e [<- | He'].
           ++ split; [exact HEd|]. apply (ext_seen _ _ He); exact Hsn.
           ++ specialize (Hb Hbf e He'). destruct e as [i | d'].
              ** rewrite (ext_in _ _ He1) in Hb. exact Hb.
              ** rewrite Hcur1 in Hb. exact Hb.
        -- intros p s' Hx. eapply XP_trans; eassumption.
Qed.

Definition verify_post (s0 : db) (q : qkey) (m : memo) (r : bool * memo) (s' : db) : Prop :=
  Inv s' /\ ext s0 s' /\ touch_below s0 s' (S (rank q)) /\ d_stack s' = d_stack s0 /\
  (fst r = true -> verified_now s0 q m (snd r) s') /\
  (fst r = false -> d_memo s' q = d_memo s0 q).

Lemma deep_verify_ok L n q m s (HM : mca_spec L n) :
  (rank q <= n)%nat -> Inv s -> d_memo s q = Some m ->
  (forall p, In p (d_stack s) -> (rank q <= rank p)%nat) ->
  wp (deep_verify L q m) (verify_post s q m) (XP s) s.
Proof.
  intros Hn HI Hm Hst. unfold deep_verify.
  pose proof (inv_memo _ _ _ _ HI q m Hm) as Hok.
  destruct (m_untracked m) eqn:Hu.
  - apply wp_ret. unfold verify_post; cbn [fst snd].
    split; [exact HI|]. split; [apply ext_refl|]. split; [apply touch_below_refl|].
    split; [reflexivity|]. split; [discriminate | reflexivity].
  - apply wp_bind.
    eapply wp_conseq; [apply (walk_edges_ok L n q HM (m_edges m) (m_verified m) s HI) | |intros; assumption].
    { intros d Hd. destruct (mo_edges_q _ _ _ _ _ _ Hok d Hd) as [Hin Hs].
      pose proof (tr_calls prog rank Hrank NF H _ _ _ Hin). conj; [lia | lia | exact Hs]. }
    { exact Hst. }
    intros c s1 (HI1 & He1 & Ht1 & Hs1 & Hc).
    pose proof (ext_cur _ _ He1) as Hcur1.
    assert (Hm1 : d_memo s1 q = Some m).
    { destruct (Ht1 q (le_n _)) as [Heq _]. rewrite Heq. exact Hm. }
    destruct c.
    + apply wp_ret. unfold verify_post; cbn [fst snd].
      split; [exact HI1|]. split; [exact He1|]. split.
      { eapply touch_below_trans with (k1 := rank q) (k2 := 0%nat);
          [lia | lia | exact Ht1 | apply touch_below_refl]. }
      split; [exact Hs1|]. split; [discriminate|]. intros _. congruence.
    + specialize (Hc eq_refl).
      apply wp_bind.
      assert (Hag : agree_on (envat (m_verified m)) (envat (cur s1)) (tr (m_verified m) q)).
      { intros x Hx. destruct x as [i | d | c |]; cbn.
        - pose proof (Hc _ (mo_reads_in _ _ _ _ _ _ Hok i Hx)) as Hle. cbn in Hle.
          pose proof (mo_order _ _ _ _ _ _ Hok) as (_ & _ & Hv).
          rewrite (inv_in _ _ _ _ HI i (m_verified m) Hle Hv).
          rewrite Hcur1.
          rewrite (inv_in _ _ _ _ HI i (cur s)); [reflexivity | apply (inv_in_le _ _ _ _ HI) | lia].
        - rewrite Hcur1. destruct (mo_reads_q _ _ _ _ _ _ Hok d Hx) as [Hin | Hq].
          + exact (proj1 (Hc _ Hin)).
          + apply (quiet_E prog rank Hrank NF Hbound); exact Hq.
        - rewrite (mo_reads_cell _ _ _ _ _ _ Hok (RCell c) Hx) in Hu; [discriminate | right; eauto].
        - reflexivity. }
      assert (Hed : forall d, In (EQ d) (m_edges m) -> seen s1 d (cur s1)).
      { intros d Hd. rewrite Hcur1. exact (proj2 (Hc _ Hd)). }
      eapply wp_conseq; [apply (mark_verified_ok q m s1 s He1 HI1 Hm1 Hag Hed) | |intros; assumption].
      intros m' s2 (-> & HI2 & He2 & Ht2 & Hs2 & Hm2 & HE).
      apply wp_ret. unfold verify_post; cbn [fst snd].
      split; [exact HI2|]. split; [eapply ext_trans; eassumption|]. split.
      { eapply touch_below_trans with (k1 := rank q) (k2 := S (rank q));
          [lia | lia | exact Ht1 | exact Ht2]. }
      split; [congruence|]. split; [|discriminate].
      intros _. unfold verified_now. rewrite Hcur1 in *.
      split; [exact HI2|]. split; [eapply ext_trans; eassumption|]. split.
      { eapply touch_below_trans with (k1 := rank q) (k2 := S (rank q));
          [lia | lia | exact Ht1 | exact Ht2]. }
      conj; auto. congruence.
Qed.

Lemma verify_memo_ok L n q m s (HM : mca_spec L n) :
  (rank q <= n)%nat -> Inv s -> d_memo s q = Some m ->
  (forall p, In p (d_stack s) -> (rank q <= rank p)%nat) ->
  wp (verify_memo L q m) (verify_post s q m) (XP s) s.
Proof.
  intros Hn HI Hm Hst. unfold verify_memo.
  apply wp_bind, wp_get.
  destruct (shallow_verify s m) eqn:Hsh.
  - apply wp_bind.
    eapply wp_conseq; [apply (update_shallow_ok q m s ShVerified s (ext_refl s) HI Hm Hsh); discriminate | |intros; assumption].
    intros m' s' Hv. apply wp_ret. unfold verify_post; cbn [fst snd].
    pose proof Hv as (A & B & C & D & _).
    conj; auto. discriminate.
  - apply wp_bind.
    eapply wp_conseq; [apply (update_shallow_ok q m s ShHigher s (ext_refl s) HI Hm Hsh); discriminate | |intros; assumption].
    intros m' s' Hv. apply wp_ret. unfold verify_post; cbn [fst snd].
    pose proof Hv as (A & B & C & D & _).
    conj; auto. discriminate.
  - apply (deep_verify_ok L n q m s HM Hn HI Hm Hst).
Qed.

(* ---------------------------------------------------------------- frames while running a body *)
Lemma In_add_edge e' es e : In e' (add_edge es e) <-> In e' es \/ e' = e.
Proof.
  unfold add_edge. destruct (existsb (edge_eqb e) es) eqn:Hex.
  - split; [auto|]. intros [Hin | ->]; [exact Hin|].
    apply existsb_exists in Hex. destruct Hex as (x & Hx & Heq).
    assert (x = e); [|subst; exact Hx].
    destruct e as [i | d], x as [j | d']; cbn in Heq; try discriminate;
      apply key_eqb_eq in Heq; congruence.
  - rewrite in_app_iff. cbn. intuition.
Qed.

Lemma covers_ext s s' pre fr : ext s s' -> covers s pre fr -> covers s' pre fr.
Proof.
  intros He [a b c d e f g h]. pose proof (ext_cur _ _ He) as Hc.
  constructor; rewrite ?Hc, ?(ext_in _ _ He); auto.
  intros d0 Hd0. destruct (b d0 Hd0) as (md & Hmd & Hv & Hx & Hrest).
  exists md. split; [apply (ext_valid _ _ He); assumption|]. split; [exact Hv|]. split; assumption.
Qed.

Lemma covers_add_in s pre fr i :
  Inv s -> covers s pre fr ->
  covers s (pre ++ [RIn i])
         (add_read fr (EIn i) (f_dur (d_in s i)) (f_changed (d_in s i))).
Proof.
  intros HI [a b c d e f g h].
  pose proof (inv_low _ _ _ _ HI i) as Hlow. pose proof (inv_in_le _ _ _ _ HI i) as Hle.
  unfold add_read, dur_min, rev_max. rewrite Hlow. cbn [N.eqb D_NEVER].
  constructor; cbn [fr_dur fr_changed fr_edges fr_untracked].
  - intros j Hj. apply in_app_iff in Hj. destruct Hj as [Hj | [Hj | []]].
    + destruct (a j Hj) as (A & B & C). split; [apply In_add_edge; left; exact A|]. split; lia.
    + injection Hj as <-. split; [apply In_add_edge; right; reflexivity|]. split; lia.
  - intros d0 Hd0. apply in_app_iff in Hd0. destruct Hd0 as [Hd0 | [Hd0 | []]]; [|discriminate].
    destruct (b d0 Hd0) as (md & A & B & C & D & E0 & F).
    exists md. conj; auto; try lia.
    destruct F as [F | F]; [left; apply In_add_edge; left; exact F | right; exact F].
  - intros x Hx Hk. apply in_app_iff in Hx. destruct Hx as [Hx | [Hx | []]].
    + destruct (c x Hx Hk) as (A & B & C). conj; auto; lia.
    + subst x. destruct Hk as [Hk | (c0 & Hk)]; discriminate.
  - intros j Hj. apply In_add_edge in Hj. apply in_app_iff.
    destruct Hj as [Hj | Hj]; [left; apply d; exact Hj | right; left; congruence].
  - intros d0 Hd0. apply In_add_edge in Hd0. apply in_app_iff.
    destruct Hd0 as [Hd0 | Hd0]; [left; apply e; exact Hd0 | discriminate].
  - lia.
  - left. lia.
  - intros _. lia.
Qed.

Lemma covers_add_q s pre fr d md :
  Inv s -> covers s pre fr ->
  d_memo s d = Some md -> m_verified md = cur s -> m_val md <> None ->
  covers s (pre ++ [RQ d]) (add_read fr (EQ d) (m_dur md) (m_changed md)).
Proof.
  intros HI [a b c dd e f g h] Hmd Hv Hx.
  pose proof (inv_memo _ _ _ _ HI d md Hmd) as Hok.
  pose proof (mo_order _ _ _ _ _ _ Hok) as (_ & Hcv & Hvc).
  assert (Hdur : m_dur md = 0 \/ m_dur md = 3).
  { destruct (mo_dur _ _ _ _ _ _ Hok) as [A | (A & _)]; auto. }
  unfold add_read, dur_min, rev_max.
  constructor; cbn [fr_dur fr_changed fr_edges fr_untracked].
  - intros j Hj. apply in_app_iff in Hj. destruct Hj as [Hj | [Hj | []]]; [|discriminate].
    destruct (a j Hj) as (A & B & C). split.
    + destruct (m_dur md =? D_NEVER); [exact A | apply In_add_edge; left; exact A].
    + split; lia.
  - intros d0 Hd0. apply in_app_iff in Hd0. destruct Hd0 as [Hd0 | [Hd0 | []]].
    + destruct (b d0 Hd0) as (md0 & A & B & C & D & E0 & F).
      exists md0. conj; auto; try lia.
      destruct F as [F | F]; [left | right; exact F].
      destruct (m_dur md =? D_NEVER); [exact F | apply In_add_edge; left; exact F].
    + injection Hd0 as <-. exists md. conj; auto; try lia.
      destruct (N.eqb_spec (m_dur md) D_NEVER) as [H3 | Hn3]; [right; exact H3 | left].
      apply In_add_edge; right; reflexivity.
  - intros x Hxx Hk. apply in_app_iff in Hxx. destruct Hxx as [Hxx | [Hxx | []]].
    + destruct (c x Hxx Hk) as (A & B & C). conj; auto; lia.
    + subst x. destruct Hk as [Hk | (c0 & Hk)]; discriminate.
  - intros j Hj. apply in_app_iff. left. apply dd.
    destruct (m_dur md =? D_NEVER); [exact Hj|]. apply In_add_edge in Hj.
    destruct Hj as [Hj | Hj]; [exact Hj | discriminate].
  - intros d0 Hd0. apply in_app_iff.
    destruct (m_dur md =? D_NEVER); [left; apply e; exact Hd0|].
    apply In_add_edge in Hd0. destruct Hd0 as [Hd0 | Hd0]; [left; apply e; exact Hd0 | right; left; congruence].
  - lia.
  - destruct g as [g | g], Hdur as [Hd | Hd]; rewrite g, Hd; cbn; auto.
  - intros Hu. rewrite (h Hu). lia.
Qed.

Lemma covers_add_untracked s pre fr x :
  Inv s -> covers s pre fr -> (x = RTouch \/ exists c, x = RCell c) ->
  covers s (pre ++ [x]) (add_untracked fr (cur s)).
Proof.
  intros HI [a b c d e f g h] Hx.
  unfold add_untracked, D_LOW.
  constructor; cbn [fr_dur fr_changed fr_edges fr_untracked].
  - intros j Hj. apply in_app_iff in Hj. destruct Hj as [Hj | [Hj | []]].
    + destruct (a j Hj) as (A & B & C). conj; auto. apply (inv_in_le _ _ _ _ HI).
    + subst x. destruct Hx as [Hx | (c0 & Hx)]; discriminate.
  - intros d0 Hd0. apply in_app_iff in Hd0. destruct Hd0 as [Hd0 | [Hd0 | []]].
    + destruct (b d0 Hd0) as (md0 & A & B & C & D & E0 & F).
      pose proof (mo_order _ _ _ _ _ _ (inv_memo _ _ _ _ HI d0 md0 A)).
      exists md0. conj; auto; try lia.
    + subst x. destruct Hx as [Hx | (c0 & Hx)]; discriminate.
  - intros y Hy Hk. conj; reflexivity.
  - intros j Hj. apply in_app_iff. left. apply d; exact Hj.
  - intros d0 Hd0. apply in_app_iff. left. apply e; exact Hd0.
  - lia.
  - left; reflexivity.
  - intros _; reflexivity.
Qed.

(* ---------------------------------------------------------------- running a body *)
Lemma run_body_ok L n q c0 (HF : fetch_spec L n) : forall b pre fr s,
  cur s = c0 ->
  tr c0 q = pre ++ trace (envat c0) b ->
  E c0 q = run (envat c0) b ->
  (forall d, calls b d -> (rank d < n)%nat /\ (rank d < rank q)%nat) ->
  Inv s -> covers s pre fr ->
  (forall p, In p (d_stack s) -> (rank q <= rank p)%nat) ->
  wp (run_body L b fr)
     (fun r s' => Inv s' /\ ext s s' /\ touch_below s s' (rank q) /\ d_stack s' = d_stack s /\
                  fst r = E c0 q /\ covers s' (tr c0 q) (snd r)) (XP s) s.
Proof.
  induction b as [v | i k IH | d k IH | c k IH | k IH | pc k IH];
    intros pre fr s Hc Htr HE Hcalls HI Hcv Hst; cbn [run_body].
  - (* Ret *)
    apply wp_ret. cbn [trace run] in *. rewrite app_nil_r in Htr.
    split; [exact HI|]. split; [apply ext_refl|]. split; [apply touch_below_refl|].
    split; [reflexivity|]. cbn [fst snd]. split; [congruence|]. rewrite Htr. exact Hcv.
  - (* RdIn *)
    apply wp_bind, wp_get.
    assert (Hval : e_in (envat c0) i = f_val (d_in s i)).
    { cbn. apply (inv_in _ _ _ _ HI); [rewrite <- Hc; apply (inv_in_le _ _ _ _ HI) | lia]. }
    cbn [trace run] in Htr, HE. rewrite Hval in Htr, HE.
    apply (IH (f_val (d_in s i)) (pre ++ [RIn i]) _ s Hc).
    + rewrite <- app_assoc. exact Htr.
    + exact HE.
    + intros d Hd. apply Hcalls. eapply calls_in_rdin; exact Hd.
    + exact HI.
    + apply covers_add_in; assumption.
    + exact Hst.
  - (* CallQ *)
    destruct (Hcalls d (calls_here d k)) as [Hdn Hdq].
    apply wp_bind.
    eapply wp_conseq; [apply (HF d s Hdn HI) | |intros; assumption].
    { intros p Hp. specialize (Hst p Hp). lia. }
    intros [[v dd] cd] s1 (HI1 & He1 & Ht1 & Hs1 & Hv & (md & Hmd & Hvd & Hxd & Hdd & Hcd)).
    cbn [fst snd] in *.
    pose proof (ext_cur _ _ He1) as Hc1.
    assert (Hval : e_q (envat c0) d = v).
    { cbn. rewrite Hv, Hc. reflexivity. }
    cbn [trace run] in Htr, HE. rewrite Hval in Htr, HE.
    eapply wp_conseq; [apply (IH v (pre ++ [RQ d]) _ s1) | |].
    + congruence.
    + rewrite <- app_assoc. exact Htr.
    + exact HE.
    + intros d' Hd'. apply Hcalls. eapply calls_in_call; exact Hd'.
    + exact HI1.
    + subst dd cd. apply covers_add_q; try assumption.
      * eapply covers_ext; eassumption.
      * congruence.
      * rewrite Hxd; discriminate.
    + rewrite Hs1. exact Hst.
    + intros r s2 (HI2 & He2 & Ht2 & Hs2 & Hr & Hcv2).
      split; [exact HI2|]. split; [eapply ext_trans; eassumption|]. split.
      { eapply touch_below_trans with (k1 := S (rank d)) (k2 := rank q);
          [lia | lia | exact Ht1 | exact Ht2]. }
      split; [congruence|]. split; assumption.
    + intros p s2 Hx. eapply XP_trans; eassumption.
  - (* RdCell *)
    apply wp_bind, wp_get.
    assert (Hval : e_cell (envat c0) c = d_cell s c).
    { cbn. rewrite <- Hc. apply (inv_cell _ _ _ _ HI). }
    cbn [trace run] in Htr, HE. rewrite Hval in Htr, HE.
    apply (IH (d_cell s c) (pre ++ [RCell c]) _ s Hc).
    + rewrite <- app_assoc. exact Htr.
    + exact HE.
    + intros d Hd. apply Hcalls. eapply calls_in_cell; exact Hd.
    + exact HI.
    + apply covers_add_untracked; [assumption | assumption | right; eauto].
    + exact Hst.
  - (* Touch *)
    apply wp_bind, wp_get.
    cbn [trace run] in Htr, HE.
    apply (IH (pre ++ [RTouch]) _ s Hc).
    + rewrite <- app_assoc. exact Htr.
    + exact HE.
    + intros d Hd. apply Hcalls. eapply calls_in_touch; exact Hd.
    + exact HI.
    + apply covers_add_untracked; [assumption | assumption | left; reflexivity].
    + exact Hst.
  - (* PanicIf *)
    apply wp_bind, wp_get.
    cbn [trace run] in Htr, HE.
    destruct (d_pcell s pc =? 0) eqn:Hpc.
    + apply (IH pre fr s Hc); try assumption.
      intros d Hd. apply Hcalls. eapply calls_in_panicif; exact Hd.
    + apply wp_fail. split; [right; split; [reflexivity | left; exists pc; apply N.eqb_neq; exact Hpc]|].
      split; [exact HI | apply ext_refl].
Qed.

(* ---------------------------------------------------------------- execute *)
Definition exec_post (s0 : db) (q : qkey) (m : memo) (s' : db) : Prop :=
  Inv s' /\ ext s0 s' /\ touch_below s0 s' (S (rank q)) /\ d_stack s' = d_stack s0 /\
  d_memo s' q = Some m /\ m_verified m = cur s0 /\ m_val m = Some (E (cur s0) q).

Lemma store_fresh_ok q s0 s2 v fr ch old :
  Inv s2 -> ext s0 s2 -> touch_below s0 s2 (rank q) ->
  covers s2 (tr (cur s2) q) fr -> v = E (cur s2) q ->
  d_memo s2 q = old ->
  (forall m0, old = Some m0 -> m_verified m0 = cur s2 -> m_val m0 = None) ->
  (ch = fr_changed fr \/
   exists o ov, old = Some o /\ m_val o = Some ov /\ ov = v /\ ch = m_changed o) ->
  let m := fresh_memo v (cur s2) ch fr in
  Inv (store s2 q m) /\ ext s0 (store s2 q m) /\ touch_below s0 (store s2 q m) (S (rank q)) /\
  d_memo (store s2 q m) q = Some m.
Proof.
  intros HI2 He Ht Hcv Hv Hold Hnv Hch m.
  destruct (fresh_memo_ok prog rank Hrank NF Hbound H s2 q fr v ch old HI2 Hcv Hv Hold Hch) as [Hok Hcl].
  destruct (Inv_store prog NF H s2 q m HI2 eq_refl Hok Hcl) as [HI3 He3].
  { intros m0 Hm0 Hv0 Hx0. exfalso. apply Hx0. apply Hnv; [congruence | exact Hv0]. }
  split; [exact HI3|]. split; [eapply ext_trans; eassumption|]. split.
  { eapply touch_below_trans with (k1 := rank q) (k2 := S (rank q));
      [lia | lia | exact Ht | apply touch_store; lia]. }
  unfold store; cbn. apply upd_same.
Qed.

Lemma execute_ok L n q s old (HF : fetch_spec L n) :
  (rank q <= n)%nat -> Inv s -> d_memo s q = old ->
  (forall m0, old = Some m0 -> m_verified m0 = cur s -> m_val m0 = None) ->
  (forall p, In p (d_stack s) -> (rank q <= rank p)%nat) ->
  wp (execute prog noeq L q old) (exec_post s q) (XP s) s.
Proof.
  intros Hn HI Hold Hnv Hst. unfold execute.
  apply wp_bind. apply (emit_ok _ s s); [exact HI | apply ext_refl|].
  intros s1 Hce HI1 He01 Hst01 _.
  assert (Hcur01 : cur s1 = cur s) by (apply core_eq_cur; exact Hce).
  apply wp_bind.
  eapply wp_conseq; [apply (run_body_ok L n q (cur s) HF (prog q) [] frame0 s1) | |].
  - exact Hcur01.
  - reflexivity.
  - apply (E_unfold prog rank Hrank NF Hbound).
  - intros d Hd. pose proof (Hrank q d Hd). split; lia.
  - exact HI1.
  - apply covers_frame0. apply (inv_cur _ _ _ _ HI1).
  - rewrite Hst01. exact Hst.
  - intros [v fr] s2 (HI2 & He2 & Ht2 & Hs2 & Hv & Hcv). cbn [fst snd] in *.
    pose proof (ext_cur _ _ He2) as Hc2. rewrite Hcur01 in Hc2.
    apply wp_bind, wp_get.
    assert (He02 : ext s s2) by (eapply ext_trans; eassumption).
    assert (Ht02 : touch_below s s2 (rank q)).
    { eapply touch_below_trans with (k1 := 0%nat) (k2 := rank q);
        [lia | lia | apply touch_of_core_eq; exact Hce | exact Ht2]. }
    assert (Hold2 : d_memo s2 q = old).
    { destruct (Ht02 q (le_n _)) as [Heq _]. rewrite Heq. exact Hold. }
    assert (Hnv2 : forall m0, old = Some m0 -> m_verified m0 = cur s2 -> m_val m0 = None).
    { intros m0 A B. apply Hnv; [exact A | congruence]. }
    assert (Hcv' : covers s2 (tr (cur s2) q) fr) by (rewrite Hc2; exact Hcv).
    assert (Hv' : v = E (cur s2) q) by (rewrite Hc2; exact Hv).
    (* the common ending: store the fresh memo with stamp ch *)
    assert (Hfin : forall ch,
      (ch = fr_changed fr \/
       exists o ov, old = Some o /\ m_val o = Some ov /\ ov = v /\ ch = m_changed o) ->
      wp (set_memo_at q (fresh_memo v (cur s2) ch fr) ;;; ret (fresh_memo v (cur s2) ch fr))
         (exec_post s q) (XP s) s2).
    { intros ch Hch. apply wp_bind. unfold set_memo_at. apply wp_modify. apply wp_ret.
      change (set_seen _ _) with (store s2 q (fresh_memo v (cur s2) ch fr)).
      destruct (store_fresh_ok q s s2 v fr ch old HI2 He02 Ht02 Hcv' Hv' Hold2 Hnv2 Hch)
        as (A & B & C & D).
      unfold exec_post.
      split; [exact A|]. split; [exact B|]. split; [exact C|].
      split; [cbn; rewrite Hs2; exact Hst01|]. split; [exact D|].
      split; [cbn; exact Hc2 | cbn; rewrite Hv; reflexivity]. }
    destruct old as [o|].
    + destruct (m_val o) as [ov|] eqn:Hov.
      * destruct (can_backdate_dur (fr_dur fr) (m_dur o) && negb (noeq q)).
        -- destruct (d_pcell s2 EQ_FAULT =? 0) eqn:Hqf; cbn [negb].
           ++ destruct (ov =? v) eqn:Hbd.
              ** destruct (changed_after (m_changed o) (fr_changed fr)).
                 --- apply wp_fail. split; [left; reflexivity|]. split; [exact HI2 | exact He02].
                 --- apply Hfin. right. exists o, ov. conj; auto. apply N.eqb_eq in Hbd. exact Hbd.
              ** apply Hfin. left; reflexivity.
           ++ apply wp_fail. split; [|split; [exact HI2 | exact He02]].
              right. split; [reflexivity|]. left. exists EQ_FAULT.
              rewrite <- (ext_pcell _ _ He02). apply N.eqb_neq. exact Hqf.
        -- apply Hfin. left; reflexivity.
      * apply Hfin. left; reflexivity.
    + apply Hfin. left; reflexivity.
  - intros p s' Hx. eapply XP_trans; eassumption.
Qed.

(* ---------------------------------------------------------------- claims *)
Lemma claim_ok q s (Q : unit -> db -> Prop) (X : panic -> db -> Prop) :
  stack_ok s q -> Q tt (set_stack s (q :: d_stack s)) -> wp (claim q) Q X s.
Proof.
  intros Hst HQ. unfold claim. apply wp_bind, wp_get.
  destruct (existsb (key_eqb q) (d_stack s)) eqn:Hex.
  - exfalso. apply existsb_exists in Hex. destruct Hex as (x & Hx & Heq).
    apply key_eqb_eq in Heq. subst x. specialize (Hst q Hx). lia.
  - apply wp_modify. exact HQ.
Qed.

Definition got (s0 : db) (q : qkey) (mv : memo * val) (s' : db) : Prop :=
  Inv s' /\ ext s0 s' /\ touch_below s0 s' (S (rank q)) /\ d_stack s' = d_stack s0 /\
  d_memo s' q = Some (fst mv) /\ m_verified (fst mv) = cur s0 /\
  m_val (fst mv) = Some (snd mv) /\ snd mv = E (cur s0) q.

Definition not_valid_with_value (s : db) (q : qkey) : Prop :=
  forall m0, d_memo s q = Some m0 -> m_verified m0 = cur s -> m_val m0 = None.

Lemma stacked s q :
  stack_ok s q ->
  forall p, In p (d_stack (set_stack s (q :: d_stack s))) -> (rank q <= rank p)%nat.
Proof. intros Hst p [<- | Hp]; [lia | specialize (Hst p Hp); lia]. Qed.

Lemma ext_set_stack s l : ext s (set_stack s l).
Proof. apply ext_of_core_eq; [apply core_eq_stack | reflexivity | reflexivity]. Qed.

Lemma fetch_cold_ok L n q s (HF : fetch_spec L n) (HM : mca_spec L n) :
  (rank q <= n)%nat -> Inv s -> stack_ok s q -> not_valid_with_value s q ->
  wp (fetch_cold prog noeq L q) (got s q) (XP s) s.
Proof.
  intros Hn HI Hst Hnv. unfold fetch_cold.
  apply wp_bind. apply claim_ok; [exact Hst|].
  set (s1 := set_stack s (q :: d_stack s)).
  assert (Hce : core_eq s s1) by apply core_eq_stack.
  assert (HI1 : Inv s1) by (apply (Inv_core_eq prog NF H s); assumption).
  assert (He01 : ext s s1) by apply ext_set_stack.
  assert (Hst1 : forall p, In p (d_stack s1) -> (rank q <= rank p)%nat) by (apply stacked; exact Hst).
  apply wp_bind, wp_get. change (d_memo s1 q) with (d_memo s q).
  (* the execute branch, from any state s2 reached without touching q's memo *)
  assert (Hexec : forall s2, Inv s2 -> ext s1 s2 -> touch_below s1 s2 (S (rank q)) ->
            d_stack s2 = d_stack s1 -> d_memo s2 q = d_memo s q ->
            wp (m <- execute prog noeq L q (d_memo s q) ;;
                release q ;;;
                match m_val m with Some v => ret (m, v) | None => nofuel end)
               (got s q) (XP s) s2).
  { intros s2 HI2 He2 Ht2 Hs2 Hm2.
    pose proof (ext_cur _ _ He2) as Hc2. change (cur s1) with (cur s) in Hc2.
    apply wp_bind.
    eapply wp_conseq; [apply (execute_ok L n q s2 (d_memo s q) HF Hn HI2 Hm2) | |].
    - intros m0 A B. apply Hnv; [exact A | congruence].
    - rewrite Hs2. exact Hst1.
    - intros m s3 (HI3 & He3 & Ht3 & Hs3 & Hm3 & Hv3 & Hx3).
      apply wp_bind. unfold release. apply wp_modify.
      rewrite Hx3. apply wp_ret.
      set (s4 := set_stack s3 (tl (d_stack s3))).
      assert (Hce4 : core_eq s3 s4) by apply core_eq_stack.
      unfold got; cbn [fst snd].
      split; [apply (Inv_core_eq prog NF H s3); assumption|].
      split; [eapply ext_trans; [exact He01|]; eapply ext_trans; [exact He2|];
              eapply ext_trans; [exact He3 | apply ext_set_stack]|].
      split.
      { eapply touch_below_trans with (k1 := 0%nat) (k2 := S (rank q));
          [lia | lia | apply touch_of_core_eq; exact Hce|].
        eapply touch_below_trans with (k1 := S (rank q)) (k2 := S (rank q));
          [lia | lia | exact Ht2|].
        eapply touch_below_trans with (k1 := S (rank q)) (k2 := 0%nat);
          [lia | lia | exact Ht3 | apply touch_of_core_eq; exact Hce4]. }
      split; [cbn; rewrite Hs3, Hs2; reflexivity|].
      split; [exact Hm3|]. split; [congruence|]. split; [congruence | congruence].
    - intros p s3 Hx. eapply XP_trans; [eapply ext_trans; [exact He01 | exact He2] | exact Hx]. }
  destruct (d_memo s q) as [m|] eqn:Hm.
  - destruct (m_val m) as [v|] eqn:Hv.
    + apply wp_bind. apply wp_bind.
      eapply wp_conseq; [apply (verify_memo_ok L n q m s1 HM Hn HI1 Hm Hst1) | |].
      * intros [b m'] s2 (HI2 & He2 & Ht2 & Hs2 & Htrue & Hfalse). cbn [fst snd] in *.
        apply wp_ret.
        destruct b.
        -- destruct (Htrue eq_refl) as (_ & _ & _ & _ & Hm' & Hv' & Hval' & _ & _ & HE).
           apply wp_bind. unfold release. apply wp_modify. apply wp_ret.
           set (s4 := set_stack s2 (tl (d_stack s2))).
           unfold got; cbn [fst snd].
           split; [apply (Inv_core_eq prog NF H s2); [apply core_eq_stack | exact HI2]|].
           split; [eapply ext_trans; [exact He01|]; eapply ext_trans; [exact He2 | apply ext_set_stack]|].
           split.
           { eapply touch_below_trans with (k1 := 0%nat) (k2 := S (rank q));
               [lia | lia | apply touch_of_core_eq; exact Hce|].
             eapply touch_below_trans with (k1 := S (rank q)) (k2 := 0%nat);
               [lia | lia | exact Ht2 | apply touch_of_core_eq; apply core_eq_stack]. }
           split; [cbn; rewrite Hs2; reflexivity|].
           split; [exact Hm'|]. split; [exact Hv'|]. split; [congruence|].
           change (cur s1) with (cur s) in HE. rewrite HE.
           apply (mo_val _ _ _ _ _ _ (inv_memo _ _ _ _ HI q m Hm)); exact Hv.
        -- apply Hexec; try assumption. rewrite (Hfalse eq_refl). exact Hm.
      * intros p s2 Hx. eapply XP_trans; eassumption.
    + apply wp_bind, wp_ret.
      apply Hexec; [exact HI1 | apply ext_refl | apply touch_below_refl | reflexivity | exact Hm].
  - apply wp_bind, wp_ret.
    apply Hexec; [exact HI1 | apply ext_refl | apply touch_below_refl | reflexivity | exact Hm].
Qed.

(* ---------------------------------------------------------------- fetch *)
Lemma not_valid_of_ne s q m : d_memo s q = Some m -> m_verified m <> cur s -> not_valid_with_value s q.
Proof. intros Hm Hne m0 Hm0 Hv0. congruence. Qed.

Lemma fetch_hot_ok q s :
  Inv s ->
  wp (fetch_hot q)
     (fun hot s' => match hot with
                    | Some mv => got s q mv s'
                    | None => s' = s /\ not_valid_with_value s q
                    end) (XP s) s.
Proof.
  intros HI. unfold fetch_hot. apply wp_bind, wp_get.
  destruct (d_memo s q) as [m|] eqn:Hm.
  - destruct (m_val m) as [v|] eqn:Hv.
    + assert (Hgot : forall u, shallow_verify s m = u -> u <> ShNo ->
                wp (m' <- update_shallow q m u ;; ret (Some (m', v)))
                   (fun hot s' => match hot with
                                  | Some mv => got s q mv s'
                                  | None => s' = s /\ not_valid_with_value s q
                                  end) (XP s) s).
      { intros u Hu Hne. apply wp_bind.
        eapply wp_conseq; [apply (update_shallow_ok q m s u s (ext_refl s) HI Hm Hu Hne) | |intros; assumption].
        intros m' s' (A & B & C & D & Hm' & Hv' & Hval' & _ & _ & HE).
        apply wp_ret. unfold got; cbn [fst snd]. conj; auto; try congruence.
        rewrite HE. apply (mo_val _ _ _ _ _ _ (inv_memo _ _ _ _ HI q m Hm)); exact Hv. }
      destruct (shallow_verify s m) eqn:Hsh.
      * apply Hgot; [reflexivity | discriminate].
      * apply Hgot; [reflexivity | discriminate].
      * apply wp_ret. split; [reflexivity|].
        pose proof (shallow_cases s q m HI Hm) as Hc. rewrite Hsh in Hc.
        eapply not_valid_of_ne; eassumption.
    + apply wp_ret. split; [reflexivity|]. intros m0 Hm0 _. congruence.
  - apply wp_ret. split; [reflexivity|]. intros m0 Hm0. congruence.
Qed.

Lemma fetch_ok L n (HF : fetch_spec L n) (HM : mca_spec L n) :
  forall q s, (rank q <= n)%nat -> Inv s -> stack_ok s q ->
    wp (fetch prog noeq L q) (fetch_post s q) (XP s) s.
Proof.
  intros q s Hn HI Hst. unfold fetch.
  apply wp_bind.
  eapply wp_conseq; [apply (fetch_hot_ok q s HI) | |intros; assumption].
  intros hot s1 Hhot.
  assert (Hfin : forall mv s2, got s q mv s2 ->
            wp (modify (fun s => set_lru s (updN (d_lru s) (fst q) (lru_record_use (d_lru s (fst q)) (snd q)))) ;;;
                ret (memo_qres (fst mv) (snd mv))) (fetch_post s q) (XP s) s2).
  { intros [m v] s2 (A & B & C & D & Hm & Hv & Hval & HE). cbn [fst snd] in *.
    apply wp_bind, wp_modify, wp_ret.
    set (s3 := set_lru s2 _).
    assert (Hce : core_eq s2 s3) by apply core_eq_lru.
    unfold fetch_post, memo_qres; cbn [fst snd].
    split; [apply (Inv_core_eq prog NF H s2); assumption|].
    split; [eapply ext_trans; [exact B | apply ext_of_core_eq; [exact Hce | reflexivity | reflexivity]]|].
    split.
    { eapply touch_below_trans with (k1 := S (rank q)) (k2 := 0%nat);
        [lia | lia | exact C | apply touch_of_core_eq; exact Hce]. }
    split; [exact D|]. split; [exact HE|].
    exists m. conj; auto. }
  apply wp_bind.
  destruct hot as [mv|].
  - apply wp_ret. apply Hfin. exact Hhot.
  - destruct Hhot as [-> Hnv].
    eapply wp_conseq; [apply (fetch_cold_ok L n q s HF HM Hn HI Hst Hnv) | |intros; assumption].
    intros mv s2 Hgot. apply Hfin. exact Hgot.
Qed.

(* ---------------------------------------------------------------- maybe_changed_after *)
Lemma mca_cold_ok L n q since s (HF : fetch_spec L n) (HM : mca_spec L n) :
  (rank q <= n)%nat -> Inv s -> stack_ok s q -> not_valid_with_value s q ->
  wp (mca_cold prog noeq L q since) (mca_post s q since) (XP s) s.
Proof.
  intros Hn HI Hst Hnv. unfold mca_cold.
  apply wp_bind. apply claim_ok; [exact Hst|].
  set (s1 := set_stack s (q :: d_stack s)).
  assert (Hce : core_eq s s1) by apply core_eq_stack.
  assert (HI1 : Inv s1) by (apply (Inv_core_eq prog NF H s); assumption).
  assert (He01 : ext s s1) by apply ext_set_stack.
  assert (Hst1 : forall p, In p (d_stack s1) -> (rank q <= rank p)%nat) by (apply stacked; exact Hst).
  apply wp_bind, wp_get. change (d_memo s1 q) with (d_memo s q).
  (* leaving: release and return b, from a state s2 *)
  assert (Hleave : forall b s2, Inv s2 -> ext s1 s2 -> touch_below s1 s2 (S (rank q)) ->
            d_stack s2 = d_stack s1 ->
            (b = false -> exists m, d_memo s2 q = Some m /\ m_verified m = cur s /\ m_changed m <= since) ->
            wp (release q ;;; ret b) (mca_post s q since) (XP s) s2).
  { intros b s2 HI2 He2 Ht2 Hs2 Hb.
    apply wp_bind. unfold release. apply wp_modify. apply wp_ret.
    unfold mca_post.
    split; [apply (Inv_core_eq prog NF H s2); [apply core_eq_stack | exact HI2]|].
    split; [eapply ext_trans; [exact He01|]; eapply ext_trans; [exact He2 | apply ext_set_stack]|].
    split.
    { eapply touch_below_trans with (k1 := 0%nat) (k2 := S (rank q));
        [lia | lia | apply touch_of_core_eq; exact Hce|].
      eapply touch_below_trans with (k1 := S (rank q)) (k2 := 0%nat);
        [lia | lia | exact Ht2 | apply touch_of_core_eq; apply core_eq_stack]. }
    split; [cbn; rewrite Hs2; reflexivity|]. exact Hb. }
  destruct (d_memo s q) as [old|] eqn:Hm.
  - apply wp_bind.
    eapply wp_conseq; [apply (verify_memo_ok L n q old s1 HM Hn HI1 Hm Hst1) | |].
    + intros [b m'] s2 (HI2 & He2 & Ht2 & Hs2 & Htrue & Hfalse). cbn [fst snd] in *.
      destruct b.
      * destruct (Htrue eq_refl) as (_ & _ & _ & _ & Hm' & Hv' & _ & _ & Hch' & _).
        apply Hleave; try assumption.
        intros Hca. apply changed_after_false in Hca.
        exists m'. conj; auto.
      * specialize (Hfalse eq_refl). change (d_memo s1 q) with (d_memo s q) in Hfalse.
        destruct (m_val old) as [ov|] eqn:Hov.
        -- apply wp_bind.
           pose proof (ext_cur _ _ He2) as Hc2. change (cur s1) with (cur s) in Hc2.
           eapply wp_conseq; [apply (execute_ok L n q s2 (Some old) HF Hn HI2) | |].
           ++ congruence.
           ++ intros m0 A B. injection A as <-. apply Hnv; [exact Hm | congruence].
           ++ rewrite Hs2. exact Hst1.
           ++ intros mnew s3 (HI3 & He3 & Ht3 & Hs3 & Hm3 & Hv3 & _).
              apply Hleave.
              ** exact HI3.
              ** eapply ext_trans; eassumption.
              ** eapply touch_below_trans with (k1 := S (rank q)) (k2 := S (rank q));
                   [lia | lia | exact Ht2 | exact Ht3].
              ** congruence.
              ** intros Hca. apply changed_after_false in Hca.
                 exists mnew. conj; auto. congruence.
           ++ intros p s3 Hx. eapply XP_trans; [eapply ext_trans; [exact He01 | exact He2] | exact Hx].
        -- apply Hleave; try assumption. discriminate.
    + intros p s2 Hx. eapply XP_trans; eassumption.
  - apply Hleave; [exact HI1 | apply ext_refl | apply touch_below_refl | reflexivity | discriminate].
Qed.

Lemma mca_ok L n (HF : fetch_spec L n) (HM : mca_spec L n) :
  forall q since s, (rank q <= n)%nat -> Inv s -> stack_ok s q ->
    wp (mca prog noeq L q since) (mca_post s q since) (XP s) s.
Proof.
  intros q since s Hn HI Hst. unfold mca.
  apply wp_bind, wp_get.
  destruct (d_memo s q) as [m|] eqn:Hm.
  - assert (Hgot : forall u, shallow_verify s m = u -> u <> ShNo ->
              wp (m' <- update_shallow q m u ;; ret (changed_after (m_changed m') since))
                 (mca_post s q since) (XP s) s).
    { intros u Hu Hne. apply wp_bind.
      eapply wp_conseq; [apply (update_shallow_ok q m s u s (ext_refl s) HI Hm Hu Hne) | |intros; assumption].
      intros m' s' (A & B & C & D & Hm' & Hv' & _ & _ & Hch' & _).
      apply wp_ret. unfold mca_post. conj; auto.
      intros Hca. apply changed_after_false in Hca. exists m'. conj; auto. }
    destruct (shallow_verify s m) eqn:Hsh.
    + apply Hgot; [reflexivity | discriminate].
    + apply Hgot; [reflexivity | discriminate].
    + apply (mca_cold_ok L n q since s HF HM Hn HI Hst).
      pose proof (shallow_cases s q m HI Hm) as Hc. rewrite Hsh in Hc.
      eapply not_valid_of_ne; eassumption.
  - apply wp_ret. unfold mca_post.
    split; [exact HI|]. split; [apply ext_refl|]. split; [apply touch_below_refl|].
    split; [reflexivity | discriminate].
Qed.

(* ---------------------------------------------------------------- tying the knot *)
Theorem level_ok : forall n,
  fetch_spec (level prog noeq n) n /\ mca_spec (level prog noeq n) n.
Proof.
  induction n as [|n [IHF IHM]].
  - split; intros q; intros; lia.
  - split.
    + intros q s Hq HI Hst. cbn [level l_fetch].
      apply (fetch_ok (level prog noeq n) n IHF IHM q s); [lia | exact HI | exact Hst].
    + intros q since s Hq HI Hst. cbn [level l_mca].
      apply (mca_ok (level prog noeq n) n IHF IHM q since s); [lia | exact HI | exact Hst].
Qed.

End Ops.

(* Core/DPartExamples.v — non-vacuity of the from-scratch theorem for possibly-cyclic programs
   (Core/DPartTop.v): the program of Core/DCycleExamples.v (cyclic while an input bit is set) and
   its whole history — cycle panics, a write that clears the bit, Gets of the formerly cyclic
   nodes, a write that sets it again — satisfy the hypotheses, hence the conclusion. *)
From Coq Require Import Lia.
From Salsa Require Import Base.
From Salsa.Kern Require Import CoreK.
From Salsa.Core Require Import Model Spec InvTop DInvTop DCycleExamples DPartOps DPartTop.

Lemma cy_idur_le : forall i, cy_idur i <= 3.
Proof. intros i. unfold cy_idur, D_LOW. lia. Qed.

Lemma cy_dur_ops : Forall dur_op cy_ops.
Proof. repeat constructor. Qed.

Lemma cy_listed : Forall (op_listed cy_ns) cy_ops.
Proof. unfold cy_ops, cy_ns. repeat (apply Forall_cons; [cbn [op_listed In]; auto 6 |]). apply Forall_nil. Qed.

Lemma cy_wf : wf_ops false cy_ops.
Proof. cbn. repeat split. Qed.

(* by the theorem, for every sufficient fuel *)
Example cy_part : forall fuel, (3 <= fuel)%nat ->
  outs_part cy_prog cy_noeq [] 3 fuel cy_init cy_ops.
Proof.
  intros fuel Hf.
  exact (from_scratch_part_init cy_prog cy_noeq [] cy_ns cy_closed 3 (le_n 3) fuel Hf
           cy_iv cy_idur cy_lru cy_ops cy_idur_le cy_dur_ops cy_listed cy_wf).
Qed.

(* what it says about the Get after the write that cleared the bit: no fault switch is on and the
   from-scratch evaluation at that snapshot is acyclic with value 8, so the Get returns 8 *)
Example cy_part_after_write :
  let s := fst (run_ops cy_prog cy_noeq [] 3 cy_init (firstn 4 cy_ops)) in
  get_ok_part cy_prog 3 s cy_b (Ok 8) /\ ~ get_ok_part cy_prog 3 s cy_b (Panic PCycle) /\
  evalo cy_prog 3 (snap_of s) cy_b = Some 8.
Proof.
  vm_compute. split; [right; reflexivity |]. split; [| reflexivity].
  intros [[A _] | A]; discriminate.
Qed.

(* Core/DPartOps.v — Core/DInvOps.v redone for programs that may be cyclic: every level function
   preserves [DInv] and [PM], returns the from-scratch value when it returns, and unwinds with
   the cycle error only when the from-scratch evaluation at the current revision is blocked by
   the open calls (exceptional postcondition).  The rank discipline is replaced by the claim
   stack: fuel is bounded by the number of listed keys not yet claimed, and a nested computation
   leaves the valued memos of claimed keys alone. *)
From Coq Require Import Lia.
From Salsa Require Import Base.
From Salsa.Kern Require Import CoreK CoreKFacts.
From Salsa.Core Require Import Model Spec SpecProofs Wp Inv InvFrame InvSem DurSem DInv DInvSem DInvOps.
From Salsa.Core Require Import DCycleSem DCycleInv DCycleBound DPartSem DPartInvSem.

Section Ops.
Variable prog : qkey -> body.
Variable noeq : qkey -> bool.
Variable ns : list qkey.
Hypothesis Hclosed : forall q d, In q ns -> calls (prog q) d -> In d ns.
Variable NF : nat.
Hypothesis HNF : (length ns <= NF)%nat.
Variable H : hist.
Variable D : dhist.
Notation E := (E prog NF H).
Notation tr := (tr prog NF H).
Notation envat := (envat prog NF H).
Notation durge := (durge prog NF H D).
Notation clos := (clos prog NF H).
Notation dmemo_ok := (dmemo_ok prog NF H D).
Notation DInv := (DInv prog NF H D).
Notation PM := (PM prog ns NF H D).
Notation pmemo := (pmemo prog ns NF H D).
Notation ac := (ac prog H).
Notation covers := (DInvSem.covers).
Notation cord := (DPartInvSem.cord).
Notation blk := (fun (c : rev) st q => qblk prog (H c) st q).

Ltac conj := repeat match goal with |- _ /\ _ => split end.

Definition PInv (s : db) : Prop := DInv s /\ PM s.

Lemma PInv_core_eq s s' : dcore_eq s s' -> PInv s -> PInv s'.
Proof.
  intros Hc [HI HP]. split; [apply (DInv_core_eq prog NF H D s); assumption |].
  destruct Hc as (_ & _ & _ & Hm). exact (PM_memo_eq prog ns NF H D s s' Hm HP).
Qed.

(* ---------------------------------------------------------------- the stack frame *)
(* a memo is pinned while its key is claimed if it has a value or fails the shallow check: then
   no fast path can move it, and the slow paths are refused by the claim *)
Definition pin (s : db) (m : memo) : Prop := m_val m <> None \/ shallow_verify s m = ShNo.
Definition pinned (s : db) (p : qkey) : Prop := exists m, d_memo s p = Some m /\ pin s m.

Lemma pin_revs s s' m : d_revs s' = d_revs s -> pin s m -> pin s' m.
Proof. intros Hr [A | A]; [left; exact A | right]. unfold shallow_verify, cur in *. rewrite Hr. exact A. Qed.

Definition stf (st : list qkey) (s s' : db) : Prop :=
  d_revs s' = d_revs s /\
  forall p, In p st -> (pinned s p -> d_memo s' p = d_memo s p) /\ (~ pinned s p -> ~ pinned s' p).

Lemma stf_refl st s : stf st s s.
Proof. split; [reflexivity |]. intros p _. split; auto. Qed.

Lemma pinned_eq s s' p : d_revs s' = d_revs s -> d_memo s' p = d_memo s p -> pinned s p -> pinned s' p.
Proof. intros Hr Hm (m & A & B). exists m. split; [congruence | apply (pin_revs s s' m Hr B)]. Qed.

Lemma stf_memo_eq st s s' : d_revs s' = d_revs s -> d_memo s' = d_memo s -> stf st s s'.
Proof.
  intros Hr Hm. split; [exact Hr |]. intros p _. split; [intros _; now rewrite Hm |].
  intros Hn Hp. apply Hn. apply (pinned_eq s' s p); [congruence | now rewrite Hm | exact Hp].
Qed.

Lemma stf_trans st s1 s2 s3 : stf st s1 s2 -> stf st s2 s3 -> stf st s1 s3.
Proof.
  intros [Ar A] [Br B]. split; [congruence |]. intros p Hp.
  destruct (A p Hp) as [A1 A2], (B p Hp) as [B1 B2]. split.
  - intros Hv. rewrite <- (A1 Hv). apply B1. apply (pinned_eq s1 s2 p Ar (A1 Hv) Hv).
  - intros Hn. apply B2, A2, Hn.
Qed.

Lemma stf_sub st st' s s' : incl st st' -> stf st' s s' -> stf st s s'.
Proof. intros Hi [Ar A]. split; [exact Ar |]. intros p Hp. apply A, Hi, Hp. Qed.

Lemma stf_upd st s s' q m m' :
  d_revs s' = d_revs s ->
  d_memo s q = Some m -> d_memo s' = upd (d_memo s) q (Some m') ->
  (In q st -> ~ pin s m /\ ~ pin s' m') -> stf st s s'.
Proof.
  intros Hr Hm Hs' Hq. split; [exact Hr |]. intros p Hp.
  destruct (key_eqb_spec q p) as [<- | Hne].
  - destruct (Hq Hp) as [N1 N2]. split.
    + intros (m0 & A & B). rewrite Hm in A. injection A as <-. contradiction.
    + intros _ (m0 & A & B). rewrite Hs', upd_same in A. injection A as <-. contradiction.
  - assert (Hmp : d_memo s' p = d_memo s p) by (rewrite Hs'; apply upd_other; exact Hne).
    split; [intros _; exact Hmp |].
    intros Hn Hpp. apply Hn. apply (pinned_eq s' s p); [congruence | congruence | exact Hpp].
Qed.

Lemma stf_upd_out st s s' q m' :
  d_revs s' = d_revs s -> ~ In q st -> d_memo s' = upd (d_memo s) q (Some m') -> stf st s s'.
Proof.
  intros Hr Hq Hs'. split; [exact Hr |]. intros p Hp.
  destruct (key_eqb_spec q p) as [<- | Hne]; [contradiction |].
  assert (Hmp : d_memo s' p = d_memo s p) by (rewrite Hs'; apply upd_other; exact Hne).
  split; [intros _; exact Hmp |].
  intros Hn Hpp. apply Hn. apply (pinned_eq s' s p); [congruence | congruence | exact Hpp].
Qed.

(* claimed keys with a valued memo failed the shallow check when they were claimed *)
Definition SM (st : list qkey) (s : db) : Prop :=
  forall p m, In p st -> d_memo s p = Some m -> m_val m <> None -> shallow_verify s m = ShNo.

Lemma SM_stf st s s' : stf st s s' -> SM st s -> SM st s'.
Proof.
  intros [Hr Hf] HS p m Hp Hm Hv. destruct (Hf p Hp) as [A B].
  assert (Hpin' : pinned s' p) by (exists m; split; [exact Hm | left; exact Hv]).
  assert (Hpin : pinned s p).
  { destruct (d_memo s p) as [m0 |] eqn:E0.
    - destruct (m_val m0) as [v0 |] eqn:Ev0; [exists m0; split; [exact E0 | left; congruence] |].
      destruct (shallow_verify s m0) eqn:Esh; [| | exists m0; split; [exact E0 | right; exact Esh]];
        (exfalso; apply B; [| exact Hpin']; intros (m1 & A1 & [B1 | B1]); rewrite E0 in A1; injection A1 as <-; congruence).
    - exfalso. apply B; [| exact Hpin']. intros (m1 & A1 & _). congruence. }
  rewrite (A Hpin) in Hm. specialize (HS p m Hp Hm Hv).
  unfold shallow_verify, cur in *. rewrite Hr. exact HS.
Qed.

Definition ctx (st : list qkey) (s : db) : Prop :=
  d_stack s = st /\ NoDup st /\ incl st ns /\ SM st s.

(* ---------------------------------------------------------------- exceptional postcondition *)
Definition XPc (s0 : db) (B : Prop) : panic -> db -> Prop :=
  fun p s' => (dallowed s0 p \/ (p = PCycle /\ B)) /\ PInv s' /\ dext s0 s'.

Lemma XPc_trans s0 s1 B p s' : dext s0 s1 -> XPc s1 B p s' -> XPc s0 B p s'.
Proof.
  intros He (Ha & HI & He'). split.
  - destruct Ha as [Ha | Ha]; [left | right; exact Ha].
    apply (dallowed_ext s0 s1); [apply (ext_pcell _ _ He) | apply (ext_evfault _ _ He) | exact Ha].
  - split; [exact HI |]. eapply dext_trans; eassumption.
Qed.

Lemma XPc_weaken s0 (B B' : Prop) p s' : (B -> B') -> XPc s0 B p s' -> XPc s0 B' p s'.
Proof.
  intros HB (Ha & HI & He). split; [| split; assumption].
  destruct Ha as [Ha | (Hp & Hb)]; [left; exact Ha | right; split; auto].
Qed.

Lemma emit_ok' e s s0 B (Q : unit -> db -> Prop) :
  PInv s -> dext s0 s ->
  (forall s1, dcore_eq s s1 -> PInv s1 -> dext s s1 -> d_stack s1 = d_stack s -> Q tt s1) ->
  wp (emit e) Q (XPc s0 B) s.
Proof.
  intros HI He HQ. apply wp_emit.
  - intros s1 Hr Hi Hc Hp Hm Hs Hst Hl Hev Hlog.
    assert (Hce : dcore_eq s s1) by (repeat split; assumption).
    apply HQ; try assumption.
    + apply (PInv_core_eq s); assumption.
    + apply dext_of_core_eq'; assumption.
  - intros Hne.
    assert (Hce : dcore_eq s (set_evfault s None)) by (repeat split).
    split.
    + left. split; [reflexivity|]. right. intros H0. apply Hne. apply (ext_evfault _ _ He). exact H0.
    + split; [apply (PInv_core_eq s); assumption|].
      eapply dext_trans; [exact He|]. apply dext_of_core_eq'; [exact Hce | reflexivity | reflexivity].
Qed.

(* ---------------------------------------------------------------- mark_verified *)
Lemma mark_verified_ok' q m s s0 B :
  dext s0 s -> PInv s -> d_memo s q = Some m ->
  (forall s1, dcore_eq s s1 -> PInv s1 ->
     DInv (store s1 q (reverify m (cur s))) /\ PM (store s1 q (reverify m (cur s))) /\
     dext s1 (store s1 q (reverify m (cur s))) /\ E (cur s) q = E (m_verified m) q) ->
  wp (mark_verified q m)
     (fun m' s' => m' = reverify m (cur s) /\ PInv s' /\ dext s s' /\ d_stack s' = d_stack s /\
                   d_memo s' = upd (d_memo s) q (Some m') /\ E (cur s) q = E (m_verified m) q)
     (XPc s0 B) s.
Proof.
  intros He0 HI Hm Hjust. unfold mark_verified.
  apply wp_bind, wp_get. apply wp_bind. apply (emit_ok' _ s s0); [exact HI | exact He0|].
  intros s1 Hce HI1 He01 Hst1.
  apply wp_bind. unfold set_memo_at. apply wp_modify. apply wp_ret.
  set (m' := {| m_val := m_val m; m_verified := cur s; m_changed := m_changed m; m_dur := m_dur m;
               m_untracked := m_untracked m; m_edges := m_edges m |}).
  change (set_seen _ _) with (store s1 q m').
  destruct (Hjust s1 Hce HI1) as (HI2 & HP2 & Hext & HE).
  change (reverify m (cur s)) with m' in HI2, HP2, Hext.
  split; [reflexivity|]. split; [exact (conj HI2 HP2)|]. split.
  { eapply dext_trans; [exact He01 | exact Hext]. }
  split; [cbn; exact Hst1|]. split; [|exact HE].
  unfold store; cbn. destruct Hce as (_ & _ & _ & Hmm). rewrite Hmm. reflexivity.
Qed.

Definition verified_now' (s0 : db) (q : qkey) (m : memo) (m' : memo) (s' : db) : Prop :=
  PInv s' /\ dext s0 s' /\ d_stack s' = d_stack s0 /\
  (d_memo s' = d_memo s0 \/ d_memo s' = upd (d_memo s0) q (Some m')) /\
  d_memo s' q = Some m' /\ m_verified m' = cur s0 /\ m_val m' = m_val m /\
  m_dur m' = m_dur m /\ m_changed m' = m_changed m /\ E (cur s0) q = E (m_verified m) q.

Lemma update_shallow_ok' q m s u s0 B :
  dext s0 s -> PInv s -> d_memo s q = Some m -> shallow_verify s m = u -> u <> ShNo ->
  wp (update_shallow q m u) (fun m' s' => verified_now' s q m m' s') (XPc s0 B) s.
Proof.
  intros He0 HI Hm Hu Hne.
  pose proof (shallow_cases s m) as Hc. rewrite Hu in Hc.
  destruct u; [| |contradiction]; cbn [update_shallow].
  - apply wp_ret. unfold verified_now'. rewrite Hc.
    split; [exact HI|]. split; [apply dext_refl|]. conj; auto.
  - destruct Hc as [_ Hlc].
    assert (Hjust : forall s1, dcore_eq s s1 -> PInv s1 ->
              DInv (store s1 q (reverify m (cur s))) /\ PM (store s1 q (reverify m (cur s))) /\
              dext s1 (store s1 q (reverify m (cur s))) /\ E (cur s) q = E (m_verified m) q).
    { intros s1 Hce [HI1 HP1]. pose proof (dcore_eq_cur _ _ Hce) as Hc1.
      destruct Hce as (Hr & _ & _ & Hmm).
      rewrite <- Hc1.
      apply (shortcut_ok prog ns Hclosed NF HNF H D s1 q m HI1 HP1).
      - rewrite Hmm. exact Hm.
      - unfold lcs in *. rewrite Hr. exact Hlc. }
    pose proof (mark_verified_ok' q m s s0 B He0 HI Hm Hjust) as Hmv.
    eapply wp_conseq; [exact Hmv | | intros; assumption].
    intros m' s' (-> & HI' & Hext & Hst & Hm' & HE).
    unfold verified_now'. conj; auto. rewrite Hm'. apply upd_same.
Qed.

(* ---------------------------------------------------------------- specifications of a level *)
Definition fetch_post (s0 : db) (q : qkey) (r : qres) (s' : db) : Prop :=
  PInv s' /\ dext s0 s' /\ stf (d_stack s0) s0 s' /\ d_stack s' = d_stack s0 /\
  fst (fst r) = E (cur s0) q /\
  exists m, d_memo s' q = Some m /\ m_verified m = cur s0 /\ m_val m = Some (fst (fst r)) /\
            m_dur m = snd (fst r) /\ m_changed m = snd r.

Definition fetch_spec (L : lower) (n : nat) : Prop :=
  forall q s st, In q ns -> PInv s -> ctx st s -> (length ns < n + length st)%nat ->
    wp (l_fetch L q) (fetch_post s q) (XPc s (blk (cur s) st q)) s.

Definition mca_post (s0 : db) (q : qkey) (since : rev) (b : bool) (s' : db) : Prop :=
  PInv s' /\ dext s0 s' /\ stf (d_stack s0) s0 s' /\ d_stack s' = d_stack s0 /\
  (b = false -> exists m, d_memo s' q = Some m /\ m_verified m = cur s0 /\ m_changed m <= since).

Definition mca_spec (L : lower) (n : nat) : Prop :=
  forall q since s st, In q ns -> PInv s -> ctx st s -> (length ns < n + length st)%nat ->
    wp (l_mca L q since) (mca_post s q since) (XPc s (blk (cur s) st q)) s.

Lemma ctx_next st s s' : ctx st s -> dext s s' -> stf st s s' -> d_stack s' = d_stack s -> ctx st s'.
Proof.
  intros (A & B & C & D0) He Hf Hs. split; [congruence |]. split; [exact B |]. split; [exact C |].
  apply (SM_stf st s s' Hf D0).
Qed.

Lemma pinned_keep st s s' q m : stf st s s' -> In q st -> d_memo s q = Some m -> pin s m ->
  d_memo s' q = Some m /\ pin s' m.
Proof.
  intros [Hr Hf] Hq Hm Hv. destruct (Hf q Hq) as [A _]. split.
  - rewrite A; [exact Hm |]. exists m. split; assumption.
  - apply (pin_revs s s' m Hr Hv).
Qed.

(* ---------------------------------------------------------------- a blocked edge blocks the walker *)
Definition wfact (s : db) (v : rev) (e : edge) : Prop :=
  match e with
  | EIn i => f_changed (d_in s i) <= v
  | EQ d => E v d = E (cur s) d
  end.

Lemma wfact_ext s s' v e : dext s s' -> wfact s v e -> wfact s' v e.
Proof.
  intros He. destruct e as [i | d]; cbn.
  - rewrite (ext_in _ _ He). auto.
  - rewrite (dext_cur _ _ He). auto.
Qed.

Lemma walk_blocked s q m st epre d epost :
  PInv s -> d_memo s q = Some m -> m_untracked m = false ->
  m_edges m = epre ++ EQ d :: epost ->
  (forall e, In e epre -> wfact s (m_verified m) e) ->
  blk (cur s) (q :: st) d -> ~ In q st -> blk (cur s) st q.
Proof.
  intros [HI HP] Hm Hu Hes Hpre Hb Hnq.
  pose proof (inv_memo _ _ _ _ _ HI q m Hm) as Hok.
  destruct (HP q m Hm) as (Hqn & Hacv & Hord).
  pose proof (mo_order _ _ _ _ _ _ _ Hok) as (Ho1 & Ho2 & Ho3).
  pose proof (stable_never prog NF H D s (m_verified m) HI Ho1) as Hw3.
  destruct (Hord epre d epost Hes) as (tpre & tpost & Ht & Hi & Hq).
  assert (Hsub : forall x, In x tpre -> In x (tr (m_verified m) q)).
  { intros x Hx. rewrite Ht. apply in_or_app. left; exact Hx. }
  assert (Hag : agree_on (envat (m_verified m)) (envat (cur s)) tpre).
  { intros x Hx. destruct x as [i | e | c |]; cbn.
    - destruct (Hi i Hx) as [He | H3].
      + pose proof (Hpre _ He) as Hle. cbn in Hle.
        rewrite (inv_in _ _ _ _ _ HI i (m_verified m) Hle Ho3).
        symmetry. apply (inv_in _ _ _ _ _ HI i (cur s)); [apply (inv_in_le _ _ _ _ _ HI) | lia].
      + symmetry. apply (Hw3 i); [lia | exact Ho3 | lia].
    - destruct (Hq e Hx) as [He | H3].
      + exact (Hpre _ He).
      + destruct (tr_ac prog ns Hclosed NF HNF H _ q e Hqn Hacv (Hsub _ Hx)) as (Hae & Hen & _).
        symmetry. apply (never_now prog ns Hclosed NF HNF H D s (m_verified m) e HI Ho1 Ho3 H3 Hen Hae).
    - rewrite (mo_reads_cell _ _ _ _ _ _ _ Hok (RCell c) (Hsub _ Hx)) in Hu; [discriminate | right; eauto].
    - reflexivity. }
  destruct (trace_prefix_determined (prog q) _ _ tpre (RQ d) tpost Ht Hag) as (post' & Ht').
  apply (blk_of_prefix prog ns Hclosed NF HNF H (cur s) q st tpre d post' Hqn Ht' Hb).
  apply notin_existsb. exact Hnq.
Qed.

(* ---------------------------------------------------------------- deep verification *)
Lemma walk_edges_ok' L n q m st (HM : mca_spec L n) : forall es epre s,
  PInv s -> d_memo s q = Some m -> pin s m -> m_untracked m = false ->
  m_edges m = epre ++ es -> (forall e, In e epre -> wfact s (m_verified m) e) ->
  ctx (q :: st) s -> (length ns < n + length (q :: st))%nat ->
  wp (walk_edges L es (m_verified m))
     (fun b s' => PInv s' /\ dext s s' /\ stf (q :: st) s s' /\ d_stack s' = d_stack s /\
        (b = false -> forall e, In e es ->
           match e with
           | EIn i => f_changed (d_in s i) <= m_verified m
           | EQ d => E (m_verified m) d = E (cur s) d /\ durge (cur s) (m_dur m) d /\
                     exists md, d_memo s' d = Some md /\ m_verified md = cur s /\ m_dur m <= m_dur md
           end)) (XPc s (blk (cur s) st q)) s.
Proof.
  induction es as [|e es IH]; intros epre s HI Hm Hval Hu Hes Hpre Hctx Hfuel; cbn [walk_edges].
  - apply wp_ret. split; [exact HI|]. split; [apply dext_refl|]. split; [apply stf_refl|].
    split; [reflexivity|]. intros _ e [].
  - assert (Hes' : m_edges m = (epre ++ [e]) ++ es) by (rewrite <- app_assoc; exact Hes).
    destruct e as [i | d].
    + apply wp_bind, wp_get.
      destruct (changed_after (f_changed (d_in s i)) (m_verified m)) eqn:Hca.
      * apply wp_ret. split; [exact HI|]. split; [apply dext_refl|]. split; [apply stf_refl|].
        split; [reflexivity|]. discriminate.
      * apply changed_after_false in Hca.
        eapply wp_conseq; [apply (IH (epre ++ [EIn i]) s HI Hm Hval Hu Hes') | |intros; assumption].
        -- intros e He. apply in_app_or in He. destruct He as [He | [<- | []]]; [apply Hpre; exact He | exact Hca].
        -- exact Hctx.
        -- exact Hfuel.
        -- intros b s' (HI' & He & Ht & Hs & Hb). conj; auto.
           intros Hbf e [<- | He']; [exact Hca | apply Hb; assumption].
    + destruct HI as [HI0 HP0].
      pose proof (inv_memo _ _ _ _ _ HI0 q m Hm) as Hok0.
      destruct (HP0 q m Hm) as (Hqn & Hacv & _).
      assert (Hed : In (EQ d) (m_edges m)) by (rewrite Hes; apply in_or_app; right; left; reflexivity).
      pose proof (mo_edges_q _ _ _ _ _ _ _ Hok0 d Hed) as Hind.
      destruct (tr_ac prog ns Hclosed NF HNF H _ q d Hqn Hacv Hind) as (_ & Hdn & _).
      destruct Hctx as (Hst & Hnd & Hin & Hsm).
      assert (Hnq : ~ In q st) by (inversion Hnd; assumption).
      apply wp_bind.
      eapply wp_conseq; [apply (HM d (m_verified m) s (q :: st) Hdn (conj HI0 HP0)) | |].
      { split; [exact Hst |]. split; [exact Hnd |]. split; assumption. }
      { exact Hfuel. }
      2:{ intros p s1 Hx. eapply XPc_weaken; [| exact Hx]. intros Hb.
          apply (walk_blocked s q m st epre d es (conj HI0 HP0) Hm Hu Hes Hpre Hb Hnq). }
      intros c s1 (HI1 & He1 & Ht1 & Hs1 & Hc). rewrite Hst in Ht1.
      pose proof (dext_cur _ _ He1) as Hcur1.
      destruct (pinned_keep (q :: st) s s1 q m Ht1 (or_introl eq_refl) Hm Hval) as [Hm1 Hval1].
      destruct c.
      * apply wp_ret. split; [exact HI1|]. split; [exact He1|]. split; [exact Ht1 |].
        split; [exact Hs1|]. discriminate.
      * destruct (Hc eq_refl) as (md & Hmd & Hvd & Hcd).
        destruct HI1 as [HI1 HP1].
        pose proof (inv_memo _ _ _ _ _ HI1 q m Hm1) as Hok.
        pose proof (inv_memo _ _ _ _ _ HI1 d md Hmd) as Hokd.
        destruct (mo_obs _ _ _ _ _ _ _ Hok d (clos_one _ _ _ _ _ _ Hind)) as (md0 & Hmd0 & Hobs).
        rewrite Hmd in Hmd0. injection Hmd0 as <-.
        destruct Hobs as [HEd Hdd]; [left; exact Hcd|].
        rewrite Hvd in HEd.
        assert (Hdgd : durge (cur s) (m_dur m) d).
        { eapply durge_mono; [exact Hdd|]. rewrite <- Hvd. apply (mo_durge _ _ _ _ _ _ _ Hokd). }
        assert (Hctx1 : ctx (q :: st) s1).
        { apply (ctx_next (q :: st) s s1); [| exact He1 | exact Ht1 | exact Hs1].
          split; [exact Hst |]. split; [exact Hnd |]. split; assumption. }
        eapply wp_conseq; [apply (IH (epre ++ [EQ d]) s1 (conj HI1 HP1) Hm1 Hval1 Hu Hes') | |].
        -- intros e He. apply in_app_or in He. destruct He as [He | [<- | []]].
           ++ apply (wfact_ext s s1 _ _ He1). apply Hpre; exact He.
           ++ cbn. rewrite Hcur1. exact HEd.
        -- exact Hctx1.
        -- exact Hfuel.
        -- intros b s' (HI' & He & Ht & Hs & Hb).
           split; [exact HI'|]. split; [eapply dext_trans; eassumption|]. split.
           { eapply stf_trans; eassumption. }
           split; [congruence|].
           intros Hbf e [<- | He'].
           ++ split; [exact HEd|]. split; [exact Hdgd|].
              destruct (ext_vcur _ _ He d md Hmd) as (md' & Hmd' & Hvd' & Hdd'); [congruence|].
              exists md'. split; [exact Hmd'|]. split; [congruence | lia].
           ++ specialize (Hb Hbf e He'). destruct e as [i | d'].
              ** rewrite (ext_in _ _ He1) in Hb. exact Hb.
              ** rewrite Hcur1 in Hb. exact Hb.
        -- intros p s' Hx. rewrite Hcur1 in Hx. eapply XPc_trans; eassumption.
Qed.

Definition verify_post' (st : list qkey) (s0 : db) (q : qkey) (m : memo) (r : bool * memo) (s' : db) : Prop :=
  PInv s' /\ dext s0 s' /\ stf st s0 s' /\ d_stack s' = d_stack s0 /\
  (fst r = true -> d_memo s' q = Some (snd r) /\ m_verified (snd r) = cur s0 /\
                   m_val (snd r) = m_val m /\ m_dur (snd r) = m_dur m /\
                   m_changed (snd r) = m_changed m /\ E (cur s0) q = E (m_verified m) q) /\
  (fst r = false -> d_memo s' q = Some m).

Lemma stf_after_upd st s s' q m' : dext s s' -> ~ In q st ->
  (d_memo s' = d_memo s \/ d_memo s' = upd (d_memo s) q (Some m')) -> stf st s s'.
Proof.
  intros He Hq [Hm | Hm].
  - apply stf_memo_eq; [apply (ext_revs _ _ He) | exact Hm].
  - apply (stf_upd_out st s s' q m' (ext_revs _ _ He) Hq Hm).
Qed.

Lemma deep_verify_ok' L n q m st s (HM : mca_spec L n) :
  PInv s -> d_memo s q = Some m -> pin s m -> ctx (q :: st) s ->
  (length ns < n + length (q :: st))%nat ->
  wp (deep_verify L q m) (verify_post' st s q m) (XPc s (blk (cur s) st q)) s.
Proof.
  intros HI Hm Hpin Hctx Hfuel. unfold deep_verify.
  assert (Hnq : ~ In q st) by (destruct Hctx as (_ & Hnd & _); inversion Hnd; assumption).
  assert (Hsub : incl st (q :: st)) by (intros x Hx; right; exact Hx).
  destruct (m_untracked m) eqn:Hu.
  - apply wp_ret. unfold verify_post'; cbn [fst snd].
    split; [exact HI|]. split; [apply dext_refl|]. split; [apply stf_refl|].
    split; [reflexivity|]. split; [discriminate | intros _; exact Hm].
  - apply wp_bind.
    eapply wp_conseq; [apply (walk_edges_ok' L n q m st HM (m_edges m) [] s HI Hm Hpin Hu eq_refl) | |intros; assumption].
    { intros e []. }
    { exact Hctx. }
    { exact Hfuel. }
    intros c s1 (HI1 & He1 & Ht1 & Hs1 & Hc).
    pose proof (dext_cur _ _ He1) as Hcur1.
    destruct (pinned_keep (q :: st) s s1 q m Ht1 (or_introl eq_refl) Hm Hpin) as [Hm1 _].
    destruct c.
    + apply wp_ret. unfold verify_post'; cbn [fst snd].
      split; [exact HI1|]. split; [exact He1|]. split; [apply (stf_sub st (q :: st) s s1 Hsub Ht1) |].
      split; [exact Hs1|]. split; [discriminate|]. intros _. exact Hm1.
    + specialize (Hc eq_refl).
      apply wp_bind.
      assert (Hjust : forall s2, dcore_eq s1 s2 -> PInv s2 ->
                DInv (store s2 q (reverify m (cur s1))) /\ PM (store s2 q (reverify m (cur s1))) /\
                dext s2 (store s2 q (reverify m (cur s1))) /\ E (cur s1) q = E (m_verified m) q).
      { intros s2 Hce [HI2 HP2]. pose proof (dcore_eq_cur _ _ Hce) as Hc2.
        destruct Hce as (Hr2 & Hi2 & _ & Hmm2).
        rewrite <- Hc2.
        apply (deep_ok prog ns Hclosed NF HNF H D s2 q m HI2 HP2); [rewrite Hmm2; exact Hm1 | exact Hu|].
        intros e He. specialize (Hc e He). destruct e as [i | d].
        - rewrite Hi2, (ext_in _ _ He1). exact Hc.
        - rewrite Hc2, Hcur1, Hmm2. exact Hc. }
      eapply wp_conseq; [apply (mark_verified_ok' q m s1 s (blk (cur s) st q) He1 HI1 Hm1 Hjust) | |intros; assumption].
      intros m' s2 (-> & HI2 & He2 & Hs2 & Hm2 & HE).
      apply wp_ret. unfold verify_post'; cbn [fst snd].
      split; [exact HI2|]. split; [eapply dext_trans; eassumption|]. split.
      { eapply stf_trans; [apply (stf_sub st (q :: st) s s1 Hsub Ht1) |].
        apply (stf_upd_out st s1 s2 q _ (ext_revs _ _ He2) Hnq Hm2). }
      split; [congruence|]. split; [|discriminate].
      intros _. rewrite Hcur1 in *. conj; auto. rewrite Hm2. apply upd_same.
Qed.

Lemma verify_memo_ok' L n q m st s (HM : mca_spec L n) :
  PInv s -> d_memo s q = Some m -> pin s m -> ctx (q :: st) s ->
  (length ns < n + length (q :: st))%nat ->
  wp (verify_memo L q m) (verify_post' st s q m) (XPc s (blk (cur s) st q)) s.
Proof.
  intros HI Hm Hpin Hctx Hfuel. unfold verify_memo.
  assert (Hnq : ~ In q st) by (destruct Hctx as (_ & Hnd & _); inversion Hnd; assumption).
  apply wp_bind, wp_get.
  assert (Hsh : forall u, shallow_verify s m = u -> u <> ShNo ->
            wp (m' <- update_shallow q m u ;; ret (true, m')) (verify_post' st s q m) (XPc s (blk (cur s) st q)) s).
  { intros u Hu Hne. apply wp_bind.
    eapply wp_conseq; [apply (update_shallow_ok' q m s u s (blk (cur s) st q) (dext_refl s) HI Hm Hu Hne) | |intros; assumption].
    intros m' s' (A & B & C & D0 & E0 & F & G & I0 & J & K). apply wp_ret. unfold verify_post'; cbn [fst snd].
    split; [exact A |]. split; [exact B |]. split; [apply (stf_after_upd st s s' q m' B Hnq D0) |].
    split; [exact C |]. split; [intros _; conj; auto | discriminate]. }
  destruct (shallow_verify s m) eqn:Hshv.
  - apply Hsh; [reflexivity | discriminate].
  - apply Hsh; [reflexivity | discriminate].
  - apply (deep_verify_ok' L n q m st s HM HI Hm Hpin Hctx Hfuel).
Qed.

(* ---------------------------------------------------------------- running a body *)
Lemma run_body_ok' L n q c0 st (HF : fetch_spec L n) : forall b pre fr s,
  cur s = c0 -> In q ns ->
  tr c0 q = pre ++ trace (envat c0) b ->
  (forall d, calls b d -> In d ns) ->
  PInv s -> covers s pre fr -> cord s pre fr -> ctx (q :: st) s ->
  (length ns < n + length (q :: st))%nat ->
  wp (run_body L b fr)
     (fun r s' => PInv s' /\ dext s s' /\ stf (q :: st) s s' /\ d_stack s' = d_stack s /\
                  fst r = run (envat c0) b /\ covers s' (tr c0 q) (snd r) /\ cord s' (tr c0 q) (snd r))
     (XPc s (blk c0 st q)) s.
Proof.
  induction b as [v | i k IH | d k IH | c k IH | k IH | pc k IH];
    intros pre fr s Hc Hqn Htr Hcalls HI Hcv Hco Hctx Hfuel; cbn [run_body].
  - (* Ret *)
    apply wp_ret. cbn [trace run] in *. rewrite app_nil_r in Htr.
    split; [exact HI|]. split; [apply dext_refl|]. split; [apply stf_refl|].
    split; [reflexivity|]. cbn [fst snd]. split; [reflexivity|]. rewrite Htr. split; assumption.
  - (* RdIn *)
    apply wp_bind, wp_get. destruct HI as [HI HP].
    assert (Hval : e_in (envat c0) i = f_val (d_in s i)).
    { cbn. apply (inv_in _ _ _ _ _ HI); [rewrite <- Hc; apply (inv_in_le _ _ _ _ _ HI) | lia]. }
    cbn [trace run] in Htr |- *. rewrite Hval in Htr |- *.
    apply (IH (f_val (d_in s i)) (pre ++ [RIn i]) _ s Hc Hqn).
    + rewrite <- app_assoc. exact Htr.
    + intros d Hd. apply Hcalls. eapply calls_in_rdin; exact Hd.
    + exact (conj HI HP).
    + apply (covers_add_in prog NF H D); assumption.
    + apply cord_add_in; assumption.
    + exact Hctx.
    + exact Hfuel.
  - (* CallQ *)
    pose proof (Hcalls d (calls_here d k)) as Hdn.
    assert (Hnq : ~ In q st) by (destruct Hctx as (_ & Hnd & _); inversion Hnd; assumption).
    apply wp_bind.
    eapply wp_conseq; [apply (HF d s (q :: st) Hdn HI Hctx Hfuel) | |].
    2:{ intros p s1 Hx. eapply XPc_weaken; [| exact Hx]. intros Hb. rewrite Hc in Hb.
        cbn [trace] in Htr.
        apply (blk_of_prefix prog ns Hclosed NF HNF H c0 q st pre d _ Hqn Htr Hb).
        apply notin_existsb. exact Hnq. }
    intros [[v dd] cd] s1 (HI1 & He1 & Ht1 & Hs1 & Hv & (md & Hmd & Hvd & Hxd & Hdd & Hcd)).
    cbn [fst snd] in *.
    pose proof (dext_cur _ _ He1) as Hc1.
    assert (Hval : e_q (envat c0) d = v).
    { cbn. rewrite Hv, Hc. reflexivity. }
    cbn [trace run] in Htr |- *. rewrite Hval in Htr |- *.
    destruct Hctx as (Hst & Hctx').
    rewrite Hst in Ht1.
    assert (Hctx1 : ctx (q :: st) s1).
    { apply (ctx_next (q :: st) s s1); [split; assumption | exact He1 | exact Ht1 | exact Hs1]. }
    eapply wp_conseq; [apply (IH v (pre ++ [RQ d]) _ s1) | |].
    + congruence.
    + exact Hqn.
    + rewrite <- app_assoc. exact Htr.
    + intros d' Hd'. apply Hcalls. eapply calls_in_call; exact Hd'.
    + exact HI1.
    + subst dd cd. apply (covers_add_q prog NF H D); try assumption.
      * apply HI1.
      * eapply covers_ext; eassumption.
      * congruence.
      * rewrite Hxd; discriminate.
    + subst dd cd. apply cord_add_q; [eapply covers_ext; eassumption | eapply cord_ext; eassumption].
    + exact Hctx1.
    + exact Hfuel.
    + intros r s2 (HI2 & He2 & Ht2 & Hs2 & Hr & Hcv2 & Hco2).
      split; [exact HI2|]. split; [eapply dext_trans; eassumption|]. split.
      { eapply stf_trans; eassumption. }
      split; [congruence|]. split; [exact Hr |]. split; assumption.
    + intros p s2 Hx. eapply XPc_trans; eassumption.
  - (* RdCell *)
    apply wp_bind, wp_get. destruct HI as [HI HP].
    assert (Hval : e_cell (envat c0) c = d_cell s c).
    { cbn. rewrite <- Hc. apply (inv_cell _ _ _ _ _ HI). }
    cbn [trace run] in Htr |- *. rewrite Hval in Htr |- *.
    apply (IH (d_cell s c) (pre ++ [RCell c]) _ s Hc Hqn).
    + rewrite <- app_assoc. exact Htr.
    + intros d Hd. apply Hcalls. eapply calls_in_cell; exact Hd.
    + exact (conj HI HP).
    + apply (covers_add_untracked prog NF H D); [assumption | assumption | right; eauto].
    + apply cord_add_untracked; assumption.
    + exact Hctx.
    + exact Hfuel.
  - (* Touch *)
    apply wp_bind, wp_get. destruct HI as [HI HP].
    cbn [trace run] in Htr |- *.
    apply (IH (pre ++ [RTouch]) _ s Hc Hqn).
    + rewrite <- app_assoc. exact Htr.
    + intros d Hd. apply Hcalls. eapply calls_in_touch; exact Hd.
    + exact (conj HI HP).
    + apply (covers_add_untracked prog NF H D); [assumption | assumption | left; reflexivity].
    + apply cord_add_untracked; assumption.
    + exact Hctx.
    + exact Hfuel.
  - (* PanicIf *)
    apply wp_bind, wp_get.
    cbn [trace run] in Htr |- *.
    destruct (d_pcell s pc =? 0) eqn:Hpc.
    + apply (IH pre fr s Hc Hqn); try assumption.
      intros d Hd. apply Hcalls. eapply calls_in_panicif; exact Hd.
    + apply wp_fail. split; [left; split; [reflexivity | left; exists pc; apply N.eqb_neq; exact Hpc]|].
      split; [exact HI | apply dext_refl].
Qed.

(* ---------------------------------------------------------------- execute *)
Definition exec_post' (st : list qkey) (s0 : db) (q : qkey) (m : memo) (s' : db) : Prop :=
  PInv s' /\ dext s0 s' /\ stf st s0 s' /\ d_stack s' = d_stack s0 /\
  d_memo s' q = Some m /\ m_verified m = cur s0 /\ m_val m = Some (E (cur s0) q).

Definition not_valid_with_value (s : db) (q : qkey) : Prop :=
  forall m0, d_memo s q = Some m0 -> m_verified m0 = cur s -> m_val m0 = None.

Lemma nvv_stf st s s' q : stf st s s' -> In q st -> cur s' = cur s ->
  not_valid_with_value s q -> not_valid_with_value s' q.
Proof.
  intros [Hr Hf] Hq Hc Hnv m0 Hm0 Hv0. destruct (Hf q Hq) as [A B].
  destruct (m_val m0) as [v0 |] eqn:Ev0; [| reflexivity]. exfalso.
  assert (Hp' : pinned s' q) by (exists m0; split; [exact Hm0 | left; congruence]).
  assert (Hp : pinned s q).
  { destruct (d_memo s q) as [m1 |] eqn:E1.
    - destruct (m_val m1) as [v1 |] eqn:Ev1; [exists m1; split; [exact E1 | left; congruence] |].
      destruct (shallow_verify s m1) eqn:Esh; [| | exists m1; split; [exact E1 | right; exact Esh]];
        (exfalso; apply B; [| exact Hp']; intros (m2 & A2 & [B2 | B2]); rewrite E1 in A2; injection A2 as <-; congruence).
    - exfalso. apply B; [| exact Hp']. intros (m2 & A2 & _). congruence. }
  rewrite (A Hp) in Hm0. rewrite Hc in Hv0. specialize (Hnv m0 Hm0 Hv0). congruence.
Qed.

Lemma execute_ok' L n q st s old (HF : fetch_spec L n) :
  In q ns -> PInv s -> ctx (q :: st) s -> (length ns < n + length (q :: st))%nat ->
  (forall o ov, old = Some o -> m_val o = Some ov -> d_memo s q = Some o) ->
  not_valid_with_value s q ->
  wp (execute prog noeq L q old) (exec_post' st s q) (XPc s (blk (cur s) st q)) s.
Proof.
  intros Hqn HI Hctx Hfuel Hold Hnv. unfold execute.
  assert (Hnq : ~ In q st) by (destruct Hctx as (_ & Hnd & _); inversion Hnd; assumption).
  assert (Hsub : incl st (q :: st)) by (intros x Hx; right; exact Hx).
  apply wp_bind. apply (emit_ok' _ s s); [exact HI | apply dext_refl|].
  intros s1 Hce HI1 He01 Hst01.
  assert (Hcur01 : cur s1 = cur s) by (apply dcore_eq_cur; exact Hce).
  assert (Hf01 : stf (q :: st) s s1).
  { destruct Hce as (Hr & _ & _ & Hm). apply stf_memo_eq; assumption. }
  assert (Hctx1 : ctx (q :: st) s1) by (apply (ctx_next (q :: st) s s1); assumption).
  apply wp_bind.
  eapply wp_conseq; [apply (run_body_ok' L n q (cur s) st HF (prog q) [] frame0 s1) | |].
  - exact Hcur01.
  - exact Hqn.
  - reflexivity.
  - intros d Hd. exact (Hclosed q d Hqn Hd).
  - exact HI1.
  - apply covers_frame0. apply (inv_cur _ _ _ _ _ (proj1 HI1)).
  - apply cord_frame0.
  - exact Hctx1.
  - exact Hfuel.
  - intros [v fr] s2 ([HI2 HP2] & He2 & Ht2 & Hs2 & Hv & Hcv & Hco). cbn [fst snd] in *.
    pose proof (dext_cur _ _ He2) as Hc2. rewrite Hcur01 in Hc2.
    apply wp_bind, wp_get.
    assert (He02 : dext s s2) by (eapply dext_trans; eassumption).
    assert (Ht02 : stf (q :: st) s s2) by (eapply stf_trans; eassumption).
    assert (Hold2 : forall o ov, old = Some o -> m_val o = Some ov -> d_memo s2 q = Some o).
    { intros o ov A B.
      apply (pinned_keep (q :: st) s s2 q o Ht02 (or_introl eq_refl) (Hold o ov A B)). left; congruence. }
    assert (Hnv2 : not_valid_with_value s2 q).
    { apply (nvv_stf (q :: st) s s2 q Ht02 (or_introl eq_refl) Hc2 Hnv). }
    assert (Hcv' : covers s2 (tr (cur s2) q) fr) by (rewrite Hc2; exact Hcv).
    assert (Hco' : cord s2 (tr (cur s2) q) fr) by (rewrite Hc2; exact Hco).
    assert (Hacc : ac (cur s2) q).
    { apply (ac_of_tr prog ns Hclosed NF HNF). intros d Hd.
      destruct (cv_q _ _ _ Hcv' d Hd) as (md & Hmd & Hvd & _).
      destruct (HP2 d md Hmd) as (Hdn & Had & _). rewrite Hvd in Had. split; assumption. }
    assert (Hv' : v = E (cur s2) q).
    { rewrite Hv, <- Hc2. symmetry. apply (E_unfold' prog ns Hclosed NF HNF H (cur s2) q Hqn Hacc). }
    (* the common ending: store the fresh memo with stamp ch *)
    assert (Hfin : forall ch,
      (ch = fr_changed fr \/
       exists o ov, d_memo s2 q = Some o /\ m_val o = Some ov /\ ov = v /\ ch = m_changed o /\
                    m_dur o <= fr_dur fr /\ m_changed o <= fr_changed fr) ->
      wp (set_memo_at q (fresh_memo v (cur s2) ch fr) ;;; ret (fresh_memo v (cur s2) ch fr))
         (exec_post' st s q) (XPc s (blk (cur s) st q)) s2).
    { intros ch Hch. apply wp_bind. unfold set_memo_at. apply wp_modify. apply wp_ret.
      change (set_seen _ _) with (store s2 q (fresh_memo v (cur s2) ch fr)).
      destruct (fresh_store_ok prog ns Hclosed NF HNF H D s2 q fr v ch (d_memo s2 q) HI2 HP2 Hqn Hacc Hcv' Hv' eq_refl)
        as [HI3 He3].
      { intros m0 A B. apply Hnv2; assumption. }
      { exact Hch. }
      unfold exec_post'.
      split.
      { split; [exact HI3 |]. apply PM_store; [exact HP2 |].
        split; [exact Hqn |]. split; [exact Hacc |].
        apply (eord_fresh prog ns NF HNF H D s2 q fr v ch HI2 Hcv' Hco'). }
      split; [eapply dext_trans; eassumption|]. split.
      { eapply stf_trans; [apply (stf_sub st (q :: st) s s2 Hsub Ht02) |].
        apply (stf_upd_out st s2 (store s2 q (fresh_memo v (cur s2) ch fr)) q (fresh_memo v (cur s2) ch fr) eq_refl Hnq). reflexivity. }
      split; [cbn; rewrite Hs2; exact Hst01|]. split; [unfold store; cbn; apply upd_same|].
      split; [cbn; exact Hc2 | cbn; rewrite Hv', Hc2; reflexivity]. }
    destruct old as [o|].
    + destruct (m_val o) as [ov|] eqn:Hov.
      * pose proof (Hold2 o ov eq_refl Hov) as Ho2.
        destruct (can_backdate_dur (fr_dur fr) (m_dur o) && negb (noeq q)) eqn:Hbk.
        -- apply andb_true_iff in Hbk. destruct Hbk as [Hbk _]. apply can_backdate_dur_spec in Hbk.
           destruct (d_pcell s2 EQ_FAULT =? 0) eqn:Hqf; cbn [negb].
           ++ destruct (ov =? v) eqn:Hbd.
              ** destruct (changed_after (m_changed o) (fr_changed fr)) eqn:Hca.
                 --- (* the backdate-violation assertion is unreachable *)
                     exfalso. apply changed_after_spec in Hca.
                     pose proof (frame_changed_lb prog NF H D s2 q fr o HI2 Hcv' Ho2). lia.
                 --- apply changed_after_false in Hca.
                     apply Hfin. right. exists o, ov. conj; auto. apply N.eqb_eq in Hbd. exact Hbd.
              ** apply Hfin. left; reflexivity.
           ++ apply wp_fail. split; [|split; [exact (conj HI2 HP2) | exact He02]].
              left. split; [reflexivity|]. left. exists EQ_FAULT.
              rewrite <- (ext_pcell _ _ He02). apply N.eqb_neq. exact Hqf.
        -- apply Hfin. left; reflexivity.
      * apply Hfin. left; reflexivity.
    + apply Hfin. left; reflexivity.
  - intros p s' Hx. eapply XPc_trans; eassumption.
Qed.

(* ---------------------------------------------------------------- claims *)
Definition smq (s : db) (q : qkey) : Prop :=
  forall m, d_memo s q = Some m -> m_val m <> None -> shallow_verify s m = ShNo.

Lemma claim_ok' q st s (Q : unit -> db -> Prop) :
  PInv s -> ctx st s ->
  (~ In q st -> Q tt (set_stack s (q :: d_stack s))) ->
  wp (claim q) Q (XPc s (blk (cur s) st q)) s.
Proof.
  intros HI (Hst & _) HQ. unfold claim. apply wp_bind, wp_get.
  destruct (existsb (key_eqb q) (d_stack s)) eqn:Hex.
  - apply wp_fail. split; [| split; [exact HI | apply dext_refl]].
    right. split; [reflexivity |]. apply qblk_stacked. rewrite <- Hst. exact Hex.
  - apply wp_modify. apply HQ. apply existsb_in. rewrite <- Hst. exact Hex.
Qed.

Lemma ctx_push q st s : In q ns -> ctx st s -> smq s q -> ~ In q st ->
  ctx (q :: st) (set_stack s (q :: d_stack s)).
Proof.
  intros Hq (Hst & Hnd & Hin & Hsm) Hsq Hnq.
  split; [cbn; now rewrite Hst |]. split; [constructor; assumption |]. split.
  - intros x [<- | Hx]; [exact Hq | apply Hin; exact Hx].
  - intros p m [<- | Hp] Hm Hv.
    + apply (Hsq m Hm Hv).
    + apply (Hsm p m Hp Hm Hv).
Qed.

Definition got' (st : list qkey) (s0 : db) (q : qkey) (mv : memo * val) (s' : db) : Prop :=
  PInv s' /\ dext s0 s' /\ stf st s0 s' /\ d_stack s' = d_stack s0 /\
  d_memo s' q = Some (fst mv) /\ m_verified (fst mv) = cur s0 /\
  m_val (fst mv) = Some (snd mv) /\ snd mv = E (cur s0) q.

Lemma dext_set_stack' s l : dext s (set_stack s l).
Proof. apply dext_of_core_eq; [apply dcore_eq_stack | reflexivity | reflexivity]. Qed.

Lemma fetch_cold_ok' L n q st s (HF : fetch_spec L n) (HM : mca_spec L n) :
  In q ns -> PInv s -> ctx st s -> (length ns < S n + length st)%nat ->
  not_valid_with_value s q -> smq s q ->
  wp (fetch_cold prog noeq L q) (got' st s q) (XPc s (blk (cur s) st q)) s.
Proof.
  intros Hqn HI Hctx Hfuel Hnv Hsq. unfold fetch_cold.
  apply wp_bind. apply (claim_ok' q st s _ HI Hctx). intros Hnq.
  set (s1 := set_stack s (q :: d_stack s)).
  assert (Hce : dcore_eq s s1) by apply dcore_eq_stack.
  assert (HI1 : PInv s1) by (apply (PInv_core_eq s); assumption).
  assert (He01 : dext s s1) by apply dext_set_stack'.
  assert (Hctx1 : ctx (q :: st) s1) by (apply ctx_push; assumption).
  assert (Hfuel1 : (length ns < n + length (q :: st))%nat) by (cbn [length]; lia).
  assert (Hsub : incl st (q :: st)) by (intros x Hx; right; exact Hx).
  assert (Hstk : d_stack s = st) by apply Hctx.
  apply wp_bind, wp_get. change (d_memo s1 q) with (d_memo s q).
  (* the execute branch *)
  assert (Hexec : forall s2, PInv s2 -> dext s1 s2 -> stf st s1 s2 -> ctx (q :: st) s2 ->
            (forall o ov, d_memo s q = Some o -> m_val o = Some ov -> d_memo s2 q = Some o) ->
            not_valid_with_value s2 q ->
            wp (m <- execute prog noeq L q (d_memo s q) ;;
                release q ;;;
                match m_val m with Some v => ret (m, v) | None => nofuel end)
               (got' st s q) (XPc s (blk (cur s) st q)) s2).
  { intros s2 HI2 He2 Ht2 Hctx2 Hold2 Hnv2.
    pose proof (dext_cur _ _ He2) as Hc2. change (cur s1) with (cur s) in Hc2.
    apply wp_bind.
    eapply wp_conseq; [apply (execute_ok' L n q st s2 (d_memo s q) HF Hqn HI2 Hctx2 Hfuel1 Hold2 Hnv2) | |].
    - intros m s3 (HI3 & He3 & Ht3 & Hs3 & Hm3 & Hv3 & Hx3).
      apply wp_bind. unfold release. apply wp_modify.
      rewrite Hx3. apply wp_ret.
      set (s4 := set_stack s3 (tl (d_stack s3))).
      assert (Hce4 : dcore_eq s3 s4) by apply dcore_eq_stack.
      unfold got'; cbn [fst snd].
      split; [apply (PInv_core_eq s3); assumption|].
      split; [eapply dext_trans; [exact He01|]; eapply dext_trans; [exact He2|];
              eapply dext_trans; [exact He3 | apply dext_set_stack']|].
      split.
      { eapply stf_trans; [apply (stf_memo_eq st s s1); reflexivity |].
        eapply stf_trans; [exact Ht2 |]. eapply stf_trans; [exact Ht3 |].
        apply (stf_memo_eq st s3 s4); reflexivity. }
      split; [cbn; rewrite Hs3; destruct Hctx2 as (-> & _); exact (eq_sym Hstk)|].
      split; [exact Hm3|]. split; [congruence|]. split; [congruence | congruence].
    - intros p s3 Hx. rewrite Hc2 in Hx.
      eapply XPc_trans; [eapply dext_trans; [exact He01 | exact He2] | exact Hx]. }
  destruct (d_memo s q) as [m|] eqn:Hm.
  - destruct (m_val m) as [v|] eqn:Hv.
    + apply wp_bind. apply wp_bind.
      assert (Hpin : pin s1 m) by (left; congruence).
      eapply wp_conseq; [apply (verify_memo_ok' L n q m st s1 HM HI1 Hm Hpin Hctx1 Hfuel1) | |].
      * intros [b m'] s2 (HI2 & He2 & Ht2 & Hs2 & Htrue & Hfalse). cbn [fst snd] in *.
        apply wp_ret.
        destruct b.
        -- destruct (Htrue eq_refl) as (Hm' & Hv' & Hval' & _ & _ & HE).
           apply wp_bind. unfold release. apply wp_modify. apply wp_ret.
           set (s4 := set_stack s2 (tl (d_stack s2))).
           unfold got'; cbn [fst snd].
           split; [apply (PInv_core_eq s2); [apply dcore_eq_stack | exact HI2]|].
           split; [eapply dext_trans; [exact He01|]; eapply dext_trans; [exact He2 | apply dext_set_stack']|].
           split.
           { eapply stf_trans; [apply (stf_memo_eq st s s1); reflexivity |].
             eapply stf_trans; [exact Ht2 |]. apply (stf_memo_eq st s2 s4); reflexivity. }
           split; [cbn; rewrite Hs2; cbn; reflexivity|].
           split; [exact Hm'|]. split; [exact Hv'|]. split; [congruence|].
           change (cur s1) with (cur s) in HE. rewrite HE.
           apply (mo_val _ _ _ _ _ _ _ (inv_memo _ _ _ _ _ (proj1 HI) q m Hm)); exact Hv.
        -- specialize (Hfalse eq_refl).
           apply Hexec; try assumption.
           ++ apply (ctx_next (q :: st) s1 s2 Hctx1 He2); [| exact Hs2].
              (* the frame over q :: st: q's memo is the same, the rest is the frame over st *)
              destruct Ht2 as [Hr2 Hf2]. split; [exact Hr2 |]. intros p [<- | Hp]; [| apply Hf2; exact Hp].
              split; [intros _; change (d_memo s1 q) with (d_memo s q); congruence |].
              intros Hn _. apply Hn. exists m. split; [exact Hm | exact Hpin].
           ++ intros o ov A B. injection A as <-. exact Hfalse.
           ++ intros m0 A B. rewrite Hfalse in A. injection A as <-.
              apply (Hnv m Hm). rewrite B. apply (dext_cur _ _ He2).
      * intros p s2 Hx. eapply XPc_trans; eassumption.
    + apply wp_bind, wp_ret.
      apply Hexec; [exact HI1 | apply dext_refl | apply stf_refl | exact Hctx1 | intros o ov A B; injection A as <-; exact Hm | exact Hnv].
  - apply wp_bind, wp_ret.
    apply Hexec; [exact HI1 | apply dext_refl | apply stf_refl | exact Hctx1 | intros o ov A B; discriminate | exact Hnv].
Qed.

(* ---------------------------------------------------------------- fast paths *)
Lemma shallow_now s m : m_verified m = cur s -> shallow_verify s m = ShVerified.
Proof. intros Hv. unfold shallow_verify. rewrite Hv, N.eqb_refl. reflexivity. Qed.

(* what a successful shallow check leaves behind is a frame over the claimed keys *)
Lemma stf_hot st s s' q m m' u :
  ctx st s -> dext s s' -> d_memo s q = Some m -> shallow_verify s m = u -> u <> ShNo ->
  (d_memo s' = d_memo s \/ d_memo s' = upd (d_memo s) q (Some m')) ->
  m_verified m' = cur s -> m_val m' = m_val m -> stf st s s'.
Proof.
  intros (_ & _ & _ & Hsm) He Hm Hu Hne Hd Hv' Hval'.
  destruct Hd as [Hd | Hd]; [apply stf_memo_eq; [apply (ext_revs _ _ He) | exact Hd] |].
  apply (stf_upd st s s' q m m' (ext_revs _ _ He) Hm Hd). intros Hq.
  assert (Hnv : m_val m = None).
  { destruct (m_val m) as [v |] eqn:Ev; [| reflexivity]. exfalso. apply Hne. rewrite <- Hu.
    apply (Hsm q m Hq Hm). congruence. }
  split.
  - intros [A | A]; [congruence | congruence].
  - intros [A | A]; [congruence |].
    rewrite shallow_now in A; [discriminate |]. rewrite Hv'. symmetry. apply (dext_cur _ _ He).
Qed.

Lemma fetch_hot_ok' q st s B :
  PInv s -> ctx st s ->
  wp (fetch_hot q)
     (fun hot s' => match hot with
                    | Some mv => got' st s q mv s'
                    | None => s' = s /\ not_valid_with_value s q /\ smq s q
                    end) (XPc s B) s.
Proof.
  intros HI Hctx. unfold fetch_hot. apply wp_bind, wp_get.
  destruct (d_memo s q) as [m|] eqn:Hm.
  - destruct (m_val m) as [v|] eqn:Hv.
    + assert (Hgot : forall u, shallow_verify s m = u -> u <> ShNo ->
                wp (m' <- update_shallow q m u ;; ret (Some (m', v)))
                   (fun hot s' => match hot with
                                  | Some mv => got' st s q mv s'
                                  | None => s' = s /\ not_valid_with_value s q /\ smq s q
                                  end) (XPc s B) s).
      { intros u Hu Hne. apply wp_bind.
        eapply wp_conseq; [apply (update_shallow_ok' q m s u s B (dext_refl s) HI Hm Hu Hne) | |intros; assumption].
        intros m' s' (A & B0 & C & D0 & Hm' & Hv' & Hval' & _ & _ & HE).
        apply wp_ret. unfold got'; cbn [fst snd].
        split; [exact A |]. split; [exact B0 |].
        split; [apply (stf_hot st s s' q m m' u Hctx B0 Hm Hu Hne D0 Hv' Hval') |].
        split; [exact C |]. split; [exact Hm' |]. split; [exact Hv' |]. split; [congruence |].
        rewrite HE. apply (mo_val _ _ _ _ _ _ _ (inv_memo _ _ _ _ _ (proj1 HI) q m Hm)); exact Hv. }
      destruct (shallow_verify s m) eqn:Hsh.
      * apply Hgot; [reflexivity | discriminate].
      * apply Hgot; [reflexivity | discriminate].
      * apply wp_ret. split; [reflexivity|].
        pose proof (shallow_cases s m) as Hc. rewrite Hsh in Hc. split.
        -- intros m0 Hm0 Hv0. congruence.
        -- intros m0 Hm0 _. congruence.
    + apply wp_ret. split; [reflexivity|]. split.
      * intros m0 Hm0 _. congruence.
      * intros m0 Hm0 Hx. congruence.
  - apply wp_ret. split; [reflexivity|]. split; intros m0 Hm0; congruence.
Qed.

Lemma fetch_ok' L n (HF : fetch_spec L n) (HM : mca_spec L n) :
  forall q s st, In q ns -> PInv s -> ctx st s -> (length ns < S n + length st)%nat ->
    wp (fetch prog noeq L q) (fetch_post s q) (XPc s (blk (cur s) st q)) s.
Proof.
  intros q s st Hqn HI Hctx Hfuel. unfold fetch.
  assert (Hstk : d_stack s = st) by apply Hctx.
  apply wp_bind.
  eapply wp_conseq; [apply (fetch_hot_ok' q st s (blk (cur s) st q) HI Hctx) | |intros; assumption].
  intros hot s1 Hhot.
  assert (Hfin : forall mv s2, got' st s q mv s2 ->
            wp (modify (fun s => set_lru s (updN (d_lru s) (fst q) (lru_record_use (d_lru s (fst q)) (snd q)))) ;;;
                ret (memo_qres (fst mv) (snd mv))) (fetch_post s q) (XPc s (blk (cur s) st q)) s2).
  { intros [m v] s2 (A & B & C & D0 & Hm & Hv & Hval & HE). cbn [fst snd] in *.
    apply wp_bind, wp_modify, wp_ret.
    set (s3 := set_lru s2 _).
    assert (Hce : dcore_eq s2 s3) by apply dcore_eq_lru.
    unfold fetch_post, memo_qres; cbn [fst snd].
    split; [apply (PInv_core_eq s2); assumption|].
    split; [eapply dext_trans; [exact B | apply dext_of_core_eq; [exact Hce | reflexivity | reflexivity]]|].
    split.
    { rewrite Hstk. eapply stf_trans; [exact C |]. apply (stf_memo_eq st s2 s3); reflexivity. }
    split; [exact D0|]. split; [exact HE|].
    exists m. conj; auto. }
  apply wp_bind.
  destruct hot as [mv|].
  - apply wp_ret. apply Hfin. exact Hhot.
  - destruct Hhot as (-> & Hnv & Hsq).
    eapply wp_conseq; [apply (fetch_cold_ok' L n q st s HF HM Hqn HI Hctx Hfuel Hnv Hsq) | |intros; assumption].
    intros mv s2 Hgot. apply Hfin. exact Hgot.
Qed.

(* ---------------------------------------------------------------- maybe_changed_after *)
Lemma mca_cold_ok' L n q st since s (HF : fetch_spec L n) (HM : mca_spec L n) :
  In q ns -> PInv s -> ctx st s -> (length ns < S n + length st)%nat ->
  not_valid_with_value s q ->
  (forall m, d_memo s q = Some m -> shallow_verify s m = ShNo) ->
  wp (mca_cold prog noeq L q since) (mca_post s q since) (XPc s (blk (cur s) st q)) s.
Proof.
  intros Hqn HI Hctx Hfuel Hnv Hno. unfold mca_cold.
  assert (Hsq : smq s q) by (intros m Hm _; apply Hno; exact Hm).
  assert (Hstk : d_stack s = st) by apply Hctx.
  apply wp_bind. apply (claim_ok' q st s _ HI Hctx). intros Hnq.
  set (s1 := set_stack s (q :: d_stack s)).
  assert (Hce : dcore_eq s s1) by apply dcore_eq_stack.
  assert (HI1 : PInv s1) by (apply (PInv_core_eq s); assumption).
  assert (He01 : dext s s1) by apply dext_set_stack'.
  assert (Hctx1 : ctx (q :: st) s1) by (apply ctx_push; assumption).
  assert (Hfuel1 : (length ns < n + length (q :: st))%nat) by (cbn [length]; lia).
  apply wp_bind, wp_get. change (d_memo s1 q) with (d_memo s q).
  (* leaving: release and return b, from a state s2 *)
  assert (Hleave : forall b s2, PInv s2 -> dext s1 s2 -> stf st s1 s2 ->
            d_stack s2 = d_stack s1 ->
            (b = false -> exists m, d_memo s2 q = Some m /\ m_verified m = cur s /\ m_changed m <= since) ->
            wp (release q ;;; ret b) (mca_post s q since) (XPc s (blk (cur s) st q)) s2).
  { intros b s2 HI2 He2 Ht2 Hs2 Hb.
    apply wp_bind. unfold release. apply wp_modify. apply wp_ret.
    unfold mca_post.
    split; [apply (PInv_core_eq s2); [apply dcore_eq_stack | exact HI2]|].
    split; [eapply dext_trans; [exact He01|]; eapply dext_trans; [exact He2 | apply dext_set_stack']|].
    split.
    { rewrite Hstk. eapply stf_trans; [apply (stf_memo_eq st s s1); reflexivity |].
      eapply stf_trans; [exact Ht2 |]. apply (stf_memo_eq st s2 (set_stack s2 (tl (d_stack s2)))); reflexivity. }
    split; [cbn; rewrite Hs2; reflexivity|]. exact Hb. }
  destruct (d_memo s q) as [old|] eqn:Hm.
  - apply wp_bind.
    assert (Hpin : pin s1 old) by (right; apply (Hno old eq_refl)).
    eapply wp_conseq; [apply (verify_memo_ok' L n q old st s1 HM HI1 Hm Hpin Hctx1 Hfuel1) | |].
    + intros [b m'] s2 (HI2 & He2 & Ht2 & Hs2 & Htrue & Hfalse). cbn [fst snd] in *.
      destruct b.
      * destruct (Htrue eq_refl) as (Hm' & Hv' & _ & _ & Hch' & _).
        apply Hleave; try assumption.
        intros Hca. apply changed_after_false in Hca.
        exists m'. conj; auto; congruence.
      * specialize (Hfalse eq_refl).
        destruct (m_val old) as [ov|] eqn:Hov.
        -- apply wp_bind.
           pose proof (dext_cur _ _ He2) as Hc2. change (cur s1) with (cur s) in Hc2.
           assert (Hctx2 : ctx (q :: st) s2).
           { apply (ctx_next (q :: st) s1 s2 Hctx1 He2); [| exact Hs2].
             destruct Ht2 as [Hr2 Hf2]. split; [exact Hr2 |]. intros p [<- | Hp]; [| apply Hf2; exact Hp].
             split; [intros _; change (d_memo s1 q) with (d_memo s q); congruence |].
             intros Hn _. apply Hn. exists old. split; [exact Hm | exact Hpin]. }
           eapply wp_conseq; [apply (execute_ok' L n q st s2 (Some old) HF Hqn HI2 Hctx2 Hfuel1) | |].
           ++ intros o ov' A B. injection A as <-. exact Hfalse.
           ++ intros m0 A B. rewrite Hfalse in A. injection A as <-.
              apply (Hnv old Hm). rewrite B. exact Hc2.
           ++ intros mnew s3 (HI3 & He3 & Ht3 & Hs3 & Hm3 & Hv3 & _).
              apply Hleave.
              ** exact HI3.
              ** eapply dext_trans; eassumption.
              ** eapply stf_trans; eassumption.
              ** congruence.
              ** intros Hca. apply changed_after_false in Hca.
                 exists mnew. conj; auto; congruence.
           ++ intros p s3 Hx. rewrite Hc2 in Hx.
              eapply XPc_trans; [eapply dext_trans; [exact He01 | exact He2] | exact Hx].
        -- apply Hleave; try assumption. discriminate.
    + intros p s2 Hx. eapply XPc_trans; eassumption.
  - apply Hleave; [exact HI1 | apply dext_refl | apply stf_refl | reflexivity | discriminate].
Qed.

Lemma mca_ok' L n (HF : fetch_spec L n) (HM : mca_spec L n) :
  forall q since s st, In q ns -> PInv s -> ctx st s -> (length ns < S n + length st)%nat ->
    wp (mca prog noeq L q since) (mca_post s q since) (XPc s (blk (cur s) st q)) s.
Proof.
  intros q since s st Hqn HI Hctx Hfuel. unfold mca.
  assert (Hstk : d_stack s = st) by apply Hctx.
  apply wp_bind, wp_get.
  destruct (d_memo s q) as [m|] eqn:Hm.
  - assert (Hgot : forall u, shallow_verify s m = u -> u <> ShNo ->
              wp (m' <- update_shallow q m u ;; ret (changed_after (m_changed m') since))
                 (mca_post s q since) (XPc s (blk (cur s) st q)) s).
    { intros u Hu Hne. apply wp_bind.
      eapply wp_conseq; [apply (update_shallow_ok' q m s u s (blk (cur s) st q) (dext_refl s) HI Hm Hu Hne) | |intros; assumption].
      intros m' s' (A & B & C & D0 & Hm' & Hv' & Hval' & _ & Hch' & _).
      apply wp_ret. unfold mca_post.
      split; [exact A |]. split; [exact B |].
      split; [rewrite Hstk; apply (stf_hot st s s' q m m' u Hctx B Hm Hu Hne D0 Hv' Hval') |].
      split; [exact C |].
      intros Hca. apply changed_after_false in Hca. exists m'. conj; auto; congruence. }
    destruct (shallow_verify s m) eqn:Hsh.
    + apply Hgot; [reflexivity | discriminate].
    + apply Hgot; [reflexivity | discriminate].
    + apply (mca_cold_ok' L n q st since s HF HM Hqn HI Hctx Hfuel).
      * pose proof (shallow_cases s m) as Hc. rewrite Hsh in Hc.
        intros m0 Hm0 Hv0. congruence.
      * intros m0 Hm0. congruence.
  - apply wp_ret. unfold mca_post.
    split; [exact HI|]. split; [apply dext_refl|]. split; [apply stf_refl|].
    split; [reflexivity | discriminate].
Qed.

(* ---------------------------------------------------------------- tying the knot *)
Theorem plevel_ok : forall n,
  fetch_spec (level prog noeq n) n /\ mca_spec (level prog noeq n) n.
Proof.
  induction n as [|n [IHF IHM]].
  - split.
    + intros q s st _ _ (_ & Hnd & Hin & _) Hlt. exfalso.
      pose proof (NoDup_incl_length Hnd Hin). cbn [Nat.add] in Hlt. lia.
    + intros q since s st _ _ (_ & Hnd & Hin & _) Hlt. exfalso.
      pose proof (NoDup_incl_length Hnd Hin). cbn [Nat.add] in Hlt. lia.
  - split.
    + intros q s st Hq HI Hctx Hlt. cbn [level l_fetch].
      apply (fetch_ok' (level prog noeq n) n IHF IHM q s st Hq HI Hctx Hlt).
    + intros q since s st Hq HI Hctx Hlt. cbn [level l_mca].
      apply (mca_ok' (level prog noeq n) n IHF IHM q since s st Hq HI Hctx Hlt).
Qed.

End Ops.

(* Core/LruProofs.v — the LRU policy of Core/Model.v (Lru::record_use, set_capacity,
   for_each_evicted over a linked hash set): bound, recency order, capacity zero. *)
From Salsa Require Import Base.
From Salsa.Core Require Import Model.

Lemma remove_key_not_in k l : ~ In k (remove_key k l).
Proof.
  unfold remove_key. intros Hin. apply filter_In in Hin. destruct Hin as [_ Hb].
  rewrite N.eqb_refl in Hb. discriminate.
Qed.

Lemma remove_key_in k x l : In x (remove_key k l) <-> In x l /\ x <> k.
Proof.
  unfold remove_key. rewrite filter_In. split; intros [A B]; split; auto.
  - intros ->. rewrite N.eqb_refl in B. discriminate.
  - apply negb_true_iff. apply N.eqb_neq. exact B.
Qed.

Lemma remove_key_nodup k l : NoDup l -> NoDup (remove_key k l).
Proof. unfold remove_key. apply NoDup_filter. Qed.

Lemma remove_key_length k l : (length (remove_key k l) <= length l)%nat.
Proof.
  unfold remove_key. induction l as [|x l IH]; cbn; [lia|].
  destruct (negb (x =? k)); cbn; lia.
Qed.

(* record_use keeps the set duplicate-free and puts the key at the most-recent end *)
Lemma nodup_app_single (l : list N) k : NoDup l -> ~ In k l -> NoDup (l ++ [k]).
Proof.
  induction l as [|x l IH]; intros Hnd Hnin; cbn.
  - constructor; [intros [] | constructor].
  - inversion Hnd as [|? ? Hx Hl]; subst. constructor.
    + rewrite in_app_iff. intros [H | [H | []]]; [contradiction | subst; apply Hnin; left; reflexivity].
    + apply IH; [exact Hl | intros H; apply Hnin; right; exact H].
Qed.

Lemma record_use_nodup l k : NoDup (lru_set l) -> NoDup (lru_set (lru_record_use l k)).
Proof.
  intros Hnd. unfold lru_record_use. destruct (lru_cap l); [|exact Hnd]. cbn.
  apply nodup_app_single; [apply remove_key_nodup; exact Hnd | apply remove_key_not_in].
Qed.

Lemma record_use_last l k c : lru_cap l = Some c ->
  exists pre, lru_set (lru_record_use l k) = pre ++ [k] /\ pre = remove_key k (lru_set l).
Proof. intros Hc. unfold lru_record_use. rewrite Hc. cbn. eexists; split; reflexivity. Qed.

(* capacity zero disables recording and clears the set *)
Lemma set_capacity_zero l : lru_set_capacity l 0 = {| lru_cap := None; lru_set := [] |}.
Proof. reflexivity. Qed.

Lemma record_use_disabled l k : lru_cap l = None -> lru_record_use l k = l.
Proof. intros Hc. unfold lru_record_use. rewrite Hc. reflexivity. Qed.

Lemma evict_disabled l : lru_cap l = None -> lru_evict l = ([], l).
Proof. intros Hc. unfold lru_evict. rewrite Hc. reflexivity. Qed.

(* the pop loop: evicted ++ kept = the old order (so the evicted keys are exactly the least
   recently used prefix), and at most cap keys are kept *)
Lemma pop_excess_split cap : forall fuel l ev rest,
  pop_excess cap l fuel = (ev, rest) -> l = ev ++ rest.
Proof.
  induction fuel as [|fuel IH]; intros l ev rest Hp; simpl pop_excess in Hp.
  - injection Hp as <- <-. reflexivity.
  - destruct (cap <? N.of_nat (length l)).
    + destruct l as [|x l].
      * injection Hp as <- <-. reflexivity.
      * destruct (pop_excess cap l fuel) as [ev' rest'] eqn:Hrec.
        injection Hp as <- <-. cbn. f_equal. apply IH. exact Hrec.
    + injection Hp as <- <-. reflexivity.
Qed.

Lemma pop_excess_bound cap : forall fuel l ev rest,
  (length l <= fuel)%nat ->
  pop_excess cap l fuel = (ev, rest) -> N.of_nat (length rest) <= cap.
Proof.
  induction fuel as [|fuel IH]; intros l ev rest Hf Hp; simpl pop_excess in Hp.
  - injection Hp as <- <-. destruct l; [cbn; lia | cbn in Hf; lia].
  - destruct (N.ltb_spec cap (N.of_nat (length l))) as [Hlt | Hge].
    + destruct l as [|x l].
      * injection Hp as <- <-. cbn. lia.
      * destruct (pop_excess cap l fuel) as [ev' rest'] eqn:Hrec.
        injection Hp as <- <-. apply (IH l ev' rest'); [cbn in Hf; lia | exact Hrec].
    + injection Hp as <- <-. exact Hge.
Qed.

(* pops happen only while the set is over capacity: nothing is evicted needlessly *)
Lemma pop_excess_minimal cap : forall fuel l ev rest,
  pop_excess cap l fuel = (ev, rest) ->
  ev = [] \/ cap < N.of_nat (length l).
Proof.
  intros fuel l ev rest Hp. destruct fuel as [|fuel]; simpl pop_excess in Hp.
  - injection Hp as <- <-. left; reflexivity.
  - destruct (N.ltb_spec cap (N.of_nat (length l))) as [Hlt | Hge].
    + right; exact Hlt.
    + injection Hp as <- <-. left; reflexivity.
Qed.

Theorem lru_evict_spec l c ev l' :
  lru_cap l = Some c -> lru_evict l = (ev, l') ->
  lru_set l = ev ++ lru_set l' /\ N.of_nat (length (lru_set l')) <= c /\ lru_cap l' = Some c.
Proof.
  intros Hc He. unfold lru_evict in He. rewrite Hc in He.
  destruct (pop_excess c (lru_set l) (length (lru_set l))) as [ev0 rest] eqn:Hp.
  inversion He; subst. cbn.
  split; [apply (pop_excess_split c _ _ _ _ Hp)|].
  split; [apply (pop_excess_bound c _ _ _ _ (le_n _) Hp) | reflexivity].
Qed.

(* eviction forgets only the value: stamps, origin and dependency edges are kept, and
   untracked memos are never evicted *)
Theorem evict_memo_keeps m :
  m_verified (evict_memo m) = m_verified m /\ m_changed (evict_memo m) = m_changed m /\
  m_dur (evict_memo m) = m_dur m /\ m_untracked (evict_memo m) = m_untracked m /\
  m_edges (evict_memo m) = m_edges m /\
  (m_untracked m = true -> evict_memo m = m) /\
  (m_untracked m = false -> m_val (evict_memo m) = None).
Proof.
  unfold evict_memo. destruct (m_untracked m) eqn:Hu; cbn; repeat split; auto; discriminate.
Qed.

Lemma evict_memo_idem' m : evict_memo (evict_memo m) = evict_memo m.
Proof. unfold evict_memo. destruct (m_untracked m) eqn:Hu; [rewrite Hu; reflexivity | reflexivity]. Qed.

(* evict_keys replaces exactly the listed keys' memos by their evicted versions *)
Lemma evict_keys_spec fam : forall ks mm q,
  evict_keys fam ks mm q =
  if existsb (fun k => key_eqb (fam, k) q) ks then option_map evict_memo (mm q) else mm q.
Proof.
  unfold evict_keys. induction ks as [|k ks IH]; intros mm q; cbn [fold_left existsb]; [reflexivity|].
  rewrite IH.
  destruct (mm (fam, k)) as [m|] eqn:Hm.
  - unfold upd. destruct (key_eqb_spec (fam, k) q) as [<- | Hne]; cbn [orb].
    + rewrite Hm. cbn. destruct (existsb _ ks); cbn; [rewrite evict_memo_idem'|]; reflexivity.
    + reflexivity.
  - destruct (key_eqb_spec (fam, k) q) as [<- | Hne]; cbn [orb]; [|reflexivity].
    rewrite Hm. destruct (existsb _ ks); reflexivity.
Qed.

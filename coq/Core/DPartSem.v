(* Core/DPartSem.v — the specification side for programs that may be CYCLIC (depending on the
   inputs): the total from-scratch evaluation [eval prog NF] used by the invariant is meaningful
   exactly at the queries whose partial evaluation [evalo] terminates ("acyclic at the snapshot");
   there it satisfies the fixpoint equation, its read trace calls only acyclic queries, and the
   stability lemmas of Core/DurSem.v hold without any rank. *)
From Coq Require Import PeanoNat Lia.
From Salsa Require Import Base.
From Salsa.Kern Require Import CoreK CoreKFacts.
From Salsa.Core Require Import Model Spec SpecProofs Wp Inv DurSem DCycleSem DCycleBound.

Section PartSem.
Variable prog : qkey -> body.
Variable ns : list qkey.
Hypothesis Hclosed : forall q d, In q ns -> calls (prog q) d -> In d ns.
Variable NF : nat.
Hypothesis HNF : (length ns <= NF)%nat.

Notation E := (E prog NF).
Notation tr := (tr prog NF).
Notation envat := (envat prog NF).
Notation env_of := (env_of prog NF).

(* acyclic at a snapshot *)
Definition acs (sn : snapshot) (q : qkey) : Prop := exists n v, evalo prog n sn q = Some v.

Lemma calls_of_trace' e b q : In (RQ q) (trace e b) -> calls b q.
Proof.
  induction b as [v | i k IH | q0 k IH | c k IH | k IH | pc k IH]; cbn [trace]; intros H.
  - destruct H.
  - destruct H as [H | H]; [discriminate | eapply calls_in_rdin, IH, H].
  - destruct H as [H | H].
    + injection H as <-; constructor.
    + eapply calls_in_call, IH, H.
  - destruct H as [H | H]; [discriminate | eapply calls_in_cell, IH, H].
  - destruct H as [H | H]; [discriminate | eapply calls_in_touch, IH, H].
  - eapply calls_in_panicif, IH, H.
Qed.

(* a terminating partial run is the total run under any environment that extends the answers
   of the callees *)
Lemma runo_run : forall b (eqo : qkey -> option val) v e,
  runo (e_in e) (e_cell e) eqo b = Some v ->
  (forall d w, calls b d -> eqo d = Some w -> e_q e d = w) ->
  run e b = v /\ forall d, In (RQ d) (trace e b) -> exists w, eqo d = Some w.
Proof.
  induction b as [v0 | i k IH | d k IH | c k IH | k IH | pc k IH]; intros eqo v e Hr Hq;
    cbn [runo run trace] in *.
  - injection Hr as <-. split; [reflexivity | intros d []].
  - destruct (IH _ eqo v e Hr) as [A B].
    { intros d w Hd. apply Hq. econstructor; exact Hd. }
    split; [exact A |].
    intros d [Hd | Hd]; [discriminate | apply B; exact Hd].
  - destruct (eqo d) as [w |] eqn:Ed; [| discriminate]. rewrite (Hq d w (calls_here d k) Ed).
    destruct (IH _ eqo v e Hr) as [A B].
    { intros d' w' Hd. apply Hq. econstructor; exact Hd. }
    split; [exact A |].
    intros d' [Hd | Hd]; [injection Hd as <-; eauto | apply B; exact Hd].
  - destruct (IH _ eqo v e Hr) as [A B].
    { intros d w Hd. apply Hq. econstructor; exact Hd. }
    split; [exact A |].
    intros d [Hd | Hd]; [discriminate | apply B; exact Hd].
  - destruct (IH eqo v e Hr) as [A B].
    { intros d w Hd. apply Hq. constructor; exact Hd. }
    split; [exact A |].
    intros d [Hd | Hd]; [discriminate | apply B; exact Hd].
  - apply (IH eqo v e Hr). intros d w Hd. apply Hq. constructor; exact Hd.
Qed.

Lemma eval_evalo sn : forall n q v, evalo prog n sn q = Some v ->
  forall m, (n <= m)%nat -> eval prog m sn q = v.
Proof.
  induction n as [| n IH]; intros q v Hv m Hm; [discriminate |].
  destruct m as [| m]; [lia |]. cbn [evalo eval] in *.
  apply (runo_run (prog q) (evalo prog n sn) v
           {| e_in := sn_in sn; e_cell := sn_cell sn; e_q := eval prog m sn |} Hv).
  intros d w _ Hd. cbn. apply (IH d w Hd). lia.
Qed.

(* at a listed key, a value found with any fuel is the total evaluation's *)
Lemma evalo_eval sn n q v : In q ns -> evalo prog n sn q = Some v ->
  evalo prog NF sn q = Some v /\ eval prog NF sn q = v.
Proof.
  intros Hq Hv.
  assert (Hb : evalo prog NF sn q = Some v).
  { apply (evalo_mono prog sn (length ns) NF q v HNF).
    apply (evalo_bound prog sn ns Hclosed q v Hq). exists n. exact Hv. }
  split; [exact Hb |]. apply (eval_evalo sn NF q v Hb NF). lia.
Qed.

Lemma acs_value sn q : In q ns -> acs sn q -> evalo prog NF sn q = Some (eval prog NF sn q).
Proof.
  intros Hq (n & v & Hv). destruct (evalo_eval sn n q v Hq Hv) as [A B]. rewrite B. exact A.
Qed.

(* one unfolding of a terminating evaluation, against the total environment *)
Lemma evalo_step_run sn n q v : In q ns -> evalo prog (S n) sn q = Some v ->
  run (env_of sn) (prog q) = v /\
  forall d, In (RQ d) (trace (env_of sn) (prog q)) -> exists w, evalo prog n sn d = Some w.
Proof.
  intros Hq Hv. cbn [evalo] in Hv.
  apply (runo_run (prog q) (evalo prog n sn) v (env_of sn) Hv).
  intros d w Hc Hd. cbn. apply (evalo_eval sn n d w); [apply (Hclosed q d Hq Hc) | exact Hd].
Qed.

(* the fixpoint equation and the callees, at an acyclic query *)
Lemma acs_unfold sn q : In q ns -> acs sn q ->
  eval prog NF sn q = run (env_of sn) (prog q) /\
  forall d, In (RQ d) (trace (env_of sn) (prog q)) -> acs sn d /\ In d ns.
Proof.
  intros Hq (n & v & Hv). destruct (evalo_eval sn n q v Hq Hv) as [_ HE].
  destruct n as [| n]; [discriminate |].
  destruct (evalo_step_run sn n q v Hq Hv) as [A B].
  split; [congruence |]. intros d Hd. split.
  - destruct (B d Hd) as (w & Hw). exists n, w. exact Hw.
  - apply (Hclosed q d Hq). eapply calls_of_trace'. exact Hd.
Qed.

(* an acyclic query does not call itself *)
Lemma acs_irrefl sn q : In q ns -> acs sn q -> ~ In (RQ q) (trace (env_of sn) (prog q)).
Proof.
  intros Hq (n & v & Hv) Hin. revert v Hv. induction n as [| n IH]; intros v Hv; [discriminate |].
  destruct (evalo_step_run sn n q v Hq Hv) as [_ B].
  destruct (B q Hin) as (w & Hw). exact (IH w Hw).
Qed.

(* conversely: a query all of whose reads (under the total environment) are acyclic is acyclic *)
Lemma acs_of_body sn : forall b,
  (forall d, In (RQ d) (trace (env_of sn) b) -> acs sn d /\ In d ns) ->
  exists n, runo (sn_in sn) (sn_cell sn) (evalo prog n sn) b = Some (run (env_of sn) b).
Proof.
  induction b as [v0 | i k IH | d k IH | c k IH | k IH | pc k IH]; intros Hall; cbn [runo run trace] in *.
  - exists 0%nat. reflexivity.
  - apply IH. intros d Hd. apply Hall. right; exact Hd.
  - destruct (Hall d (or_introl eq_refl)) as ((n1 & w & Hw) & Hdn).
    destruct (evalo_eval sn n1 d w Hdn Hw) as [_ Hew].
    destruct (IH (e_q (env_of sn) d)) as (n2 & H2).
    { intros d' Hd'. apply Hall. right; exact Hd'. }
    exists (max n1 n2).
    rewrite (evalo_mono prog sn n1 (max n1 n2) d w (Nat.le_max_l _ _) Hw).
    change (e_q (env_of sn) d) with (eval prog NF sn d) in *. rewrite Hew in *.
    apply (runo_mono sn _ (evalo prog n2 sn)); [| exact H2].
    intros q' w' Hq'. apply (evalo_mono prog sn n2); [apply Nat.le_max_r | exact Hq'].
  - apply IH. intros d Hd. apply Hall. right; exact Hd.
  - apply IH. intros d Hd. apply Hall. right; exact Hd.
  - apply IH. exact Hall.
Qed.

Lemma acs_of_trace sn q :
  (forall d, In (RQ d) (trace (env_of sn) (prog q)) -> acs sn d /\ In d ns) -> acs sn q.
Proof.
  intros Hall. destruct (acs_of_body sn (prog q) Hall) as (n & Hn).
  exists (S n), (run (env_of sn) (prog q)). exact Hn.
Qed.

(* ---------------------------------------------------------------- over a history *)
Definition ac (H : hist) (r : rev) (q : qkey) : Prop := acs (H r) q.

Lemma E_unfold' H r q : In q ns -> ac H r q -> E H r q = run (envat H r) (prog q).
Proof. intros Hq Ha. exact (proj1 (acs_unfold (H r) q Hq Ha)). Qed.

Lemma tr_ac H r q d : In q ns -> ac H r q -> In (RQ d) (tr H r q) -> ac H r d /\ In d ns /\ d <> q.
Proof.
  intros Hq Ha Hd. destruct (proj2 (acs_unfold (H r) q Hq Ha) d Hd) as [A B].
  split; [exact A |]. split; [exact B |]. intros ->. exact (acs_irrefl (H r) q Hq Ha Hd).
Qed.

Lemma ac_of_tr H r q : (forall d, In (RQ d) (tr H r q) -> ac H r d /\ In d ns) -> ac H r q.
Proof. apply acs_of_trace. Qed.

Lemma ac_hist_eq H H' r q : H' r = H r -> ac H r q -> ac H' r q.
Proof. unfold ac. intros ->. auto. Qed.

(* ---------------------------------------------------------------- stability without ranks *)
Section Hist.
Variable H : hist.
Variable D : dhist.
Notation durge := (durge prog NF H D).
Notation clos := (clos prog NF H).
Notation wstable := (wstable H D).

Lemma durge_stable' k a b : 1 <= k -> wstable k a b ->
  forall q, durge a k q -> In q ns -> ac H a q -> forall r, a <= r -> r <= b ->
    tr H r q = tr H a q /\ E H r q = E H a q /\ durge r k q /\ ac H r q.
Proof.
  intros Hk Hw q Hd. induction Hd as [q A B IH C]. intros Hq Ha r Har Hrb.
  assert (Hcallee : forall d, In (RQ d) (tr H a q) ->
            tr H r d = tr H a d /\ E H r d = E H a d /\ durge r k d /\ ac H r d).
  { intros d Hx. destruct (tr_ac H a q d Hq Ha Hx) as (Had & Hdn & _).
    apply (IH d Hx Hdn Had r Har Hrb). }
  assert (Hag : agree_on (envat H a) (envat H r) (tr H a q)).
  { intros x Hx. destruct x as [i | d | c |]; cbn.
    - symmetry. apply (Hw i); [apply A; exact Hx | exact Har | exact Hrb].
    - symmetry. apply (Hcallee d Hx).
    - exfalso. assert (k = 0) by (apply (C (RCell c) Hx); right; eauto). lia.
    - reflexivity. }
  destruct (trace_determined (prog q) _ _ Hag) as [Htr Hrun].
  assert (Htr' : tr H r q = tr H a q) by exact Htr.
  assert (Har' : ac H r q).
  { apply ac_of_tr. intros d Hx. rewrite Htr' in Hx. split; [apply (Hcallee d Hx) |].
    apply (tr_ac H a q d Hq Ha Hx). }
  split; [exact Htr' |]. split; [| split; [| exact Har']].
  - rewrite (E_unfold' H r q Hq Har'), (E_unfold' H a q Hq Ha). exact Hrun.
  - constructor; rewrite Htr'.
    + intros i Hi. pose proof (A i Hi) as Hki.
      destruct (Hw i Hki r Har Hrb) as [_ ->]. exact Hki.
    + intros d Hx. apply (Hcallee d Hx).
    + exact C.
Qed.

Lemma clos_stable' k a b f r : 1 <= k -> wstable k a b -> durge a k f -> In f ns -> ac H a f ->
  a <= r -> r <= b -> forall d, clos r f d <-> clos a f d.
Proof.
  intros Hk Hw Hd Hf Ha Har Hrb d. split; intros Hc.
  - revert Hd Hf Ha. induction Hc as [f | f d0 d Hin Hd0 IH]; intros Hd Hf Ha; [apply clos_refl |].
    destruct (durge_stable' k a b Hk Hw f Hd Hf Ha r Har Hrb) as (Htr & _ & _).
    rewrite Htr in Hin. eapply clos_step; [exact Hin |].
    destruct (tr_ac H a f d0 Hf Ha Hin) as (Had & Hdn & _).
    apply IH; [eapply durge_q; eassumption | exact Hdn | exact Had].
  - revert Hd Hf Ha. induction Hc as [f | f d0 d Hin Hd0 IH]; intros Hd Hf Ha; [apply clos_refl |].
    destruct (durge_stable' k a b Hk Hw f Hd Hf Ha r Har Hrb) as (Htr & _ & _).
    eapply clos_step; [rewrite Htr; exact Hin |].
    destruct (tr_ac H a f d0 Hf Ha Hin) as (Had & Hdn & _).
    apply IH; [eapply durge_q; eassumption | exact Hdn | exact Had].
Qed.

(* everything in the closure of an acyclic listed query is acyclic and listed *)
Lemma clos_ac r f d : In f ns -> ac H r f -> clos r f d -> In d ns /\ ac H r d.
Proof.
  intros Hf Ha Hc. induction Hc as [f | f d0 d Hin Hd0 IH]; [split; assumption |].
  destruct (tr_ac H r f d0 Hf Ha Hin) as (Had & Hdn & _). apply IH; assumption.
Qed.

End Hist.

(* ---------------------------------------------------------------- prefixes of traces *)
Lemma trace_prefix_determined : forall b e e' pre x post,
  trace e b = pre ++ x :: post -> agree_on e e' pre -> exists post', trace e' b = pre ++ x :: post'.
Proof.
  induction b as [v0 | i k IH | d k IH | c k IH | k IH | pc k IH]; intros e e' pre x post Ht Hag;
    cbn [trace] in *.
  - destruct pre; discriminate.
  - destruct pre as [| y pre]; cbn [app] in *.
    + injection Ht as <- _. eauto.
    + injection Ht as <- Ht. assert (Hi : e_in e i = e_in e' i) by (apply (Hag (RIn i)); left; reflexivity).
      rewrite <- Hi. destruct (IH _ e e' pre x post Ht) as (post' & Hp).
      { intros y Hy. apply Hag. right; exact Hy. }
      exists post'. now rewrite Hp.
  - destruct pre as [| y pre]; cbn [app] in *.
    + injection Ht as <- _. eauto.
    + injection Ht as <- Ht. assert (Hi : e_q e d = e_q e' d) by (apply (Hag (RQ d)); left; reflexivity).
      rewrite <- Hi. destruct (IH _ e e' pre x post Ht) as (post' & Hp).
      { intros y Hy. apply Hag. right; exact Hy. }
      exists post'. now rewrite Hp.
  - destruct pre as [| y pre]; cbn [app] in *.
    + injection Ht as <- _. eauto.
    + injection Ht as <- Ht. assert (Hi : e_cell e c = e_cell e' c) by (apply (Hag (RCell c)); left; reflexivity).
      rewrite <- Hi. destruct (IH _ e e' pre x post Ht) as (post' & Hp).
      { intros y Hy. apply Hag. right; exact Hy. }
      exists post'. now rewrite Hp.
  - destruct pre as [| y pre]; cbn [app] in *.
    + injection Ht as <- _. eauto.
    + injection Ht as <- Ht. destruct (IH e e' pre x post Ht) as (post' & Hp).
      { intros y Hy. apply Hag. right; exact Hy. }
      exists post'. now rewrite Hp.
  - eapply IH; eassumption.
Qed.

(* a partial run that follows the total trace up to a call without an answer has no answer *)
Lemma runo_blocked_prefix : forall b e (eqo : qkey -> option val) pre d post,
  trace e b = pre ++ RQ d :: post ->
  (forall c w, In (RQ c) pre -> eqo c = Some w -> w = e_q e c) ->
  eqo d = None -> runo (e_in e) (e_cell e) eqo b = None.
Proof.
  induction b as [v0 | i k IH | c0 k IH | c k IH | k IH | pc k IH]; intros e eqo pre d post Ht Hpre Hd;
    cbn [trace runo] in *.
  - destruct pre; discriminate.
  - destruct pre as [| y pre]; cbn [app] in *; [discriminate |]. injection Ht as <- Ht.
    apply (IH _ e eqo pre d post Ht); [| exact Hd]. intros c w Hc. apply Hpre. right; exact Hc.
  - destruct pre as [| y pre]; cbn [app] in *.
    + injection Ht as -> _. now rewrite Hd.
    + injection Ht as <- Ht. destruct (eqo c0) as [w |] eqn:Ec; [| reflexivity].
      rewrite (Hpre c0 w (or_introl eq_refl) Ec).
      apply (IH _ e eqo pre d post Ht); [| exact Hd]. intros c w' Hc. apply Hpre. right; exact Hc.
  - destruct pre as [| y pre]; cbn [app] in *; [discriminate |]. injection Ht as <- Ht.
    apply (IH _ e eqo pre d post Ht); [| exact Hd]. intros c' w Hc. apply Hpre. right; exact Hc.
  - destruct pre as [| y pre]; cbn [app] in *; [discriminate |]. injection Ht as <- Ht.
    apply (IH e eqo pre d post Ht); [| exact Hd]. intros c' w Hc. apply Hpre. right; exact Hc.
  - apply (IH e eqo pre d post Ht Hpre Hd).
Qed.

(* a listed query whose total trace reaches a call that is blocked (relative to the open calls
   plus the query itself) is blocked *)
Lemma blk_of_prefix H c q st pre d post : In q ns ->
  tr H c q = pre ++ RQ d :: post ->
  qblk prog (H c) (q :: st) d -> existsb (key_eqb q) st = false -> qblk prog (H c) st q.
Proof.
  intros Hq Ht Hb Hex. refine (regress prog (H c) q st Hex _). intros n.
  apply (runo_blocked_prefix (prog q) (envat H c) (evaloa prog (H c) n (q :: st)) pre d post Ht).
  - intros c0 w Hc0 Hw. apply evaloa_evalo in Hw.
    assert (Hc0n : In c0 ns).
    { apply (Hclosed q c0 Hq). apply (calls_of_trace' (envat H c)).
      unfold tr, Inv.tr in Ht. rewrite Ht. apply in_or_app. left; exact Hc0. }
    symmetry. apply (evalo_eval (H c) n c0 w Hc0n Hw).
  - apply Hb.
Qed.

End PartSem.

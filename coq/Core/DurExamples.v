(* Core/DurExamples.v — non-vacuity of the durability theorem [from_scratch_dur]: a concrete
   program and history with a HIGH input, a durable memo that is shallow-verified through the
   durability short-cut after a LOW write, a HIGH write that invalidates it, durability
   changes in a write, a synthetic write and a frozen (NEVER_CHANGE) field.  The history
   satisfies the hypotheses of the theorem and (by computation) returns the from-scratch values.
   Also: the durabilities must be the four levels 0..3 -- with an out-of-range level the
   model returns a stale value, so the bound in the theorem is necessary. *)
From Salsa Require Import Base.
From Salsa.Kern Require Import CoreK.
From Salsa.Core Require Import Model Spec Inv InvTop DInvTop.

(* g = a / 2 over the HIGH input a = (0,0);  f = g + b over the LOW input b = (0,1) *)
Definition g_body : body := RdIn (0, 0) (fun a => Ret (a / 2)).
Definition f_body : body := CallQ (1, 0) (fun v => RdIn (0, 1) (fun b => Ret (v + b))).
Definition ex_prog (q : qkey) : body :=
  if key_eqb q (1, 0) then g_body else if key_eqb q (0, 0) then f_body else Ret 0.
Definition ex_rank (q : qkey) : nat := if key_eqb q (0, 0) then 1%nat else 0%nat.
Definition ex_iv (i : ikey) : val := if key_eqb i (0, 0) then 4 else if key_eqb i (0, 1) then 1 else 0.
Definition ex_idur (i : ikey) : dur := if key_eqb i (0, 0) then D_HIGH else D_LOW.
Definition ex_lru (_ : N) : lru_state := {| lru_cap := None; lru_set := [] |}.
Definition ex_noeq (_ : qkey) : bool := false.
Definition ex_init : db := init ex_iv ex_idur ex_lru.

Definition ex_ops : list op :=
  [ OGet (0, 0);              (* f = 3: executes f and g; g's memo is HIGH-durable *)
    OGet (1, 0);              (* g = 2 *)
    OSet (0, 1) 5 None;       (* a LOW write: revision 2, no durable level moves *)
    OGet (1, 0);              (* g = 2 through the durability short-cut: validated, not executed *)
    OGet (0, 0);              (* f = 7: re-executed *)
    OSet (0, 0) 10 None;      (* a HIGH write: reports HIGH, so the short-cut no longer applies *)
    OGet (1, 0);              (* g = 5: re-executed *)
    OGet (0, 0);              (* f = 10 *)
    OSet (0, 0) 10 (Some D_MEDIUM);  (* lower a's durability: the OLD level (HIGH) is reported *)
    OSet (0, 1) 6 None;
    OGet (0, 0);              (* f = 11 *)
    OSynth D_MEDIUM;
    OGet (0, 0);              (* f = 11 *)
    OSet (0, 0) 21 (Some D_NEVER);   (* raise a to NEVER_CHANGE: the old level (MEDIUM) is reported *)
    OGet (0, 0);              (* f = 16 *)
    OSet (0, 0) 1 None;       (* frozen: panics, nothing changes *)
    OGet (0, 0) ].            (* f = 16 *)

Lemma ex_calls_below : calls_below ex_prog ex_rank.
Proof.
  intros q q' Hc. unfold ex_prog in Hc.
  destruct (key_eqb_spec q (1, 0)) as [-> | H1].
  - unfold g_body in Hc. inversion Hc as [| | ? ? v ? Hc' | | |]; subst. inversion Hc'.
  - destruct (key_eqb_spec q (0, 0)) as [-> | H0].
    + unfold f_body in Hc. inversion Hc as [| ? ? v ? Hc' | | | |]; subst.
      * cbn. lia.
      * inversion Hc' as [| | ? ? v' ? Hc'' | | |]; subst. inversion Hc''.
    + inversion Hc.
Qed.

Lemma ex_bound : forall q, (ex_rank q < 2)%nat.
Proof. intros q. unfold ex_rank. destruct (key_eqb q (0, 0)); lia. Qed.

Lemma ex_idur_le : forall i, ex_idur i <= 3.
Proof. intros i. unfold ex_idur, D_HIGH, D_LOW. destruct (key_eqb i (0, 0)); lia. Qed.

Lemma ex_dur_ops : Forall dur_op ex_ops.
Proof. repeat constructor; cbn; unfold D_MEDIUM, D_NEVER; lia. Qed.

Lemma ex_wf : wf_ops false ex_ops.
Proof. cbn. repeat split. Qed.

(* the hypotheses of the theorem hold, hence its conclusion *)
Example ex_outs_ok : outs_ok ex_prog ex_noeq [] 2 2 ex_init ex_ops.
Proof.
  apply (from_scratch_dur ex_prog ex_noeq [] ex_rank ex_calls_below 2 ex_bound 2 ex_bound
           ex_ops false ex_init ex_dur_ops ex_wf).
  apply init_ok_dur. exact ex_idur_le.
Qed.

(* ... and by computation: the results, which are the from-scratch values *)
Fixpoint outs_okb (prog : qkey -> body) (noeq : qkey -> bool) (fams : list N) (NF fuel : nat)
         (s : db) (os : list op) : bool :=
  match os with
  | [] => true
  | o :: os' =>
      (match o with
       | OGet q => match snd (step prog noeq fams fuel s o) with
                   | Ok v => v =? eval prog NF (snap_of s) q
                   | _ => false
                   end
       | _ => true
       end) && outs_okb prog noeq fams NF fuel (fst (step prog noeq fams fuel s o)) os'
  end.

Definition ex_run (n : nat) : db * list out := run_ops ex_prog ex_noeq [] 2 ex_init (firstn n ex_ops).

Example ex_values :
  snd (ex_run 17) =
    [Ok 3; Ok 2; Ok 0; Ok 2; Ok 7; Ok 0; Ok 5; Ok 10; Ok 0; Ok 0; Ok 11; Ok 0; Ok 11; Ok 0; Ok 16;
     Panic PNeverChange; Ok 16] /\
  outs_okb ex_prog ex_noeq [] 2 2 ex_init ex_ops = true.
Proof. vm_compute. split; reflexivity. Qed.

(* the fourth operation is served by the short-cut: g's memo is HIGH-durable, it is marked
   verified in revision 2 (validated, not executed) while last_changed(HIGH) = 1 <= its old
   verified_at = 1; after the HIGH write it is executed again *)
Example ex_shortcut_fires :
  d_log (fst (ex_run 3)) = [EvExec (1, 0); EvExec (0, 0)] /\
  option_map m_verified (d_memo (fst (ex_run 3)) (1, 0)) = Some 1 /\
  d_log (fst (ex_run 4)) = [EvValidate (1, 0); EvExec (1, 0); EvExec (0, 0)] /\
  option_map (fun m => (m_verified m, m_changed m, m_dur m)) (d_memo (fst (ex_run 4)) (1, 0)) = Some (2, 1, 2) /\
  d_revs (fst (ex_run 4)) = {| r_cur := 2; r_med := 1; r_high := 1 |} /\
  d_revs (fst (ex_run 6)) = {| r_cur := 3; r_med := 3; r_high := 3 |} /\
  firstn 1 (d_log (fst (ex_run 7))) = [EvExec (1, 0)].
Proof. vm_compute. repeat split. Qed.

(* The bound on durabilities is necessary: with an out-of-range level (4) the model treats
   the field as never-changing for memos but still accepts writes to it, and returns a stale
   value.  (The Rust API cannot express such a level: Durability has exactly four values.) *)
Definition bad_idur (i : ikey) : dur := if key_eqb i (0, 0) then 4 else 0.
Definition bad_ops : list op := [OGet (1, 0); OSet (0, 0) 10 None; OGet (1, 0)].

Example out_of_range_durability_is_stale :
  snd (run_ops ex_prog ex_noeq [] 2 (init ex_iv bad_idur ex_lru) bad_ops) = [Ok 2; Ok 0; Ok 2] /\
  ~ outs_ok ex_prog ex_noeq [] 2 2 (init ex_iv bad_idur ex_lru) bad_ops.
Proof.
  split; [vm_compute; reflexivity|].
  intros Hx. cbn [outs_ok] in Hx. destruct Hx as (_ & _ & Hg & _).
  destruct Hg as [Hg | (p & Hg & _)]; vm_compute in Hg; discriminate.
Qed.

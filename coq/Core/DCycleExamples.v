(* Core/DCycleExamples.v — non-vacuity of the cycle theorems (C14): a program that is cyclic
   while an input bit is set.  Gets of the cyclic nodes panic with the cycle error, an unrelated
   node is served; a write clears the bit; afterwards the formerly cyclic nodes return their
   from-scratch values.  And: the hypotheses of [gets_fresh] hold for this program, so its
   conclusion (which the run exhibits) is the theorem's. *)
From Coq Require Import PeanoNat Lia.
From Salsa Require Import Base.
From Salsa.Kern Require Import CoreK.
From Salsa.Core Require Import Model Spec DCycleSem DCycleInv DCycleBound DCycleTop DCycleTerm DCycleTermTop.

(* a = if bit then b else 7;  b = a + 1;  c = x + 1 (unrelated);  bit = input (0,0), x = input (0,1) *)
Definition cy_a : qkey := (1, 0).
Definition cy_b : qkey := (1, 1).
Definition cy_c : qkey := (1, 2).
Definition cy_a_body : body := RdIn (0, 0) (fun bit => if bit =? 0 then Ret 7 else CallQ cy_b (fun v => Ret v)).
Definition cy_b_body : body := CallQ cy_a (fun v => Ret (v + 1)).
Definition cy_c_body : body := RdIn (0, 1) (fun x => Ret (x + 1)).
Definition cy_prog (q : qkey) : body :=
  if key_eqb q cy_a then cy_a_body else if key_eqb q cy_b then cy_b_body
  else if key_eqb q cy_c then cy_c_body else Ret 0.
Definition cy_iv (i : ikey) : val := if key_eqb i (0, 0) then 1 else if key_eqb i (0, 1) then 4 else 0.
Definition cy_idur (_ : ikey) : dur := D_LOW.
Definition cy_lru (_ : N) : lru_state := {| lru_cap := None; lru_set := [] |}.
Definition cy_noeq (_ : qkey) : bool := false.
Definition cy_init : db := init cy_iv cy_idur cy_lru.
Definition cy_ns : list qkey := [cy_a; cy_b; cy_c].

Definition cy_ops : list op :=
  [ OGet cy_a;             (* a -> b -> a: cycle panic *)
    OGet cy_c;             (* unrelated: served *)
    OGet cy_b;             (* b -> a -> b: cycle panic *)
    OSet (0, 0) 0 None;    (* clear the bit *)
    OGet cy_b;             (* 8 *)
    OGet cy_a;             (* 7 *)
    OSet (0, 0) 1 None;    (* set it again *)
    OGet cy_b ].           (* cyclic again *)

(* the run *)
Example cy_run :
  snd (run_ops cy_prog cy_noeq [] 3 cy_init cy_ops)
  = [Panic PCycle; Ok 5; Panic PCycle; Ok 0; Ok 8; Ok 7; Ok 0; Panic PCycle].
Proof. vm_compute. reflexivity. Qed.

(* the from-scratch evaluation at the three snapshots *)
Example cy_spec_set :
  map (evalo cy_prog 3 (snap_of cy_init)) cy_ns = [None; None; Some 5].
Proof. vm_compute. reflexivity. Qed.

Example cy_spec_cleared :
  let s := fst (run_ops cy_prog cy_noeq [] 3 cy_init (firstn 4 cy_ops)) in
  map (evalo cy_prog 3 (snap_of s)) cy_ns = [Some 7; Some 8; Some 5].
Proof. vm_compute. reflexivity. Qed.

(* the hypotheses of the theorem *)
Lemma cy_closed : closed_calls cy_prog cy_ns.
Proof.
  intros q d Hq Hc. unfold cy_ns in Hq. cbn [In] in Hq.
  destruct Hq as [<- | [<- | [<- | []]]]; unfold cy_prog in Hc; cbn in Hc.
  - unfold cy_a_body in Hc. inversion Hc as [| | ? ? v ? Hc' | | |]; subst.
    destruct (v =? 0); [inversion Hc' |].
    inversion Hc' as [| ? ? w ? Hc'' | | | |]; subst; [right; left; reflexivity | inversion Hc''].
  - unfold cy_b_body in Hc. inversion Hc as [| ? ? w ? Hc' | | | |]; subst; [left; reflexivity | inversion Hc'].
  - unfold cy_c_body in Hc. inversion Hc as [| | ? ? v ? Hc' | | |]; subst. inversion Hc'.
Qed.

(* so, by the theorem (no computation of the model involved), on the initial revision: *)
Example cy_by_theorem : forall fuel, (3 <= fuel)%nat ->
  snd (run_ops cy_prog cy_noeq [] fuel cy_init (map OGet [cy_a; cy_c; cy_b; cy_c; cy_a]))
  = [Panic PCycle; Ok 5; Panic PCycle; Ok 5; Panic PCycle].
Proof.
  intros fuel Hf.
  destruct (gets_fresh cy_prog cy_noeq [] (snap_of cy_init) cy_ns cy_closed fuel Hf
              [cy_a; cy_c; cy_b; cy_c; cy_a] cy_init) as (_ & H).
  - intros x Hx. cbn [In] in Hx. unfold cy_ns. cbn [In]. intuition.
  - apply init_fresh.
  - remember (snd (run_ops cy_prog cy_noeq [] fuel cy_init (map OGet [cy_a; cy_c; cy_b; cy_c; cy_a]))) as outs.
    clear Heqouts.
    repeat match goal with
           | H : Forall2 _ (_ :: _) _ |- _ => inversion H; subst; clear H
           | H : Forall2 _ [] _ |- _ => inversion H; subst; clear H
           end.
    repeat match goal with
           | H : get_answer _ _ _ _ _ |- _ => unfold get_answer in H; vm_compute in H
           end.
    subst. reflexivity.
Qed.

(* and over the whole history (writes included) no Get runs out of fuel, by [never_fuel] *)
Example cy_never_fuel : forall fuel, (3 <= fuel)%nat ->
  Forall (fun o => o <> Fuel) (snd (run_ops cy_prog cy_noeq [] fuel cy_init cy_ops)).
Proof.
  intros fuel Hf.
  apply (never_fuel cy_prog cy_noeq [] cy_ns cy_closed fuel Hf cy_ops cy_init).
  - unfold cy_ops, cy_ns. repeat (apply Forall_cons; [cbn [op_listed In]; auto 6 |]). apply Forall_nil.
  - apply init_idle.
Qed.

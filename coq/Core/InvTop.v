(* Core/InvTop.v — the invariant across API operations: new revisions, writes, eviction,
   reads; and the from-scratch theorem for histories whose inputs all have LOW durability. *)
From Salsa Require Import Base.
From Salsa.Kern Require Import CoreK CoreKFacts.
From Salsa.Core Require Import Model Spec SpecProofs Wp Inv InvFrame InvSem InvOps.

Ltac conj := repeat match goal with |- _ /\ _ => split end.

Section Top.
Variable prog : qkey -> body.
Variable noeq : qkey -> bool.
Variable fams : list N.
Variable rank : qkey -> nat.
Hypothesis Hrank : calls_below prog rank.
Variable NF : nat.
Hypothesis Hbound : forall q, (rank q < NF)%nat.
Notation E := (E prog NF).
Notation tr := (tr prog NF).
Notation memo_ok := (memo_ok prog NF).
Notation Inv := (Inv prog NF).
Notation quiet := (quiet prog NF).

(* ---------------------------------------------------------------- histories *)
Definition extend (H : hist) (c : rev) (sn : snapshot) : hist :=
  fun r => if r =? c then sn else H r.

Lemma extend_same H c sn : extend H c sn c = sn.
Proof. unfold extend. rewrite N.eqb_refl. reflexivity. Qed.

Lemma extend_other H c sn r : r <> c -> extend H c sn r = H r.
Proof. unfold extend. intros Hne. apply N.eqb_neq in Hne. rewrite Hne. reflexivity. Qed.

Lemma E_hist_eq H H' r q : H' r = H r -> E H' r q = E H r q.
Proof. unfold E, Inv.E. intros ->. reflexivity. Qed.

Lemma tr_hist_eq H H' r q : H' r = H r -> tr H' r q = tr H r q.
Proof. unfold tr, Inv.tr, envat, Inv.E. intros ->. reflexivity. Qed.

(* ---------------------------------------------------------------- eviction only forgets values *)
Definition evicted_from (mm mm' : qkey -> option memo) : Prop :=
  forall q, mm' q = mm q \/ exists m, mm q = Some m /\ mm' q = Some (evict_memo m).

Lemma evict_memo_idem m : evict_memo (evict_memo m) = evict_memo m.
Proof. unfold evict_memo. destruct (m_untracked m) eqn:Hu; [rewrite Hu; reflexivity | reflexivity]. Qed.

Lemma evicted_refl mm : evicted_from mm mm.
Proof. intros q; left; reflexivity. Qed.

Lemma evicted_trans a b c : evicted_from a b -> evicted_from b c -> evicted_from a c.
Proof.
  intros Hab Hbc q. destruct (Hab q) as [Hq | (m & Hm & Hq)], (Hbc q) as [Hq' | (m' & Hm' & Hq')].
  - left; congruence.
  - right. exists m'. split; congruence.
  - right. exists m. split; congruence.
  - right. exists m. split; [exact Hm|]. rewrite Hq', Hq in *. injection Hm' as <-.
    rewrite evict_memo_idem. reflexivity.
Qed.

Lemma evict_keys_evicted fam ks : forall mm, evicted_from mm (evict_keys fam ks mm).
Proof.
  unfold evict_keys. induction ks as [|k ks IH]; intros mm; cbn [fold_left].
  - apply evicted_refl.
  - eapply evicted_trans; [|apply IH].
    intros q. destruct (mm (fam, k)) as [m|] eqn:Hm; [|left; reflexivity].
    unfold upd. destruct (key_eqb_spec (fam, k) q) as [<- | Hne]; [|left; reflexivity].
    right. exists m. split; [exact Hm | reflexivity].
Qed.

(* what an eviction pass leaves alone *)
Record same_but_memos (s s' : db) : Prop := {
  sb_revs : d_revs s' = d_revs s;
  sb_in : d_in s' = d_in s;
  sb_cell : d_cell s' = d_cell s;
  sb_seen : d_seen s' = d_seen s;
  sb_memo : evicted_from (d_memo s) (d_memo s')
}.

Lemma sbm_refl s : same_but_memos s s.
Proof. constructor; auto using evicted_refl. Qed.

Lemma sbm_trans a b c : same_but_memos a b -> same_but_memos b c -> same_but_memos a c.
Proof.
  intros [a1 a2 a3 a4 a5] [b1 b2 b3 b4 b5]. constructor; try congruence.
  eapply evicted_trans; eassumption.
Qed.

Lemma evict_all_sbm : forall fs s, same_but_memos s (evict_all fs s).
Proof.
  unfold evict_all. induction fs as [|f fs IH]; intros s; cbn [fold_left].
  - apply sbm_refl.
  - eapply sbm_trans; [|apply IH].
    destruct (lru_evict (d_lru s f)) as [ev l'].
    constructor; try reflexivity. cbn. apply evict_keys_evicted.
Qed.

(* ---------------------------------------------------------------- memo_ok is insensitive to ... *)
Lemma memo_ok_evict H s q m : memo_ok H s q m -> memo_ok H s q (evict_memo m).
Proof.
  intros Hok. unfold evict_memo. destruct (m_untracked m) eqn:Hu; [exact Hok|].
  destruct Hok as [a b c d e f g h i j].
  constructor; cbn; auto.
  - intros x Hx; discriminate.
  - rewrite Hu in e. exact e.
  - discriminate.
  - rewrite Hu in i. exact i.
Qed.

(* moving a memo_ok fact to a state with the same ghost pairs, a later (or equal) current
   revision and a history that agrees on the past *)
Lemma memo_ok_move H H' s s' q m :
  d_seen s' = d_seen s -> cur s <= cur s' ->
  (forall r, r <= cur s -> H' r = H r) ->
  (forall r, seen s q r -> r <= cur s) ->
  memo_ok H s q m -> memo_ok H' s' q m.
Proof.
  intros Hs Hc HH Hsl [a b c d e f g h i j].
  assert (Hv : m_verified m <= cur s) by lia.
  assert (Hseen : forall p r, seen s' p r <-> seen s p r).
  { intros p r. unfold seen. rewrite Hs. tauto. }
  constructor; rewrite ?(tr_hist_eq H H' _ q (HH _ Hv)); auto.
  - lia.
  - intros x Hx. rewrite (E_hist_eq H H' _ q (HH _ Hv)). apply b; exact Hx.
  - intros d0 Hd0. destruct (f d0 Hd0) as [A B]. split; [exact A | apply Hseen; exact B].
  - intros r Hr Hle. apply Hseen in Hr.
    rewrite (E_hist_eq H H' _ q (HH _ Hv)), (E_hist_eq H H' r q (HH _ (Hsl r Hr))).
    apply g; assumption.
  - apply Hseen; exact j.
Qed.

(* ---------------------------------------------------------------- the invariant modulo cells *)
(* [Inv_d]: the invariant, except that the external cells may have moved since the current
   revision started (they are re-read into the history at the next revision). *)
Definition Inv_d (H : hist) (s : db) : Prop := Inv H (set_cell s (sn_cell (H (cur s)))).

Lemma Inv_to_d H s : Inv H s -> Inv_d H s.
Proof.
  intros [a b c d e f g]. unfold Inv_d.
  constructor; auto.
  intros q m Hm.
    apply (memo_ok_move H H s (set_cell s (sn_cell (H (cur s)))) q m eq_refl (N.le_refl _) (fun r _ => eq_refl)
             (fun r Hr => proj1 (g q r Hr)) (f q m Hm)).
Qed.

(* The general transfer lemma: from (dirty) s under H to s' under H'. *)
Lemma Inv_transfer H H' s s' :
  Inv_d H s ->
  cur s <= cur s' -> 1 <= cur s' ->
  d_seen s' = d_seen s ->
  evicted_from (d_memo s) (d_memo s') ->
  (* the past is kept on everything verified or seen *)
  (forall r, (exists q, seen s q r) \/ (exists q m, d_memo s q = Some m /\ m_verified m = r) ->
             H' r = H r) ->
  (forall i r, f_changed (d_in s' i) <= r -> r <= cur s' -> sn_in (H' r) i = f_val (d_in s' i)) ->
  (forall i, f_changed (d_in s' i) <= cur s') ->
  (forall c, sn_cell (H' (cur s')) c = d_cell s' c) ->
  (forall i, f_dur (d_in s' i) = 0) ->
  Inv H' s'.
Proof.
  intros HI Hc H1 Hs Hev Hpast Hin Hinle Hcell Hlow.
  unfold Inv_d in HI. destruct HI as [a b c d e f g].
  change (cur (set_cell s _)) with (cur s) in *.
  change (d_memo (set_cell s _)) with (d_memo s) in *.
  assert (Hseen : forall p r, seen s' p r <-> seen s p r).
  { intros p r. unfold seen. rewrite Hs. tauto. }
  assert (Hok : forall q m, d_memo s q = Some m -> memo_ok H' s' q m).
  { intros q m Hm. specialize (f q m Hm).
    destruct f as [a0 b0 c0 d0 e0 f0 g0 h0 i0 j0].
    assert (HHv : H' (m_verified m) = H (m_verified m)).
    { apply Hpast. right. exists q, m. split; [exact Hm | reflexivity]. }
    constructor; rewrite ?(tr_hist_eq H H' _ q HHv); auto.
    - destruct a0 as (A1 & A2 & A3). change (m_verified m <= cur s) in A3. lia.
    - intros x Hx. rewrite (E_hist_eq H H' _ q HHv). apply b0; exact Hx.
    - intros d1 Hd1. destruct (f0 d1 Hd1) as [A B]. split; [exact A | apply Hseen; exact B].
    - intros r Hr Hle. apply Hseen in Hr.
      assert (HHr : H' r = H r) by (apply Hpast; left; exists q; exact Hr).
      rewrite (E_hist_eq H H' _ q HHv), (E_hist_eq H H' r q HHr).
      apply g0; assumption.
    - apply Hseen; exact j0. }
  constructor; auto.
  - intros q m' Hm'. destruct (Hev q) as [Heq | (m & Hm & Heq)].
    + apply Hok. congruence.
    + rewrite Heq in Hm'. injection Hm' as <-. apply memo_ok_evict. apply Hok; exact Hm.
  - intros q r Hr. apply Hseen in Hr.
    destruct (g q r Hr) as (Hle & (m & Hm & Hrv) & Hcl).
    split; [lia|]. split.
    + destruct (Hev q) as [Heq | (m0 & Hm0 & Heq)].
      * exists m. split; [congruence | exact Hrv].
      * exists (evict_memo m0). split; [exact Heq|].
        assert (m0 = m) by congruence. subst m0.
        unfold evict_memo. destruct (m_untracked m); exact Hrv.
    + assert (HHr : H' r = H r) by (apply Hpast; left; exists q; exact Hr).
      intros d0 Hd0. rewrite (tr_hist_eq H H' r q HHr) in Hd0.
      destruct (Hcl d0 Hd0) as [A | B]; [left; apply Hseen; exact A | right; exact B].
Qed.

(* ---------------------------------------------------------------- snapshots up to pointwise equality *)
Definition snap_eq (a b : snapshot) : Prop :=
  (forall i, sn_in a i = sn_in b i) /\ (forall c, sn_cell a c = sn_cell b c).

Lemma eval_snap_eq a b : snap_eq a b -> forall n q, eval prog n a q = eval prog n b q.
Proof.
  intros [Hi Hc]. induction n as [|n IH]; intros q; [reflexivity|].
  cbn [eval].
  set (ea := {| e_in := sn_in a; e_cell := sn_cell a; e_q := eval prog n a |}).
  set (eb := {| e_in := sn_in b; e_cell := sn_cell b; e_q := eval prog n b |}).
  destruct (trace_determined (prog q) ea eb) as [_ Hr]; [|symmetry; exact Hr].
  intros x _. destruct x as [i | d | c |]; cbn; auto.
Qed.

Lemma Inv_snap H s : Inv H s -> snap_eq (H (cur s)) (snap_of s).
Proof.
  intros HI. split; cbn.
  - intros i. apply (inv_in _ _ _ _ HI); [apply (inv_in_le _ _ _ _ HI) | lia].
  - apply (inv_cell _ _ _ _ HI).
Qed.

(* ---------------------------------------------------------------- "ok" states *)
Definition OK (s : db) : Prop := exists H, Inv H s.
Definition OK_d (s : db) : Prop := exists H, Inv_d H s.

Lemma OK_to_d s : OK s -> OK_d s.
Proof. intros [H HI]. exists H. apply Inv_to_d; exact HI. Qed.

Lemma Inv_d_facts H s : Inv_d H s ->
  1 <= cur s /\
  (forall q r, seen s q r -> r <= cur s) /\
  (forall q m, d_memo s q = Some m -> m_verified m <= cur s) /\
  (forall i r, f_changed (d_in s i) <= r -> r <= cur s -> sn_in (H r) i = f_val (d_in s i)) /\
  (forall i, f_changed (d_in s i) <= cur s) /\ (forall i, f_dur (d_in s i) = 0).
Proof.
  unfold Inv_d. intros [a b c d e f g].
  split; [exact a|]. split; [intros q r Hr; apply (g q r Hr)|]. split.
  - intros q m Hm. pose proof (mo_order _ _ _ _ _ _ (f q m Hm)) as (_ & _ & Hv). exact Hv.
  - auto.
Qed.

(* changes that keep the current revision's memos, ghost pairs, inputs: anything goes *)
Lemma OK_d_same s s' :
  OK_d s -> cur s' = cur s -> d_in s' = d_in s -> d_seen s' = d_seen s ->
  evicted_from (d_memo s) (d_memo s') -> OK_d s'.
Proof.
  intros [H HI] Hc Hi Hs Hev. exists H.
  destruct (Inv_d_facts H s HI) as (F1 & F2 & F3 & F4 & F5 & F6).
  unfold Inv_d.
  apply (Inv_transfer H H s (set_cell s' (sn_cell (H (cur s'))))); auto.
  - change (cur (set_cell s' _)) with (cur s'). lia.
  - change (cur (set_cell s' _)) with (cur s'). lia.
  - change (d_in (set_cell s' _)) with (d_in s'). change (cur (set_cell s' _)) with (cur s').
    rewrite Hi, Hc. exact F4.
  - change (d_in (set_cell s' _)) with (d_in s'). change (cur (set_cell s' _)) with (cur s').
    rewrite Hi, Hc. exact F5.
  - change (d_in (set_cell s' _)) with (d_in s'). rewrite Hi. exact F6.
Qed.

Lemma OK_same s s' :
  OK s -> cur s' = cur s -> d_in s' = d_in s -> d_cell s' = d_cell s ->
  d_seen s' = d_seen s -> evicted_from (d_memo s) (d_memo s') -> OK s'.
Proof.
  intros [H HI] Hc Hi Hce Hs Hev. exists H.
  destruct (Inv_d_facts H s (Inv_to_d H s HI)) as (F1 & F2 & F3 & F4 & F5 & F6).
  apply (Inv_transfer H H s s'); auto.
  - apply Inv_to_d; exact HI.
  - lia.
  - lia.
  - rewrite Hi, Hc. exact F4.
  - rewrite Hi, Hc. exact F5.
  - rewrite Hc, Hce. apply (inv_cell _ _ _ _ HI).
  - rewrite Hi. exact F6.
Qed.

(* a state in which nothing has been verified or seen at the current revision yet *)
Definition fresh (s : db) : Prop :=
  (forall q r, seen s q r -> r < cur s) /\
  (forall q m, d_memo s q = Some m -> m_verified m < cur s).

(* starting a new revision, possibly rewriting inputs in it *)
Lemma OK_advance s s' :
  OK_d s -> cur s' = cur s + 1 -> d_seen s' = d_seen s ->
  evicted_from (d_memo s) (d_memo s') ->
  (forall i, d_in s' i = d_in s i \/ f_changed (d_in s' i) = cur s') ->
  (forall i, f_dur (d_in s' i) = 0) ->
  OK s' /\ fresh s'.
Proof.
  intros [H HI] Hc Hs Hev Hin Hlow.
  destruct (Inv_d_facts H s HI) as (F1 & F2 & F3 & F4 & F5 & F6).
  assert (Hseen : forall p r, seen s' p r <-> seen s p r).
  { intros p r. unfold seen. rewrite Hs. tauto. }
  split.
  - exists (extend H (cur s') (snap_of s')).
    apply (Inv_transfer H _ s s'); auto; try lia.
    + intros r Hr. apply extend_other. destruct Hr as [(q & Hq) | (q & m & Hm & <-)].
      * specialize (F2 q r Hq). lia.
      * specialize (F3 q m Hm). lia.
    + intros i r Hle Hr. destruct (N.eq_dec r (cur s')) as [-> | Hne].
      * rewrite extend_same. reflexivity.
      * rewrite extend_other by exact Hne.
        destruct (Hin i) as [Heq | Hch]; [|lia].
        rewrite Heq in *. apply F4; lia.
    + intros i. destruct (Hin i) as [Heq | Hch]; [|lia]. rewrite Heq. specialize (F5 i). lia.
    + intros c. rewrite extend_same. reflexivity.
  - split.
    + intros q r Hr. apply Hseen in Hr. specialize (F2 q r Hr). lia.
    + intros q m Hm. destruct (Hev q) as [Heq | (m0 & Hm0 & Heq)].
      * rewrite Heq in Hm. specialize (F3 q m Hm). lia.
      * rewrite Heq in Hm. injection Hm as <-. specialize (F3 q m0 Hm0).
        unfold evict_memo. destruct (m_untracked m0); cbn; lia.
Qed.

(* rewriting inputs inside a fresh revision *)
Lemma OK_rewrite s s' :
  OK s -> fresh s -> cur s' = cur s -> d_seen s' = d_seen s -> d_memo s' = d_memo s ->
  (forall i, d_in s' i = d_in s i \/ f_changed (d_in s' i) = cur s') ->
  (forall i, f_dur (d_in s' i) = 0) ->
  OK s'.
Proof.
  intros [H HI] [Hf1 Hf2] Hc Hs Hm Hin Hlow.
  destruct (Inv_d_facts H s (Inv_to_d H s HI)) as (F1 & F2 & F3 & F4 & F5 & F6).
  exists (extend H (cur s') (snap_of s')).
  apply (Inv_transfer H _ s s'); auto; try lia.
  - apply Inv_to_d; exact HI.
  - rewrite Hm. apply evicted_refl.
  - intros r Hr. apply extend_other. destruct Hr as [(q & Hq) | (q & m & Hmm & <-)].
    + specialize (Hf1 q r Hq). lia.
    + specialize (Hf2 q m Hmm). lia.
  - intros i r Hle Hr. destruct (N.eq_dec r (cur s')) as [-> | Hne].
    + rewrite extend_same. reflexivity.
    + rewrite extend_other by exact Hne.
      destruct (Hin i) as [Heq | Hch]; [|lia].
      rewrite Heq in *. apply F4; lia.
  - intros i. destruct (Hin i) as [Heq | Hch]; [|lia]. rewrite Heq. specialize (F5 i). lia.
  - intros c. rewrite extend_same. reflexivity.
Qed.

(* ---------------------------------------------------------------- operations *)
Lemma new_revision_facts s :
  cur (new_revision fams s) = cur s + 1 /\ d_seen (new_revision fams s) = d_seen s /\
  d_in (new_revision fams s) = d_in s /\ d_cell (new_revision fams s) = d_cell s /\
  d_stack (new_revision fams s) = d_stack s /\
  evicted_from (d_memo s) (d_memo (new_revision fams s)).
Proof.
  unfold new_revision.
  set (s1 := set_ccount _ 0).
  destruct (evict_all_sbm fams s1) as [a b c d e].
  assert (Hst : forall fs t, d_stack (evict_all fs t) = d_stack t).
  { unfold evict_all. induction fs as [|f fs IH]; intros t; cbn [fold_left]; [reflexivity|].
    rewrite IH. destruct (lru_evict (d_lru t f)); reflexivity. }
  unfold cur. rewrite a, b, c, d, Hst. cbn. conj; auto.
Qed.

Lemma OK_d_new_revision s : OK_d s -> OK (new_revision fams s) /\ fresh (new_revision fams s).
Proof.
  intros Hok. destruct (new_revision_facts s) as (A & B & C & D & _ & F).
  destruct Hok as [H HI]. destruct (Inv_d_facts H s HI) as (_ & _ & _ & _ & _ & F6).
  apply (OK_advance s); auto.
  - exists H; exact HI.
  - intros i. left. rewrite C. reflexivity.
  - intros i. rewrite C. apply F6.
Qed.

Lemma zalsa_mut_stack s : d_stack (zalsa_mut fams s) = d_stack s.
Proof.
  unfold zalsa_mut. destruct (d_ccount s =? 255); [|reflexivity].
  destruct (new_revision_facts s) as (_ & _ & _ & _ & E0 & _). exact E0.
Qed.

Lemma OK_d_zalsa_mut s : OK_d s -> OK_d (zalsa_mut fams s).
Proof.
  intros Hok. unfold zalsa_mut. destruct (d_ccount s =? 255).
  - apply OK_to_d. apply OK_d_new_revision; exact Hok.
  - apply (OK_d_same s); auto. apply evicted_refl.
Qed.

Lemma OK_zalsa_mut s : OK s -> OK (zalsa_mut fams s).
Proof.
  intros Hok. unfold zalsa_mut. destruct (d_ccount s =? 255).
  - apply OK_d_new_revision. apply OK_to_d; exact Hok.
  - apply (OK_same s); auto. apply evicted_refl.
Qed.

Lemma evict_all_facts s :
  cur (evict_all fams s) = cur s /\ d_seen (evict_all fams s) = d_seen s /\
  d_in (evict_all fams s) = d_in s /\ d_cell (evict_all fams s) = d_cell s /\
  evicted_from (d_memo s) (d_memo (evict_all fams s)).
Proof.
  destruct (evict_all_sbm fams s) as [a b c d e]. unfold cur. rewrite a. conj; auto.
Qed.

Lemma evict_all_stack : forall fs t, d_stack (evict_all fs t) = d_stack t.
Proof.
  unfold evict_all. induction fs as [|f fs IH]; intros t; cbn [fold_left]; [reflexivity|].
  rewrite IH. destruct (lru_evict (d_lru t f)); reflexivity.
Qed.

Definition low_op (o : op) : Prop :=
  match o with OSet _ _ (Some d) => d = 0 | _ => True end.

(* a cell change must be followed by a new revision before the next read *)
Fixpoint wf_ops (dirty : bool) (os : list op) : Prop :=
  match os with
  | [] => True
  | o :: os' =>
      match o with
      | OGet _ => dirty = false /\ wf_ops false os'
      | OSetCell _ _ => wf_ops true os'
      | OSet _ _ _ | OSynth _ => wf_ops false os'
      | _ => wf_ops dirty os'
      end
  end.

Definition get_ok (s : db) (q : qkey) (r : out) : Prop :=
  r = Ok (eval prog NF (snap_of s) q) \/ exists p, r = Panic p /\ allowed s p.

Fixpoint outs_ok (fuel : nat) (s : db) (os : list op) : Prop :=
  match os with
  | [] => True
  | o :: os' =>
      (match o with OGet q => get_ok s q (snd (step prog noeq fams fuel s o)) | _ => True end) /\
      outs_ok fuel (fst (step prog noeq fams fuel s o)) os'
  end.

Definition state_ok (dirty : bool) (s : db) : Prop :=
  (if dirty then OK_d s else OK s) /\ d_stack s = [].

Lemma state_ok_weaken dirty s : state_ok false s -> state_ok dirty s.
Proof. destruct dirty; [|auto]. intros [A B]. split; [apply OK_to_d; exact A | exact B]. Qed.

Lemma state_ok_d dirty s : state_ok dirty s -> OK_d s.
Proof. destruct dirty; intros [A _]; [exact A | apply OK_to_d; exact A]. Qed.

Lemma step_get_ok fuel s q :
  (forall p, (rank p < fuel)%nat) -> state_ok false s ->
  get_ok s q (snd (step prog noeq fams fuel s (OGet q))) /\
  state_ok false (fst (step prog noeq fams fuel s (OGet q))).
Proof.
  intros Hfuel [[H HI] Hst]. cbn [step].
  destruct (level_ok prog noeq rank Hrank NF Hbound H fuel) as [HF HM].
  assert (Hso : stack_ok rank s q) by (intros p Hp; rewrite Hst in Hp; destruct Hp).
  assert (Hq : (rank q <= fuel)%nat) by (specialize (Hfuel q); lia).
  pose proof (fetch_ok prog noeq rank Hrank NF Hbound H (level prog noeq fuel) fuel HF HM q s Hq HI Hso) as Hwp.
  unfold wp in Hwp.
  destruct (fetch prog noeq (level prog noeq fuel) q s) as [s' [[[v d] c] | p |]] eqn:Hf.
  - cbn [fst snd].
    destruct Hwp as (HI' & He & _ & Hs' & Hv & _). cbn [fst snd] in Hv.
    split.
    + left. f_equal. rewrite Hv. unfold E, Inv.E.
      apply eval_snap_eq. apply Inv_snap; exact HI.
    + split; [exists H; exact HI' | congruence].
  - cbn [fst snd]. destruct Hwp as (Ha & HI' & _).
    split; [right; exists p; split; [reflexivity | exact Ha]|].
    split; [|reflexivity].
    exists H. apply (Inv_core_eq prog NF H s'); [repeat split | exact HI'].
  - destruct Hwp.
Qed.

Lemma step_other_ok fuel dirty s o :
  low_op o -> state_ok dirty s ->
  match o with
  | OGet _ => True
  | OSetCell _ _ => state_ok true (fst (step prog noeq fams fuel s o))
  | OSet _ _ _ | OSynth _ => state_ok false (fst (step prog noeq fams fuel s o))
  | _ => state_ok dirty (fst (step prog noeq fams fuel s o))
  end.
Proof.
  intros Hlow Hok. pose proof (state_ok_d dirty s Hok) as Hd.
  assert (Hst : d_stack s = []) by (destruct Hok; assumption).
  destruct o as [i v d | d | c v | c v | ef | q | fam n |]; cbn [step fst].
  - (* OSet *)
    pose proof (OK_d_zalsa_mut s Hd) as Hz.
    destruct (OK_d_new_revision _ Hz) as [Hn Hfresh].
    set (s1 := new_revision fams (zalsa_mut fams s)) in *.
    assert (Hst1 : d_stack s1 = []).
    { unfold s1. destruct (new_revision_facts (zalsa_mut fams s)) as (_ & _ & _ & _ & E0 & _).
      rewrite E0, zalsa_mut_stack. exact Hst. }
    destruct (f_dur (d_in s1 i) =? D_NEVER) eqn:Hnever; cbn [fst].
    + split; assumption.
    + split; [|exact Hst1].
      assert (Hlow1 : forall j, f_dur (d_in s1 j) = 0).
      { destruct Hn as [H1 HI1]. apply (inv_low _ _ _ _ HI1). }
      apply (OK_rewrite s1); auto.
      * cbn. unfold cur. cbn. destruct (f_dur (d_in s1 i) =? D_LOW); reflexivity.
      * intros j. cbn. unfold upd. destruct (key_eqb_spec i j) as [<- | Hne]; [right | left; reflexivity].
        cbn. unfold cur. cbn. destruct (f_dur (d_in s1 i) =? D_LOW); reflexivity.
      * intros j. cbn. unfold upd. destruct (key_eqb_spec i j) as [<- | Hne]; [|apply Hlow1].
        cbn. destruct d as [d'|]; [exact Hlow | apply Hlow1].
  - (* OSynth *)
    pose proof (OK_d_zalsa_mut s Hd) as Hz.
    destruct (OK_d_new_revision _ Hz) as [Hn Hfresh].
    set (s1 := new_revision fams (zalsa_mut fams s)) in *.
    assert (Hst1 : d_stack s1 = []).
    { unfold s1. destruct (new_revision_facts (zalsa_mut fams s)) as (_ & _ & _ & _ & E0 & _).
      rewrite E0, zalsa_mut_stack. exact Hst. }
    destruct (d =? D_NEVER); cbn [fst].
    + split; assumption.
    + split; [|exact Hst1]. apply (OK_same s1); auto. apply evicted_refl.
  - (* OSetCell *)
    split; [|exact Hst]. apply (OK_d_same s); auto. apply evicted_refl.
  - (* OSetPanic *)
    split; [|exact Hst]. destruct dirty; destruct Hok as [A _].
    + apply (OK_d_same s); auto. apply evicted_refl.
    + apply (OK_same s); auto. apply evicted_refl.
  - (* OSetEvFault *)
    split; [|exact Hst]. destruct dirty; destruct Hok as [A _].
    + apply (OK_d_same s); auto. apply evicted_refl.
    + apply (OK_same s); auto. apply evicted_refl.
  - exact I.
  - (* OSetLru *)
    split; [|cbn; rewrite zalsa_mut_stack; exact Hst].
    destruct dirty; destruct Hok as [A _].
    + apply (OK_d_same (zalsa_mut fams s)); auto; [apply OK_d_zalsa_mut; exact A | apply evicted_refl].
    + apply (OK_same (zalsa_mut fams s)); auto; [apply OK_zalsa_mut; exact A | apply evicted_refl].
  - (* OEvict *)
    destruct (evict_all_facts (zalsa_mut fams s)) as (A1 & A2 & A3 & A4 & A5).
    split; [|rewrite evict_all_stack, zalsa_mut_stack; exact Hst].
    destruct dirty; destruct Hok as [A _].
    + apply (OK_d_same (zalsa_mut fams s)); auto. apply OK_d_zalsa_mut; exact A.
    + apply (OK_same (zalsa_mut fams s)); auto. apply OK_zalsa_mut; exact A.
Qed.

Theorem from_scratch_low fuel :
  (forall p, (rank p < fuel)%nat) ->
  forall ops dirty s, Forall low_op ops -> wf_ops dirty ops -> state_ok dirty s ->
  outs_ok fuel s ops.
Proof.
  intros Hfuel. induction ops as [|o ops IH]; intros dirty s Hlow Hwf Hok; [exact I|].
  inversion Hlow as [|? ? Hlo Hlows]; subst.
  cbn [outs_ok].
  destruct o as [i v d | d | c v | c v | ef | q | fam n |].
  - split; [exact I|]. apply (IH false); [exact Hlows | exact Hwf |].
    apply (step_other_ok fuel dirty s (OSet i v d) Hlo Hok).
  - split; [exact I|]. apply (IH false); [exact Hlows | exact Hwf |].
    apply (step_other_ok fuel dirty s (OSynth d) Hlo Hok).
  - split; [exact I|]. apply (IH true); [exact Hlows | exact Hwf |].
    apply (step_other_ok fuel dirty s (OSetCell c v) Hlo Hok).
  - split; [exact I|]. apply (IH dirty); [exact Hlows | exact Hwf |].
    apply (step_other_ok fuel dirty s (OSetPanic c v) Hlo Hok).
  - split; [exact I|]. apply (IH dirty); [exact Hlows | exact Hwf |].
    apply (step_other_ok fuel dirty s (OSetEvFault ef) Hlo Hok).
  - destruct Hwf as [-> Hwf].
    destruct (step_get_ok fuel s q Hfuel Hok) as [Hg Hs].
    split; [exact Hg|]. apply (IH false); assumption.
  - split; [exact I|]. apply (IH dirty); [exact Hlows | exact Hwf |].
    apply (step_other_ok fuel dirty s (OSetLru fam n) Hlo Hok).
  - split; [exact I|]. apply (IH dirty); [exact Hlows | exact Hwf |].
    apply (step_other_ok fuel dirty s OEvict Hlo Hok).
Qed.

Lemma init_ok iv lru0 : state_ok false (init iv (fun _ => 0) lru0).
Proof.
  split; [|reflexivity].
  exists (fun _ => snap_of (init iv (fun _ => 0) lru0)).
  constructor.
  - cbn. unfold REV_START. lia.
  - intros i r _ _. reflexivity.
  - intros i. cbn. unfold REV_START. lia.
  - intros c. reflexivity.
  - intros i. reflexivity.
  - intros q m Hm. discriminate.
  - intros q r [].
Qed.

End Top.

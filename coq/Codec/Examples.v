(* Codec/Examples.v — non-vacuity witnesses for the C25 theorems: concrete edge lists that
   satisfy the hypotheses and exercise every layout case (all-packed, first wide edge at the
   head / in the middle / at the end, outputs, extra present and absent). *)
From Coq Require Import NArith Bool List.
From Salsa.gen Require Import Kernels.
From Salsa.Kern Require Import K5_Id K7_Edge.
From Salsa.Codec Require Import Model Proofs.
Import ListNotations.
Open Scope N_scope.

Definition kA := mk_key 1 0 0.
Definition kB := mk_key 4095 4294967039 1048575.          (* largest packable input *)
Definition kC := mk_key 4096 5 0.                          (* ingredient too large *)
Definition kD := mk_key 7 6 1048576.                       (* generation too large *)
Definition kE := mk_key 2147483647 127 4294967295.         (* MAX_INDEX, u32::MAX generation *)

Definition ex_packed : list QE := [k_qe_input kA; k_qe_input kB; k_qe_input kA].
Definition ex_spill_mid : list QE := [k_qe_input kA; k_qe_input kB; k_qe_input kD; k_qe_input kA].
Definition ex_mixed : list QE :=
  [k_qe_input kA; k_qe_output kB; k_qe_input kC; k_qe_output kE; k_qe_input kB].

Definition run {X} (kind : N) (es : list QE) (extra : option X) :=
  match encode kind es extra with
  | Some st =>
      match origin st with
      | Some o => Some (is_packed_layout st, origin_kind o, origin_edges o, stored_extra st,
                        origin_inputs o, origin_outputs o)
      | None => None
      end
  | None => None
  end.

(* hypotheses of C25_tag are satisfiable at the extremes *)
Example ex_tag_hyps :
  2147483647 <= k_ING_MAX_INDEX /\ 4294967039 < k_ID_MAX_U32 /\ 4294967295 < 4294967296.
Proof. repeat split; vm_compute; congruence. Qed.

Example ex_packed_runs :
  run k_DerivedOriginKind_Derived ex_packed (Some 42) =
  Some (true, k_QueryOriginKind_Derived, ex_packed, Some 42, [kA; kB; kA], []).
Proof. vm_compute. reflexivity. Qed.

Example ex_spill_mid_runs :
  run k_DerivedOriginKind_DerivedUntracked ex_spill_mid (@None N) =
  Some (false, k_QueryOriginKind_DerivedUntracked, ex_spill_mid, None, [kA; kB; kD; kA], []).
Proof. vm_compute. reflexivity. Qed.

Example ex_mixed_runs :
  run k_DerivedOriginKind_Derived ex_mixed (Some 7) =
  Some (false, k_QueryOriginKind_Derived, ex_mixed, Some 7, [kA; kC; kB], [kB; kE]).
Proof. vm_compute. reflexivity. Qed.

(* the spill really converts a packed prefix back: the stored words are all 3-word edges *)
Example ex_spill_words :
  match encode k_DerivedOriginKind_Derived ex_spill_mid (@None N) with
  | Some st => match s_payload st with PWords ws => length ws | PId _ => 0%nat end
  | None => 0%nat
  end = 12%nat
  /\
  match encode k_DerivedOriginKind_Derived ex_packed (@None N) with
  | Some st => match s_payload st with PWords ws => length ws | PId _ => 0%nat end
  | None => 0%nat
  end = 6%nat.
Proof. split; vm_compute; reflexivity. Qed.

Example ex_clear_edges :
  match encode k_DerivedOriginKind_Derived ex_mixed (Some 7) with
  | Some st =>
      match clear_edges st with
      | Some st' => match origin st' with
                    | Some o => Some (origin_kind o, origin_edges o, stored_extra st')
                    | None => None end
      | None => None
      end
  | None => None
  end = Some (k_QueryOriginKind_Derived, [], Some 7).
Proof. vm_compute. reflexivity. Qed.

(* hypotheses of C25_serde hold for edges built from well-formed keys *)
Example ex_serde_hyps :
  forall e, In e ex_mixed ->
  k_QueryEdge_index e < 4294967295 /\ k_QueryEdge_generation e < 4294967296.
Proof.
  intros e [<-|[<-|[<-|[<-|[<-|[]]]]]]; vm_compute; split; reflexivity.
Qed.

Example ex_serde_runs :
  map persist_edge ex_mixed =
    [(1, 1); (4503599627370240, 2147487743); (6, 4096);
     (18446744069414584448, 4294967295); (4503599627370240, 4095)] /\
  restore_edges (map persist_edge ex_mixed) = Some ex_mixed.
Proof. split; vm_compute; reflexivity. Qed.

Example ex_assigned :
  origin (encode_assigned kE (Some 3)) = Some (OAssigned kE) /\
  stored_extra (encode_assigned kE (Some 3)) = Some 3 /\
  origin (encode_assigned kA (@None N)) = Some (OAssigned kA).
Proof. repeat split. Qed.

(* Codec/Flat.v — flattening of kernel and Codec-model results into `list N`, in exactly the
   order in which /verif/harness-codec prints the Rust results.  DEFINITIONS ONLY; used by
   /verif/checks/codec_diff.py through `Eval vm_compute` (model validation, not proof). *)
From Coq Require Import NArith Bool List.
From Salsa.gen Require Import Kernels.
From Salsa.Codec Require Import Model.
Import ListNotations.
Open Scope N_scope.

Definition fb (b : bool) : N := if b then 1 else 0.
Definition fo (o : option N) : list N := match o with Some x => [1; x] | None => [0] end.

Definition f_consts : list N :=
  [k_DUR_LOW; k_DUR_MEDIUM; k_DUR_HIGH; k_DUR_NEVER; k_DUR_MIN; k_DUR_MAX; k_DUR_LEN;
   k_rev_start; k_MAX_ITERATIONS; k_ID_MAX_U32;
   k_PAGE_LEN_BITS; k_PAGE_LEN; k_PAGE_LEN_MASK; k_MAX_PAGES;
   k_PE_INGREDIENT_SHIFT; k_PE_GENERATION_MASK; k_PE_INGREDIENT_MASK;
   k_QOT_KIND_MASK; k_QOT_LAYOUT_MASK; k_OET_WITH_EXTRA_MASK;
   k_TOK_CANCELLED_MASK; k_TOK_DISABLED_MASK; k_IMMORTAL].

Definition f_lcr (r0 r1 r2 d : N) : list N := [k_last_changed_revision r0 r1 r2 d].

Definition f_rtw (r0 r1 r2 d : N) : list N :=
  if k_report_write_rejects d then [0]
  else [1; k_report_write_slot 0 r0 r0 d; k_report_write_slot 1 r0 r1 d;
        k_report_write_slot 2 r0 r2 d].

Definition f_revnext (r : N) : list N := fo (k_rev_next r).
Definition f_chif (b : N) : list N := [fb (k_changed_if (negb (b =? 0)))].

Definition f_stamp (s : N) : list N :=
  [fb (k_stamp_is_default s); fb (k_stamp_is_initial_iteration s); k_stamp_iteration s;
   k_stamp_cancellation_count s; k_stamp_iteration_as_u32 s]
  ++ fo (k_stamp_increment_iteration s).
Definition f_stampnew (i c : N) : list N := [k_stamp_new i c; k_stamp_initial c].
Definition f_bump (c : N) : list N := let '(o, c') := k_bump_count c in [fb o; c'].

Definition f_idfi (index : N) : list N := [k_id_as_bits (k_id_from_index index)].
Definition f_idfb (bits g : N) : list N :=
  match k_id_from_bits bits with
  | None => [0]
  | Some id =>
      [1; k_id_as_bits id; k_id_index id; k_id_generation id;
       k_id_as_bits (k_id_with_generation id g)]
      ++ fo (match k_id_next_generation id with
             | Some id' => Some (k_id_as_bits id') | None => None end)
  end.

Definition f_mkid (page slot : N) : list N := [k_id_as_bits (k_make_id page slot)].
Definition f_split (bits : N) : list N :=
  match k_id_from_bits bits with
  | None => [0]
  | Some id => let '(p, s) := k_split_id id in [1; p; s]
  end.

Definition f_ing (x : N) : list N :=
  fo (k_ing_new x) ++ [k_ing_with_tag x true; k_ing_with_tag x false; fb (k_ing_tag x)].

Definition f_edge (e : QE) : list N :=
  [k_QueryEdge_index e; k_QueryEdge_generation e; k_QueryEdge_ingredient e].
Definition f_key (k : k_DatabaseKeyIndex) : list N :=
  [k_dki_ingredient_index k; k_id_index (k_dki_key_index k); k_id_generation (k_dki_key_index k)].

Definition f_qe (ing idx gen : N) : list N :=
  let k := mk_key ing idx gen in
  let i := k_qe_input k in
  let o := k_qe_output k in
  f_edge i ++ f_edge o ++ f_key (k_qe_key i) ++ [k_qe_kind i] ++ f_key (k_qe_key o) ++ [k_qe_kind o].

Definition f_qeraw (index gen ingraw : N) : list N :=
  let e := mk_k_QueryEdge index gen ingraw in
  [k_qe_kind e] ++ f_key (k_qe_key e) ++ [k_id_as_bits (k_qe_id e)].

Definition f_penew (ingraw idx gen : N) : list N :=
  match k_pe_new (mk_k_QueryEdge idx gen ingraw) with
  | Some p => [1; k_PackedQueryEdge_index p; k_PackedQueryEdge_metadata p]
  | None => [0]
  end.
Definition f_peedge (idx meta : N) : list N := f_edge (k_pe_edge (mk_k_PackedQueryEdge idx meta)).

Definition f_tag (untracked wide extra : N) : list N :=
  let kind := if untracked =? 0 then k_DerivedOriginKind_Derived
              else k_DerivedOriginKind_DerivedUntracked in
  let layout := if wide =? 0 then k_QueryEdgeLayout_Packed else k_QueryEdgeLayout_Wide in
  let t := tag_byte (negb (extra =? 0)) (k_qot_derived kind layout) in
  match k_qot_kind (k_oet_origin t) with
  | Some k => [1; t; k; k_qot_layout (k_oet_origin t); k_oet_layout t]
  | None => [0]
  end.

Definition f_tok (st : N) : list N :=
  let '(p1, s1) := k_tok_set_cancellation_disabled st true in
  let '(p0, s0) := k_tok_set_cancellation_disabled st false in
  [k_tok_cancel st; fb (k_tok_is_cancelled st); fb p1; s1; fb p0; s0;
   fb (k_tok_should_trigger st); k_tok_reset st].

Definition f_rq (r : N) (q : list N) : list N :=
  [fb (k_rq_is_primed q); fb (k_rq_is_stale q r)] ++ k_rq_record q r.

(* ---- stored origins.  extra data is the code  iteration_bits + 65536 * cycle_heads *)
Definition f_extra (x : option N) : list N :=
  match x with Some c => [1; c] | None => [0; 0] end.

Definition f_len {A} (l : list A) : N := N.of_nat (length l).

Definition f_report (st : stored N) : list N :=
  match origin st with
  | None => [0]
  | Some o =>
      [1; origin_kind o; fb (match o with OAssigned _ => false | _ => is_packed_layout st end)]
      ++ f_extra (stored_extra st)
      ++ [f_len (origin_edges o)] ++ flat_map f_edge (origin_edges o)
      ++ [f_len (origin_inputs o)] ++ flat_map f_key (origin_inputs o)
      ++ [f_len (origin_outputs o)] ++ flat_map f_key (origin_outputs o)
  end.

Definition f_origin (kind : N) (deps : list (bool * k_DatabaseKeyIndex)) (extra : option N)
  : list N :=
  match encode kind (map edge_of_dep deps) extra with
  | None => [0]
  | Some st =>
      f_report st ++
      match clear_edges st with
      | None => [0]
      | Some st' => f_report st'
      end
  end.

Definition f_assigned (key : k_DatabaseKeyIndex) (extra : option N) : list N :=
  let st := encode_assigned key extra in
  match origin st with
  | Some (OAssigned k) => [1; origin_kind (OAssigned k)] ++ f_key k ++ f_extra (stored_extra st)
  | _ => [0]
  end.

(* ---- persistence *)
Definition f_serde_edge (index gen ingraw : N) : list N :=
  let r := persist_edge (mk_k_QueryEdge index gen ingraw) in
  [fst r; snd r] ++ match restore_edge r with Some e => 1 :: f_edge e | None => [0] end.

Definition f_serde_origin (kind : N) (deps : list (bool * k_DatabaseKeyIndex)) (extra : option N)
  : list N :=
  match encode kind (map edge_of_dep deps) extra with
  | None => [0]
  | Some st =>
      match persist_origin_edges st with
      | None => [0]
      | Some raws =>
          [f_len raws] ++ flat_map (fun r => [fst r; snd r]) raws ++
          match restore_origin kind raws extra with
          | Some st' => f_report st'
          | None => [0]
          end
      end
  end.

(* Codec/Model.v — executable model of how a query origin (dependency edges + kind + optional
   extra revision data) is stored in and read back from `OriginAndExtra`
   (src/zalsa_local.rs), and of its persisted form.  DEFINITIONS ONLY.

   Everything integer-valued is the *translated* Rust (coq/gen/Kernels.v): the edge tag bit,
   PackedQueryEdge::{new, edge}, the origin tag byte, Id bits.  What is transcribed by hand
   here (and tied to the code by the H3 differential test) is the control structure:
   allocate_derived_with_header's pack-then-spill loop, origin()'s dispatch on the tag byte,
   the iterators behind inputs()/outputs(), clear_edges, and serde's sequencing.

   Memory is modelled as untyped 32-bit words: a packed edge is 2 words, a wide edge 3 words.
   Reading back interprets the words *as the tag byte says*, exactly like the union/raw
   allocation in the Rust code; nothing remembers which constructor wrote them.
   Unmodelled: allocation layout/alignment of SliceWithHeader (see C23). *)
From Coq Require Import NArith Bool List.
From Salsa.gen Require Import Kernels.
Import ListNotations.
Open Scope N_scope.

Definition QE := k_QueryEdge.
Definition PE := k_PackedQueryEdge.

(* ---- stored representation *)
Inductive payload :=
| PId (id : k_Id)                 (* Assigned: the assigning query's Id (inline or boxed) *)
| PWords (ws : list N).           (* Derived: the edge slice as raw u32 words *)

Record stored (X : Type) := mk_stored {
  s_tag : N;                      (* OriginAndExtraTag byte *)
  s_header : option X;            (* what sits at the start of the allocation, if anything *)
  s_payload : payload;
  s_metadata : N                  (* u32: edge count, or the ingredient of an Assigned key *)
}.
Arguments mk_stored {X}.
Arguments s_tag {X}.
Arguments s_header {X}.
Arguments s_payload {X}.
Arguments s_metadata {X}.

Definition packed_words (p : PE) : list N :=
  [k_PackedQueryEdge_index p; k_PackedQueryEdge_metadata p].
Definition wide_words (e : QE) : list N :=
  [k_QueryEdge_index e; k_QueryEdge_generation e; k_QueryEdge_ingredient e].

(* ---- allocate_derived_with_header: pack edges one by one; at the first edge that does not
   pack, convert the packed prefix back with PackedQueryEdge::edge and store everything wide *)
Fixpoint alloc_loop (packed : list PE) (es : list QE) : list PE + list QE :=
  match es with
  | [] => inl packed
  | e :: rest =>
      match k_pe_new e with
      | Some p => alloc_loop (packed ++ [p]) rest
      | None => inr (map k_pe_edge packed ++ e :: rest)
      end
  end.

Definition u32_max : N := 4294967295.

(* (edge layout, words, metadata); None = the `u32::try_from(length).expect(..)` panic *)
Definition allocate_derived (es : list QE) : option (N * list N * N) :=
  let length := N.of_nat (List.length es) in
  if length <=? u32_max then
    Some (match alloc_loop [] es with
          | inl ps => (k_QueryEdgeLayout_Packed, flat_map packed_words ps, length)
          | inr ws => (k_QueryEdgeLayout_Wide, flat_map wide_words ws, length)
          end)
  else None.

Definition tag_byte (has_extra : bool) (origin_tag : N) : N :=
  if has_extra then k_oet_with_extra origin_tag else k_oet_without_extra origin_tag.

(* new_derived_with_kind: `kind` is a DerivedOriginKind discriminant *)
Definition encode {X} (kind : N) (es : list QE) (extra : option X) : option (stored X) :=
  match allocate_derived es with
  | None => None
  | Some (layout, ws, metadata) =>
      Some (mk_stored
              (tag_byte (match extra with Some _ => true | None => false end)
                        (k_qot_derived kind layout))
              extra (PWords ws) metadata)
  end.

(* OriginAndExtra::assigned / assigned_with_extra *)
Definition encode_assigned {X} (key : k_DatabaseKeyIndex) (extra : option X) : stored X :=
  mk_stored (tag_byte (match extra with Some _ => true | None => false end) k_qot_assigned)
            extra (PId (k_dki_key_index key)) (k_ing_as_u32 (k_dki_ingredient_index key)).

(* ---- reading back *)
Inductive edges_view :=
| VPacked (ps : list PE)
| VWide (es : list QE).

Inductive origin_ref :=
| OAssigned (key : k_DatabaseKeyIndex)
| ODerived (v : edges_view)
| ODerivedUntracked (v : edges_view).

Fixpoint read_packed (n : nat) (ws : list N) : list PE :=
  match n, ws with
  | S m, i :: md :: t => mk_k_PackedQueryEdge i md :: read_packed m t
  | _, _ => []
  end.

Fixpoint read_wide (n : nat) (ws : list N) : list QE :=
  match n, ws with
  | S m, i :: g :: ing :: t => mk_k_QueryEdge i g ing :: read_wide m t
  | _, _ => []
  end.

(* OriginAndExtra::extra *)
Definition stored_extra {X} (st : stored X) : option X :=
  if k_oet_layout (s_tag st) =? k_OriginAndExtraLayout_WithExtra then s_header st else None.

(* OriginAndExtra::origin; None = a panic!/unreachable!/type confusion *)
Definition origin {X} (st : stored X) : option origin_ref :=
  let tag := k_oet_origin (s_tag st) in
  match k_qot_kind tag with
  | None => None
  | Some kind =>
      if kind =? k_QueryOriginKind_Assigned then
        match s_payload st with
        | PId id => Some (OAssigned (k_dki_new (k_ing_new_unchecked (s_metadata st)) id))
        | PWords _ => None
        end
      else
        match s_payload st with
        | PId _ => None
        | PWords ws =>
            let n := N.to_nat (s_metadata st) in
            let v := if k_qot_layout tag =? k_QueryEdgeLayout_Packed
                     then VPacked (read_packed n ws) else VWide (read_wide n ws) in
            Some (if kind =? k_QueryOriginKind_Derived then ODerived v else ODerivedUntracked v)
        end
  end.

(* QueryEdges::iter *)
Definition view_iter (v : edges_view) : list QE :=
  match v with VPacked ps => map k_pe_edge ps | VWide es => es end.

Definition is_output (e : QE) : bool := k_qe_kind e =? k_QueryEdgeKind_Output.
Definition is_input (e : QE) : bool := k_qe_kind e =? k_QueryEdgeKind_Input.

(* QueryEdges::iter_outputs: a packed slice is known to hold no outputs and is skipped *)
Definition view_iter_outputs (v : edges_view) : list QE :=
  match v with VPacked _ => [] | VWide es => filter is_output es end.

(* QueryOriginRef::edges *)
Definition origin_edges (o : origin_ref) : list QE :=
  match o with
  | OAssigned _ => []
  | ODerived v | ODerivedUntracked v => view_iter v
  end.

(* QueryOriginRef::inputs: filter_map over iter() *)
Definition origin_inputs (o : origin_ref) : list k_DatabaseKeyIndex :=
  map k_qe_key (filter is_input (origin_edges o)).

(* QueryOriginRef::outputs *)
Definition origin_outputs (o : origin_ref) : list k_DatabaseKeyIndex :=
  match o with
  | OAssigned _ => []
  | ODerived v | ODerivedUntracked v => map k_qe_key (view_iter_outputs v)
  end.

(* the DerivedOriginKind of an origin, as its discriminant *)
Definition origin_kind (o : origin_ref) : N :=
  match o with
  | OAssigned _ => k_QueryOriginKind_Assigned
  | ODerived _ => k_QueryOriginKind_Derived
  | ODerivedUntracked _ => k_QueryOriginKind_DerivedUntracked
  end.

Definition is_packed_layout {X} (st : stored X) : bool :=
  k_qot_layout (k_oet_origin (s_tag st)) =? k_QueryEdgeLayout_Packed.

(* ---- OriginAndExtra::clear_edges (cfg(not(feature = "persistence")));
   None = the "assigned query origins have no edges" panic *)
Definition clear_edges {X} (st : stored X) : option (stored X) :=
  if s_metadata st =? 0 then Some st
  else
    match k_qot_kind (k_oet_origin (s_tag st)) with
    | None => None
    | Some kind =>
        if kind =? k_QueryOriginKind_Assigned then None
        else
          let dkind := if kind =? k_QueryOriginKind_Derived
                       then k_DerivedOriginKind_Derived else k_DerivedOriginKind_DerivedUntracked in
          encode dkind [] (stored_extra st)
    end.

(* ---- persistence.  serde sequencing is transcribed; the integer content is translated:
   QueryEdge -> raw_key (ingredient word incl. tag) -> (Id as its u64 bits, ingredient u32) *)
Definition persist_edge (e : QE) : N * N :=
  let key := k_qe_raw_key e in
  (k_id_ser (k_dki_key_index key), k_dki_ingredient_index key).

Definition restore_edge (raw : N * N) : option QE :=
  match k_id_de (fst raw) with
  | Some id => Some (k_qe_deserialize (k_dki_new (snd raw) id))
  | None => None
  end.

Fixpoint restore_edges (raws : list (N * N)) : option (list QE) :=
  match raws with
  | [] => Some []
  | r :: t =>
      match restore_edge r, restore_edges t with
      | Some e, Some es => Some (e :: es)
      | _, _ => None
      end
  end.

(* serialising a stored derived origin: collect_seq(self.iter()) *)
Definition persist_origin_edges {X} (st : stored X) : option (list (N * N)) :=
  match origin st with
  | Some o => Some (map persist_edge (origin_edges o))
  | None => None
  end.

(* deserialising: PersistentQueryOrigin::Derived*(edges) -> OriginAndExtra::new *)
Definition restore_origin {X} (kind : N) (raws : list (N * N)) (extra : option X)
  : option (stored X) :=
  match restore_edges raws with
  | Some es => encode kind es extra
  | None => None
  end.

(* a dependency as recorded by the active query: (is_output, key) -> edge *)
Definition edge_of_dep (d : bool * k_DatabaseKeyIndex) : QE :=
  if fst d then k_qe_output (snd d) else k_qe_input (snd d).

(* the public constructor path of a key: IngredientIndex, Id::from_index(..).with_generation(..) *)
Definition mk_key (ingredient index generation : N) : k_DatabaseKeyIndex :=
  k_dki_new ingredient (k_id_with_generation (k_id_from_index index) generation).

(* Codec/Proofs.v — lemmas about Codec/Model.v.  The integer facts come from Kern/K5_Id.v and
   Kern/K7_Edge.v (proved about the translated kernels); this file adds the list-level
   reasoning (any length, any position of the first wide edge). *)
From Coq Require Import NArith Bool List Lia.
From Salsa.gen Require Import Kernels.
From Salsa.Kern Require Import KBits K5_Id K7_Edge.
From Salsa.Codec Require Import Model.
Import ListNotations.
Open Scope N_scope.

Definition packs (e : QE) : Prop := exists p, k_pe_new e = Some p.

Lemma packs_dec e : {packs e} + {k_pe_new e = None}.
Proof. unfold packs. destruct (k_pe_new e) as [p|]; [left; now exists p | now right]. Qed.

(* ---- kinds *)
Lemma k_qe_kind_cases e :
  k_qe_kind e = k_QueryEdgeKind_Input \/ k_qe_kind e = k_QueryEdgeKind_Output.
Proof. unfold k_qe_kind. destruct (k_ing_tag _); auto. Qed.

Lemma is_input_negb e : is_input e = negb (is_output e).
Proof.
  unfold is_input, is_output. destruct (k_qe_kind_cases e) as [-> | ->]; reflexivity.
Qed.

Lemma packs_is_input e : packs e -> is_output e = false.
Proof.
  intros (p & Hp). unfold is_output.
  assert (k_QueryEdge_ingredient e < 4294967296) as Hr.
  { assert (packs e) as Hs by (now exists p). apply k_pe_new_some_iff in Hs. lia. }
  now rewrite (k_pe_new_input e p Hr Hp).
Qed.

(* ---- the pack-then-spill loop *)
Lemma alloc_loop_spec es : forall packed,
  match alloc_loop packed es with
  | inl ps => map k_pe_edge ps = map k_pe_edge packed ++ es /\ Forall packs es /\
              length ps = (length packed + length es)%nat
  | inr ws => ws = map k_pe_edge packed ++ es /\ Exists (fun e => k_pe_new e = None) es
  end.
Proof.
  induction es as [|e rest IH]; intros packed; cbn [alloc_loop].
  - rewrite app_nil_r. repeat split; [constructor | cbn; lia].
  - destruct (k_pe_new e) as [p|] eqn:E.
    + specialize (IH (packed ++ [p])). destruct (alloc_loop (packed ++ [p]) rest) as [ps|ws].
      * destruct IH as (Hm & Hf & Hl). rewrite map_app in Hm. cbn [map] in Hm.
        rewrite (k_pe_new_roundtrip e p E) in Hm. rewrite <- app_assoc in Hm.
        split; [exact Hm|]. split; [constructor; [now exists p | exact Hf]|].
        rewrite app_length in Hl. cbn [length] in *. lia.
      * destruct IH as (Hm & Hx). rewrite map_app in Hm. cbn [map] in Hm.
        rewrite (k_pe_new_roundtrip e p E) in Hm. rewrite <- app_assoc in Hm.
        split; [exact Hm | now apply Exists_cons_tl].
    + split; [reflexivity | now apply Exists_cons_hd].
Qed.

Lemma read_packed_words ps : read_packed (length ps) (flat_map packed_words ps) = ps.
Proof.
  induction ps as [|p t IH]; [reflexivity|]. cbn [length flat_map packed_words app read_packed].
  rewrite IH. now destruct p.
Qed.

Lemma read_wide_words es : read_wide (length es) (flat_map wide_words es) = es.
Proof.
  induction es as [|e t IH]; [reflexivity|]. cbn [length flat_map wide_words app read_wide].
  rewrite IH. now destruct e.
Qed.

(* ---- the tag byte *)
Lemma tag_roundtrip kind layout (x : bool) :
  is_derived_kind kind -> is_layout layout ->
  k_qot_kind (k_oet_origin (tag_byte x (k_qot_derived kind layout))) = Some kind /\
  k_qot_layout (k_oet_origin (tag_byte x (k_qot_derived kind layout))) = layout /\
  k_oet_layout (tag_byte x (k_qot_derived kind layout)) =
    (if x then k_OriginAndExtraLayout_WithExtra else k_OriginAndExtraLayout_WithoutExtra).
Proof. intros Hk Hl. exact (k_tag_roundtrip kind layout x Hk Hl). Qed.

Lemma derived_kind_not_assigned kind :
  is_derived_kind kind -> (kind =? k_QueryOriginKind_Assigned) = false.
Proof. intros [-> | ->]; reflexivity. Qed.

(* ---- encode / origin *)
Definition origin_of_kind (kind : N) (v : edges_view) : origin_ref :=
  if kind =? k_QueryOriginKind_Derived then ODerived v else ODerivedUntracked v.

Lemma origin_of_kind_kind kind v : is_derived_kind kind -> origin_kind (origin_of_kind kind v) = kind.
Proof. intros [-> | ->]; reflexivity. Qed.

Lemma origin_of_kind_edges kind v : origin_edges (origin_of_kind kind v) = view_iter v.
Proof. unfold origin_of_kind. now destruct (kind =? _). Qed.

Lemma origin_of_kind_outputs kind v :
  origin_outputs (origin_of_kind kind v) = map k_qe_key (view_iter_outputs v).
Proof. unfold origin_of_kind. now destruct (kind =? _). Qed.

Lemma encode_some_iff {X} kind es (extra : option X) :
  (exists st, encode kind es extra = Some st) <-> N.of_nat (length es) <= u32_max.
Proof.
  unfold encode, allocate_derived.
  destruct (N.leb_spec (N.of_nat (length es)) u32_max) as [H|H].
  - split; [auto|]. intros _. destruct (alloc_loop [] es); eexists; reflexivity.
  - split; [intros (st & E); discriminate | lia].
Qed.

(* the central lemma: what origin() sees in a freshly encoded origin *)
Lemma origin_encode {X} kind es (extra : option X) st :
  is_derived_kind kind -> encode kind es extra = Some st ->
  exists v, origin st = Some (origin_of_kind kind v) /\ view_iter v = es /\
            stored_extra st = extra /\ s_metadata st = N.of_nat (length es) /\
            (match v with VPacked _ => Forall packs es
                        | VWide _ => Exists (fun e => k_pe_new e = None) es end) /\
            is_packed_layout st = (match v with VPacked _ => true | VWide _ => false end).
Proof.
  intros Hk. unfold encode, allocate_derived.
  destruct (N.leb_spec (N.of_nat (length es)) u32_max) as [Hlen|]; [|discriminate].
  pose proof (alloc_loop_spec es []) as Hloop. cbn [map app length Nat.add] in Hloop.
  set (x := match extra with Some _ => true | None => false end).
  destruct (alloc_loop [] es) as [ps|ws]; intros E; injection E as <-.
  - destruct Hloop as (Hm & Hf & Hl).
    destruct (tag_roundtrip kind k_QueryEdgeLayout_Packed x Hk (or_introl eq_refl))
      as (Tk & Tl & Te).
    exists (VPacked ps). unfold origin, stored_extra, is_packed_layout.
    cbn [s_tag s_payload s_metadata s_header]. rewrite Tk, Tl, Te.
    rewrite (derived_kind_not_assigned kind Hk), Nnat.Nat2N.id.
    change (k_QueryEdgeLayout_Packed =? k_QueryEdgeLayout_Packed) with true. cbn iota.
    rewrite <- Hl, read_packed_words.
    repeat split; try assumption; try reflexivity.
    unfold x. destruct extra; reflexivity.
  - destruct Hloop as (-> & Hx).
    destruct (tag_roundtrip kind k_QueryEdgeLayout_Wide x Hk (or_intror eq_refl))
      as (Tk & Tl & Te).
    exists (VWide es). unfold origin, stored_extra, is_packed_layout.
    cbn [s_tag s_payload s_metadata s_header]. rewrite Tk, Tl, Te.
    rewrite (derived_kind_not_assigned kind Hk), Nnat.Nat2N.id.
    change (k_QueryEdgeLayout_Wide =? k_QueryEdgeLayout_Packed) with false. cbn iota.
    rewrite read_wide_words.
    repeat split; try assumption; try reflexivity.
    unfold x. destruct extra; reflexivity.
Qed.

Lemma filter_none {A} (f : A -> bool) l : Forall (fun a => f a = false) l -> filter f l = [].
Proof.
  induction 1 as [|a l Ha _ IH]; [reflexivity|]. cbn [filter]. now rewrite Ha.
Qed.

(* outputs(): the packed short-cut loses nothing *)
Lemma view_outputs_complete v es :
  view_iter v = es ->
  (match v with VPacked _ => Forall packs es | VWide _ => True end) ->
  view_iter_outputs v = filter is_output es.
Proof.
  destruct v as [ps|ws]; cbn [view_iter view_iter_outputs]; intros <- Hf.
  - symmetry. apply filter_none. eapply Forall_impl; [|exact Hf].
    intros e He. now apply packs_is_input.
  - reflexivity.
Qed.

Lemma filter_partition_length {A} (f : A -> bool) l :
  (length (filter f l) + length (filter (fun a => negb (f a)) l))%nat = length l.
Proof.
  induction l as [|a l IH]; [reflexivity|]. cbn [filter]. destruct (f a); cbn [negb length]; lia.
Qed.

(* ---- the full round trip *)
Lemma origin_roundtrip {X} kind es (extra : option X) :
  is_derived_kind kind -> N.of_nat (length es) <= u32_max ->
  exists st o,
    encode kind es extra = Some st /\ origin st = Some o /\
    origin_kind o = kind /\
    origin_edges o = es /\
    stored_extra st = extra /\
    origin_inputs o = map k_qe_key (filter is_input es) /\
    origin_outputs o = map k_qe_key (filter is_output es) /\
    (is_packed_layout st = true <-> Forall packs es).
Proof.
  intros Hk Hlen. destruct (proj2 (encode_some_iff kind es extra) Hlen) as (st & Hst).
  destruct (origin_encode kind es extra st Hk Hst) as (v & Ho & Hv & Hx & Hm & Hshape & Hlay).
  exists st, (origin_of_kind kind v). repeat split; try assumption.
  - now apply origin_of_kind_kind.
  - now rewrite origin_of_kind_edges.
  - unfold origin_inputs. now rewrite origin_of_kind_edges, Hv.
  - rewrite origin_of_kind_outputs. f_equal. apply view_outputs_complete; [exact Hv|].
    destruct v; [exact Hshape | exact I].
  - rewrite Hlay. destruct v; [intros _; exact Hshape | discriminate].
  - rewrite Hlay. destruct v; [reflexivity|]. intros Hall. exfalso.
    apply Exists_exists in Hshape. destruct Hshape as (e & Hin & Hnone).
    rewrite Forall_forall in Hall. destruct (Hall e Hin) as (p & Hp). congruence.
Qed.

(* inputs and outputs partition the edges, each preserving order *)
Lemma inputs_outputs_partition es :
  filter is_input es = filter (fun e => negb (is_output e)) es /\
  (length (filter is_output es) + length (filter is_input es))%nat = length es /\
  (forall e, In e es -> (In e (filter is_input es) /\ ~ In e (filter is_output es)) \/
                        (In e (filter is_output es) /\ ~ In e (filter is_input es))).
Proof.
  assert (filter is_input es = filter (fun e => negb (is_output e)) es) as E.
  { apply filter_ext. intros e. apply is_input_negb. }
  split; [exact E|]. split.
  - rewrite E. apply filter_partition_length.
  - intros e Hin. rewrite !filter_In, is_input_negb.
    destruct (is_output e); cbn [negb]; [right | left]; split; auto; intros (_ & H); discriminate.
Qed.

(* ---- clear_edges *)
Lemma encode_nil {X} kind (extra : option X) :
  exists st, encode kind [] extra = Some st /\ s_metadata st = 0.
Proof. unfold encode, allocate_derived. cbn. eexists. split; reflexivity. Qed.

Lemma clear_edges_encode {X} kind es (extra : option X) st :
  is_derived_kind kind -> encode kind es extra = Some st ->
  clear_edges st = encode kind [] extra.
Proof.
  intros Hk Hst.
  destruct (origin_encode kind es extra st Hk Hst) as (v & Ho & Hv & Hx & Hm & _ & _).
  unfold clear_edges. destruct (N.eqb_spec (s_metadata st) 0) as [Hz|Hnz].
  - (* nothing to remove: the origin is returned unchanged, and it already is the empty one *)
    rewrite Hm in Hz. destruct es as [|e t]; [|cbn [length] in Hz; lia]. now rewrite Hst.
  - revert Ho. unfold origin.
    destruct (k_qot_kind (k_oet_origin (s_tag st))) as [kd|]; [|discriminate].
    destruct (N.eqb_spec kd k_QueryOriginKind_Assigned) as [Ea|Ena].
    + destruct (s_payload st); [|discriminate]. intros E. exfalso. injection E as E.
      unfold origin_of_kind in E. destruct (kind =? _); discriminate.
    + destruct (s_payload st) as [|ws]; [discriminate|]. intros E. injection E as E.
      rewrite Hx.
      assert ((if kd =? k_QueryOriginKind_Derived then k_DerivedOriginKind_Derived
               else k_DerivedOriginKind_DerivedUntracked) = kind) as ->; [|reflexivity].
      unfold origin_of_kind in E.
      destruct Hk as [-> | ->];
        destruct (kd =? k_QueryOriginKind_Derived); cbn in E; try discriminate; reflexivity.
Qed.

Lemma clear_edges_roundtrip {X} kind es (extra : option X) st :
  is_derived_kind kind -> encode kind es extra = Some st ->
  exists st' o, clear_edges st = Some st' /\ origin st' = Some o /\
                origin_edges o = [] /\ origin_kind o = kind /\ stored_extra st' = extra /\
                origin_inputs o = [] /\ origin_outputs o = [].
Proof.
  intros Hk Hst. rewrite (clear_edges_encode kind es extra st Hk Hst).
  destruct (origin_roundtrip kind [] extra Hk) as (st' & o & E & Ho & Hkd & He & Hx & Hi & Hout & _).
  { cbn. unfold u32_max. lia. }
  exists st', o. repeat split; assumption.
Qed.

(* ---- assigned origins (no edges) *)
Lemma origin_assigned {X} key (extra : option X) :
  origin (encode_assigned key extra) = Some (OAssigned key) /\
  stored_extra (encode_assigned key extra) = extra.
Proof.
  unfold encode_assigned, origin, stored_extra. cbn [s_tag s_payload s_metadata s_header].
  destruct key as [id ing]. destruct extra as [x|]; split; reflexivity.
Qed.

(* ---- persistence *)
Definition ser_wf (e : QE) : Prop :=
  k_QueryEdge_index e < 4294967295 /\ k_QueryEdge_generation e < 4294967296.

Lemma dki_eta k :
  k_dki_new (k_DatabaseKeyIndex_ingredient_index k) (k_DatabaseKeyIndex_key_index k) = k.
Proof. now destruct k. Qed.

Lemma restore_persist_edge e : ser_wf e -> restore_edge (persist_edge e) = Some e.
Proof.
  intros (Hi & Hg). unfold restore_edge, persist_edge. cbn zeta. cbn [fst snd].
  unfold k_dki_key_index, k_dki_ingredient_index.
  rewrite k_id_serde by (now apply k_qe_raw_key_wf).
  now rewrite dki_eta, k_qe_deserialize_raw_key.
Qed.

Lemma restore_persist_edges es :
  Forall ser_wf es -> restore_edges (map persist_edge es) = Some es.
Proof.
  induction 1 as [|e t He _ IH]; [reflexivity|]. cbn [map restore_edges].
  now rewrite restore_persist_edge, IH.
Qed.

Lemma serde_roundtrip {X} kind es (extra : option X) st :
  is_derived_kind kind -> Forall ser_wf es -> encode kind es extra = Some st ->
  exists raws, persist_origin_edges st = Some raws /\ raws = map persist_edge es /\
               restore_origin kind raws extra = Some st.
Proof.
  intros Hk Hwf Hst.
  destruct (origin_encode kind es extra st Hk Hst) as (v & Ho & Hv & _).
  exists (map persist_edge es). unfold persist_origin_edges. rewrite Ho, origin_of_kind_edges, Hv.
  repeat split. unfold restore_origin. now rewrite restore_persist_edges.
Qed.

(* edges built from well-formed keys are serialisable *)
Lemma ser_wf_input k : key_wf k -> ser_wf (k_qe_input k).
Proof.
  intros Hk. destruct (k_qe_input_wf k Hk) as ((H1 & H2 & H3) & H4). split; assumption.
Qed.
Lemma ser_wf_output k : key_wf k -> ser_wf (k_qe_output k).
Proof.
  intros Hk. destruct (k_qe_output_wf k Hk) as ((H1 & H2 & H3) & H4). split; assumption.
Qed.

(* ---- statements in the exact shape of Props/C25.v *)
Lemma mk_key_wf ing idx gen :
  ing <= k_ING_MAX_INDEX -> idx < k_ID_MAX_U32 -> gen < 4294967296 -> key_wf (mk_key ing idx gen).
Proof.
  intros Hi Hx Hg. rewrite k_ID_MAX_U32_val in Hx. unfold key_wf, mk_key, k_dki_new.
  cbn [k_DatabaseKeyIndex_key_index k_DatabaseKeyIndex_ingredient_index]. split; [|exact Hi].
  apply k_id_with_generation_wf; [apply k_id_from_index_wf; lia | exact Hg].
Qed.

Lemma C25_packed_roundtrip_proof : forall e : k_QueryEdge,
  (forall p, k_pe_new e = Some p -> k_pe_edge p = e) /\
  (k_pe_new e = None <->
     4095 < k_QueryEdge_ingredient e \/ 1048575 < k_QueryEdge_generation e) /\
  (k_QueryEdge_ingredient e < 4294967296 -> k_qe_kind e = k_QueryEdgeKind_Output ->
     k_pe_new e = None).
Proof.
  intros e. split; [intros p; apply k_pe_new_roundtrip|]. split.
  - rewrite <- k_PE_INGREDIENT_MASK_val, <- k_PE_GENERATION_MASK_val. apply k_pe_new_none_iff.
  - apply k_pe_new_output_none.
Qed.

Lemma C25_tag_proof : forall ingredient index generation : N,
  ingredient <= k_ING_MAX_INDEX -> index < k_ID_MAX_U32 -> generation < 4294967296 ->
  let k := mk_key ingredient index generation in
  k_qe_kind (k_qe_input k) = k_QueryEdgeKind_Input /\
  k_qe_kind (k_qe_output k) = k_QueryEdgeKind_Output /\
  k_qe_key (k_qe_input k) = k /\
  k_qe_key (k_qe_output k) = k /\
  k_QueryEdgeKind_Input <> k_QueryEdgeKind_Output.
Proof.
  intros ing idx gen Hi Hx Hg k. pose proof (mk_key_wf ing idx gen Hi Hx Hg) as Hk. fold k in Hk.
  repeat split.
  - now apply k_qe_kind_input.
  - apply k_qe_kind_output.
  - now apply k_qe_key_input.
  - now apply k_qe_key_output.
  - exact k_QueryEdgeKind_distinct.
Qed.

Lemma C25_origin_roundtrip_proof :
  forall (X : Type) (kind : N) (es : list k_QueryEdge) (extra : option X),
  kind = k_DerivedOriginKind_Derived \/ kind = k_DerivedOriginKind_DerivedUntracked ->
  N.of_nat (length es) <= 4294967295 ->
  exists st o,
    encode kind es extra = Some st /\ origin st = Some o /\
    origin_kind o = kind /\
    origin_edges o = es /\
    stored_extra st = extra /\
    origin_inputs o = map k_qe_key (filter is_input es) /\
    origin_outputs o = map k_qe_key (filter is_output es) /\
    (is_packed_layout st = true <-> forall e, In e es -> exists p, k_pe_new e = Some p) /\
    (length (filter is_output es) + length (filter is_input es))%nat = length es /\
    (forall e, is_input e = negb (is_output e)) /\
    exists st' o',
      clear_edges st = Some st' /\ origin st' = Some o' /\
      origin_edges o' = [] /\ origin_kind o' = kind /\ stored_extra st' = extra.
Proof.
  intros X kind es extra Hk Hlen.
  destruct (origin_roundtrip kind es extra Hk Hlen)
    as (st & o & Hst & Ho & Hkd & He & Hx & Hi & Hout & Hlay).
  exists st, o. repeat split; try assumption.
  - intros H. apply (proj1 (Forall_forall _ _)). now apply Hlay.
  - intros H. apply Hlay. now apply Forall_forall.
  - apply (inputs_outputs_partition es).
  - apply is_input_negb.
  - destruct (clear_edges_roundtrip kind es extra st Hk Hst)
      as (st' & o' & Hc & Ho' & He' & Hk' & Hx' & _).
    exists st', o'. repeat split; assumption.
Qed.

Lemma is_io_input k : key_wf k -> is_input (k_qe_input k) = true /\ is_output (k_qe_input k) = false.
Proof. intros Hk. unfold is_input, is_output. rewrite k_qe_kind_input by exact Hk. split; reflexivity. Qed.

Lemma is_io_output k : is_input (k_qe_output k) = false /\ is_output (k_qe_output k) = true.
Proof. unfold is_input, is_output. rewrite k_qe_kind_output. split; reflexivity. Qed.

Lemma deps_inputs deps :
  (forall d, In d deps -> key_wf (snd d)) ->
  map k_qe_key (filter is_input (map edge_of_dep deps)) =
    map snd (filter (fun d => negb (fst d)) deps) /\
  map k_qe_key (filter is_output (map edge_of_dep deps)) = map snd (filter fst deps).
Proof.
  induction deps as [|[out k] t IH]; intros Hwf; [split; reflexivity|].
  assert (key_wf k) as Hk by (apply (Hwf (out, k)); now left).
  destruct IH as (IH1 & IH2); [intros d Hd; apply Hwf; now right|].
  destruct out; cbn [map]; unfold edge_of_dep at 1 3; cbn [filter fst snd negb].
  - destruct (is_io_output k) as (-> & ->). cbn [map snd].
    rewrite k_qe_key_output by exact Hk. split; [exact IH1 | now f_equal].
  - destruct (is_io_input k Hk) as (-> & ->). cbn [map snd].
    rewrite k_qe_key_input by exact Hk. split; [now f_equal | exact IH2].
Qed.

Lemma C25_origin_keys_proof :
  forall (X : Type) (kind : N) (deps : list (bool * k_DatabaseKeyIndex)) (extra : option X),
  kind = k_DerivedOriginKind_Derived \/ kind = k_DerivedOriginKind_DerivedUntracked ->
  N.of_nat (length deps) <= 4294967295 ->
  (forall d, In d deps ->
     1 <= k_Id_index (k_DatabaseKeyIndex_key_index (snd d)) < 4294967296 /\
     k_Id_generation (k_DatabaseKeyIndex_key_index (snd d)) < 4294967296 /\
     k_DatabaseKeyIndex_ingredient_index (snd d) <= k_ING_MAX_INDEX) ->
  exists st o,
    encode kind (map edge_of_dep deps) extra = Some st /\ origin st = Some o /\
    origin_inputs o = map snd (filter (fun d => negb (fst d)) deps) /\
    origin_outputs o = map snd (filter fst deps).
Proof.
  intros X kind deps extra Hk Hlen Hwf.
  destruct (origin_roundtrip kind (map edge_of_dep deps) extra Hk)
    as (st & o & Hst & Ho & _ & _ & _ & Hi & Hout & _); [now rewrite map_length|].
  destruct (deps_inputs deps) as (D1 & D2).
  { intros d Hd. destruct (Hwf d Hd) as ((A & B) & C & D). repeat split; assumption. }
  exists st, o. repeat split; try assumption; congruence.
Qed.

Lemma C25_serde_proof :
  forall (X : Type) (kind : N) (es : list k_QueryEdge) (extra : option X) (st : stored X),
  kind = k_DerivedOriginKind_Derived \/ kind = k_DerivedOriginKind_DerivedUntracked ->
  (forall e, In e es ->
     k_QueryEdge_index e < 4294967295 /\ k_QueryEdge_generation e < 4294967296) ->
  encode kind es extra = Some st ->
  (forall e, In e es -> restore_edge (persist_edge e) = Some e) /\
  exists raws,
    persist_origin_edges st = Some raws /\ raws = map persist_edge es /\
    restore_edges raws = Some es /\
    restore_origin kind raws extra = Some st.
Proof.
  intros X kind es extra st Hk Hwf Hst.
  assert (Forall ser_wf es) as HF by (apply Forall_forall; exact Hwf).
  split; [intros e He; apply restore_persist_edge; now apply Hwf|].
  destruct (serde_roundtrip kind es extra st Hk HF Hst) as (raws & H1 & H2 & H3).
  exists raws. repeat split; try assumption. subst raws. now apply restore_persist_edges.
Qed.

(* CFetch2/ProofsSim.v — CFetch2 refines CFetch: every step of the computed model is a step of
   the abstract model on the abstracted state (forget changed_at, flags, collected values), with
   [p_val := the from-scratch value].  The two guards CFetch builds in are DISCHARGED here:
   what [R2_publish] computes from the returned values is the from-scratch value, and
   [R2_mark] only fires when the memo's value is still the from-scratch value. *)
From Salsa Require Import Base.
From Salsa.Proto Require Import Model.
From Salsa.CFetch Require Import Model ProofsProto ProofsRel ProofsSafe ProofsLive ProofsTerm.
From Salsa.CFetch2 Require Import Model ProofsEq ProofsRel ProofsVal.

Lemma absf_deliver mm v c below : map absf (deliver mm v c below) = map absf below.
Proof.
  destruct below as [|f b]; cbn [deliver map]; auto.
  destruct f as [k ph]. destruct ph; reflexivity.
Qed.

(* what a CFetch update has to be to match a CFetch2 update *)
Definition umatch (u : upd) (u2 : upd2) : Prop :=
  u_proto u = u2_proto u2 /\ (forall k, u_memo u k = option_map absm (u2_memo u2 k)) /\
  u_stack u = map absf (u2_stack u2) /\ u_todo u = u2_todo u2 /\ u_cycle u = u2_cycle u2 /\
  u_ev u = u2_ev u2.

Lemma umatch_ceq s2 t u u2 :
  umatch u u2 -> ceq (apply_upd (abs s2) t u) (abs (apply_upd2 s2 t u2)).
Proof.
  intros (A & B & C & D & E0 & F). unfold ceq, apply_upd, apply_upd2, abs. cbn.
  repeat split; auto; try congruence.
  intros t'. unfold updN. destruct (t =? t'); auto. unfold abst. cbn. congruence.
Qed.

Ltac um :=
  unfold umatch;
  cbn [u_proto u_memo u_stack u_todo u_cycle u_ev u2_proto u2_memo u2_stack u2_todo u2_cycle u2_ev];
  repeat split; try reflexivity; try (intros; reflexivity);
  try (cbn [map absf g_key g_phase absp]; rewrite ?absf_deliver; reflexivity).

Section Sim.
Variable fuel : nat.
Variable Q : prog2.
Variable rank : key -> nat.

Notation P' := (absP Q rank).
Notation Ev := (E Q rank).

Lemma sim_path seen s2 t u2 :
  ranked2 Q rank -> stamps_ok Q -> InvS Q rank seen s2 ->
  th2_cycle (c2_thr s2 t) = false -> path2 fuel Q s2 t u2 ->
  exists c' u, step_thread fuel P' (abs s2) t c' = Some u /\ umatch u u2.
Proof.
  intros RK SK I Hcyc Hp.
  pose proof (IV_stack _ _ _ _ I t) as Hok.
  assert (Hmemo : forall k, c_memo (abs s2) k = option_map absm (c2_memo s2 k)) by reflexivity.
  dpath2 Hp; unfold stack2 in Hst.
  all: try (rewrite Hst in Hok; cbn [stack_ok g_key] in Hok; destruct Hok as [Hf Hb];
            unfold frame_ok in Hf; cbn [g_phase g_key] in Hf).
  all: unfold step_thread; cbn [abs c_thr abst th_cycle th_stack th_todo]; rewrite Hcyc, Hst;
       cbn [map absf g_key g_phase absp f_key f_phase]; unfold step_frame;
       cbn [abs c_proto c_memo c_cur c_thr abst th_todo].
  - (* Q_begin *)
    unfold todo2 in Htd. rewrite Htd. exists true. eexists. split; [reflexivity | um].
  - (* Q_hit *)
    rewrite Hm. cbn [option_map absm m_ver m_val]. rewrite Hv, N.eqb_refl.
    exists true. eexists. split; [reflexivity | um].
  - (* Q_go_cold *)
    exists false. destruct (c2_memo s2 k) as [m|] eqn:Em; cbn [option_map absm m_ver andb].
    + destruct (N.eqb_spec (n_ver m) (c2_cur s2)) as [E0|E0]; [exfalso; eapply Hnv; eauto|].
      eexists. split; [reflexivity | um].
    + eexists. split; [reflexivity | um].
  - rewrite Hcl. exists true. eexists. split; [reflexivity | um].
  - rewrite Hcl, Hbl. exists true. eexists. split; [reflexivity | um].
  - rewrite Hcl. exists true. eexists. split; [reflexivity | um].
  - rewrite Hcl, Hbl. exists true. eexists. split; [reflexivity | um].
  - rewrite Hrc. exists true. eexists. split; [reflexivity | um].
  - (* Q_recheck_hit *)
    rewrite Hm. cbn [option_map absm m_ver m_val]. rewrite Hv, N.eqb_refl.
    exists true. eexists. split; [reflexivity | um].
  - (* Q_to_verify *)
    rewrite Hm. cbn [option_map absm m_ver m_deps].
    destruct (N.eqb_spec (n_ver m) (c2_cur s2)) as [E0|E0]; [contradiction|].
    exists true. eexists. split; [reflexivity | um].
  - (* Q_exec_start *)
    exists false. destruct Hph as [[-> Hnv] | (l & ok & ->)]; cbn [absp].
    + destruct (c2_memo s2 k) as [m|] eqn:Em; cbn [option_map absm m_ver].
      * destruct (N.eqb_spec (n_ver m) (c2_cur s2)) as [E0|E0]; [exfalso; eapply Hnv; eauto|].
        eexists. split; [reflexivity | um].
      * eexists. split; [reflexivity | um].
    + destruct l as [|d rest].
      * destruct (option_map absm (c2_memo s2 k)); cbn [andb]; eexists; (split; [reflexivity | um]).
      * eexists. split; [reflexivity | um].
  - exists true. eexists. split; [reflexivity | um].
  - exists true. eexists. split; [reflexivity | um].
  - (* Q_mark *)
    rewrite Hm. cbn [option_map]. exists true. cbn [andb].
    assert (HE : Ev (c2_cur s2) k = n_val m).
    { eapply (mark_value Q rank seen s2 t k below m); eauto. }
    unfold valid_now. cbn [absm m_val abs c_cur absP p_val]. rewrite HE, N.eqb_refl.
    eexists. split; [reflexivity|]. um.
    intros k0. unfold mark, updN. cbn [abs c_memo c_cur absm m_val m_deps].
    destruct (k =? k0); reflexivity.
  - (* Q_publish *)
    pose proof (publish_value Q rank seen s2 t k acc mc below RK I Hst) as HE.
    exists true. eexists. split; [reflexivity|]. um.
    + intros k0. unfold publish, updN. cbn [abs c_memo c_cur absP p_val p_deps].
      destruct (k =? k0); [|reflexivity]. rewrite <- HE. reflexivity.
    + cbn [absP p_val]. rewrite <- HE. reflexivity.
  - rewrite Hrm, Hrs. exists true. eexists. split; [reflexivity | um].
  - rewrite Hrm, Hrs. exists true. eexists. split; [reflexivity | um].
  - rewrite Hub. exists true. eexists. split; [reflexivity | um].
Qed.

End Sim.

(* ------------------------------------------------------------------------------------------ *)
(* reachable states                                                                            *)
(* ------------------------------------------------------------------------------------------ *)

Inductive creach2 (fuel : nat) (Q : prog2) : cstate2 -> Prop :=
| cr2_init : creach2 fuel Q cinit2
| cr2_step s o s' : creach2 fuel Q s -> gstep2 fuel Q s o = Some s' -> creach2 fuel Q s'.

Lemma hold2_abs ph : holding (absp ph) = hold2 ph.
Proof. destruct ph; reflexivity. Qed.

Lemma idleb_abst ts : idleb (abst ts) = idleb2 ts.
Proof. unfold idleb, idleb2, abst. cbn. destruct (th2_stack ts); reflexivity. Qed.

Lemma doneb_abst ts : doneb (abst ts) = doneb2 ts.
Proof. unfold doneb, doneb2, abst. cbn. destruct (th2_stack ts); reflexivity. Qed.

Section Top.
Variable fuel : nat.
Variable Q : prog2.
Variable rank : key -> nat.

Notation P' := (absP Q rank).

Lemma stack_of_ceq s s2 t : ceq s (abs s2) -> stack_of s t = map absf (stack2 s2 t).
Proof. intros (_ & _ & _ & Ht & _). unfold stack_of. now rewrite Ht. Qed.

Lemma excl_of_safe s s2 : SafeInv P' s -> ceq s (abs s2) -> excl s2.
Proof.
  intros I He t k ph below t' f' Hst Hh Hin Hh' Hk.
  assert (Hst' : stack_of s t = (k @: absp ph) :: map absf below).
  { rewrite (stack_of_ceq _ _ _ He), Hst. reflexivity. }
  assert (Hin' : In (absf f') (stack_of s t')).
  { rewrite (stack_of_ceq _ _ _ He). now apply in_map. }
  assert (Hha : holding (absp ph) = true) by now rewrite hold2_abs.
  assert (Hhb : holding (f_phase (absf f')) = true) by (cbn; now rewrite hold2_abs).
  destruct (top_holder P' s t k (absp ph) (map absf below) t' (absf f') I Hst' Hha Hin' Hhb Hk) as [-> _].
  split; auto. intros Hb.
  apply (top_unique P' s t k (absp ph) (map absf below) (absf f') I Hst' Hha); auto.
  now apply in_map.
Qed.

Lemma tstep2_inv s2 t c s2' :
  tstep2 fuel Q s2 t c = Some s2' ->
  In t (c2_tids s2) /\ th2_cycle (c2_thr s2 t) = false /\
  exists u2, path2 fuel Q s2 t u2 /\ s2' = apply_upd2 s2 t u2.
Proof.
  unfold tstep2. destruct (mem t (c2_tids s2)) eqn:Em; [|discriminate].
  destruct (step_thread2 fuel Q s2 t c) as [u2|] eqn:E0; [|discriminate]. intros [= <-].
  split; [now apply ProofsList.mem_In|]. split.
  - unfold step_thread2 in E0. destruct (th2_cycle (c2_thr s2 t)); [discriminate | reflexivity].
  - exists u2. split; auto. eapply step_thread2_path; eauto.
Qed.

(* one step of the computed model = one step of the abstract model *)
Lemma sim_tstep seen s s2 t c s2' :
  ranked2 Q rank -> stamps_ok Q -> ceq s (abs s2) -> InvS Q rank seen s2 ->
  tstep2 fuel Q s2 t c = Some s2' ->
  exists c' s', tstep fuel P' s t c' = Some s' /\ ceq s' (abs s2').
Proof.
  intros RK SK He I Hs. destruct (tstep2_inv _ _ _ _ Hs) as (Ht & Hcyc & u2 & Hp & ->).
  destruct (sim_path fuel Q rank seen s2 t u2 RK SK I Hcyc Hp) as (c' & u & Hu & Hm).
  assert (Ha : tstep fuel P' (abs s2) t c' = Some (apply_upd (abs s2) t u)).
  { unfold tstep. cbn [abs c_tids]. apply ProofsList.mem_In in Ht. rewrite Ht, Hu. reflexivity. }
  destruct (tstep_ceq fuel P' _ _ _ _ _ (ceq_sym _ _ He) Ha) as (s' & Hs' & He').
  exists c', s'. split; auto.
  eapply ceq_trans; [apply ceq_sym; exact He'|]. now apply umatch_ceq.
Qed.

Lemma creach2_sim s2 :
  ranked2 Q rank -> stamps_ok Q -> creach2 fuel Q s2 ->
  exists seen s, creach fuel P' s /\ ceq s (abs s2) /\ InvS Q rank seen s2.
Proof.
  intros RK SK. induction 1 as [|s2 o s2' HR (seen & s & HC & He & I) Hs].
  - exists (fun _ _ => False), cinit. split; [constructor|]. split.
    + repeat split; auto.
    + constructor; cbn; try (intros; discriminate); try (intros; contradiction);
        try (intros t; exact Logic.I); try (unfold REV_START; lia).
  - destruct o as [t c| |t ks]; cbn [gstep2] in Hs.
    + destruct (sim_tstep seen s s2 t c s2' RK SK He I Hs) as (c' & s' & Hs' & He').
      destruct (tstep2_inv _ _ _ _ Hs) as (_ & _ & u2 & Hp & ->).
      destruct (inv_path fuel Q rank seen s2 t u2 RK SK I
                  (excl_of_safe _ _ (creach_safe _ _ _ HC) He) Hp) as (seen' & I').
      exists seen', s'. split; [eapply cr_step with (o := GStep t c'); eauto | auto].
    + destruct (forallb (fun t => idleb2 (c2_thr s2 t)) (c2_tids s2)) eqn:Ef; [|discriminate].
      injection Hs as <-.
      assert (Ha : gstep fuel P' (abs s2) GBump =
                   Some (abs (mkC2 (c2_cur s2 + 1) (c2_memo s2) (c2_proto s2) (c2_thr s2) (c2_tids s2) (c2_log s2)))).
      { cbn [gstep abs c_tids c_thr].
        rewrite (forallb_pw (fun t => idleb (abst (c2_thr s2 t))) (fun t => idleb2 (c2_thr s2 t)))
          by (intros x; apply idleb_abst).
        rewrite Ef. reflexivity. }
      destruct (gstep_ceq fuel P' _ _ _ _ (ceq_sym _ _ He) Ha) as (s' & Hs' & He').
      exists seen, s'. split; [eapply cr_step; eauto|]. split; [now apply ceq_sym|].
      assert (Hemp : forall t, stack2 s2 t = []).
      { intros t. pose proof (all_idle _ _ (creach_safe _ _ _ HC)) as AI.
        assert (Hf : forallb (fun t => idleb (c_thr s t)) (c_tids s) = true).
        { destruct He as (_ & _ & _ & Ht & Hd & _). rewrite Hd. cbn [abs c_tids].
          rewrite (forallb_pw _ (fun t => idleb2 (c2_thr s2 t))); auto.
          intros x. rewrite Ht. apply idleb_abst. }
        specialize (AI Hf t). rewrite (stack_of_ceq _ _ _ He) in AI.
        destruct (stack2 s2 t); [reflexivity | discriminate]. }
      destruct I as [A B C D E0 F]. constructor; cbn [c2_memo c2_cur].
      * intros k m Hm. destruct (A _ _ Hm) as (A1 & A2 & A3 & A4 & A5). repeat split; auto. lia.
      * intros k r Hr. specialize (B _ _ Hr). lia.
      * exact C.
      * intros t. unfold stack2 in *. cbn. rewrite Hemp. exact Logic.I.
      * lia.
      * exact F.
    + destruct (idleb2 (c2_thr s2 t)) eqn:Ei; [|discriminate]. injection Hs as <-.
      assert (Ha : gstep fuel P' (abs s2) (GSpawn t ks) =
                   Some (mkC (c2_cur s2) (fun k => option_map absm (c2_memo s2 k)) (c2_proto s2)
                             (updN (fun t => abst (c2_thr s2 t)) t (mkT [] ks false))
                             (if mem t (c2_tids s2) then c2_tids s2 else t :: c2_tids s2) (c2_log s2))).
      { cbn [gstep abs c_tids c_thr]. rewrite idleb_abst, Ei. reflexivity. }
      destruct (gstep_ceq fuel P' _ _ _ _ (ceq_sym _ _ He) Ha) as (s' & Hs' & He').
      exists seen, s'. split; [eapply cr_step; eauto|]. split.
      * eapply ceq_trans; [apply ceq_sym; exact He'|]. unfold ceq, abs. cbn.
        repeat split; auto. intros t'. unfold updN. destruct (t =? t'); reflexivity.
      * unfold idleb2 in Ei. destruct (th2_stack (c2_thr s2 t)) eqn:Es; [|discriminate].
        destruct I as [A B C D E0 F]. constructor; cbn [c2_memo c2_cur]; auto.
        intros t'. unfold stack2. cbn. unfold updN. destruct (N.eqb_spec t t') as [<-|Hne].
        -- cbn. exact Logic.I.
        -- apply D.
Qed.

End Top.

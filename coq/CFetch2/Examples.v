(* CFetch2/Examples.v — concrete runs (non-vacuity witnesses): three handles, a shared
   sub-query, a waiter, two revisions with a verification that succeeds (mark), one that fails on
   an input stamp (re-execution), and a caller that re-executes because a callee changed. *)
From Salsa Require Import Base.
From Salsa.Proto Require Import Model.
From Salsa.CFetch Require Import Model ProofsTerm Examples.
From Salsa.CFetch2 Require Import Model ProofsEq ProofsRel ProofsVal ProofsSim ProofsTop.

Definition nsum (l : list val) : val := fold_right N.add 0 l.

(* key 1 = in0;  key 2 = in1 + key 1;  key 3 = key 1 + key 2.
   in0 = 5 always; in1 = 7 in revision 1, 9 from revision 2 on. *)
Definition ex2_prog : prog2 :=
  mkQ (fun k => if k =? 1 then [0] else if k =? 2 then [1] else [])
      (fun k => if k =? 2 then [1] else if k =? 3 then [1; 2] else [])
      (fun _ ins vals => nsum ins + nsum vals)
      (fun k => negb (k =? 3))       (* key 3 is a `no_eq` function *)
      (fun r i => if i =? 0 then 5 else if r <? 2 then 7 else 9)
      (fun r i => if i =? 0 then 1 else if r <? 2 then 1 else 2).

Definition ex2_rank (k : key) : nat := N.to_nat k.

Lemma ex2_ranked : ranked2 ex2_prog ex2_rank.
Proof.
  intros k d. cbn. unfold ex2_rank.
  destruct (N.eqb_spec k 2) as [->|_]; [intros [<-|[]]; cbn; lia|].
  destruct (N.eqb_spec k 3) as [->|_]; [intros [<-|[<-|[]]]; cbn; lia | intros []].
Qed.

Lemma ex2_stamps : stamps_ok ex2_prog.
Proof.
  split.
  - intros r i r'. cbn. destruct (i =? 0); [reflexivity|].
    destruct (N.ltb_spec r 2); intros H1 H2; destruct (N.ltb_spec r' 2); try reflexivity; lia.
  - intros r i Hr. cbn. destruct (i =? 0); [lia|]. destruct (N.ltb_spec r 2); lia.
Qed.

(* round-robin driver: every round each listed handle takes one step if it can; returns the
   state and the schedule it actually ran *)
Definition rr_round (ts : list thread) (s : cstate2) (acc : list gop) : cstate2 * list gop :=
  fold_left (fun sa t => match tstep2 10 ex2_prog (fst sa) t true with
                         | Some s' => (s', snd sa ++ [GStep t true])
                         | None => sa
                         end) ts (s, acc).

Fixpoint rr (n : nat) (ts : list thread) (s : cstate2) (acc : list gop) : cstate2 * list gop :=
  match n with
  | O => (s, acc)
  | S n' => let r := rr_round ts s acc in rr n' ts (fst r) (snd r)
  end.

Definition ex2_spawn1 : list gop := [GSpawn 1 [3]; GSpawn 2 [3]; GSpawn 3 [2]].
Definition ex2_start1 : cstate2 :=
  match grun2 10 ex2_prog ex2_spawn1 cinit2 with Some s => s | None => cinit2 end.
Definition ex2_sched1 : list gop := snd (rr 40 [1; 2; 3] ex2_start1 []).
Definition ex2_spawn2 : list gop := [GBump; GSpawn 1 [3]; GSpawn 2 [1]].
Definition ex2_mid : cstate2 :=
  match grun2 10 ex2_prog (ex2_spawn1 ++ ex2_sched1 ++ ex2_spawn2) cinit2 with
  | Some s => s | None => cinit2 end.
Definition ex2_sched2 : list gop := snd (rr 40 [1; 2] ex2_mid []).
Definition ex2_all : list gop := ex2_spawn1 ++ ex2_sched1 ++ ex2_spawn2 ++ ex2_sched2.
Definition ex2_end1 : cstate2 :=
  match grun2 10 ex2_prog (ex2_spawn1 ++ ex2_sched1) cinit2 with Some s => s | None => cinit2 end.
Definition ex2_final : cstate2 :=
  match grun2 10 ex2_prog ex2_all cinit2 with Some s => s | None => cinit2 end.

Lemma grun2_creach0 fuel Q l s : grun2 fuel Q l cinit2 = Some s -> creach2 fuel Q s.
Proof. apply grun2_creach. constructor. Qed.

Example ex2_start1_reachable : creach2 10 ex2_prog ex2_start1.
Proof. apply grun2_creach0 with (l := ex2_spawn1). vm_compute. reflexivity. Qed.

Example ex2_end1_reachable : creach2 10 ex2_prog ex2_end1.
Proof. apply grun2_creach0 with (l := ex2_spawn1 ++ ex2_sched1). vm_compute. reflexivity. Qed.

Example ex2_final_reachable : creach2 10 ex2_prog ex2_final.
Proof. apply grun2_creach0 with (l := ex2_all). vm_compute. reflexivity. Qed.

Example ex2_mid_reachable : creach2 10 ex2_prog ex2_mid.
Proof. apply grun2_creach0 with (l := ex2_spawn1 ++ ex2_sched1 ++ ex2_spawn2). vm_compute. reflexivity. Qed.

(* revision 1: keys 1, 2, 3 are executed once each although three handles want them; values
   5, 12, 17; every handle waited once (three Completed wake-ups); all handles done *)
Example ex2_round1 :
  (c2_log ex2_end1, notified (dg (c2_proto ex2_end1)),
   forallb (fun t => doneb2 (c2_thr ex2_end1 t)) (c2_tids ex2_end1)) =
  ([ERet 2 3 1 17; ERet 1 3 1 17; ERet 1 2 1 12; ERet 3 2 1 12; ERet 3 1 1 5; ERet 1 1 1 5;
    EExec 1 1 1; EExec 3 2 1; EExec 1 3 1],
   [(2, Completed); (1, Completed); (3, Completed)], true).
Proof. vm_compute. reflexivity. Qed.

(* revision 2 (input 1 changed): key 1 is verified and marked (changed_at stays 1), key 2 is
   re-executed because its input stamp is newer than its verified_at (new value 14, changed_at
   2), key 3 is re-executed because the walk saw key 2 changed (19); handle 2 reads key 1 *)
Example ex2_round2 :
  (firstn 10 (c2_log ex2_final),
   (c2_memo ex2_final 1, c2_memo ex2_final 2, c2_memo ex2_final 3),
   forallb (fun t => doneb2 (c2_thr ex2_final t)) (c2_tids ex2_final)) =
  ([ERet 1 3 2 19; ERet 1 2 2 14; ERet 1 1 2 5; EExec 1 3 2; ERet 1 2 2 14; ERet 1 1 2 5;
    EExec 1 2 2; ERet 1 1 2 5; ERet 2 1 2 5; ERet 1 1 2 5],
   (Some (mkM2 2 5 1 []), Some (mkM2 2 14 2 [1]), Some (mkM2 2 19 2 [1; 2])), true).
Proof. vm_compute. reflexivity. Qed.

(* the from-scratch values of the two revisions *)
Example ex2_spec :
  (map (E ex2_prog ex2_rank 1) [1; 2; 3], map (E ex2_prog ex2_rank 2) [1; 2; 3]) =
  ([5; 12; 17], [5; 14; 19]).
Proof. vm_compute. reflexivity. Qed.

(* the bound: 90 steps are budgeted at the start of each round; the round-robin schedules took
   36 and 30; at the end nothing is left *)
Example ex2_bound :
  (Phi2 ex2_prog ex2_rank ex2_start1, length ex2_sched1, Phi2 ex2_prog ex2_rank ex2_end1,
   Phi2 ex2_prog ex2_rank ex2_mid, length ex2_sched2, Phi2 ex2_prog ex2_rank ex2_final) =
  (90, 36, 0, 90, 30, 0)%nat.
Proof. vm_compute. reflexivity. Qed.

Example ex2_sched1_run :
  Forall is_gstep ex2_sched1 /\ grun2 10 ex2_prog ex2_sched1 ex2_start1 = Some ex2_end1 /\
  (length (c2_tids ex2_start1) < 10)%nat.
Proof.
  split; [|split].
  - apply Forall_forall. intros o Ho. vm_compute in Ho.
    repeat (destruct Ho as [<-|Ho]; [exact Logic.I|]). destruct Ho.
  - vm_compute. reflexivity.
  - vm_compute. lia.
Qed.

(* CFetch2/ProofsVal.v — what the computed model computes is the from-scratch value.

   The invariant ([InvS], with a ghost set [seen k] of revisions in which [k]'s memo was known
   valid — the observer-relative device of the Core proof, DESIGN §7 C01):
     * a memo's value is the from-scratch value at every seen revision not before its
       changed_at (backdating keeps this; "constant on [changed_at, verified_at]" would be false);
     * the verified_at of a memo is a seen revision of each recorded dependency;
     * an executing frame holds the from-scratch values of the callees that returned so far;
       a verifying frame whose flag is still set has seen every walked dependency verified in
       the current revision with changed_at not after its own memo's verified_at;
     * a frame past publication holds the (value, changed_at) of a memo verified now.
   Rely: a memo verified in the current revision is never written again in this revision (the
   writers are executing/verifying claim holders of keys that are NOT verified, claims are
   exclusive — [excl], obtained from CFetch's SafeInv through the abstraction). *)
From Salsa Require Import Base.
From Salsa.Proto Require Import Model.
From Salsa.CFetch Require Import Model.
From Salsa.CFetch2 Require Import Model ProofsRel.

Definition walking (ph : phase2) : bool :=
  match ph with QVerify _ _ | QExec _ _ _ => true | _ => false end.

Definition hold2 (ph : phase2) : bool :=
  match ph with QClaimed | QVerify _ _ | QExec _ _ _ | QRelease _ _ => true | _ => false end.

(* claims are exclusive (what CFetch2 relies on; proved for CFetch) *)
Definition excl (s : cstate2) : Prop :=
  forall t k ph below t' f',
    stack2 s t = (k @@ ph) :: below -> hold2 ph = true ->
    In f' (stack2 s t') -> hold2 (g_phase f') = true -> g_key f' = k ->
    t' = t /\ ~ In f' below.

Section Val.
Variable fuel : nat.
Variable Q : prog2.
Variable rank : key -> nat.

Notation Ev := (E Q rank).

Definition ver2m (mm : key -> option memo2) (cur : rev) (k : key) : Prop :=
  exists m, mm k = Some m /\ n_ver m = cur.

Definition good_dep (mm : key -> option memo2) (cur since : rev) (d : key) : Prop :=
  exists md, mm d = Some md /\ n_ver md = cur /\ n_chg md <= since.

Definition frame_ok mm cur (pend : list key) (f : frame2) : Prop :=
  match g_phase f with
  | QVerify l ok =>
    ~ ver2m mm cur (g_key f) /\
    (ok = true -> exists m, mm (g_key f) = Some m /\
       forall d, In d (n_deps m) -> ~ In d (pend ++ l) -> good_dep mm cur (n_ver m) d)
  | QExec l acc mc =>
    ~ ver2m mm cur (g_key f) /\ mc <= cur /\
    exists done, q_deps Q (g_key f) = done ++ pend ++ l /\ acc = map (Ev cur) done /\
                 forall d, In d done -> good_dep mm cur mc d
  | QRelease v c | QUnblock v c =>
    exists m, mm (g_key f) = Some m /\ n_ver m = cur /\ n_val m = v /\ n_chg m = c
  | _ => True
  end.

Fixpoint stack_ok mm cur (pend : list key) (l : list frame2) : Prop :=
  match l with
  | [] => True
  | f :: b => frame_ok mm cur pend f /\ stack_ok mm cur [g_key f] b
  end.

Record InvS (seen : key -> rev -> Prop) (s : cstate2) : Prop := mkInvS {
  IV_memo : forall k m, c2_memo s k = Some m ->
    n_chg m <= n_ver m /\ n_ver m <= c2_cur s /\ seen k (n_ver m) /\ n_deps m = q_deps Q k /\
    forall r, seen k r -> n_chg m <= r -> Ev r k = n_val m;
  IV_seen : forall k r, seen k r -> r <= c2_cur s;
  IV_dep : forall k m d, c2_memo s k = Some m -> In d (n_deps m) -> seen d (n_ver m);
  IV_stack : forall t, stack_ok (c2_memo s) (c2_cur s) [] (stack2 s t);
  IV_cur : 1 <= c2_cur s;
  IV_closed : forall k r d, seen k r -> In d (q_deps Q k) -> seen d r
}.

Lemma verified_value seen s d md :
  InvS seen s -> c2_memo s d = Some md -> n_ver md = c2_cur s -> Ev (c2_cur s) d = n_val md.
Proof.
  intros I Hm Hv. destruct (IV_memo _ _ I _ _ Hm) as (Hc & _ & Hs & _ & Hval).
  apply Hval; [now rewrite <- Hv | lia].
Qed.

Lemma chg_le_cur seen s d md :
  InvS seen s -> c2_memo s d = Some md -> n_ver md = c2_cur s -> n_chg md <= c2_cur s.
Proof. intros I Hm Hv. destruct (IV_memo _ _ I _ _ Hm) as (Hc & _). lia. Qed.

(* ---- a write to an unverified key leaves the other frames alone ---- *)
Lemma frame_stable mm mm' cur k0 pend f :
  ~ ver2m mm cur k0 -> (forall k, k <> k0 -> mm' k = mm k) ->
  (g_key f = k0 -> walking (g_phase f) = false) ->
  frame_ok mm cur pend f -> frame_ok mm' cur pend f.
Proof.
  intros Hun Hoth Hcond. unfold frame_ok.
  assert (Hv : forall d, ver2m mm cur d -> ver2m mm' cur d).
  { intros d (m & Hm & Hvv). exists m. split; auto. rewrite Hoth; auto.
    intros ->. apply Hun. exists m. auto. }
  assert (Hg : forall since d, good_dep mm cur since d -> good_dep mm' cur since d).
  { intros since d (m & Hm & Hvv & Hc). exists m. split; auto. rewrite Hoth; auto.
    intros ->. apply Hun. exists m. auto. }
  destruct (g_phase f) as [| | | |l ok|l acc mc|v c|v c] eqn:Eph; auto.
  - assert (Hne : g_key f <> k0) by (intros E0; specialize (Hcond E0); discriminate).
    intros [Hnv Hok]. split.
    + intros (m & Hm & Hvv). apply Hnv. exists m. rewrite <- Hoth; auto.
    + intros Eok. destruct (Hok Eok) as (m & Hm & Hd). exists m. rewrite Hoth by auto. split; auto.
  - assert (Hne : g_key f <> k0) by (intros E0; specialize (Hcond E0); discriminate).
    intros [Hnv [Hmc (done & Hd & Ha & Hall)]]. split; [|split; [exact Hmc|]].
    + intros (m & Hm & Hvv). apply Hnv. exists m. rewrite <- Hoth; auto.
    + exists done. repeat split; auto.
  - intros (m & Hm & Hvv & Hr). exists m. rewrite Hoth; auto.
    intros E0. apply Hun. exists m. rewrite <- E0. auto.
  - intros (m & Hm & Hvv & Hr). exists m. rewrite Hoth; auto.
    intros E0. apply Hun. exists m. rewrite <- E0. auto.
Qed.

Lemma stack_stable mm mm' cur k0 : forall l pend,
  ~ ver2m mm cur k0 -> (forall k, k <> k0 -> mm' k = mm k) ->
  (forall f, In f l -> g_key f = k0 -> walking (g_phase f) = false) ->
  stack_ok mm cur pend l -> stack_ok mm' cur pend l.
Proof.
  induction l as [|f b IH]; intros pend Hun Hoth Hc; cbn [stack_ok]; auto.
  intros [Hf Hb]. split.
  - eapply frame_stable; eauto. apply Hc. now left.
  - apply IH; auto. intros f' Hf'. apply Hc. now right.
Qed.

(* ---- a returned (value, changed_at) reaches a correct caller frame ---- *)
Lemma deliver_ok mm cur d v c below md :
  mm d = Some md -> n_ver md = cur -> n_val md = v -> n_chg md = c -> Ev cur d = v -> c <= cur ->
  stack_ok mm cur [d] below -> stack_ok mm cur [] (deliver mm v c below).
Proof.
  intros Hm Hv Hval Hc HE Hcc. destruct below as [|f b]; cbn [deliver stack_ok]; auto.
  intros [Hf Hb]. unfold frame_ok in Hf.
  destruct (g_phase f) as [| | | |l ok|l acc mc|v0 c0|v0 c0] eqn:Eph; cbn [stack_ok g_key].
  1-4: (split; [unfold frame_ok; rewrite Eph; auto | exact Hb]).
  - destruct Hf as [Hnv Hok]. split; [|exact Hb]. unfold frame_ok. cbn [g_phase g_key].
    split; auto. intros Eok. apply andb_true_iff in Eok as [Eok Eun].
    destruct (Hok Eok) as (m & Hmk & Hd). exists m. split; auto.
    rewrite Hmk in Eun. apply N.leb_le in Eun.
    intros d' Hin Hnot. cbn [app] in Hnot.
    destruct (N.eq_dec d' d) as [->|Hne].
    + exists md. repeat split; auto. now rewrite Hc.
    + apply Hd; auto. cbn [app]. intros [E0|E0]; [congruence | contradiction].
  - destruct Hf as [Hnv [Hmc (done & Hd & Ha & Hall)]]. split; [|exact Hb].
    unfold frame_ok. cbn [g_phase g_key]. split; auto. split; [lia|].
    exists (done ++ [d]). split; [|split].
    + rewrite Hd. cbn [app]. now rewrite <- app_assoc.
    + rewrite map_app, Ha. cbn [map]. now rewrite HE.
    + intros d' Hin. apply in_app_or in Hin as [Hin|[<-|[]]].
      * destruct (Hall _ Hin) as (md' & A & B & C). exists md'. repeat split; auto. lia.
      * exists md. repeat split; auto. lia.
  - split; [unfold frame_ok; rewrite Eph; exact Hf | exact Hb].
  - split; [unfold frame_ok; rewrite Eph; exact Hf | exact Hb].
Qed.

End Val.

Lemma fold_max_ge b l x : In x l -> x <= fold_right N.max b l.
Proof. induction l as [|a l IH]; intros []; cbn; [subst; lia | specialize (IH H); lia]. Qed.

Lemma fold_max_le b l c : (forall x, In x l -> x <= c) -> b <= c -> fold_right N.max b l <= c.
Proof.
  induction l as [|a l IH]; intros H Hb; cbn; auto.
  pose proof (H a (or_introl eq_refl)). assert (fold_right N.max b l <= c) by (apply IH; auto; intros x Hx; apply H; now right).
  lia.
Qed.

Section Pres.
Variable fuel : nat.
Variable Q : prog2.
Variable rank : key -> nat.

Notation Ev := (E Q rank).

Lemma stack2_apply s t u t' :
  stack2 (apply_upd2 s t u) t' = if t =? t' then u2_stack u else stack2 s t'.
Proof. unfold stack2, apply_upd2; cbn. unfold updN. destruct (t =? t'); reflexivity. Qed.

Lemma inv_nomemo seen s t u :
  InvS Q rank seen s -> u2_memo u = c2_memo s ->
  stack_ok Q rank (c2_memo s) (c2_cur s) [] (u2_stack u) ->
  InvS Q rank seen (apply_upd2 s t u).
Proof.
  intros [A B C D] Hm Hs. constructor; cbn [c2_memo c2_cur apply_upd2]; rewrite ?Hm; auto.
  intros t'. rewrite stack2_apply. destruct (t =? t'); auto.
Qed.

(* the two memo writes *)
Lemma inv_write seen s t u k0 ph below m' :
  InvS Q rank seen s -> excl s ->
  stack2 s t = (k0 @@ ph) :: below -> hold2 ph = true ->
  ~ ver2m (c2_memo s) (c2_cur s) k0 ->
  u2_memo u = updN (c2_memo s) k0 (Some m') ->
  n_ver m' = c2_cur s -> n_chg m' <= c2_cur s -> n_deps m' = q_deps Q k0 ->
  Ev (c2_cur s) k0 = n_val m' ->
  (forall r, seen k0 r -> n_chg m' <= r -> Ev r k0 = n_val m') ->
  (forall d, In d (q_deps Q k0) -> ver2m (c2_memo s) (c2_cur s) d) ->
  u2_stack u = (k0 @@ QRelease (n_val m') (n_chg m')) :: below ->
  InvS Q rank (fun k r => seen k r \/ (k = k0 /\ r = c2_cur s)) (apply_upd2 s t u).
Proof.
  intros I X Hst Hh Hun Hm Hv Hc Hd HE Hold Hdeps Hs.
  assert (Hoth : forall k, k <> k0 -> u2_memo u k = c2_memo s k).
  { intros k Hk. rewrite Hm. now rewrite updN_other by auto. }
  assert (Hk0 : u2_memo u k0 = Some m') by (rewrite Hm; apply updN_same).
  assert (Hwalk : forall t' f, In f (stack2 s t') -> (t' <> t \/ In f below) -> g_key f = k0 ->
                  walking (g_phase f) = false).
  { intros t' f Hin Hpos Hk. destruct (walking (g_phase f)) eqn:Ew; auto. exfalso.
    assert (Hh' : hold2 (g_phase f) = true) by (destruct (g_phase f); try discriminate; reflexivity).
    destruct (X _ _ _ _ _ _ Hst Hh Hin Hh' Hk) as [Et Hnb]. destruct Hpos; [congruence | contradiction]. }
  constructor; cbn [c2_memo c2_cur apply_upd2].
  - intros k m Hk. destruct (N.eq_dec k k0) as [->|Hne].
    + rewrite Hk0 in Hk. injection Hk as <-. rewrite Hv. split; [exact Hc|]. split; [lia|].
      split; [right; auto|]. split; [exact Hd|].
      intros r [Hr | [_ ->]] Hle; [now apply Hold | exact HE].
    + rewrite Hoth in Hk by auto. destruct (IV_memo _ _ _ _ I _ _ Hk) as (A & B & C & D & F).
      repeat split; auto. intros r [Hr | [E0 _]] Hle; [now apply F | congruence].
  - intros k r [Hr | [_ ->]]; [eapply IV_seen; eauto | lia].
  - intros k m d Hk Hin. destruct (N.eq_dec k k0) as [->|Hne].
    + rewrite Hk0 in Hk. injection Hk as <-. rewrite Hd in Hin. rewrite Hv.
      destruct (Hdeps _ Hin) as (md & Hmd & Hvd).
      destruct (IV_memo _ _ _ _ I _ _ Hmd) as (_ & _ & Hsn & _). left. now rewrite <- Hvd.
    + rewrite Hoth in Hk by auto. left. eapply IV_dep; eauto.
  - intros t'. rewrite stack2_apply. destruct (N.eqb_spec t t') as [<-|Hne].
    + rewrite Hs. cbn [stack_ok g_key]. split.
      * unfold frame_ok. cbn [g_phase g_key]. exists m'. auto.
      * pose proof (IV_stack _ _ _ _ I t) as Hok. rewrite Hst in Hok. cbn [stack_ok g_key] in Hok.
        destruct Hok as [_ Hb].
        eapply (stack_stable Q rank (c2_memo s) (u2_memo u) (c2_cur s) k0);
          [exact Hun | exact Hoth | | exact Hb].
        intros f Hf Hk. apply (Hwalk t f); [rewrite Hst; now right | now right | exact Hk].
    + eapply (stack_stable Q rank (c2_memo s) (u2_memo u) (c2_cur s) k0);
        [exact Hun | exact Hoth | | apply (IV_stack _ _ _ _ I)].
      intros f Hf Hk. apply (Hwalk t' f); auto.
  - apply (IV_cur _ _ _ _ I).
  - intros k r d [Hr | [-> ->]] Hin.
    + left. eapply IV_closed; eauto.
    + destruct (Hdeps _ Hin) as (md & Hmd & Hvd).
      destruct (IV_memo _ _ _ _ I _ _ Hmd) as (_ & _ & Hsn & _). left. now rewrite <- Hvd.
Qed.

Lemma forallb_stamps cur k since :
  inputs_unchanged Q cur k since = true -> forall i, In i (q_ins Q k) -> q_stamp Q cur i <= since.
Proof.
  unfold inputs_unchanged. rewrite forallb_forall. intros H i Hi. apply N.leb_le. now apply H.
Qed.

Lemma inv_path seen s t u :
  ranked2 Q rank -> stamps_ok Q -> InvS Q rank seen s -> excl s -> path2 fuel Q s t u ->
  exists seen', InvS Q rank seen' (apply_upd2 s t u).
Proof.
  intros RK SK I X Hp.
  pose proof (IV_stack _ _ _ _ I t) as Hok.
  dpath2 Hp; rewrite Hst in Hok; cbn [stack_ok g_key] in Hok;
    try (destruct Hok as [Hf Hb]; unfold frame_ok in Hf; cbn [g_phase g_key] in Hf).
  - (* Q_begin *)
    exists seen. apply inv_nomemo; auto. cbn. auto.
  - (* Q_hit *)
    exists seen. apply inv_nomemo; auto. cbn [u2_stack].
    eapply deliver_ok; eauto; [eapply verified_value; eauto | eapply chg_le_cur; eauto].
  - exists seen. apply inv_nomemo; auto. cbn [u2_stack stack_ok g_key]. split; [exact Logic.I | auto].
  - exists seen. apply inv_nomemo; auto. cbn [u2_stack stack_ok g_key]. split; [exact Logic.I | auto].
  - exists seen. apply inv_nomemo; auto. cbn [u2_stack stack_ok g_key]. split; [exact Logic.I | auto].
  - exists seen. apply inv_nomemo; auto. cbn [u2_stack stack_ok g_key]. split; [exact Logic.I | auto].
  - exists seen. apply inv_nomemo; auto. cbn [u2_stack stack_ok g_key]. split; [exact Logic.I | auto].
  - exists seen. apply inv_nomemo; auto. cbn [u2_stack stack_ok g_key]. split; [exact Logic.I | auto].
  - (* Q_recheck_hit *)
    exists seen. apply inv_nomemo; auto. cbn [u2_stack stack_ok g_key]. split; auto.
    unfold frame_ok. cbn [g_phase g_key]. exists m. auto.
  - (* Q_to_verify *)
    exists seen. apply inv_nomemo; auto. cbn [u2_stack stack_ok g_key]. split; auto.
    unfold frame_ok. cbn [g_phase g_key]. split.
    + intros (m0 & Hm0 & Hv0). congruence.
    + intros _. exists m. split; auto. intros d Hin Hnot. exfalso. apply Hnot. cbn [app]. exact Hin.
  - (* Q_exec_start *)
    exists seen. apply inv_nomemo; auto. cbn [u2_stack stack_ok g_key]. split; auto.
    unfold frame_ok. cbn [g_phase g_key]. split.
    + destruct Hph as [[-> Hnv] | (l & ok & ->)].
      * intros (m0 & Hm0 & Hv0). eapply Hnv; eauto.
      * unfold frame_ok in Hf. cbn [g_phase] in Hf. apply Hf.
    + split; [exact (IV_cur _ _ _ _ I)|]. exists []. cbn. repeat split; auto. intros d [].
  - (* Q_call_v *)
    exists seen. apply inv_nomemo; auto. cbn [u2_stack stack_ok g_key]. split; [exact Logic.I|].
    split; auto.
  - (* Q_call_x *)
    exists seen. apply inv_nomemo; auto. cbn [u2_stack stack_ok g_key]. split; [exact Logic.I|].
    split; auto.
  - (* Q_mark *)
    destruct Hf as [Hun Hokk]. destruct (Hokk eq_refl) as (m0 & Hm0 & Hdeps).
    assert (m0 = m) by congruence. subst m0. cbn [app] in Hdeps.
    destruct (IV_memo _ _ _ _ I _ _ Hm) as (Hc & Hle & Hsn & Hd & Hval).
    assert (HE : Ev (c2_cur s) k = n_val m).
    { rewrite <- (Hval (n_ver m) Hsn Hc).
      rewrite (E_unfold Q rank RK (c2_cur s) k), (E_unfold Q rank RK (n_ver m) k). f_equal.
      - apply map_ext_in. intros i Hi. pose proof (forallb_stamps _ _ _ Hin i Hi) as Hs.
        pose proof (proj1 SK (c2_cur s) i) as Hconst. symmetry. now apply Hconst.
      - apply map_ext_in. intros d Hdd. rewrite <- Hd in Hdd.
        destruct (Hdeps d Hdd ltac:(intros [])) as (md & Hmd & Hvd & Hcd).
        destruct (IV_memo _ _ _ _ I _ _ Hmd) as (Hc' & _ & Hsn' & _ & Hval').
        rewrite (Hval' (c2_cur s)); [|now rewrite <- Hvd | lia].
        rewrite (Hval' (n_ver m)); auto. eapply IV_dep; eauto. }
    eexists. eapply (inv_write seen s t _ k (QVerify [] true) below
                       (mkM2 (c2_cur s) (n_val m) (n_chg m) (n_deps m))); eauto; cbn [n_ver n_chg n_val n_deps]; auto.
    + lia.
    + intros d Hdd. rewrite <- Hd in Hdd.
      destruct (Hdeps d Hdd ltac:(intros [])) as (md & Hmd & Hvd & _). exists md. auto.
  - (* Q_publish *)
    destruct Hf as [Hun [Hmc (done & Hd & Ha & Hall)]]. cbn [app] in Hd. rewrite app_nil_r in Hd.
    assert (HE : Ev (c2_cur s) k = q_body Q k (map (q_in Q (c2_cur s)) (q_ins Q k)) acc).
    { rewrite (E_unfold Q rank RK). now rewrite Ha, Hd. }
    fold nv in HE.
    assert (Hsm : forall i, In i (q_ins Q k) -> q_stamp Q (c2_cur s) i <= stamp_max Q (c2_cur s) k).
    { intros i Hi. unfold stamp_max. apply fold_max_ge. now apply in_map. }
    assert (Hsm2 : stamp_max Q (c2_cur s) k <= c2_cur s).
    { unfold stamp_max. pose proof (IV_cur _ _ _ _ I) as H1. apply fold_max_le; [|exact H1].
      intros x Hx. apply in_map_iff in Hx as (i & <- & _). exact (proj2 SK (c2_cur s) i H1). }
    assert (Hch0 : forall r, seen k r -> ch0 <= r -> Ev r k = nv).
    { intros r Hr Hle. pose proof (IV_seen _ _ _ _ I _ _ Hr) as Hrc. rewrite <- HE.
      rewrite (E_unfold Q rank RK r k), (E_unfold Q rank RK (c2_cur s) k). f_equal.
      - apply map_ext_in. intros i Hi. specialize (Hsm i Hi).
        apply (proj1 SK (c2_cur s) i r); unfold ch0 in Hle; lia.
      - apply map_ext_in. intros d Hdd. rewrite Hd in Hdd.
        destruct (Hall d Hdd) as (md & Hmd & Hvd & Hcd).
        destruct (IV_memo _ _ _ _ I _ _ Hmd) as (_ & _ & Hsn' & _ & Hval').
        rewrite (Hval' r); [|eapply IV_closed; eauto; now rewrite Hd | unfold ch0 in Hle; lia].
        rewrite (Hval' (c2_cur s)); auto; [now rewrite <- Hvd | lia]. }
    eexists. eapply (inv_write seen s t _ k (QExec [] acc mc) below
      (mkM2 (c2_cur s) nv
            (match c2_memo s k with
             | Some mo => if q_eq Q k && (n_val mo =? nv) then n_chg mo else ch0
             | None => ch0 end) (q_deps Q k))); eauto; cbn [n_ver n_chg n_val n_deps]; auto.
    + destruct (c2_memo s k) as [mo|] eqn:Emo; [|unfold ch0; lia].
      destruct (q_eq Q k && (n_val mo =? nv)); [|unfold ch0; lia].
      destruct (IV_memo _ _ _ _ I _ _ Emo) as (? & ? & _). lia.
    + intros r Hr Hle. destruct (c2_memo s k) as [mo|] eqn:Emo; [|now apply Hch0].
      destruct (q_eq Q k && (n_val mo =? nv)) eqn:Eb; [|now apply Hch0].
      apply andb_true_iff in Eb as [_ Eb]. apply N.eqb_eq in Eb.
      destruct (IV_memo _ _ _ _ I _ _ Emo) as (_ & _ & _ & _ & Hval). rewrite <- Eb. now apply Hval.
    + intros d Hdd. rewrite Hd in Hdd. destruct (Hall d Hdd) as (md & Hmd & Hvd & _). exists md. auto.
  - (* Q_release_quiet *)
    exists seen. apply inv_nomemo; auto. cbn [u2_stack].
    destruct Hf as (m & Hm & Hv & Hval & Hc).
    eapply deliver_ok; eauto; [rewrite <- Hval; eapply verified_value; eauto |
                               rewrite <- Hc; eapply chg_le_cur; eauto].
  - (* Q_release_wake *)
    exists seen. apply inv_nomemo; auto. cbn [u2_stack stack_ok g_key]. split; auto.
  - (* Q_unblock *)
    exists seen. apply inv_nomemo; auto. cbn [u2_stack].
    destruct Hf as (m & Hm & Hv & Hval & Hc).
    eapply deliver_ok; eauto; [rewrite <- Hval; eapply verified_value; eauto |
                               rewrite <- Hc; eapply chg_le_cur; eauto].
Qed.

(* THE TWO GUARDS, DERIVED.  What the model is about to write is the from-scratch value. *)

(* mark_as_verified: every recorded dependency was seen verified now with changed_at not after
   the memo's verified_at, every input stamp is not after it: the old value is still right *)
Lemma mark_value seen s t k below m :
  ranked2 Q rank -> stamps_ok Q -> InvS Q rank seen s ->
  stack2 s t = (k @@ QVerify [] true) :: below -> c2_memo s k = Some m ->
  inputs_unchanged Q (c2_cur s) k (n_ver m) = true ->
  Ev (c2_cur s) k = n_val m.
Proof.
  intros RK SK I Hst Hm Hin.
  pose proof (IV_stack _ _ _ _ I t) as Hok. rewrite Hst in Hok. cbn [stack_ok g_key] in Hok.
  destruct Hok as [Hf _]. unfold frame_ok in Hf. cbn [g_phase g_key] in Hf.
  destruct Hf as [_ Hokk]. destruct (Hokk eq_refl) as (m0 & Hm0 & Hdeps).
  assert (m0 = m) by congruence. subst m0. cbn [app] in Hdeps.
  destruct (IV_memo _ _ _ _ I _ _ Hm) as (Hc & Hle & Hsn & Hd & Hval).
  rewrite <- (Hval (n_ver m) Hsn Hc).
  rewrite (E_unfold Q rank RK (c2_cur s) k), (E_unfold Q rank RK (n_ver m) k). f_equal.
  - apply map_ext_in. intros i Hi. pose proof (forallb_stamps _ _ _ Hin i Hi) as Hs.
    pose proof (proj1 SK (c2_cur s) i) as Hconst. symmetry. now apply Hconst.
  - apply map_ext_in. intros d Hdd. rewrite <- Hd in Hdd.
    destruct (Hdeps d Hdd ltac:(intros [])) as (md & Hmd & Hvd & Hcd).
    destruct (IV_memo _ _ _ _ I _ _ Hmd) as (Hc' & _ & Hsn' & _ & Hval').
    rewrite (Hval' (c2_cur s)); [|now rewrite <- Hvd | lia].
    rewrite (Hval' (n_ver m)); auto. eapply IV_dep; eauto.
Qed.

(* insert_memo: the body applied to the values the callees returned *)
Lemma publish_value seen s t k acc mc below :
  ranked2 Q rank -> InvS Q rank seen s ->
  stack2 s t = (k @@ QExec [] acc mc) :: below ->
  q_body Q k (map (q_in Q (c2_cur s)) (q_ins Q k)) acc = Ev (c2_cur s) k.
Proof.
  intros RK I Hst.
  pose proof (IV_stack _ _ _ _ I t) as Hok. rewrite Hst in Hok. cbn [stack_ok g_key] in Hok.
  destruct Hok as [Hf _]. unfold frame_ok in Hf. cbn [g_phase g_key] in Hf.
  destruct Hf as [_ [_ (done & Hd & Ha & _)]]. cbn [app] in Hd. rewrite app_nil_r in Hd.
  rewrite (E_unfold Q rank RK). now rewrite Ha, Hd.
Qed.

End Pres.

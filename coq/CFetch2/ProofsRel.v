(* CFetch2/ProofsRel.v — the from-scratch value is well defined for ranked programs; the thread
   step of CFetch2 as a relation, one constructor per path. *)
From Salsa Require Import Base.
From Salsa.Proto Require Import Model.
From Salsa.CFetch Require Import Model.
From Salsa.CFetch2 Require Import Model.

Definition stack2 (s : cstate2) (t : thread) : list frame2 := th2_stack (c2_thr s t).
Definition todo2 (s : cstate2) (t : thread) : list key := th2_todo (c2_thr s t).

Notation "k @@ ph" := (mkF2 k ph) (at level 45, no associativity).

Section Spec.
Variable Q : prog2.
Variable rank : key -> nat.

(* calls descend along the rank *)
Definition ranked2 : Prop := forall k d, In d (q_deps Q k) -> (rank d < rank k)%nat.

(* the stamp of an input is the revision of its last write: the value did not change since *)
Definition stamps_ok : Prop :=
  (forall r i r', q_stamp Q r i <= r' -> r' <= r -> q_in Q r' i = q_in Q r i) /\
  (forall r i, 1 <= r -> q_stamp Q r i <= r).     (* and a stamp is not in the future *)

Lemma ev_stable : ranked2 -> forall r n m k, (rank k < n)%nat -> (rank k < m)%nat ->
  ev Q n r k = ev Q m r k.
Proof.
  intros RK r. induction n as [|n IH]; intros m k Hn Hm; [lia|].
  destruct m as [|m]; [lia|]. cbn [ev]. f_equal. apply map_ext_in. intros d Hd.
  specialize (RK k d Hd). apply IH.
  - clear -RK Hn. lia.
  - clear -RK Hm. lia.
Qed.

Lemma E_unfold : ranked2 -> forall r k,
  E Q rank r k = q_body Q k (map (q_in Q r) (q_ins Q k)) (map (E Q rank r) (q_deps Q k)).
Proof.
  intros RK r k. unfold E at 1. cbn [ev]. f_equal. apply map_ext_in. intros d Hd.
  pose proof (RK k d Hd) as Hlt. unfold E. apply ev_stable; auto; clear -Hlt; lia.
Qed.

End Spec.

Section Rel2.
Variable fuel : nat.
Variable Q : prog2.

Inductive path2 (s : cstate2) (t : thread) : upd2 -> Prop :=
| Q_begin k td :
    stack2 s t = [] -> todo2 s t = k :: td ->
    path2 s t (mkU2 (c2_proto s) (c2_memo s) [k @@ QStart] td false [])
| Q_hit k below m :
    stack2 s t = (k @@ QStart) :: below -> c2_memo s k = Some m -> n_ver m = c2_cur s ->
    path2 s t (mkU2 (c2_proto s) (c2_memo s) (deliver (c2_memo s) (n_val m) (n_chg m) below)
                    (todo2 s t) false [ERet t k (c2_cur s) (n_val m)])
| Q_go_cold k below :
    stack2 s t = (k @@ QStart) :: below ->
    (forall m, c2_memo s k = Some m -> n_ver m <> c2_cur s) ->
    path2 s t (mkU2 (c2_proto s) (c2_memo s) ((k @@ QCold) :: below) (todo2 s t) false [])
| Q_claimed k below pr1 md :
    stack2 s t = (k @@ QCold) :: below ->
    Model.step fuel (c2_proto s) (OClaim t k true) = ROk (pr1, XClaim (CClaimed md)) ->
    path2 s t (mkU2 pr1 (c2_memo s) ((k @@ QClaimed) :: below) (todo2 s t) false [])
| Q_blocked k below pr1 pr2 o :
    stack2 s t = (k @@ QCold) :: below ->
    Model.step fuel (c2_proto s) (OClaim t k true) = ROk (pr1, XClaim (CRunning o)) ->
    Model.step fuel pr1 (OBlockOn t k o) = ROk (pr2, XBlock BBlocked) ->
    path2 s t (mkU2 pr2 (c2_memo s) ((k @@ QWait) :: below) (todo2 s t) false [])
| Q_cycle1 k below pr1 inner :
    stack2 s t = (k @@ QCold) :: below ->
    Model.step fuel (c2_proto s) (OClaim t k true) = ROk (pr1, XClaim (CCycle inner)) ->
    path2 s t (mkU2 pr1 (c2_memo s) ((k @@ QCold) :: below) (todo2 s t) true [])
| Q_cycle2 k below pr1 pr2 o :
    stack2 s t = (k @@ QCold) :: below ->
    Model.step fuel (c2_proto s) (OClaim t k true) = ROk (pr1, XClaim (CRunning o)) ->
    Model.step fuel pr1 (OBlockOn t k o) = ROk (pr2, XBlock BCycle) ->
    path2 s t (mkU2 pr2 (c2_memo s) ((k @@ QCold) :: below) (todo2 s t) true [])
| Q_woken k below pr1 r :
    stack2 s t = (k @@ QWait) :: below ->
    Model.step fuel (c2_proto s) (OReceive t) = ROk (pr1, XReceive (Some r)) ->
    path2 s t (mkU2 pr1 (c2_memo s) ((k @@ QStart) :: below) (todo2 s t) false [])
| Q_recheck_hit k below m :
    stack2 s t = (k @@ QClaimed) :: below -> c2_memo s k = Some m -> n_ver m = c2_cur s ->
    path2 s t (mkU2 (c2_proto s) (c2_memo s) ((k @@ QRelease (n_val m) (n_chg m)) :: below)
                    (todo2 s t) false [])
| Q_to_verify k below m :
    stack2 s t = (k @@ QClaimed) :: below -> c2_memo s k = Some m -> n_ver m <> c2_cur s ->
    path2 s t (mkU2 (c2_proto s) (c2_memo s) ((k @@ QVerify (n_deps m) true) :: below)
                    (todo2 s t) false [])
| Q_exec_start k ph below :
    stack2 s t = (k @@ ph) :: below ->
    (ph = QClaimed /\ (forall m, c2_memo s k = Some m -> n_ver m <> c2_cur s)) \/
    (exists l ok, ph = QVerify l ok) ->
    path2 s t (mkU2 (c2_proto s) (c2_memo s) ((k @@ QExec (q_deps Q k) [] REV_START) :: below)
                    (todo2 s t) false [EExec t k (c2_cur s)])
| Q_call_v k d rest below :
    stack2 s t = (k @@ QVerify (d :: rest) true) :: below ->
    path2 s t (mkU2 (c2_proto s) (c2_memo s)
                    ((d @@ QStart) :: (k @@ QVerify rest true) :: below) (todo2 s t) false [])
| Q_call_x k d rest acc mc below :
    stack2 s t = (k @@ QExec (d :: rest) acc mc) :: below ->
    path2 s t (mkU2 (c2_proto s) (c2_memo s)
                    ((d @@ QStart) :: (k @@ QExec rest acc mc) :: below) (todo2 s t) false [])
| Q_mark k below m :
    stack2 s t = (k @@ QVerify [] true) :: below -> c2_memo s k = Some m ->
    inputs_unchanged Q (c2_cur s) k (n_ver m) = true ->
    path2 s t (mkU2 (c2_proto s)
                    (updN (c2_memo s) k (Some (mkM2 (c2_cur s) (n_val m) (n_chg m) (n_deps m))))
                    ((k @@ QRelease (n_val m) (n_chg m)) :: below) (todo2 s t) false [])
| Q_publish k acc mc below :
    stack2 s t = (k @@ QExec [] acc mc) :: below ->
    let nv := q_body Q k (map (q_in Q (c2_cur s)) (q_ins Q k)) acc in
    let ch0 := N.max mc (stamp_max Q (c2_cur s) k) in
    let ch := match c2_memo s k with
              | Some mo => if q_eq Q k && (n_val mo =? nv) then n_chg mo else ch0
              | None => ch0
              end in
    path2 s t (mkU2 (c2_proto s)
                    (updN (c2_memo s) k (Some (mkM2 (c2_cur s) nv ch (q_deps Q k))))
                    ((k @@ QRelease nv ch) :: below) (todo2 s t) false [])
| Q_release_quiet k v ch below pr1 st :
    stack2 s t = (k @@ QRelease v ch) :: below ->
    Model.step fuel (c2_proto s) (ORemove t k) = ROk (pr1, XRemoved st) ->
    release_script t k st Completed = [] ->
    path2 s t (mkU2 pr1 (c2_memo s) (deliver (c2_memo s) v ch below) (todo2 s t) false
                    [ERet t k (c2_cur s) v])
| Q_release_wake k v ch below pr1 st a b c0 :
    stack2 s t = (k @@ QRelease v ch) :: below ->
    Model.step fuel (c2_proto s) (ORemove t k) = ROk (pr1, XRemoved st) ->
    release_script t k st Completed = [OUnblock a b c0] ->
    path2 s t (mkU2 pr1 (c2_memo s) ((k @@ QUnblock v ch) :: below) (todo2 s t) false [])
| Q_unblock k v ch below pr1 out :
    stack2 s t = (k @@ QUnblock v ch) :: below ->
    Model.step fuel (c2_proto s) (OUnblock t k Completed) = ROk (pr1, out) ->
    path2 s t (mkU2 pr1 (c2_memo s) (deliver (c2_memo s) v ch below) (todo2 s t) false
                    [ERet t k (c2_cur s) v]).

Lemma step_thread2_path s t c u : step_thread2 fuel Q s t c = Some u -> path2 s t u.
Proof.
  unfold step_thread2. destruct (th2_cycle (c2_thr s t)); [discriminate|].
  destruct (th2_stack (c2_thr s t)) as [|[k ph] below] eqn:Est.
  { destruct (th2_todo (c2_thr s t)) as [|k td] eqn:Etd; [discriminate|].
    intros [= <-]. now constructor. }
  cbn [g_key g_phase]. unfold step_frame2. change (th2_todo (c2_thr s t)) with (todo2 s t).
  destruct ph as [| | | |l ok|l acc mc|v ch|v ch].
  - destruct (c2_memo s k) as [m|] eqn:Em.
    + destruct (N.eqb_spec (n_ver m) (c2_cur s)) as [Ev|Ev]; intros [= <-].
      * eapply Q_hit; eauto.
      * eapply Q_go_cold; eauto. intros m' Hm'. congruence.
    + intros [= <-]. eapply Q_go_cold; eauto. intros m' Hm'. congruence.
  - destruct (Model.step fuel (c2_proto s) (OClaim t k true)) as [[pr1 out]|] eqn:Ecl; [|discriminate].
    destruct out as [r| | | | | | |]; try discriminate. destruct r as [md|o|inner].
    + intros [= <-]. eapply Q_claimed; eauto.
    + destruct (Model.step fuel pr1 (OBlockOn t k o)) as [[pr2 out2]|] eqn:Ebl; [|discriminate].
      destruct out2 as [|b| | | | | |]; try discriminate. destruct b; intros [= <-].
      * eapply Q_blocked; eauto.
      * eapply Q_cycle2; eauto.
    + intros [= <-]. eapply Q_cycle1; eauto.
  - destruct (Model.step fuel (c2_proto s) (OReceive t)) as [[pr1 out]|] eqn:Erc; [|discriminate].
    destruct out as [| |[r|]| | | | |]; try discriminate. intros [= <-]. eapply Q_woken; eauto.
  - destruct (c2_memo s k) as [m|] eqn:Em.
    + destruct (N.eqb_spec (n_ver m) (c2_cur s)) as [Ev|Ev].
      * intros [= <-]. eapply Q_recheck_hit; eauto.
      * destruct c; intros [= <-].
        -- eapply Q_to_verify; eauto.
        -- eapply Q_exec_start; eauto. left. split; auto. intros m' Hm'. congruence.
    + intros [= <-]. eapply Q_exec_start; eauto. left. split; auto. intros m' Hm'. congruence.
  - destruct l as [|d rest].
    + destruct (c2_memo s k) as [m|] eqn:Em.
      * destruct ok; cbn [andb].
        -- destruct (inputs_unchanged Q (c2_cur s) k (n_ver m)) eqn:Ei; intros [= <-].
           ++ eapply Q_mark; eauto.
           ++ eapply Q_exec_start; eauto.
        -- intros [= <-]. eapply Q_exec_start; eauto.
      * intros [= <-]. eapply Q_exec_start; eauto.
    + destruct ok, c; cbn [andb]; intros [= <-].
      * eapply Q_call_v; eauto.
      * eapply Q_exec_start; eauto.
      * eapply Q_exec_start; eauto.
      * eapply Q_exec_start; eauto.
  - destruct l as [|d rest]; intros [= <-].
    + eapply Q_publish; eauto.
    + eapply Q_call_x; eauto.
  - destruct (Model.step fuel (c2_proto s) (ORemove t k)) as [[pr1 out]|] eqn:Erm; [|discriminate].
    destruct out as [| | |st| | | |]; try discriminate.
    destruct (release_script t k st Completed) as [|o1 [|o2 l2]] eqn:Ers; try discriminate.
    + intros [= <-]. eapply Q_release_quiet; eauto.
    + destruct o1; try discriminate. intros [= <-]. eapply Q_release_wake; eauto.
    + destruct o1; discriminate.
  - destruct (Model.step fuel (c2_proto s) (OUnblock t k Completed)) as [[pr1 out]|] eqn:Eub;
      [|discriminate].
    intros [= <-]. eapply Q_unblock; eauto.
Qed.

End Rel2.

Ltac dpath2 Hp :=
  destruct Hp as
    [ k td Hst Htd
    | k below m Hst Hm Hv
    | k below Hst Hnv
    | k below pr1 md Hst Hcl
    | k below pr1 pr2 o Hst Hcl Hbl
    | k below pr1 inner Hst Hcl
    | k below pr1 pr2 o Hst Hcl Hbl
    | k below pr1 r Hst Hrc
    | k below m Hst Hm Hv
    | k below m Hst Hm Hv
    | k ph below Hst Hph
    | k d rest below Hst
    | k d rest acc mc below Hst
    | k below m Hst Hm Hin
    | k acc mc below Hst
    | k v ch below pr1 st Hst Hrm Hrs
    | k v ch below pr1 st a b c0 Hst Hrm Hrs
    | k v ch below pr1 out Hst Hub ].

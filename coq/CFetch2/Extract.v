(* CFetch2/Extract.v — extraction of the executable CFetch2 model (with the Proto model it runs
   on) to OCaml.  ExtrOcamlBasic only; [N], [positive], [nat] stay the Coq inductive types.
   Not part of _CoqProject: /verif/ocaml/cfetch/build.sh compiles it in .build/ocaml-cfetch,
   where cfetch2_model.ml(i) is written and linked with /verif/ocaml/cfetch/replay2.ml. *)
From Coq Require Import Extraction ExtrOcamlBasic.
From Salsa Require Import Base.
From Salsa.Proto Require Model.
From Salsa.CFetch Require Model.
From Salsa.CFetch2 Require Import Model.

Extraction Language OCaml.
Extraction "cfetch2_model.ml"
  cinit2 tstep2 gstep2 step_thread2 ev
  c2_cur c2_memo c2_proto c2_thr c2_tids c2_log
  th2_stack th2_todo th2_cycle g_key g_phase
  n_ver n_val n_chg n_deps
  Salsa.Proto.Model.sync Salsa.Proto.Model.dg Salsa.Proto.Model.edges Salsa.Proto.Model.wres
  Salsa.Proto.Model.notified Salsa.Proto.Model.ss_id Salsa.Proto.Model.ss_waiting.

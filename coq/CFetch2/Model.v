(* CFetch2/Model.v — the concurrent fetch loop with COMPUTED memo writes.

   DEFINITIONS ONLY.  Same protocol skeleton as CFetch/Model.v (same phases, same Proto steps,
   same event log), but nothing about values is built in any more:

   * a function body is [q_body k ins vals]: a function of the values of the inputs it reads
     ([q_ins k], frozen within a revision: [q_in cur i]) and of the values its callees
     RETURNED, collected in the executing frame ([QExec rest acc mc]); insert_memo stores exactly
     that ([R2_publish]); its changed_at is the maximum of the stamps of the inputs read and of
     the changed_at the callees returned (ActiveQuery), backdated to the old memo's changed_at
     when the function compares values ([q_eq]) and the value is equal
     (execute.rs backdate_if_appropriate);
   * a request returns the pair (value, changed_at) it read from a memo verified in the
     current revision; the caller's frame consumes it ([deliver]): an executing caller appends
     the value, a verifying caller compares changed_at with the verified_at of its own memo
     (deep_verify_edges: `dep.maybe_changed_after(verified_at)`);
   * mark_as_verified ([R2_mark]) happens only after every recorded edge was walked with
     "unchanged" AND every input the function reads carries a stamp not after the memo's
     verified_at — computed from the stamps, not assumed.
   No durability short-cut (the LOW-durability fragment, as C01): there is no hot mark.

   Inputs: [q_in r i] is the value of input [i] in revision [r], [q_stamp r i] its changed_at
   stamp in revision [r] (the program fixes the whole write history; [GBump2] moves to the next
   revision).  Call lists are static per key ([q_deps k]); dynamic call lists are not modelled.

   Ghost-free: the model computes; that what it computes is the from-scratch value is
   CFetch2/ProofsVal.v. *)
From Salsa Require Import Base.
From Salsa.Proto Require Import Model.
From Salsa.CFetch Require Import Model.

Definition ikey := N.

Record prog2 := mkQ {
  q_ins : key -> list ikey;
  q_deps : key -> list key;
  q_body : key -> list val -> list val -> val;
  q_eq : key -> bool;                  (* false for `no_eq` functions: never backdated *)
  q_in : rev -> ikey -> val;
  q_stamp : rev -> ikey -> rev
}.

(* verified_at, value, changed_at, recorded edges *)
Record memo2 := mkM2 { n_ver : rev; n_val : val; n_chg : rev; n_deps : list key }.

Inductive phase2 :=
| QStart
| QCold
| QWait
| QClaimed
| QVerify (rest : list key) (ok : bool)     (* ok: no walked edge was "changed" so far *)
| QExec (rest : list key) (acc : list val) (mc : rev)
    (* acc: the values the callees returned so far; mc: the largest changed_at they carried *)
| QRelease (v : val) (c : rev)
| QUnblock (v : val) (c : rev).

Record frame2 := mkF2 { g_key : key; g_phase : phase2 }.

Record tstate2 := mkT2 { th2_stack : list frame2; th2_todo : list key; th2_cycle : bool }.

Record cstate2 := mkC2 {
  c2_cur : rev;
  c2_memo : key -> option memo2;
  c2_proto : Model.state;
  c2_thr : thread -> tstate2;
  c2_tids : list thread;
  c2_log : list event
}.

Definition t2_idle : tstate2 := mkT2 [] [] false.

Definition cinit2 : cstate2 :=
  mkC2 REV_START (fun _ => None) Model.init (fun _ => t2_idle) [] [].

(* the from-scratch value, by recursion on a fuel that exceeds the rank *)
Fixpoint ev (Q : prog2) (n : nat) (r : rev) (k : key) : val :=
  match n with
  | O => 0
  | S n' => q_body Q k (map (q_in Q r) (q_ins Q k)) (map (ev Q n' r) (q_deps Q k))
  end.

Definition E (Q : prog2) (rank : key -> nat) (r : rev) (k : key) : val := ev Q (S (rank k)) r k.

(* a returned (value, changed_at) reaches the caller's frame *)
Definition deliver (mm : key -> option memo2) (v : val) (c : rev) (below : list frame2)
  : list frame2 :=
  match below with
  | [] => []
  | f :: b =>
    match g_phase f with
    | QVerify l ok =>
      let unchanged := match mm (g_key f) with Some m => c <=? n_ver m | None => false end in
      mkF2 (g_key f) (QVerify l (ok && unchanged)) :: b
    | QExec l acc mc => mkF2 (g_key f) (QExec l (acc ++ [v]) (N.max mc c)) :: b
    | _ => f :: b
    end
  end.

Record upd2 := mkU2 {
  u2_proto : Model.state;
  u2_memo : key -> option memo2;
  u2_stack : list frame2;
  u2_todo : list key;
  u2_cycle : bool;
  u2_ev : list event
}.

Definition apply_upd2 (s : cstate2) (t : thread) (u : upd2) : cstate2 :=
  mkC2 (c2_cur s) (u2_memo u) (u2_proto u)
       (updN (c2_thr s) t (mkT2 (u2_stack u) (u2_todo u) (u2_cycle u)))
       (c2_tids s) (u2_ev u ++ c2_log s).

Section Step2.
Variable fuel : nat.
Variable Q : prog2.

Definition inputs_unchanged (cur : rev) (k : key) (since : rev) : bool :=
  forallb (fun i => q_stamp Q cur i <=? since) (q_ins Q k).

(* the largest stamp among the inputs the function reads (ActiveQuery accumulates changed_at
   as the maximum over everything read, starting from Revision::start) *)
Definition stamp_max (cur : rev) (k : key) : rev :=
  fold_right N.max REV_START (map (q_stamp Q cur) (q_ins Q k)).

Definition step_frame2 (s : cstate2) (t : thread) (ts : tstate2) (k : key) (ph : phase2)
  (below : list frame2) (c : bool) : option upd2 :=
  let pr := c2_proto s in
  let cur := c2_cur s in
  let mm := c2_memo s in
  let keep stack := mkU2 pr mm stack (th2_todo ts) false [] in
  let top ph' := mkF2 k ph' :: below in
  let ret mm' v ch := mkU2 pr mm' (deliver mm' v ch below) (th2_todo ts) false [ERet t k cur v] in
  let exec := mkU2 pr mm (top (QExec (q_deps Q k) [] REV_START)) (th2_todo ts) false [EExec t k cur] in
  match ph with
  | QStart =>
    match mm k with
    | Some m => if n_ver m =? cur then Some (ret mm (n_val m) (n_chg m))      (* hot hit *)
                else Some (keep (top QCold))
    | None => Some (keep (top QCold))
    end
  | QCold =>
    match Model.step fuel pr (OClaim t k true) with
    | ROk (pr1, XClaim (CClaimed _)) => Some (mkU2 pr1 mm (top QClaimed) (th2_todo ts) false [])
    | ROk (pr1, XClaim (CRunning other)) =>
      match Model.step fuel pr1 (OBlockOn t k other) with
      | ROk (pr2, XBlock BBlocked) => Some (mkU2 pr2 mm (top QWait) (th2_todo ts) false [])
      | ROk (pr2, XBlock BCycle) => Some (mkU2 pr2 mm (top QCold) (th2_todo ts) true [])
      | _ => None
      end
    | ROk (pr1, XClaim (CCycle _)) => Some (mkU2 pr1 mm (top QCold) (th2_todo ts) true [])
    | _ => None
    end
  | QWait =>
    match Model.step fuel pr (OReceive t) with
    | ROk (pr1, XReceive (Some _)) => Some (mkU2 pr1 mm (top QStart) (th2_todo ts) false [])
    | _ => None
    end
  | QClaimed =>
    match mm k with
    | Some m =>
      if n_ver m =? cur then Some (keep (top (QRelease (n_val m) (n_chg m))))
      else if c then Some (keep (top (QVerify (n_deps m) true)))
      else Some exec
    | None => Some exec
    end
  | QVerify (d :: rest) ok =>
    if ok && c then Some (keep (mkF2 d QStart :: top (QVerify rest ok)))
    else Some exec     (* an edge (or, [c = false], an input read before [d]) was "changed":
                          stop walking, execute *)
  | QVerify [] ok =>
    match mm k with
    | Some m =>
      if ok && inputs_unchanged cur k (n_ver m) then                         (* mark_as_verified *)
        Some (mkU2 pr (updN mm k (Some (mkM2 cur (n_val m) (n_chg m) (n_deps m))))
                   (top (QRelease (n_val m) (n_chg m))) (th2_todo ts) false [])
      else Some exec
    | None => Some exec
    end
  | QExec (d :: rest) acc mc => Some (keep (mkF2 d QStart :: top (QExec rest acc mc)))
  | QExec [] acc mc =>                                                       (* insert_memo *)
    let nv := q_body Q k (map (q_in Q cur) (q_ins Q k)) acc in
    let ch0 := N.max mc (stamp_max cur k) in      (* changed_at = max over everything read *)
    let ch := match mm k with
              | Some mo => if q_eq Q k && (n_val mo =? nv) then n_chg mo else ch0   (* backdate *)
              | None => ch0
              end in
    Some (mkU2 pr (updN mm k (Some (mkM2 cur nv ch (q_deps Q k))))
               (top (QRelease nv ch)) (th2_todo ts) false [])
  | QRelease v ch =>
    match Model.step fuel pr (ORemove t k) with
    | ROk (pr1, XRemoved st) =>
      match release_script t k st Completed with
      | [] => Some (mkU2 pr1 mm (deliver mm v ch below) (th2_todo ts) false [ERet t k cur v])
      | [OUnblock _ _ _] => Some (mkU2 pr1 mm (top (QUnblock v ch)) (th2_todo ts) false [])
      | _ => None
      end
    | _ => None
    end
  | QUnblock v ch =>
    match Model.step fuel pr (OUnblock t k Completed) with
    | ROk (pr1, _) =>
      Some (mkU2 pr1 mm (deliver mm v ch below) (th2_todo ts) false [ERet t k cur v])
    | _ => None
    end
  end.

Definition step_thread2 (s : cstate2) (t : thread) (c : bool) : option upd2 :=
  let ts := c2_thr s t in
  if th2_cycle ts then None else
  match th2_stack ts with
  | [] =>
    match th2_todo ts with
    | [] => None
    | k :: td => Some (mkU2 (c2_proto s) (c2_memo s) [mkF2 k QStart] td false [])
    end
  | f :: below => step_frame2 s t ts (g_key f) (g_phase f) below c
  end.

Definition tstep2 (s : cstate2) (t : thread) (c : bool) : option cstate2 :=
  if mem t (c2_tids s) then option_map (apply_upd2 s t) (step_thread2 s t c) else None.

Definition idleb2 (ts : tstate2) : bool :=
  match th2_stack ts, th2_todo ts with [], [] => negb (th2_cycle ts) | _, _ => false end.

Definition gstep2 (s : cstate2) (o : gop) : option cstate2 :=
  match o with
  | GStep t c => tstep2 s t c
  | GBump =>
    if forallb (fun t => idleb2 (c2_thr s t)) (c2_tids s)
    then Some (mkC2 (c2_cur s + 1) (c2_memo s) (c2_proto s) (c2_thr s) (c2_tids s) (c2_log s))
    else None
  | GSpawn t ks =>
    if idleb2 (c2_thr s t)
    then Some (mkC2 (c2_cur s) (c2_memo s) (c2_proto s) (updN (c2_thr s) t (mkT2 [] ks false))
                    (if mem t (c2_tids s) then c2_tids s else t :: c2_tids s) (c2_log s))
    else None
  end.

Fixpoint grun2 (l : list gop) (s : cstate2) : option cstate2 :=
  match l with
  | [] => Some s
  | o :: l' => match gstep2 s o with Some s' => grun2 l' s' | None => None end
  end.

End Step2.

Definition doneb2 (ts : tstate2) : bool :=
  match th2_stack ts, th2_todo ts with [], [] => true | _, _ => false end.

(* ---- the abstraction to CFetch: forget changed_at, the flags and the collected values ---- *)
Definition absm (m : memo2) : memo := mkMemo (n_ver m) (n_val m) (n_deps m).

Definition absp (ph : phase2) : phase :=
  match ph with
  | QStart => PStart | QCold => PCold | QWait => PWait | QClaimed => PClaimed
  | QVerify l _ => PVerify l
  | QExec l _ _ => PExec l
  | QRelease v _ => PRelease v
  | QUnblock v _ => PUnblock v
  end.

Definition absf (f : frame2) : frame := mkFrame (g_key f) (absp (g_phase f)).

Definition abst (ts : tstate2) : tstate :=
  mkT (map absf (th2_stack ts)) (th2_todo ts) (th2_cycle ts).

Definition abs (s : cstate2) : cstate :=
  mkC (c2_cur s) (fun k => option_map absm (c2_memo s k)) (c2_proto s)
      (fun t => abst (c2_thr s t)) (c2_tids s) (c2_log s).

(* the CFetch program a CFetch2 program refines: same call lists, p_val := from-scratch value *)
Definition absP (Q : prog2) (rank : key -> nat) : prog :=
  mkProg (fun _ k => q_deps Q k) (fun r k => E Q rank r k).

(* CFetch2/ProofsTop.v — the theorems about the computed model, obtained through the
   refinement: values, at-most-once, deadlock freedom, termination with an explicit bound. *)
From Coq Require Import Wf_nat.
From Salsa Require Import Base.
From Salsa.Proto Require Import Model.
From Salsa.CFetch Require Import Model ProofsProto ProofsRel ProofsSafe ProofsLive ProofsTerm.
From Salsa.CFetch2 Require Import Model ProofsEq ProofsRel ProofsVal ProofsSim.

Section Top2.
Variable fuel : nat.
Variable Q : prog2.
Variable rank : key -> nat.

Notation P' := (absP Q rank).
Notation Ev := (E Q rank).

Lemma ranked_abs : ranked2 Q rank -> ranked P' rank.
Proof. intros RK r k d Hd. exact (RK k d Hd). Qed.

(* THE BOUND of the computed model: the measure of the abstracted state *)
Definition Phi2 (s2 : cstate2) : nat := Phi P' rank (abs s2).

(* every memo of every reachable state carries the from-scratch value of the revision it was
   last verified in — whatever the interleaving; nothing about values is assumed *)
Theorem memo_sound s2 k m :
  ranked2 Q rank -> stamps_ok Q -> creach2 fuel Q s2 -> c2_memo s2 k = Some m ->
  Ev (n_ver m) k = n_val m /\ n_ver m <= c2_cur s2 /\ n_chg m <= n_ver m.
Proof.
  intros RK SK HR Hm. destruct (creach2_sim fuel Q rank s2 RK SK HR) as (seen & s & _ & _ & I).
  destruct (IV_memo _ _ _ _ I _ _ Hm) as (A & B & C & _ & F). repeat split; auto.
Qed.

(* the refinement, without the invariant *)
Theorem refines_abstract s2 :
  ranked2 Q rank -> stamps_ok Q -> creach2 fuel Q s2 ->
  exists s, creach fuel P' s /\ ceq s (abs s2).
Proof.
  intros RK SK HR. destruct (creach2_sim fuel Q rank s2 RK SK HR) as (seen & s & HC & He & _).
  eauto.
Qed.

(* C16_values over the computed model *)
Theorem values_computed s2 :
  ranked2 Q rank -> stamps_ok Q -> creach2 fuel Q s2 ->
  forall t k r v, In (ERet t k r v) (c2_log s2) -> v = Ev r k.
Proof.
  intros RK SK HR t k r v Hin.
  destruct (creach2_sim fuel Q rank s2 RK SK HR) as (seen & s & HC & He & I).
  destruct He as (_ & _ & _ & _ & _ & Hl). cbn [abs c_log] in Hl. rewrite <- Hl in Hin.
  exact (returned_values fuel P' s HC t k r v Hin).
Qed.

Theorem once_computed s2 :
  ranked2 Q rank -> stamps_ok Q -> creach2 fuel Q s2 ->
  forall k r, (count_exec k r (c2_log s2) <= 1)%nat.
Proof.
  intros RK SK HR k r.
  destruct (creach2_sim fuel Q rank s2 RK SK HR) as (seen & s & HC & He & I).
  destruct He as (_ & _ & _ & _ & _ & Hl). cbn [abs c_log] in Hl. rewrite <- Hl.
  exact (once_per_revision fuel P' s HC k r).
Qed.

(* ---- enabledness goes back along the abstraction ---- *)
Lemma enabled_back s2 t c u :
  step_thread fuel P' (abs s2) t c = Some u -> exists c2 u2, step_thread2 fuel Q s2 t c2 = Some u2.
Proof.
  unfold step_thread, step_thread2. cbn [abs c_thr abst th_cycle th_stack th_todo].
  destruct (th2_cycle (c2_thr s2 t)); [discriminate|].
  destruct (th2_stack (c2_thr s2 t)) as [|[k ph] below].
  { cbn [map]. destruct (th2_todo (c2_thr s2 t)); [discriminate | eauto]. }
  cbn [map absf g_key g_phase f_key f_phase]. unfold step_frame, step_frame2.
  cbn [abs c_proto c_memo c_cur c_thr abst th_todo].
  intros H. exists c.
  destruct ph as [| | | |l ok|l acc mc|v ch|v ch]; cbn [absp] in H.
  - destruct (c2_memo s2 k) as [m|]; [destruct (n_ver m =? c2_cur s2)|]; eauto.
  - destruct (Model.step fuel (c2_proto s2) (OClaim t k true)) as [[pr1 out]|]; [|discriminate].
    destruct out as [r| | | | | | |]; try discriminate. destruct r as [md|o|inner]; eauto.
    destruct (Model.step fuel pr1 (OBlockOn t k o)) as [[pr2 out2]|]; [|discriminate].
    destruct out2 as [|b| | | | | |]; try discriminate. destruct b; eauto.
  - destruct (Model.step fuel (c2_proto s2) (OReceive t)) as [[pr1 out]|]; [|discriminate].
    destruct out as [| |[r|]| | | | |]; try discriminate. eauto.
  - destruct (c2_memo s2 k) as [m|]; [destruct (n_ver m =? c2_cur s2); [|destruct c]|]; eauto.
  - destruct l as [|d rest].
    + destruct (c2_memo s2 k) as [m|]; [|eauto].
      destruct (ok && inputs_unchanged Q (c2_cur s2) k (n_ver m)); eauto.
    + destruct (ok && c); eauto.
  - destruct l; eauto.
  - destruct (Model.step fuel (c2_proto s2) (ORemove t k)) as [[pr1 out]|]; [|discriminate].
    destruct out as [| | |st| | | |]; try discriminate.
    destruct (release_script t k st Completed) as [|o1 [|o2 l2]]; eauto.
    + destruct o1; try discriminate; eauto.
    + destruct o1; discriminate.
  - destruct (Model.step fuel (c2_proto s2) (OUnblock t k Completed)) as [[pr1 out]|]; [|discriminate].
    eauto.
Qed.

Theorem no_deadlock_computed s2 :
  ranked2 Q rank -> stamps_ok Q -> creach2 fuel Q s2 -> (length (c2_tids s2) < fuel)%nat ->
  (exists t, In t (c2_tids s2) /\ doneb2 (c2_thr s2 t) = false) ->
  exists t c s2', In t (c2_tids s2) /\ tstep2 fuel Q s2 t c = Some s2'.
Proof.
  intros RK SK HR Hf (t0 & Ht0 & Hd0).
  destruct (creach2_sim fuel Q rank s2 RK SK HR) as (seen & s & HC & He & I).
  pose proof He as (_ & _ & _ & Hthr & Htids & _). cbn [abs c_tids c_thr] in Htids, Hthr.
  destruct (some_thread_can_step fuel P' rank s (ranked_abs RK) HC) as (t & c & s' & Ht & Hs).
  - now rewrite Htids.
  - exists t0. rewrite Htids, Hthr, doneb_abst. auto.
  - destruct (tstep_ceq fuel P' _ _ _ _ _ He Hs) as (a' & Ha & _).
    unfold tstep in Ha. cbn [abs c_tids] in Ha.
    destruct (mem t (c2_tids s2)) eqn:Em; [|discriminate].
    destruct (step_thread fuel P' (abs s2) t c) as [u|] eqn:Eu; [|discriminate].
    destruct (enabled_back _ _ _ _ Eu) as (c2 & u2 & Hu2).
    exists t, c2, (apply_upd2 s2 t u2). split; [now apply ProofsList.mem_In|].
    unfold tstep2. now rewrite Em, Hu2.
Qed.

(* ---- termination ---- *)
Theorem step_decreases_computed s2 t c s2' :
  ranked2 Q rank -> stamps_ok Q -> creach2 fuel Q s2 -> tstep2 fuel Q s2 t c = Some s2' ->
  (Phi2 s2' < Phi2 s2)%nat.
Proof.
  intros RK SK HR Hs.
  destruct (creach2_sim fuel Q rank s2 RK SK HR) as (seen & s & HC & He & I).
  destruct (sim_tstep fuel Q rank seen s s2 t c s2' RK SK He I Hs) as (c' & s' & Hs' & He').
  pose proof (step_decreases fuel P' rank s t c' s' (ranked_abs RK) HC Hs') as Hlt.
  unfold Phi2. rewrite <- (Phi_ceq P' rank _ _ He), <- (Phi_ceq P' rank _ _ He'). exact Hlt.
Qed.

Theorem run_bounded_computed : forall l s2 s2',
  ranked2 Q rank -> stamps_ok Q -> creach2 fuel Q s2 -> Forall is_gstep l ->
  grun2 fuel Q l s2 = Some s2' -> (length l + Phi2 s2' <= Phi2 s2)%nat.
Proof.
  induction l as [|o l IH]; intros s2 s2' RK SK HR HG; cbn [grun2 length].
  - intros [= <-]. lia.
  - destruct (gstep2 fuel Q s2 o) as [s1|] eqn:E0; [|discriminate]. intros Hrun.
    inversion HG as [|? ? Ho HG']; subst. destruct o as [t c| |t ks]; try destruct Ho.
    cbn [gstep2] in E0. pose proof (step_decreases_computed _ _ _ _ RK SK HR E0).
    assert (HR1 : creach2 fuel Q s1) by (eapply cr2_step with (o := GStep t c); eauto).
    pose proof (IH _ _ RK SK HR1 HG' Hrun). lia.
Qed.

Lemma grun2_creach : forall l s2 s2',
  creach2 fuel Q s2 -> grun2 fuel Q l s2 = Some s2' -> creach2 fuel Q s2'.
Proof.
  induction l as [|o l IH]; intros s2 s2' HR; cbn [grun2]; [now intros [= <-]|].
  destruct (gstep2 fuel Q s2 o) as [s1|] eqn:E0; [|discriminate]. apply IH. econstructor; eauto.
Qed.

Theorem completes_computed :
  forall s2, ranked2 Q rank -> stamps_ok Q -> creach2 fuel Q s2 -> (length (c2_tids s2) < fuel)%nat ->
  exists l s2', Forall is_gstep l /\ grun2 fuel Q l s2 = Some s2' /\ (length l <= Phi2 s2)%nat /\
                forall t, In t (c2_tids s2') -> doneb2 (c2_thr s2' t) = true.
Proof.
  intros s2 RK SK. remember (Phi2 s2) as n eqn:En. revert s2 En.
  induction n as [n IH] using lt_wf_ind. intros s2 En HR Hf.
  destruct (forallb (fun t => doneb2 (c2_thr s2 t)) (c2_tids s2)) eqn:Ed.
  - exists [], s2. split; [constructor|]. split; [reflexivity|]. split; [cbn; lia|].
    intros t Ht. rewrite forallb_forall in Ed. now apply Ed.
  - assert (Hex : exists t, In t (c2_tids s2) /\ doneb2 (c2_thr s2 t) = false).
    { clear -Ed. induction (c2_tids s2) as [|a l IHl]; [discriminate|]. cbn in Ed.
      destruct (doneb2 (c2_thr s2 a)) eqn:Ea.
      - destruct (IHl Ed) as (t & Ht & Hd). exists t. split; [now right | auto].
      - exists a. split; [now left | auto]. }
    destruct (no_deadlock_computed s2 RK SK HR Hf Hex) as (t & c & s1 & Ht & Hs).
    pose proof (step_decreases_computed _ _ _ _ RK SK HR Hs) as Hlt.
    assert (HR1 : creach2 fuel Q s1) by (eapply cr2_step with (o := GStep t c); eauto).
    assert (Htids : c2_tids s1 = c2_tids s2).
    { destruct (tstep2_inv _ _ _ _ _ _ Hs) as (_ & _ & u2 & _ & ->). reflexivity. }
    destruct (IH (Phi2 s1) ltac:(lia) s1 eq_refl HR1 ltac:(rewrite Htids; exact Hf))
      as (l & s' & HG & Hrun & Hlen & Hdone).
    exists (GStep t c :: l), s'. split; [constructor; [exact Logic.I | exact HG]|].
    split; [cbn [grun2 gstep2]; rewrite Hs; exact Hrun|]. split; [cbn [length]; lia | exact Hdone].
Qed.

Theorem stuck_is_done_computed :
  forall s2, ranked2 Q rank -> stamps_ok Q -> creach2 fuel Q s2 -> (length (c2_tids s2) < fuel)%nat ->
  (forall t c, In t (c2_tids s2) -> tstep2 fuel Q s2 t c = None) ->
  forall t, In t (c2_tids s2) -> doneb2 (c2_thr s2 t) = true.
Proof.
  intros s2 RK SK HR Hf Hstuck t Ht. destruct (doneb2 (c2_thr s2 t)) eqn:Ed; auto. exfalso.
  destruct (no_deadlock_computed s2 RK SK HR Hf) as (t' & c & s' & Ht' & Hs); eauto.
  rewrite (Hstuck t' c Ht') in Hs. discriminate.
Qed.

(* C16, composed: concurrent readers observe sequential results, without deadlock, and
   terminate — over the model that computes what it stores *)
Theorem sequential_results_no_deadlock_terminates :
  forall s2, ranked2 Q rank -> stamps_ok Q -> creach2 fuel Q s2 -> (length (c2_tids s2) < fuel)%nat ->
  (* every value any request returned is the from-scratch value of its revision *)
  (forall t k r v, In (ERet t k r v) (c2_log s2) -> v = Ev r k) /\
  (* every schedule of thread steps from here has at most Phi2 s2 steps *)
  (forall l s2', Forall is_gstep l -> grun2 fuel Q l s2 = Some s2' ->
     (length l + Phi2 s2' <= Phi2 s2)%nat) /\
  (* a schedule that cannot be extended has answered every request: no deadlock *)
  (forall l s2', Forall is_gstep l -> grun2 fuel Q l s2 = Some s2' ->
     (forall t c, In t (c2_tids s2') -> tstep2 fuel Q s2' t c = None) ->
     (forall t, In t (c2_tids s2') -> doneb2 (c2_thr s2' t) = true) /\
     (forall t k r v, In (ERet t k r v) (c2_log s2') -> v = Ev r k)) /\
  (* and such a schedule exists *)
  (exists l s2', Forall is_gstep l /\ grun2 fuel Q l s2 = Some s2' /\ (length l <= Phi2 s2)%nat /\
     forall t, In t (c2_tids s2') -> doneb2 (c2_thr s2' t) = true).
Proof.
  intros s2 RK SK HR Hf. split; [now apply values_computed|]. split.
  { intros l s2' HG Hrun. now apply run_bounded_computed. }
  split; [|now apply completes_computed].
  intros l s2' HG Hrun Hstuck. pose proof (grun2_creach _ _ _ HR Hrun) as HR'.
  assert (Htids : c2_tids s2' = c2_tids s2).
  { clear -HG Hrun. revert s2 Hrun. induction l as [|o l IH]; intros s2; cbn [grun2]; [now intros [= <-]|].
    destruct (gstep2 fuel Q s2 o) as [s1|] eqn:E0; [|discriminate]. intros Hrun.
    inversion HG as [|? ? Ho HG']; subst. destruct o as [t c| |t ks]; try destruct Ho.
    rewrite (IH HG' _ Hrun). cbn [gstep2] in E0.
    destruct (tstep2_inv _ _ _ _ _ _ E0) as (_ & _ & u2 & _ & ->). reflexivity. }
  split; [apply stuck_is_done_computed; auto; now rewrite Htids | now apply values_computed].
Qed.

End Top2.

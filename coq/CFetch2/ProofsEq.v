(* CFetch2/ProofsEq.v — CFetch states up to pointwise equality of their function components
   (no functional extensionality anywhere): steps, reachability and the measure respect it. *)
From Salsa Require Import Base.
From Salsa.Proto Require Import Model.
From Salsa.CFetch Require Import Model ProofsProto ProofsRel ProofsSafe ProofsLive ProofsTerm.

Definition ceq (s s' : cstate) : Prop :=
  c_cur s = c_cur s' /\ (forall k, c_memo s k = c_memo s' k) /\ c_proto s = c_proto s' /\
  (forall t, c_thr s t = c_thr s' t) /\ c_tids s = c_tids s' /\ c_log s = c_log s'.

Lemma ceq_refl s : ceq s s.
Proof. repeat split; auto. Qed.

Lemma ceq_sym s s' : ceq s s' -> ceq s' s.
Proof. intros (A & B & C & D & E & F). repeat split; auto. Qed.

Lemma ceq_trans s1 s2 s3 : ceq s1 s2 -> ceq s2 s3 -> ceq s1 s3.
Proof.
  intros (A & B & C & D & E & F) (A' & B' & C' & D' & E' & F').
  split; [congruence|]. split; [intros k; now rewrite B|]. split; [congruence|].
  split; [intros t; now rewrite D|]. split; congruence.
Qed.

Definition ueq (u u' : upd) : Prop :=
  u_proto u = u_proto u' /\ (forall k, u_memo u k = u_memo u' k) /\ u_stack u = u_stack u' /\
  u_todo u = u_todo u' /\ u_cycle u = u_cycle u' /\ u_ev u = u_ev u'.

Lemma apply_upd_ceq s s' t u u' : ceq s s' -> ueq u u' -> ceq (apply_upd s t u) (apply_upd s' t u').
Proof.
  intros (A & B & C & D & E & F) (A' & B' & C' & D' & E' & F').
  unfold apply_upd. repeat split; cbn; auto; try congruence.
  intros t'. unfold updN. destruct (t =? t'); [congruence | apply D].
Qed.

Lemma forallb_pw {A} (f g : A -> bool) l : (forall x, f x = g x) -> forallb f l = forallb g l.
Proof. intros H. induction l as [|a l IH]; cbn; auto. now rewrite H, IH. Qed.

Section Eq.
Variable fuel : nat.
Variable P : prog.

Lemma step_thread_ceq s s' t c :
  ceq s s' ->
  match step_thread fuel P s t c, step_thread fuel P s' t c with
  | Some u, Some u' => ueq u u'
  | None, None => True
  | _, _ => False
  end.
Proof.
  intros (Hc & Hm & Hp & Ht & _ & _).
  unfold step_thread. rewrite <- (Ht t). rewrite <- Hp.
  destruct (th_cycle (c_thr s t)); auto.
  destruct (th_stack (c_thr s t)) as [|[k ph] below].
  { destruct (th_todo (c_thr s t)); auto. repeat split; auto. }
  cbn [f_key f_phase]. unfold step_frame, valid_now, mark, publish.
  rewrite <- (Hm k), <- Hc, <- Hp.
  assert (U : forall k0 v, forall k', updN (c_memo s) k0 v k' = updN (c_memo s') k0 v k').
  { intros k0 v k'. unfold updN. destruct (k0 =? k'); auto. }
  assert (Hmm : forall k', c_memo s k' = c_memo s' k') by exact Hm.
  destruct ph as [| | | |l|l|v|v].
  all: repeat match goal with
       | |- context [match ?x with _ => _ end] =>
         lazymatch x with
         | context [match _ with _ => _ end] => fail
         | _ => destruct x
         end
       end; auto.
  all: repeat split; cbn [u_proto u_memo u_stack u_todo u_cycle u_ev]; auto; intros; apply U.
Qed.

Lemma tstep_ceq s s' t c s1 :
  ceq s s' -> tstep fuel P s t c = Some s1 ->
  exists s1', tstep fuel P s' t c = Some s1' /\ ceq s1 s1'.
Proof.
  intros He. pose proof (step_thread_ceq s s' t c He) as H.
  destruct He as (Hc & Hm & Hp & Ht & Hd & Hl). unfold tstep. rewrite <- Hd.
  destruct (mem t (c_tids s)); [|discriminate].
  destruct (step_thread fuel P s t c) as [u|], (step_thread fuel P s' t c) as [u'|];
    try discriminate; try contradiction.
  intros [= <-]. eexists. split; [reflexivity|]. apply apply_upd_ceq; auto. repeat split; auto.
Qed.

Lemma gstep_ceq s s' o s1 :
  ceq s s' -> gstep fuel P s o = Some s1 ->
  exists s1', gstep fuel P s' o = Some s1' /\ ceq s1 s1'.
Proof.
  intros He. destruct o as [t c| |t ks]; cbn [gstep].
  - now apply tstep_ceq.
  - destruct He as (Hc & Hm & Hp & Ht & Hd & Hl). rewrite <- Hd.
    assert (E : forallb (fun t => idleb (c_thr s' t)) (c_tids s) =
                forallb (fun t => idleb (c_thr s t)) (c_tids s)).
    { apply forallb_pw. intros t. now rewrite Ht. }
    rewrite E. destruct (forallb (fun t => idleb (c_thr s t)) (c_tids s)); [|intros Hx; discriminate Hx].
    intros [= <-].
    eexists. split; [reflexivity|]. repeat split; cbn; auto. congruence.
  - destruct He as (Hc & Hm & Hp & Ht & Hd & Hl). rewrite <- (Ht t), <- Hd.
    destruct (idleb (c_thr s t)); [|intros Hx; discriminate Hx]. intros [= <-].
    eexists. split; [reflexivity|]. repeat split; cbn; auto.
    intros t'. unfold updN. destruct (t =? t'); auto.
Qed.

End Eq.

(* the termination measure only looks at the state pointwise *)
Section MeasureExt.
Variable P : prog.
Variable rank : key -> nat.

Lemma Wf_ext mm mm' cur : (forall k, mm k = mm' k) -> forall n k, Wf P n mm cur k = Wf P n mm' cur k.
Proof.
  intros H. induction n as [|n IH]; intros k; cbn [Wf]; unfold verb, vdeps; rewrite <- (H k); auto.
  destruct (match mm k with Some m => m_ver m =? cur | None => false end); auto.
  f_equal; [f_equal|]; f_equal; apply map_ext; intros d; now rewrite IH.
Qed.

Lemma fw_ext mm mm' cur f : (forall k, mm k = mm' k) -> fw P rank mm cur f = fw P rank mm' cur f.
Proof.
  intros H. unfold fw, Wk, Sw, verb. rewrite <- (H (f_key f)).
  destruct (f_phase f); auto; rewrite ?(Wf_ext mm mm' cur H); auto.
  - f_equal. f_equal; f_equal; apply map_ext; intros d; now rewrite (Wf_ext mm mm' cur H).
  - f_equal. f_equal. apply map_ext; intros d; now rewrite (Wf_ext mm mm' cur H).
Qed.

Lemma Phi_ceq s s' : ceq s s' -> Phi P rank s = Phi P rank s'.
Proof.
  intros (Hc & Hm & Hp & Ht & Hd & Hl). unfold Phi. rewrite <- Hd. f_equal. apply map_ext.
  intros t. unfold tw, stack_of, todo_of, stw, tdw, Wk. rewrite <- (Ht t), <- Hc. f_equal.
  - f_equal. apply map_ext. intros f. now apply fw_ext.
  - f_equal. apply map_ext. intros k. now rewrite (Wf_ext _ _ _ Hm).
Qed.

End MeasureExt.

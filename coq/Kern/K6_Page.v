(* Kern/K6_Page.v — interface lemmas about the translated page/slot packing of table ids
   (src/table.rs: PAGE_LEN_BITS, PAGE_LEN, MAX_PAGES, make_id, split_id). *)
From Coq Require Import NArith ZArith Bool Lia.
From Salsa.gen Require Import Kernels.
From Salsa.Kern Require Import KBits K5_Id.
Open Scope N_scope.

Ltac Zify.zify_post_hook ::= Z.to_euclidean_division_equations.

Lemma k_PAGE_LEN_BITS_val : k_PAGE_LEN_BITS = 7.  Proof. reflexivity. Qed.
Lemma k_PAGE_LEN_val : k_PAGE_LEN = 128.          Proof. reflexivity. Qed.
Lemma k_PAGE_LEN_MASK_val : k_PAGE_LEN_MASK = 127. Proof. reflexivity. Qed.
Lemma k_MAX_PAGES_val : k_MAX_PAGES = 33554430.   Proof. reflexivity. Qed.

Lemma k_PAGE_LEN_pow : k_PAGE_LEN = 2 ^ k_PAGE_LEN_BITS /\ k_PAGE_LEN_MASK = N.ones k_PAGE_LEN_BITS.
Proof. split; reflexivity. Qed.

(* the raw index word built by make_id *)
Lemma make_id_word p s :
  p < k_MAX_PAGES -> s < k_PAGE_LEN ->
  N.lor ((N.shiftl (p mod 4294967296) k_PAGE_LEN_BITS) mod 4294967296) (s mod 4294967296)
  = s + p * 128.
Proof.
  rewrite k_MAX_PAGES_val, k_PAGE_LEN_val, k_PAGE_LEN_BITS_val. intros Hp Hs.
  rewrite (N.mod_small p), (N.mod_small s) by lia.
  rewrite N.mod_small.
  - rewrite N.lor_comm. change 128 with (2 ^ 7). apply lor_shiftl_add. exact Hs.
  - rewrite N.shiftl_mul_pow2. change (2 ^ 7) with 128. lia.
Qed.

Lemma k_make_id_eq p s :
  p < k_MAX_PAGES -> s < k_PAGE_LEN -> k_make_id p s = k_id_from_index (s + p * 128).
Proof.
  intros Hp Hs. unfold k_make_id. cbn zeta. now rewrite make_id_word.
Qed.

(* the result satisfies Id::from_index's precondition: index < Id::MAX_U32 *)
Lemma k_make_id_pre p s :
  p < k_MAX_PAGES -> s < k_PAGE_LEN -> k_id_from_index_pre (s + p * 128) = true.
Proof.
  rewrite k_MAX_PAGES_val, k_PAGE_LEN_val. intros Hp Hs.
  unfold k_id_from_index_pre. rewrite k_ID_MAX_U32_val. apply N.ltb_lt. lia.
Qed.

Lemma k_make_id_wf p s : p < k_MAX_PAGES -> s < k_PAGE_LEN -> id_wf (k_make_id p s).
Proof.
  intros Hp Hs. rewrite k_make_id_eq by assumption.
  apply k_id_from_index_pre_wf. now apply k_make_id_pre.
Qed.

Lemma k_make_id_index_lt_max p s :
  p < k_MAX_PAGES -> s < k_PAGE_LEN -> k_id_index (k_make_id p s) < k_ID_MAX_U32.
Proof.
  intros Hp Hs. rewrite k_make_id_eq by assumption.
  pose proof Hp as Hp'. pose proof Hs as Hs'.
  rewrite k_MAX_PAGES_val in Hp'. rewrite k_PAGE_LEN_val in Hs'.
  rewrite (proj1 (k_id_index_from_index (s + p * 128) ltac:(lia))).
  rewrite k_ID_MAX_U32_val. lia.
Qed.

Lemma k_split_id_eq id :
  k_split_id id = (N.shiftr (k_id_index id) 7, N.land (k_id_index id) 127).
Proof. reflexivity. Qed.

(* split_id (make_id p s) = (p, s) *)
Lemma k_split_make_id p s :
  p < k_MAX_PAGES -> s < k_PAGE_LEN -> k_split_id (k_make_id p s) = (p, s).
Proof.
  intros Hp Hs. rewrite k_split_id_eq, k_make_id_eq by assumption.
  pose proof Hp as Hp'. pose proof Hs as Hs'.
  rewrite k_MAX_PAGES_val in Hp'. rewrite k_PAGE_LEN_val in Hs'.
  rewrite (proj1 (k_id_index_from_index (s + p * 128) ltac:(lia))).
  change 128 with (2 ^ 7). rewrite <- (lor_shiftl_add s p 7) by exact Hs'.
  f_equal.
  - apply lor_shiftl_high. exact Hs'.
  - change 127 with (N.ones 7). apply lor_shiftl_land. exact Hs'.
Qed.

Lemma k_make_id_inj p s p' s' :
  p < k_MAX_PAGES -> s < k_PAGE_LEN -> p' < k_MAX_PAGES -> s' < k_PAGE_LEN ->
  k_make_id p s = k_make_id p' s' -> p = p' /\ s = s'.
Proof.
  intros Hp Hs Hp' Hs' E. apply (f_equal k_split_id) in E.
  rewrite !k_split_make_id in E by assumption. now injection E.
Qed.

(* split_id yields in-range components, and make_id rebuilds the id *)
Lemma k_split_id_range id :
  let '(p, s) := k_split_id id in k_slot_index_new_pre s = true.
Proof.
  rewrite k_split_id_eq. unfold k_slot_index_new_pre. rewrite k_PAGE_LEN_val.
  apply N.ltb_lt. change 127 with (N.ones 7). rewrite N.land_ones. change (2 ^ 7) with 128.
  apply N.mod_lt. lia.
Qed.

Lemma k_split_id_page_range id :
  id_wf id -> k_id_index id < k_ID_MAX_U32 ->
  k_page_index_new_pre (fst (k_split_id id)) = true.
Proof.
  intros Hwf Hi. rewrite k_split_id_eq. cbn [fst].
  unfold k_page_index_new_pre. rewrite k_MAX_PAGES_val. rewrite k_ID_MAX_U32_val in Hi.
  apply N.ltb_lt. rewrite N.shiftr_div_pow2. change (2 ^ 7) with 128. lia.
Qed.

Lemma k_make_split_id id :
  id_wf id -> k_id_index id < k_ID_MAX_U32 ->
  let '(p, s) := k_split_id id in
  k_id_with_generation (k_make_id p s) (k_id_generation id) = id.
Proof.
  intros Hwf Hi. rewrite k_split_id_eq.
  assert (N.shiftr (k_id_index id) 7 < k_MAX_PAGES) as Hp.
  { rewrite k_MAX_PAGES_val. rewrite k_ID_MAX_U32_val in Hi.
    rewrite N.shiftr_div_pow2. change (2 ^ 7) with 128. lia. }
  assert (N.land (k_id_index id) 127 < k_PAGE_LEN) as Hs.
  { rewrite k_PAGE_LEN_val. change 127 with (N.ones 7). rewrite N.land_ones.
    change (2 ^ 7) with 128. apply N.mod_lt. lia. }
  rewrite k_make_id_eq by assumption.
  assert (N.land (k_id_index id) 127 + N.shiftr (k_id_index id) 7 * 128 = k_id_index id) as ->.
  { change 127 with (N.ones 7). rewrite N.land_ones, N.shiftr_div_pow2.
    change (2 ^ 7) with 128. lia. }
  now apply k_id_from_index_index.
Qed.

Example k_make_id_ex :
  k_split_id (k_make_id 33554429 127) = (33554429, 127) /\ k_id_index (k_make_id 1 0) = 128.
Proof. split; reflexivity. Qed.

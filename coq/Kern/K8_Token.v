(* Kern/K8_Token.v — interface lemmas about the translated CancellationToken flag byte
   (src/zalsa_local.rs).  The AtomicU8 is read as the plain byte `st`; every kernel maps the
   old byte to the new byte (and a result). *)
From Coq Require Import NArith Bool Lia.
From Salsa.gen Require Import Kernels.
From Salsa.Kern Require Import KBits.
Open Scope N_scope.

Lemma k_TOK_masks : k_TOK_CANCELLED_MASK = 2 ^ 0 /\ k_TOK_DISABLED_MASK = 2 ^ 1.
Proof. split; reflexivity. Qed.

Lemma k_TOK_masks_disjoint : N.land k_TOK_CANCELLED_MASK k_TOK_DISABLED_MASK = 0.
Proof. reflexivity. Qed.

(* the two flags as bits of the byte *)
Definition tok_cancelled (st : N) : bool := N.testbit st 0.
Definition tok_disabled (st : N) : bool := N.testbit st 1.

Lemma k_tok_is_cancelled_eq st : k_tok_is_cancelled st = tok_cancelled st.
Proof.
  unfold k_tok_is_cancelled, tok_cancelled. change k_TOK_CANCELLED_MASK with (2 ^ 0).
  rewrite land_pow2. now destruct (N.testbit st 0).
Qed.

(* !DISABLED_MASK on a u8 *)
Lemma not_disabled_bits k : N.testbit (255 - k_TOK_DISABLED_MASK) k = (k <? 8) && negb (k =? 1).
Proof.
  change (255 - k_TOK_DISABLED_MASK) with 253.
  destruct (N.ltb_spec k 8) as [Hk|Hk].
  - assert (k = 0 \/ k = 1 \/ k = 2 \/ k = 3 \/ k = 4 \/ k = 5 \/ k = 6 \/ k = 7) as D by lia.
    destruct D as [->|[->|[->|[->|[->|[->|[->| ->]]]]]]]; reflexivity.
  - apply N.bits_above_log2. change (N.log2 253) with 7. lia.
Qed.

(* ---- cancel *)
Lemma k_tok_cancel_bits st k :
  N.testbit (k_tok_cancel st) k = N.testbit st k || (k =? 0).
Proof.
  unfold k_tok_cancel. cbn zeta. change k_TOK_CANCELLED_MASK with (2 ^ 0).
  rewrite N.lor_spec, N.pow2_bits_eqb. now rewrite (N.eqb_sym 0 k).
Qed.

Lemma k_tok_cancel_spec st :
  tok_cancelled (k_tok_cancel st) = true /\ tok_disabled (k_tok_cancel st) = tok_disabled st.
Proof.
  unfold tok_cancelled, tok_disabled. rewrite !k_tok_cancel_bits. cbn [N.eqb].
  split; [apply orb_true_r | apply orb_false_r].
Qed.

(* ---- set_cancellation_disabled: (previous disabled bit, new byte) *)
Lemma k_tok_set_disabled_prev st b :
  fst (k_tok_set_cancellation_disabled st b) = tok_disabled st.
Proof.
  unfold k_tok_set_cancellation_disabled, tok_disabled. destruct b; cbn [fst];
    change k_TOK_DISABLED_MASK with (2 ^ 1); rewrite land_pow2; now destruct (N.testbit st 1).
Qed.

Lemma k_tok_set_disabled_bits st b k :
  st < 256 ->
  N.testbit (snd (k_tok_set_cancellation_disabled st b)) k =
  if k =? 1 then b else N.testbit st k.
Proof.
  intros Hst. unfold k_tok_set_cancellation_disabled. destruct b; cbn [snd].
  - change k_TOK_DISABLED_MASK with (2 ^ 1). rewrite N.lor_spec, N.pow2_bits_eqb.
    rewrite (N.eqb_sym 1 k). destruct (k =? 1); [apply orb_true_r | apply orb_false_r].
  - rewrite N.land_spec, not_disabled_bits.
    destruct (N.eqb_spec k 1) as [->|Hne]; cbn [negb]; [now rewrite andb_false_r|].
    rewrite andb_true_r. destruct (N.ltb_spec k 8) as [Hk|Hk]; [apply andb_true_r|].
    rewrite andb_false_r. symmetry. apply (testbit_small st 8 k); [exact Hst | exact Hk].
Qed.

Lemma k_tok_set_disabled_spec st b :
  st < 256 ->
  let st' := snd (k_tok_set_cancellation_disabled st b) in
  tok_disabled st' = b /\ tok_cancelled st' = tok_cancelled st.
Proof.
  intros Hst. cbn zeta. unfold tok_disabled, tok_cancelled.
  rewrite !k_tok_set_disabled_bits by exact Hst. split; reflexivity.
Qed.

Lemma k_tok_set_disabled_range st b :
  st < 256 -> snd (k_tok_set_cancellation_disabled st b) < 256.
Proof.
  intros Hst. unfold k_tok_set_cancellation_disabled. destruct b; cbn [snd].
  - change 256 with (2 ^ 8). apply lor_bound; [exact Hst | reflexivity].
  - change (255 - k_TOK_DISABLED_MASK) with 253.
    apply N.le_lt_trans with 253; [|reflexivity].
    rewrite N.land_comm. change 253 with (N.ldiff 255 2) at 1.
    destruct (N.le_gt_cases (N.land 253 st) 253) as [H|H]; [exact H|].
    exfalso. assert (N.land 253 st < 2 ^ 8) as Hb.
    { destruct (N.eq_dec (N.land 253 st) 0) as [->|Hz]; [reflexivity|].
      apply N.log2_lt_pow2; [lia|]. eapply N.le_lt_trans; [apply N.log2_land|].
      apply N.min_lt_iff. left. reflexivity. }
    (* 253 < x < 256 means x is 254 or 255, whose bit 1 is set, but bit 1 of the land is 0 *)
    assert (N.testbit (N.land 253 st) 1 = false) as Hbit by (rewrite N.land_spec; reflexivity).
    change (2 ^ 8) with 256 in Hb.
    assert (N.land 253 st = 254 \/ N.land 253 st = 255) as [E|E] by lia;
      rewrite E in Hbit; discriminate.
Qed.

(* setting and restoring the disabled flag gives back the byte *)
Lemma k_tok_set_disabled_restore st b :
  st < 256 ->
  let '(prev, st1) := k_tok_set_cancellation_disabled st b in
  snd (k_tok_set_cancellation_disabled st1 prev) = st.
Proof.
  intros Hst. destruct (k_tok_set_cancellation_disabled st b) as [prev st1] eqn:E.
  assert (prev = tok_disabled st) as -> by (rewrite <- (k_tok_set_disabled_prev st b), E; reflexivity).
  assert (st1 = snd (k_tok_set_cancellation_disabled st b)) as -> by (now rewrite E).
  apply N.bits_inj; intro k.
  rewrite k_tok_set_disabled_bits by (now apply k_tok_set_disabled_range).
  rewrite k_tok_set_disabled_bits by exact Hst.
  destruct (N.eqb_spec k 1) as [->|]; reflexivity.
Qed.

(* ---- should_trigger_local_cancellation *)
Definition tok_wf (st : N) : Prop := st < 4.

Lemma k_tok_should_trigger_eq st : k_tok_should_trigger st = (st =? 1).
Proof. reflexivity. Qed.

Lemma k_tok_should_trigger_iff st :
  tok_wf st ->
  (k_tok_should_trigger st = true <-> tok_cancelled st = true /\ tok_disabled st = false).
Proof.
  unfold tok_wf. intros H. rewrite k_tok_should_trigger_eq, N.eqb_eq.
  assert (st = 0 \/ st = 1 \/ st = 2 \/ st = 3) as [->|[->|[->| ->]]] by lia;
    unfold tok_cancelled, tok_disabled; cbn; split; intros; try lia; try tauto;
    destruct H0; discriminate.
Qed.

(* ---- reset *)
Lemma k_tok_reset_eq st : k_tok_reset st = 0.
Proof. reflexivity. Qed.

(* the reachable bytes: 0 initially; every operation keeps st < 4 *)
Lemma tok_wf_0 : tok_wf 0.  Proof. reflexivity. Qed.

Lemma tok_wf_bits st : tok_wf st <-> forall k, 2 <= k -> N.testbit st k = false.
Proof.
  unfold tok_wf. split.
  - intros H k Hk. apply (testbit_small st 2 k); [exact H | exact Hk].
  - intros H. destruct (N.lt_ge_cases st 4) as [|Hge]; [assumption|exfalso].
    assert (st <> 0) by lia. pose proof (N.bit_log2 st H0) as B.
    rewrite H in B; [discriminate|]. change 2 with (N.log2 4). now apply N.log2_le_mono.
Qed.

Lemma tok_wf_cancel st : tok_wf st -> tok_wf (k_tok_cancel st).
Proof.
  rewrite !tok_wf_bits. intros H k Hk. rewrite k_tok_cancel_bits, H by exact Hk.
  destruct (N.eqb_spec k 0); [lia | reflexivity].
Qed.

Lemma tok_wf_set_disabled st b :
  tok_wf st -> tok_wf (snd (k_tok_set_cancellation_disabled st b)).
Proof.
  intros Hwf. assert (st < 256) as H256 by (unfold tok_wf in Hwf; lia).
  revert Hwf. rewrite !tok_wf_bits. intros H k Hk.
  rewrite k_tok_set_disabled_bits by exact H256.
  destruct (N.eqb_spec k 1); [lia | now apply H].
Qed.

Lemma tok_wf_reset st : tok_wf (k_tok_reset st).
Proof. reflexivity. Qed.

Example tok_ex :
  k_tok_should_trigger (k_tok_cancel 0) = true /\
  k_tok_should_trigger (snd (k_tok_set_cancellation_disabled (k_tok_cancel 0) true)) = false /\
  k_tok_set_cancellation_disabled 3 false = (true, 1).
Proof. repeat split. Qed.

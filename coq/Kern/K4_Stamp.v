(* Kern/K4_Stamp.v — interface lemmas about the translated IterationStamp (src/cycle.rs)
   and Runtime::bump_cancellation_count (src/runtime.rs). *)
From Coq Require Import NArith ZArith Bool Lia.
From Salsa.gen Require Import Kernels.
Open Scope N_scope.

Ltac Zify.zify_post_hook ::= Z.to_euclidean_division_equations.

Lemma k_MAX_ITERATIONS_val : k_MAX_ITERATIONS = 200.
Proof. reflexivity. Qed.

(* ---- byte decomposition *)
Lemma k_stamp_new_range i c : i < 256 -> c < 256 -> k_stamp_new i c < 65536.
Proof. unfold k_stamp_new. lia. Qed.

Lemma k_stamp_iteration_new i c : i < 256 -> k_stamp_iteration (k_stamp_new i c) = i.
Proof. unfold k_stamp_iteration, k_stamp_new. intros. lia. Qed.

Lemma k_stamp_count_new i c :
  i < 256 -> c < 256 -> k_stamp_cancellation_count (k_stamp_new i c) = c.
Proof. unfold k_stamp_cancellation_count, k_stamp_new. intros. lia. Qed.

Lemma k_stamp_new_parts s :
  s < 65536 -> k_stamp_new (k_stamp_iteration s) (k_stamp_cancellation_count s) = s.
Proof. unfold k_stamp_new, k_stamp_iteration, k_stamp_cancellation_count. intros. lia. Qed.

Lemma k_stamp_iteration_range s : k_stamp_iteration s < 256.
Proof. unfold k_stamp_iteration. lia. Qed.

Lemma k_stamp_count_range s : k_stamp_cancellation_count s < 256.
Proof. unfold k_stamp_cancellation_count. lia. Qed.

Lemma k_stamp_initial_parts c :
  c < 256 ->
  k_stamp_iteration (k_stamp_initial c) = 0 /\ k_stamp_cancellation_count (k_stamp_initial c) = c.
Proof.
  intros. unfold k_stamp_initial. split.
  - apply k_stamp_iteration_new. lia.
  - apply k_stamp_count_new; lia.
Qed.

Lemma k_stamp_is_default_iff s : k_stamp_is_default s = true <-> s = 0.
Proof. unfold k_stamp_is_default. apply N.eqb_eq. Qed.

Lemma k_stamp_default_is_initial_0 : k_stamp_initial 0 = 0.
Proof. reflexivity. Qed.

Lemma k_stamp_is_initial_iteration_iff s :
  k_stamp_is_initial_iteration s = true <-> k_stamp_iteration s = 0.
Proof. unfold k_stamp_is_initial_iteration. apply N.eqb_eq. Qed.

Lemma k_stamp_iteration_as_u32_eq s : k_stamp_iteration_as_u32 s = k_stamp_iteration s.
Proof. reflexivity. Qed.

(* ---- increment_iteration *)
Lemma k_stamp_increment_some s s' :
  s < 65536 -> k_stamp_iteration s <= k_MAX_ITERATIONS ->
  k_stamp_increment_iteration s = Some s' ->
  s' = s + 1 /\
  k_stamp_iteration s' = k_stamp_iteration s + 1 /\
  k_stamp_cancellation_count s' = k_stamp_cancellation_count s /\
  k_stamp_iteration s' <= k_MAX_ITERATIONS.
Proof.
  rewrite k_MAX_ITERATIONS_val.
  unfold k_stamp_increment_iteration, k_stamp_iteration, k_stamp_cancellation_count.
  rewrite k_MAX_ITERATIONS_val. cbn zeta. intros Hs Hi.
  destruct (N.leb_spec (((s + 1) mod 65536) mod 256) 200) as [Hle|Hgt]; [|discriminate].
  intros E. injection E as <-. lia.
Qed.

Lemma k_stamp_increment_none_iff s :
  s < 65536 -> k_stamp_iteration s <= k_MAX_ITERATIONS ->
  (k_stamp_increment_iteration s = None <-> k_stamp_iteration s = k_MAX_ITERATIONS).
Proof.
  rewrite k_MAX_ITERATIONS_val.
  unfold k_stamp_increment_iteration, k_stamp_iteration. rewrite k_MAX_ITERATIONS_val. cbn zeta.
  intros Hs Hi.
  destruct (N.leb_spec (((s + 1) mod 65536) mod 256) 200) as [Hle|Hgt];
    split; intros H; try discriminate; try reflexivity; lia.
Qed.

(* at most MAX_ITERATIONS successful increments starting from an initial stamp *)
Lemma k_stamp_increment_bound s s' :
  s < 65536 -> k_stamp_iteration s <= k_MAX_ITERATIONS ->
  k_stamp_increment_iteration s = Some s' -> k_stamp_iteration s < k_MAX_ITERATIONS.
Proof.
  intros Hs Hi E.
  destruct (N.eq_dec (k_stamp_iteration s) k_MAX_ITERATIONS) as [Heq|Hne]; [|lia].
  apply (k_stamp_increment_none_iff s Hs Hi) in Heq. congruence.
Qed.

(* ---- order = lexicographic (count, iteration) *)
Lemma k_stamp_order s t :
  s < 65536 -> t < 65536 ->
  (s < t <->
   k_stamp_cancellation_count s < k_stamp_cancellation_count t \/
   (k_stamp_cancellation_count s = k_stamp_cancellation_count t /\
    k_stamp_iteration s < k_stamp_iteration t)).
Proof.
  unfold k_stamp_cancellation_count, k_stamp_iteration. intros. lia.
Qed.

Lemma k_stamp_eq s t :
  s < 65536 -> t < 65536 ->
  k_stamp_cancellation_count s = k_stamp_cancellation_count t ->
  k_stamp_iteration s = k_stamp_iteration t -> s = t.
Proof.
  unfold k_stamp_cancellation_count, k_stamp_iteration. intros. lia.
Qed.

(* ---- bump_cancellation_count: (overflowed, new count) *)
Definition bump_count (c : N) : option N :=
  let '(overflow, c') := k_bump_count c in if overflow then None else Some c'.

Lemma k_bump_count_ok c : c < 255 -> k_bump_count c = (false, c + 1).
Proof.
  intros H. unfold k_bump_count. cbn zeta.
  destruct (N.ltb_spec (c + 1) 256); [reflexivity | lia].
Qed.

Lemma k_bump_count_overflow c : 255 <= c -> k_bump_count c = (true, c).
Proof.
  intros H. unfold k_bump_count. cbn zeta.
  destruct (N.ltb_spec (c + 1) 256); [lia | reflexivity].
Qed.

Lemma bump_count_none_iff c : bump_count c = None <-> 255 <= c.
Proof.
  unfold bump_count. destruct (N.lt_ge_cases c 255) as [H|H].
  - rewrite k_bump_count_ok by exact H. split; [discriminate | lia].
  - rewrite k_bump_count_overflow by exact H. split; auto.
Qed.

Lemma bump_count_some c : c < 255 -> bump_count c = Some (c + 1).
Proof. intros H. unfold bump_count. now rewrite k_bump_count_ok. Qed.

Example k_stamp_ex :
  k_stamp_increment_iteration (k_stamp_new 199 7) = Some (k_stamp_new 200 7) /\
  k_stamp_increment_iteration (k_stamp_new 200 7) = None.
Proof. split; reflexivity. Qed.

(* Kern/KBits.v — generic bit-field lemmas over N used by the kernel interface proofs
   (a low field `a < 2^n` OR-ed with a high field `b << n`). No kernel is mentioned here. *)
From Coq Require Import NArith Bool Lia.
Open Scope N_scope.

Lemma testbit_small a n k : a < 2 ^ n -> n <= k -> N.testbit a k = false.
Proof.
  intros Ha Hk. destruct (N.eq_dec a 0) as [->|Hz]; [apply N.bits_0|].
  apply N.bits_above_log2. apply N.lt_le_trans with n; [|exact Hk].
  apply N.log2_lt_pow2; lia.
Qed.

Lemma lor_shiftl_low a b n : a < 2 ^ n -> (N.lor a (N.shiftl b n)) mod 2 ^ n = a.
Proof.
  intros Ha. rewrite <- N.land_ones. apply N.bits_inj; intro k.
  rewrite N.land_spec, N.lor_spec.
  destruct (N.lt_ge_cases k n) as [Hk|Hk].
  - rewrite N.ones_spec_low, N.shiftl_spec_low by exact Hk.
    now rewrite orb_false_r, andb_true_r.
  - rewrite N.ones_spec_high by exact Hk. rewrite andb_false_r.
    symmetry. now apply testbit_small with n.
Qed.

Lemma lor_shiftl_high a b n : a < 2 ^ n -> N.shiftr (N.lor a (N.shiftl b n)) n = b.
Proof.
  intros Ha. rewrite N.shiftr_lor, N.shiftr_shiftl_l by lia.
  rewrite N.sub_diag, N.shiftl_0_r.
  assert (N.shiftr a n = 0) as ->; [|apply N.lor_0_l].
  destruct (N.eq_dec a 0) as [->|Hz]; [apply N.shiftr_0_l|].
  apply N.shiftr_eq_0. apply N.log2_lt_pow2; lia.
Qed.

Lemma lor_shiftl_land a b n : a < 2 ^ n -> N.land (N.lor a (N.shiftl b n)) (N.ones n) = a.
Proof. intros Ha. rewrite N.land_ones. now apply lor_shiftl_low. Qed.

Lemma shiftl_bound b n m : b < 2 ^ m -> N.shiftl b n < 2 ^ (m + n).
Proof.
  intros Hb. rewrite N.shiftl_mul_pow2, N.pow_add_r.
  apply N.mul_lt_mono_pos_r; [apply N.neq_0_lt_0, N.pow_nonzero; lia | exact Hb].
Qed.

Lemma lor_bound a b n : a < 2 ^ n -> b < 2 ^ n -> N.lor a b < 2 ^ n.
Proof.
  intros Ha Hb.
  destruct (N.eq_dec (N.lor a b) 0) as [->|Hz]; [apply N.neq_0_lt_0, N.pow_nonzero; lia|].
  apply N.log2_lt_pow2; [lia|]. rewrite N.log2_lor.
  destruct (N.eq_dec a 0) as [->|Ha0]; destruct (N.eq_dec b 0) as [->|Hb0];
    cbn [N.log2 N.max]; try (exfalso; apply Hz; reflexivity).
  - rewrite N.max_r by apply N.le_0_l. apply N.log2_lt_pow2; lia.
  - rewrite N.max_l by apply N.le_0_l. apply N.log2_lt_pow2; lia.
  - apply N.max_lub_lt; apply N.log2_lt_pow2; lia.
Qed.

(* both fields are recovered, and the pair determines the word *)
Lemma lor_shiftl_inj a b a' b' n :
  a < 2 ^ n -> a' < 2 ^ n ->
  N.lor a (N.shiftl b n) = N.lor a' (N.shiftl b' n) -> a = a' /\ b = b'.
Proof.
  intros Ha Ha' E. split.
  - rewrite <- (lor_shiftl_low a b n Ha), E. now apply lor_shiftl_low.
  - rewrite <- (lor_shiftl_high a b n Ha), E. now apply lor_shiftl_high.
Qed.

Lemma lor_shiftl_add a b n : a < 2 ^ n -> N.lor a (N.shiftl b n) = a + b * 2 ^ n.
Proof.
  intros Ha. rewrite <- N.shiftl_mul_pow2.
  rewrite <- N.lxor_lor.
  - symmetry. apply N.add_nocarry_lxor.
    apply N.bits_inj_0; intro k. rewrite N.land_spec.
    destruct (N.lt_ge_cases k n) as [Hk|Hk].
    + now rewrite N.shiftl_spec_low, andb_false_r.
    + now rewrite (testbit_small a n k Ha Hk).
  - apply N.bits_inj_0; intro k. rewrite N.land_spec.
    destruct (N.lt_ge_cases k n) as [Hk|Hk].
    + now rewrite N.shiftl_spec_low, andb_false_r.
    + now rewrite (testbit_small a n k Ha Hk).
Qed.

(* a single-bit mask *)
Lemma land_pow2 a n : N.land a (2 ^ n) = if N.testbit a n then 2 ^ n else 0.
Proof.
  apply N.bits_inj; intro k. rewrite N.land_spec, N.pow2_bits_eqb.
  destruct (N.eqb_spec n k) as [->|Hne].
  - destruct (N.testbit a k) eqn:E; cbn [andb].
    + now rewrite N.pow2_bits_true.
    + now rewrite N.bits_0.
  - rewrite andb_false_r. destruct (N.testbit a n).
    + symmetry. now apply N.pow2_bits_false.
    + now rewrite N.bits_0.
Qed.

Lemma testbit_top a n : a < 2 ^ (n + 1) -> (N.testbit a n = true <-> 2 ^ n <= a).
Proof.
  intros Ha. rewrite N.testbit_eqb, N.eqb_eq.
  rewrite N.pow_add_r in Ha. change (2 ^ 1) with 2 in Ha.
  assert (2 ^ n <> 0) as Hnz by (apply N.pow_nonzero; lia).
  assert (a / 2 ^ n < 2) as Hq by (apply N.div_lt_upper_bound; lia).
  rewrite N.mod_small by exact Hq.
  split; intros H.
  - pose proof (N.mul_div_le a (2 ^ n) Hnz) as L. rewrite H in L. lia.
  - assert (1 <= a / 2 ^ n) by (apply N.div_le_lower_bound; lia). lia.
Qed.

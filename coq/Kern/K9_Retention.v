(* Kern/K9_Retention.v — interface lemmas about the translated interned-value retention
   kernels (src/interned.rs: is_reusable, IMMORTAL, RevisionQueue::{record, record_cold,
   is_stale, is_primed}).  The queue (SmallVec of AtomicRevision) is a `list N`, newest first;
   the shift loop of record_cold is the translated fold. *)
From Coq Require Import NArith ZArith Bool List Lia.
From Salsa.gen Require Import Kernels.
From Salsa.Kern Require Import K1_Durability.
Import ListNotations.
Open Scope N_scope.

Ltac Zify.zify_post_hook ::= Z.to_euclidean_division_equations.

Lemma k_IMMORTAL_val : k_IMMORTAL = 18446744073709551615.
Proof. reflexivity. Qed.

Lemma k_reusable_iff revisions d :
  k_reusable revisions d = true <-> revisions <> k_IMMORTAL /\ d = k_DUR_LOW.
Proof.
  unfold k_reusable. destruct (N.eqb_spec revisions k_IMMORTAL) as [E|E].
  - split; [discriminate | intros (H & _); contradiction].
  - rewrite N.eqb_eq. tauto.
Qed.

(* ---- list idioms *)
Lemma k_len_length q : k_len q = N.of_nat (length q).
Proof. induction q as [|x t IH]; [reflexivity|]. cbn [k_len length]. rewrite IH. lia. Qed.

Lemma k_nth_cons x t k : k_nth (x :: t) k = if k =? 0 then x else k_nth t (k - 1).
Proof. reflexivity. Qed.

Lemma k_len_set_nth q i v : k_len (k_set_nth q i v) = k_len q.
Proof.
  revert i. induction q as [|x t IH]; intros i; [reflexivity|].
  cbn [k_set_nth]. destruct (i =? 0); cbn [k_len]; [reflexivity | now rewrite IH].
Qed.

Lemma k_nth_set_nth q i v j :
  i < k_len q -> k_nth (k_set_nth q i v) j = if j =? i then v else k_nth q j.
Proof.
  revert i j. induction q as [|x t IH]; intros i j Hi.
  - cbn [k_len] in Hi. lia.
  - cbn [k_set_nth]. destruct (N.eqb_spec i 0) as [->|Hi0].
    + rewrite !k_nth_cons. destruct (N.eqb_spec j 0); reflexivity.
    + rewrite !k_nth_cons. destruct (N.eqb_spec j 0) as [->|Hj0].
      * destruct (N.eqb_spec 0 i); [lia | reflexivity].
      * cbn [k_len] in Hi. rewrite IH by lia.
        destruct (N.eqb_spec (j - 1) (i - 1)), (N.eqb_spec j i); try reflexivity; lia.
Qed.

Lemma k_nth_beyond q k : k_len q <= k -> k_nth q k = 0.
Proof.
  revert k. induction q as [|x t IH]; intros k Hk; [reflexivity|].
  cbn [k_len] in Hk. rewrite k_nth_cons. destruct (N.eqb_spec k 0); [lia|]. apply IH. lia.
Qed.

Lemma k_list_ext a b :
  k_len a = k_len b -> (forall k, k < k_len a -> k_nth a k = k_nth b k) -> a = b.
Proof.
  revert b. induction a as [|x t IH]; intros [|y u] Hl Hn; cbn [k_len] in *; try lia.
  - reflexivity.
  - f_equal.
    + specialize (Hn 0 ltac:(lia)). now rewrite !k_nth_cons in Hn.
    + apply IH; [lia|]. intros k Hk. specialize (Hn (k + 1) ltac:(lia)).
      rewrite !k_nth_cons in Hn. destruct (N.eqb_spec (k + 1) 0); [lia|].
      now replace (k + 1 - 1) with k in Hn by lia.
Qed.

Lemma k_len_removelast q : q <> [] -> k_len (removelast q) + 1 = k_len q.
Proof.
  induction q as [|x t IH]; [congruence|]. intros _. destruct t as [|y u]; [reflexivity|].
  change (removelast (x :: y :: u)) with (x :: removelast (y :: u)). cbn [k_len] in *.
  rewrite <- IH by discriminate. lia.
Qed.

Lemma k_nth_removelast q k : k + 1 < k_len q -> k_nth (removelast q) k = k_nth q k.
Proof.
  revert k. induction q as [|x t IH]; intros k Hk; [reflexivity|].
  destruct t as [|y u]; [cbn [k_len] in Hk; lia|].
  change (removelast (x :: y :: u)) with (x :: removelast (y :: u)).
  rewrite !k_nth_cons. destruct (N.eqb_spec k 0); [reflexivity|].
  apply IH. cbn [k_len] in *. lia.
Qed.

Lemma k_last_spec q : k_last q = match q with [] => None | _ => Some (last q 0) end.
Proof.
  induction q as [|x t IH]; [reflexivity|]. destruct t as [|y u]; [reflexivity|].
  change (k_last (x :: y :: u)) with (k_last (y :: u)). rewrite IH. reflexivity.
Qed.

(* ---- the shift loop *)
Definition shift_step (q : list N) (i : N) : list N :=
  k_set_nth q i (k_nth q ((i + 18446744073709551616 - 1) mod 18446744073709551616)).

Lemma fold_down_shift n : forall lo q,
  1 <= lo -> lo + N.of_nat n <= k_len q -> k_len q < 18446744073709551616 ->
  let q' := k_fold_down shift_step n lo q in
  k_len q' = k_len q /\
  forall k, k_nth q' k =
            if (lo <=? k) && (k <? lo + N.of_nat n) then k_nth q (k - 1) else k_nth q k.
Proof.
  induction n as [|m IH]; intros lo q Hlo Hlen Hmax; cbn zeta.
  - cbn [k_fold_down]. split; [reflexivity|]. intros k.
    destruct (N.leb_spec lo k), (N.ltb_spec k (lo + N.of_nat 0)); cbn [andb]; try reflexivity; lia.
  - cbn [k_fold_down].
    set (i := lo + N.of_nat m).
    assert (i < k_len q) as Hi by (unfold i; lia).
    assert ((i + 18446744073709551616 - 1) mod 18446744073709551616 = i - 1) as Hpred
      by (unfold i in *; lia).
    set (q1 := shift_step q i).
    assert (k_len q1 = k_len q) as Hl1 by (apply k_len_set_nth).
    destruct (IH lo q1 Hlo ltac:(rewrite Hl1; lia) ltac:(rewrite Hl1; exact Hmax)) as (HL & HN).
    split; [now rewrite HL|]. intros k. rewrite HN.
    unfold q1, shift_step. rewrite Hpred.
    rewrite !k_nth_set_nth by exact Hi.
    destruct (N.leb_spec lo k), (N.ltb_spec k (lo + N.of_nat m)),
             (N.ltb_spec k (lo + N.of_nat (S m))); cbn [andb];
      destruct (N.eqb_spec (k - 1) i), (N.eqb_spec k i); try reflexivity; unfold i in *; try lia.
    subst k. f_equal.
Qed.

Lemma k_rq_record_cold_spec q r :
  q <> [] -> k_len q < 18446744073709551616 ->
  k_rq_record_cold q r = if r <=? k_nth q 0 then q else r :: removelast q.
Proof.
  intros Hne Hmax. unfold k_rq_record_cold.
  destruct (r <=? k_nth q 0); [reflexivity|]. cbn zeta.
  change (fun q_1 i => k_set_nth q_1 i
            (k_nth q_1 ((i + 18446744073709551616 - 1) mod 18446744073709551616)))
    with shift_step.
  unfold k_fold_range_rev.
  assert (1 <= k_len q) as H1 by (destruct q; [congruence | cbn [k_len]; lia]).
  destruct (fold_down_shift (N.to_nat (k_len q - 1)) 1 q ltac:(lia) ltac:(lia) Hmax) as (HL & HN).
  set (q' := k_fold_down shift_step (N.to_nat (k_len q - 1)) 1 q) in *.
  pose proof (k_len_removelast q Hne) as HR.
  apply k_list_ext.
  - rewrite k_len_set_nth, HL. cbn [k_len]. lia.
  - rewrite k_len_set_nth, HL. intros k Hk.
    rewrite k_nth_set_nth by (rewrite HL; lia). rewrite k_nth_cons.
    destruct (N.eqb_spec k 0) as [->|Hk0]; [reflexivity|].
    rewrite HN. rewrite N2Nat.id.
    destruct (N.leb_spec 1 k), (N.ltb_spec k (1 + (k_len q - 1))); cbn [andb]; try lia.
    symmetry. apply k_nth_removelast. lia.
Qed.

Lemma k_rq_record_eq q r :
  k_rq_record q r = if r <=? k_nth q 0 then q else k_rq_record_cold q r.
Proof. reflexivity. Qed.

Lemma k_rq_record_spec q r :
  q <> [] -> k_len q < 18446744073709551616 ->
  k_rq_record q r = if r <=? k_nth q 0 then q else r :: removelast q.
Proof.
  intros Hne Hmax. rewrite k_rq_record_eq, k_rq_record_cold_spec by assumption.
  now destruct (r <=? k_nth q 0).
Qed.

Lemma k_rq_record_pre_iff q r : k_rq_record_pre q r = true <-> q <> [].
Proof.
  unfold k_rq_record_pre. destruct q as [|x t]; cbn [k_len].
  - split; [discriminate | congruence].
  - destruct (N.eqb_spec (1 + k_len t) 0); [lia|]. split; [discriminate | reflexivity].
Qed.

(* ---- consequences used by the Intern layer *)
Fixpoint desc (q : list N) : Prop :=
  match q with
  | x :: ((y :: _) as t) => y <= x /\ desc t
  | _ => True
  end.

Lemma desc_removelast q : desc q -> desc (removelast q).
Proof.
  induction q as [|x t IH]; [auto|]. destruct t as [|y u]; [auto|].
  intros (Hxy & Ht). destruct u as [|z v]; [exact I|].
  change (removelast (x :: y :: z :: v)) with (x :: y :: removelast (z :: v)).
  split; [exact Hxy|]. apply (IH Ht).
Qed.

Lemma k_rq_record_length q r :
  q <> [] -> k_len q < 18446744073709551616 -> k_len (k_rq_record q r) = k_len q.
Proof.
  intros Hne Hmax. rewrite k_rq_record_spec by assumption.
  destruct (r <=? k_nth q 0); [reflexivity|]. cbn [k_len].
  pose proof (k_len_removelast q Hne). lia.
Qed.

Lemma k_rq_record_desc q r :
  q <> [] -> k_len q < 18446744073709551616 -> desc q -> desc (k_rq_record q r).
Proof.
  intros Hne Hmax Hd. rewrite k_rq_record_spec by assumption.
  destruct (N.leb_spec r (k_nth q 0)) as [|Hlt]; [exact Hd|].
  destruct q as [|x t]; [congruence|]. rewrite k_nth_cons in Hlt. cbn [N.eqb] in Hlt.
  destruct t as [|y u]; [exact I|].
  change (removelast (x :: y :: u)) with (x :: removelast (y :: u)).
  split; [lia|]. apply (desc_removelast (x :: y :: u) Hd).
Qed.

Lemma k_rq_record_head q r :
  q <> [] -> k_len q < 18446744073709551616 -> k_nth (k_rq_record q r) 0 = N.max r (k_nth q 0).
Proof.
  intros Hne Hmax. rewrite k_rq_record_spec by assumption.
  destruct (N.leb_spec r (k_nth q 0)); [lia|]. rewrite k_nth_cons. cbn [N.eqb]. lia.
Qed.

Lemma k_rq_record_idem q r :
  q <> [] -> k_len q < 18446744073709551616 ->
  k_rq_record (k_rq_record q r) r = k_rq_record q r.
Proof.
  intros Hne Hmax.
  assert (k_rq_record q r <> []) as Hne'.
  { intros E. pose proof (k_rq_record_length q r Hne Hmax) as L. rewrite E in L.
    destruct q; [congruence | cbn [k_len] in L; lia]. }
  rewrite (k_rq_record_eq (k_rq_record q r) r).
  rewrite k_rq_record_head by assumption.
  destruct (N.leb_spec r (N.max r (k_nth q 0))); [reflexivity | lia].
Qed.

(* is_stale / is_primed through the oldest entry *)
Lemma k_rq_is_primed_iff q :
  k_rq_is_primed q = true <-> exists o, k_last q = Some o /\ k_rev_start < o.
Proof.
  unfold k_rq_is_primed. destruct (k_last q) as [o|].
  - rewrite N.ltb_lt. split; [intros H; now exists o | intros (o' & E & H); now injection E as ->].
  - split; [discriminate | intros (o & E & _); discriminate].
Qed.

Lemma k_rq_is_stale_iff q r :
  Forall (fun x => k_rev_start <= x) q ->
  (k_rq_is_stale q r = true <-> k_rq_is_primed q = true /\ exists o, k_last q = Some o /\ r < o).
Proof.
  intros Hall. unfold k_rq_is_stale, k_rq_is_primed. rewrite k_last_spec.
  destruct q as [|x t].
  - split; [discriminate | intros (H & _); discriminate].
  - cbn zeta. set (o := last (x :: t) 0).
    assert (k_rev_start <= o) as Ho.
    { pose proof (proj1 (Forall_forall _ _) Hall o) as F. apply F. unfold o.
      destruct (exists_last (l := x :: t) ltac:(discriminate)) as (l' & a & E).
      rewrite E, last_last. apply in_or_app. right. now left. }
    change k_rev_start with 1 in *.
    destruct (N.eqb_spec o 1) as [E1|E1].
    + split; [discriminate|]. intros (H & _). apply N.ltb_lt in H. lia.
    + rewrite N.ltb_lt. split.
      * intros H. split; [apply N.ltb_lt; lia | now exists o].
      * intros (_ & o' & E & H). now injection E as <-.
Qed.

Lemma k_rq_is_stale_not_primed q r : k_rq_is_primed q = false -> Forall (fun x => k_rev_start <= x) q ->
  k_rq_is_stale q r = false.
Proof.
  intros Hp Hall. destruct (k_rq_is_stale q r) eqn:E; [|reflexivity].
  apply k_rq_is_stale_iff in E; [|exact Hall]. destruct E as (E & _). congruence.
Qed.

Example k_rq_ex :
  k_rq_record [1; 1; 1] 5 = [5; 1; 1] /\
  k_rq_record (k_rq_record (k_rq_record [1; 1; 1] 5) 7) 9 = [9; 7; 5] /\
  k_rq_record [9; 7; 5] 9 = [9; 7; 5] /\
  k_rq_is_stale [9; 7; 5] 4 = true /\ k_rq_is_stale [9; 7; 5] 5 = false /\
  k_rq_is_primed [5; 1; 1] = false /\ k_rq_is_stale [5; 1; 1] 0 = false.
Proof. repeat split. Qed.

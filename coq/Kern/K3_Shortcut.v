(* Kern/K3_Shortcut.v — interface lemmas about the translated comparisons of the
   durability short-cut, the `changed_at > revision` tests and the can_backdate durability
   conjunct (src/function/maybe_changed_after.rs, src/function/backdate.rs,
   src/input/input_field.rs, src/tracked_struct/tracked_field.rs). *)
From Coq Require Import NArith Bool Lia.
From Salsa.gen Require Import Kernels.
Open Scope N_scope.

Lemma k_shallow_ok_iff lc va : k_shallow_ok lc va = true <-> lc <= va.
Proof.
  unfold k_shallow_ok. destruct (N.leb_spec lc va); split; intros; try lia; congruence.
Qed.

Lemma k_shallow_ok_false_iff lc va : k_shallow_ok lc va = false <-> va < lc.
Proof.
  unfold k_shallow_ok. destruct (N.leb_spec lc va); split; intros; try lia; congruence.
Qed.

Lemma k_changed_if_id b : k_changed_if b = b.
Proof. now destruct b. Qed.

Lemma k_changed_after_iff s r : k_changed_after s r = true <-> r < s.
Proof.
  unfold k_changed_after, k_changed_after_hot.
  destruct (N.ltb_spec r s); split; intros; try lia; congruence.
Qed.

Lemma k_changed_after_false_iff s r : k_changed_after s r = false <-> s <= r.
Proof.
  unfold k_changed_after, k_changed_after_hot.
  destruct (N.ltb_spec r s); split; intros; try lia; congruence.
Qed.

(* all five sites are the same comparison *)
Lemma k_changed_after_hot_eq s r : k_changed_after_hot s r = k_changed_after s r.
Proof. reflexivity. Qed.
Lemma k_changed_after_cold1_eq s r : k_changed_after_cold1 s r = k_changed_after s r.
Proof. reflexivity. Qed.
Lemma k_changed_after_cold2_eq s r : k_changed_after_cold2 s r = k_changed_after s r.
Proof. reflexivity. Qed.
Lemma k_changed_after_input_field_eq s r : k_changed_after_input_field s r = k_changed_after s r.
Proof.
  unfold k_changed_after_input_field, k_changed_after, k_changed_after_hot.
  rewrite k_changed_if_id. now destruct (r <? s).
Qed.
Lemma k_changed_after_tracked_field_eq s r :
  k_changed_after_tracked_field s r = k_changed_after s r.
Proof.
  unfold k_changed_after_tracked_field, k_changed_after, k_changed_after_hot.
  rewrite k_changed_if_id. now destruct (r <? s).
Qed.

Lemma k_changed_after_sites_agree s r :
  k_changed_after_hot s r = k_changed_after s r /\
  k_changed_after_cold1 s r = k_changed_after s r /\
  k_changed_after_cold2 s r = k_changed_after s r /\
  k_changed_after_input_field s r = k_changed_after s r /\
  k_changed_after_tracked_field s r = k_changed_after s r.
Proof.
  repeat split; auto using k_changed_after_input_field_eq, k_changed_after_tracked_field_eq.
Qed.

Lemma k_can_backdate_dur_iff n o : k_can_backdate_dur n o = true <-> o <= n.
Proof. unfold k_can_backdate_dur. apply N.leb_le. Qed.

Lemma k_can_backdate_dur_false_iff n o : k_can_backdate_dur n o = false <-> n < o.
Proof. unfold k_can_backdate_dur. apply N.leb_gt. Qed.

Example k_shallow_ok_ex : k_shallow_ok 3 3 = true /\ k_shallow_ok 4 3 = false.
Proof. split; reflexivity. Qed.
Example k_changed_after_ex : k_changed_after 4 3 = true /\ k_changed_after 3 3 = false.
Proof. split; reflexivity. Qed.

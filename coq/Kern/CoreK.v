(* Kern/CoreK.v — the integer kernels the Core model is built from, re-exported
   from the translator's output (coq/gen/Kernels.v, regenerated from /repo's
   Rust source on every run).  The stateful models use only these names. *)
From Salsa Require Import Base.
From Salsa.gen Require Import Kernels.

(* runtime.revisions as a triple (cur, medium, high) *)
Record revs := { r_cur : rev; r_med : rev; r_high : rev }.

(* Runtime::last_changed_revision *)
Definition last_changed (r : revs) (d : dur) : rev :=
  k_last_changed_revision (r_cur r) (r_med r) (r_high r) d.

(* Runtime::report_tracked_write, for d <> NEVER (the assertion is modelled by the caller) *)
Definition report_write (r : revs) (d : dur) : revs :=
  {| r_cur := r_cur r;
     r_med := k_report_write_slot 1 (r_cur r) (r_med r) d;
     r_high := k_report_write_slot 2 (r_cur r) (r_high r) d |}.

(* MemoHeader::shallow_verify_memo_cold: last_changed <= verified_at *)
Definition shallow_ok (lc verified_at : rev) : bool := k_shallow_ok lc verified_at.

(* `changed_at > revision` tests (maybe_changed_after_*, input_field, tracked_field) *)
Definition changed_after (stamp since : rev) : bool := k_changed_after stamp since.

(* MemoHeader::can_backdate durability conjunct: new >= old *)
Definition can_backdate_dur (new_d old_d : dur) : bool := k_can_backdate_dur new_d old_d.

Definition dur_min (a b : dur) : dur := N.min a b.
Definition rev_max (a b : rev) : rev := N.max a b.

(* Kern/K2_WriteReport.v — interface lemmas about the translated Runtime::report_tracked_write,
   Runtime::last_changed_revision and Revision::next (src/runtime.rs, src/revision.rs). *)
From Coq Require Import NArith Bool Lia.
From Salsa.gen Require Import Kernels.
From Salsa.Kern Require Import K1_Durability.
Open Scope N_scope.

Lemma k_REV_START_val : k_REV_START = 1.  Proof. reflexivity. Qed.
Lemma k_rev_start_val : k_rev_start = 1.  Proof. reflexivity. Qed.
Lemma k_never_changed_revision_val : k_never_changed_revision = 1.  Proof. reflexivity. Qed.

(* ---- report_tracked_write: exactly the slots 1..=d are set to the current revision *)
Lemma k_report_write_slot_spec j cur old d :
  k_report_write_slot j cur old d = if (1 <=? j) && (j <=? d) then cur else old.
Proof. reflexivity. Qed.

Lemma k_report_write_slot_in j cur old d :
  1 <= j -> j <= d -> k_report_write_slot j cur old d = cur.
Proof.
  intros H1 H2. rewrite k_report_write_slot_spec.
  apply N.leb_le in H1. apply N.leb_le in H2. now rewrite H1, H2.
Qed.

Lemma k_report_write_slot_zero cur old d : k_report_write_slot 0 cur old d = old.
Proof. rewrite k_report_write_slot_spec. reflexivity. Qed.

Lemma k_report_write_slot_above j cur old d :
  d < j -> k_report_write_slot j cur old d = old.
Proof.
  intros H. rewrite k_report_write_slot_spec.
  apply N.leb_gt in H. rewrite H. now rewrite andb_false_r.
Qed.

Lemma k_report_write_slot_iff j cur old d :
  cur <> old -> (k_report_write_slot j cur old d = cur <-> 1 <= j <= d).
Proof.
  intros Hne. rewrite k_report_write_slot_spec.
  destruct (N.leb_spec 1 j), (N.leb_spec j d); cbn [andb]; split; intros; try lia; congruence.
Qed.

(* a LOW write touches no slot besides slot 0 (which new_revision handles) *)
Lemma k_report_write_slot_low j cur old : k_report_write_slot j cur old k_DUR_LOW = old.
Proof.
  rewrite k_report_write_slot_spec, k_DUR_LOW_val.
  destruct (N.leb_spec 1 j), (N.leb_spec j 0); cbn [andb]; try reflexivity; lia.
Qed.

Lemma k_report_write_rejects_iff d : k_report_write_rejects d = true <-> d = k_DUR_NEVER.
Proof.
  unfold k_report_write_rejects. rewrite negb_involutive. apply N.eqb_eq.
Qed.

(* an accepted durability keeps the slice inside the array *)
Lemma k_report_write_in_bounds d :
  d <= k_DUR_MAX -> k_report_write_rejects d = false -> k_report_write_slot_in_bounds d = true.
Proof.
  intros Hd Hr. assert (d <> k_DUR_NEVER) as Hn.
  { intros E. apply k_report_write_rejects_iff in E. congruence. }
  rewrite k_DUR_MAX_is_NEVER in Hd. rewrite k_DUR_NEVER_val in *.
  unfold k_report_write_slot_in_bounds. rewrite k_dur_index_id.
  apply andb_true_iff; split; apply N.leb_le; lia.
Qed.

(* the declining invariant r0 >= r1 >= r2 is preserved when cur = r0 *)
Lemma k_report_write_declining r0 r1 r2 d :
  r2 <= r1 -> r1 <= r0 ->
  let r1' := k_report_write_slot 1 r0 r1 d in
  let r2' := k_report_write_slot 2 r0 r2 d in
  r2' <= r1' /\ r1' <= r0.
Proof.
  intros H21 H10. cbn zeta. rewrite !k_report_write_slot_spec.
  destruct (N.leb_spec 1 d), (N.leb_spec 2 d); cbn [N.leb andb]; cbn; lia.
Qed.

(* ---- last_changed_revision *)
Lemma k_last_changed_revision_0 r0 r1 r2 : k_last_changed_revision r0 r1 r2 0 = r0.
Proof. reflexivity. Qed.
Lemma k_last_changed_revision_1 r0 r1 r2 : k_last_changed_revision r0 r1 r2 1 = r1.
Proof. reflexivity. Qed.
Lemma k_last_changed_revision_2 r0 r1 r2 : k_last_changed_revision r0 r1 r2 2 = r2.
Proof. reflexivity. Qed.
Lemma k_last_changed_revision_3 r0 r1 r2 : k_last_changed_revision r0 r1 r2 3 = 1.
Proof. reflexivity. Qed.

Lemma k_last_changed_revision_low r0 r1 r2 : k_last_changed_revision r0 r1 r2 k_DUR_LOW = r0.
Proof. reflexivity. Qed.

Lemma k_last_changed_revision_never r0 r1 r2 :
  k_last_changed_revision r0 r1 r2 k_DUR_NEVER = k_rev_start.
Proof. reflexivity. Qed.

Lemma k_last_changed_revision_ge_len r0 r1 r2 d :
  k_DUR_LEN <= d -> k_last_changed_revision r0 r1 r2 d = k_rev_start.
Proof.
  rewrite k_DUR_LEN_val. intros H. unfold k_last_changed_revision. rewrite k_dur_index_id.
  cbn zeta. destruct (N.ltb_spec d 3); [lia | reflexivity].
Qed.

(* monotone in the durability for a declining vector with r2 >= START *)
Lemma k_last_changed_revision_anti r0 r1 r2 d d' :
  1 <= r2 -> r2 <= r1 -> r1 <= r0 -> d <= d' ->
  k_last_changed_revision r0 r1 r2 d' <= k_last_changed_revision r0 r1 r2 d.
Proof.
  intros H2 H21 H10 Hd. unfold k_last_changed_revision. rewrite !k_dur_index_id. cbn zeta.
  change k_never_changed_revision with 1.
  destruct (N.ltb_spec d 3), (N.ltb_spec d' 3);
    destruct (N.eqb_spec d 0), (N.eqb_spec d 1), (N.eqb_spec d' 0), (N.eqb_spec d' 1); lia.
Qed.

(* ---- Revision::next: +1, a panic (None) exactly on usize overflow *)
Lemma k_rev_next_ok r :
  r + 1 < 18446744073709551616 -> k_rev_next r = Some (r + 1).
Proof.
  intros H. unfold k_rev_next, k_rev_from. cbn zeta.
  rewrite N.mod_small by exact H. destruct (N.eqb_spec (r + 1) 0); [lia | reflexivity].
Qed.

Lemma k_rev_next_overflow : k_rev_next 18446744073709551615 = None.
Proof. reflexivity. Qed.

Lemma k_rev_next_none_iff r :
  r < 18446744073709551616 -> (k_rev_next r = None <-> r = 18446744073709551615).
Proof.
  intros Hr. split.
  - intros H. destruct (N.eq_dec r 18446744073709551615) as [|Hne]; [assumption|].
    rewrite k_rev_next_ok in H by lia. discriminate.
  - intros ->. reflexivity.
Qed.

Lemma k_rev_next_increases r r' : r < 18446744073709551616 -> k_rev_next r = Some r' -> r < r'.
Proof.
  intros Hr H. destruct (N.eq_dec r 18446744073709551615) as [->|Hne].
  - rewrite k_rev_next_overflow in H. discriminate.
  - rewrite k_rev_next_ok in H by lia. injection H as <-. lia.
Qed.

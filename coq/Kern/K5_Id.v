(* Kern/K5_Id.v — interface lemmas about the translated salsa::Id (src/id.rs). *)
From Coq Require Import NArith ZArith Bool Lia.
From Salsa.gen Require Import Kernels.
From Salsa.Kern Require Import KBits.
Open Scope N_scope.

Ltac Zify.zify_post_hook ::= Z.to_euclidean_division_equations.

Lemma k_ID_MAX_U32_val : k_ID_MAX_U32 = 4294967040.
Proof. reflexivity. Qed.
Lemma k_ID_MAX_USIZE_val : k_ID_MAX_USIZE = 4294967040.
Proof. reflexivity. Qed.

(* a well-formed Id: NonZeroU32 index word, u32 generation *)
Definition id_wf (id : k_Id) : Prop :=
  1 <= k_Id_index id /\ k_Id_index id < 4294967296 /\ k_Id_generation id < 4294967296.

Lemma k_id_as_bits_eq id :
  id_wf id -> k_id_as_bits id = k_Id_index id + k_Id_generation id * 4294967296.
Proof.
  intros (H1 & H2 & H3). unfold k_id_as_bits.
  rewrite N.mod_small.
  - change 4294967296 with (2 ^ 32). apply lor_shiftl_add. exact H2.
  - change 18446744073709551616 with (2 ^ (32 + 32)). apply shiftl_bound. exact H3.
Qed.

Lemma k_id_as_bits_range id : id_wf id -> k_id_as_bits id < 18446744073709551616.
Proof. intros H. rewrite k_id_as_bits_eq by exact H. destruct H as (H1 & H2 & H3). lia. Qed.

Lemma k_id_from_bits_eq bits :
  k_id_from_bits bits =
  if bits mod 4294967296 =? 0 then None
  else Some (mk_k_Id (bits mod 4294967296) ((bits / 4294967296) mod 4294967296)).
Proof.
  unfold k_id_from_bits. cbn zeta.
  change (N.shiftr bits 32) with (N.shiftr bits 32). rewrite N.shiftr_div_pow2.
  change (2 ^ 32) with 4294967296.
  destruct (bits mod 4294967296 =? 0); reflexivity.
Qed.

(* from_bits ∘ as_bits = id *)
Lemma k_id_from_bits_as_bits id : id_wf id -> k_id_from_bits (k_id_as_bits id) = Some id.
Proof.
  intros H. rewrite k_id_from_bits_eq, k_id_as_bits_eq by exact H.
  destruct id as [i g]. destruct H as (H1 & H2 & H3). cbn [k_Id_index k_Id_generation] in *.
  assert ((i + g * 4294967296) mod 4294967296 = i) as -> by lia.
  assert ((i + g * 4294967296) / 4294967296 mod 4294967296 = g) as -> by lia.
  destruct (N.eqb_spec i 0); [lia | reflexivity].
Qed.

Lemma k_id_as_bits_inj a b : id_wf a -> id_wf b -> k_id_as_bits a = k_id_as_bits b -> a = b.
Proof.
  intros Ha Hb E. apply (f_equal k_id_from_bits) in E.
  rewrite !k_id_from_bits_as_bits in E by assumption. now injection E.
Qed.

Lemma k_id_from_bits_wf bits id : k_id_from_bits bits = Some id -> id_wf id.
Proof.
  rewrite k_id_from_bits_eq. destruct (N.eqb_spec (bits mod 4294967296) 0); [discriminate|].
  intros E. injection E as <-. unfold id_wf. cbn [k_Id_index k_Id_generation]. lia.
Qed.

Lemma k_id_as_bits_from_bits bits id :
  bits < 18446744073709551616 -> k_id_from_bits bits = Some id -> k_id_as_bits id = bits.
Proof.
  intros Hb E. pose proof (k_id_from_bits_wf _ _ E) as Hwf.
  rewrite k_id_as_bits_eq by exact Hwf. revert E. rewrite k_id_from_bits_eq.
  destruct (N.eqb_spec (bits mod 4294967296) 0); [discriminate|].
  intros E. injection E as <-. cbn [k_Id_index k_Id_generation]. lia.
Qed.

Lemma k_id_from_bits_none_iff bits : k_id_from_bits bits = None <-> bits mod 4294967296 = 0.
Proof.
  rewrite k_id_from_bits_eq. destruct (N.eqb_spec (bits mod 4294967296) 0); split;
    intros; try discriminate; try reflexivity; congruence.
Qed.

Lemma k_id_from_bits_unchecked_agrees bits id :
  k_id_from_bits bits = Some id -> k_id_from_bits_unchecked bits = id.
Proof.
  intros E. rewrite k_id_from_bits_eq in E.
  destruct (N.eqb_spec (bits mod 4294967296) 0); [discriminate|]. injection E as <-.
  unfold k_id_from_bits_unchecked. cbn zeta. rewrite N.shiftr_div_pow2.
  change (2 ^ 32) with 4294967296. reflexivity.
Qed.

(* serde: persisted as the u64 bits, restored by from_bits *)
Lemma k_id_serde id : id_wf id -> k_id_de (k_id_ser id) = Some id.
Proof. intros H. unfold k_id_de, k_id_ser. now apply k_id_from_bits_as_bits. Qed.

(* ---- generations *)
Lemma k_id_generation_eq id : k_id_generation id = k_Id_generation id.
Proof. reflexivity. Qed.

Lemma k_id_with_generation_proj id g :
  k_Id_index (k_id_with_generation id g) = k_Id_index id /\
  k_id_generation (k_id_with_generation id g) = g /\
  k_id_index (k_id_with_generation id g) = k_id_index id.
Proof. repeat split. Qed.

Lemma k_id_with_generation_wf id g : id_wf id -> g < 4294967296 -> id_wf (k_id_with_generation id g).
Proof. intros (H1 & H2 & H3) Hg. unfold id_wf. cbn. auto. Qed.

Lemma k_id_next_generation_some id :
  k_id_generation id < 4294967295 ->
  k_id_next_generation id = Some (k_id_with_generation id (k_id_generation id + 1)).
Proof.
  intros H. unfold k_id_next_generation. cbn zeta.
  destruct (N.ltb_spec (k_id_generation id + 1) 4294967296); [reflexivity | lia].
Qed.

Lemma k_id_next_generation_none_iff id :
  k_id_generation id < 4294967296 ->
  (k_id_next_generation id = None <-> k_id_generation id = 4294967295).
Proof.
  intros Hg. unfold k_id_next_generation. cbn zeta.
  destruct (N.ltb_spec (k_id_generation id + 1) 4294967296); split; intros; try discriminate;
    try reflexivity; lia.
Qed.

Lemma k_id_next_generation_spec id id' :
  k_id_next_generation id = Some id' ->
  k_id_generation id' = k_id_generation id + 1 /\ k_id_index id' = k_id_index id /\
  k_id_generation id' < 4294967296.
Proof.
  unfold k_id_next_generation. cbn zeta.
  destruct (N.ltb_spec (k_id_generation id + 1) 4294967296); [|discriminate].
  intros E. injection E as <-. cbn. repeat split. exact H.
Qed.

(* ---- index <-> NonZero representation *)
Lemma k_id_index_eq id : 1 <= k_Id_index id -> k_Id_index id < 4294967296 ->
  k_id_index id = k_Id_index id - 1.
Proof. intros H1 H2. unfold k_id_index. lia. Qed.

Lemma k_id_from_index_wf i : i < 4294967295 -> id_wf (k_id_from_index i).
Proof. intros H. unfold id_wf, k_id_from_index. cbn [k_Id_index k_Id_generation]. lia. Qed.

Lemma k_id_from_index_pre_wf i : k_id_from_index_pre i = true -> id_wf (k_id_from_index i).
Proof.
  unfold k_id_from_index_pre. rewrite k_ID_MAX_U32_val. intros H%N.ltb_lt.
  apply k_id_from_index_wf. lia.
Qed.

Lemma k_id_index_from_index i :
  i < 4294967295 -> k_id_index (k_id_from_index i) = i /\ k_id_generation (k_id_from_index i) = 0.
Proof. intros H. unfold k_id_index, k_id_from_index. cbn [k_Id_index k_id_generation k_Id_generation]. lia. Qed.

Lemma k_id_from_index_inj i j :
  i < 4294967295 -> j < 4294967295 -> k_id_from_index i = k_id_from_index j -> i = j.
Proof.
  intros Hi Hj E. apply (f_equal k_id_index) in E.
  now rewrite (proj1 (k_id_index_from_index i Hi)), (proj1 (k_id_index_from_index j Hj)) in E.
Qed.

Lemma k_id_from_index_index id :
  id_wf id -> k_id_with_generation (k_id_from_index (k_id_index id)) (k_id_generation id) = id.
Proof.
  destruct id as [i g]. intros (H1 & H2 & H3). cbn [k_Id_index k_Id_generation] in *.
  unfold k_id_with_generation, k_id_from_index, k_id_index, k_id_generation.
  cbn [k_Id_index k_Id_generation]. f_equal. lia.
Qed.

Example id_wf_ex : id_wf (mk_k_Id 1 4294967295) /\
  k_id_from_bits (k_id_as_bits (mk_k_Id 1 4294967295)) = Some (mk_k_Id 1 4294967295) /\
  k_id_next_generation (mk_k_Id 1 4294967295) = None.
Proof. unfold id_wf. cbn [k_Id_index k_Id_generation]. repeat split; lia. Qed.

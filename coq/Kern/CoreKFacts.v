(* Kern/CoreKFacts.v — the facts about the (translated) kernels that the Core proofs use.
   Proved against whatever coq/gen/Kernels.v says on this run. *)
From Salsa Require Import Base.
From Salsa.gen Require Import Kernels.
From Salsa.Kern Require Import CoreK.

Lemma shallow_ok_spec lc v : shallow_ok lc v = true <-> lc <= v.
Proof.
  unfold shallow_ok, k_shallow_ok.
  destruct (N.leb_spec lc v); split; intros; try lia; try reflexivity; discriminate.
Qed.

Lemma changed_after_spec stamp since : changed_after stamp since = true <-> since < stamp.
Proof.
  unfold changed_after, k_changed_after, k_changed_after_hot.
  destruct (N.ltb_spec since stamp); split; intros; try lia; try reflexivity; discriminate.
Qed.

Lemma changed_after_false stamp since : changed_after stamp since = false <-> stamp <= since.
Proof.
  pose proof (changed_after_spec stamp since) as H.
  destruct (changed_after stamp since); split; intros Hx; try reflexivity; try discriminate.
  - assert (since < stamp) by (apply H; reflexivity). lia.
  - destruct (N.le_gt_cases stamp since) as [Hle|Hgt]; [exact Hle|].
    apply H in Hgt; discriminate.
Qed.

Lemma can_backdate_dur_spec n o : can_backdate_dur n o = true <-> o <= n.
Proof.
  unfold can_backdate_dur, k_can_backdate_dur.
  destruct (N.leb_spec o n); split; intros; try lia; try reflexivity; discriminate.
Qed.

Lemma last_changed_low r : last_changed r 0 = r_cur r.
Proof. reflexivity. Qed.

Lemma last_changed_medium r : last_changed r 1 = r_med r.
Proof. reflexivity. Qed.

Lemma last_changed_high r : last_changed r 2 = r_high r.
Proof. reflexivity. Qed.

Lemma last_changed_never r : last_changed r 3 = 1.
Proof. reflexivity. Qed.

Lemma report_write_cur r d : r_cur (report_write r d) = r_cur r.
Proof. reflexivity. Qed.


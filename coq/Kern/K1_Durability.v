(* Kern/K1_Durability.v — interface lemmas about the translated durability kernels
   (coq/gen/Kernels.v, regenerated from src/durability.rs on every run). *)
From Coq Require Import NArith Bool Lia.
From Salsa.gen Require Import Kernels.
Open Scope N_scope.

Lemma k_DUR_LOW_val : k_DUR_LOW = 0.        Proof. reflexivity. Qed.
Lemma k_DUR_MEDIUM_val : k_DUR_MEDIUM = 1.  Proof. reflexivity. Qed.
Lemma k_DUR_HIGH_val : k_DUR_HIGH = 2.      Proof. reflexivity. Qed.
Lemma k_DUR_NEVER_val : k_DUR_NEVER = 3.    Proof. reflexivity. Qed.

Lemma k_DUR_order : k_DUR_LOW < k_DUR_MEDIUM /\ k_DUR_MEDIUM < k_DUR_HIGH /\ k_DUR_HIGH < k_DUR_NEVER.
Proof. repeat split; reflexivity. Qed.

Lemma k_DUR_LEN_val : k_DUR_LEN = 3.
Proof. reflexivity. Qed.

(* NEVER_CHANGE is the only level without a runtime slot *)
Lemma k_DUR_LEN_never : k_DUR_LEN = k_DUR_NEVER /\ k_DUR_HIGH + 1 = k_DUR_LEN.
Proof. split; reflexivity. Qed.

Lemma k_DUR_MIN_is_LOW : k_DUR_MIN = k_DUR_LOW.
Proof. reflexivity. Qed.

Lemma k_DUR_MAX_is_NEVER : k_DUR_MAX = k_DUR_NEVER.
Proof. reflexivity. Qed.

Lemma k_dur_index_id d : k_dur_index d = d.
Proof. reflexivity. Qed.

Lemma k_dur_index_inj a b : k_dur_index a = k_dur_index b -> a = b.
Proof. now rewrite !k_dur_index_id. Qed.

(* every durability value is one of the four constants and has a slot unless NEVER *)
Lemma k_dur_slot d : d <= k_DUR_MAX -> (k_dur_index d < k_DUR_LEN <-> d <> k_DUR_NEVER).
Proof.
  rewrite k_DUR_MAX_is_NEVER, k_DUR_NEVER_val, k_DUR_LEN_val, k_dur_index_id. lia.
Qed.
